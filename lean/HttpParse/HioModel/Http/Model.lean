import HioModel.Gen.HttpTables
/-!
# Executable model of hio's incremental HTTP / SSE parsing (hio.core.http httping / serving / clienting)

Faithful to the tree with the `fix/httpparse` commits.  Import-free (compiled into the driver).

* `scan` / `lineStep`   : httping.findEol + the MAX_LINE_SIZE checks of parseLine / parseLeader
* `Reader`              : a framed incremental reader — each state says what it needs next (a line, n bytes, everything,
                          nothing) and what it does with it; `Reader.run` is "parse as far as the buffer allows"
* `sseReader`           : EventSource.parseEvents
* `chunkReader`         : parseChunk called in a loop (as parseBody does)
* `reqReader`           : Requestant.parseHead/parseBody under Parsent.parseMessage, pipelined (Server.serviceReqs/Reps)
* `respReader`, `respClose` : Respondent.parseHead/parseBody, plus the far side closing (Client.service)
* exceptions are values: every raising step returns `Except Exn _`; `catchMessage` is the `except HTTPException` of
  Parsent.parseMessage; what it does not catch becomes the terminal phase `escaped`.
-/
namespace Hio.Http
open Hio.Gen.Http

abbrev Bytes := List Nat

/-! ## Python text primitives (tables probed from CPython by the translator) -/

def lowerB (x : Nat) : Nat := latin1Lower.getD x x
def lower (b : Bytes) : Bytes := b.map lowerB
def isStrSpace (x : Nat) : Bool := strSpace.contains x
def isBytesSpace (x : Nat) : Bool := bytesSpace.contains x
def isIntSpace (x : Nat) : Bool := intSpace.contains x
def isHexDigit (x : Nat) : Bool := hexDigits.contains x

def lstrip (p : Nat → Bool) : Bytes → Bytes
  | [] => []
  | x :: xs => if p x then lstrip p xs else x :: xs
def strip (p : Nat → Bool) (b : Bytes) : Bytes := (lstrip p (lstrip p b).reverse).reverse

/-- `str.split()` : maximal runs of non-space -/
def splitWsAux : Bytes → Bytes → List Bytes
  | [], cur => if cur.isEmpty then [] else [cur.reverse]
  | x :: xs, cur =>
    if isStrSpace x then (if cur.isEmpty then splitWsAux xs [] else cur.reverse :: splitWsAux xs [])
    else splitWsAux xs (x :: cur)
def splitWs (b : Bytes) : List Bytes := splitWsAux b []

def isPrefix : Bytes → Bytes → Bool
  | [], _ => true
  | _ :: _, [] => false
  | p :: ps, x :: xs => p == x && isPrefix ps xs

/-- `sub in s` -/
def isInfix (sub : Bytes) : Bytes → Bool
  | [] => sub.isEmpty
  | x :: xs => isPrefix sub (x :: xs) || isInfix sub xs

/-- `s.partition(sep)` for a non-empty sep : (before, found, after) -/
def partitionB (sep : Bytes) : Bytes → Bytes × Bool × Bytes
  | [] => ([], false, [])
  | x :: xs =>
    if isPrefix sep (x :: xs) then ([], true, (x :: xs).drop sep.length)
    else
      let r := partitionB sep xs
      if r.2.1 then (x :: r.1, true, r.2.2) else (x :: xs, false, [])

/-- `s.rpartition(c)` for one byte c, when c occurs: (before last c, after) -/
def rpartition1 (c : Nat) (b : Bytes) : Option (Bytes × Bytes) :=
  let r := partitionB [c] b.reverse
  if r.2.1 then some (r.2.2.reverse, r.1.reverse) else none

/-- `s.split(c)` for one byte -/
def split1Aux (c : Nat) : Bytes → Bytes → List Bytes
  | [], cur => [cur.reverse]
  | x :: xs, cur => if x == c then cur.reverse :: split1Aux c xs [] else split1Aux c xs (x :: cur)
def split1 (c : Nat) (b : Bytes) : List Bytes := split1Aux c b []

def isDigit (x : Nat) : Bool := 48 ≤ x && x ≤ 57

def digitsVal : Bytes → Nat → Nat
  | [], acc => acc
  | x :: xs, acc => digitsVal xs (acc * 10 + (x - 48))

/-- body of a decimal literal: digits with single underscores between digits; returns the digits -/
def decBody : Bytes → Bool → Bytes → Option Bytes
  | [], lastDigit, acc => if lastDigit then some acc.reverse else none
  | x :: xs, lastDigit, acc =>
    if isDigit x then decBody xs true (x :: acc)
    else if x == 95 && lastDigit then decBody xs false acc
    else none

/-- `int(s)` for a str made of latin-1 code points: surrounding white space, sign, digits, `_` between digits;
`none` is ValueError (also above the interpreter's digit limit) -/
def pyInt (s : Bytes) : Option Int :=
  let t := strip isIntSpace s
  let (neg, rest) := match t with
    | 45 :: r => (true, r)
    | 43 :: r => (false, r)
    | r => (false, r)
  match decBody rest false [] with
  | some ds =>
    if intMaxStrDigits != 0 && ds.length > intMaxStrDigits then none
    else let n := digitsVal ds 0; some (if neg then - (Int.ofNat n) else Int.ofNat n)
  | none => none

def hexDigitVal (x : Nat) : Nat :=
  if 48 ≤ x && x ≤ 57 then x - 48 else if 97 ≤ x && x ≤ 102 then x - 87 else if 65 ≤ x && x ≤ 70 then x - 55 else 0
def hexVal : Bytes → Nat → Nat
  | [], acc => acc
  | x :: xs, acc => hexVal xs (acc * 16 + hexDigitVal x)

def ascii (s : String) : Bytes := s.toList.map Char.toNat

/-! ## end-of-line search (httping.findEol, pendingEol) -/

structure EolCfg where
  crlf : Bool
  lf : Bool
  cr : Bool
deriving DecidableEq, Repr

def httpEol : EolCfg := ⟨true, true, false⟩     -- (CRLF, LF)
def chunkEol : EolCfg := ⟨true, false, false⟩   -- (CRLF,)
def sseEol : EolCfg := ⟨true, true, true⟩       -- (CRLF, LF, CR)

/-- earliest end of line, the longer on a tie; a CR that ends the buffer while CRLF is allowed is undecided.
`some (line, rest)` or `none` (need more bytes).  Mirrors httping.findEol. -/
def consL (x : Nat) (o : Option (Bytes × Bytes)) : Option (Bytes × Bytes) := o.map (fun p => (x :: p.1, p.2))

def scan (c : EolCfg) : Bytes → Option (Bytes × Bytes)
  | [] => none
  | x :: rest =>
    if x = 10 ∧ c.lf = true then some ([], rest)
    else if x = 13 then
      match rest with
      | [] => if c.cr = true ∧ c.crlf = false then some ([], []) else none
      | y :: rest' =>
        if y = 10 ∧ c.crlf = true then some ([], rest')
        else if c.cr = true then some ([], rest)
        else consL x (scan c rest)
    else consL x (scan c rest)

def pend (c : EolCfg) (b : Bytes) : Nat := if c.crlf = true ∧ b.getLast? = some 13 then 1 else 0

theorem consL_some {x : Nat} {o : Option (Bytes × Bytes)} {l r : Bytes} (h : consL x o = some (l, r)) :
    ∃ l', o = some (l', r) ∧ l = x :: l' := by
  cases o with
  | none => simp [consL] at h
  | some p => obtain ⟨a, b⟩ := p; simp [consL] at h; exact ⟨a, by simp [h.2], h.1.symm⟩

theorem scan_shorter (c : EolCfg) : ∀ (b l r : Bytes), scan c b = some (l, r) → r.length < b.length := by
  intro b
  induction b with
  | nil => intro l r h; simp [scan] at h
  | cons x rest ih =>
    intro l r h
    unfold scan at h
    split at h
    · simp at h; obtain ⟨_, rfl⟩ := h; simp
    · split at h
      · split at h
        · split at h <;> simp at h
          obtain ⟨_, rfl⟩ := h; simp
        · split at h
          · simp at h; obtain ⟨_, rfl⟩ := h; simp; omega
          · split at h
            · simp at h; obtain ⟨_, rfl⟩ := h; simp
            · obtain ⟨l', h1, _⟩ := consL_some h
              have := ih l' r h1; simp at this ⊢; omega
      · obtain ⟨l', h1, _⟩ := consL_some h
        have := ih l' r h1; simp at this ⊢; omega

theorem scan_ext (c : EolCfg) : ∀ (b l r m : Bytes), scan c b = some (l, r) → scan c (b ++ m) = some (l, r ++ m) := by
  intro b
  induction b with
  | nil => intro l r m h; simp [scan] at h
  | cons x rest ih =>
    intro l r m h
    unfold scan at h
    rw [List.cons_append]
    unfold scan
    split at h
    · rename_i hx; simp at h; obtain ⟨rfl, rfl⟩ := h; simp [hx]
    · rename_i hx
      simp only [hx, if_false]
      split at h
      · rename_i h13
        subst h13
        simp only [↓reduceIte]
        split at h
        · -- rest = []
          split at h
          · rename_i hc; simp at h; obtain ⟨rfl, rfl⟩ := h
            cases m with
            | nil => simp [hc]
            | cons y ms => simp [hc]
          · simp at h
        · -- rest = y :: rest'
          rename_i y rest'
          simp only [List.cons_append]
          split at h
          · rename_i hy; simp at h; obtain ⟨rfl, rfl⟩ := h; simp [hy]
          · rename_i hy
            simp only [hy, if_false]
            split at h
            · rename_i hcr; simp at h; obtain ⟨rfl, rfl⟩ := h; simp [hcr]
            · rename_i hcr
              simp only [hcr, if_false]
              obtain ⟨l', h1, h2⟩ := consL_some h
              have := ih l' r m h1
              rw [List.cons_append] at this
              simp [this, consL, h2]
      · rename_i h13
        simp only [h13, if_false]
        obtain ⟨l', h1, h2⟩ := consL_some h
        have := ih l' r m h1
        simp [this, consL, h2]

theorem pend_cons (c : EolCfg) (x y : Nat) (rest : Bytes) : pend c (x :: y :: rest) = pend c (y :: rest) := by
  simp [pend, List.getLast?_cons_cons]

theorem pend_le_one (c : EolCfg) (b : Bytes) : pend c b ≤ 1 := by
  unfold pend; split <;> omega

theorem pend_le_len (c : EolCfg) (b : Bytes) : pend c b ≤ b.length := by
  unfold pend; split
  · rename_i h; cases b with
    | nil => simp at h
    | cons x xs => simp
  · omega

theorem consL_none {x : Nat} {o : Option (Bytes × Bytes)} (h : consL x o = none) : o = none := by
  cases o with
  | none => rfl
  | some p => simp [consL] at h

theorem scan_late (c : EolCfg) : ∀ (b l r m : Bytes), scan c b = none → scan c (b ++ m) = some (l, r) →
    b.length ≤ l.length + pend c b := by
  intro b
  induction b with
  | nil => intro l r m _ _; simp
  | cons x rest ih =>
    intro l r m hn hs
    unfold scan at hn
    rw [List.cons_append] at hs
    unfold scan at hs
    split at hn
    · simp at hn
    · rename_i hx
      simp only [hx, if_false] at hs
      split at hn
      · rename_i h13
        subst h13
        simp only [↓reduceIte] at hs
        split at hn
        · -- rest = []
          split at hn
          · simp at hn
          · rename_i hc
            by_cases hcrlf : c.crlf = true
            · simp [pend, hcrlf]
            · cases m with
              | nil => simp at hs; simp [hc] at hs
              | cons y ms =>
                simp only [List.nil_append] at hs
                have hcr : ¬ c.cr = true := by
                  intro h; apply hc; exact ⟨h, by simpa using hcrlf⟩
                simp [hcrlf, hcr] at hs
                obtain ⟨l', _, h2⟩ := consL_some hs
                simp [h2]; omega
        · rename_i y rest'
          simp only [List.cons_append] at hs
          split at hn
          · simp at hn
          · rename_i hy
            simp only [hy, if_false] at hs
            split at hn
            · simp at hn
            · rename_i hcr
              simp only [hcr, if_false] at hs
              have h0 := consL_none hn
              obtain ⟨l', h1, h2⟩ := consL_some hs
              have := ih l' r m h0 (by rw [List.cons_append]; exact h1)
              rw [pend_cons, h2]; simp at this ⊢; omega
      · rename_i h13
        simp only [h13, if_false] at hs
        have h0 := consL_none hn
        obtain ⟨l', h1, h2⟩ := consL_some hs
        have := ih l' r m h0 h1
        cases rest with
        | nil => simp [h2]; omega
        | cons y rest' => rw [pend_cons, h2]; simp at this ⊢; omega

theorem pend_mono (c : EolCfg) (b m : Bytes) : b.length - pend c b ≤ (b ++ m).length - pend c (b ++ m) := by
  cases m with
  | nil => simp
  | cons y ms =>
    have := pend_le_one c (b ++ y :: ms)
    have := pend_le_len c b
    simp; omega

inductive LineRes where
  | wait
  | long
  | line (l r : Bytes)
deriving Repr, DecidableEq

def lineStep (c : EolCfg) (max : Nat) (b : Bytes) : LineRes :=
  match scan c b with
  | some (l, r) => if l.length > max then .long else .line l r
  | none => if b.length - pend c b > max then .long else .wait

theorem lineStep_line_ext (c : EolCfg) (max : Nat) (b l r m : Bytes) (h : lineStep c max b = .line l r) :
    lineStep c max (b ++ m) = .line l (r ++ m) := by
  unfold lineStep at h
  split at h
  · rename_i l' r' hs
    split at h
    · simp at h
    · rename_i hl; simp at h; obtain ⟨rfl, rfl⟩ := h
      unfold lineStep; rw [scan_ext c b l' r' m hs]; simp [hl]
  · split at h <;> simp at h

theorem lineStep_long_ext (c : EolCfg) (max : Nat) (b m : Bytes) (h : lineStep c max b = .long) :
    lineStep c max (b ++ m) = .long := by
  unfold lineStep at h
  split at h
  · rename_i l' r' hs
    split at h
    · rename_i hl; unfold lineStep; rw [scan_ext c b l' r' m hs]; simp [hl]
    · simp at h
  · rename_i hn
    split at h
    · rename_i hl
      unfold lineStep
      cases hs : scan c (b ++ m) with
      | none => have := pend_mono c b m; simp only [List.length_append] at this ⊢; simp; omega
      | some p =>
        obtain ⟨l, r⟩ := p
        have := scan_late c b l r m hn hs
        simp; omega
    · simp at h


/-! ## the framed incremental reader -/

inductive Need where
  | stop
  | line (c : EolCfg)
  | bytes (n : Nat)
  | all
deriving Repr, DecidableEq

structure Reader (σ : Type) where
  need : σ → Need
  onLine : σ → Bytes → σ
  onLong : σ → σ
  onBytes : σ → Bytes → σ
  onAll : σ → Bytes → σ
  rank : σ → Nat
  maxLine : Nat
  long_dec : ∀ s c, need s = .line c → rank (onLong s) < rank s
  zero_dec : ∀ s, need s = .bytes 0 → rank (onBytes s []) < rank s
  all_stay : ∀ s a, need s = .all → need (onAll s a) = .all
  all_hom : ∀ s a m, need s = .all → onAll (onAll s a) m = onAll s (a ++ m)

variable {σ : Type}

def Reader.step (p : Reader σ) (s : σ) (b : Bytes) : Option (σ × Bytes) :=
  match p.need s with
  | .stop => none
  | .line c =>
    match lineStep c p.maxLine b with
    | .wait => none
    | .long => some (p.onLong s, b)
    | .line l r => some (p.onLine s l, r)
  | .bytes n => if b.length < n then none else some (p.onBytes s (b.take n), b.drop n)
  | .all => if b = [] then none else some (p.onAll s b, [])

theorem lineStep_line_shorter (c : EolCfg) (max : Nat) (b l r : Bytes) (h : lineStep c max b = .line l r) :
    r.length < b.length := by
  unfold lineStep at h
  split at h
  · rename_i l' r' hs
    split at h
    · simp at h
    · simp at h; obtain ⟨rfl, rfl⟩ := h; exact scan_shorter c b _ _ hs
  · split at h <;> simp at h

theorem Reader.step_dec (p : Reader σ) (s : σ) (b : Bytes) (s' : σ) (b' : Bytes) (h : p.step s b = some (s', b')) :
    b'.length < b.length ∨ (b'.length = b.length ∧ p.rank s' < p.rank s) := by
  unfold Reader.step at h
  split at h
  · simp at h
  · rename_i c hn
    split at h
    · simp at h
    · simp at h; obtain ⟨rfl, rfl⟩ := h; right; exact ⟨rfl, p.long_dec s c hn⟩
    · rename_i l r hl
      simp at h; obtain ⟨rfl, rfl⟩ := h
      left; exact lineStep_line_shorter c _ b l _ hl
  · rename_i n hn
    split at h
    · simp at h
    · simp at h; obtain ⟨rfl, rfl⟩ := h
      rename_i hlen
      by_cases h0 : n = 0
      · right; subst h0; simp; exact p.zero_dec s hn
      · left; simp; omega
  · split at h
    · simp at h
    · rename_i hb
      simp at h; obtain ⟨rfl, rfl⟩ := h; left
      cases b with
      | nil => simp at hb
      | cons x xs => simp

def Reader.run (p : Reader σ) (s : σ) (b : Bytes) : σ × Bytes :=
  match h : p.step s b with
  | none => (s, b)
  | some (s', b') => p.run s' b'
termination_by (b.length, p.rank s)
decreasing_by
  have := p.step_dec s b s' b' h
  rcases this with h1 | ⟨h1, h2⟩
  · exact Prod.Lex.left _ _ h1
  · rw [h1]; exact Prod.Lex.right _ h2

def Reader.feed (p : Reader σ) (st : σ × Bytes) (chunk : Bytes) : σ × Bytes :=
  p.run st.1 (st.2 ++ chunk)

theorem Reader.run_none (p : Reader σ) (s : σ) (b : Bytes) (h : p.step s b = none) : p.run s b = (s, b) := by
  rw [Reader.run.eq_def]; split
  · rfl
  · rename_i s' b' h'; rw [h] at h'; cases h'

theorem Reader.run_some (p : Reader σ) (s : σ) (b : Bytes) (s' : σ) (b' : Bytes)
    (h : p.step s b = some (s', b')) : p.run s b = p.run s' b' := by
  rw [Reader.run.eq_def]; split
  · rename_i h'; rw [h] at h'; cases h'
  · rename_i s'' b'' h'; rw [h] at h'; cases h'; rfl

/-- a decision taken on a buffer is the same decision on any extension of it (all states except `all`) -/
theorem Reader.step_ext (p : Reader σ) (s : σ) (b : Bytes) (s' : σ) (b' m : Bytes)
    (hne : p.need s ≠ .all) (h : p.step s b = some (s', b')) : p.step s (b ++ m) = some (s', b' ++ m) := by
  unfold Reader.step at h ⊢
  split at h
  · simp at h
  · rename_i c hn
    split at h
    · simp at h
    · rename_i hl; simp at h; obtain ⟨rfl, rfl⟩ := h
      simp [lineStep_long_ext c _ b m hl]
    · rename_i l r hl; simp at h; obtain ⟨rfl, rfl⟩ := h
      simp [lineStep_line_ext c _ b l _ m hl]
  · rename_i n hn
    split at h
    · simp at h
    · rename_i hlen; simp at h; obtain ⟨rfl, rfl⟩ := h
      have h1 : ¬ (b ++ m).length < n := by simp; omega
      have h2 : n ≤ b.length := by omega
      simp only [List.length_append] at h1
      simp [List.take_append_of_le_length h2, List.drop_append_of_le_length h2]; omega
  · rename_i hn; exact absurd hn hne

theorem Reader.run_all (p : Reader σ) (s : σ) (b : Bytes) (h : p.need s = .all) :
    p.run s b = (if b = [] then s else p.onAll s b, []) := by
  by_cases hb : b = []
  · subst hb; rw [p.run_none]; · simp
    unfold Reader.step; simp [h]
  · have : p.step s b = some (p.onAll s b, []) := by unfold Reader.step; simp [h, hb]
    rw [p.run_some _ _ _ _ this, p.run_none]; · simp [hb]
    unfold Reader.step; simp [p.all_stay s b h]

theorem Reader.run_append (p : Reader σ) (s : σ) (a m : Bytes) :
    p.run s (a ++ m) = p.feed (p.run s a) m := by
  induction s, a using Reader.run.induct p with
  | case1 s a h => rw [p.run_none s a h]; rfl
  | case2 s a s' a' h ih =>
    by_cases hall : p.need s = .all
    · rw [p.run_all s a hall, p.run_all s (a ++ m) hall]
      unfold Reader.feed
      by_cases ha : a = []
      · subst ha; simp [p.run_all s m hall]
      · simp only [ha, if_false, List.nil_append]
        rw [p.run_all _ m (p.all_stay s a hall)]
        by_cases hm : m = []
        · subst hm; simp [ha]
        · simp [ha, hm, p.all_hom s a m hall]
    · have hx := p.step_ext s a s' a' m hall h
      rw [p.run_some _ _ _ _ hx, p.run_some _ _ _ _ h, ih]

/-- any fragmentation of the input gives the state and leftover of the whole input -/
theorem Reader.feed_foldl (p : Reader σ) (s : σ) (pre : Bytes) (chunks : List Bytes) :
    chunks.foldl p.feed (p.run s pre) = p.run s (pre ++ chunks.flatten) := by
  induction chunks generalizing pre with
  | nil => simp
  | cons c cs ih =>
      simp only [List.foldl_cons, List.flatten_cons]
      rw [← p.run_append s pre c, ih (pre ++ c), List.append_assoc]

theorem Reader.run_nil_start (p : Reader σ) (s : σ) (chunks : List Bytes) :
    chunks.foldl p.feed (s, []) = p.run s chunks.flatten ∨ p.step s [] ≠ none := by
  by_cases h : p.step s [] = none
  · left
    have := p.feed_foldl s [] chunks
    rw [p.run_none s [] h] at this
    simpa using this
  · right; exact h

/-! ## exceptions -/

/-- what the modelled code raises, one constructor per raise site kind; `cls` is the Python class -/
inductive Exn where
  | lineTooLong | premature | tooManyHeaders | noLength | badHeader | badChunkSize | badChunkEnd | badUrl
  | badRequestLine | unknownProtocol | badMethod | badStatusLine
deriving Repr, DecidableEq

def Exn.cls : Exn → String
  | .lineTooLong => "LineTooLong" | .premature => "PrematureClosure"
  | .tooManyHeaders => "HTTPException" | .noLength => "HTTPException" | .badHeader => "HTTPException"
  | .badChunkSize => "HTTPException" | .badChunkEnd => "HTTPException" | .badUrl => "InvalidURL"
  | .badRequestLine => "BadRequestLine" | .unknownProtocol => "UnknownProtocol" | .badMethod => "BadMethod"
  | .badStatusLine => "BadStatusLine"

/-- tag printed in observations (the adapter classifies `.error` text the same way) -/
def Exn.tag : Exn → String
  | .lineTooLong => "LineTooLong" | .premature => "PrematureClosure" | .tooManyHeaders => "TooManyHeaders"
  | .noLength => "NoLength" | .badHeader => "BadHeader" | .badChunkSize => "BadChunkSize" | .badChunkEnd => "BadChunkEnd"
  | .badUrl => "BadUrl" | _ => "StartLine"

def isSubclass (a b : String) : Bool := excSub.contains (a, b)
/-- an `except` clause naming the classes `hs` catches an exception of class `c` -/
def catches (hs : List String) (c : String) : Bool := hs.any (isSubclass c)
/-- the handler of Parsent.parseMessage (classes regenerated from the source) -/
def catchMessage (e : Exn) : Bool := catches messageHandlers e.cls

/-! ## headers (multidict.CIMultiDict used with `h[key] = value` only) -/

abbrev Hdrs := List (Bytes × Bytes)

def hset : Hdrs → Bytes → Bytes → Hdrs
  | [], k, v => [(k, v)]
  | (k', v') :: rest, k, v => if lower k' == lower k then (k, v) :: rest else (k', v') :: hset rest k v

def hget (h : Hdrs) (name : Bytes) : Option Bytes :=
  match h.find? (fun kv => lower kv.1 == name) with
  | some kv => some kv.2
  | none => none

/-- one line of parseLeader: `.ok (headers, done)` -/
def leaderLine (h : Hdrs) (line : Bytes) : Except Exn (Hdrs × Bool) :=
  if line.isEmpty then
    if h.length > maxHeaders then .error .tooManyHeaders else .ok (h, true)
  else
    let r := partitionB [58, 32] line
    if !r.2.1 then .error .badHeader
    else
      let h' := hset h r.1 r.2.2
      if h'.length > maxHeaders then .error .tooManyHeaders else .ok (h', false)

/-! ## chunk-size line -/

abbrev Parms := List (Bytes × Option Bytes)

def pset : Parms → Bytes → Option Bytes → Parms
  | [], k, v => [(k, v)]
  | (k', v') :: rest, k, v => if k' == k then (k', v) :: rest else (k', v') :: pset rest k v

def parseExts (exts : Bytes) : Parms :=
  if exts.isEmpty then []
  else (split1 59 exts).foldl (fun acc ext =>
    let e := strip isBytesSpace ext
    let r := partitionB [61] e
    let v := strip isBytesSpace r.2.2
    pset acc (strip isBytesSpace r.1) (if v.isEmpty then none else some v)) []

/-- `size;exts` : plain hex digits only (surrounding white space stripped) -/
def parseSizeLine (line : Bytes) : Except Exn (Nat × Parms) :=
  let r := partitionB [59] line
  let sz := strip isBytesSpace r.1
  if sz.isEmpty || !sz.all isHexDigit then .error .badChunkSize
  else .ok (hexVal sz 0, parseExts r.2.2)

/-! ## UTF-8 decode with errors='replace', re-encoded as UTF-8 (what the observation carries) -/

def isCont (x : Nat) : Bool := 128 ≤ x && x ≤ 191
def fffd : Bytes := [239, 191, 189]

def utf8Fuel : Nat → Bytes → Bytes
  | 0, _ => []
  | _, [] => []
  | f + 1, x :: xs =>
    if x < 128 then x :: utf8Fuel f xs
    else if 194 ≤ x && x ≤ 223 then
      match xs with
      | y :: ys => if isCont y then x :: y :: utf8Fuel f ys else fffd ++ utf8Fuel f xs
      | [] => fffd
    else if 224 ≤ x && x ≤ 239 then
      let lo := if x == 224 then 160 else 128
      let hi := if x == 237 then 159 else 191
      match xs with
      | y :: ys =>
        if lo ≤ y && y ≤ hi then
          match ys with
          | z :: zs => if isCont z then x :: y :: z :: utf8Fuel f zs else fffd ++ utf8Fuel f ys
          | [] => fffd
        else fffd ++ utf8Fuel f xs
      | [] => fffd
    else if 240 ≤ x && x ≤ 244 then
      let lo := if x == 240 then 144 else 128
      let hi := if x == 244 then 143 else 191
      match xs with
      | y :: ys =>
        if lo ≤ y && y ≤ hi then
          match ys with
          | z :: zs =>
            if isCont z then
              match zs with
              | w :: ws => if isCont w then x :: y :: z :: w :: utf8Fuel f ws else fffd ++ utf8Fuel f zs
              | [] => fffd
            else fffd ++ utf8Fuel f ys
          | [] => fffd
        else fffd ++ utf8Fuel f xs
      | [] => fffd
    else fffd ++ utf8Fuel f xs

def utf8Replace (b : Bytes) : Bytes := utf8Fuel (b.length + 1) b

/-! ## server-sent events : EventSource.parseEvents -/

structure Event where
  id : Option Bytes
  name : Bytes
  data : Bytes
deriving Repr, DecidableEq

structure SseSt where
  eid : Option Bytes := none
  ename : Bytes := []
  parts : List Bytes := []          -- in order
  leid : Option Bytes := none
  retry : Option Nat := none
  events : List Event := []         -- in order
  dead : Bool := false              -- LineTooLong was raised
deriving Repr, DecidableEq

def joinLF : List Bytes → Bytes
  | [] => []
  | [x] => x
  | x :: y :: rest => x ++ 10 :: joinLF (y :: rest)

def sseLine (decode : Bytes → Bytes) (s : SseSt) (line : Bytes) : SseSt :=
  if line.isEmpty then
    let evs := if s.parts.isEmpty then s.events else s.events ++ [⟨s.eid, s.ename, joinLF s.parts⟩]
    { s with events := evs, ename := [], parts := [] }
  else
    let r := partitionB [58] line
    if r.2.1 && r.1.isEmpty then s      -- comment
    else
      let field := decode r.1
      let v0 := r.2.2
      let value := decode (match v0 with | 32 :: rest => rest | _ => v0)
      if field == ascii "event" then { s with ename := value }
      else if field == ascii "data" then { s with parts := s.parts ++ [value] }
      else if field == ascii "id" then { s with leid := some value, eid := some value }
      else if field == ascii "retry" then
        if !value.isEmpty && value.all isDigit && !(intMaxStrDigits != 0 && value.length > intMaxStrDigits)
        then { s with retry := some (digitsVal value 0) } else s
      else s

def sseReaderOf (decode : Bytes → Bytes) : Reader SseSt where
  need s := if s.dead then .stop else .line sseEol
  onLine := sseLine decode
  onLong s := { s with dead := true }
  onBytes s _ := s
  onAll s _ := s
  rank s := if s.dead then 0 else 1
  maxLine := maxLineSize
  long_dec := by intro s c h; by_cases hd : s.dead <;> simp_all
  zero_dec := by intro s h; by_cases hd : s.dead <;> simp_all
  all_stay := by intro s a h; by_cases hd : s.dead <;> simp_all
  all_hom := by intro s a m h; rfl

def sseReader : Reader SseSt := sseReaderOf utf8Replace

/-! ## parseChunk in a loop -/

structure ChunkRec where
  size : Nat
  parms : Parms
  trails : Hdrs
  data : Bytes
deriving Repr, DecidableEq

inductive CPhase where
  | size
  | data (n : Nat) (parms : Parms)
  | dend (n : Nat) (parms : Parms) (d : Bytes)
  | trailer (parms : Parms) (acc : Hdrs)
  | done
  | failed (e : Exn)
deriving Repr, DecidableEq

structure ChunkSt where
  out : List ChunkRec := []
  phase : CPhase := .size
deriving Repr, DecidableEq

def chunkOnLine (s : ChunkSt) (line : Bytes) : ChunkSt :=
  match s.phase with
  | .size =>
    match parseSizeLine line with
    | .error e => { s with phase := .failed e }
    | .ok (0, parms) => { s with phase := .trailer parms [] }
    | .ok (n + 1, parms) => { s with phase := .data (n + 1) parms }
  | .dend n parms d =>
    if line.isEmpty then { out := s.out ++ [⟨n, parms, [], d⟩], phase := .size }
    else { s with phase := .failed .badChunkEnd }
  | .trailer parms acc =>
    match leaderLine acc line with
    | .error e => { s with phase := .failed e }
    | .ok (h, true) => { out := s.out ++ [⟨0, parms, h, []⟩], phase := .done }
    | .ok (h, false) => { s with phase := .trailer parms h }
  | _ => s

def chunkNeed (s : ChunkSt) : Need :=
  match s.phase with
  | .size => .line chunkEol
  | .data n _ => .bytes n
  | .dend _ _ _ => .line chunkEol
  | .trailer _ _ => .line httpEol
  | .done => .stop
  | .failed _ => .stop

def chunkReader : Reader ChunkSt where
  need := chunkNeed
  onLine := chunkOnLine
  onLong s := { s with phase := .failed .lineTooLong }
  onBytes s d := match s.phase with
    | .data n parms => { s with phase := .dend n parms d }
    | _ => s
  onAll s _ := s
  rank s := match s.phase with
    | .done => 0 | .failed _ => 0 | .data _ _ => 2 | _ => 1
  maxLine := maxLineSize
  long_dec := by
    intro s c h; unfold chunkNeed at h
    cases hp : s.phase <;> simp_all
  zero_dec := by
    intro s h; unfold chunkNeed at h
    cases hp : s.phase <;> simp_all
  all_stay := by
    intro s a h; unfold chunkNeed at h
    cases hp : s.phase <;> simp_all
  all_hom := by intro s a m h; rfl

/-! ## the encode side: httping.packChunk -/

def hexChar (d : Nat) : Nat := if d < 10 then 48 + d else 87 + d

/-- `"{0:x}".format(n)` -/
def toHex (n : Nat) : Bytes := if n < 16 then [hexChar n] else toHex (n / 16) ++ [hexChar (n % 16)]
termination_by n
decreasing_by omega

/-- packChunk(msg): one chunk `hex(len) CRLF msg CRLF`, whatever the length (the empty msg gives the last chunk) -/
def packChunk (msg : Bytes) : Bytes := toHex msg.length ++ [13, 10] ++ msg ++ [13, 10]

/-- what Responder.write produces for the pieces of a body and the terminating write(b'') -/
def packAll (pieces : List Bytes) : Bytes := (pieces.map packChunk).flatten ++ packChunk []

/-! ## messages -/

structure ReqMsg where
  method : Bytes
  url : Bytes
  vminor : Nat
  headers : Hdrs
  body : Bytes
  trails : Option Hdrs
  parms : Option Parms
  persisted : Bool
  chunked : Bool
deriving Repr, DecidableEq

inductive Outcome (μ : Type) where
  | ok (m : μ)
  | err (e : Exn)
deriving Repr, DecidableEq

/-- derived framing of a head: `chunked`, `length` -/
def isChunked (h : Hdrs) : Bool :=
  match hget h (ascii "transfer-encoding") with
  | some te => !te.isEmpty && lower te == ascii "chunked"
  | none => false

def hasToken (h : Hdrs) (name tok : Bytes) : Bool :=
  match hget h name with
  | some v => !v.isEmpty && isInfix tok (lower v)
  | none => false

def contentLength (h : Hdrs) : Option (Option Nat) :=   -- none: header absent/empty; some none: invalid
  match hget h (ascii "content-length") with
  | some v => if v.isEmpty then none else
      match pyInt v with
      | some i => if i < 0 then some none else some (some i.toNat)
      | none => some none
  | none => none

/-! ### request side -/

inductive QPhase where
  | start
  | head (acc : Hdrs)
  | body (n : Nat)
  | csize
  | cdata (n : Nat)
  | cend
  | trailer (acc : Hdrs)
  | halted                      -- a non persistent request ended: the server answers and closes
  | failed                      -- an errored request ended: the server closes the connection
  | escaped (cls : String)      -- an exception the message parser does not catch left parse()
deriving Repr, DecidableEq

structure ReqSt where
  done : List (Outcome ReqMsg) := []
  phase : QPhase := .start
  method : Bytes := []
  url : Bytes := []
  vminor : Nat := 1
  headers : Hdrs := []
  body : Bytes := []
  chunked : Bool := false
  persisted : Bool := false
  parms : Option Parms := none      -- survive from message to message unless reset (as the attributes do)
  trails : Option Hdrs := none
  badUrls : List Bytes := []        -- request targets on which urllib's urlsplit(...).port raises (parameter)
deriving Repr, DecidableEq

def ReqSt.raise (s : ReqSt) (e : Exn) : ReqSt :=
  if catchMessage e then { s with done := s.done ++ [.err e], phase := .failed }
  else { s with phase := .escaped e.cls }

def ReqSt.finish (s : ReqSt) : ReqSt :=
  let m : ReqMsg := ⟨s.method, s.url, s.vminor, s.headers, s.body, s.trails, s.parms, s.persisted, s.chunked⟩
  { s with done := s.done ++ [.ok m], phase := if s.persisted then .start else .halted }

def methodOk (m : Bytes) : Bool := methods.any (fun x => ascii x == m)

def reqStartLine (s : ReqSt) (line : Bytes) : Except Exn ReqSt :=
  if line.isEmpty then .error .badRequestLine
  else
    let toks := splitWs line
    let method := toks.getD 0 []
    let url := toks.getD 1 []
    let version := toks.getD 2 []
    if !isPrefix (ascii "HTTP/") version then .error .unknownProtocol
    else if !methodOk method then .error .badMethod
    else if !isPrefix (ascii "HTTP/1.") version then .error .unknownProtocol
    else if s.badUrls.contains url then .error .badUrl
    else .ok { s with method := method, url := url, vminor := if isPrefix (ascii "HTTP/1.0") version then 0 else 1,
                      phase := .head [] }

def reqHeadDone (s : ReqSt) (h : Hdrs) : Except Exn ReqSt :=
  let chunked := isChunked h
  let length : Option Nat := if chunked then none else
    match contentLength h with
    | none => some 0
    | some l => l
  let persisted :=
    if s.vminor == 1 then
      if hasToken h (ascii "connection") (ascii "close") then false
      else if !chunked && length.isNone then false else true
    else hasToken h (ascii "connection") (ascii "keep-alive")
  let s := { s with headers := h, chunked := chunked, persisted := persisted, body := [] }
  if chunked then .ok { s with parms := some [], phase := .csize }
  else match length with
    | some n => .ok { s with phase := .body n }
    | none => .error .noLength

def reqOnLineE (s : ReqSt) (line : Bytes) : Except Exn ReqSt :=
  match s.phase with
  | .start => reqStartLine s line
  | .head acc =>
    match leaderLine acc line with
    | .error e => .error e
    | .ok (h, false) => .ok { s with phase := .head h }
    | .ok (h, true) => reqHeadDone s h
  | .csize =>
    match parseSizeLine line with
    | .error e => .error e
    | .ok (n, parms) =>
      let s := if parms.isEmpty then s else { s with parms := some (parms.foldl (fun acc kv => pset acc kv.1 kv.2) (s.parms.getD [])) }
      .ok (if n == 0 then { s with phase := .trailer [] } else { s with phase := .cdata n })
  | .cend => if line.isEmpty then .ok { s with phase := .csize } else .error .badChunkEnd
  | .trailer acc =>
    match leaderLine acc line with
    | .error e => .error e
    | .ok (h, false) => .ok { s with phase := .trailer h }
    | .ok (h, true) => .ok ({ s with trails := if h.isEmpty then s.trails else some h }).finish
  | _ => .ok s

def reqOnLine (s : ReqSt) (line : Bytes) : ReqSt :=
  match reqOnLineE s line with
  | .ok s' => s'
  | .error e => s.raise e

def reqNeed (s : ReqSt) : Need :=
  match s.phase with
  | .start => .line httpEol
  | .head _ => .line httpEol
  | .body n => .bytes n
  | .csize => .line chunkEol
  | .cdata n => .bytes n
  | .cend => .line chunkEol
  | .trailer _ => .line httpEol
  | _ => .stop

def reqOnBytes (s : ReqSt) (d : Bytes) : ReqSt :=
  match s.phase with
  | .body _ => ({ s with body := d }).finish
  | .cdata _ => { s with body := s.body ++ d, phase := .cend }
  | _ => s

def reqRank (s : ReqSt) : Nat :=
  match s.phase with
  | .halted => 0 | .failed => 0 | .escaped _ => 0
  | .body _ => 2 | .cdata _ => 2
  | _ => 1

theorem ReqSt.raise_rank (s : ReqSt) (e : Exn) : reqRank (s.raise e) = 0 := by
  unfold ReqSt.raise; split <;> simp [reqRank]

theorem ReqSt.finish_rank (s : ReqSt) : reqRank s.finish ≤ 1 := by
  unfold ReqSt.finish; by_cases h : s.persisted <;> simp [reqRank, h]

def reqReader : Reader ReqSt where
  need := reqNeed
  onLine := reqOnLine
  onLong s := s.raise .lineTooLong
  onBytes := reqOnBytes
  onAll s _ := s
  rank := reqRank
  maxLine := maxLineSize
  long_dec := by
    intro s c h
    rw [ReqSt.raise_rank]
    unfold reqNeed at h; unfold reqRank
    cases hp : s.phase <;> simp_all
  zero_dec := by
    intro s h
    unfold reqNeed at h
    cases hp : s.phase <;> simp_all
    · have := ReqSt.finish_rank { s with body := [] }
      simp [reqOnBytes, hp, reqRank] at this ⊢
      omega
    · simp [reqOnBytes, hp, reqRank]
  all_stay := by
    intro s a h; unfold reqNeed at h
    cases hp : s.phase <;> simp_all
  all_hom := by intro s a m h; rfl

/-! ### response side -/

structure RespMsg where
  vminor : Nat
  status : Nat
  reason : Bytes
  headers : Hdrs
  body : Bytes
  trails : Option Hdrs
  parms : Option Parms
  persisted : Bool
  chunked : Bool
  evented : Option Bool
  events : Option (List Event)
  leid : Option Bytes
  retry : Nat
deriving Repr, DecidableEq

inductive PPhase where
  | status (fresh : Bool)
  | cont (acc : Hdrs)
  | head (acc : Hdrs)
  | body (n : Nat)
  | csize
  | cdata (n : Nat)
  | cend
  | trailer (acc : Hdrs)
  | untilClose
  | halted
  | failed
  | escaped (cls : String)
deriving Repr, DecidableEq

structure RespSt where
  done : List (Outcome RespMsg) := []
  phase : PPhase := .status true
  head : Bool := false              -- method of the request was HEAD
  vminor : Nat := 1
  version : Bytes := []
  status : Nat := 0
  reason : Bytes := []
  headers : Hdrs := []
  body : Bytes := []
  chunked : Bool := false
  length : Option Nat := none
  persisted : Bool := false
  evented : Option Bool := none
  parms : Option Parms := none
  trails : Option Hdrs := none
  leid : Option Bytes := none
  retry : Nat := 100
  sse : SseSt := {}
  ssePend : Bytes := []             -- EventSource.raw (is .body) : bytes not yet split into lines
  afterChunk : Bool := false        -- the last thing parsed was the end of a non-empty chunk (parseBody is at its
                                    -- `if self.closed and not self.msg: break` test)
deriving Repr, DecidableEq

def RespSt.isEv (s : RespSt) : Bool := s.evented == some true

/-- Respondent.retry / .leid : copied from the event source after every parse when it has a value -/
def RespSt.curRetry (s : RespSt) : Nat := if s.isEv then s.sse.retry.getD s.retry else s.retry
def RespSt.curLeid (s : RespSt) : Option Bytes :=
  if s.isEv then (match s.sse.leid with | some x => some x | none => s.leid) else s.leid

/-- an exception ends the message; what the event source had copied into .retry / .leid stays -/
def RespSt.raise (s : RespSt) (e : Exn) : RespSt :=
  if catchMessage e then { s with done := s.done ++ [.err e], phase := .failed, retry := s.curRetry, leid := s.curLeid }
  else { s with phase := .escaped e.cls }

def RespSt.finish (s : RespSt) : RespSt :=
  let ev := if s.isEv then some s.sse.events else none
  let body := if s.isEv && (s.chunked || s.length.isNone) then s.ssePend else s.body
  let m : RespMsg := ⟨s.vminor, s.status, s.reason, s.headers, body, s.trails, s.parms, s.persisted, s.chunked,
                      s.evented, ev, s.curLeid, s.curRetry⟩
  { s with done := s.done ++ [.ok m], phase := if s.persisted then .status true else .halted,
           evented := if s.persisted then none else s.evented, retry := s.curRetry, leid := s.curLeid }

/-- EventSource.parse() after `d` was appended to its buffer -/
def RespSt.absorb (s : RespSt) (d : Bytes) : RespSt :=
  let r := sseReader.run s.sse (s.ssePend ++ d)
  { s with sse := r.1, ssePend := r.2 }

def respStatusLine (s : RespSt) (line : Bytes) : Except Exn RespSt :=
  if line.isEmpty then .error .badStatusLine
  else
    let toks := splitWs line
    let version := toks.getD 0 []
    let st := toks.getD 1 []
    let reason := (toks.drop 2).foldl (fun acc t => if acc.isEmpty then t else acc ++ 32 :: t) []
    if !isPrefix (ascii "HTTP/") version then .error .badStatusLine
    else match pyInt st with
      | none => .error .badStatusLine
      | some i =>
        if i < 100 || i > 999 then .error .badStatusLine
        else if i.toNat == statusContinue then .ok { s with phase := .cont [] }
        else
          let vm : Option Nat :=
            if version == ascii "HTTP/1.0" || version == ascii "HTTP/0.9" then some 0
            else if isPrefix (ascii "HTTP/1.") version then some 1 else none
          match vm with
          | none => .error .unknownProtocol
          | some v => .ok { s with status := i.toNat, reason := reason, vminor := v, phase := .head [] }

/-- how the body is framed: chunked, a known length, or until the far side closes -/
def respBodyPhase (chunked : Bool) (length : Option Nat) : PPhase :=
  if chunked then .csize else
    match length with
    | some n => .body n
    | none => .untilClose

def respHeadDone (s : RespSt) (h : Hdrs) : Except Exn RespSt :=
  let chunked0 := isChunked h
  let length0 : Option Nat := if chunked0 then none else
    match contentLength h with
    | none => none
    | some l => l
  -- responses to HEAD and with status 1xx / 204 / 304 have no body whatever their header fields say
  let bodiless := s.status == statusNoContent || s.status == statusNotModified || (100 ≤ s.status && s.status < 200) || s.head
  let chunked := if bodiless then false else chunked0
  let length := if bodiless then some 0 else length0
  let ct := hget h (ascii "content-type")
  -- each head starts without an event source (.evented None) whatever the previous response was
  let evented : Option Bool := match ct with
    | some c => if c.isEmpty then none else
        let c' := if c.contains 59 then (match rpartition1 59 c with | some p => p.1 | none => c) else c
        some (isInfix (ascii "text/event-stream") (lower c'))
    | none => none
  let newEs := match ct with
    | some c => !c.isEmpty && evented == some true
    | none => false
  let persisted :=
    if s.vminor == 1 then
      if hasToken h (ascii "connection") (ascii "close") then false
      else if !chunked && length.isNone then false else true
    else
      if evented == some true then true
      else if (match hget h (ascii "keep-alive") with | some v => !v.isEmpty | none => false) then true
      else if hasToken h (ascii "connection") (ascii "keep-alive") then true
      else hasToken h (ascii "proxy-connection") (ascii "keep-alive")
  let s := { s with headers := h, chunked := chunked, length := length, evented := evented, persisted := persisted,
                    body := [], ssePend := if newEs then [] else s.ssePend,
                    sse := if newEs then {} else s.sse }
  .ok { s with parms := if chunked then some [] else s.parms, phase := respBodyPhase chunked length, afterChunk := false }

def respOnLineE (s : RespSt) (line : Bytes) : Except Exn RespSt :=
  match s.phase with
  | .status _ => respStatusLine s line
  | .cont acc =>
    match leaderLine acc line with
    | .error e => .error e
    | .ok (h, false) => .ok { s with phase := .cont h }
    | .ok (_, true) => .ok { s with phase := .status false }
  | .head acc =>
    match leaderLine acc line with
    | .error e => .error e
    | .ok (h, false) => .ok { s with phase := .head h }
    | .ok (h, true) => respHeadDone s h
  | .csize =>
    match parseSizeLine line with
    | .error e => .error e
    | .ok (n, parms) =>
      let s := if parms.isEmpty then s else { s with parms := some (parms.foldl (fun acc kv => pset acc kv.1 kv.2) (s.parms.getD [])) }
      .ok (if n == 0 then { s with phase := .trailer [], afterChunk := false } else { s with phase := .cdata n, afterChunk := false })
  | .cend =>
    if line.isEmpty then
      if s.isEv then
        let s' := s.absorb s.body
        if s'.sse.dead then .error .lineTooLong else .ok { s' with body := [], phase := .csize, afterChunk := true }
      else .ok { s with phase := .csize, afterChunk := true }
    else .error .badChunkEnd
  | .trailer acc =>
    match leaderLine acc line with
    | .error e => .error e
    | .ok (h, false) => .ok { s with phase := .trailer h }
    | .ok (h, true) => .ok ({ s with trails := if h.isEmpty then s.trails else some h }).finish
  | _ => .ok s

def respOnLine (s : RespSt) (line : Bytes) : RespSt :=
  match respOnLineE s line with
  | .ok s' => s'
  | .error e => s.raise e

def respNeed (s : RespSt) : Need :=
  match s.phase with
  | .status _ => .line httpEol
  | .cont _ => .line httpEol
  | .head _ => .line httpEol
  | .body n => .bytes n
  | .csize => .line chunkEol
  | .cdata n => .bytes n
  | .cend => .line chunkEol
  | .trailer _ => .line httpEol
  | .untilClose => .all
  | _ => .stop

def respOnBytes (s : RespSt) (d : Bytes) : RespSt :=
  match s.phase with
  | .body _ => ({ s with body := d }).finish
  | .cdata _ => { s with body := s.body ++ d, phase := .cend }
  | _ => s

def respOnAll (s : RespSt) (d : Bytes) : RespSt :=
  if s.isEv then s.absorb d else { s with body := s.body ++ d }

def respRank (s : RespSt) : Nat :=
  match s.phase with
  | .halted => 0 | .failed => 0 | .escaped _ => 0
  | .body _ => 2 | .cdata _ => 2
  | _ => 1

theorem RespSt.raise_rank (s : RespSt) (e : Exn) : respRank (s.raise e) = 0 := by
  unfold RespSt.raise; split <;> simp [respRank]

theorem RespSt.finish_rank (s : RespSt) : respRank s.finish ≤ 1 := by
  unfold RespSt.finish; by_cases h : s.persisted <;> simp [respRank, h]

theorem RespSt.absorb_absorb (s : RespSt) (a m : Bytes) : (s.absorb a).absorb m = s.absorb (a ++ m) := by
  unfold RespSt.absorb
  simp only
  rw [← List.append_assoc, sseReader.run_append s.sse (s.ssePend ++ a) m]
  rfl

def respReader : Reader RespSt where
  need := respNeed
  onLine := respOnLine
  onLong s := s.raise .lineTooLong
  onBytes := respOnBytes
  onAll := respOnAll
  rank := respRank
  maxLine := maxLineSize
  long_dec := by
    intro s c h
    rw [RespSt.raise_rank]
    unfold respNeed at h; unfold respRank
    cases hp : s.phase <;> simp_all
  zero_dec := by
    intro s h
    unfold respNeed at h
    cases hp : s.phase <;> simp_all
    · have := RespSt.finish_rank { s with body := [] }
      simp [respOnBytes, hp, respRank] at this ⊢
      omega
    · simp [respOnBytes, hp, respRank]
  all_stay := by
    intro s a h; unfold respNeed at h
    cases hp : s.phase <;> simp_all
    unfold respOnAll; split <;> simp [RespSt.absorb, respNeed, hp]
  all_hom := by
    intro s a m h
    unfold respOnAll
    by_cases hev : s.isEv
    · have : (s.absorb a).isEv = true := by simp [RespSt.absorb, RespSt.isEv] at hev ⊢; exact hev
      simp [hev, this, RespSt.absorb_absorb]
    · simp [hev, RespSt.isEv] at *
      simp [RespSt.isEv, hev, List.append_assoc]

/-- an event stream whose line reader raised LineTooLong ends the message as errored at that parse -/
def RespSt.settle (s : RespSt) : RespSt :=
  match s.phase with
  | .untilClose => if s.isEv && s.sse.dead then s.raise .lineTooLong else s
  | _ => s

/-- the far side closed (Client.service calls respondent.close() one cycle after the last bytes), buffer `b` left -/
def respClose (s : RespSt) (b : Bytes) : RespSt :=
  match s.phase with
  | .status fresh => if !fresh && b.isEmpty then s.raise .premature else s
  | .cont _ => if b.isEmpty then s.raise .premature else s
  | .head _ => if b.isEmpty then s.raise .premature else s
  | .body _ => if b.isEmpty then s.raise .premature else s
  | .csize => if b.isEmpty then s.raise .premature else s
  | .cdata _ => if b.isEmpty then s.raise .premature else s
  | .cend => if b.isEmpty then s.raise .premature else s
  | .trailer _ => if b.isEmpty then s.raise .premature else s
  | .untilClose => if s.isEv && s.sse.dead then s.raise .lineTooLong else s.finish
  | _ => s

/-- what is observed after the reads (and, when `closed`, after the far side closed) -/
def respFinal (st : RespSt × Bytes) (closed : Bool) : RespSt × Bytes :=
  let s := st.1.settle
  (if closed then respClose s st.2 else s, st.2)

/-- the owner signals the close BEFORE it parses the last read (hio's Client parses first; other owners and the tree's
tests may not): the only place where the order shows is parseBody's test after a non-empty chunk — when the message was
already in progress, the last read ends exactly after a chunk and nothing is buffered, the body ends there as complete
instead of as a premature closure.  (A message that STARTS in that parse clears .closed.) -/
def respFinalCloseFirst (st1 : RespSt × Bytes) (frag : Bytes) : RespSt × Bytes :=
  let st2 := respReader.feed st1 frag
  let s := st2.1.settle
  let inProgress := !(st1.1.phase == .status true && st1.2.isEmpty)
  if inProgress && !frag.isEmpty && s.phase == .csize && st2.2.isEmpty && s.afterChunk && s.done.length == st1.1.done.length
  then (s.finish, st2.2)
  else (respClose s st2.2, st2.2)

def respRunCloseFirst (head : Bool) (frags : List Bytes) : RespSt × Bytes :=
  let init : RespSt × Bytes := (({ head := head } : RespSt), [])
  match frags.reverse with
  | [] => respFinal init true
  | last :: revInit => respFinalCloseFirst (revInit.reverse.foldl respReader.feed init) last

/-- Client.service over a sequence of reads -/
def respRun (head : Bool) (frags : List Bytes) (closed : Bool) : RespSt × Bytes :=
  respFinal (frags.foldl respReader.feed (({ head := head } : RespSt), [])) closed

/-- a new connection (Client.service after the reconnect): the receive buffer is emptied and a new message parser made,
whatever phase the cut off message was in; when an event stream with a last event id is being followed the request is
sent again (transmit -> reinit, which forgets `evented`).  What survives in the Respondent: last event id, retry, and
the stale attributes; the next evented head builds a new event source over an emptied buffer (`respHeadDone`). -/
def RespSt.reconnect (s : RespSt) : RespSt :=
  match s.phase with
  | .escaped c => { s with phase := .escaped c }
  | _ => { s with phase := .status true, retry := s.curRetry, leid := s.curLeid,
                  evented := if s.isEv && s.curLeid.isSome then none else s.evented }

/-- a sequence of connections through one Respondent: per connection the reads, then the far side closes, then the
reconnect (which starts from an EMPTY receive buffer).  Returns the state and leftover buffer after every connection,
before the reconnect. -/
def respSeq : RespSt → List (List Bytes) → List (RespSt × Bytes)
  | _, [] => []
  | s, frags :: more =>
    let st' := respFinal (frags.foldl respReader.feed (s, [])) true
    st' :: respSeq st'.1.reconnect more

/-- Server.serviceReqs over a sequence of reads on one connection -/
def reqRun (bad : List Bytes) (frags : List Bytes) : ReqSt × Bytes :=
  frags.foldl reqReader.feed (({ badUrls := bad } : ReqSt), [])

/-! ## one service cycle over many connections: an exception that leaves parse() aborts the loop -/

def ReqSt.escapedCls (s : ReqSt) : Option String :=
  match s.phase with
  | .escaped c => some c
  | _ => none

/-- Server.serviceReqs: every connection gets its read and is parsed, in order; what is not caught propagates out of the
loop (`.error cls`) and the connections after it are not served in this cycle -/
def serviceReqs : List ((ReqSt × Bytes) × Bytes) → Except String (List (ReqSt × Bytes))
  | [] => .ok []
  | (st, rd) :: rest =>
    let st' := reqReader.feed st rd
    match st'.1.escapedCls with
    | some c => .error c
    | none =>
      match serviceReqs rest with
      | .ok r => .ok (st' :: r)
      | .error c => .error c

end Hio.Http
