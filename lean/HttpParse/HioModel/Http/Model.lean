import HioModel.Gen.HttpTables
/-!
# Executable model of hio's incremental HTTP / SSE parsing (hio.core.http httping / serving / clienting)

Faithful to the tree with the `fix/httpparse` commits.  Import-free (compiled into the driver).

* `scan` / `lineStep`   : httping.findEol + the MAX_LINE_SIZE checks of parseLine / parseLeader
* `Reader`              : a framed incremental reader — each state says what it needs next (a line, n bytes, everything,
                          nothing) and what it does with it; `Reader.run` is "parse as far as the buffer allows"
* `sseReader`           : EventSource.parseEvents
* `chunkReader`         : parseChunk called in a loop (as parseBody does)
* `reqReader`           : Requestant.parseHead/parseBody under Parsent.parseMessage, pipelined (Server.serviceReqs/Reps)
* `respReader`, `respClose` : Respondent.parseHead/parseBody, plus the far side closing (Client.service)
* exceptions are values: every raising step returns `Except Exn _`; `catchMessage` is the `except HTTPException` of
  Parsent.parseMessage; what it does not catch becomes the terminal phase `escaped`.
-/
namespace Hio.Http
open Hio.Gen.Http

abbrev Bytes := List Nat

/-! ## Python text primitives (tables probed from CPython by the translator) -/

def lowerB (x : Nat) : Nat := latin1Lower.getD x x
def lower (b : Bytes) : Bytes := b.map lowerB
def isStrSpace (x : Nat) : Bool := strSpace.contains x
def isBytesSpace (x : Nat) : Bool := bytesSpace.contains x
def isHexDigit (x : Nat) : Bool := hexDigits.contains x

def lstrip (p : Nat → Bool) : Bytes → Bytes
  | [] => []
  | x :: xs => if p x then lstrip p xs else x :: xs
def strip (p : Nat → Bool) (b : Bytes) : Bytes := (lstrip p (lstrip p b).reverse).reverse

/-- `str.split()` : maximal runs of non-space -/
def splitWsAux : Bytes → Bytes → List Bytes
  | [], cur => if cur.isEmpty then [] else [cur.reverse]
  | x :: xs, cur =>
    if isStrSpace x then (if cur.isEmpty then splitWsAux xs [] else cur.reverse :: splitWsAux xs [])
    else splitWsAux xs (x :: cur)
def splitWs (b : Bytes) : List Bytes := splitWsAux b []

def isPrefix : Bytes → Bytes → Bool
  | [], _ => true
  | _ :: _, [] => false
  | p :: ps, x :: xs => p == x && isPrefix ps xs

/-- `sub in s` -/
def isInfix (sub : Bytes) : Bytes → Bool
  | [] => sub.isEmpty
  | x :: xs => isPrefix sub (x :: xs) || isInfix sub xs

/-- `s.partition(sep)` for a non-empty sep : (before, found, after) -/
def partitionB (sep : Bytes) : Bytes → Bytes × Bool × Bytes
  | [] => ([], false, [])
  | x :: xs =>
    if isPrefix sep (x :: xs) then ([], true, (x :: xs).drop sep.length)
    else
      let r := partitionB sep xs
      if r.2.1 then (x :: r.1, true, r.2.2) else (x :: xs, false, [])

/-- `s.rpartition(c)` for one byte c, when c occurs: (before last c, after) -/
def rpartition1 (c : Nat) (b : Bytes) : Option (Bytes × Bytes) :=
  let r := partitionB [c] b.reverse
  if r.2.1 then some (r.2.2.reverse, r.1.reverse) else none

/-- `s.split(c)` for one byte -/
def split1Aux (c : Nat) : Bytes → Bytes → List Bytes
  | [], cur => [cur.reverse]
  | x :: xs, cur => if x == c then cur.reverse :: split1Aux c xs [] else split1Aux c xs (x :: cur)
def split1 (c : Nat) (b : Bytes) : List Bytes := split1Aux c b []

def isDigit (x : Nat) : Bool := 48 ≤ x && x ≤ 57

def digitsVal : Bytes → Nat → Nat
  | [], acc => acc
  | x :: xs, acc => digitsVal xs (acc * 10 + (x - 48))

/-- body of a decimal literal: digits with single underscores between digits; returns the digits -/
def decBody : Bytes → Bool → Bytes → Option Bytes
  | [], lastDigit, acc => if lastDigit then some acc.reverse else none
  | x :: xs, lastDigit, acc =>
    if isDigit x then decBody xs true (x :: acc)
    else if x == 95 && lastDigit then decBody xs false acc
    else none

/-- `int(s)` for a str made of latin-1 code points: surrounding white space, sign, digits, `_` between digits;
`none` is ValueError (also above the interpreter's digit limit) -/
def pyInt (s : Bytes) : Option Int :=
  let t := strip isStrSpace s
  let (neg, rest) := match t with
    | 45 :: r => (true, r)
    | 43 :: r => (false, r)
    | r => (false, r)
  match decBody rest false [] with
  | some ds =>
    if intMaxStrDigits != 0 && ds.length > intMaxStrDigits then none
    else let n := digitsVal ds 0; some (if neg then - (Int.ofNat n) else Int.ofNat n)
  | none => none

def hexDigitVal (x : Nat) : Nat :=
  if 48 ≤ x && x ≤ 57 then x - 48 else if 97 ≤ x && x ≤ 102 then x - 87 else if 65 ≤ x && x ≤ 70 then x - 55 else 0
def hexVal : Bytes → Nat → Nat
  | [], acc => acc
  | x :: xs, acc => hexVal xs (acc * 16 + hexDigitVal x)

def ascii (s : String) : Bytes := s.toList.map Char.toNat

/-! ## end-of-line search (httping.findEol, pendingEol) -/

structure EolCfg where
  crlf : Bool
  lf : Bool
  cr : Bool
deriving DecidableEq, Repr

def httpEol : EolCfg := ⟨true, true, false⟩     -- (CRLF, LF)
def chunkEol : EolCfg := ⟨true, false, false⟩   -- (CRLF,)
def sseEol : EolCfg := ⟨true, true, true⟩       -- (CRLF, LF, CR)

/-- earliest end of line, the longer on a tie; a CR that ends the buffer while CRLF is allowed is undecided.
`some (line, rest)` or `none` (need more bytes) -/
def scan (c : EolCfg) : Bytes → Option (Bytes × Bytes)
  | [] => none
  | [x] =>
    if x = 10 then (if c.lf then some ([], []) else none)
    else if x = 13 then (if c.cr && !c.crlf then some ([], []) else none)
    else none
  | x :: y :: rest =>
    if x = 10 then
      if c.lf then some ([], y :: rest) else (scan c (y :: rest)).map (fun p => (x :: p.1, p.2))
    else if x = 13 then
      if y = 10 && c.crlf then some ([], rest)
      else if c.cr then some ([], y :: rest)
      else (scan c (y :: rest)).map (fun p => (x :: p.1, p.2))
    else (scan c (y :: rest)).map (fun p => (x :: p.1, p.2))

/-- bytes at the end of the buffer that may be the start of a longer eol (pendingEol) -/
def pend (c : EolCfg) (b : Bytes) : Nat := if c.crlf && b.getLast? == some 13 then 1 else 0

inductive LineRes where
  | wait
  | long
  | line (l r : Bytes)
deriving Repr, DecidableEq

def lineStep (c : EolCfg) (max : Nat) (b : Bytes) : LineRes :=
  match scan c b with
  | some (l, r) => if l.length > max then .long else .line l r
  | none => if b.length - pend c b > max then .long else .wait

theorem scan_shorter (c : EolCfg) : ∀ (b l r : Bytes), scan c b = some (l, r) → r.length < b.length := by
  intro b
  induction b using scan.induct c with
  | case1 => intro l r h; simp [scan] at h
  | case2 x =>
    intro l r h
    simp only [scan] at h
    split at h
    · split at h <;> simp at h; simp [h.2]
    · split at h
      · split at h <;> simp at h; simp [h.2]
      · simp at h
  | case3 x y rest ih =>
    intro l r h
    simp only [scan] at h
    have rec : ∀ l r, Option.map (fun p : Bytes × Bytes => (x :: p.1, p.2)) (scan c (y :: rest)) = some (l, r) → r.length < (x :: y :: rest).length := by
      intro l r h
      cases hs : scan c (y :: rest) with
      | none => simp [hs] at h
      | some p =>
        obtain ⟨l', r'⟩ := p
        simp [hs] at h
        have := ih l' r' hs
        rw [← h.2]; simp at this ⊢; omega
    split at h
    · split at h
      · simp at h; simp [← h.2]
      · exact rec l r h
    · split at h
      · split at h
        · simp at h; simp [← h.2]; omega
        · split at h
          · simp at h; simp [← h.2]
          · exact rec l r h
      · exact rec l r h

/-! ## the framed incremental reader -/

inductive Need where
  | stop
  | line (c : EolCfg)
  | bytes (n : Nat)
  | all
deriving Repr, DecidableEq

structure Reader (σ : Type) where
  need : σ → Need
  onLine : σ → Bytes → σ
  onLong : σ → σ
  onBytes : σ → Bytes → σ
  onAll : σ → Bytes → σ
  rank : σ → Nat
  maxLine : Nat
  long_dec : ∀ s c, need s = .line c → rank (onLong s) < rank s
  zero_dec : ∀ s, need s = .bytes 0 → rank (onBytes s []) < rank s
  all_stay : ∀ s a, need s = .all → need (onAll s a) = .all
  all_hom : ∀ s a m, need s = .all → onAll (onAll s a) m = onAll s (a ++ m)

variable {σ : Type}

/-- one decision on the buffer: consume a decided prefix, or `none` = wait for more bytes / nothing more to do -/
def Reader.step (p : Reader σ) (s : σ) (b : Bytes) : Option (σ × Bytes) :=
  match p.need s with
  | .stop => none
  | .line c =>
    match lineStep c p.maxLine b with
    | .wait => none
    | .long => some (p.onLong s, b)
    | .line l r => some (p.onLine s l, r)
  | .bytes n => if b.length < n then none else some (p.onBytes s (b.take n), b.drop n)
  | .all => if b.isEmpty then none else some (p.onAll s b, [])

theorem Reader.step_dec (p : Reader σ) (s : σ) (b : Bytes) (s' : σ) (b' : Bytes) (h : p.step s b = some (s', b')) :
    b'.length < b.length ∨ (b'.length = b.length ∧ p.rank s' < p.rank s) := by
  unfold Reader.step at h
  split at h
  · simp at h
  · rename_i c hn
    split at h
    · simp at h
    · simp at h; right; rw [← h.1, ← h.2]; exact ⟨rfl, p.long_dec s c hn⟩
    · rename_i l r hl
      simp at h
      left
      unfold lineStep at hl
      split at hl
      · rename_i l' r' hs
        split at hl
        · simp at hl
        · simp at hl; rw [← h.2, ← hl.2]; exact scan_shorter c b l' r' hs
      · split at hl <;> simp at hl
  · rename_i n hn
    split at h
    · simp at h
    · simp at h
      rename_i hlen
      by_cases h0 : n = 0
      · right; subst h0; simp at h; rw [← h.1, ← h.2]; exact ⟨rfl, p.zero_dec s hn⟩
      · left; rw [← h.2]; simp; omega
  · split at h
    · simp at h
    · rename_i hb
      simp at h; left; rw [← h.2]
      cases b with
      | nil => simp at hb
      | cons x xs => simp

/-- parse as far as the buffer allows: final state and unconsumed bytes -/
def Reader.run (p : Reader σ) (s : σ) (b : Bytes) : σ × Bytes :=
  match h : p.step s b with
  | none => (s, b)
  | some (s', b') => p.run s' b'
termination_by (b.length, p.rank s)
decreasing_by
  have := p.step_dec s b s' b' h
  rcases this with h1 | ⟨h1, h2⟩
  · exact Prod.Lex.left _ _ h1
  · rw [h1]; exact Prod.Lex.right _ h2

/-- a read arrives: the parser state carries its unconsumed buffer -/
def Reader.feed (p : Reader σ) (st : σ × Bytes) (chunk : Bytes) : σ × Bytes :=
  p.run st.1 (st.2 ++ chunk)

/-! ## exceptions -/

/-- what the modelled code raises, one constructor per raise site kind; `cls` is the Python class -/
inductive Exn where
  | lineTooLong | premature | tooManyHeaders | noLength | badHeader | badChunkSize | badChunkEnd | badUrl
  | badRequestLine | unknownProtocol | badMethod | badStatusLine
deriving Repr, DecidableEq

def Exn.cls : Exn → String
  | .lineTooLong => "LineTooLong" | .premature => "PrematureClosure"
  | .tooManyHeaders => "HTTPException" | .noLength => "HTTPException" | .badHeader => "HTTPException"
  | .badChunkSize => "HTTPException" | .badChunkEnd => "HTTPException" | .badUrl => "InvalidURL"
  | .badRequestLine => "BadRequestLine" | .unknownProtocol => "UnknownProtocol" | .badMethod => "BadMethod"
  | .badStatusLine => "BadStatusLine"

/-- tag printed in observations (the adapter classifies `.error` text the same way) -/
def Exn.tag : Exn → String
  | .lineTooLong => "LineTooLong" | .premature => "PrematureClosure" | .tooManyHeaders => "TooManyHeaders"
  | .noLength => "NoLength" | .badHeader => "BadHeader" | .badChunkSize => "BadChunkSize" | .badChunkEnd => "BadChunkEnd"
  | .badUrl => "BadUrl" | _ => "StartLine"

def isSubclass (a b : String) : Bool := excSub.contains (a, b)
/-- an `except` clause naming the classes `hs` catches an exception of class `c` -/
def catches (hs : List String) (c : String) : Bool := hs.any (isSubclass c)
/-- the handler of Parsent.parseMessage (classes regenerated from the source) -/
def catchMessage (e : Exn) : Bool := catches messageHandlers e.cls

/-! ## headers (multidict.CIMultiDict used with `h[key] = value` only) -/

abbrev Hdrs := List (Bytes × Bytes)

def hset : Hdrs → Bytes → Bytes → Hdrs
  | [], k, v => [(k, v)]
  | (k', v') :: rest, k, v => if lower k' == lower k then (k, v) :: rest else (k', v') :: hset rest k v

def hget (h : Hdrs) (name : Bytes) : Option Bytes :=
  match h.find? (fun kv => lower kv.1 == name) with
  | some kv => some kv.2
  | none => none

/-- one line of parseLeader: `.ok (headers, done)` -/
def leaderLine (h : Hdrs) (line : Bytes) : Except Exn (Hdrs × Bool) :=
  if line.isEmpty then
    if h.length > maxHeaders then .error .tooManyHeaders else .ok (h, true)
  else
    let r := partitionB [58, 32] line
    if !r.2.1 then .error .badHeader
    else
      let h' := hset h r.1 r.2.2
      if h'.length > maxHeaders then .error .tooManyHeaders else .ok (h', false)

/-! ## chunk-size line -/

abbrev Parms := List (Bytes × Option Bytes)

def pset : Parms → Bytes → Option Bytes → Parms
  | [], k, v => [(k, v)]
  | (k', v') :: rest, k, v => if k' == k then (k', v) :: rest else (k', v') :: pset rest k v

def parseExts (exts : Bytes) : Parms :=
  if exts.isEmpty then []
  else (split1 59 exts).foldl (fun acc ext =>
    let e := strip isBytesSpace ext
    let r := partitionB [61] e
    let v := strip isBytesSpace r.2.2
    pset acc (strip isBytesSpace r.1) (if v.isEmpty then none else some v)) []

/-- `size;exts` : plain hex digits only (surrounding white space stripped) -/
def parseSizeLine (line : Bytes) : Except Exn (Nat × Parms) :=
  let r := partitionB [59] line
  let sz := strip isBytesSpace r.1
  if sz.isEmpty || !sz.all isHexDigit then .error .badChunkSize
  else .ok (hexVal sz 0, parseExts r.2.2)

/-! ## UTF-8 decode with errors='replace', re-encoded as UTF-8 (what the observation carries) -/

def isCont (x : Nat) : Bool := 128 ≤ x && x ≤ 191
def fffd : Bytes := [239, 191, 189]

def utf8Fuel : Nat → Bytes → Bytes
  | 0, _ => []
  | _, [] => []
  | f + 1, x :: xs =>
    if x < 128 then x :: utf8Fuel f xs
    else if 194 ≤ x && x ≤ 223 then
      match xs with
      | y :: ys => if isCont y then x :: y :: utf8Fuel f ys else fffd ++ utf8Fuel f xs
      | [] => fffd
    else if 224 ≤ x && x ≤ 239 then
      let lo := if x == 224 then 160 else 128
      let hi := if x == 237 then 159 else 191
      match xs with
      | y :: ys =>
        if lo ≤ y && y ≤ hi then
          match ys with
          | z :: zs => if isCont z then x :: y :: z :: utf8Fuel f zs else fffd ++ utf8Fuel f ys
          | [] => fffd
        else fffd ++ utf8Fuel f xs
      | [] => fffd
    else if 240 ≤ x && x ≤ 244 then
      let lo := if x == 240 then 144 else 128
      let hi := if x == 244 then 143 else 191
      match xs with
      | y :: ys =>
        if lo ≤ y && y ≤ hi then
          match ys with
          | z :: zs =>
            if isCont z then
              match zs with
              | w :: ws => if isCont w then x :: y :: z :: w :: utf8Fuel f ws else fffd ++ utf8Fuel f zs
              | [] => fffd
            else fffd ++ utf8Fuel f ys
          | [] => fffd
        else fffd ++ utf8Fuel f xs
      | [] => fffd
    else fffd ++ utf8Fuel f xs

def utf8Replace (b : Bytes) : Bytes := utf8Fuel (b.length + 1) b

/-! ## server-sent events : EventSource.parseEvents -/

structure Event where
  id : Option Bytes
  name : Bytes
  data : Bytes
deriving Repr, DecidableEq

structure SseSt where
  eid : Option Bytes := none
  ename : Bytes := []
  parts : List Bytes := []          -- in order
  leid : Option Bytes := none
  retry : Option Nat := none
  events : List Event := []         -- in order
  dead : Bool := false              -- LineTooLong was raised
deriving Repr, DecidableEq

def joinLF : List Bytes → Bytes
  | [] => []
  | [x] => x
  | x :: y :: rest => x ++ 10 :: joinLF (y :: rest)

def sseLine (decode : Bytes → Bytes) (s : SseSt) (line : Bytes) : SseSt :=
  if line.isEmpty then
    let evs := if s.parts.isEmpty then s.events else s.events ++ [⟨s.eid, s.ename, joinLF s.parts⟩]
    { s with events := evs, ename := [], parts := [] }
  else
    let r := partitionB [58] line
    if r.2.1 && r.1.isEmpty then s      -- comment
    else
      let field := decode r.1
      let v0 := r.2.2
      let value := decode (match v0 with | 32 :: rest => rest | _ => v0)
      if field == ascii "event" then { s with ename := value }
      else if field == ascii "data" then { s with parts := s.parts ++ [value] }
      else if field == ascii "id" then { s with leid := some value, eid := some value }
      else if field == ascii "retry" then
        if !value.isEmpty && value.all isDigit && !(intMaxStrDigits != 0 && value.length > intMaxStrDigits)
        then { s with retry := some (digitsVal value 0) } else s
      else s

def sseReaderOf (decode : Bytes → Bytes) : Reader SseSt where
  need s := if s.dead then .stop else .line sseEol
  onLine := sseLine decode
  onLong s := { s with dead := true }
  onBytes s _ := s
  onAll s _ := s
  rank s := if s.dead then 0 else 1
  maxLine := maxLineSize
  long_dec := by intro s c h; by_cases hd : s.dead <;> simp_all
  zero_dec := by intro s h; by_cases hd : s.dead <;> simp_all
  all_stay := by intro s a h; by_cases hd : s.dead <;> simp_all
  all_hom := by intro s a m h; rfl

def sseReader : Reader SseSt := sseReaderOf utf8Replace

/-! ## parseChunk in a loop -/

structure ChunkRec where
  size : Nat
  parms : Parms
  trails : Hdrs
  data : Bytes
deriving Repr, DecidableEq

inductive CPhase where
  | size
  | data (n : Nat) (parms : Parms)
  | dend (n : Nat) (parms : Parms) (d : Bytes)
  | trailer (parms : Parms) (acc : Hdrs)
  | done
  | failed (e : Exn)
deriving Repr, DecidableEq

structure ChunkSt where
  out : List ChunkRec := []
  phase : CPhase := .size
deriving Repr, DecidableEq

def chunkOnLine (s : ChunkSt) (line : Bytes) : ChunkSt :=
  match s.phase with
  | .size =>
    match parseSizeLine line with
    | .error e => { s with phase := .failed e }
    | .ok (0, parms) => { s with phase := .trailer parms [] }
    | .ok (n + 1, parms) => { s with phase := .data (n + 1) parms }
  | .dend n parms d =>
    if line.isEmpty then { out := s.out ++ [⟨n, parms, [], d⟩], phase := .size }
    else { s with phase := .failed .badChunkEnd }
  | .trailer parms acc =>
    match leaderLine acc line with
    | .error e => { s with phase := .failed e }
    | .ok (h, true) => { out := s.out ++ [⟨0, parms, h, []⟩], phase := .done }
    | .ok (h, false) => { s with phase := .trailer parms h }
  | _ => s

def chunkNeed (s : ChunkSt) : Need :=
  match s.phase with
  | .size => .line chunkEol
  | .data n _ => .bytes n
  | .dend _ _ _ => .line chunkEol
  | .trailer _ _ => .line httpEol
  | .done => .stop
  | .failed _ => .stop

def chunkReader : Reader ChunkSt where
  need := chunkNeed
  onLine := chunkOnLine
  onLong s := { s with phase := .failed .lineTooLong }
  onBytes s d := match s.phase with
    | .data n parms => { s with phase := .dend n parms d }
    | _ => s
  onAll s _ := s
  rank s := match s.phase with
    | .done => 0 | .failed _ => 0 | .data _ _ => 2 | _ => 1
  maxLine := maxLineSize
  long_dec := by
    intro s c h; unfold chunkNeed at h
    cases hp : s.phase <;> simp_all
  zero_dec := by
    intro s h; unfold chunkNeed at h
    cases hp : s.phase <;> simp_all
  all_stay := by
    intro s a h; unfold chunkNeed at h
    cases hp : s.phase <;> simp_all
  all_hom := by intro s a m h; rfl

/-! ## messages -/

structure ReqMsg where
  method : Bytes
  url : Bytes
  vminor : Nat
  headers : Hdrs
  body : Bytes
  trails : Option Hdrs
  parms : Option Parms
  persisted : Bool
  chunked : Bool
deriving Repr, DecidableEq

inductive Outcome (μ : Type) where
  | ok (m : μ)
  | err (e : Exn)
deriving Repr, DecidableEq

/-- derived framing of a head: `chunked`, `length` -/
def isChunked (h : Hdrs) : Bool :=
  match hget h (ascii "transfer-encoding") with
  | some te => !te.isEmpty && lower te == ascii "chunked"
  | none => false

def hasToken (h : Hdrs) (name tok : Bytes) : Bool :=
  match hget h name with
  | some v => !v.isEmpty && isInfix tok (lower v)
  | none => false

def contentLength (h : Hdrs) : Option (Option Nat) :=   -- none: header absent/empty; some none: invalid
  match hget h (ascii "content-length") with
  | some v => if v.isEmpty then none else
      match pyInt v with
      | some i => if i < 0 then some none else some (some i.toNat)
      | none => some none
  | none => none

/-! ### request side -/

inductive QPhase where
  | start
  | head (acc : Hdrs)
  | body (n : Nat)
  | csize
  | cdata (n : Nat)
  | cend
  | trailer (acc : Hdrs)
  | halted                      -- a non persistent request ended: the server answers and closes
  | failed                      -- an errored request ended: the server closes the connection
  | escaped (cls : String)      -- an exception the message parser does not catch left parse()
deriving Repr, DecidableEq

structure ReqSt where
  done : List (Outcome ReqMsg) := []
  phase : QPhase := .start
  method : Bytes := []
  url : Bytes := []
  vminor : Nat := 1
  headers : Hdrs := []
  body : Bytes := []
  chunked : Bool := false
  persisted : Bool := false
  parms : Option Parms := none      -- survive from message to message unless reset (as the attributes do)
  trails : Option Hdrs := none
  badUrls : List Bytes := []        -- request targets on which urllib's urlsplit(...).port raises (parameter)
deriving Repr, DecidableEq

def ReqSt.raise (s : ReqSt) (e : Exn) : ReqSt :=
  if catchMessage e then { s with done := s.done ++ [.err e], phase := .failed }
  else { s with phase := .escaped e.cls }

def ReqSt.finish (s : ReqSt) : ReqSt :=
  let m : ReqMsg := ⟨s.method, s.url, s.vminor, s.headers, s.body, s.trails, s.parms, s.persisted, s.chunked⟩
  { s with done := s.done ++ [.ok m], phase := if s.persisted then .start else .halted }

def methodOk (m : Bytes) : Bool := methods.any (fun x => ascii x == m)

def reqStartLine (s : ReqSt) (line : Bytes) : Except Exn ReqSt :=
  if line.isEmpty then .error .badRequestLine
  else
    let toks := splitWs line
    let method := toks.getD 0 []
    let url := toks.getD 1 []
    let version := toks.getD 2 []
    if !isPrefix (ascii "HTTP/") version then .error .unknownProtocol
    else if !methodOk method then .error .badMethod
    else if !isPrefix (ascii "HTTP/1.") version then .error .unknownProtocol
    else if s.badUrls.contains url then .error .badUrl
    else .ok { s with method := method, url := url, vminor := if isPrefix (ascii "HTTP/1.0") version then 0 else 1,
                      phase := .head [] }

def reqHeadDone (s : ReqSt) (h : Hdrs) : Except Exn ReqSt :=
  let chunked := isChunked h
  let length : Option Nat := if chunked then none else
    match contentLength h with
    | none => some 0
    | some l => l
  let persisted :=
    if s.vminor == 1 then
      if hasToken h (ascii "connection") (ascii "close") then false
      else if !chunked && length.isNone then false else true
    else hasToken h (ascii "connection") (ascii "keep-alive")
  let s := { s with headers := h, chunked := chunked, persisted := persisted, body := [] }
  if chunked then .ok { s with parms := some [], phase := .csize }
  else match length with
    | some n => .ok { s with phase := .body n }
    | none => .error .noLength

def reqOnLineE (s : ReqSt) (line : Bytes) : Except Exn ReqSt :=
  match s.phase with
  | .start => reqStartLine s line
  | .head acc =>
    match leaderLine acc line with
    | .error e => .error e
    | .ok (h, false) => .ok { s with phase := .head h }
    | .ok (h, true) => reqHeadDone s h
  | .csize =>
    match parseSizeLine line with
    | .error e => .error e
    | .ok (n, parms) =>
      let s := if parms.isEmpty then s else { s with parms := some (parms.foldl (fun acc kv => pset acc kv.1 kv.2) (s.parms.getD [])) }
      .ok (if n == 0 then { s with phase := .trailer [] } else { s with phase := .cdata n })
  | .cend => if line.isEmpty then .ok { s with phase := .csize } else .error .badChunkEnd
  | .trailer acc =>
    match leaderLine acc line with
    | .error e => .error e
    | .ok (h, false) => .ok { s with phase := .trailer h }
    | .ok (h, true) => .ok ({ s with trails := if h.isEmpty then s.trails else some h }).finish
  | _ => .ok s

def reqOnLine (s : ReqSt) (line : Bytes) : ReqSt :=
  match reqOnLineE s line with
  | .ok s' => s'
  | .error e => s.raise e

def reqNeed (s : ReqSt) : Need :=
  match s.phase with
  | .start => .line httpEol
  | .head _ => .line httpEol
  | .body n => .bytes n
  | .csize => .line chunkEol
  | .cdata n => .bytes n
  | .cend => .line chunkEol
  | .trailer _ => .line httpEol
  | _ => .stop

def reqOnBytes (s : ReqSt) (d : Bytes) : ReqSt :=
  match s.phase with
  | .body _ => ({ s with body := d }).finish
  | .cdata _ => { s with body := s.body ++ d, phase := .cend }
  | _ => s

def reqRank (s : ReqSt) : Nat :=
  match s.phase with
  | .halted => 0 | .failed => 0 | .escaped _ => 0
  | .body _ => 2 | .cdata _ => 2
  | _ => 1

theorem ReqSt.raise_rank (s : ReqSt) (e : Exn) : reqRank (s.raise e) = 0 := by
  unfold ReqSt.raise; split <;> simp [reqRank]

theorem ReqSt.finish_rank (s : ReqSt) : reqRank s.finish ≤ 1 := by
  unfold ReqSt.finish; by_cases h : s.persisted <;> simp [reqRank, h]

def reqReader : Reader ReqSt where
  need := reqNeed
  onLine := reqOnLine
  onLong s := s.raise .lineTooLong
  onBytes := reqOnBytes
  onAll s _ := s
  rank := reqRank
  maxLine := maxLineSize
  long_dec := by
    intro s c h
    rw [ReqSt.raise_rank]
    unfold reqNeed at h; unfold reqRank
    cases hp : s.phase <;> simp_all
  zero_dec := by
    intro s h
    unfold reqNeed at h
    cases hp : s.phase <;> simp_all
    · have := ReqSt.finish_rank { s with body := [] }
      simp [reqOnBytes, hp, reqRank] at this ⊢
      omega
    · simp [reqOnBytes, hp, reqRank]
  all_stay := by
    intro s a h; unfold reqNeed at h
    cases hp : s.phase <;> simp_all
  all_hom := by intro s a m h; rfl

/-! ### response side -/

structure RespMsg where
  vminor : Nat
  status : Nat
  reason : Bytes
  headers : Hdrs
  body : Bytes
  trails : Option Hdrs
  parms : Option Parms
  persisted : Bool
  chunked : Bool
  evented : Option Bool
  events : Option (List Event)
  leid : Option Bytes
  retry : Nat
deriving Repr, DecidableEq

inductive PPhase where
  | status (fresh : Bool)
  | cont (acc : Hdrs)
  | head (acc : Hdrs)
  | body (n : Nat)
  | csize
  | cdata (n : Nat)
  | cend
  | trailer (acc : Hdrs)
  | untilClose
  | halted
  | failed
  | escaped (cls : String)
deriving Repr, DecidableEq

structure RespSt where
  done : List (Outcome RespMsg) := []
  phase : PPhase := .status true
  head : Bool := false              -- method of the request was HEAD
  vminor : Nat := 1
  version : Bytes := []
  status : Nat := 0
  reason : Bytes := []
  headers : Hdrs := []
  body : Bytes := []
  chunked : Bool := false
  length : Option Nat := none
  persisted : Bool := false
  evented : Option Bool := none
  parms : Option Parms := none
  trails : Option Hdrs := none
  leid : Option Bytes := none
  retry : Nat := 100
  sse : SseSt := {}
  ssePend : Bytes := []             -- EventSource.raw (is .body) : bytes not yet split into lines
deriving Repr, DecidableEq

def RespSt.raise (s : RespSt) (e : Exn) : RespSt :=
  if catchMessage e then { s with done := s.done ++ [.err e], phase := .failed }
  else { s with phase := .escaped e.cls }

def RespSt.isEv (s : RespSt) : Bool := s.evented == some true

def RespSt.finish (s : RespSt) : RespSt :=
  let ev := if s.isEv then some s.sse.events else none
  let body := if s.isEv && (s.chunked || s.length.isNone) then s.ssePend else s.body
  let m : RespMsg := ⟨s.vminor, s.status, s.reason, s.headers, body, s.trails, s.parms, s.persisted, s.chunked,
                      s.evented, ev, s.leid, s.retry⟩
  { s with done := s.done ++ [.ok m], phase := if s.persisted then .status true else .halted,
           evented := if s.persisted then none else s.evented }

/-- EventSource.parse() after `d` was appended to its buffer, then the copy of retry / leid -/
def RespSt.absorb (s : RespSt) (d : Bytes) : RespSt :=
  let r := sseReader.run s.sse (s.ssePend ++ d)
  let retry := match r.1.retry with | some x => x | none => s.retry
  let leid := match r.1.leid with | some x => some x | none => s.leid
  { s with sse := r.1, ssePend := r.2, retry := retry, leid := leid }

def respStatusLine (s : RespSt) (line : Bytes) : Except Exn RespSt :=
  if line.isEmpty then .error .badStatusLine
  else
    let toks := splitWs line
    let version := toks.getD 0 []
    let st := toks.getD 1 []
    let reason := (toks.drop 2).foldl (fun acc t => if acc.isEmpty then t else acc ++ 32 :: t) []
    if !isPrefix (ascii "HTTP/") version then .error .badStatusLine
    else match pyInt st with
      | none => .error .badStatusLine
      | some i =>
        if i < 100 || i > 999 then .error .badStatusLine
        else if i.toNat == statusContinue then .ok { s with phase := .cont [] }
        else
          let vm : Option Nat :=
            if version == ascii "HTTP/1.0" || version == ascii "HTTP/0.9" then some 0
            else if isPrefix (ascii "HTTP/1.") version then some 1 else none
          match vm with
          | none => .error .unknownProtocol
          | some v => .ok { s with status := i.toNat, reason := reason, vminor := v, phase := .head [] }

def respHeadDone (s : RespSt) (h : Hdrs) : Except Exn RespSt :=
  let chunked := isChunked h
  let length0 : Option Nat := if chunked then none else
    match contentLength h with
    | none => none
    | some l => l
  let length := if s.status == statusNoContent || s.status == statusNotModified || (100 ≤ s.status && s.status < 200) || s.head
                then some 0 else length0
  let ct := hget h (ascii "content-type")
  let evented : Option Bool := match ct with
    | some c => if c.isEmpty then s.evented else
        let c' := if c.contains 59 then (match rpartition1 59 c with | some p => p.1 | none => c) else c
        some (isInfix (ascii "text/event-stream") (lower c'))
    | none => s.evented
  let newEs := match ct with
    | some c => !c.isEmpty && evented == some true
    | none => false
  let persisted :=
    if s.vminor == 1 then
      if hasToken h (ascii "connection") (ascii "close") then false
      else if !chunked && length.isNone then false else true
    else
      if evented == some true then true
      else if (match hget h (ascii "keep-alive") with | some v => !v.isEmpty | none => false) then true
      else if hasToken h (ascii "connection") (ascii "keep-alive") then true
      else hasToken h (ascii "proxy-connection") (ascii "keep-alive")
  let s := { s with headers := h, chunked := chunked, length := length, evented := evented, persisted := persisted,
                    body := [], ssePend := if newEs then [] else s.ssePend,
                    sse := if newEs then {} else s.sse }
  if chunked then .ok { s with parms := some [], phase := .csize }
  else match length with
    | some n => .ok { s with phase := .body n }
    | none => .ok { s with phase := .untilClose }

def respOnLineE (s : RespSt) (line : Bytes) : Except Exn RespSt :=
  match s.phase with
  | .status _ => respStatusLine s line
  | .cont acc =>
    match leaderLine acc line with
    | .error e => .error e
    | .ok (h, false) => .ok { s with phase := .cont h }
    | .ok (_, true) => .ok { s with phase := .status false }
  | .head acc =>
    match leaderLine acc line with
    | .error e => .error e
    | .ok (h, false) => .ok { s with phase := .head h }
    | .ok (h, true) => respHeadDone s h
  | .csize =>
    match parseSizeLine line with
    | .error e => .error e
    | .ok (n, parms) =>
      let s := if parms.isEmpty then s else { s with parms := some (parms.foldl (fun acc kv => pset acc kv.1 kv.2) (s.parms.getD [])) }
      .ok (if n == 0 then { s with phase := .trailer [] } else { s with phase := .cdata n })
  | .cend =>
    if line.isEmpty then
      if s.isEv then
        let s' := s.absorb s.body
        if s'.sse.dead then .error .lineTooLong else .ok { s' with body := [], phase := .csize }
      else .ok { s with phase := .csize }
    else .error .badChunkEnd
  | .trailer acc =>
    match leaderLine acc line with
    | .error e => .error e
    | .ok (h, false) => .ok { s with phase := .trailer h }
    | .ok (h, true) => .ok ({ s with trails := if h.isEmpty then s.trails else some h }).finish
  | _ => .ok s

def respOnLine (s : RespSt) (line : Bytes) : RespSt :=
  match respOnLineE s line with
  | .ok s' => s'
  | .error e => s.raise e

def respNeed (s : RespSt) : Need :=
  match s.phase with
  | .status _ => .line httpEol
  | .cont _ => .line httpEol
  | .head _ => .line httpEol
  | .body n => .bytes n
  | .csize => .line chunkEol
  | .cdata n => .bytes n
  | .cend => .line chunkEol
  | .trailer _ => .line httpEol
  | .untilClose => .all
  | _ => .stop

def respOnBytes (s : RespSt) (d : Bytes) : RespSt :=
  match s.phase with
  | .body _ => ({ s with body := d }).finish
  | .cdata _ => { s with body := s.body ++ d, phase := .cend }
  | _ => s

def respOnAll (s : RespSt) (d : Bytes) : RespSt :=
  if s.isEv then s.absorb d else { s with body := s.body ++ d }

def respRank (s : RespSt) : Nat :=
  match s.phase with
  | .halted => 0 | .failed => 0 | .escaped _ => 0
  | .body _ => 2 | .cdata _ => 2
  | _ => 1

theorem RespSt.raise_rank (s : RespSt) (e : Exn) : respRank (s.raise e) = 0 := by
  unfold RespSt.raise; split <;> simp [respRank]

theorem RespSt.finish_rank (s : RespSt) : respRank s.finish ≤ 1 := by
  unfold RespSt.finish; by_cases h : s.persisted <;> simp [respRank, h]

/-- the far side closed (Client.service calls respondent.close() one cycle after the last bytes), buffer `b` left -/
def respClose (s : RespSt) (b : Bytes) : RespSt :=
  match s.phase with
  | .status fresh => if !fresh && b.isEmpty then s.raise .premature else s
  | .cont _ => if b.isEmpty then s.raise .premature else s
  | .head _ => if b.isEmpty then s.raise .premature else s
  | .body _ => if b.isEmpty then s.raise .premature else s
  | .csize => if b.isEmpty then s.raise .premature else s
  | .cdata _ => if b.isEmpty then s.raise .premature else s
  | .cend => if b.isEmpty then s.raise .premature else s
  | .trailer _ => if b.isEmpty then s.raise .premature else s
  | .untilClose => if s.isEv && s.sse.dead then s.raise .lineTooLong else s.finish
  | _ => s

end Hio.Http
