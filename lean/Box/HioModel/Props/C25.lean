import HioModel.Box.Lemmas
import HioModel.Gen.BoxTables
/-!
# C25 — boxwork transitions run exit/enter actions in the documented nested order

Property theorems only.  Model: `HioModel/Box/Model.lean` — `pile` (Box._trace), `exen` (Boxer.exen), `scanPile`
(the afdo/godo scan of the active pile with the predo gate), `pass` (one iteration of `while True` in Boxer.run),
`endPass` (Boxer.end), `loop`/`run` (the generator driven tick by tick).  It models the tree WITH the four
`fix:` commits of branch fix/box (F40, F41, F52, F53); on the unfixed tree every one of the four main theorems
below is false of the code (the witnesses are regression cases in the check's corpus).

A trace is a list of events `(box, context, act index)`: what recording acts installed in every context of
every box log.  All theorems are for EVERY boxwork `F` (any number of boxes, any shape), every tick `t`, every
active box `a`; `wf F` is what `Boxer.bx` guarantees (over declared before under and linked both ways, goact
destinations are boxes of the boxwork) and is decidable (examples below).  Because the per-pass theorems hold
from every active box, and `run_records_are_passes` shows by induction over the number of sends that every
record of every run is such a pass from a box of the boxwork, they hold along every transition sequence.
-/
namespace Hio.Box

/-! ## the hypothesis `wf` is what `Boxer.bx` guarantees -/

/-- `declared_boxworks_are_wf`: whatever list of boxes is declared through `bx` — any number, any shape, any
declaration order in which each over is declared before its unders (the only thing `bx` accepts), with goact
destinations that exist (the only thing `resolve` accepts) — the boxwork built is well-formed.  So the `wf`
hypothesis of the theorems below holds of ALL box trees, of every size. -/
theorem declared_boxworks_are_wf (ds : List Decl)
    (hover : ∀ (i : Nat) (d : Decl), ds[i]? = some d → d.over1 ≤ i)
    (hgo : ∀ d ∈ ds, ∀ g ∈ d.gos, g.1 < ds.length) : wf (mkForest ds) = true :=
  mkForest_wf ds hover hgo

/-! ## exen always returns -/

/-- `exen_total`: on a well-formed boxwork the search loop of `Boxer.exen(near, far)` always reaches its
`return` (it never falls through to return `None`), whatever box is active. -/
theorem exen_total {F : Forest} (h : wf F = true) (a : Nat) {d : Nat} (hd : d < F.length) :
    (exen d (pile F a) (pile F d)).isSome = true :=
  exen_isSome h a hd

/-- what `exen` computes: the two piles share the prefix `kept`; below it the active pile continues with
`left` and the destination pile with `arrived`; the split is at the FIRST position where the piles differ or
the active pile holds the destination itself (forced re-entry), so `kept` never contains the destination. -/
theorem exen_splits_piles {far : Nat} {nears fars : List Nat} {q : Quad} (h : exen far nears fars = some q) :
    ∃ kept left arrived, nears = kept ++ left ∧ fars = kept ++ arrived ∧ far ∉ kept ∧
      (left.head? = some far ∨ (left.head? ≠ arrived.head? ∧ left ≠ [] ∧ arrived ≠ [])) ∧
      q = ⟨left.reverse, arrived, kept.reverse, kept⟩ := by
  obtain ⟨kept, n, left, f, arr, h1, h2, h3, h4, h5⟩ := exen_some h
  refine ⟨kept, n :: left, f :: arr, h1, h2, h3, ?_, h5⟩
  rcases h4 with h4 | h4
  · exact Or.inl (by simp [h4])
  · exact Or.inr ⟨by simpa using fun hh => h4 hh.symm, by simp, by simp⟩

/-! ## what "bottom-up" and "top-down" mean: a pile is a chain over > under -/

/-- every pile lists each box directly under its predecessor (`Linked`), in strictly increasing declaration
index, so without repetition: the list order IS top-down and its reverse IS bottom-up. -/
theorem pile_is_chain {F : Forest} (h : wf F = true) {i : Nat} (hi : i < F.length) :
    Linked F (pile F i) ∧ (pile F i).Pairwise (· < ·) ∧ (pile F i).Nodup ∧ i ∈ pile F i :=
  ⟨pile_linked h hi, pile_sorted h hi, pile_nodup h hi, mem_pile_self F i⟩

/-- when the transition is not a forced re-entry (the piles really fork: `left` and `arrived` start with
different boxes), the boxes left are exactly the active boxes that are NOT in the destination pile and the boxes
arrived at are exactly the destination-pile boxes that are NOT active: nothing below the fork is shared. -/
theorem fork_separates_piles {F : Forest} (h : wf F = true) {a d : Nat} (ha : a < F.length) (hd : d < F.length)
    {kept left arrived : List Nat} (h1 : pile F a = kept ++ left) (h2 : pile F d = kept ++ arrived)
    (hne : left.head? ≠ arrived.head?) (hl : left ≠ []) (hr : arrived ≠ []) :
    (∀ x ∈ left, x ∉ pile F d) ∧ (∀ x ∈ arrived, x ∉ pile F a) := by
  obtain ⟨l0, t1, rfl⟩ := List.exists_cons_of_ne_nil hl
  obtain ⟨r0, t2, rfl⟩ := List.exists_cons_of_ne_nil hr
  have hne' : l0 ≠ r0 := by intro hh; apply hne; simp [hh]
  have ra := pile_rootLinked h ha
  have rd := pile_rootLinked h hd
  have na := pile_nodup h ha
  have nd := pile_nodup h hd
  rw [h1] at ra na
  rw [h2] at rd nd
  rw [h1, h2]
  exact ⟨fork_disjoint ra rd na hne', fork_disjoint rd ra nd (Ne.symm hne')⟩

/-! ## an accepted transition -/

/-- `transition_trace`: when the scan of the active pile accepts a transition to `d` (a goact fired and the
entry preconditions of the boxes to be entered were met), the pass's trace is: the scan's own events (afdo,
godo and predo evaluations only), then the boxes LEFT exited bottom-up, the boxes KEPT re-exited bottom-up, the
KEPT re-entered top-down, the boxes ARRIVED AT entered top-down, then the redo of the new pile; `d` becomes
active.  LEFT/KEPT/ARRIVED split the ACTIVE pile and `d`'s pile as `exen_splits_piles` says. -/
theorem transition_trace {F : Forest} {t a d : Nat} {ev : List Event} {q : Quad}
    (h : scanPile F t a (pile F a) = .go ev d q) :
    ∃ kept left arrived,
      pile F a = kept ++ left ∧ pile F d = kept ++ arrived ∧ d ∉ kept ∧
      (left.head? = some d ∨ (left.head? ≠ arrived.head? ∧ left ≠ [] ∧ arrived ≠ [])) ∧
      (pass F t a).1.events =
        ev ++ (exdoL F left.reverse ++ rexdoL F kept.reverse ++ rendoL F kept ++ endoL F arrived
               ++ redoL F (pile F d)) ∧
      (∀ e ∈ ev, ScanNabe e) ∧
      (pass F t a).1.active = some d ∧ (pass F t a).2 = some d := by
  have hg := scanPile_good F t a (pile F a)
  rw [h] at hg
  obtain ⟨kept, left, arrived, h1, h2, h3, h4, h5⟩ := exen_splits_piles hg.2.2.1
  refine ⟨kept, left, arrived, h1, h2, h3, h4, ?_, hg.1, ?_, ?_⟩
  · rw [pass_go h, h5]; rfl
  · rw [pass_go h]
  · rw [pass_go h]

/-- `exit_bottom_up_enter_top_down`: in a pass that accepts a transition, the exit actions that run are exactly
those of the boxes left, bottom-up, and the entry actions (enmark + endo) exactly those of the boxes arrived
at, top-down; every exit precedes every entry (`transition_trace`). -/
theorem exit_bottom_up_enter_top_down {F : Forest} {t a d : Nat} {ev : List Event} {q : Quad}
    (h : scanPile F t a (pile F a) = .go ev d q) :
    ∃ kept left arrived, pile F a = kept ++ left ∧ pile F d = kept ++ arrived ∧
      (pass F t a).1.events.filter (fun e => e.nabe = .exdo) = exdoL F left.reverse ∧
      (pass F t a).1.events.filter (fun e => e.nabe = .enmark ∨ e.nabe = .endo) = endoL F arrived := by
  obtain ⟨kept, left, arrived, h1, h2, _, _, h5, h6, _⟩ := transition_trace h
  refine ⟨kept, left, arrived, h1, h2, ?_, ?_⟩
  · rw [h5]
    have := filter_transit (F := F) (fun nb => decide (nb = .exdo)) (by decide) ev h6 left.reverse kept.reverse kept arrived (pile F d)
    rw [this]
    rw [filter_none (l := rendoL F kept) (fun e he => by rcases (mem_rendoL he).1 with hh | hh <;> simp [hh]),
        filter_none (l := endoL F arrived) (fun e he => by rcases (mem_endoL he).1 with hh | hh <;> simp [hh])]
    simp
  · rw [h5]
    have := filter_transit (F := F) (fun nb => decide (nb = .enmark ∨ nb = .endo)) (by decide) ev h6 left.reverse kept.reverse kept arrived (pile F d)
    rw [this]
    rw [filter_none (l := rendoL F kept) (fun e he => by rcases (mem_rendoL he).1 with hh | hh <;> simp [hh]),
        filter_all (l := endoL F arrived) (fun e he => by rcases (mem_endoL he).1 with hh | hh <;> simp [hh])]
    simp

/-- `retained_rexit_then_reenter`: the boxes kept across the transition are re-exited bottom-up and then
re-entered (remark + rendo) top-down: the projection of the trace on the re-exit / re-entry contexts is exactly
`rexdo (reverse kept)` followed by `rendo kept`. -/
theorem retained_rexit_then_reenter {F : Forest} {t a d : Nat} {ev : List Event} {q : Quad}
    (h : scanPile F t a (pile F a) = .go ev d q) :
    ∃ kept left arrived, pile F a = kept ++ left ∧ pile F d = kept ++ arrived ∧
      (pass F t a).1.events.filter (fun e => e.nabe = .rexdo ∨ e.nabe = .remark ∨ e.nabe = .rendo) =
        rexdoL F kept.reverse ++ rendoL F kept := by
  obtain ⟨kept, left, arrived, h1, h2, _, _, h5, h6, _⟩ := transition_trace h
  refine ⟨kept, left, arrived, h1, h2, ?_⟩
  rw [h5]
  have := filter_transit (F := F) (fun nb => decide (nb = .rexdo ∨ nb = .remark ∨ nb = .rendo)) (by decide) ev h6 left.reverse kept.reverse kept arrived (pile F d)
  rw [this]
  rw [filter_all (l := rendoL F kept) (fun e he => by rcases (mem_rendoL he).1 with hh | hh <;> simp [hh]),
      filter_none (l := endoL F arrived) (fun e he => by rcases (mem_endoL he).1 with hh | hh <;> simp [hh])]
  simp

/-! ## a pass without an accepted transition -/

/-- `failed_predo_no_actions`: when no transition is accepted in a pass — no goact fired, or every goact that
fired had an unmet entry precondition — the pass runs NO exit, re-exit, re-entry or entry action at all: its
trace is the scan (afdo / godo / predo evaluations) followed by the redo of the unchanged active pile, and the
active box does not change. -/
theorem failed_predo_no_actions {F : Forest} {t a : Nat} {ev : List Event}
    (h : scanPile F t a (pile F a) = .stay ev) :
    (pass F t a).1.events = ev ++ redoL F (pile F a) ∧
    (∀ e ∈ (pass F t a).1.events, e.nabe = .afdo ∨ e.nabe = .godo ∨ e.nabe = .predo ∨ e.nabe = .redo) ∧
    (pass F t a).1.active = some a ∧ (pass F t a).2 = some a := by
  have hg := scanPile_good F t a (pile F a)
  rw [h] at hg
  rw [pass_stay h]
  refine ⟨rfl, ?_, rfl, rfl⟩
  intro e he
  simp only [List.mem_append] at he
  rcases he with he | he
  · rcases hg e he with hh | hh | hh
    · exact Or.inl hh
    · exact Or.inr (Or.inl hh)
    · exact Or.inr (Or.inr (Or.inl hh))
  · exact Or.inr (Or.inr (Or.inr (mem_redoL he).1))

/-- a goact that fires but whose destination's entry preconditions are not met contributes only its own godo
event and the predo evaluations; the scan continues with the next goact as if it had not fired -/
theorem failed_attempt_is_skipped {F : Forest} {t a b d m j : Nat} {gs : List (Nat × Nat)} {q : Quad}
    (hx : exen d (pile F a) (pile F d) = some q) (hp : (predo F t q.endos).2 = false) :
    scanGos F t a b ((d, m) :: gs) j =
      (scanGos F t a b gs (j + 1)).prepend
        (⟨b, .godo, j⟩ :: (if m.testBit t then (predo F t q.endos).1 else [])) := by
  conv => lhs; unfold scanGos
  split
  · simp [hx, hp]
  · simp

/-! ## ending -/

/-- `end_exits_active_once_bottom_up`: the ending pass runs exactly the exit actions of the active pile,
bottom-up, and nothing else; the pile has no repeated box, so every active box is exited exactly once. -/
theorem end_exits_active_once_bottom_up {F : Forest} (h : wf F = true) {t a : Nat} (ha : a < F.length) :
    (endPass F t a).events = exdoL F (pile F a).reverse ∧ (endPass F t a).active = none ∧
    (pile F a).reverse.Nodup ∧ Linked F (pile F a) :=
  ⟨rfl, rfl, List.pairwise_reverse.mpr ((pile_nodup h ha).imp Ne.symm), pile_linked h ha⟩

/-- once the end flag is set the very next pass is the ending pass and the run returns True -/
theorem ended_pass_ends {F : Forest} {endat k t a : Nat} (he : ended endat t = true) :
    loop F endat (k + 1) t a = ([endPass F t a], .ret true) := by
  unfold loop; simp [he]

/-! ## declaration order -/

/-- `acts_in_declaration_order`: in every record of every run, for every box `b` and every action context
`nb`, the acts of `b` in `nb` that ran form whole rounds `0, 1, …, n-1` of the box's act list for that context:
always all of them, always in declaration order. -/
theorem acts_in_declaration_order (F : Forest) (first ticks endat : Nat) (b : Nat) (nb : Nabe)
    (h1 : nb ≠ .predo) (h2 : nb ≠ .godo) :
    ∀ r ∈ (run F first ticks endat).1,
      ∃ k, (r.events.filter (fun e => e.box = b ∧ e.nabe = nb)).map (·.idx) =
        (List.replicate k (List.range (count F b nb))).flatten :=
  fun r hr => blocks_rounds (blocks_run F first ticks endat r hr) b nb h1 h2

/-! ## every history -/

/-- `run_records_are_passes`: for every number of sends and every end tick, a run on a well-formed boxwork
never raises, and every record after the first pass is an ordinary pass or the ending pass from a box of the
boxwork — so the per-pass theorems above apply at every step of every transition sequence. -/
theorem run_records_are_passes {F : Forest} (h : wf F = true) (first ticks endat : Nat)
    (hf : first - 1 < F.length) :
    (run F first ticks endat).2 ≠ .exc ∧
    ∀ r ∈ (run F first ticks endat).1, 2 ≤ r.tick → IsPassRec F r := by
  unfold run
  simp only
  split
  · refine ⟨by simp, ?_⟩
    intro r hr ht; simp at hr; subst hr; simp at ht
  · split
    · refine ⟨by simp, ?_⟩
      intro r hr ht; simp at hr; subst hr; simp at ht
    · next k =>
      have := loop_sound h endat k 2 (first - 1) hf
      refine ⟨this.1, ?_⟩
      intro r hr ht
      simp only [List.mem_cons] at hr
      rcases hr with hr | hr | hr
      · subst hr; simp at ht
      · subst hr; simp at ht
      · exact this.2 r hr

/-- first entry: when the entry preconditions of the first pile are met, the first pass enters the whole first
pile top-down and then runs its redo; when they are not, nothing but the predo evaluations runs and the run
returns False. -/
theorem first_entry_top_down (F : Forest) (first k endat : Nat) :
    ((predo F 0 (pile F (first - 1))).2 = true →
      (run F first (k + 1) endat).1[1]?.map (·.events) =
        some (endoL F (pile F (first - 1)) ++ redoL F (pile F (first - 1)))) ∧
    ((predo F 0 (pile F (first - 1))).2 = false →
      run F first (k + 1) endat = ([⟨0, none, (predo F 0 (pile F (first - 1))).1⟩], .ret false)) := by
  constructor <;> intro hp <;> simp [run, hp]

/-! ## acts that raise, acts that set the end bag, acts that look at the Boxer (`runX`) -/

/-- `runX_without_faults_is_run`: with no raising act and no end-setting act the extended run logs exactly what
`run` logs (same ticks, same active boxes, same events, same outcome) — the theorems above are about it too. -/
theorem runX_without_faults_is_run (F : Forest) (hF : F ≠ []) (first ticks endat : Nat) :
    (runX F first ticks endat [] []).1.map recOf = (run F first ticks endat).1.map recOf' ∧
    finalOf (runX F first ticks endat [] []).2 = (run F first ticks endat).2 :=
  runX_no_faults_lemma F hF first ticks endat

/-- `fault_cuts_the_pass`: whatever acts raise and whatever acts set the end bag, every record of the loop is a
PREFIX of the fault-free pass (or ending pass) of that tick from some active box: a fault never reorders,
repeats or adds actions, it only stops them. -/
theorem fault_cuts_the_pass (F : Forest) (endat : Nat) (enders : List Event) (raises : List (Event × Nat))
    (k t a : Nat) (flag : Bool) :
    ∀ r ∈ (loopX F endat enders raises k t a flag).1,
      ∃ a', r.events <+: (pass F r.tick a').1.events ∨ r.events <+: (endPass F r.tick a').events :=
  loopX_records F endat enders raises k t a flag

/-- `cut_stops_at_first_raising_act`: a cut record ends with an act that raises at that tick and contains no
earlier one; an uncut record contains none. -/
theorem cut_stops_at_first_raising_act {raises : List (Event × Nat)} {r : RecX} {i : Nat}
    (h : raiseIdx raises r.tick r.events = some i) :
    (r.cut raises).1.events = r.events.take (i + 1) ∧
    ∃ e, (r.cut raises).2 = some e ∧ r.events[i]? = some e ∧ (e, r.tick) ∈ raises ∧
      ∀ e' ∈ r.events.take i, (e', r.tick) ∉ raises := by
  obtain ⟨e, h1, h2, h3⟩ := raiseIdx_some h
  unfold RecX.cut
  rw [h]
  exact ⟨rfl, e, h1, h1, h2, h3⟩

/-- `active_box_switches_between_exits_and_entries`: in a pass that accepts a transition, the acts that run
while `boxer.box` is still the old active box are exactly the scan, the exits and the re-exits; every re-entry,
entry and redo act already sees the destination as the active box. -/
theorem active_box_switches_between_exits_and_entries {F : Forest} {t a d : Nat} {ev : List Event} {q : Quad}
    (h : scanPile F t a (pile F a) = .go ev d q) :
    (pass F t a).1.events.take (switchAt F t a) = ev ++ (exdoL F q.exdos ++ rexdoL F q.rexdos) ∧
    (pass F t a).1.events.drop (switchAt F t a) =
      rendoL F q.rendos ++ endoL F q.endos ++ redoL F (pile F d) := by
  rw [pass_go h, switchAt_go h]
  simp only [transitEvents]
  have e : ev ++ (exdoL F q.exdos ++ rexdoL F q.rexdos ++ rendoL F q.rendos ++ endoL F q.endos ++ redoL F (pile F d))
      = (ev ++ (exdoL F q.exdos ++ rexdoL F q.rexdos)) ++ (rendoL F q.rendos ++ endoL F q.endos ++ redoL F (pile F d)) := by
    simp [List.append_assoc]
  rw [e]
  exact ⟨List.take_left' rfl, List.drop_left' rfl⟩

/-- `end_set_by_an_act_ends_next_pass`: once any act (a preact of a refused transition included) has set the end
bag, the next pass is the ending pass, whatever the script says. -/
theorem end_set_by_an_act_ends_next_pass (F : Forest) (endat : Nat) (enders : List Event) (k t a : Nat) :
    loopX F endat enders [] (k + 1) t a true =
      ([⟨t, some a, none, (endPass F t a).events.length, (endPass F t a).events⟩], .ret true) := by
  unfold loopX
  simp [cut_nil]

/-! ## the translator's tables: statement-level facts of boxing.py the model relies on -/

/-- `run()` hands the components of `exen`'s result to the matching phases: component 0 (`reversed(nears[i:])`)
to `exdo`, 2 (`reversed(nears[:i])`) to `rexdo` inside the transition block; 3 (`fars[:i]`) to `rendo`, 1
(`fars[i:]`) to `endo`, then `redo`, after the scan — the order `transitEvents` assumes -/
theorem gen_run_feeds_exen_lists_to_matching_phases :
    Hio.Gen.exenReturn = ["rev-nears-from-i", "fars-from-i", "rev-nears-to-i", "fars-to-i"] ∧
    Hio.Gen.runTransitCalls = ["exdo<-0", "rexdo<-2"] ∧
    Hio.Gen.runAfterScanCalls = ["rendo<-3", "endo<-1", "redo"] := by decide

/-- `run()` calls `exen` with the ACTIVE box (whose pile is the active pile), as `scanGos` does -/
theorem gen_run_uses_active_pile : Hio.Gen.runExenNear = "active-box" := by decide

/-- `Box.rendo` runs remarks then renacts, `Box.endo` enmarks then enacts, as `boxRendo` / `boxEndo` do -/
theorem gen_box_entry_loops :
    Hio.Gen.boxRendoLoops = ["remarks", "renacts"] ∧ Hio.Gen.boxEndoLoops = ["enmarks", "enacts"] := by decide

/-- `end()` hands the REVERSED active pile to `exdo`, as `endPass` does -/
theorem gen_end_exits_reversed_pile : Hio.Gen.endCalls = ["exdo<-rev-active-pile"] := by decide

/-! ## non-vacuity: concrete boxworks satisfying the hypotheses -/

/-- a > (b > (c, d), e): c → d keeps a, b; then d → e keeps a -/
def exF : Forest := mkForest
  [⟨0, [1,2,1,2,1,1,2,2], [], []⟩, ⟨1, [1,2,1,2,1,1,2,2], [], []⟩,
   ⟨2, [1,2,1,2,1,1,2,2], [], [(3, 4)]⟩, ⟨2, [1,2,1,2,1,1,2,2], [], [(4, 8), (2, 16)]⟩,
   ⟨1, [1,2,1,2,1,1,2,2], [0], []⟩]

example : wf exF = true := by decide
example : pile exF 0 = [0, 1, 2] ∧ pile exF 3 = [0, 1, 3] ∧ pile exF 4 = [0, 4] := by decide
/-- an accepted transition (hypothesis of `transition_trace`) -/
example : ∃ ev q, scanPile exF 2 2 (pile exF 2) = .go ev 3 q ∧ q = ⟨[2], [3], [1, 0], [0, 1]⟩ := by
  refine ⟨_, _, rfl, ?_⟩; decide
example : pile exF 2 = [0, 1] ++ [2] ∧ pile exF 3 = [0, 1] ++ [3] ∧ ([2] : List Nat).head? ≠ [3].head? := by decide
/-- a fired goact whose destination's precondition fails, then a second goact accepted in the same pass -/
example : ∃ ev, scanPile exF 3 3 (pile exF 3) = .stay ev := ⟨_, rfl⟩
example : ∃ ev q, scanPile exF 4 3 (pile exF 3) = .go ev 2 q := ⟨_, _, rfl⟩
example : (run exF 0 5 6).2 = .ret true := by decide

end Hio.Box
