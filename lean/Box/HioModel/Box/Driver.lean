import HioModel.Basic.Sexp
import HioModel.Box.Model
open Hio Hio.Box Hio.Sexp

def nabeName : Nabe → String
  | .predo => "predo" | .remark => "remark" | .rendo => "rendo" | .enmark => "enmark" | .endo => "endo"
  | .redo => "redo" | .afdo => "afdo" | .godo => "godo" | .exdo => "exdo" | .rexdo => "rexdo"

def outEvent (e : Event) : Sexp := .list [ofNat e.box, sym (nabeName e.nabe), ofNat e.idx]

def outRec (r : Rec) : Sexp :=
  .list [ofNat r.tick, ofOpt ofNat r.active, .list (r.events.map outEvent)]

def outFinal : Final → Sexp
  | .live => .list [sym "live"]
  | .ret b => .list [sym "ret", ofBool b]
  | .exc => .list [sym "exc", sym "TypeError"]

def nats (xs : List Sexp) : Option (List Nat) := xs.mapM nat?

def pair? : Sexp → Option (Nat × Nat)
  | .list [a, b] => do some ((← nat? a), (← nat? b))
  | _ => none

def decl? : Sexp → Option Decl
  | .list [p, .list cs, .list pres, .list gos] => do
    some ⟨← nat? p, ← nats cs, ← nats pres, ← gos.mapM pair?⟩
  | _ => none

def nabe? : Sexp → Option Nabe
  | .atom "predo" => some .predo | .atom "remark" => some .remark | .atom "rendo" => some .rendo
  | .atom "enmark" => some .enmark | .atom "endo" => some .endo | .atom "redo" => some .redo
  | .atom "afdo" => some .afdo | .atom "godo" => some .godo | .atom "exdo" => some .exdo
  | .atom "rexdo" => some .rexdo | _ => none

def raise? : Sexp → Option ((Event × Nat) × String)
  | .list [b, nb, k, t, .atom nm] => do some ((⟨← nat? b, ← nabe? nb, ← nat? k⟩, ← nat? t), nm)
  | _ => none

def ender? : Sexp → Option Event
  | .list [b, nb, k] => do some ⟨← nat? b, ← nabe? nb, ← nat? k⟩
  | _ => none

def outEventsX (r : RecX) : List Sexp :=
  (List.range r.events.length).zip r.events |>.map fun (i, e) =>
    let seen := if i < r.switch then r.pre else r.post
    .list [ofNat e.box, sym (nabeName e.nabe), ofNat e.idx, ofOpt ofNat seen,
           if r.tick = 0 then sym "-" else ofOpt ofNat seen]

def outRecX (r : RecX) (wasCut : Bool) : Sexp :=
  .list [ofNat r.tick, ofOpt ofNat (r.after wasCut), .list (outEventsX r)]

def outFinalX (names : List ((Event × Nat) × String)) : FinalX → Sexp
  | .live => .list [sym "live"]
  | .ret b => .list [sym "ret", ofBool b]
  | .typeError => .list [sym "exc", sym "TypeError"]
  | .indexError => .list [sym "exc", sym "IndexError"]
  | .raised e t => .list [sym "exc", sym ((names.find? (fun p => p.1 == (e, t))).map (·.2) |>.getD "unknown")]

def outRunX (names : List ((Event × Nat) × String)) (r : List RecX × FinalX) : List Sexp :=
  let cut := match r.2 with | .raised _ _ => true | _ => false
  let n := r.1.length
  ((List.range n).zip r.1 |>.map fun (i, x) => outRecX x (cut && i + 1 == n)) ++ [outFinalX names r.2]

def handle : Sexp → Sexp
  | .list [.atom "run", .list bs, first, ticks, endat, .list raises, .list enders, rerun] =>
    match bs.mapM decl?, nat? first, nat? ticks, nat? endat, raises.mapM raise?, enders.mapM ender?, nat? rerun with
    | some ds, some first, some ticks, some endat, some rs, some es, some rerun =>
      let one := outRunX rs (runX (mkForest ds) first ticks endat es (rs.map (·.1)))
      .list (if rerun = 0 then one else one ++ one)
    | _, _, _, _, _, _, _ => sym "bad-request"
  | .list [.atom "run", .list bs, first, ticks, endat] =>
    match bs.mapM decl?, nat? first, nat? ticks, nat? endat with
    | some ds, some first, some ticks, some endat =>
      let r := run (mkForest ds) first ticks endat
      .list (r.1.map outRec ++ [outFinal r.2])
    | _, _, _, _ => sym "bad-request"
  | .list [.atom "pile", .list bs, i] =>
    match bs.mapM decl?, nat? i with
    | some ds, some i => .list ((pile (mkForest ds) i).map ofNat)
    | _, _ => sym "bad-request"
  | .list [.atom "wf", .list bs] =>
    match bs.mapM decl? with
    | some ds => ofBool (wf (mkForest ds))
    | _ => sym "bad-request"
  | _ => sym "bad-request"

def main : IO Unit := serve handle
