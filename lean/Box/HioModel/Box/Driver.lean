import HioModel.Basic.Sexp
import HioModel.Box.Model
open Hio Hio.Box Hio.Sexp

def nabeName : Nabe → String
  | .predo => "predo" | .remark => "remark" | .rendo => "rendo" | .enmark => "enmark" | .endo => "endo"
  | .redo => "redo" | .afdo => "afdo" | .godo => "godo" | .exdo => "exdo" | .rexdo => "rexdo"

def outEvent (e : Event) : Sexp := .list [ofNat e.box, sym (nabeName e.nabe), ofNat e.idx]

def outRec (r : Rec) : Sexp :=
  .list [ofNat r.tick, ofOpt ofNat r.active, .list (r.events.map outEvent)]

def outFinal : Final → Sexp
  | .live => .list [sym "live"]
  | .ret b => .list [sym "ret", ofBool b]
  | .exc => .list [sym "exc", sym "TypeError"]

def nats (xs : List Sexp) : Option (List Nat) := xs.mapM nat?

def pair? : Sexp → Option (Nat × Nat)
  | .list [a, b] => do some ((← nat? a), (← nat? b))
  | _ => none

def decl? : Sexp → Option Decl
  | .list [p, .list cs, .list pres, .list gos] => do
    some ⟨← nat? p, ← nats cs, ← nats pres, ← gos.mapM pair?⟩
  | _ => none

def handle : Sexp → Sexp
  | .list [.atom "run", .list bs, first, ticks, endat] =>
    match bs.mapM decl?, nat? first, nat? ticks, nat? endat with
    | some ds, some first, some ticks, some endat =>
      let r := run (mkForest ds) first ticks endat
      .list (r.1.map outRec ++ [outFinal r.2])
    | _, _, _, _ => sym "bad-request"
  | .list [.atom "pile", .list bs, i] =>
    match bs.mapM decl?, nat? i with
    | some ds, some i => .list ((pile (mkForest ds) i).map ofNat)
    | _, _ => sym "bad-request"
  | .list [.atom "wf", .list bs] =>
    match bs.mapM decl? with
    | some ds => ofBool (wf (mkForest ds))
    | _ => sym "bad-request"
  | _ => sym "bad-request"

def main : IO Unit := serve handle
