/-!
# Box — executable model of hio.base.hier.boxing (Box.pile, Boxer.exen, Boxer.run, Boxer.end)

Faithful to the tree **with the four `fix:` commits of branch fix/box** (F40 unpack order, F41 active pile,
F52 failed predo clears the entry lists, F53 end exits bottom-up).

A boxwork is a list of box descriptions; a box is identified by its declaration index (Python: object
identity; `Boxer.boxes` is an insertion-ordered dict so the index is the position in it).
Recording acts are opaque: what the model keeps of a box is *how many* acts each nabe (context) list holds;
running the list yields one event `(box, nabe, index)` per act, in list order — exactly what the harness-side
recording callables installed through `do(..., nabe=...)` log.  Preacts and goacts are scripted: act `k`
answers at tick `t` with bit `t` of its mask.

Import-free (compiled into the driver).
-/
namespace Hio.Box

inductive Nabe where
  | predo | remark | rendo | enmark | endo | redo | afdo | godo | exdo | rexdo
deriving DecidableEq, Repr, Inhabited

structure Event where
  box : Nat
  nabe : Nabe
  idx : Nat
deriving DecidableEq, Repr, Inhabited

/-- one `Box`: links and the sizes of its act lists -/
structure BoxD where
  over : Option Nat := none
  unders : List Nat := []
  /-- preacts: mask per act -/
  pres : List Nat := []
  /-- goacts: (dest, mask) per act -/
  gos : List (Nat × Nat) := []
  nRemark : Nat := 0
  nRendo : Nat := 0
  nEnmark : Nat := 0
  nEndo : Nat := 0
  nRedo : Nat := 0
  nAfdo : Nat := 0
  nExdo : Nat := 0
  nRexdo : Nat := 0
deriving Repr, Inhabited

abbrev Forest := List BoxD

/-- box `i` of the boxwork (an index outside the boxwork has no Python counterpart; it reads as an empty box
and every theorem is stated under `wf`, which rules such indices out) -/
def Forest.box (F : Forest) (i : Nat) : BoxD := F.getD i {}

/-! ## Box._trace : pile -/

/-- `while over: pile.insert(0, over); over = over.over` — overs of `i`, top-down -/
def ups (F : Forest) : Nat → Nat → List Nat
  | 0, _ => []
  | fuel + 1, i =>
    match (F.box i).over with
    | none => []
    | some p => ups F fuel p ++ [p]

/-- `while under: pile.append(under); under = under.unders[0] if under.unders else None` -/
def downs (F : Forest) : Nat → Nat → List Nat
  | 0, _ => []
  | fuel + 1, i =>
    match (F.box i).unders with
    | [] => []
    | u :: _ => u :: downs F fuel u

/-- `Box.pile` of box `i`, top-down.  The two Python loops are unbounded; on a well-formed boxwork both stop
within `F.length` steps (`Lemmas`: `downs_last_leaf`), which is the fuel used here. -/
def pile (F : Forest) (i : Nat) : List Nat :=
  ups F F.length i ++ i :: downs F F.length i

/-! ## Boxer.exen -/

structure Quad where
  exdos : List Nat
  endos : List Nat
  rexdos : List Nat
  rendos : List Nat
deriving DecidableEq, Repr

/-- first `i < min(len nears, len fars)` with `far is nears[i] or fars[i] is not nears[i]` -/
def exenIdx (far : Nat) : List Nat → List Nat → Option Nat
  | n :: ns, f :: fs => if far = n ∨ f ≠ n then some 0 else (exenIdx far ns fs).map (· + 1)
  | _, _ => none

/-- `Boxer.exen`: `(reversed(nears[i:]), fars[i:], reversed(nears[:i]), fars[:i])`; `none` = the loop falls
through and Python returns `None` (the caller's tuple unpacking then raises `TypeError`) -/
def exen (far : Nat) (nears fars : List Nat) : Option Quad :=
  (exenIdx far nears fars).map fun i =>
    ⟨(nears.drop i).reverse, fars.drop i, (nears.take i).reverse, fars.take i⟩

/-! ## running the act lists of one box -/

/-- run a list of `n` recording acts of box `b` in context `nb`, in list (= declaration) order -/
def acts (b : Nat) (nb : Nabe) (n : Nat) : List Event :=
  (List.range n).map fun k => ⟨b, nb, k⟩

/-- `Box.rendo`: remarks, then renacts -/
def boxRendo (F : Forest) (b : Nat) : List Event :=
  acts b .remark (F.box b).nRemark ++ acts b .rendo (F.box b).nRendo
/-- `Box.endo`: enmarks, then enacts -/
def boxEndo (F : Forest) (b : Nat) : List Event :=
  acts b .enmark (F.box b).nEnmark ++ acts b .endo (F.box b).nEndo
def boxRedo (F : Forest) (b : Nat) : List Event := acts b .redo (F.box b).nRedo
def boxAfdo (F : Forest) (b : Nat) : List Event := acts b .afdo (F.box b).nAfdo
def boxExdo (F : Forest) (b : Nat) : List Event := acts b .exdo (F.box b).nExdo
def boxRexdo (F : Forest) (b : Nat) : List Event := acts b .rexdo (F.box b).nRexdo

/-- `Boxer.rendo/endo/redo/exdo/rexdo (boxes)`: the boxes in the order given -/
def rendoL (F : Forest) (bs : List Nat) : List Event := bs.flatMap (boxRendo F)
def endoL (F : Forest) (bs : List Nat) : List Event := bs.flatMap (boxEndo F)
def redoL (F : Forest) (bs : List Nat) : List Event := bs.flatMap (boxRedo F)
def exdoL (F : Forest) (bs : List Nat) : List Event := bs.flatMap (boxExdo F)
def rexdoL (F : Forest) (bs : List Nat) : List Event := bs.flatMap (boxRexdo F)

/-- `Box.predo`: preacts in order, stop at the first unmet one -/
def boxPredoGo (b t : Nat) : List Nat → Nat → List Event × Bool
  | [], _ => ([], true)
  | m :: ms, k =>
    if m.testBit t then
      let r := boxPredoGo b t ms (k + 1)
      (⟨b, .predo, k⟩ :: r.1, r.2)
    else ([⟨b, .predo, k⟩], false)

def boxPredo (F : Forest) (t b : Nat) : List Event × Bool := boxPredoGo b t (F.box b).pres 0

/-- `Boxer.predo(predos)`: boxes top-down, stop at the first box whose preconditions are not met -/
def predo (F : Forest) (t : Nat) : List Nat → List Event × Bool
  | [] => ([], true)
  | b :: bs =>
    let r := boxPredo F t b
    if r.2 then
      let r2 := predo F t bs
      (r.1 ++ r2.1, r2.2)
    else (r.1, false)

/-! ## one pass of the `while True` loop of Boxer.run -/

/-- result of the afdo/godo scan of the active pile -/
inductive Scan where
  /-- no transition: none fired or every fired one had unmet entry preconditions -/
  | stay (ev : List Event)
  /-- transition to `dest` accepted (entry preconditions met) -/
  | go (ev : List Event) (dest : Nat) (q : Quad)
  /-- `exen` returned None: TypeError -/
  | exc (ev : List Event)
deriving Repr

def Scan.prepend (pre : List Event) : Scan → Scan
  | .stay ev => .stay (pre ++ ev)
  | .go ev d q => .go (pre ++ ev) d q
  | .exc ev => .exc (pre ++ ev)

/-- `for goact in box.goacts:` of box `b`, from goact number `j` on -/
def scanGos (F : Forest) (t active b : Nat) : List (Nat × Nat) → Nat → Scan
  | [], _ => .stay []
  | (d, m) :: gs, j =>
    if m.testBit t then
      match exen d (pile F active) (pile F d) with
      | none => .exc [⟨b, .godo, j⟩]
      | some q =>
        let r := predo F t q.endos
        if r.2 then .go (⟨b, .godo, j⟩ :: r.1) d q
        else (scanGos F t active b gs (j + 1)).prepend (⟨b, .godo, j⟩ :: r.1)
    else (scanGos F t active b gs (j + 1)).prepend [⟨b, .godo, j⟩]

/-- `for box in self.box.pile: box.afdo(); for goact in box.goacts: …` -/
def scanPile (F : Forest) (t active : Nat) : List Nat → Scan
  | [] => .stay []
  | b :: bs =>
    (match scanGos F t active b (F.box b).gos 0 with
     | .stay ev => (scanPile F t active bs).prepend ev
     | r => r).prepend (boxAfdo F b)

inductive Final where
  | live | ret (b : Bool) | exc
deriving DecidableEq, Repr

/-- what one resumption of the generator did: tick, active box afterwards, events -/
structure Rec where
  tick : Nat
  active : Option Nat
  events : List Event
deriving Repr

/-- the events of the exit/entry block of an accepted transition to `d` -/
def transitEvents (F : Forest) (d : Nat) (q : Quad) : List Event :=
  exdoL F q.exdos ++ rexdoL F q.rexdos ++ rendoL F q.rendos ++ endoL F q.endos ++ redoL F (pile F d)

/-- one loop pass (not ending) with `active` the active box: record and new active box (`none` = TypeError) -/
def pass (F : Forest) (t active : Nat) : Rec × Option Nat :=
  match scanPile F t active (pile F active) with
  | .stay ev => (⟨t, some active, ev ++ redoL F (pile F active)⟩, some active)
  | .go ev d q => (⟨t, some d, ev ++ transitEvents F d q⟩, some d)
  | .exc ev => (⟨t, some active, ev⟩, none)

/-- `Boxer.end()` on the pass where `endial()` is true -/
def endPass (F : Forest) (t active : Nat) : Rec :=
  ⟨t, none, exdoL F (pile F active).reverse⟩

/-- has the end bag been set before the call at tick `t`? (`endat = 0`: never; else set before tick `endat-1`) -/
def ended (endat t : Nat) : Bool := endat ≠ 0 && endat - 1 ≤ t

/-- the `while True` loop: `k` more sends, next tick `t` -/
def loop (F : Forest) (endat : Nat) : Nat → Nat → Nat → List Rec × Final
  | 0, _, _ => ([], .live)
  | k + 1, t, active =>
    if ended endat t then ([endPass F t active], .ret true)
    else
      match pass F t active with
      | (r, none) => ([r], .exc)
      | (r, some a) =>
        let rest := loop F endat k (t + 1) a
        (r :: rest.1, rest.2)

/-- `Boxer.run` driven for `ticks` sends after the initial `next()`.
`first = 0`: no box marked first (start in box 0), else box `first-1`. -/
def run (F : Forest) (first ticks endat : Nat) : List Rec × Final :=
  let start := first - 1
  let p := predo F 0 (pile F start)
  if !p.2 then ([⟨0, none, p.1⟩], .ret false)
  else
    let r0 : Rec := ⟨0, some start, p.1⟩
    match ticks with
    | 0 => ([r0], .live)
    | k + 1 =>
      let r1 : Rec := ⟨1, some start, endoL F (pile F start) ++ redoL F (pile F start)⟩
      let rest := loop F endat k 2 start
      (r0 :: r1 :: rest.1, rest.2)

/-! ## faults and side effects of acts: `runX`

`run` above treats acts as silent.  `runX` adds what an act can do to the Boxer besides being logged:
* **raise**: `raises` lists (event, tick) pairs; when that act / preact / goact runs at that tick it raises.
  Boxer.run has no `try`, so the exception leaves the generator at once: the record is cut right after the
  raising event and the run is over (`FinalX.raised`).
* **set the end bag** (what `EndAct` does): `enders` lists events that set the flag whenever they run — in any
  context, including preacts of a transition that is then refused.
* **look at the Boxer**: every event also reports which box was `boxer.box` when it ran.  `self.box = dest` is
  executed after the exdo and rexdo phases and before rendo/endo/redo (`switchAt`). -/

/-- number of events of a loop pass that run before `self.box = dest` (all of them when nothing is accepted) -/
def switchAt (F : Forest) (t active : Nat) : Nat :=
  match scanPile F t active (pile F active) with
  | .stay ev => (ev ++ redoL F (pile F active)).length
  | .go ev _ q => (ev ++ (exdoL F q.exdos ++ rexdoL F q.rexdos)).length
  | .exc ev => ev.length

structure RecX where
  tick : Nat
  /-- `boxer.box` seen by the first `switch` events -/
  pre : Option Nat
  /-- `boxer.box` seen by the remaining events, and after the call when it completes -/
  post : Option Nat
  switch : Nat
  events : List Event
deriving Repr

inductive FinalX where
  | live | ret (b : Bool) | typeError | indexError | raised (e : Event) (tick : Nat)
deriving DecidableEq, Repr

/-- position of the first event of `evs` that raises at tick `t` -/
def raiseIdx (raises : List (Event × Nat)) (t : Nat) : List Event → Option Nat
  | [] => none
  | e :: es => if raises.contains (e, t) then some 0 else (raiseIdx raises t es).map (· + 1)

/-- cut a record at its first raising event (inclusive) -/
def RecX.cut (raises : List (Event × Nat)) (r : RecX) : RecX × Option Event :=
  match raiseIdx raises r.tick r.events with
  | none => (r, none)
  | some i => ({ r with events := r.events.take (i + 1) }, r.events[i]?)

/-- `boxer.box` after the call: a record cut at or before its last pre-switch event never switched -/
def RecX.after (r : RecX) (wasCut : Bool) : Option Nat :=
  if wasCut && r.events.length ≤ r.switch then r.pre else r.post

def setsEnd (enders : List Event) (evs : List Event) : Bool := evs.any (fun e => enders.contains e)

def loopX (F : Forest) (endat : Nat) (enders : List Event) (raises : List (Event × Nat)) :
    Nat → Nat → Nat → Bool → List RecX × FinalX
  | 0, _, _, _ => ([], .live)
  | k + 1, t, active, flag =>
    if ended endat t || flag then
      let full : RecX := ⟨t, some active, none, (endPass F t active).events.length, (endPass F t active).events⟩
      match full.cut raises with
      | (r, some e) => ([r], .raised e t)
      | (r, none) => ([r], .ret true)
    else
      let p := pass F t active
      let full : RecX := ⟨t, some active, p.1.active, switchAt F t active, p.1.events⟩
      match full.cut raises with
      | (r, some e) => ([r], .raised e t)
      | (r, none) =>
        match p.2 with
        | none => ([r], .typeError)
        | some a =>
          let rest := loopX F endat enders raises k (t + 1) a (flag || setsEnd enders r.events)
          (r :: rest.1, rest.2)

def runX (F : Forest) (first ticks endat : Nat) (enders : List Event) (raises : List (Event × Nat)) :
    List RecX × FinalX :=
  if F.isEmpty then ([⟨0, none, none, 0, []⟩], .indexError)   -- list(self.boxes.values())[0]
  else
  let start := first - 1
  let p := predo F 0 (pile F start)
  let full0 : RecX := ⟨0, some start, if p.2 then some start else none, p.1.length, p.1⟩
  match full0.cut raises with
  | (r0, some e) => ([r0], .raised e 0)
  | (r0, none) =>
    if !p.2 then ([r0], .ret false)
    else
      match ticks with
      | 0 => ([r0], .live)
      | k + 1 =>
        let full1 : RecX := ⟨1, some start, some start, 0, endoL F (pile F start) ++ redoL F (pile F start)⟩
        match full1.cut raises with
        | (r1, some e) => ([r0, r1], .raised e 1)
        | (r1, none) =>
          let rest := loopX F endat enders raises k 2 start
            (setsEnd enders r0.events || setsEnd enders r1.events)
          (r0 :: r1 :: rest.1, rest.2)

/-! ## building the boxwork the way `Boxer.bx` does -/

/-- raw description of one declared box: `over+1` (0 = top level), the 8 counts, preact masks, goacts -/
structure Decl where
  over1 : Nat
  counts : List Nat
  pres : List Nat
  gos : List (Nat × Nat)
deriving Repr

/-- indices `j ≥ base` in `ds` (numbered from `base`) whose over is `i` — `over.unders.append(box)` in declaration order -/
def undersOf (i : Nat) : List Decl → Nat → List Nat
  | [], _ => []
  | d :: ds, j => if d.over1 = i + 1 then j :: undersOf i ds (j + 1) else undersOf i ds (j + 1)

def mkBox (all : List Decl) (i : Nat) (d : Decl) : BoxD :=
  { over := if d.over1 = 0 then none else some (d.over1 - 1)
    unders := undersOf i all 0
    pres := d.pres
    gos := d.gos
    nRemark := d.counts.getD 0 0, nRendo := d.counts.getD 1 0, nEnmark := d.counts.getD 2 0,
    nEndo := d.counts.getD 3 0, nRedo := d.counts.getD 4 0, nAfdo := d.counts.getD 5 0,
    nExdo := d.counts.getD 6 0, nRexdo := d.counts.getD 7 0 }

def mkForestGo (all : List Decl) : List Decl → Nat → Forest
  | [], _ => []
  | d :: ds, i => mkBox all i d :: mkForestGo all ds (i + 1)

def mkForest (ds : List Decl) : Forest := mkForestGo ds ds 0

/-! ## well-formedness: what `bx` guarantees -/

/-- over declared before under and linked both ways; goact destinations exist -/
def wfBox (F : Forest) (i : Nat) : Bool :=
  (match (F.box i).over with
   | none => true
   | some p => decide (p < i) && (F.box p).unders.contains i) &&
  (F.box i).unders.all (fun u => decide (i < u) && decide (u < F.length) && ((F.box u).over == some i)) &&
  (F.box i).gos.all (fun g => decide (g.1 < F.length))

def wf (F : Forest) : Bool := (List.range F.length).all (wfBox F)

end Hio.Box
