import Mathlib.Data.List.Induction
import HioModel.Box.Model
/-! helper lemmas for Props/C25.lean -/
namespace Hio.Box

/-! ### well-formedness, unpacked -/

theorem box_oob {F : Forest} {i : Nat} (h : F.length ≤ i) : F.box i = {} := by
  simp [Forest.box, List.getD, List.getElem?_eq_none h]

theorem wf_box {F : Forest} (h : wf F = true) {i : Nat} (hi : i < F.length) : wfBox F i = true := by
  unfold wf at h
  rw [List.all_eq_true] at h
  exact h i (List.mem_range.mpr hi)

theorem wf_over {F : Forest} (h : wf F = true) {i p : Nat} (hi : i < F.length)
    (ho : (F.box i).over = some p) : p < i ∧ i ∈ (F.box p).unders := by
  have := wf_box h hi
  unfold wfBox at this
  rw [ho] at this
  simp only [Bool.and_eq_true, decide_eq_true_eq, List.contains_iff_mem] at this
  exact this.1.1

theorem wf_under {F : Forest} (h : wf F = true) {i u : Nat} (hi : i < F.length)
    (hu : u ∈ (F.box i).unders) : i < u ∧ u < F.length ∧ (F.box u).over = some i := by
  have := wf_box h hi
  unfold wfBox at this
  simp only [Bool.and_eq_true, List.all_eq_true, decide_eq_true_eq, beq_iff_eq] at this
  have := this.1.2 u hu
  exact ⟨this.1.1, this.1.2, this.2⟩

theorem wf_go {F : Forest} (h : wf F = true) {i : Nat} {g : Nat × Nat} (hi : i < F.length)
    (hg : g ∈ (F.box i).gos) : g.1 < F.length := by
  have := wf_box h hi
  unfold wfBox at this
  simp only [Bool.and_eq_true, List.all_eq_true, decide_eq_true_eq] at this
  exact this.2 g hg

/-! ### piles -/


theorem getLast?_append_cons {α} (l r : List α) (x : α) : (l ++ x :: r).getLast? = (x :: r).getLast? := by
  rw [List.getLast?_append]
  cases h : (x :: r).getLast? with
  | none => simp at h
  | some y => simp

/-- consecutive boxes of the list are over / under of each other -/
def Linked (F : Forest) : List Nat → Prop
  | [] => True
  | [_] => True
  | a :: b :: r => (F.box b).over = some a ∧ Linked F (b :: r)

theorem linked_append_single {F : Forest} : ∀ {l : List Nat} {p i : Nat},
    Linked F (l ++ [p]) → (F.box i).over = some p → Linked F (l ++ [p] ++ [i])
  | [], p, i, _, ho => by simp [Linked, ho]
  | [a], p, i, hl, ho => by
    simp only [List.cons_append, List.nil_append, Linked] at hl ⊢
    exact ⟨hl.1, ho, trivial⟩
  | a :: b :: r, p, i, hl, ho => by
    simp only [List.cons_append, Linked] at hl ⊢
    exact ⟨hl.1, by simpa using linked_append_single (l := b :: r) hl.2 ho⟩

theorem linked_ups (F : Forest) : ∀ (fuel i : Nat), Linked F (ups F fuel i ++ [i])
  | 0, i => by simp [ups, Linked]
  | fuel + 1, i => by
    unfold ups
    split
    · simp [Linked]
    · next p ho =>
      exact linked_append_single (linked_ups F fuel p) ho

theorem linked_cons {F : Forest} {a : Nat} : ∀ {l : List Nat},
    (∀ b ∈ l.head?, (F.box b).over = some a) → Linked F l → Linked F (a :: l)
  | [], _, _ => by simp [Linked]
  | b :: r, h, hl => by
    simp only [Linked]
    exact ⟨h b (by simp), hl⟩

theorem linked_downs {F : Forest} (h : wf F = true) : ∀ (fuel i : Nat), i < F.length →
    Linked F (i :: downs F fuel i)
  | 0, i, _ => by simp [downs, Linked]
  | fuel + 1, i, hi => by
    unfold downs
    split
    · simp [Linked]
    · next u us hu =>
      have hw := wf_under h hi (u := u) (by rw [hu]; simp)
      exact ⟨hw.2.2, linked_downs h fuel u hw.2.1⟩

theorem linked_append {F : Forest} : ∀ {l r : List Nat} {x : Nat},
    Linked F (l ++ [x]) → Linked F (x :: r) → Linked F (l ++ x :: r)
  | [], r, x, _, h2 => by simpa using h2
  | [a], r, x, h1, h2 => by
    simp only [List.cons_append, List.nil_append, Linked] at h1 ⊢
    exact ⟨h1.1, h2⟩
  | a :: b :: l, r, x, h1, h2 => by
    simp only [List.cons_append, Linked] at h1 ⊢
    exact ⟨h1.1, by simpa using linked_append (l := b :: l) h1.2 h2⟩

/-- a pile is a chain of overs from its top box down -/
theorem pile_linked {F : Forest} (h : wf F = true) {i : Nat} (hi : i < F.length) : Linked F (pile F i) :=
  linked_append (linked_ups F _ i) (linked_downs h _ i hi)

theorem mem_pile_self (F : Forest) (i : Nat) : i ∈ pile F i := by simp [pile]

theorem ups_lt {F : Forest} (h : wf F = true) : ∀ (fuel i : Nat), i < F.length → ∀ x ∈ ups F fuel i, x < i
  | 0, i, _ => by simp [ups]
  | fuel + 1, i, hi => by
    unfold ups
    split
    · simp
    · next p ho =>
      have hw := wf_over h hi ho
      intro x hx
      rw [List.mem_append] at hx
      rcases hx with hx | hx
      · have := ups_lt h fuel p (by omega) x hx; omega
      · simp at hx; omega

theorem downs_lt {F : Forest} (h : wf F = true) : ∀ (fuel i : Nat), i < F.length →
    ∀ x ∈ downs F fuel i, i < x ∧ x < F.length
  | 0, i, _ => by simp [downs]
  | fuel + 1, i, hi => by
    unfold downs
    split
    · simp
    · next u us hu =>
      have hw := wf_under h hi (u := u) (by rw [hu]; simp)
      intro x hx
      rw [List.mem_cons] at hx
      rcases hx with hx | hx
      · subst hx; exact ⟨hw.1, hw.2.1⟩
      · have := downs_lt h fuel u hw.2.1 x hx; omega

/-- every box of a pile is a box of the boxwork -/
theorem pile_lt {F : Forest} (h : wf F = true) {i : Nat} (hi : i < F.length) : ∀ x ∈ pile F i, x < F.length := by
  intro x hx
  simp only [pile, List.mem_append, List.mem_cons] at hx
  rcases hx with hx | hx | hx
  · have := ups_lt h _ i hi x hx; omega
  · omega
  · exact (downs_lt h _ i hi x hx).2

/-- the pile ends in a box without unders (the `while under` loop really ran to the bottom) -/
theorem downs_last_leaf {F : Forest} (h : wf F = true) : ∀ (fuel i : Nat), F.length ≤ fuel + i →
    ∀ x ∈ (i :: downs F fuel i).getLast?, (F.box x).unders = []
  | 0, i, hf => by
    intro x hx
    simp [downs] at hx
    subst hx
    rw [box_oob (by omega)]
  | fuel + 1, i, hf => by
    intro x hx
    unfold downs at hx
    split at hx
    · next hu => simp at hx; subst hx; exact hu
    · next u us hu =>
      by_cases hi : i < F.length
      · have hw := wf_under h hi (u := u) (by rw [hu]; simp)
        rw [List.getLast?_cons_cons] at hx
        exact downs_last_leaf h fuel u (by omega) x hx
      · rw [box_oob (by omega)] at hu; simp at hu

theorem pile_last_leaf {F : Forest} (h : wf F = true) (i : Nat) :
    ∀ x ∈ (pile F i).getLast?, (F.box x).unders = [] := by
  intro x hx
  unfold pile at hx
  rw [getLast?_append_cons] at hx
  exact downs_last_leaf h _ i (by omega) x hx




theorem linked_lt {F : Forest} (h : wf F = true) : ∀ {l : List Nat}, Linked F l → (∀ x ∈ l, x < F.length) →
    l.Pairwise (· < ·)
  | [], _, _ => List.Pairwise.nil
  | [a], _, _ => by simp
  | a :: b :: r, hl, hb => by
    have ih := linked_lt h hl.2 (fun x hx => hb x (List.mem_cons_of_mem _ hx))
    have hab : a < b := (wf_over h (hb b (by simp)) hl.1).1
    rw [List.pairwise_cons]
    refine ⟨?_, ih⟩
    intro x hx
    rw [List.mem_cons] at hx
    rcases hx with hx | hx
    · omega
    · have := (List.pairwise_cons.mp ih).1 x hx; omega

/-- boxes of a pile are strictly increasing in declaration index, hence pairwise distinct -/
theorem pile_sorted {F : Forest} (h : wf F = true) {i : Nat} (hi : i < F.length) :
    (pile F i).Pairwise (· < ·) :=
  linked_lt h (pile_linked h hi) (pile_lt h hi)

theorem pile_nodup {F : Forest} (h : wf F = true) {i : Nat} (hi : i < F.length) : (pile F i).Nodup := by
  have := pile_sorted h hi
  exact this.imp (fun hab => Nat.ne_of_lt hab)

/-! ### exen -/

theorem exenIdx_some {far : Nat} : ∀ {ns fs : List Nat} {i : Nat}, exenIdx far ns fs = some i →
    ∃ kept n left f arr, ns = kept ++ n :: left ∧ fs = kept ++ f :: arr ∧ far ∉ kept ∧ (far = n ∨ f ≠ n) ∧
      i = kept.length
  | [], _, _, h => by simp [exenIdx] at h
  | _ :: _, [], _, h => by simp [exenIdx] at h
  | n :: ns, f :: fs, i, h => by
    unfold exenIdx at h
    split at h
    · next hc =>
      cases h
      exact ⟨[], n, ns, f, fs, rfl, rfl, by simp, hc, rfl⟩
    · next hc =>
      cases h2 : exenIdx far ns fs with
      | none => simp [h2] at h
      | some j =>
        simp [h2] at h
        obtain ⟨kept, n', left, f', arr, h1, h2', h3, h4, h5⟩ := exenIdx_some h2
        have hfn : f = n := by
          by_cases hh : f = n
          · exact hh
          · exact absurd (Or.inr hh) hc
        have hfar : far ≠ n := fun hh => hc (Or.inl hh)
        refine ⟨n :: kept, n', left, f', arr, by simp [h1], by simp [h2', hfn], ?_, h4, by simp [← h, h5]⟩
        simp [hfar, h3]

theorem exen_some {far : Nat} {ns fs : List Nat} {q : Quad} (h : exen far ns fs = some q) :
    ∃ kept n left f arr, ns = kept ++ n :: left ∧ fs = kept ++ f :: arr ∧ far ∉ kept ∧ (far = n ∨ f ≠ n) ∧
      q = ⟨(n :: left).reverse, f :: arr, kept.reverse, kept⟩ := by
  unfold exen at h
  cases h2 : exenIdx far ns fs with
  | none => simp [h2] at h
  | some i =>
    simp [h2] at h
    obtain ⟨kept, n, left, f, arr, h1, h2', h3, h4, h5⟩ := exenIdx_some h2
    refine ⟨kept, n, left, f, arr, h1, h2', h3, h4, ?_⟩
    subst h5
    rw [← h, h1, h2']
    simp

theorem exenIdx_none {far : Nat} : ∀ {ns fs : List Nat}, exenIdx far ns fs = none →
    (∃ r, fs = ns ++ r ∧ far ∉ ns) ∨ (∃ r, ns = fs ++ r ∧ far ∉ fs)
  | [], fs, _ => Or.inl ⟨fs, rfl, by simp⟩
  | n :: ns, [], _ => Or.inr ⟨n :: ns, rfl, by simp⟩
  | n :: ns, f :: fs, h => by
    unfold exenIdx at h
    split at h
    · simp at h
    · next hc =>
      have hfn : f = n := by
        by_cases hh : f = n
        · exact hh
        · exact absurd (Or.inr hh) hc
      have hfar : far ≠ n := fun hh => hc (Or.inl hh)
      have h2 : exenIdx far ns fs = none := by
        cases h3 : exenIdx far ns fs with
        | none => rfl
        | some j => simp [h3] at h
      rcases exenIdx_none h2 with ⟨r, hr, hm⟩ | ⟨r, hr, hm⟩
      · exact Or.inl ⟨r, by simp [hr, hfn], by simp [hfar, hm]⟩
      · exact Or.inr ⟨r, by simp [hr, hfn], by simp [hfn ▸ hfar, hm]⟩

theorem linked_split {F : Forest} : ∀ {l r : List Nat} {x : Nat}, Linked F (l ++ x :: r) →
    ∀ y ∈ l.getLast?, (F.box x).over = some y
  | [], _, _, _ => by simp
  | [a], r, x, h => by
    intro y hy
    simp at hy
    subst hy
    exact h.1
  | a :: b :: l, r, x, h => by
    intro y hy
    rw [List.getLast?_cons_cons] at hy
    exact linked_split (l := b :: l) h.2 y hy

/-- on a well-formed boxwork the `for i in range(l)` loop of `exen` always hits its `return` -/
theorem exen_isSome {F : Forest} (h : wf F = true) (a : Nat) {d : Nat} (hd : d < F.length) :
    (exen d (pile F a) (pile F d)).isSome = true := by
  unfold exen
  cases h2 : exenIdx d (pile F a) (pile F d) with
  | some i => simp
  | none =>
    exfalso
    rcases exenIdx_none h2 with ⟨r, hr, hm⟩ | ⟨r, hr, hm⟩
    · cases r with
      | nil =>
        rw [List.append_nil] at hr
        exact hm (hr ▸ mem_pile_self F d)
      | cons x r =>
        have hl := pile_linked h hd
        rw [hr] at hl
        have hne : (pile F a) ≠ [] := by simp [pile]
        obtain ⟨y, hy⟩ : ∃ y, (pile F a).getLast? = some y := by
          cases hh : (pile F a).getLast? with
          | none => simp at hh; exact absurd hh hne
          | some y => exact ⟨y, rfl⟩
        have hov := linked_split hl y (by simp [hy])
        have hleaf := pile_last_leaf h a y (by simp [hy])
        have hx : x < F.length := pile_lt h hd x (by rw [hr]; simp)
        have := (wf_over h hx hov).2
        rw [hleaf] at this
        simp at this
    · exact hm (mem_pile_self F d)




/-! ### events of the act lists -/

theorem mem_acts {b : Nat} {nb : Nabe} {n : Nat} {e : Event} (h : e ∈ acts b nb n) :
    e.box = b ∧ e.nabe = nb ∧ e.idx < n := by
  simp only [acts, List.mem_map, List.mem_range] at h
  obtain ⟨k, hk, rfl⟩ := h
  exact ⟨rfl, rfl, hk⟩

theorem boxPredoGo_nabe {b t : Nat} : ∀ {ms : List Nat} {k : Nat} {e : Event},
    e ∈ (boxPredoGo b t ms k).1 → e.nabe = .predo
  | [], _, _, h => by simp [boxPredoGo] at h
  | m :: ms, k, e, h => by
    unfold boxPredoGo at h
    split at h
    · simp only [List.mem_cons] at h
      rcases h with h | h
      · subst h; rfl
      · exact boxPredoGo_nabe h
    · simp at h; subst h; rfl

theorem predo_nabe {F : Forest} {t : Nat} : ∀ {bs : List Nat} {e : Event},
    e ∈ (predo F t bs).1 → e.nabe = .predo
  | [], _, h => by simp [predo] at h
  | b :: bs, e, h => by
    unfold predo at h
    simp only at h
    split at h
    · simp only [List.mem_append] at h
      rcases h with h | h
      · exact boxPredoGo_nabe h
      · exact predo_nabe h
    · exact boxPredoGo_nabe h

/-! ### the afdo / godo scan -/

/-- what is known about a scan result: its events satisfy `P`; an accepted destination satisfies `G`, its
lists are `exen` of the ACTIVE pile and the destination's pile, and its entry preconditions were met; a
TypeError comes from a destination satisfying `G` on which `exen` fell through -/
def Scan.Good (F : Forest) (t a : Nat) (P : Event → Prop) (G : Nat → Prop) : Scan → Prop
  | .stay ev => ∀ e ∈ ev, P e
  | .go ev d q => (∀ e ∈ ev, P e) ∧ G d ∧ exen d (pile F a) (pile F d) = some q ∧ (predo F t q.endos).2 = true
  | .exc _ => ∃ d, G d ∧ exen d (pile F a) (pile F d) = none

theorem Scan.Good.prepend {F : Forest} {t a : Nat} {P : Event → Prop} {G : Nat → Prop} {pre : List Event}
    (hp : ∀ e ∈ pre, P e) : ∀ {s : Scan}, s.Good F t a P G → (s.prepend pre).Good F t a P G
  | .stay ev, h => by
    intro e he
    simp only [List.mem_append] at he
    rcases he with he | he
    · exact hp e he
    · exact h e he
  | .go ev d q, h => by
    refine ⟨?_, h.2⟩
    intro e he
    simp only [List.mem_append] at he
    rcases he with he | he
    · exact hp e he
    · exact h.1 e he
  | .exc ev, h => h

theorem Scan.Good.mono {F : Forest} {t a : Nat} {P P' : Event → Prop} {G G' : Nat → Prop}
    (hP : ∀ e, P e → P' e) (hG : ∀ d, G d → G' d) : ∀ {s : Scan}, s.Good F t a P G → s.Good F t a P' G'
  | .stay _, h => fun e he => hP e (h e he)
  | .go _ _ _, h => ⟨fun e he => hP e (h.1 e he), hG _ h.2.1, h.2.2⟩
  | .exc _, ⟨d, hd, he⟩ => ⟨d, hG d hd, he⟩

def ScanNabe (e : Event) : Prop := e.nabe = .afdo ∨ e.nabe = .godo ∨ e.nabe = .predo

theorem scanGos_good (F : Forest) (t a b : Nat) : ∀ (gs : List (Nat × Nat)) (j : Nat),
    (scanGos F t a b gs j).Good F t a ScanNabe (fun d => ∃ m, (d, m) ∈ gs ∧ m.testBit t = true)
  | [], _ => by simp [scanGos, Scan.Good]
  | (d, m) :: gs, j => by
    have ih := (scanGos_good F t a b gs (j + 1)).mono (P' := ScanNabe)
      (G' := fun d' => ∃ m', (d', m') ∈ (d, m) :: gs ∧ m'.testBit t = true) (fun _ h => h)
      (fun d' ⟨m', h1, h2⟩ => ⟨m', List.mem_cons_of_mem _ h1, h2⟩)
    unfold scanGos
    split
    · next hm =>
      split
      · next hx => exact ⟨d, ⟨m, by simp, hm⟩, hx⟩
      · next q hx =>
        simp only
        split
        · next hp =>
          refine ⟨?_, ⟨m, by simp, hm⟩, hx, hp⟩
          intro e he
          simp only [List.mem_cons] at he
          rcases he with he | he
          · subst he; exact Or.inr (Or.inl rfl)
          · exact Or.inr (Or.inr (predo_nabe he))
        · refine ih.prepend ?_
          intro e he
          simp only [List.mem_cons] at he
          rcases he with he | he
          · subst he; exact Or.inr (Or.inl rfl)
          · exact Or.inr (Or.inr (predo_nabe he))
    · refine ih.prepend ?_
      intro e he
      simp at he
      subst he; exact Or.inr (Or.inl rfl)

/-- destination of a goact of one of the boxes `bs` that fires at tick `t` -/
def Fired (F : Forest) (t : Nat) (bs : List Nat) (d : Nat) : Prop :=
  ∃ b ∈ bs, ∃ m, (d, m) ∈ (F.box b).gos ∧ m.testBit t = true

theorem scanPile_good (F : Forest) (t a : Nat) : ∀ (bs : List Nat),
    (scanPile F t a bs).Good F t a ScanNabe (Fired F t bs)
  | [] => by simp [scanPile, Scan.Good]
  | b :: bs => by
    unfold scanPile
    refine Scan.Good.prepend (fun e he => Or.inl (mem_acts he).2.1) ?_
    have hg := (scanGos_good F t a b (F.box b).gos 0).mono (P' := ScanNabe) (G' := Fired F t (b :: bs))
      (fun _ h => h) (fun d ⟨m, h1, h2⟩ => ⟨b, by simp, m, h1, h2⟩)
    have ih := (scanPile_good F t a bs).mono (P' := ScanNabe) (G' := Fired F t (b :: bs))
      (fun _ h => h) (fun d ⟨b', hb', r⟩ => ⟨b', List.mem_cons_of_mem _ hb', r⟩)
    split
    · next ev hs =>
      rw [hs] at hg
      exact ih.prepend hg
    · next r hr => exact hg

theorem fired_lt {F : Forest} (h : wf F = true) {t a d : Nat} (ha : a < F.length)
    (hf : Fired F t (pile F a) d) : d < F.length := by
  obtain ⟨b, hb, m, hm, _⟩ := hf
  exact wf_go h (pile_lt h ha b hb) hm

/-- on a well-formed boxwork the scan never raises -/
theorem scanPile_no_exc {F : Forest} (h : wf F = true) {t a : Nat} (ha : a < F.length) (ev : List Event) :
    scanPile F t a (pile F a) ≠ .exc ev := by
  intro hs
  have hg := scanPile_good F t a (pile F a)
  rw [hs] at hg
  obtain ⟨d, hd, hx⟩ := hg
  have := exen_isSome h a (fired_lt h ha hd)
  rw [hx] at this
  simp at this




/-! ### declaration order: traces are made of complete act-list runs -/

/-- size of the act list of box `b` for context `nb` (preacts / goacts are scripted, not counted here) -/
def count (F : Forest) (b : Nat) : Nabe → Nat
  | .remark => (F.box b).nRemark | .rendo => (F.box b).nRendo | .enmark => (F.box b).nEnmark
  | .endo => (F.box b).nEndo | .redo => (F.box b).nRedo | .afdo => (F.box b).nAfdo
  | .exdo => (F.box b).nExdo | .rexdo => (F.box b).nRexdo | .predo => 0 | .godo => 0

/-- the trace is a sequence of complete runs of act lists (every act of the list, in list order) and single
precondition / goact evaluations -/
inductive Blocks (F : Forest) : List Event → Prop
  | nil : Blocks F []
  | block (b : Nat) (nb : Nabe) (rest : List Event) : nb ≠ .predo → nb ≠ .godo → Blocks F rest →
      Blocks F (acts b nb (count F b nb) ++ rest)
  | ctl (e : Event) (rest : List Event) : (e.nabe = .predo ∨ e.nabe = .godo) → Blocks F rest →
      Blocks F (e :: rest)

theorem Blocks.append {F : Forest} {l r : List Event} (hl : Blocks F l) (hr : Blocks F r) : Blocks F (l ++ r) := by
  induction hl with
  | nil => simpa using hr
  | block b nb rest h1 h2 _ ih => rw [List.append_assoc]; exact .block b nb _ h1 h2 ih
  | ctl e rest h _ ih => exact .ctl e _ h ih

theorem Blocks.one {F : Forest} (b : Nat) (nb : Nabe) (h1 : nb ≠ .predo) (h2 : nb ≠ .godo) :
    Blocks F (acts b nb (count F b nb)) := by
  have := Blocks.block (F := F) b nb [] h1 h2 .nil
  simpa using this

theorem Blocks.flatMap {F : Forest} {f : Nat → List Event} (hf : ∀ b, Blocks F (f b)) :
    ∀ bs : List Nat, Blocks F (bs.flatMap f)
  | [] => .nil
  | b :: bs => by rw [List.flatMap_cons]; exact (hf b).append (Blocks.flatMap hf bs)

theorem blocks_rendoL (F : Forest) (bs : List Nat) : Blocks F (rendoL F bs) :=
  Blocks.flatMap (fun b => (Blocks.one b .remark (by decide) (by decide)).append
    (Blocks.one b .rendo (by decide) (by decide))) bs
theorem blocks_endoL (F : Forest) (bs : List Nat) : Blocks F (endoL F bs) :=
  Blocks.flatMap (fun b => (Blocks.one b .enmark (by decide) (by decide)).append
    (Blocks.one b .endo (by decide) (by decide))) bs
theorem blocks_redoL (F : Forest) (bs : List Nat) : Blocks F (redoL F bs) :=
  Blocks.flatMap (fun b => Blocks.one b .redo (by decide) (by decide)) bs
theorem blocks_exdoL (F : Forest) (bs : List Nat) : Blocks F (exdoL F bs) :=
  Blocks.flatMap (fun b => Blocks.one b .exdo (by decide) (by decide)) bs
theorem blocks_rexdoL (F : Forest) (bs : List Nat) : Blocks F (rexdoL F bs) :=
  Blocks.flatMap (fun b => Blocks.one b .rexdo (by decide) (by decide)) bs

theorem blocks_of_ctl {F : Forest} : ∀ {l : List Event}, (∀ e ∈ l, e.nabe = .predo ∨ e.nabe = .godo) → Blocks F l
  | [], _ => .nil
  | e :: l, h => .ctl e l (h e (by simp)) (blocks_of_ctl (fun e' he' => h e' (List.mem_cons_of_mem _ he')))

theorem blocks_predo (F : Forest) (t : Nat) (bs : List Nat) : Blocks F (predo F t bs).1 :=
  blocks_of_ctl (fun _ he => Or.inl (predo_nabe he))

def Scan.events : Scan → List Event
  | .stay ev => ev | .go ev _ _ => ev | .exc ev => ev

theorem Scan.events_prepend (pre : List Event) (s : Scan) : (s.prepend pre).events = pre ++ s.events := by
  cases s <;> rfl

theorem blocks_scanGos (F : Forest) (t a b : Nat) : ∀ (gs : List (Nat × Nat)) (j : Nat),
    Blocks F (scanGos F t a b gs j).events
  | [], _ => .nil
  | (d, m) :: gs, j => by
    unfold scanGos
    split
    · split
      · exact .ctl _ _ (Or.inr rfl) .nil
      · simp only
        split
        · exact .ctl _ _ (Or.inr rfl) (blocks_predo F t _)
        · rw [Scan.events_prepend]
          exact (Blocks.ctl _ _ (Or.inr rfl) (blocks_predo F t _)).append (blocks_scanGos F t a b gs (j + 1))
    · rw [Scan.events_prepend]
      exact (Blocks.ctl _ _ (Or.inr rfl) .nil).append (blocks_scanGos F t a b gs (j + 1))

theorem blocks_scanPile (F : Forest) (t a : Nat) : ∀ bs : List Nat, Blocks F (scanPile F t a bs).events
  | [] => .nil
  | b :: bs => by
    unfold scanPile
    rw [Scan.events_prepend]
    refine (Blocks.one b .afdo (by decide) (by decide)).append ?_
    have hg := blocks_scanGos F t a b (F.box b).gos 0
    split
    · next ev hs =>
      rw [hs] at hg
      rw [Scan.events_prepend]
      exact hg.append (blocks_scanPile F t a bs)
    · exact hg

theorem blocks_pass (F : Forest) (t a : Nat) : Blocks F (pass F t a).1.events := by
  have hs := blocks_scanPile F t a (pile F a)
  unfold pass
  split
  · next ev h => rw [h] at hs; exact hs.append (blocks_redoL F _)
  · next ev d q h =>
    rw [h] at hs
    exact hs.append (((((blocks_exdoL F _).append (blocks_rexdoL F _)).append (blocks_rendoL F _)).append
      (blocks_endoL F _)).append (blocks_redoL F _))
  · next ev h => rw [h] at hs; exact hs

theorem blocks_loop (F : Forest) (endat : Nat) : ∀ (k t a : Nat), ∀ r ∈ (loop F endat k t a).1, Blocks F r.events
  | 0, _, _ => by simp [loop]
  | k + 1, t, a => by
    intro r hr
    unfold loop at hr
    split at hr
    · simp at hr; subst hr; exact blocks_exdoL F _
    · have hp := blocks_pass F t a
      split at hr
      · next r' h => rw [h] at hp; simp at hr; subst hr; exact hp
      · next r' a' h =>
        rw [h] at hp
        simp only [List.mem_cons] at hr
        rcases hr with hr | hr
        · subst hr; exact hp
        · exact blocks_loop F endat k (t + 1) a' r hr

theorem blocks_run (F : Forest) (first ticks endat : Nat) : ∀ r ∈ (run F first ticks endat).1, Blocks F r.events := by
  intro r hr
  unfold run at hr
  simp only at hr
  split at hr
  · simp at hr; subst hr; exact blocks_predo F 0 _
  · split at hr
    · simp at hr; subst hr; exact blocks_predo F 0 _
    · simp only [List.mem_cons] at hr
      rcases hr with hr | hr | hr
      · subst hr; exact blocks_predo F 0 _
      · subst hr; exact (blocks_endoL F _).append (blocks_redoL F _)
      · exact blocks_loop F endat _ 2 _ r hr

/-- in a trace made of blocks, the acts of one box in one context appear as whole rounds `0, 1, …, n-1` -/
theorem blocks_rounds {F : Forest} {l : List Event} (h : Blocks F l) (b : Nat) (nb : Nabe)
    (h1 : nb ≠ .predo) (h2 : nb ≠ .godo) :
    ∃ k, ((l.filter (fun e => e.box = b ∧ e.nabe = nb)).map (·.idx)) =
      (List.replicate k (List.range (count F b nb))).flatten := by
  induction h with
  | nil => exact ⟨0, rfl⟩
  | block b' nb' rest _ _ _ ih =>
    obtain ⟨k, hk⟩ := ih
    by_cases hc : b' = b ∧ nb' = nb
    · obtain ⟨rfl, rfl⟩ := hc
      refine ⟨k + 1, ?_⟩
      rw [List.filter_append, List.map_append, hk, List.replicate_succ, List.flatten_cons]
      congr 1
      have : (acts b' nb' (count F b' nb')).filter (fun e => e.box = b' ∧ e.nabe = nb') = acts b' nb' (count F b' nb') := by
        rw [List.filter_eq_self]
        intro e he
        have := mem_acts he
        simp [this.1, this.2.1]
      rw [this]
      simp only [acts, List.map_map]
      exact List.map_id'' (fun _ => rfl) _
    · refine ⟨k, ?_⟩
      rw [List.filter_append, List.map_append, hk]
      have : (acts b' nb' (count F b' nb')).filter (fun e => e.box = b ∧ e.nabe = nb) = [] := by
        rw [List.filter_eq_nil_iff]
        intro e he
        have := mem_acts he
        simp only [this.1, this.2.1, decide_eq_true_eq]
        exact hc
      rw [this]; rfl
  | ctl e rest he _ ih =>
    obtain ⟨k, hk⟩ := ih
    refine ⟨k, ?_⟩
    have : ¬ (e.box = b ∧ e.nabe = nb) := by
      rintro ⟨_, hn⟩
      rcases he with he | he <;> simp_all
    rw [List.filter_cons_of_neg (by simpa using this)]
    exact hk




/-! ### one pass, the loop, the run -/

theorem pass_stay {F : Forest} {t a : Nat} {ev : List Event} (h : scanPile F t a (pile F a) = .stay ev) :
    pass F t a = (⟨t, some a, ev ++ redoL F (pile F a)⟩, some a) := by
  unfold pass; rw [h]

theorem pass_go {F : Forest} {t a d : Nat} {ev : List Event} {q : Quad}
    (h : scanPile F t a (pile F a) = .go ev d q) :
    pass F t a = (⟨t, some d, ev ++ transitEvents F d q⟩, some d) := by
  unfold pass; rw [h]

/-- a pass on a well-formed boxwork does not raise and leaves a box of the boxwork active -/
theorem pass_active {F : Forest} (h : wf F = true) {t a : Nat} (ha : a < F.length) :
    ∃ a', (pass F t a).2 = some a' ∧ a' < F.length := by
  have hg := scanPile_good F t a (pile F a)
  cases hs : scanPile F t a (pile F a) with
  | stay ev => rw [pass_stay hs]; exact ⟨a, rfl, ha⟩
  | go ev d q =>
    rw [pass_go hs]
    rw [hs] at hg
    exact ⟨d, rfl, fired_lt h ha hg.2.1⟩
  | exc ev => exact absurd hs (scanPile_no_exc h ha ev)

/-- a record produced by the loop: an ordinary pass or the ending pass, from a box of the boxwork -/
def IsPassRec (F : Forest) (r : Rec) : Prop :=
  ∃ t a, a < F.length ∧ (r = (pass F t a).1 ∨ r = endPass F t a)

theorem loop_sound {F : Forest} (h : wf F = true) (endat : Nat) : ∀ (k t a : Nat), a < F.length →
    (loop F endat k t a).2 ≠ .exc ∧ ∀ r ∈ (loop F endat k t a).1, IsPassRec F r
  | 0, _, _, _ => by simp [loop]
  | k + 1, t, a, ha => by
    unfold loop
    split
    · refine ⟨by simp, ?_⟩
      intro r hr
      simp at hr
      exact ⟨t, a, ha, Or.inr hr⟩
    · obtain ⟨a', h1, h2⟩ := pass_active h (t := t) ha
      split
      · next r' hp => rw [hp] at h1; simp at h1
      · next r' a'' hp =>
        rw [hp] at h1
        simp at h1
        subst h1
        have ih := loop_sound h endat k (t + 1) a'' h2
        refine ⟨ih.1, ?_⟩
        intro r hr
        simp only [List.mem_cons] at hr
        rcases hr with hr | hr
        · exact ⟨t, a, ha, Or.inl (by rw [hr, hp])⟩
        · exact ih.2 r hr




/-! ### which contexts the events of each phase carry -/

theorem mem_exdoL {F : Forest} {bs : List Nat} {e : Event} (h : e ∈ exdoL F bs) : e.nabe = .exdo ∧ e.box ∈ bs := by
  simp only [exdoL, List.mem_flatMap, boxExdo] at h
  obtain ⟨b, hb, he⟩ := h
  have := mem_acts he
  exact ⟨this.2.1, this.1 ▸ hb⟩
theorem mem_rexdoL {F : Forest} {bs : List Nat} {e : Event} (h : e ∈ rexdoL F bs) : e.nabe = .rexdo ∧ e.box ∈ bs := by
  simp only [rexdoL, List.mem_flatMap, boxRexdo] at h
  obtain ⟨b, hb, he⟩ := h
  have := mem_acts he
  exact ⟨this.2.1, this.1 ▸ hb⟩
theorem mem_redoL {F : Forest} {bs : List Nat} {e : Event} (h : e ∈ redoL F bs) : e.nabe = .redo ∧ e.box ∈ bs := by
  simp only [redoL, List.mem_flatMap, boxRedo] at h
  obtain ⟨b, hb, he⟩ := h
  have := mem_acts he
  exact ⟨this.2.1, this.1 ▸ hb⟩
theorem mem_rendoL {F : Forest} {bs : List Nat} {e : Event} (h : e ∈ rendoL F bs) :
    (e.nabe = .remark ∨ e.nabe = .rendo) ∧ e.box ∈ bs := by
  simp only [rendoL, List.mem_flatMap, boxRendo, List.mem_append] at h
  obtain ⟨b, hb, he | he⟩ := h
  · have := mem_acts he; exact ⟨Or.inl this.2.1, this.1 ▸ hb⟩
  · have := mem_acts he; exact ⟨Or.inr this.2.1, this.1 ▸ hb⟩
theorem mem_endoL {F : Forest} {bs : List Nat} {e : Event} (h : e ∈ endoL F bs) :
    (e.nabe = .enmark ∨ e.nabe = .endo) ∧ e.box ∈ bs := by
  simp only [endoL, List.mem_flatMap, boxEndo, List.mem_append] at h
  obtain ⟨b, hb, he | he⟩ := h
  · have := mem_acts he; exact ⟨Or.inl this.2.1, this.1 ▸ hb⟩
  · have := mem_acts he; exact ⟨Or.inr this.2.1, this.1 ▸ hb⟩

theorem filter_all {α} {p : α → Bool} {l : List α} (h : ∀ x ∈ l, p x = true) : l.filter p = l :=
  List.filter_eq_self.mpr h
theorem filter_none {α} {p : α → Bool} {l : List α} (h : ∀ x ∈ l, p x = false) : l.filter p = [] := by
  rw [List.filter_eq_nil_iff]; intro x hx; simp [h x hx]

/-- projection of a transition pass's trace onto a set of contexts: each phase is kept whole or dropped -/
theorem filter_transit {F : Forest} (p : Nabe → Bool) (hscan : p .afdo = false ∧ p .godo = false ∧ p .predo = false)
    (ev : List Event) (hev : ∀ e ∈ ev, ScanNabe e) (xs rx rn en rd : List Nat) :
    (ev ++ (exdoL F xs ++ rexdoL F rx ++ rendoL F rn ++ endoL F en ++ redoL F rd)).filter (fun e => p e.nabe) =
      (if p .exdo then exdoL F xs else []) ++ (if p .rexdo then rexdoL F rx else []) ++
      ((rendoL F rn).filter (fun e => p e.nabe)) ++ ((endoL F en).filter (fun e => p e.nabe)) ++
      (if p .redo then redoL F rd else []) := by
  simp only [List.filter_append]
  have h0 : ev.filter (fun e => p e.nabe) = [] := by
    apply filter_none
    intro e he
    rcases hev e he with h | h | h <;> simp [h, hscan]
  have h1 : (exdoL F xs).filter (fun e => p e.nabe) = if p .exdo then exdoL F xs else [] := by
    split
    · next hp => exact filter_all (fun e he => by rw [(mem_exdoL he).1]; exact hp)
    · next hp => exact filter_none (fun e he => by rw [(mem_exdoL he).1]; simpa using hp)
  have h2 : (rexdoL F rx).filter (fun e => p e.nabe) = if p .rexdo then rexdoL F rx else [] := by
    split
    · next hp => exact filter_all (fun e he => by rw [(mem_rexdoL he).1]; exact hp)
    · next hp => exact filter_none (fun e he => by rw [(mem_rexdoL he).1]; simpa using hp)
  have h3 : (redoL F rd).filter (fun e => p e.nabe) = if p .redo then redoL F rd else [] := by
    split
    · next hp => exact filter_all (fun e he => by rw [(mem_redoL he).1]; exact hp)
    · next hp => exact filter_none (fun e he => by rw [(mem_redoL he).1]; simpa using hp)
  rw [h0, h1, h2, h3]
  simp




/-! ### every boxwork `Boxer.bx` can declare is well-formed -/

theorem mkForestGo_getElem? (all : List Decl) : ∀ (ds : List Decl) (k j : Nat),
    (mkForestGo all ds k)[j]? = (ds[j]?).map (mkBox all (k + j))
  | [], _, _ => by simp [mkForestGo]
  | d :: ds, k, 0 => by simp [mkForestGo]
  | d :: ds, k, j + 1 => by
    simp only [mkForestGo, List.getElem?_cons_succ]
    rw [mkForestGo_getElem? all ds (k + 1) j]
    congr 2; omega

theorem mkForestGo_length (all : List Decl) : ∀ (ds : List Decl) (k : Nat), (mkForestGo all ds k).length = ds.length
  | [], _ => rfl
  | d :: ds, k => by simp [mkForestGo, mkForestGo_length all ds (k + 1)]

theorem mkForest_length (ds : List Decl) : (mkForest ds).length = ds.length := mkForestGo_length ds ds 0

theorem mkForest_box {ds : List Decl} {i : Nat} {d : Decl} (h : ds[i]? = some d) :
    (mkForest ds).box i = mkBox ds i d := by
  simp [Forest.box, mkForest, List.getD, mkForestGo_getElem?, h]

theorem mem_undersOf {i : Nat} : ∀ {ds : List Decl} {base u : Nat},
    u ∈ undersOf i ds base ↔ base ≤ u ∧ ∃ d, ds[u - base]? = some d ∧ d.over1 = i + 1
  | [], base, u => by simp [undersOf]
  | d :: ds, base, u => by
    unfold undersOf
    have ih := @mem_undersOf i ds (base + 1) u
    by_cases hb : u = base
    · subst hb
      have hno : u ∉ undersOf i ds (u + 1) := by rw [ih]; omega
      split <;> simp_all
    · have hsub : base + 1 ≤ u → u - base = (u - (base + 1)) + 1 := by omega
      split
      · next hd =>
        rw [List.mem_cons, ih]
        constructor
        · rintro (h | ⟨h1, d', h2, h3⟩)
          · exact absurd h hb
          · exact ⟨by omega, d', by rw [hsub h1]; simpa using h2, h3⟩
        · rintro ⟨h1, d', h2, h3⟩
          have h1' : base + 1 ≤ u := by omega
          rw [hsub h1'] at h2
          exact Or.inr ⟨h1', d', by simpa using h2, h3⟩
      · rw [ih]
        constructor
        · rintro ⟨h1, d', h2, h3⟩
          exact ⟨by omega, d', by rw [hsub h1]; simpa using h2, h3⟩
        · rintro ⟨h1, d', h2, h3⟩
          have h1' : base + 1 ≤ u := by omega
          rw [hsub h1'] at h2
          exact ⟨h1', d', by simpa using h2, h3⟩

/-- `Boxer.bx` only accepts an over that is already declared (`over1 ≤ i` for box `i`; `0` = top level) and
`resolve` only goact destinations that exist: every such declaration list builds a well-formed boxwork. -/
theorem mkForest_wf (ds : List Decl) (hover : ∀ (i : Nat) (d : Decl), ds[i]? = some d → d.over1 ≤ i)
    (hgo : ∀ d ∈ ds, ∀ g ∈ d.gos, g.1 < ds.length) : wf (mkForest ds) = true := by
  unfold wf
  rw [List.all_eq_true]
  intro i hi
  rw [List.mem_range, mkForest_length] at hi
  obtain ⟨d, hd⟩ : ∃ d, ds[i]? = some d := ⟨ds[i], by simp [hi]⟩
  unfold wfBox
  rw [mkForest_box hd]
  simp only [Bool.and_eq_true, List.all_eq_true, decide_eq_true_eq, beq_iff_eq]
  refine ⟨⟨?_, ?_⟩, ?_⟩
  · simp only [mkBox]
    split
    · rfl
    · next p hp =>
      have ho := hover i d hd
      by_cases h0 : d.over1 = 0
      · simp [h0] at hp
      · simp [h0] at hp
        have hpi : p < i := by omega
        obtain ⟨dp, hdp⟩ : ∃ dp, ds[p]? = some dp := ⟨ds[p]'(by omega), by simp⟩
        simp only [Bool.and_eq_true, decide_eq_true_eq, List.contains_iff_mem]
        refine ⟨hpi, ?_⟩
        rw [mkForest_box hdp]
        simp only [mkBox]
        rw [mem_undersOf]
        exact ⟨by omega, d, by simpa using hd, by omega⟩
  · intro u hu
    simp only [mkBox] at hu
    rw [mem_undersOf] at hu
    obtain ⟨_, du, h2, h3⟩ := hu
    simp only [Nat.sub_zero] at h2
    have := hover u du h2
    have hun : u < ds.length := by
      rcases Nat.lt_or_ge u ds.length with hh | hh
      · exact hh
      · rw [List.getElem?_eq_none hh] at h2; simp at h2
    refine ⟨⟨by omega, by rw [mkForest_length]; exact hun⟩, ?_⟩
    rw [mkForest_box h2]
    simp [mkBox, h3]
  · intro g hg
    rw [mkForest_length]
    simp only [mkBox] at hg
    exact hgo d (List.mem_of_getElem? hd) g hg




/-! ### piles are root paths: two piles that share a box agree above it -/

theorem head?_append_ne_nil {α} : ∀ {l : List α} (r : List α), l ≠ [] → (l ++ r).head? = l.head?
  | [], _, h => absurd rfl h
  | _ :: _, _, _ => rfl

theorem eq_nil_or_snoc {α} (l : List α) : l = [] ∨ ∃ l' b, l = l' ++ [b] := by
  rcases List.eq_nil_or_concat l with h | ⟨l', b, h⟩
  · exact Or.inl h
  · exact Or.inr ⟨l', b, by rw [h, List.concat_eq_append]⟩

theorem linked_prefix {F : Forest} : ∀ {l r : List Nat}, Linked F (l ++ r) → Linked F l
  | [], _, _ => trivial
  | [_], _, _ => trivial
  | a :: b :: l, r, h => by
    simp only [List.cons_append, Linked] at h ⊢
    exact ⟨h.1, linked_prefix (l := b :: l) h.2⟩

/-- a list that starts at a top-level box and steps from over to under -/
def RootLinked (F : Forest) (l : List Nat) : Prop := Linked F l ∧ ∀ r ∈ l.head?, (F.box r).over = none

theorem ups_root {F : Forest} (h : wf F = true) : ∀ (fuel i : Nat), i < F.length → i < fuel →
    ∀ r ∈ (ups F fuel i ++ [i]).head?, (F.box r).over = none
  | 0, _, _, hf => by omega
  | fuel + 1, i, hi, hf => by
    unfold ups
    split
    · next ho => intro r hr; simp at hr; subst hr; exact ho
    · next p ho =>
      have hw := wf_over h hi ho
      intro r hr
      have : ((ups F fuel p ++ [p]) ++ [i]).head? = (ups F fuel p ++ [p]).head? := by
        rw [head?_append_ne_nil]; simp
      rw [this] at hr
      exact ups_root h fuel p (by omega) (by omega) r hr

theorem pile_rootLinked {F : Forest} (h : wf F = true) {i : Nat} (hi : i < F.length) : RootLinked F (pile F i) := by
  refine ⟨pile_linked h hi, ?_⟩
  intro r hr
  have : (pile F i).head? = (ups F F.length i ++ [i]).head? := by
    unfold pile
    cases ups F F.length i <;> simp
  rw [this] at hr
  exact ups_root h _ i hi hi r hr

/-- the path from a top-level box down to `x` is unique -/
theorem rootpath_unique {F : Forest} {x : Nat} : ∀ (l1 l2 : List Nat),
    RootLinked F (l1 ++ [x]) → RootLinked F (l2 ++ [x]) → l1 = l2 := by
  intro l1
  induction l1 using List.reverseRecOn generalizing x with
  | nil =>
    intro l2 h1 h2
    rcases eq_nil_or_snoc l2 with rfl | ⟨l2', y, rfl⟩
    · rfl
    · exfalso
      have := linked_split (l := l2' ++ [y]) (r := []) (x := x) h2.1 y (by simp)
      have hr := h1.2 x (by simp)
      rw [hr] at this; simp at this
  | append_singleton l1' y ih =>
    intro l2 h1 h2
    have hy := linked_split (l := l1' ++ [y]) (r := []) (x := x) h1.1 y (by simp)
    rcases eq_nil_or_snoc l2 with rfl | ⟨l2', y', rfl⟩
    · exfalso
      have hr := h2.2 x (by simp)
      rw [hr] at hy; simp at hy
    · have hy' := linked_split (l := l2' ++ [y']) (r := []) (x := x) h2.1 y' (by simp)
      rw [hy] at hy'
      have hyy : y = y' := by simpa using hy'
      subst hyy
      have e1 : RootLinked F (l1' ++ [y]) := by
        refine ⟨linked_prefix (r := [x]) h1.1, ?_⟩
        intro r hr
        exact h1.2 r (by rw [head?_append_ne_nil _ (by simp)]; exact hr)
      have e2 : RootLinked F (l2' ++ [y]) := by
        refine ⟨linked_prefix (r := [x]) h2.1, ?_⟩
        intro r hr
        exact h2.2 r (by rw [head?_append_ne_nil _ (by simp)]; exact hr)
      rw [ih l2' e1 e2]

theorem rootLinked_common_prefix {F : Forest} {x : Nat} {p1 s1 p2 s2 : List Nat}
    (h1 : RootLinked F (p1 ++ x :: s1)) (h2 : RootLinked F (p2 ++ x :: s2)) : p1 = p2 := by
  apply rootpath_unique (x := x)
  · refine ⟨linked_prefix (r := s1) (by simpa using h1.1), ?_⟩
    intro r hr
    refine h1.2 r ?_
    cases p1 <;> simpa using hr
  · refine ⟨linked_prefix (r := s2) (by simpa using h2.1), ?_⟩
    intro r hr
    refine h2.2 r ?_
    cases p2 <;> simpa using hr

/-- two root paths that fork (`l0 ≠ r0` after the common part `kept`) share nothing below the fork -/
theorem fork_disjoint {F : Forest} {kept t1 t2 : List Nat} {l0 r0 : Nat}
    (h1 : RootLinked F (kept ++ l0 :: t1)) (h2 : RootLinked F (kept ++ r0 :: t2))
    (hn : (kept ++ l0 :: t1).Nodup) (hne : l0 ≠ r0) : ∀ x ∈ l0 :: t1, x ∉ kept ++ r0 :: t2 := by
  intro x hx hx2
  obtain ⟨pa, sa, ha⟩ := List.append_of_mem (List.mem_append_right kept hx)
  obtain ⟨pd, sd, hd⟩ := List.append_of_mem hx2
  have hpp : pa = pd := rootLinked_common_prefix (ha ▸ h1) (hd ▸ h2)
  subst hpp
  rcases List.append_eq_append_iff.mp ha with ⟨c, hc1, hc2⟩ | ⟨c, hc1, hc2⟩
  · -- pa = kept ++ c
    subst hc1
    rw [List.append_assoc] at hd
    have hd' := List.append_cancel_left hd
    cases c with
    | nil => simp at hc2 hd'; exact hne (hc2.1.trans hd'.1.symm)
    | cons c0 c' => simp at hc2 hd'; exact hne (hc2.1.trans hd'.1.symm)
  · -- kept = pa ++ c, x :: sa = c ++ l0 :: t1
    cases c with
    | nil =>
      simp at hc1 hc2
      subst hc1
      have hd' := List.append_cancel_left hd
      simp at hd'
      exact hne (hc2.1.symm.trans hd'.1.symm)
    | cons c0 c' =>
      simp at hc2
      have hxk : x ∈ kept := by rw [hc1]; simp [hc2.1]
      rw [List.nodup_append] at hn
      exact hn.2.2 x hxk x hx rfl




/-! ### runX: faults and side effects -/

theorem raiseIdx_nil (t : Nat) : ∀ evs : List Event, raiseIdx [] t evs = none
  | [] => rfl
  | e :: es => by simp [raiseIdx, raiseIdx_nil t es]

theorem cut_nil (r : RecX) : r.cut [] = (r, none) := by
  simp [RecX.cut, raiseIdx_nil]

theorem setsEnd_nil (evs : List Event) : setsEnd [] evs = false := by
  simp [setsEnd]

theorem cut_fields (raises : List (Event × Nat)) (r : RecX) :
    (r.cut raises).1.tick = r.tick ∧ (r.cut raises).1.pre = r.pre ∧ (r.cut raises).1.post = r.post ∧
    (r.cut raises).1.switch = r.switch ∧ (r.cut raises).1.events <+: r.events := by
  unfold RecX.cut
  split
  · exact ⟨rfl, rfl, rfl, rfl, List.prefix_refl _⟩
  · exact ⟨rfl, rfl, rfl, rfl, List.take_prefix _ _⟩

/-- the event a cut record ends with is one that raises at that tick, and no earlier event of the record does -/
theorem raiseIdx_some {raises : List (Event × Nat)} {t : Nat} : ∀ {evs : List Event} {i : Nat},
    raiseIdx raises t evs = some i →
    ∃ e, evs[i]? = some e ∧ (e, t) ∈ raises ∧ ∀ e' ∈ evs.take i, (e', t) ∉ raises
  | [], _, h => by simp [raiseIdx] at h
  | e :: es, i, h => by
    unfold raiseIdx at h
    split at h
    · next hc =>
      cases h
      exact ⟨e, rfl, by simpa using hc, by simp⟩
    · next hc =>
      cases h2 : raiseIdx raises t es with
      | none => simp [h2] at h
      | some j =>
        simp [h2] at h
        subst h
        obtain ⟨e', h3, h4, h5⟩ := raiseIdx_some h2
        refine ⟨e', by simpa using h3, h4, ?_⟩
        intro x hx
        simp only [List.take_succ_cons, List.mem_cons] at hx
        rcases hx with hx | hx
        · subst hx; simpa using hc
        · exact h5 x hx

def finalOf : FinalX → Final
  | .live => .live | .ret b => .ret b | .typeError => .exc | .indexError => .exc | .raised _ _ => .exc

def recOf (r : RecX) : Nat × Option Nat × List Event := (r.tick, r.post, r.events)
def recOf' (r : Rec) : Nat × Option Nat × List Event := (r.tick, r.active, r.events)

theorem loopX_no_faults (F : Forest) (endat : Nat) : ∀ (k t a : Nat),
    (loopX F endat [] [] k t a false).1.map recOf = (loop F endat k t a).1.map recOf' ∧
    finalOf (loopX F endat [] [] k t a false).2 = (loop F endat k t a).2
  | 0, _, _ => by simp [loopX, loop, finalOf]
  | k + 1, t, a => by
    unfold loopX loop
    simp only [Bool.or_false, cut_nil, setsEnd_nil]
    split
    · simp [recOf, recOf', endPass, finalOf]
    · cases hp : pass F t a with
      | mk r o =>
        cases o with
        | none =>
          simp only [recOf, recOf', finalOf, List.map_cons, List.map_nil, and_true]
          have : r.tick = t := by
            have := congrArg (fun x => x.1.tick) hp
            simp only at this
            rw [← this]; unfold pass; split <;> rfl
          simp [this]
        | some a' =>
          have ih := loopX_no_faults F endat k (t + 1) a'
          simp only [List.map_cons, ih.1, ih.2, and_true]
          have : r.tick = t := by
            have := congrArg (fun x => x.1.tick) hp
            simp only at this
            rw [← this]; unfold pass; split <;> rfl
          simp [recOf, recOf', this]




theorem runX_no_faults_lemma (F : Forest) (hF : F ≠ []) (first ticks endat : Nat) :
    (runX F first ticks endat [] []).1.map recOf = (run F first ticks endat).1.map recOf' ∧
    finalOf (runX F first ticks endat [] []).2 = (run F first ticks endat).2 := by
  have hne : F.isEmpty = false := by cases F <;> simp_all
  unfold runX run
  simp only [hne, cut_nil, setsEnd_nil, Bool.or_false]
  cases hp : (predo F 0 (pile F (first - 1))).2 with
  | false => simp [recOf, recOf', finalOf]
  | true =>
    cases ticks with
    | zero => simp [recOf, recOf', finalOf]
    | succ k =>
      have ih := loopX_no_faults F endat k 2 (first - 1)
      simp [recOf, recOf', ih.1, ih.2]

/-- every record the faulty run produces is a prefix of what the fault-free pass (or ending pass) from some
active box logs at that tick -/
theorem loopX_records (F : Forest) (endat : Nat) (enders : List Event) (raises : List (Event × Nat)) :
    ∀ (k t a : Nat) (flag : Bool), ∀ r ∈ (loopX F endat enders raises k t a flag).1,
      ∃ a', r.events <+: (pass F r.tick a').1.events ∨ r.events <+: (endPass F r.tick a').events
  | 0, _, _, _ => by simp [loopX]
  | k + 1, t, a, flag => by
    intro r hr
    unfold loopX at hr
    dsimp only at hr
    split at hr
    · have hc := cut_fields raises ⟨t, some a, none, (endPass F t a).events.length, (endPass F t a).events⟩
      rcases hcut : RecX.cut raises ⟨t, some a, none, (endPass F t a).events.length, (endPass F t a).events⟩ with ⟨r', o⟩
      rw [hcut] at hr hc
      have hr' : r = r' := by cases o <;> simpa using hr
      subst hr'
      exact ⟨a, Or.inr (by rw [hc.1]; exact hc.2.2.2.2)⟩
    · have hc := cut_fields raises ⟨t, some a, (pass F t a).1.active, switchAt F t a, (pass F t a).1.events⟩
      rcases hcut : RecX.cut raises ⟨t, some a, (pass F t a).1.active, switchAt F t a, (pass F t a).1.events⟩ with ⟨r', o⟩
      rw [hcut] at hr hc
      have key : ∃ a', r'.events <+: (pass F r'.tick a').1.events ∨ r'.events <+: (endPass F r'.tick a').events :=
        ⟨a, Or.inl (by rw [hc.1]; exact hc.2.2.2.2)⟩
      cases o with
      | some e => simp at hr; subst hr; exact key
      | none =>
        dsimp only at hr
        split at hr
        · simp at hr; subst hr; exact key
        · next a2 _ =>
          simp only [List.mem_cons] at hr
          rcases hr with hr | hr
          · subst hr; exact key
          · exact loopX_records F endat enders raises k (t + 1) a2 _ r hr

theorem switchAt_go {F : Forest} {t a d : Nat} {ev : List Event} {q : Quad}
    (h : scanPile F t a (pile F a) = .go ev d q) :
    switchAt F t a = (ev ++ (exdoL F q.exdos ++ rexdoL F q.rexdos)).length := by
  unfold switchAt; rw [h]


end Hio.Box
