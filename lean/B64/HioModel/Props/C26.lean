import HioModel.B64.Lemmas
/-!
# C26 — Base64 integer and code conversions are exact inverses

Property theorems only.  Model: `HioModel/B64/Model.lean` (faithful to
`hio.help.helping` at the current tree); alphabet tables regenerated from the
source on every run (`HioModel/Gen/B64Table.lean`).

Full statement of clause 1: for every `n l : Nat`, `b64ToInt (intToB64 n l) = n`.
It is FALSE at exactly `(n, l) = (0, 0)` (`int_roundtrip_fails_at_0_0`: the result is
the empty string, which `b64ToInt` rejects with `ValueError`; the tree's own test
pins `intToB64(0, l=0) == ""`).  Everywhere else it is proved (`int_roundtrip_partial`).
-/
namespace Hio.B64

/-- an alphabet character: one the decode table knows -/
def IsB64 (c : Nat) : Prop := ∃ d, idxOf c = .ok d

/-- C26.1 (partial: all `(n, l) ≠ (0, 0)`): encode then decode is the identity, the result has the
minimum length `l` or the number of base-64 digits of `n`, whichever is larger. -/
theorem int_roundtrip_partial (n l : Nat) (h : ¬(l = 0 ∧ n = 0)) :
    ∃ s, intToB64 n l = .ok s ∧ b64ToInt s = .ok n ∧ s.length = max l (digits64 n).length := by
  obtain ⟨s, h1, h2, h3⟩ := intToB64_spec n l h
  refine ⟨s, h1, ?_, h2⟩
  have hne : s ≠ [] := by
    intro e; rw [e] at h2; have := digits_length_pos n; simp at h2; omega
  have hlt : ∀ d ∈ List.replicate (l - (digits64 n).length) 0 ++ digits64 n, d < 64 := by
    intro d hd
    rcases List.mem_append.mp hd with hd | hd
    · rw [(List.mem_replicate.mp hd).2]; omega
    · exact digits_lt n d hd
  rw [b64ToInt_of_digits s _ hne h3 hlt, val64_replicate_zero, val64_digits]

/-- the excluded point really fails (replayed on the implementation: known finding F42b) -/
theorem int_roundtrip_fails_at_0_0 : intToB64 0 0 = .ok [] ∧ b64ToInt [] = .error .valueError := by
  constructor <;> rfl

/-- `(digits64 n).length` is the number of base-64 digits: the least `k ≥ 1` with `n < 64^k` -/
theorem digits_count (n : Nat) :
    0 < (digits64 n).length ∧ n < 64 ^ (digits64 n).length ∧
      (64 ≤ n → 64 ^ ((digits64 n).length - 1) ≤ n) :=
  ⟨digits_length_pos n, digits_bound n, digits_tight n⟩

/-- every character produced is an alphabet character -/
theorem int_chars_valid (n l : Nat) (s : List Nat) (h : intToB64 n l = .ok s) : ∀ c ∈ s, IsB64 c := by
  by_cases h0 : l = 0 ∧ n = 0
  · obtain ⟨rfl, rfl⟩ := h0
    have : intToB64 0 0 = .ok [] := rfl
    rw [this] at h; cases h; simp
  · obtain ⟨s', h1, _, h3⟩ := intToB64_spec n l h0
    rw [h1] at h; cases h
    exact forall₂_left_valid h3

/-- C26.2: a non-empty Base64 code string converted to binary and back with its length is unchanged -/
theorem code_roundtrip (s : List Nat) (hne : s ≠ []) (hv : ∀ c ∈ s, IsB64 c) :
    ∃ b, codeB64ToB2 s = .ok b ∧ b.length = octets s.length ∧ codeB2ToB64 b s.length = .ok s := by
  obtain ⟨ds, hf⟩ := forall₂_of_valid s hv
  have hd := forall₂_digits_lt hf
  have hlen : s.length = ds.length := List.Forall₂.length_eq hf
  have hdec := b64ToInt_of_digits s ds hne hf hd
  have hvlt : val64 ds < 64 ^ s.length := hlen ▸ val64_lt ds hd
  -- the shifted value fits in `octets` bytes exactly
  have hfit : val64 ds <<< (2 * (s.length % 4)) < 256 ^ octets s.length := by
    rw [Nat.shiftLeft_eq]
    have e1 : (256 : Nat) ^ octets s.length = 2 ^ (8 * octets s.length) := by
      rw [Nat.pow_mul]
    have e2 : (64 : Nat) ^ s.length = 2 ^ (6 * s.length) := by rw [Nat.pow_mul]
    rw [e1, ← octets_bits, Nat.pow_add, ← e2]
    exact Nat.mul_lt_mul_of_lt_of_le hvlt (Nat.le_refl _) (Nat.pow_pos (by omega))
  refine ⟨beBytes (val64 ds <<< (2 * (s.length % 4))) (octets s.length), ?_, beBytes_length _ _, ?_⟩
  · unfold codeB64ToB2; rw [hdec]; simp only [toBytes, hfit, ↓reduceIte]
  · unfold codeB2ToB64
    simp only [beBytes_length, Nat.lt_irrefl, ↓reduceIte, gt_iff_lt]
    have htake : List.take (octets s.length) (beBytes (val64 ds <<< (2 * (s.length % 4))) (octets s.length))
        = beBytes (val64 ds <<< (2 * (s.length % 4))) (octets s.length) :=
      List.take_of_length_le (by rw [beBytes_length])
    rw [htake, fromBytes_beBytes _ _ hfit]
    rw [Nat.shiftLeft_shiftRight]
    -- re-encoding `val64 ds` with minimum length `|s|` gives a valid string of the same length and value
    have hs0 : ¬(s.length = 0 ∧ val64 ds = 0) := by
      intro ⟨h0, _⟩; exact hne (List.length_eq_zero_iff.mp h0)
    obtain ⟨s', h1, h2, h3⟩ := intToB64_spec (val64 ds) s.length hs0
    rw [h1]; congr 1
    have hk : (digits64 (val64 ds)).length ≤ s.length := by
      -- 64^(k-1) ≤ v < 64^|s|  ⇒  k ≤ |s|
      by_cases h64 : 64 ≤ val64 ds
      · have := digits_tight _ h64
        have hlt' : 64 ^ ((digits64 (val64 ds)).length - 1) < 64 ^ s.length := Nat.lt_of_le_of_lt this hvlt
        have := (Nat.pow_lt_pow_iff_right (by omega : 1 < 64)).mp hlt'
        omega
      · have : (digits64 (val64 ds)).length = 1 := by
          rw [digits64]; simp [Nat.lt_of_not_le h64]
        have : 0 < s.length := List.length_pos_iff.mpr hne
        omega
    set pad := List.replicate (s.length - (digits64 (val64 ds)).length) 0 ++ digits64 (val64 ds) with hpad
    have hpl : pad.length = ds.length := by simp [hpad]; omega
    have hplt : ∀ d ∈ pad, d < 64 := by
      intro d hd'
      rcases List.mem_append.mp hd' with hd' | hd'
      · rw [(List.mem_replicate.mp hd').2]; omega
      · exact digits_lt _ d hd'
    have hpv : val64 pad = val64 ds := by rw [hpad, val64_replicate_zero, val64_digits]
    have : pad = ds := val64_inj pad ds hpl hplt hd hpv
    rw [this] at h3
    exact forall₂_idx_inj h3 hf

/-- the error branch of C26.2: the empty code string is rejected, never converted -/
theorem code_empty_rejected : codeB64ToB2 [] = .error .valueError := rfl

/-- a foreign character is rejected by the decoder -/
theorem decode_foreign_rejected (s : List Nat) (c : Nat) (hc : ¬ IsB64 c) (hm : c ∈ s) :
    ∃ e, b64ToInt s = .error e := by
  unfold b64ToInt
  have : s.isEmpty = false := by cases s <;> simp_all
  simp only [this, Bool.false_eq_true, ↓reduceIte]
  have key : ∀ (l : List Nat) (e acc : Nat), c ∈ l → ∃ x, orShift l e acc = .error x := by
    intro l
    induction l with
    | nil => intro _ _ h; cases h
    | cons y ys ih =>
      intro e acc hmem
      simp only [orShift]
      cases hy : idxOf y with
      | error x => exact ⟨x, rfl⟩
      | ok d =>
        rcases List.mem_cons.mp hmem with rfl | hmem
        · exact absurd ⟨d, hy⟩ hc
        · exact ih _ _ hmem
  exact key _ _ _ (List.mem_reverse.mpr hm)

/-- C26.2 from the binary side, for an ARBITRARY target (not only one produced by `codeB64ToB2`): the `l > 0` leading
sextets of `b` written as characters are exactly `l` characters, and converting them back to binary gives exactly the
leading sextets of `b` (`nabSextets b l`): the two "front of a primitive" helpers are inverse on the bits they keep. -/
theorem code_of_target (b : List Nat) (l : Nat) (hl : 0 < l) (hb : ∀ x ∈ b, x < 256) (hn : octets l ≤ b.length) :
    ∃ s, codeB2ToB64 b l = .ok s ∧ s.length = l ∧ codeB64ToB2 s = nabSextets b l := by
  set X := fromBytes (b.take (octets l)) with hX
  have hXlt : X < 256 ^ octets l := by
    have := fromBytes_lt (b.take (octets l)) (fun x hx => hb x (List.mem_of_mem_take hx))
    rwa [List.length_take, Nat.min_eq_left hn] at this
  have hpow : 256 ^ octets l = 64 ^ l * 2 ^ (2 * (l % 4)) := by
    have h256 : (256 : Nat) = 2 ^ 8 := by norm_num
    have h64 : (64 : Nat) = 2 ^ 6 := by norm_num
    rw [h256, h64, ← Nat.pow_mul, ← Nat.pow_mul, ← Nat.pow_add, ← octets_bits l]
  have hv : X >>> (2 * (l % 4)) < 64 ^ l := by
    rw [Nat.shiftRight_eq_div_pow]
    exact (Nat.div_lt_iff_lt_mul (Nat.pow_pos (by norm_num))).mpr (hpow ▸ hXlt)
  have hdl : (digits64 (X >>> (2 * (l % 4)))).length ≤ l := by
    by_cases h64 : 64 ≤ X >>> (2 * (l % 4))
    · have h1 := digits_tight _ h64
      have h2 : 64 ^ ((digits64 (X >>> (2 * (l % 4)))).length - 1) < 64 ^ l := Nat.lt_of_le_of_lt h1 hv
      have := (Nat.pow_lt_pow_iff_right (by norm_num : 1 < 64)).mp h2
      omega
    · have : digits64 (X >>> (2 * (l % 4))) = [X >>> (2 * (l % 4))] := by
        rw [digits64]; simp [Nat.lt_of_not_le h64]
      rw [this]; simp; omega
  obtain ⟨s, h1, h2, h3⟩ := int_roundtrip_partial (X >>> (2 * (l % 4))) l (by omega)
  have hlen : s.length = l := by rw [h3]; omega
  refine ⟨s, ?_, hlen, ?_⟩
  · unfold codeB2ToB64
    have : ¬ octets l > b.length := by omega
    simp only [this, ↓reduceIte, ← hX, h1]
  · unfold codeB64ToB2 nabSextets
    have : ¬ octets l > b.length := by omega
    simp only [h2, hlen, this, ↓reduceIte, ← hX]

/-- C26.3: `nabSextets b l` returns exactly `octets l` bytes whose big-endian value is the value of the first
`octets l` bytes of `b` with the trailing `8·octets l − 6·l` bits cleared and every other bit unchanged. -/
theorem nab_keeps_leading_bits (b : List Nat) (l : Nat) (hb : ∀ x ∈ b, x < 256) (hn : octets l ≤ b.length) :
    ∃ r, nabSextets b l = .ok r ∧ r.length = octets l ∧ (∀ x ∈ r, x < 256) ∧
      8 * octets l - 6 * l = 2 * (l % 4) ∧
      ∀ k, (fromBytes r).testBit k =
        (decide (8 * octets l - 6 * l ≤ k) && (fromBytes (b.take (octets l))).testBit k) := by
  have hp : 8 * octets l - 6 * l = 2 * (l % 4) := by have := octets_bits l; omega
  set X := fromBytes (b.take (octets l)) with hX
  have hXlt : X < 256 ^ octets l := by
    have := fromBytes_lt (b.take (octets l)) (fun x hx => hb x (List.mem_of_mem_take hx))
    rwa [List.length_take, Nat.min_eq_left hn] at this
  have hle : (X >>> (2 * (l % 4))) <<< (2 * (l % 4)) ≤ X := by
    rw [Nat.shiftLeft_eq, Nat.shiftRight_eq_div_pow]
    exact Nat.div_mul_le_self _ _
  have hfit : (X >>> (2 * (l % 4))) <<< (2 * (l % 4)) < 256 ^ octets l := Nat.lt_of_le_of_lt hle hXlt
  refine ⟨beBytes ((X >>> (2 * (l % 4))) <<< (2 * (l % 4))) (octets l), ?_, beBytes_length _ _, beBytes_lt _ _, hp, ?_⟩
  · unfold nabSextets
    have : ¬ octets l > b.length := by omega
    simp only [this, ↓reduceIte, toBytes, ← hX, hfit]
  · intro k
    rw [fromBytes_beBytes _ _ hfit, hp, Nat.testBit_shiftLeft, Nat.testBit_shiftRight]
    by_cases hk : 2 * (l % 4) ≤ k
    · simp [hk, Nat.add_sub_cancel' hk]
    · simp [hk]

/-- the error branch of C26.3: too few bytes are rejected -/
theorem nab_short_rejected (b : List Nat) (l : Nat) (h : b.length < octets l) :
    nabSextets b l = .error .valueError := by
  unfold nabSextets; simp [h]

/-! ### non-vacuity: the hypotheses above are met by concrete non-trivial inputs -/

example : ∃ s, intToB64 4095 5 = .ok s ∧ b64ToInt s = .ok 4095 ∧ s.length = max 5 (digits64 4095).length :=
  int_roundtrip_partial 4095 5 (by decide)
example : ([66, 67] : List Nat) ≠ [] ∧ ∀ c ∈ ([66, 67] : List Nat), IsB64 c := by
  refine ⟨by decide, ?_⟩
  intro c hc
  simp only [List.mem_cons, List.mem_nil_iff, or_false] at hc
  rcases hc with rfl | rfl
  · exact ⟨1, by decide⟩
  · exact ⟨2, by decide⟩
example : (∀ x ∈ ([255, 255, 255] : List Nat), x < 256) ∧ octets 3 ≤ ([255, 255, 255] : List Nat).length := by decide
example : 0 < 3 ∧ (∀ x ∈ ([226, 130, 172] : List Nat), x < 256) ∧ octets 3 ≤ ([226, 130, 172] : List Nat).length := by decide
example : ¬ IsB64 61 := by
  intro ⟨d, h⟩
  have : idxOf 61 = .error .keyError := by decide
  rw [this] at h; cases h

end Hio.B64
