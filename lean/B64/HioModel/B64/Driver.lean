import HioModel.Basic.Sexp
import HioModel.B64.Model
open Hio Hio.B64 Hio.Sexp

def exnName : Exn → String
  | .valueError => "ValueError" | .keyError => "KeyError" | .overflowError => "OverflowError"

def outList (r : Except Exn (List Nat)) : Sexp :=
  match r with
  | .ok xs => tag "ok" (xs.map ofNat)
  | .error e => tag "raise" [sym (exnName e)]

def outNat (r : Except Exn Nat) : Sexp :=
  match r with
  | .ok n => tag "ok" [ofNat n]
  | .error e => tag "raise" [sym (exnName e)]

def nats (xs : List Sexp) : Option (List Nat) := xs.mapM nat?

/-- composite scenarios used by the correspondence run (same shape as the adapter's observation) -/
def scenario : Sexp → Option Sexp
  | .list [.atom "int", n, l] => do
    let n ← nat? n; let l ← nat? l
    match intToB64 n l with
    | .ok s => some (.list [outList (.ok s), outNat (b64ToInt s)])
    | .error e => some (.list [outList (.error e)])
  | .list [.atom "code", .list s] => do
    let s ← nats s
    match codeB64ToB2 s with
    | .ok b => some (.list [outList (.ok b), outList (codeB2ToB64 b s.length)])
    | .error e => some (.list [outList (.error e)])
  | .list [.atom "codeseq", .list ss] => do
    -- a history of conversions in one process: the functions are pure, every call is answered on its own
    let rs ← ss.mapM (fun x => match x with
      | .list s => do
        let s ← nats s
        match codeB64ToB2 s with
        | .ok b => some (.list [outList (.ok b), outList (codeB2ToB64 b s.length)])
        | .error e => some (.list [outList (.error e)])
      | _ => none)
    some (.list rs)
  | .list [.atom "nab", .list b, l] => do
    let b ← nats b; let l ← nat? l
    some (.list [outList (nabSextets b l)])
  | .list [.atom "dec", .list s] => do
    let s ← nats s
    some (.list [outNat (b64ToInt s)])
  | .list [.atom "b2", .list b, l] => do
    -- the two "front of a primitive" helpers on the same arbitrary target: sextets as chars, sextets as bytes
    let b ← nats b; let l ← nat? l
    some (.list [outList (codeB2ToB64 b l), outList (nabSextets b l)])
  | _ => none

/-- a history of arbitrary calls: each answered on its own (the functions are pure) -/
def scenarioSeq : Sexp → Option Sexp
  | .list [.atom "seq", .list cs] => do
    let rs ← cs.mapM scenario
    some (.list rs)
  | r => scenario r

def handle : Sexp → Sexp
  | .list [.atom "intToB64", n, l] => match nat? n, nat? l with
    | some n, some l => outList (intToB64 n l)
    | _, _ => sym "bad-request"
  | .list [.atom "b64ToInt", .list s] => match nats s with
    | some s => outNat (b64ToInt s)
    | none => sym "bad-request"
  | .list [.atom "codeB64ToB2", .list s] => match nats s with
    | some s => outList (codeB64ToB2 s)
    | none => sym "bad-request"
  | .list [.atom "codeB2ToB64", .list b, l] => match nats b, nat? l with
    | some b, some l => outList (codeB2ToB64 b l)
    | _, _ => sym "bad-request"
  | .list [.atom "nabSextets", .list b, l] => match nats b, nat? l with
    | some b, some l => outList (nabSextets b l)
    | _, _ => sym "bad-request"
  | r => match scenarioSeq r with
    | some o => o
    | none => sym "bad-request"

def main : IO Unit := serve handle
