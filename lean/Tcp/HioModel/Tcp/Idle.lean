/-!
# Idle timeout of HTTP server connections (C12)

Virtual tyme in units of 1/8 s (`Nat`; the correspondence uses tymes that are exact in binary floating point).
One connection: the remoter's tymer (`start`, `stop`), the remoter's `tymeout` (0 = never; set to 0 by the HTTP
layer once a persistent request has been parsed), what has arrived on the socket since the last service, how many bytes
are queued for sending (`txlen`) and how many the socket takes per `send` (`cap`, 0 = would block).
`svc` is one `http.Server.service()` as far as this connection is concerned, in the code's order:
`serviceConnects` (idle check: `ix.tymeout > 0.0 and ix.tymer.expired` → close) → `serviceReceivesAllIx`
(every received chunk calls `refresh()` = tymer started at the current tyme with the same duration) → `serviceReqs`
(a complete persistent request sets `remoter.tymeout = 0.0`) → `serviceReps` (a complete request queues the response;
a non-persistent connection whose response has left is closed by the HTTP layer) → `serviceSendsAllIx`
(a send that takes at least one byte calls `refresh()`).
`wind t` is `server.wind(tymth)` onto a tymist whose tyme is `t`: every remoter's tymer restarts there.
-/
namespace Hio.Idle

inductive Arr where
  | data   -- bytes of a request that is not complete yet
  | req    -- a complete persistent (HTTP/1.1) request
  | req10  -- a complete non-persistent (HTTP/1.0) request
  | reqx   -- a complete request whose `Connection` options make it non-persistent, whichever version its head was started in
  /-- a complete request with a `Connection` header: persistent (by RFC token-list semantics) if sent as a whole / if it
  completes a head that was already started as HTTP/1.1 -/
  | reqh (fresh cont : Bool)
deriving DecidableEq, Repr

structure IC where
  now : Nat
  start : Nat
  stop : Nat
  tymeout : Nat
  isOpen : Bool := true
  inbox : List Arr := []
  /-- bytes queued in `remoter.txbs` -/
  txlen : Nat := 0
  /-- bytes the socket takes per `send` call (0 = EAGAIN) -/
  cap : Nat := 1073741824
  /-- length of the response the application produces for one request -/
  resp : Nat := 0
  /-- a non-persistent response has been produced: the HTTP layer closes the connection once it has left -/
  closing : Bool := false
  /-- a request head is under way (so the next complete request is the HTTP/1.1 one that was started) -/
  inhead : Bool := false
  /-- ghost: closed by the idle check (as opposed to the HTTP layer finishing a non-persistent exchange) -/
  idleClosed : Bool := false
deriving Repr

/-- a connection accepted at tyme `t` by a server configured with `tymeout` -/
def accept (t tymeout resp : Nat) : IC := { now := t, start := t, stop := t + tymeout, tymeout := tymeout, resp := resp }

def expired (c : IC) : Bool := c.tymeout > 0 && c.now ≥ c.stop

/-- `refresh()`: `tymer.start()` — from now, same duration -/
def refresh (c : IC) : IC := { c with start := c.now, stop := c.now + (c.stop - c.start) }

def hasReq (l : List Arr) : Bool := l.contains .req || l.contains .req10

/-- receive + parse + produce the response -/
def intake (c : IC) : IC :=
  if c.inbox = [] then c
  else
    let c1 := refresh c
    { c1 with tymeout := if c.inbox.contains .req then 0 else c1.tymeout,
              txlen := c1.txlen + (if hasReq c.inbox then c.resp else 0),
              closing := c1.closing || c.inbox.contains .req10, inbox := [] }

/-- `serviceSendsAllIx` for this connection -/
def output (c : IC) : IC :=
  if 0 < min c.cap c.txlen then refresh { c with txlen := c.txlen - min c.cap c.txlen } else c

def svc (c : IC) : IC :=
  if !c.isOpen then c
  else if expired c then { c with isOpen := false, idleClosed := true }
  else
    let c1 := intake c
    if c1.closing && c1.txlen == 0 then { c1 with isOpen := false }
    else output c1

inductive Ev where
  | tick (d : Nat) | arrive (a : Arr) | svc | wind (t : Nat) | cap (k : Nat)
deriving Repr

def arrive (c : IC) (a : Arr) : IC :=
  match a with
  | .data => { c with inbox := c.inbox ++ [.data], inhead := true }
  | .req => { c with inbox := c.inbox ++ [.req], inhead := false }
  | .req10 => { c with inbox := c.inbox ++ [if c.inhead then .req else .req10], inhead := false }
  | .reqx => { c with inbox := c.inbox ++ [.req10], inhead := false }
  | .reqh fresh cont => { c with inbox := c.inbox ++ [if (if c.inhead then cont else fresh) then .req else .req10], inhead := false }

def step (c : IC) : Ev → IC
  | .tick d => { c with now := c.now + d }
  | .arrive a => if c.isOpen then arrive c a else c
  | .svc => svc c
  | .wind t => if c.isOpen then { c with now := t, start := t, stop := t + (c.stop - c.start) } else { c with now := t }
  | .cap k => if c.isOpen then { c with cap := k } else c

def run (c : IC) : List Ev → IC
  | [] => c
  | e :: es => run (step c e) es

def ticks : List Ev → Nat
  | [] => 0
  | .tick d :: es => d + ticks es
  | _ :: es => ticks es

/-- only ticks and services: nothing arrives, nothing is re-wound, the socket's willingness to take bytes does not change -/
def quiet : List Ev → Bool
  | [] => true
  | .tick _ :: es => quiet es
  | .svc :: es => quiet es
  | _ :: _ => false

/-- no service and no re-wind inside (ticks, arrivals, changes of the socket's send capacity) -/
def calm : List Ev → Bool
  | [] => true
  | .svc :: _ => false
  | .wind _ :: _ => false
  | _ :: es => calm es

def hasArrival : List Ev → Bool
  | [] => false
  | .arrive _ :: _ => true
  | _ :: es => hasArrival es

/-! ### the whole server, for the correspondence: several connections, accepted at the first service after they connect -/

structure Srv where
  tymeout : Nat
  resp : Nat
  now : Nat := 0
  waiting : List Nat := []              -- addresses connected but not yet accepted
  conns : List (Nat × IC) := []         -- accepted, in acceptance order
deriving Repr

inductive SEv where
  | conn (ca : Nat) | tick (d : Nat) | data (ca : Nat) | req (ca : Nat) | req10 (ca : Nat) | cap (ca k : Nat)
  /-- a complete request that is NOT persistent whatever was started before (e.g. HTTP/1.1 with `Connection: TE, close`) -/
  | reqx (ca : Nat) | reqh (ca : Nat) (fresh cont : Bool)
  | wind (t : Nat) | svc | settmo (t : Nat)
deriving Repr

def onConn (ca : Nat) (e : Ev) (cs : List (Nat × IC)) : List (Nat × IC) :=
  cs.map fun (k, c) => if k = ca then (k, step c e) else (k, c)

def Srv.step (s : Srv) : SEv → Srv
  | .conn ca => { s with waiting := s.waiting ++ [ca] }
  | .tick d => { s with now := s.now + d, conns := s.conns.map fun (k, c) => (k, Idle.step c (.tick d)) }
  | .data ca => { s with conns := onConn ca (.arrive .data) s.conns }
  | .req ca => { s with conns := onConn ca (.arrive .req) s.conns }
  | .req10 ca => { s with conns := onConn ca (.arrive .req10) s.conns }
  | .reqx ca => { s with conns := onConn ca (.arrive .reqx) s.conns }
  | .reqh ca f c => { s with conns := onConn ca (.arrive (.reqh f c)) s.conns }
  | .cap ca k => { s with conns := onConn ca (.cap k) s.conns }
  | .wind t => { s with now := t, conns := s.conns.map fun (k, c) => (k, Idle.step c (.wind t)) }
  | .settmo t => { s with tymeout := t }
  | .svc =>
    let fresh := s.waiting.map fun ca => (ca, accept s.now s.tymeout s.resp)
    { s with waiting := [], conns := (s.conns ++ fresh).map fun (k, c) => (k, Idle.svc c) }

end Hio.Idle
