/-!
# Idle timeout of HTTP server connections (C12)

Virtual tyme in units of 1/8 s (`Nat`; the correspondence uses tymes that are exact in binary floating point).
One connection: the remoter's tymer (`start`, `stop`), the remoter's `tymeout` (0 = never; set to 0 by the HTTP
layer once a persistent request has been parsed), what has arrived on the socket since the last service.
`svc` is one `http.Server.service()` as far as this connection is concerned, in the code's order:
`serviceConnects` (idle check: `ix.tymeout > 0.0 and ix.tymer.expired` → close) → `serviceReceivesAllIx`
(every received chunk calls `refresh()` = tymer started at the current tyme with the same duration) → `serviceReqs`
(a complete persistent request sets `remoter.tymeout = 0.0`).
-/
namespace Hio.Idle

inductive Arr where
  | data   -- bytes of a request that is not complete yet
  | req    -- a complete persistent (HTTP/1.1) request
deriving DecidableEq, Repr

structure IC where
  now : Nat
  start : Nat
  stop : Nat
  tymeout : Nat
  isOpen : Bool := true
  inbox : List Arr := []
deriving Repr

/-- a connection accepted at tyme `t` by a server configured with `tymeout` -/
def accept (t tymeout : Nat) : IC := { now := t, start := t, stop := t + tymeout, tymeout := tymeout }

def expired (c : IC) : Bool := c.tymeout > 0 && c.now ≥ c.stop

def svc (c : IC) : IC :=
  if !c.isOpen then c
  else if expired c then { c with isOpen := false }
  else if c.inbox = [] then c
  else { c with start := c.now, stop := c.now + (c.stop - c.start),
                tymeout := if c.inbox.contains .req then 0 else c.tymeout, inbox := [] }

inductive Ev where
  | tick (d : Nat) | arrive (a : Arr) | svc
deriving Repr

def step (c : IC) : Ev → IC
  | .tick d => { c with now := c.now + d }
  | .arrive a => if c.isOpen then { c with inbox := c.inbox ++ [a] } else c
  | .svc => svc c

def run (c : IC) : List Ev → IC
  | [] => c
  | e :: es => run (step c e) es

def ticks : List Ev → Nat
  | [] => 0
  | .tick d :: es => d + ticks es
  | _ :: es => ticks es

def noArrivals : List Ev → Bool
  | [] => true
  | .arrive _ :: _ => false
  | _ :: es => noArrivals es

def hasArrival : List Ev → Bool
  | [] => false
  | .arrive _ :: _ => true
  | _ :: es => hasArrival es

def noSvc : List Ev → Bool
  | [] => true
  | .svc :: _ => false
  | _ :: es => noSvc es

/-! ### the whole server, for the correspondence: several connections, accepted at the first service after they connect -/

structure Srv where
  tymeout : Nat
  now : Nat := 0
  waiting : List Nat := []              -- addresses connected but not yet accepted
  conns : List (Nat × IC) := []         -- accepted, in acceptance order
deriving Repr

inductive SEv where
  | conn (ca : Nat) | tick (d : Nat) | data (ca : Nat) | req (ca : Nat) | svc
deriving Repr

def arriveAt (ca : Nat) (a : Arr) (cs : List (Nat × IC)) : List (Nat × IC) :=
  cs.map fun (k, c) => if k = ca then (k, step c (.arrive a)) else (k, c)

def Srv.step (s : Srv) : SEv → Srv
  | .conn ca => { s with waiting := s.waiting ++ [ca] }
  | .tick d => { s with now := s.now + d, conns := s.conns.map fun (k, c) => (k, Idle.step c (.tick d)) }
  | .data ca => { s with conns := arriveAt ca .data s.conns }
  | .req ca => { s with conns := arriveAt ca .req s.conns }
  | .svc =>
    let fresh := s.waiting.map fun ca => (ca, accept s.now s.tymeout)
    { s with waiting := [], conns := (s.conns ++ fresh).map fun (k, c) => (k, Idle.svc c) }

end Hio.Idle
