import HioModel.Tcp.Idle
/-! helper lemmas for C12 -/
namespace Hio.Idle

/-- the tymer is `T` long, started no later than now; the remoter's tymeout is the configured one or 0 (persistent) -/
structure Wf (c : IC) (T : Nat) : Prop where
  dur : c.stop = c.start + T
  le : c.start ≤ c.now
  tmo : c.tymeout = T ∨ c.tymeout = 0

theorem run_append (c : IC) (a b : List Ev) : run c (a ++ b) = run (run c a) b := by
  induction a generalizing c with
  | nil => rfl
  | cons e es ih => simp [run, ih]

theorem refresh_wf {c : IC} {T : Nat} (h : Wf c T) : Wf (refresh c) T :=
  ⟨by simp only [refresh, h.dur]; omega, Nat.le_refl _, h.tmo⟩

theorem intake_wf {c : IC} {T : Nat} (h : Wf c T) : Wf (intake c) T := by
  unfold intake
  split
  · exact h
  · have := refresh_wf h
    refine ⟨this.dur, this.le, ?_⟩
    simp only
    split
    · exact Or.inr rfl
    · exact this.tmo

theorem output_wf {c : IC} {T : Nat} (h : Wf c T) : Wf (output c) T := by
  unfold output
  split
  · exact refresh_wf (c := { c with txlen := _ }) ⟨h.dur, h.le, h.tmo⟩
  · exact h

theorem svc_wf {c : IC} {T : Nat} (h : Wf c T) : Wf (svc c) T := by
  unfold svc
  split
  · exact h
  · split
    · exact ⟨h.dur, h.le, h.tmo⟩
    · have hi := intake_wf h
      simp only
      split
      · exact ⟨hi.dur, hi.le, hi.tmo⟩
      · exact output_wf hi

theorem step_wf {c : IC} {T : Nat} (e : Ev) (h : Wf c T) (ho : c.isOpen = true) : Wf (step c e) T := by
  cases e with
  | tick d => exact ⟨h.dur, by simp [step]; have := h.le; omega, h.tmo⟩
  | arrive a =>
    simp only [step, ho, ↓reduceIte]
    cases a <;> exact ⟨h.dur, h.le, h.tmo⟩
  | svc => exact svc_wf h
  | wind t =>
    simp only [step, ho, ↓reduceIte]
    exact ⟨by simp only [h.dur]; omega, Nat.le_refl _, h.tmo⟩
  | cap k =>
    simp only [step, ho, ↓reduceIte]
    exact ⟨h.dur, h.le, h.tmo⟩

theorem svc_closed (c : IC) (h : c.isOpen = false) : svc c = c := by
  unfold svc; simp [h]

theorem step_closed (c : IC) (e : Ev) (h : c.isOpen = false) : (step c e).isOpen = false := by
  cases e with
  | tick d => exact h
  | arrive a => simp [step, h]
  | svc => simp only [step]; rw [svc_closed c h]; exact h
  | wind t => simp [step, h]
  | cap k => simp [step, h]

theorem run_closed (evs : List Ev) : ∀ (c : IC), c.isOpen = false → (run c evs).isOpen = false := by
  induction evs with
  | nil => intro c h; exact h
  | cons e es ih => intro c h; exact ih _ (step_closed c e h)

/-- a live connection stays well formed through any history (while it is open) -/
theorem run_wf (evs : List Ev) : ∀ {c : IC} {T : Nat}, Wf c T → c.isOpen = true →
    (run c evs).isOpen = true → Wf (run c evs) T := by
  induction evs with
  | nil => intro c T h _ _; exact h
  | cons e es ih =>
    intro c T h ho hf
    by_cases hs : (step c e).isOpen = true
    · exact ih (step_wf e h ho) hs hf
    · have : (run (step c e) es).isOpen = false := run_closed es _ (by simpa using hs)
      simp only [run] at hf
      rw [this] at hf; cases hf

theorem accept_wf (t T r : Nat) : Wf (accept t T r) T := ⟨rfl, Nat.le_refl _, Or.inl rfl⟩

/-- nothing to read and nothing that can leave -/
def Still (c : IC) : Prop := c.inbox = [] ∧ (c.txlen = 0 ∨ c.cap = 0)

theorem svc_still' (c : IC) (h : Still c) (ho : c.isOpen = true) : (svc c).isOpen = false ∨ svc c = c := by
  have hmin : min c.cap c.txlen = 0 := by rcases h.2 with h2 | h2 <;> simp [h2]
  have hi : intake c = c := by simp [intake, h.1]
  have hout : output c = c := by simp [output, hmin]
  unfold svc
  simp only [ho, Bool.not_true, Bool.false_eq_true, ↓reduceIte, hi]
  split
  · exact Or.inl rfl
  · split
    · exact Or.inl rfl
    · exact Or.inr hout

theorem svc_still (c : IC) (h : Still c) (ho : c.isOpen = true) :
    (svc c).isOpen = false ∨
    ((svc c).isOpen = true ∧ (svc c).stop = c.stop ∧ (svc c).start = c.start ∧ (svc c).tymeout = c.tymeout ∧
      Still (svc c) ∧ (svc c).now = c.now) := by
  rcases svc_still' c h ho with h1 | h1
  · exact Or.inl h1
  · rw [h1]; exact Or.inr ⟨ho, rfl, rfl, rfl, h, rfl⟩

theorem run_quiet (evs : List Ev) : ∀ (c : IC), quiet evs = true → Still c → c.isOpen = true →
    (run c evs).isOpen = false ∨
    ((run c evs).isOpen = true ∧ (run c evs).stop = c.stop ∧ (run c evs).start = c.start ∧
      (run c evs).tymeout = c.tymeout ∧ Still (run c evs) ∧ (run c evs).now = c.now + ticks evs) := by
  induction evs with
  | nil => intro c _ h ho; exact Or.inr ⟨ho, rfl, rfl, rfl, h, by simp [run, ticks]⟩
  | cons e es ih =>
    intro c hq hs ho
    cases e with
    | tick d =>
      rcases ih { c with now := c.now + d } (by simpa [quiet] using hq) hs ho with h | h
      · exact Or.inl h
      · refine Or.inr ⟨h.1, h.2.1, h.2.2.1, h.2.2.2.1, h.2.2.2.2.1, ?_⟩
        simp only [run, step, ticks]; rw [h.2.2.2.2.2]; simp only; omega
    | svc =>
      rcases svc_still c hs ho with h | h
      · exact Or.inl (run_closed es _ h)
      · rcases ih (svc c) (by simpa [quiet] using hq) h.2.2.2.2.1 h.1 with g | g
        · exact Or.inl g
        · refine Or.inr ⟨g.1, ?_, ?_, ?_, g.2.2.2.2.1, ?_⟩
          · simp only [run, step]; rw [g.2.1, h.2.1]
          · simp only [run, step]; rw [g.2.2.1, h.2.2.1]
          · simp only [run, step]; rw [g.2.2.2.1, h.2.2.2.1]
          · simp only [run, step, ticks]; rw [g.2.2.2.2.2, h.2.2.2.2.2]
    | arrive a => simp [quiet] at hq
    | wind t => simp [quiet] at hq
    | cap k => simp [quiet] at hq

/-- a stretch without service or re-wind: only the clock, the inbox and the socket's send capacity move -/
theorem run_calm (evs : List Ev) : ∀ (c : IC), calm evs = true → c.isOpen = true →
    (run c evs).stop = c.stop ∧ (run c evs).start = c.start ∧ (run c evs).tymeout = c.tymeout ∧
      (run c evs).isOpen = true ∧ (run c evs).now = c.now + ticks evs ∧ (run c evs).idleClosed = c.idleClosed := by
  induction evs with
  | nil => intro c _ h; simp [run, ticks, h]
  | cons e es ih =>
    intro c hn ho
    cases e with
    | tick d =>
      have := ih { c with now := c.now + d } (by simpa [calm] using hn) ho
      simp only [run, step, ticks]
      refine ⟨this.1, this.2.1, this.2.2.1, this.2.2.2.1, ?_, this.2.2.2.2.2⟩
      rw [this.2.2.2.2.1]; simp only; omega
    | arrive a =>
      have hs : (step c (.arrive a)).stop = c.stop ∧ (step c (.arrive a)).start = c.start ∧
          (step c (.arrive a)).tymeout = c.tymeout ∧ (step c (.arrive a)).isOpen = true ∧
          (step c (.arrive a)).now = c.now ∧ (step c (.arrive a)).idleClosed = c.idleClosed := by
        simp only [step, ho, ↓reduceIte]
        cases a <;> simp [arrive, ho]
      have := ih (step c (.arrive a)) (by simpa [calm] using hn) hs.2.2.2.1
      simp only [run, ticks]
      exact ⟨by rw [this.1, hs.1], by rw [this.2.1, hs.2.1], by rw [this.2.2.1, hs.2.2.1], this.2.2.2.1,
             by rw [this.2.2.2.2.1, hs.2.2.2.2.1], by rw [this.2.2.2.2.2, hs.2.2.2.2.2]⟩
    | cap k =>
      have hs : step c (.cap k) = { c with cap := k } := by simp [step, ho]
      have := ih { c with cap := k } (by simpa [calm] using hn) ho
      simp only [run, ticks]
      rw [hs]
      exact this
    | svc => simp [calm] at hn
    | wind t => simp [calm] at hn

end Hio.Idle
