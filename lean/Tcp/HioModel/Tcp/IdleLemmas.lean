import HioModel.Tcp.Idle
/-! helper lemmas for C12 -/
namespace Hio.Idle

/-- the tymer is `T` long, started no later than now; the remoter's tymeout is the configured one or 0 (persistent) -/
structure Wf (c : IC) (T : Nat) : Prop where
  dur : c.stop = c.start + T
  le : c.start ≤ c.now
  tmo : c.tymeout = T ∨ c.tymeout = 0

theorem run_append (c : IC) (a b : List Ev) : run c (a ++ b) = run (run c a) b := by
  induction a generalizing c with
  | nil => rfl
  | cons e es ih => simp [run, ih]

theorem svc_wf {c : IC} {T : Nat} (h : Wf c T) : Wf (svc c) T := by
  unfold svc
  split
  · exact h
  · split
    · exact ⟨h.dur, h.le, h.tmo⟩
    · split
      · exact h
      · refine ⟨?_, Nat.le_refl _, ?_⟩
        · simp only [h.dur]; omega
        · simp only
          split
          · exact Or.inr rfl
          · exact h.tmo

theorem step_wf {c : IC} {T : Nat} (e : Ev) (h : Wf c T) : Wf (step c e) T := by
  cases e with
  | tick d => exact ⟨h.dur, by simp [step]; have := h.le; omega, h.tmo⟩
  | arrive a => simp only [step]; split <;> exact ⟨h.dur, h.le, h.tmo⟩
  | svc => exact svc_wf h

theorem run_wf (evs : List Ev) : ∀ {c : IC} {T : Nat}, Wf c T → Wf (run c evs) T := by
  induction evs with
  | nil => intro c T h; exact h
  | cons e es ih => intro c T h; exact ih (step_wf e h)

theorem accept_wf (t T : Nat) : Wf (accept t T) T := ⟨rfl, Nat.le_refl _, Or.inl rfl⟩

/-- a service that finds nothing new either leaves everything as it is or closes -/
theorem svc_quiet (c : IC) (h : c.inbox = []) :
    (svc c).stop = c.stop ∧ (svc c).start = c.start ∧ (svc c).tymeout = c.tymeout ∧ (svc c).inbox = [] ∧
      (svc c).now = c.now ∧ (c.isOpen = false → (svc c).isOpen = false) := by
  unfold svc
  split
  · simp [h]
  · split
    · simp [h]
    · simp [h]

theorem run_quiet (evs : List Ev) : ∀ (c : IC), noArrivals evs = true → c.inbox = [] →
    (run c evs).stop = c.stop ∧ (run c evs).start = c.start ∧ (run c evs).tymeout = c.tymeout ∧
      (run c evs).inbox = [] ∧ (run c evs).now = c.now + ticks evs ∧
      (c.isOpen = false → (run c evs).isOpen = false) := by
  induction evs with
  | nil => intro c _ h; simp [run, ticks, h]
  | cons e es ih =>
    intro c hn hi
    cases e with
    | tick d =>
      have := ih { c with now := c.now + d } (by simpa [noArrivals] using hn) hi
      simp only [run, step, ticks]
      refine ⟨this.1, this.2.1, this.2.2.1, this.2.2.2.1, ?_, this.2.2.2.2.2⟩
      rw [this.2.2.2.2.1]; simp only; omega
    | arrive a => simp [noArrivals] at hn
    | svc =>
      have q := svc_quiet c hi
      have := ih (svc c) (by simpa [noArrivals] using hn) q.2.2.2.1
      simp only [run, step, ticks]
      refine ⟨by rw [this.1, q.1], by rw [this.2.1, q.2.1], by rw [this.2.2.1, q.2.2.1], this.2.2.2.1,
              by rw [this.2.2.2.2.1, q.2.2.2.2.1], fun hc => this.2.2.2.2.2 (q.2.2.2.2.2 hc)⟩

theorem svc_closed (c : IC) (h : c.isOpen = false) : svc c = c := by
  unfold svc; simp [h]

theorem run_closed (evs : List Ev) : ∀ (c : IC), c.isOpen = false → (run c evs).isOpen = false := by
  induction evs with
  | nil => intro c h; exact h
  | cons e es ih =>
    intro c h
    apply ih
    cases e with
    | tick d => exact h
    | arrive a => simp [step, h]
    | svc => simp only [step]; rw [svc_closed c h]; exact h

/-- a stretch without any service: only the clock and the inbox move -/
theorem run_nosvc (evs : List Ev) : ∀ (c : IC), noSvc evs = true → c.isOpen = true →
    (run c evs).stop = c.stop ∧ (run c evs).start = c.start ∧ (run c evs).tymeout = c.tymeout ∧
      (run c evs).isOpen = true ∧ (run c evs).now = c.now + ticks evs ∧
      (hasArrival evs = true → (run c evs).inbox ≠ []) ∧ (c.inbox ≠ [] → (run c evs).inbox ≠ []) := by
  induction evs with
  | nil => intro c _ h; simp [run, ticks, h, hasArrival]
  | cons e es ih =>
    intro c hn ho
    cases e with
    | tick d =>
      have := ih { c with now := c.now + d } (by simpa [noSvc] using hn) ho
      simp only [run, step, ticks, hasArrival]
      refine ⟨this.1, this.2.1, this.2.2.1, this.2.2.2.1, ?_, this.2.2.2.2.2.1, this.2.2.2.2.2.2⟩
      rw [this.2.2.2.2.1]; simp only; omega
    | arrive a =>
      have := ih { c with inbox := c.inbox ++ [a] } (by simpa [noSvc] using hn) ho
      have hs : step c (.arrive a) = { c with inbox := c.inbox ++ [a] } := by simp [step, ho]
      simp only [run, ticks, hasArrival]
      rw [hs]
      refine ⟨this.1, this.2.1, this.2.2.1, this.2.2.2.1, this.2.2.2.2.1, fun _ => this.2.2.2.2.2.2 (by simp),
              fun _ => this.2.2.2.2.2.2 (by simp)⟩
    | svc => simp [noSvc] at hn

end Hio.Idle
