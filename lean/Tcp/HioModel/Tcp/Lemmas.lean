import HioModel.Tcp.Safe
/-! helper lemmas for C09: the stream invariant is preserved by every public call -/
namespace Hio.Tcp

/-- everything C09 claims about one connection, relative to the concatenated payloads `p` handed to `tx` so far -/
structure Inv (c : Conn) (p : Bytes) : Prop where
  safe : Safe c
  tx : c.kacc ++ c.txbs = p
  rx : c.cleared ++ c.rxbs = c.kdel
  wtx : c.wireTx = if c.logTx then c.kacc else []
  wrx : c.wireRx = if c.logRx then c.kdel else []

theorem sendFault_inv {c : Conn} {p : Bytes} (code : Nat) (h : Inv c p) :
    Inv (finishSend (sendFault c code)).1 p := by
  unfold sendFault
  split <;> simp [finishSend] <;> exact ⟨h.safe, h.tx, h.rx, h.wtx, h.wrx⟩

theorem send_inv {c : Conn} {p : Bytes} (h : Inv c p) : Inv (finishSend (send c)).1 p := by
  unfold send
  split
  · exact sendFault_inv _ h
  · rename_i code rest hs
    exact sendFault_inv code (c := { c with sends := rest }) ⟨h.safe, h.tx, h.rx, h.wtx, h.wrx⟩
  · rename_i n rest hs
    simp only [h.safe.tx, Bool.false_eq_true, and_false, ↓reduceIte]
    refine ⟨h.safe, ?_, h.rx, ?_, h.wrx⟩
    · simp only [finishSend, List.append_assoc, List.take_append_drop]
      exact h.tx
    · simp only [finishSend]
      cases hw : c.logTx <;> simp [h.wtx, hw]

theorem serviceSends_inv {c : Conn} {p : Bytes} (h : Inv c p) : Inv (serviceSends c).1 p := by
  unfold serviceSends
  split
  · exact send_inv h
  · exact h

theorem recvFault_inv {c : Conn} {p : Bytes} (code : Nat) (h : Inv c p) : Inv (recvFault c code).1 p := by
  unfold recvFault
  split <;> exact ⟨h.safe, h.tx, h.rx, h.wtx, h.wrx⟩

theorem recvLoop_inv (script : List RResp) : ∀ {c : Conn} {p : Bytes}, Inv c p → Inv (recvLoop c script).1 p := by
  induction script with
  | nil =>
    intro c p h
    unfold recvLoop
    split
    · exact ⟨h.safe, h.tx, h.rx, h.wtx, h.wrx⟩
    · exact recvFault_inv _ ⟨h.safe, h.tx, h.rx, h.wtx, h.wrx⟩
  | cons r rest ih =>
    intro c p h
    unfold recvLoop
    split
    · exact ⟨h.safe, h.tx, h.rx, h.wtx, h.wrx⟩
    · split
      · exact recvFault_inv _ ⟨h.safe, h.tx, h.rx, h.wtx, h.wrx⟩
      · rename_i d
        split
        · exact ⟨h.safe, h.tx, h.rx, h.wtx, h.wrx⟩
        · simp only [h.safe.rx, Bool.false_eq_true, ↓reduceIte]
          apply ih
          refine ⟨h.safe, h.tx, ?_, h.wtx, ?_⟩
          · simp [← h.rx]
          · simp only
            cases hw : c.logRx <;> simp [h.wrx, hw]

theorem serviceReceiveOnce_inv {c : Conn} {p : Bytes} (h : Inv c p) : Inv (serviceReceiveOnce c).1 p := by
  unfold serviceReceiveOnce
  split
  · split
    · exact recvFault_inv _ h
    · exact recvFault_inv _ (c := { c with recvs := _ }) ⟨h.safe, h.tx, h.rx, h.wtx, h.wrx⟩
    · split
      · exact ⟨h.safe, h.tx, h.rx, h.wtx, h.wrx⟩
      · simp only [h.safe.rx, Bool.false_eq_true, ↓reduceIte]
        refine ⟨h.safe, h.tx, ?_, h.wtx, ?_⟩
        · simp [← h.rx]
        · simp only
          cases hw : c.logRx <;> simp [h.wrx, hw]
  · exact h

theorem serviceReceives_inv {c : Conn} {p : Bytes} (h : Inv c p) : Inv (serviceReceives c).1 p := by
  unfold serviceReceives
  split
  · exact recvLoop_inv _ h
  · exact h

theorem andThen_inv {r : Conn × Option Exn} {f : Conn → Conn × Option Exn} {p : Bytes}
    (h : Inv r.1 p) (hf : ∀ c, Inv c p → Inv (f c).1 p) : Inv (andThen r f).1 p := by
  obtain ⟨c, e⟩ := r
  cases e with
  | none => exact hf c h
  | some e => exact h

theorem step_inv {c : Conn} {p : Bytes} (op : Op) (h : Inv c p) : Inv (step c op).1 (p ++ payload [op]) := by
  cases op with
  | tx d =>
    refine ⟨h.safe, ?_, h.rx, h.wtx, h.wrx⟩
    simp [step, payload, ← h.tx]
  | ss => simpa [step, payload] using serviceSends_inv h
  | sr => simpa [step, payload] using serviceReceives_inv h
  | rst => simpa [step, payload] using (⟨h.safe, h.tx, h.rx, h.wtx, h.wrx⟩ : Inv { c with peerGone := true } p)
  | sro => simpa [step, payload] using serviceReceiveOnce_inv h
  | clr =>
    have : Inv { c with cleared := c.cleared ++ c.rxbs, rxbs := [] } p :=
      ⟨h.safe, h.tx, by simpa using h.rx, h.wtx, h.wrx⟩
    simpa [step, payload] using this
  | svc =>
    have e : p ++ payload [Op.svc] = p := by simp [payload]
    rw [e]
    cases hk : c.kind <;> simp only [step, hk]
    · exact andThen_inv (serviceSends_inv h) (fun _ => serviceReceives_inv)
    · exact andThen_inv (serviceSends_inv h) (fun _ => serviceReceives_inv)
    · exact andThen_inv (serviceReceives_inv h) (fun _ => serviceSends_inv)
    · exact andThen_inv (serviceReceives_inv h) (fun _ => serviceSends_inv)

theorem payload_cons (op : Op) (ops : List Op) : payload (op :: ops) = payload [op] ++ payload ops := by
  cases op <;> simp [payload]

theorem run_inv (ops : List Op) : ∀ {c : Conn} {p : Bytes}, Inv c p → Inv (run c ops) (p ++ payload ops) := by
  induction ops with
  | nil => intro c p h; simpa [run, payload] using h
  | cons op ops ih =>
    intro c p h
    rw [run, payload_cons, ← List.append_assoc]
    exact ih (step_inv op h)

theorem init_inv (kind : Kind) (wl : Bool) (s : List SResp) (r : List RResp) (hs : wl = false ∨ PeerSafe kind)
    (txed : Bool := true) (rxed : Bool := true) : Inv (init kind wl s r txed rxed) [] := by
  refine ⟨hs, rfl, rfl, ?_, ?_⟩
  · cases wl <;> cases txed <;> rfl
  · cases wl <;> cases rxed <;> rfl

/-! ### kind and wire-log flag never change -/

theorem sendFault_wl (c : Conn) (code : Nat) : (finishSend (sendFault c code)).1.flags = c.flags := by
  unfold sendFault
  split <;> rfl

theorem serviceSends_wl (c : Conn) : (serviceSends c).1.flags = c.flags := by
  unfold serviceSends
  split
  · unfold send
    split
    · exact sendFault_wl _ _
    · exact sendFault_wl _ _
    · rename_i n rest _
      by_cases hcnd : 0 < min n c.txbs.length ∧ c.wlFailsTx = true <;> simp [hcnd, finishSend, Conn.flags]
  · rfl

theorem recvFault_wl (c : Conn) (code : Nat) : (recvFault c code).1.flags = c.flags := by
  unfold recvFault
  split <;> rfl

theorem recvLoop_wl (script : List RResp) : ∀ c : Conn, (recvLoop c script).1.flags = c.flags := by
  induction script with
  | nil => intro c; unfold recvLoop; split; rfl; exact recvFault_wl _ _
  | cons r rest ih =>
    intro c
    unfold recvLoop
    split
    · rfl
    · split
      · exact recvFault_wl _ _
      · split
        · rfl
        · split
          · rfl
          · rw [ih]; rfl

theorem serviceReceives_wl (c : Conn) : (serviceReceives c).1.flags = c.flags := by
  unfold serviceReceives
  split
  · exact recvLoop_wl _ _
  · rfl

theorem andThen_wl {r : Conn × Option Exn} {f : Conn → Conn × Option Exn} (hf : ∀ c, (f c).1.flags = c.flags) :
    (andThen r f).1.flags = r.1.flags := by
  obtain ⟨c, e⟩ := r
  cases e with
  | none => exact hf c
  | some e => rfl

theorem step_wl (c : Conn) (op : Op) : (step c op).1.flags = c.flags := by
  cases op with
  | tx d => rfl
  | ss => exact serviceSends_wl c
  | sr => exact serviceReceives_wl c
  | rst => rfl
  | clr => rfl
  | sro =>
    simp only [step]
    unfold serviceReceiveOnce
    split
    · split
      · exact recvFault_wl _ _
      · exact recvFault_wl _ _
      · split
        · rfl
        · split <;> rfl
    · rfl
  | svc =>
    cases hk : c.kind <;> simp only [step, hk]
    · rw [andThen_wl serviceReceives_wl, serviceSends_wl]
    · rw [andThen_wl serviceReceives_wl, serviceSends_wl]
    · rw [andThen_wl serviceSends_wl, serviceReceives_wl]
    · rw [andThen_wl serviceSends_wl, serviceReceives_wl]

theorem run_wl (ops : List Op) : ∀ c : Conn, (run c ops).flags = c.flags := by
  induction ops with
  | nil => intro c; rfl
  | cons op ops ih => intro c; rw [run, ih, step_wl]

end Hio.Tcp

namespace Hio.Tcp

/-- `n` consecutive `serviceSends` calls -/
def sendN : Nat → Conn → Conn
  | 0, c => c
  | n + 1, c => sendN n (serviceSends c).1

/-- every scripted response of the kernel to `send` takes at least one byte -/
def AllAccept (s : List SResp) : Prop := ∀ r ∈ s, ∃ m, 1 ≤ m ∧ r = SResp.acc m

theorem serviceSends_empty (c : Conn) (h : c.txbs = []) : serviceSends c = (c, none) := by
  unfold serviceSends
  simp [h]

/-- the connection after a `serviceSends` whose `send` took `min m |txbs|` bytes -/
def afterAcc (c : Conn) (m : Nat) (rest : List SResp) : Conn :=
  { c with sends := rest, kacc := c.kacc ++ c.txbs.take (min m c.txbs.length),
           wireTx := if c.logTx then c.wireTx ++ c.txbs.take (min m c.txbs.length) else c.wireTx,
           txbs := c.txbs.drop (min m c.txbs.length) }

theorem drains_aux : ∀ (n : Nat) (c : Conn), Safe c → c.txbs.length ≤ n → c.cutoff = false → c.guard = true →
    AllAccept c.sends → n ≤ c.sends.length →
    (sendN n c).txbs = [] ∧ (sendN n c).kacc = c.kacc ++ c.txbs ∧ (sendN n c).cutoff = false := by
  intro n
  induction n with
  | zero =>
    intro c _ hn hc _ _ _
    have : c.txbs = [] := List.length_eq_zero_iff.mp (Nat.le_zero.mp hn)
    simp [sendN, this, hc]
  | succ n ih =>
    intro c hsafe hn hc hg hs hl
    by_cases ht : c.txbs = []
    · rw [sendN, serviceSends_empty c ht]
      exact ih c hsafe (by simp [ht]) hc hg hs (by omega)
    · match hsd : c.sends, hl, hs with
      | [], hl, _ => simp at hl
      | r :: rest, hl, hs =>
        obtain ⟨m, hm, rfl⟩ := hs r (by simp)
        have hsv : serviceSends c = (afterAcc c m rest, none) := by
          unfold serviceSends
          simp only [ne_eq, ht, not_false_eq_true, hg, hc, and_self, ↓reduceIte, send, hsd, finishSend, afterAcc,
            hsafe.tx, Bool.false_eq_true, and_false]
        rw [sendN, hsv]
        have hpos : 0 < c.txbs.length := List.length_pos_iff.mpr ht
        have hk : 1 ≤ min m c.txbs.length := by omega
        have h := ih (afterAcc c m rest) hsafe
          (by simp only [afterAcc, List.length_drop]; omega) hc (by simpa [Conn.guard, afterAcc] using hg)
          (fun r hr => hs r (by simp [afterAcc] at hr; simp [hr])) (by simp [afterAcc] at hl ⊢; omega)
        simpa [afterAcc, List.append_assoc, List.take_append_drop] using h

/-- every chunk the kernel will deliver is non-empty data (no EOF, no fault) -/
theorem recvLoop_all (ds : List Bytes) : ∀ (c : Conn), Safe c → c.cutoff = false → (∀ d ∈ ds, d ≠ []) →
    lookup (recvTable c.kind) (wbCode c.kind) = .wouldblock →
    (recvLoop c (ds.map RResp.data)).1.rxbs = c.rxbs ++ ds.flatten ∧
    (recvLoop c (ds.map RResp.data)).2 = none ∧ (recvLoop c (ds.map RResp.data)).1.cutoff = false := by
  induction ds with
  | nil =>
    intro c _ hc _ hw
    simp [recvLoop, hc, recvFault, hw]
  | cons d ds ih =>
    intro c hsafe hc hd hw
    have hne : d ≠ [] := hd d (by simp)
    simp only [List.map_cons, recvLoop, hc, Bool.false_eq_true, ↓reduceIte, hne, List.flatten_cons, hsafe.rx]
    have := ih { c with rxbs := c.rxbs ++ d, kdel := c.kdel ++ d,
                        wireRx := if c.logRx then c.wireRx ++ d else c.wireRx } hsafe hc
      (fun x hx => hd x (by simp [hx])) hw
    simpa [List.append_assoc, hc] using this

end Hio.Tcp
