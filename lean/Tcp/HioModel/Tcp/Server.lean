import HioModel.Tcp.Model
/-!
# Tcp server model (C10, C11): `Server` / `ServerTls` over a listen socket and scripted connection sockets

Faithful to `hio.core.tcp.serving` at the current tree.  Every socket the server ever obtained is accounted for:
remoters sit in `ixes`, in `cxes` (TLS, handshake pending) or — once the server dropped them — in `gone`.
`csOpen` is "`Remoter.cs is not None`", which is exactly "the socket has not been `close()`d" because a remoter is the only
owner of its socket.  The two per-connection loops of `Server.service` catch what the regenerated flags
`Gen.Tcp.recvLoopCatchesOSError` / `sendLoopCatchesOSError` say they catch.
-/
namespace Hio.Tcp

/-- kernel/TLS response to one `do_handshake()` -/
inductive HResp where
  | ok | fault (code : Nat)
deriving Repr

structure Rem where
  sid : Nat
  c : Conn
  hs : List HResp := []
  aborted : Bool := false
  csOpen : Bool := true
deriving Repr

/-- `Remoter.close` / `RemoterTls.close`: `if self.cs: shutdown; close; cs = None [; connected = False]` -/
def Rem.close (r : Rem) : Rem :=
  if r.csOpen then
    { r with csOpen := false, c := { r.c with connected := if r.c.kind.tls then false else r.c.connected } }
  else r

/-- the shared WireLog was (re)opened: this remoter's part of the log starts empty and it records from now on -/
def Rem.relog (r : Rem) (attached : Bool) (txed : Bool := true) (rxed : Bool := true) : Rem :=
  { r with c := { r.c with wl := attached, logTx := attached && txed, logRx := attached && rxed, wireTx := [], wireRx := [] } }

/-- the echo application: what was received is queued for sending, the receive buffer is cleared -/
def Rem.echo (r : Rem) : Rem :=
  { r with c := { r.c with txbs := r.c.txbs ++ r.c.rxbs, cleared := r.c.cleared ++ r.c.rxbs, rxbs := [] } }

/-- `Remoter.serviceReceives`; with `cs is None` the first `self.cs.recv` is an AttributeError -/
def Rem.serviceReceives (r : Rem) : Rem × Option Exn :=
  if r.c.cutoff then (r, none)
  else if !r.csOpen then (r, some .other)
  else ({ r with c := (Tcp.serviceReceives r.c).1 }, (Tcp.serviceReceives r.c).2)

def Rem.serviceSends (r : Rem) : Rem × Option Exn :=
  if r.c.txbs = [] ∨ r.c.cutoff = true then (r, none)
  else if !r.csOpen then (r, some .other)
  else ({ r with c := (Tcp.serviceSends r.c).1 }, (Tcp.serviceSends r.c).2)

/-- handshake outcome lookup: a fault code outside the probed domain is still an `OSError`, i.e. `aborted` -/
def hsLookup (code : Nat) : Outcome :=
  match assoc Gen.Tcp.remoterTlsHs code with
  | some o => Outcome.ofCode o
  | none => .aborted

/-- `ClientTls.handshake` outcome lookup (same default) -/
def clientHsLookup (code : Nat) : Outcome :=
  match assoc Gen.Tcp.clientTlsHs code with
  | some o => Outcome.ofCode o
  | none => .raisedOS

def hsFault (r : Rem) (code : Nat) : Rem × Option Exn :=
  match hsLookup code with
  | .wouldblock => (r, none)
  | .aborted => ({ r.close with aborted := true }, none)
  | .cutoff => ({ r.close with aborted := true }, none)
  | .raisedOS => (r.close, some .osError)
  | .raisedOther => (r.close, some .other)

/-- `RemoterTls.handshake` -/
def Rem.handshake (r : Rem) : Rem × Option Exn :=
  if !r.csOpen then (r, some .other)
  else match r.hs with
    | [] => hsFault r Gen.Tcp.wantRead
    | .ok :: rest => ({ r with hs := rest, c := { r.c with connected := true } }, none)
    | .fault code :: rest => hsFault { r with hs := rest } code

/-- a peer waiting in the listen socket's accept queue, with the scripts its socket will follow -/
structure Pending where
  ca : Nat
  sends : List SResp
  recvs : List RResp
  hs : List HResp
  /-- the peer reset the connection before it was accepted: `getpeername()` on the accepted socket raises -/
  dead : Bool := false
deriving Repr

/-- what the listen socket's next `accept()` will give: a connection, or a non-EAGAIN OSError (EMFILE, ECONNABORTED …) -/
inductive PItem where
  | conn (p : Pending) | fault (code : Nat)
deriving Repr

abbrev Table := List (Nat × Rem)

structure Server where
  tls : Bool
  curListen : Option Nat := none
  deadListens : List Nat := []
  nextSid : Nat := 0
  pending : List PItem := []
  /-- `.axes`: sockets `accept()` has returned (ids allocated) that have not been made into remoters yet -/
  axes : List (Nat × Pending) := []
  ixes : Table := []
  cxes : Table := []
  gone : List Rem := []
  /-- a WireLog object is attached to the server (handed to every remoter it makes) -/
  wlAttached : Bool := false
  /-- the directions that WireLog is configured to record -/
  wlTxed : Bool := true
  wlRxed : Bool := true
  /-- that WireLog is currently open (a plain `WireLog()` starts closed; `reopen()` opens it with FRESH, empty logs) -/
  wlOpen : Bool := false
deriving Repr

/-- `d[ca] = r` on an insertion-ordered dict; also returns the value that was replaced -/
def dictSet : Table → Nat → Rem → Table × Option Rem
  | [], ca, r => ([(ca, r)], none)
  | (k, v) :: rest, ca, r =>
    if k = ca then ((k, r) :: rest, some v)
    else ((k, v) :: (dictSet rest ca r).1, (dictSet rest ca r).2)

def dictGet : Table → Nat → Option Rem
  | [], _ => none
  | (k, v) :: rest, ca => if k = ca then some v else dictGet rest ca

def dictDel : Table → Nat → Table
  | [], _ => []
  | (k, v) :: rest, ca => if k = ca then rest else (k, v) :: dictDel rest ca

/-- the replaced remoter is closed (`closeIx`) and dropped -/
def retire (g : List Rem) : Option Rem → List Rem
  | none => g
  | some o => o.close :: g

def newRem (tls : Bool) (sid : Nat) (p : Pending) (wl : Bool := false) (txed : Bool := true) (rxed : Bool := true) : Rem :=
  { sid := sid, hs := p.hs,
    c := { kind := if tls then .remoterTls else .remoter, connected := !tls, sends := p.sends, recvs := p.recvs, wl := wl,
           logTx := wl && txed, logRx := wl && rxed } }

/-- an accepted socket that never became a remoter (waiting in `.axes`, or closed from there): how it shows in a snapshot -/
def stub (tls : Bool) (sid : Nat) (p : Pending) (isOpen : Bool) : Rem :=
  { (newRem tls sid p) with csOpen := isOpen, c := { (newRem tls sid p).c with connected := false } }

/-- `serviceAccepts`: `while True: cs, ca = accept(); if not cs: break; axes.append(...)` — a non-EAGAIN OSError from `accept()`
propagates; what was accepted before it stays in `.axes` -/
def drainAccepts (s : Server) : List PItem → Server × Option Exn
  | [] => ({ s with pending := [] }, none)
  | .fault _ :: rest => ({ s with pending := rest }, some .osError)
  | .conn p :: rest =>
    drainAccepts { s with axes := s.axes ++ [(s.nextSid, p)], nextSid := s.nextSid + 1 } rest

/-- the `while self.axes:` loop of `serviceAxes`: make a remoter for each accepted socket, file it under its `ca`
(plain: in `ixes`; TLS: in `cxes`), closing a remoter it replaces -/
def acceptAll (s : Server) : List (Nat × Pending) → Server
  | [] => { s with axes := [] }
  | (sid, p) :: ps =>
    -- the remoter keeps a reference to the server's WireLog object; whether it records depends on the log being open
    let r := newRem s.tls sid p (s.wlAttached && s.wlOpen) s.wlTxed s.wlRxed
    if p.dead then
      -- `except OSError: cs.close(); continue`: no remoter is made, the socket is closed
      acceptAll { s with gone := { r with csOpen := false, c := { r.c with connected := false } } :: s.gone } ps
    else if s.tls then
      acceptAll { s with cxes := (dictSet s.cxes p.ca r).1, gone := retire s.gone (dictSet s.cxes p.ca r).2 } ps
    else
      acceptAll { s with ixes := (dictSet s.ixes p.ca r).1, gone := retire s.gone (dictSet s.ixes p.ca r).2 } ps

structure LoopOut where
  cxes : Table
  ixes : Table
  gone : List Rem
  exn : Option Exn

/-- `serviceCxes` over a snapshot of `cxes` -/
def cxLoop : Table → Table → List Rem → LoopOut
  | [], ix, g => ⟨[], ix, g, none⟩
  | (ca, cx) :: rest, ix, g =>
    match cx.handshake with
    | (cx', some e) => ⟨(ca, cx') :: rest, ix, g, some e⟩
    | (cx', none) =>
      if cx'.c.connected then cxLoop rest (dictSet ix ca cx').1 (retire g (dictSet ix ca cx').2)
      else if cx'.aborted then cxLoop rest ix (cx' :: g)
      else
        let o := cxLoop rest ix g
        ⟨(ca, cx') :: o.cxes, o.ixes, o.gone, o.exn⟩

def catches (flag : Bool) : Exn → Bool
  | .osError => flag
  | .other => false

structure IxOut where
  ixes : Table
  gone : List Rem
  exn : Option Exn

/-- one of the two per-connection loops of `Server.service` (`f` = the remoter's `serviceReceives` / `serviceSends`):
an exception the loop catches removes (and closes) that connection and the loop goes on; any other propagates -/
def ixLoop (f : Rem → Rem × Option Exn) (flag : Bool) : Table → IxOut
  | [] => ⟨[], [], none⟩
  | (ca, r) :: rest =>
    match f r with
    | (r', none) => let o := ixLoop f flag rest; ⟨(ca, r') :: o.ixes, o.gone, o.exn⟩
    | (r', some e) =>
      if catches flag e then let o := ixLoop f flag rest; ⟨o.ixes, r'.close :: o.gone, o.exn⟩
      else ⟨(ca, r') :: rest, [], some e⟩

def Server.recvAll (s : Server) : Server × Option Exn :=
  let o := ixLoop Rem.serviceReceives Gen.Tcp.recvLoopCatchesOSError s.ixes
  ({ s with ixes := o.ixes, gone := o.gone ++ s.gone }, o.exn)

def Server.sendAll (s : Server) : Server × Option Exn :=
  let o := ixLoop Rem.serviceSends Gen.Tcp.sendLoopCatchesOSError s.ixes
  ({ s with ixes := o.ixes, gone := o.gone ++ s.gone }, o.exn)

def Server.connects (s : Server) : Server × Option Exn :=
  match drainAccepts s s.pending with
  | (s0, some e) => (s0, some e)
  | (s0, none) =>
    let s1 := acceptAll s0 s0.axes
    if s.tls then
      let o := cxLoop s1.cxes s1.ixes s1.gone
      ({ s1 with cxes := o.cxes, ixes := o.ixes, gone := o.gone }, o.exn)
    else (s1, none)

def sbind (r : Server × Option Exn) (f : Server → Server × Option Exn) : Server × Option Exn :=
  match r with
  | (s, none) => f s
  | (s, some e) => (s, some e)

/-- `Server.service`: connects, receives for all, sends for all.  With the listen socket closed (`ss is None`)
the very first `self.ss.accept()` is an AttributeError. -/
def Server.service (s : Server) : Server × Option Exn :=
  match s.curListen with
  | none => (s, some .other)
  | some _ => sbind (sbind s.connects Server.recvAll) Server.sendAll

/-- `Server.close` / `ServerTls.close` -/
def Server.close (s : Server) : Server :=
  { s with curListen := none, deadListens := s.curListen.toList ++ s.deadListens, pending := [],
           ixes := s.ixes.map fun (ca, r) => (ca, r.close),
           cxes := [], axes := [],
           gone := s.axes.map (fun (sid, p) => stub s.tls sid p false) ++ s.cxes.map (fun (_, r) => r.close) ++ s.gone }

/-- the `close()` at the start of `reopen()` -/
def Server.reclose (s : Server) : Server :=
  let s1 := s.close
  -- whether the remoters of the previous opening (closed by `close`) are forgotten is read from the code
  if Gen.Tcp.reopenClearsIxes then { s1 with ixes := [], gone := s1.ixes.map (·.2) ++ s1.gone } else s1

/-- `reopen` = `close` then `open` (a fresh listen socket) -/
def Server.reopen (s : Server) : Server :=
  let s2 := s.reclose
  { s2 with curListen := some s2.nextSid, nextSid := s2.nextSid + 1 }

/-- `reopen()` whose `open()` fails: the fresh listen socket is created, `bind()`/`listen()` raises OSError (address in use,
no permission …), `open()` closes that socket again and returns False — the server is left closed -/
def Server.reopenFail (s : Server) : Server :=
  let s2 := s.reclose
  { s2 with curListen := none, deadListens := s2.nextSid :: s2.deadListens, nextSid := s2.nextSid + 1 }

inductive SOp where
  | conn (p : Pending) | svc | tx (ca : Nat) (d : Bytes) | rm (ca : Nat) | close | reopen
  | rxix (ca : Nat) | closeix (ca : Nat) | closeall
  /-- one `EchoServerDoer.recur()`: `server.service()`, then every connection's received bytes are queued back to it
  (`ix.tx(bytes(ix.rxbs)); ix.clearRxbs()`) -/
  | svce
  /-- something the application does to a remoter that has no effect on streams, sockets or faults (e.g. `refreshable = False`) -/
  | nop
  /-- the listen socket's `accept()` will raise this (non-EAGAIN) OSError when it gets that far in its queue -/
  | afault (code : Nat)
  /-- `reopen()` with the bind/listen of the new listen socket failing -/
  | reopenf
  /-- `wl.reopen()` on the server's WireLog: from now on every remoter (old and new) records, into fresh logs -/
  | wlopen
deriving Repr

inductive Status where
  | ok | skip | raised (e : Exn)
deriving Repr

def statusOf : Option Exn → Status
  | none => .ok
  | some e => .raised e

def mapKey (t : Table) (ca : Nat) (f : Rem → Rem) : Table :=
  t.map fun (k, v) => if k = ca then (k, f v) else (k, v)

def Server.step (s : Server) : SOp → Server × Status
  | .conn p => (if s.curListen.isSome then { s with pending := s.pending ++ [.conn p] } else s, .ok)
  | .afault code => (if s.curListen.isSome then { s with pending := s.pending ++ [.fault code] } else s, .ok)
  | .svc => let r := s.service; (r.1, statusOf r.2)
  | .nop => (s, .ok)
  | .svce =>
    match s.service with
    | (s1, some e) => (s1, .raised e)
    | (s1, none) => ({ s1 with ixes := s1.ixes.map fun (ca, r) => (ca, r.echo) }, .ok)
  | .tx ca d =>
    match dictGet s.ixes ca with
    | none => (s, .raised .other)   -- ValueError("Invalid connection address"), nothing changed
    | some _ => ({ s with ixes := mapKey s.ixes ca fun r => { r with c := { r.c with txbs := r.c.txbs ++ d } } }, .ok)
  | .rxix ca =>   -- `serviceReceivesIx(ca)`
    match dictGet s.ixes ca with
    | none => (s, .raised .other)
    | some r =>
      match r.serviceReceives with
      | (r', none) => ({ s with ixes := mapKey s.ixes ca fun _ => r' }, .ok)
      | (r', some e) =>
        if catches Gen.Tcp.recvIxCatchesOSError e then
          ({ s with ixes := dictDel s.ixes ca, gone := r'.close :: s.gone }, .ok)
        else ({ s with ixes := mapKey s.ixes ca fun _ => r' }, .raised e)
  | .closeix ca =>   -- `closeIx(ca)`: the remoter stays in the table, closed
    match dictGet s.ixes ca with
    | none => (s, .raised .other)
    | some _ => ({ s with ixes := mapKey s.ixes ca Rem.close }, .ok)
  | .closeall => ({ s with ixes := s.ixes.map fun (ca, r) => (ca, r.close) }, .ok)
  | .wlopen =>
    ({ s with wlOpen := true, ixes := s.ixes.map fun (ca, r) => (ca, r.relog s.wlAttached s.wlTxed s.wlRxed),
              cxes := s.cxes.map fun (ca, r) => (ca, r.relog s.wlAttached s.wlTxed s.wlRxed),
              gone := s.gone.map fun r => r.relog s.wlAttached s.wlTxed s.wlRxed }, .ok)
  | .rm ca =>
    match dictGet s.ixes ca with
    | none => (s, .raised .other)
    | some r => ({ s with ixes := dictDel s.ixes ca, gone := r.close :: s.gone }, .ok)
  | .close => (s.close, .ok)
  | .reopen => (s.reopen, .ok)
  | .reopenf => (s.reopenFail, .ok)

def Server.run (s : Server) : List SOp → Server
  | [] => s
  | op :: ops => Server.run (s.step op).1 ops

/-- a constructed server after its first `reopen()` -/
def Server.start (tls : Bool) : Server := Server.reopen { tls := tls }

/-- the same with a WireLog attached, open or still closed -/
def Server.startW (tls isOpen : Bool) (txed : Bool := true) (rxed : Bool := true) : Server :=
  Server.reopen { tls := tls, wlAttached := true, wlOpen := isOpen, wlTxed := txed, wlRxed := rxed }

/-- ids of all sockets the server ever obtained that are still open -/
def Server.openSocks (s : Server) : List Nat :=
  s.curListen.toList ++ s.axes.map (·.1) ++ ((s.ixes.map (·.2) ++ s.cxes.map (·.2) ++ s.gone).filter (·.csOpen)).map (·.sid)

end Hio.Tcp
