import HioModel.Gen.TcpFaults
/-!
# Tcp connection model (C09, and the per-connection layer of C10)

One nonblocking connection object of `hio.core.tcp` (`Client`, `ClientTls`, `Remoter`, `RemoterTls`) sitting on a
socket whose behaviour is a *script* of kernel responses.  What the code does with a fault raised by the socket is
looked up in the per-site outcome tables regenerated from the source (`Gen/TcpFaults.lean`).  Exceptions are values.
Import-free apart from generated data (the driver is a compiled executable).
-/
namespace Hio.Tcp

abbrev Bytes := List Nat

inductive Kind where
  | client | clientTls | remoter | remoterTls
deriving DecidableEq, Repr

inductive Outcome where
  | wouldblock | cutoff | aborted | raisedOS | raisedOther
deriving DecidableEq, Repr

/-- escaped exception, by family: `OSError` subclass (incl. every `ssl.SSLError`) or anything else -/
inductive Exn where
  | osError | other
deriving DecidableEq, Repr

def Outcome.ofCode : Nat → Outcome
  | 0 => .wouldblock | 1 => .cutoff | 2 => .aborted | 3 => .raisedOS | _ => .raisedOther

def assoc : List (Nat × Nat) → Nat → Option Nat
  | [], _ => none
  | (k, v) :: rest, x => if k = x then some v else assoc rest x

/-- outcome of fault `code` at a site; a code outside the probed domain falls into the `else: raise` branch -/
def lookup (tbl : List (Nat × Nat)) (code : Nat) : Outcome :=
  match assoc tbl code with
  | some o => Outcome.ofCode o
  | none => .raisedOS

def sendTable : Kind → List (Nat × Nat)
  | .client => Gen.Tcp.clientSend | .clientTls => Gen.Tcp.clientTlsSend
  | .remoter => Gen.Tcp.remoterSend | .remoterTls => Gen.Tcp.remoterTlsSend

def recvTable : Kind → List (Nat × Nat)
  | .client => Gen.Tcp.clientRecv | .clientTls => Gen.Tcp.clientTlsRecv
  | .remoter => Gen.Tcp.remoterRecv | .remoterTls => Gen.Tcp.remoterTlsRecv

def Kind.tls : Kind → Bool
  | .clientTls | .remoterTls => true
  | _ => false

/-- what the (fake or real) nonblocking socket raises when it has nothing to give: EAGAIN, or SSLWantReadError -/
def wbCode (k : Kind) : Nat := if k.tls then Gen.Tcp.wantRead else Gen.Tcp.eagain

/-- does the wire-log path of `send` / `receive` of this class ask the socket for the peer address? (regenerated) -/
def needsPeerSend : Kind → Bool
  | .client => Gen.Tcp.wlPeerSend.getD 0 true | .clientTls => Gen.Tcp.wlPeerSend.getD 1 true
  | .remoter => Gen.Tcp.wlPeerSend.getD 2 true | .remoterTls => Gen.Tcp.wlPeerSend.getD 3 true

def needsPeerRecv : Kind → Bool
  | .client => Gen.Tcp.wlPeerRecv.getD 0 true | .clientTls => Gen.Tcp.wlPeerRecv.getD 1 true
  | .remoter => Gen.Tcp.wlPeerRecv.getD 2 true | .remoterTls => Gen.Tcp.wlPeerRecv.getD 3 true

/-- kernel response to one `send(data)`: accepts up to `n` bytes, or raises fault `code` -/
inductive SResp where
  | acc (n : Nat) | fault (code : Nat)
deriving Repr

/-- kernel response to one `recv(bs)`: returns `d` (`[]` = orderly EOF), or raises fault `code` -/
inductive RResp where
  | data (d : Bytes) | fault (code : Nat)
deriving Repr

structure Conn where
  kind : Kind
  txbs : Bytes := []
  rxbs : Bytes := []
  cutoff : Bool := false
  connected : Bool := true
  wl : Bool := false
  /-- the attached wire log records what is sent / received (log open and that direction enabled: `txed` / `rxed`) -/
  logTx : Bool := false
  logRx : Bool := false
  wireTx : Bytes := []
  wireRx : Bytes := []
  /-- ghost: bytes the kernel accepted so far (what the peer can ever have) -/
  kacc : Bytes := []
  /-- ghost: bytes the kernel delivered so far -/
  kdel : Bytes := []
  /-- ghost: bytes the application took out of `rxbs` with `clearRxbs()` -/
  cleared : Bytes := []
  sends : List SResp := []
  recvs : List RResp := []
  /-- the peer has reset the connection: bytes already queued are still delivered, but `getpeername()` raises ENOTCONN -/
  peerGone : Bool := false
deriving Repr

/-- the wire-log call `wl.writeTx/Rx(data, who=self.cs.getpeername())` raises on a reset connection -/
def Conn.wlFailsTx (c : Conn) : Bool := c.wl && needsPeerSend c.kind && c.peerGone
def Conn.wlFailsRx (c : Conn) : Bool := c.wl && needsPeerRecv c.kind && c.peerGone

/-- `Client.serviceSends/serviceReceives` additionally test `.connected`; the remoters do not -/
def Conn.guard (c : Conn) : Bool :=
  match c.kind with
  | .client | .clientTls => c.connected
  | _ => true

def sendFault (c : Conn) (code : Nat) : Conn × Except Exn Nat :=
  match lookup (sendTable c.kind) code with
  | .wouldblock => (c, .ok 0)
  | .cutoff => ({ c with cutoff := true }, .ok 0)
  | .aborted => (c, .error .osError)
  | .raisedOS => (c, .error .osError)
  | .raisedOther => (c, .error .other)

/-- `send(self.txbs)`: returns the count, logs `data[:count]` on the wire log -/
def send (c : Conn) : Conn × Except Exn Nat :=
  match c.sends with
  | [] => sendFault c (wbCode c.kind)
  | .fault code :: rest => sendFault { c with sends := rest } code
  | .acc n :: rest =>
    let k := min n c.txbs.length
    if 0 < k ∧ c.wlFailsTx = true then
      -- the kernel took the bytes, then the wire-log call raised: `del txbs[:count]` never happens
      ({ c with sends := rest, kacc := c.kacc ++ c.txbs.take k }, .error .osError)
    else
    ({ c with sends := rest, kacc := c.kacc ++ c.txbs.take k,
              wireTx := if c.logTx then c.wireTx ++ c.txbs.take k else c.wireTx }, .ok k)

/-- `del self.txbs[:count]` after a `send` that returned, or the exception going up -/
def finishSend (r : Conn × Except Exn Nat) : Conn × Option Exn :=
  match r with
  | (c', .ok k) => ({ c' with txbs := c'.txbs.drop k }, none)
  | (c', .error e) => (c', some e)

/-- `while self.txbs and [connected and] not self.cutoff: count = send(txbs); del txbs[:count]; break` -/
def serviceSends (c : Conn) : Conn × Option Exn :=
  if c.txbs ≠ [] ∧ c.guard = true ∧ c.cutoff = false then finishSend (send c) else (c, none)

/-- result of `receive()` on a fault: `None` (blocked), `b''` + cutoff, or the exception -/
def recvFault (c : Conn) (code : Nat) : Conn × Option Exn :=
  match lookup (recvTable c.kind) code with
  | .wouldblock => (c, none)
  | .cutoff => ({ c with cutoff := true }, none)
  | .aborted => (c, some .osError)
  | .raisedOS => (c, some .osError)
  | .raisedOther => (c, some .other)

/-- `while [connected and] not cutoff: data = receive(); if not data: break; rxbs.extend(data)`
over the remaining receive script (structural recursion on the script) -/
def recvLoop (c : Conn) : List RResp → Conn × Option Exn
  | [] =>
    if c.cutoff then ({ c with recvs := [] }, none)
    else recvFault { c with recvs := [] } (wbCode c.kind)
  | r :: rest =>
    if c.cutoff then ({ c with recvs := r :: rest }, none)
    else match r with
      | .fault code => recvFault { c with recvs := rest } code
      | .data d =>
        if d = [] then ({ c with recvs := rest, cutoff := true }, none)
        else if c.wlFailsRx then
          -- the bytes were read from the kernel, then the wire-log call raised: they never reach rxbs
          ({ c with recvs := rest, kdel := c.kdel ++ d }, some .osError)
        else recvLoop { c with rxbs := c.rxbs ++ d, kdel := c.kdel ++ d,
                               wireRx := if c.logRx then c.wireRx ++ d else c.wireRx } rest

def serviceReceives (c : Conn) : Conn × Option Exn :=
  if c.guard then recvLoop c c.recvs else (c, none)

/-- `serviceReceiveOnce`: `if [connected and] not cutoff: data = receive(); if data: rxbs.extend(data)` -/
def serviceReceiveOnce (c : Conn) : Conn × Option Exn :=
  if c.guard && !c.cutoff then
    match c.recvs with
    | [] => recvFault c (wbCode c.kind)
    | .fault code :: rest => recvFault { c with recvs := rest } code
    | .data d :: rest =>
      if d = [] then ({ c with recvs := rest, cutoff := true }, none)
      else if c.wlFailsRx then ({ c with recvs := rest, kdel := c.kdel ++ d }, some .osError)
      else ({ c with recvs := rest, rxbs := c.rxbs ++ d, kdel := c.kdel ++ d,
                     wireRx := if c.logRx then c.wireRx ++ d else c.wireRx }, none)
  else (c, none)

/-- what `receive()` returns when the socket raised `code`: `b''` for a cut-off, `None` otherwise (or it raises) -/
def faultRet (k : Kind) (code : Nat) : Option Bytes :=
  match lookup (recvTable k) code with
  | .cutoff => some []
  | _ => none

/-- a direct `receive()` call by the application: no guard, the data is RETURNED (`none` = `None`, `some []` = `b''`),
not put into `rxbs` -/
def recvDirect (c : Conn) : Conn × Option Exn × Option Bytes :=
  match c.recvs with
  | [] => ((recvFault c (wbCode c.kind)).1, (recvFault c (wbCode c.kind)).2, faultRet c.kind (wbCode c.kind))
  | .fault code :: rest =>
    ((recvFault { c with recvs := rest } code).1, (recvFault { c with recvs := rest } code).2, faultRet c.kind code)
  | .data d :: rest =>
    if d = [] then ({ c with recvs := rest, cutoff := true }, none, some [])
    else if c.wlFailsRx then ({ c with recvs := rest, kdel := c.kdel ++ d }, some .osError, none)
    else ({ c with recvs := rest, kdel := c.kdel ++ d, cleared := c.cleared,
                   wireRx := if c.logRx then c.wireRx ++ d else c.wireRx }, none, some d)

/-- a direct `send(data)` call by the application with its own data: returns the count -/
def sendDirect (c : Conn) (data : Bytes) : Conn × Except Exn Nat :=
  match c.sends with
  | [] => sendFault c (wbCode c.kind)
  | .fault code :: rest => sendFault { c with sends := rest } code
  | .acc n :: rest =>
    let k := min n data.length
    if 0 < k ∧ c.wlFailsTx = true then ({ c with sends := rest, kacc := c.kacc ++ data.take k }, .error .osError)
    else ({ c with sends := rest, kacc := c.kacc ++ data.take k,
                   wireTx := if c.logTx then c.wireTx ++ data.take k else c.wireTx }, .ok k)

inductive Op where
  | tx (d : Bytes) | ss | sr | svc | rst | sro | clr
deriving Repr

/-- sequencing with exception propagation -/
def andThen (r : Conn × Option Exn) (f : Conn → Conn × Option Exn) : Conn × Option Exn :=
  match r with
  | (c, none) => f c
  | (c, some e) => (c, some e)

/-- one public call.  `svc`: `Client.service` = sends then receives; the server services a remoter receives first -/
def step (c : Conn) : Op → Conn × Option Exn
  | .tx d => ({ c with txbs := c.txbs ++ d }, none)
  | .ss => serviceSends c
  | .sr => serviceReceives c
  | .rst => ({ c with peerGone := true }, none)
  | .sro => serviceReceiveOnce c
  | .clr => ({ c with cleared := c.cleared ++ c.rxbs, rxbs := [] }, none)
  | .svc =>
    match c.kind with
    | .client | .clientTls => andThen (serviceSends c) serviceReceives
    | _ => andThen (serviceReceives c) serviceSends

/-- the connection after a history of calls (an escaped exception leaves the object as it is; the caller goes on) -/
def run (c : Conn) : List Op → Conn
  | [] => c
  | op :: ops => run (step c op).1 ops

/-- all payloads handed to `tx` in a history, concatenated -/
def payload : List Op → Bytes
  | [] => []
  | .tx d :: ops => d ++ payload ops
  | _ :: ops => payload ops

/-- a fresh connection; `wl`: a wire log is attached (and open); `txed`/`rxed`: the directions it is configured to record -/
def init (kind : Kind) (wl : Bool) (sends : List SResp) (recvs : List RResp) (txed : Bool := true) (rxed : Bool := true) : Conn :=
  { kind := kind, wl := wl, logTx := wl && txed, logRx := wl && rxed, sends := sends, recvs := recvs }

/-- the wire-log configuration of a connection object never changes by itself -/
def Conn.flags (c : Conn) : Bool × Bool × Bool := (c.wl, c.logTx, c.logRx)

end Hio.Tcp
