import HioModel.Tcp.Model
/-! the guard under which a reset connection cannot make the wire-log call of `send`/`receive` raise -/
namespace Hio.Tcp

/-- the wire-log path of this class never needs the peer address (so a reset connection cannot make it raise) -/
def PeerSafe (k : Kind) : Prop := needsPeerSend k = false ∧ needsPeerRecv k = false

/-- no wire log, or a class whose wire-log path is `PeerSafe` -/
def Safe (c : Conn) : Prop := c.wl = false ∨ PeerSafe c.kind

theorem Safe.tx {c : Conn} (h : Safe c) : c.wlFailsTx = false := by
  unfold Conn.wlFailsTx
  rcases h with h | h
  · simp [h]
  · simp [h.1]

theorem Safe.rx {c : Conn} (h : Safe c) : c.wlFailsRx = false := by
  unfold Conn.wlFailsRx
  rcases h with h | h
  · simp [h]
  · simp [h.2]

end Hio.Tcp
