import HioModel.Basic.Sexp
import HioModel.Tcp.Model
import HioModel.Tcp.Server
import HioModel.Tcp.Client
import HioModel.Tcp.Idle
open Hio Hio.Tcp Hio.Sexp

def kind? : Sexp → Option Kind
  | .atom "client" => some .client | .atom "clienttls" => some .clientTls
  | .atom "remoter" => some .remoter | .atom "remotertls" => some .remoterTls
  | _ => none

def sresp? : Sexp → Option SResp
  | .list [.atom "acc", n] => (nat? n).map .acc
  | .list [.atom "f", c] => (nat? c).map .fault
  | _ => none

def rresp? : Sexp → Option RResp
  | .list [.atom "d", b] => (bytes? b).map .data
  | .list [.atom "f", c] => (nat? c).map .fault
  | _ => none

def op? : Sexp → Option Op
  | .list [.atom "tx", b] => (bytes? b).map .tx
  | .list [.atom "ss"] => some .ss
  | .list [.atom "sr"] => some .sr
  | .list [.atom "svc"] => some .svc
  | .list [.atom "rst"] => some .rst
  | .list [.atom "sro"] => some .sro
  | .list [.atom "clr"] => some .clr
  | _ => none

/-- the calls of `Op`, plus the application calling `receive()` / `send(data)` directly -/
inductive XOp where
  | op (o : Op) | recv1 | send1 (d : Bytes)

def xop? : Sexp → Option XOp
  | .list [.atom "recv1"] => some .recv1
  | .list [.atom "send1", b] => (bytes? b).map .send1
  | x => (op? x).map .op

def exnS : Option Exn → Sexp
  | none => sym "ok" | some .osError => sym "OSError" | some .other => sym "Other"

/-- (connection after the call, escaped exception, what the call returned) -/
def xstep (c : Conn) : XOp → Conn × Option Exn × Sexp
  | .op o => ((step c o).1, (step c o).2, sym "-")
  | .recv1 => ((recvDirect c).1, (recvDirect c).2.1,
      match (recvDirect c).2.1, (recvDirect c).2.2 with
      | none, some d => ofBytes d
      | _, _ => sym "-")
  | .send1 d =>
    match sendDirect c d with
    | (c', .ok k) => (c', none, ofNat k)
    | (c', .error e) => (c', some e, sym "-")

def connSteps (c : Conn) : List XOp → List Sexp
  | [] => []
  | op :: ops =>
    let r := xstep c op
    .list [exnS r.2.1, ofNat r.1.kacc.length, ofNat r.1.txbs.length, ofNat r.1.rxbs.length, ofBool r.1.cutoff, r.2.2]
      :: connSteps r.1 ops

def xrun (c : Conn) : List XOp → Conn
  | [] => c
  | op :: ops => xrun (xstep c op).1 ops

def connReply (kind : Kind) (wl : Bool) (ops : List XOp) (sends : List SResp) (recvs : List RResp)
    (txed : Bool := true) (rxed : Bool := true) : Sexp :=
  let c0 := init kind wl sends recvs txed rxed
  let c := xrun c0 ops
  let w (b : Bytes) : Sexp := if wl then ofBytes b else sym "-"
  .list [.list (connSteps c0 ops),
         .list [ofBytes c.txbs, ofBytes c.rxbs, ofBytes c.kacc, ofBytes c.kdel, w c.wireTx, w c.wireRx, ofBool c.cutoff]]

def hresp? : Sexp → Option HResp
  | .list [.atom "ok"] => some .ok
  | .list [.atom "f", c] => (nat? c).map .fault
  | _ => none

def sop? : Sexp → Option SOp
  | .list [.atom "conn", ca, .list sends, .list recvs, .list hs] => do
    let ca ← nat? ca
    let sends ← sends.mapM sresp?
    let recvs ← recvs.mapM rresp?
    let hs ← hs.mapM hresp?
    some (.conn ⟨ca, sends, recvs, hs, false⟩)
  | .list [.atom "dconn", ca] => do some (.conn ⟨← nat? ca, [], [], [], true⟩)
  | .list [.atom "svc"] => some .svc
  | .list [.atom "tx", ca, d] => do some (.tx (← nat? ca) (← bytes? d))
  | .list [.atom "rm", ca] => do some (.rm (← nat? ca))
  | .list [.atom "close"] => some .close
  | .list [.atom "reopen"] => some .reopen
  | .list [.atom "reopenf", _, _] => some .reopenf
  | .list [.atom "afault", c] => (nat? c).map .afault
  | .list [.atom "svce"] => some .svce
  | .list [.atom "norefresh", _] => some .nop
  | .list [.atom "rxix", ca] => (nat? ca).map .rxix
  | .list [.atom "closeix", ca] => (nat? ca).map .closeix
  | .list [.atom "closeall"] => some .closeall
  | .list [.atom "wlopen"] => some .wlopen
  | _ => none

def statusS : Status → Sexp
  | .ok => sym "ok" | .skip => sym "skip" | .raised .osError => sym "OSError" | .raised .other => sym "Other"

def insertBySid (x : Nat × Sexp) : List (Nat × Sexp) → List (Nat × Sexp)
  | [] => [x]
  | y :: ys => if x.1 ≤ y.1 then x :: y :: ys else y :: insertBySid x ys

def remS (wh : String) (r : Rem) : Nat × Sexp :=
  (r.sid, .list [sym wh, ofBool r.c.cutoff, ofBool r.c.connected, ofBool r.aborted, ofBytes r.c.rxbs,
                 ofNat r.c.txbs.length, ofBytes r.c.kacc, ofBool (!r.csOpen)])

def remSW (wh : String) (r : Rem) : Nat × Sexp :=
  (r.sid, .list [sym wh, ofBool r.c.cutoff, ofBool r.c.connected, ofBool r.aborted, ofBytes r.c.rxbs,
                 ofNat r.c.txbs.length, ofBytes r.c.kacc, ofBool (!r.csOpen), ofBytes r.c.wireTx, ofBytes r.c.wireRx])

def snapshotW (s : Server) : Sexp :=
  let ls := s.curListen.toList.map (fun i => (i, Sexp.list [sym "listen", ofBool false])) ++
            s.deadListens.map (fun i => (i, Sexp.list [sym "listen", ofBool true]))
  let rs := s.ixes.map (fun kv => remSW "ix" kv.2) ++ s.cxes.map (fun kv => remSW "cx" kv.2) ++ s.gone.map (remSW "gone") ++
            s.axes.map (fun sp => remSW "gone" (stub s.tls sp.1 sp.2 true))
  .list (((ls ++ rs).foldr insertBySid []).map (·.2))

def serverStepsW (s : Server) : List SOp → List Sexp
  | [] => []
  | op :: ops =>
    let r := s.step op
    .list [statusS r.2, snapshotW r.1] :: serverStepsW r.1 ops

def snapshot (s : Server) : Sexp :=
  let ls := s.curListen.toList.map (fun i => (i, Sexp.list [sym "listen", ofBool false])) ++
            s.deadListens.map (fun i => (i, Sexp.list [sym "listen", ofBool true]))
  let rs := s.ixes.map (fun kv => remS "ix" kv.2) ++ s.cxes.map (fun kv => remS "cx" kv.2) ++ s.gone.map (remS "gone") ++
            s.axes.map (fun sp => remS "gone" (stub s.tls sp.1 sp.2 true))
  .list (((ls ++ rs).foldr insertBySid []).map (·.2))

def serverSteps (s : Server) : List SOp → List Sexp
  | [] => []
  | op :: ops =>
    let r := s.step op
    .list [statusS r.2, snapshot r.1] :: serverSteps r.1 ops

def outcomeS : Outcome → Sexp
  | .wouldblock => sym "wouldblock" | .cutoff => sym "cutoff" | .aborted => sym "aborted"
  | .raisedOS => sym "raisedOS" | .raisedOther => sym "raisedOther"

def siteOutcome (site : String) (code : Nat) : Option Outcome :=
  match site with
  | "client_send" => some (lookup (sendTable .client) code)
  | "client_recv" => some (lookup (recvTable .client) code)
  | "clienttls_send" => some (lookup (sendTable .clientTls) code)
  | "clienttls_recv" => some (lookup (recvTable .clientTls) code)
  | "remoter_send" => some (lookup (sendTable .remoter) code)
  | "remoter_recv" => some (lookup (recvTable .remoter) code)
  | "remotertls_send" => some (lookup (sendTable .remoterTls) code)
  | "remotertls_recv" => some (lookup (recvTable .remoterTls) code)
  | "clienttls_hs" => some (clientHsLookup code)
  | "remotertls_hs" => some (hsLookup code)
  | _ => none

def cop? : Sexp → Option COp
  | .list [.atom "reopen"] => some .reopen
  | .list [.atom "close"] => some .close
  | .list [.atom "tick", d] => (nat? d).map .tick
  | .list [.atom "wind", t] => (nat? t).map COp.wind
  | .list [.atom "connect", rc] => do some (.connect (← nat? rc) none)
  | .list [.atom "connect", rc, .atom "-"] => do some (.connect (← nat? rc) none)
  | .list [.atom "connect", rc, h] => do some (.connect (← nat? rc) (some (← hresp? h)))
  | .list [.atom "service", rc, .atom "-"] => do some (.service (← nat? rc) none)
  | .list [.atom "service", rc, h] => do some (.service (← nat? rc) (some (← hresp? h)))
  | .list [.atom "feed", .list sends, .list recvs] => do some (.feed (← sends.mapM sresp?) (← recvs.mapM rresp?))
  | .list [.atom "tx", d] => (bytes? d).map .tx
  | _ => none

def cliSteps (c : Cli) : List COp → List Sexp
  | [] => []
  | op :: ops =>
    let r := c.step op
    .list [exnS r.2, .list (r.1.openIds.map ofNat), ofOpt ofNat r.1.cs, ofBool r.1.connected, ofBool r.1.io.cutoff,
           ofNat r.1.io.rxbs.length, ofNat r.1.io.txbs.length, ofBytes r.1.io.kacc, ofBytes r.1.io.txbs] :: cliSteps r.1 ops

def sev? : Sexp → Option Idle.SEv
  | .list [.atom "conn", ca] => (nat? ca).map .conn
  | .list [.atom "tick", d] => (nat? d).map .tick
  | .list [.atom "data", ca, _] => (nat? ca).map .data
  | .list [.atom "req", ca] => (nat? ca).map .req
  | .list [.atom "req10", ca] => (nat? ca).map .req10
  | .list [.atom "reqx", ca] => (nat? ca).map .reqx
  | .list [.atom "reqh", ca, f, c] => do some (.reqh (← nat? ca) (← bool? f) (← bool? c))
  | .list [.atom "cap", ca, k] => do some (.cap (← nat? ca) (← nat? k))
  | .list [.atom "wind", t] => (nat? t).map .wind
  | .list [.atom "settmo", t] => (nat? t).map .settmo
  | .list [.atom "svc"] => some .svc
  | _ => none

def idleSnap (order : List Nat) (s : Idle.Srv) : Sexp :=
  .list (order.map fun ca =>
    match s.conns.find? (fun kc => kc.1 == ca) with
    | none => .list [sym "pending", ofNat 0]
    | some kc => if kc.2.isOpen then .list [sym "open", ofNat kc.2.txlen] else .list [sym "closed", ofNat 0])

def idleSteps (order : List Nat) (s : Idle.Srv) : List Idle.SEv → List Sexp
  | [] => []
  | e :: es =>
    let s' := s.step e
    let order' := match e with | .conn ca => order ++ [ca] | _ => order
    .list [sym "ok", idleSnap order' s'] :: idleSteps order' s' es

def handle : Sexp → Sexp
  | .list [.atom "connf", k, wl, txed, rxed, .list ops, .list sends, .list recvs] =>
    match kind? k, bool? wl, bool? txed, bool? rxed, ops.mapM xop?, sends.mapM sresp?, recvs.mapM rresp? with
    | some k, some wl, some t, some r, some ops, some sends, some recvs => connReply k wl ops sends recvs t r
    | _, _, _, _, _, _, _ => sym "bad-request"
  | .list [.atom "conn", k, wl, .list ops, .list sends, .list recvs] =>
    match kind? k, bool? wl, ops.mapM xop?, sends.mapM sresp?, recvs.mapM rresp? with
    | some k, some wl, some ops, some sends, some recvs => connReply k wl ops sends recvs
    | _, _, _, _, _ => sym "bad-request"
  | .list [.atom "noop"] => sym "noop"
  | .list [.atom "cli", tls, recon, tmo, .list ops] =>
    match bool? tls, bool? recon, nat? tmo, ops.mapM cop? with
    | some tls, some recon, some tmo, some ops => .list (cliSteps (Cli.make tls recon tmo) ops)
    | _, _, _, _ => sym "bad-request"
  | .list [.atom "idle", _, t, resp, .list ops] =>
    match nat? t, nat? resp, ops.mapM sev? with
    | some t, some resp, some ops => .list (idleSteps [] { tymeout := t, resp := resp } ops)
    | _, _, _ => sym "bad-request"
  | .list [.atom "site", .atom "client_connect", code] =>
    match nat? code with
    | some c => .list [sym "outcome", sym (match connectLookup c with
        | .connected => "connected" | .retry => "retry" | .reopen => "reopen"
        | .raisedOS => "raisedOS" | .raisedOther => "raisedOther")]
    | none => sym "bad-request"
  | .list [.atom "site", .atom site, code] =>
    match (nat? code).bind (siteOutcome site) with
    | some o => .list [sym "outcome", outcomeS o]
    | none => sym "bad-request"
  | .list [.atom "serverw", tls, isOpen, txed, rxed, .list ops] =>
    match bool? tls, bool? isOpen, bool? txed, bool? rxed, ops.mapM sop? with
    | some tls, some o, some t, some r, some ops => .list [sym "ok", .list (serverStepsW (Server.startW tls o t r) ops)]
    | _, _, _, _, _ => sym "bad-request"
  | .list [.atom "server", tls, .list ops] =>
    match bool? tls, ops.mapM sop? with
    | some tls, some ops => .list [sym "ok", .list (serverSteps (Server.start tls) ops)]
    | _, _ => sym "bad-request"
  | _ => sym "bad-request"

def main : IO Unit := serve handle
