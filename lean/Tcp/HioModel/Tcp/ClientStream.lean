import HioModel.Tcp.Client
import HioModel.Tcp.Lemmas
/-! the C09 stream invariant carried through the whole life of a client object (connect attempts, aborted handshakes,
reconnect timer, reopen, close): `.txbs` belongs to the client, not to the socket -/
namespace Hio.Tcp

/-- everything handed to `tx` in a client history, concatenated -/
def cpayload : List COp → Bytes
  | [] => []
  | .tx d :: ops => d ++ cpayload ops
  | _ :: ops => cpayload ops

theorem cpayload_cons (op : COp) (ops : List COp) : cpayload (op :: ops) = cpayload [op] ++ cpayload ops := by
  cases op <;> simp [cpayload]

abbrev CInv (c : Cli) (p : Bytes) : Prop := Inv c.io p

theorem Cli.close_io {c : Cli} {p : Bytes} (h : CInv c p) : CInv c.close p := by
  unfold Cli.close; split <;> exact h

theorem Cli.open_io {c : Cli} {p : Bytes} (h : CInv c p) : CInv c.open p :=
  ⟨h.safe, h.tx, h.rx, h.wtx, h.wrx⟩

theorem Cli.reopen_io {c : Cli} {p : Bytes} (h : CInv c p) : CInv c.reopen p := Cli.open_io (Cli.close_io h)

theorem Cli.accept_io {c : Cli} {p : Bytes} (rc : Nat) (h : CInv c p) : CInv (c.accept rc) p := by
  unfold Cli.accept
  have h1 : CInv (if c.cs.isNone then c.reopen else c) p := by
    split
    · exact Cli.reopen_io h
    · exact h
  generalize (if c.cs.isNone then c.reopen else c) = c1 at h1
  simp only
  split
  · exact ⟨h1.safe, h1.tx, h1.rx, h1.wtx, h1.wrx⟩
  · exact Cli.reopen_io h1
  · exact h1

theorem Cli.hsFault_io {c : Cli} {p : Bytes} (code : Nat) (h : CInv c p) : CInv (c.hsFault code).1 p := by
  unfold Cli.hsFault
  split
  · exact h
  all_goals exact Cli.close_io h

theorem Cli.handshake_io {c : Cli} {p : Bytes} (h : CInv c p) : CInv (c.handshake).1 p := by
  unfold Cli.handshake
  split
  · exact Cli.hsFault_io _ h
  · exact h
  · exact Cli.hsFault_io (c := { c with hsq := _ }) _ h

theorem Cli.connect_io {c : Cli} {p : Bytes} (rc : Nat) (h : CInv c p) : CInv (c.connect rc).1 p := by
  unfold Cli.connect
  split
  · exact Cli.accept_io rc h
  · have h1 : CInv (if c.accepted then c else c.accept rc) p := by
      split
      · exact h
      · exact Cli.accept_io rc h
    generalize (if c.accepted then c else c.accept rc) = c1 at h1
    simp only
    split
    · exact h1
    · split
      · exact Cli.handshake_io h1
      · exact h1

theorem Cli.serviceConnect_io {c : Cli} {p : Bytes} (rc : Nat) (h : CInv c p) : CInv (c.serviceConnect rc).1 p := by
  unfold Cli.serviceConnect
  split
  · exact h
  · have h1 := Cli.connect_io rc h
    generalize c.connect rc = r at h1
    obtain ⟨c1, e⟩ := r
    cases e with
    | some e => exact h1
    | none =>
      simp only
      split
      · exact Cli.reopen_io h1
      · exact h1

theorem Cli.serviceIO_io {c : Cli} {p : Bytes} (h : CInv c p) : CInv (c.serviceIO).1 p := by
  unfold Cli.serviceIO
  have h0 : Inv { c.io with connected := c.connected } p := ⟨h.safe, h.tx, h.rx, h.wtx, h.wrx⟩
  have h1 := serviceSends_inv h0
  simp only
  split
  · exact h1
  · exact serviceReceives_inv h1

theorem Cli.service_io {c : Cli} {p : Bytes} (rc : Nat) (h : CInv c p) : CInv (c.service rc).1 p := by
  unfold Cli.service
  have h1 := Cli.serviceConnect_io rc h
  generalize c.serviceConnect rc = r at h1
  obtain ⟨c1, e⟩ := r
  cases e with
  | some e => exact h1
  | none => exact Cli.serviceIO_io h1

theorem Cli.step_io {c : Cli} {p : Bytes} (op : COp) (h : CInv c p) : CInv (c.step op).1 (p ++ cpayload [op]) := by
  cases op with
  | reopen => simpa [cpayload, Cli.step] using Cli.reopen_io h
  | close => simpa [cpayload, Cli.step] using Cli.close_io h
  | tick d =>
    simp only [Cli.step, cpayload, List.append_nil]
    exact ⟨h.safe, h.tx, h.rx, h.wtx, h.wrx⟩
  | wind t =>
    simp only [Cli.step, cpayload, List.append_nil]
    exact ⟨h.safe, h.tx, h.rx, h.wtx, h.wrx⟩
  | feed sends recvs =>
    simp only [Cli.step, cpayload, List.append_nil]
    split
    · exact ⟨h.safe, h.tx, h.rx, h.wtx, h.wrx⟩
    · exact h
  | tx d =>
    refine ⟨h.safe, ?_, h.rx, h.wtx, h.wrx⟩
    simp [Cli.step, cpayload, ← h.tx]
  | connect rc hs =>
    simp only [Cli.step, cpayload, List.append_nil]
    apply Cli.serviceConnect_io
    split
    · exact h
    · exact h
  | service rc hs =>
    simp only [Cli.step, cpayload, List.append_nil]
    apply Cli.service_io
    split
    · exact h
    · exact h

theorem Cli.run_io (ops : List COp) : ∀ {c : Cli} {p : Bytes}, CInv c p → CInv (c.run ops) (p ++ cpayload ops) := by
  induction ops with
  | nil => intro c p h; simpa [Cli.run, cpayload] using h
  | cons op ops ih =>
    intro c p h
    rw [Cli.run, cpayload_cons, ← List.append_assoc]
    exact ih (Cli.step_io op h)

theorem Cli.make_io (tls recon : Bool) (tmo : Nat) : CInv (Cli.make tls recon tmo) [] :=
  ⟨Or.inl rfl, rfl, rfl, rfl, rfl⟩

end Hio.Tcp
