import HioModel.Tcp.Server
/-!
# Tcp client socket lifecycle (C11, client part): `Client` / `ClientTls` open / reopen / close / serviceConnect

`openIds` is the set of sockets the client has created and not closed; `cs` is the one it still refers to.
-/
namespace Hio.Tcp

structure Cli where
  tls : Bool
  cs : Option Nat := none
  openIds : List Nat := []
  nextSid : Nat := 0
  accepted : Bool := false
  connected : Bool := false
  /-- handshake responses queued on the current socket -/
  hsq : List HResp := []
  /-- auto reconnect: `.reconnectable`, `.tymeout` (0 = never), virtual tyme and the retry tymer (`_start`, `_stop`) -/
  reconnectable : Bool := false
  tymeout : Nat := 0
  now : Nat := 0
  tstart : Nat := 0
  tstop : Nat := 0
  /-- the byte-stream side of the client (the C09 connection model): `.txbs`, `.rxbs`, `.cutoff` belong to the client
  object and survive a reopen; the kernel-response scripts belong to the current socket -/
  io : Conn := { kind := .client }
deriving Repr

/-- a client constructed at tyme 0: its retry tymer runs from 0 for `tymeout` -/
def Cli.make (tls reconnectable : Bool) (tymeout : Nat) : Cli :=
  { tls := tls, reconnectable := reconnectable, tymeout := tymeout, tstop := tymeout,
    io := { kind := if tls then .clientTls else .client } }

/-- `close`: `if self.cs: shutdown; cs.close(); cs = None; accepted = connected = opened = False` -/
def Cli.close (c : Cli) : Cli :=
  match c.cs with
  | none => c
  | some i => { c with cs := none, openIds := c.openIds.filter (· ≠ i), accepted := false, connected := false }

/-- `open`: a fresh socket -/
def Cli.open (c : Cli) : Cli :=
  { c with cs := some c.nextSid, openIds := c.openIds ++ [c.nextSid], nextSid := c.nextSid + 1,
           accepted := false, connected := false, hsq := [],
           io := { c.io with cutoff := false, sends := [], recvs := [], peerGone := false } }

def Cli.reopen (c : Cli) : Cli := c.close.open

/-- what `Client.accept()` does with a result of `connect_ex` (regenerated table, probed over every errno) -/
inductive COutcome where
  | connected | retry | reopen | raisedOS | raisedOther
deriving DecidableEq, Repr

def connectLookup (rc : Nat) : COutcome :=
  if rc = 0 then .connected
  else match assoc Gen.Tcp.clientConnect rc with
    | some 0 => .connected
    | some 1 => .retry
    | some 2 => .reopen
    | some 3 => .raisedOS
    | some _ => .raisedOther
    | none => .retry

/-- `accept`: `connect_ex` returned `rc` (the state part; what escapes is `acceptExn`) -/
def Cli.accept (c : Cli) (rc : Nat) : Cli :=
  let c := if c.cs.isNone then c.reopen else c
  match connectLookup rc with
  | .connected =>
    { c with accepted := true, connected := if c.tls then c.connected else true, io := { c.io with cutoff := false } }
  | .reopen => c.reopen
  | _ => c

def Cli.acceptExn (rc : Nat) : Option Exn :=
  match connectLookup rc with
  | .raisedOS => some .osError
  | .raisedOther => some .other
  | _ => none

def Cli.hsFault (c : Cli) (code : Nat) : Cli × Option Exn :=
  match clientHsLookup code with
  | .wouldblock => (c, none)
  | .aborted => (c.close, none)
  | .cutoff => (c.close, none)
  | .raisedOS => (c.close, some .osError)
  | .raisedOther => (c.close, some .other)

def Cli.handshake (c : Cli) : Cli × Option Exn :=
  match c.hsq with
  | [] => c.hsFault Gen.Tcp.wantRead
  | .ok :: rest => ({ c with hsq := rest, connected := true }, none)
  | .fault code :: rest => Cli.hsFault { c with hsq := rest } code

/-- `connect()`: plain = `accept()`; TLS = accept, wrap, handshake -/
def Cli.connect (c : Cli) (rc : Nat) : Cli × Option Exn :=
  if !c.tls then (c.accept rc, Cli.acceptExn rc)
  else
    let c1 := if c.accepted then c else c.accept rc
    match (if c.accepted then none else Cli.acceptExn rc) with
    | some e => (c1, some e)
    | none => if c1.accepted ∧ !c1.connected then c1.handshake else (c1, none)

/-- the retry tymer has run out: `self.tymeout > 0.0 and self.tymer.expired` -/
def Cli.timedOut (c : Cli) : Bool := decide (0 < c.tymeout) && decide (c.tstop ≤ c.now)

/-- `reopen(); tymer.restart()` (restart = same duration from the old stop) -/
def Cli.retry (c : Cli) : Cli :=
  { c.reopen with tstart := c.tstop, tstop := c.tstop + (c.tstop - c.tstart) }

/-- `serviceConnect`: `if not connected: connect(); if not connected and reconnectable and timed out: reopen, restart tymer` -/
def Cli.serviceConnect (c : Cli) (rc : Nat) : Cli × Option Exn :=
  if c.connected then (c, none)
  else match c.connect rc with
    | (c1, some e) => (c1, some e)
    | (c1, none) =>
      if !c1.connected && c1.reconnectable && c1.timedOut then (c1.retry, none) else (c1, none)

/-- `serviceSends(); serviceReceives()` on the current socket (both guarded by `.connected and not .cutoff`) -/
def Cli.serviceIO (c : Cli) : Cli × Option Exn :=
  let r1 := Tcp.serviceSends { c.io with connected := c.connected }
  match r1.2 with
  | some e => ({ c with io := r1.1 }, some e)
  | none =>
    let r2 := Tcp.serviceReceives r1.1
    ({ c with io := r2.1 }, r2.2)

/-- `Client.service()`: `serviceConnect(); serviceSends(); serviceReceives()` -/
def Cli.service (c : Cli) (rc : Nat) : Cli × Option Exn :=
  match c.serviceConnect rc with
  | (c1, some e) => (c1, some e)
  | (c1, none) => c1.serviceIO

inductive COp where
  | reopen | close | connect (rc : Nat) (hs : Option HResp) | tick (d : Nat)
  /-- `client.wind(tymth)` onto a tymist whose tyme is `t`: the retry tymer restarts there with the same duration -/
  | wind (t : Nat)
  /-- the kernel will answer the current socket's next sends / recvs like this -/
  | feed (sends : List SResp) (recvs : List RResp)
  | tx (d : Bytes)
  /-- a full `service()` pass: connect attempt (as `connect`), then sends, then receives -/
  | service (rc : Nat) (hs : Option HResp)
deriving Repr

def Cli.step (c : Cli) : COp → Cli × Option Exn
  | .reopen => (c.reopen, none)
  | .close => (c.close, none)
  | .tick d => ({ c with now := c.now + d }, none)
  | .wind t => ({ c with now := t, tstart := t, tstop := t + (c.tstop - c.tstart) }, none)
  | .feed sends recvs =>
    (match c.cs with
     | some _ => { c with io := { c.io with sends := c.io.sends ++ sends, recvs := c.io.recvs ++ recvs } }
     | none => c, none)
  | .tx d => ({ c with io := { c.io with txbs := c.io.txbs ++ d } }, none)
  | .connect rc hs =>
    let c := match hs, c.cs with
      | some h, some _ => { c with hsq := c.hsq ++ [h] }
      | _, _ => c
    c.serviceConnect rc
  | .service rc hs =>
    let c := match hs, c.cs with
      | some h, some _ => { c with hsq := c.hsq ++ [h] }
      | _, _ => c
    c.service rc

def Cli.run (c : Cli) : List COp → Cli
  | [] => c
  | op :: ops => Cli.run (c.step op).1 ops

end Hio.Tcp
