import HioModel.Tcp.Server
import HioModel.Tcp.Safe
/-! helper lemmas for C10: no socket fault escapes `Server.service`; connections are serviced independently -/
namespace Hio.Tcp

theorem assoc_mem {tbl : List (Nat × Nat)} {x v : Nat} (h : assoc tbl x = some v) : (x, v) ∈ tbl := by
  induction tbl with
  | nil => simp [assoc] at h
  | cons kv rest ih =>
    obtain ⟨k, w⟩ := kv
    unfold assoc at h
    split at h
    · rename_i hk; cases h; simp [hk]
    · simp [ih h]

theorem ofCode_le3 {o : Nat} (h : o ≤ 3) : Outcome.ofCode o ≠ .raisedOther := by
  match o, h with
  | 0, _ => simp [Outcome.ofCode]
  | 1, _ => simp [Outcome.ofCode]
  | 2, _ => simp [Outcome.ofCode]
  | 3, _ => simp [Outcome.ofCode]

/-- a table whose outcomes are all ≤ 3 never yields "raised a non-OSError" (unknown codes fall to `raise` of an OSError) -/
theorem lookup_no_other {tbl : List (Nat × Nat)} (h : ∀ p ∈ tbl, p.2 ≤ 3) (code : Nat) :
    lookup tbl code ≠ .raisedOther := by
  unfold lookup
  cases ha : assoc tbl code with
  | none => simp
  | some o => exact ofCode_le3 (h _ (assoc_mem ha))

def IsRem (k : Kind) : Prop := k = .remoter ∨ k = .remoterTls

/-- the four remoter tables contain no "raised other" outcome (re-checked against the regenerated tables) -/
theorem remoter_tables_le3 : ∀ tbl ∈ [Gen.Tcp.remoterSend, Gen.Tcp.remoterRecv, Gen.Tcp.remoterTlsSend, Gen.Tcp.remoterTlsRecv],
    ∀ p ∈ tbl, p.2 ≤ 3 := by decide +kernel

theorem rem_send_no_other {k : Kind} (hk : IsRem k) (code : Nat) : lookup (sendTable k) code ≠ .raisedOther := by
  rcases hk with rfl | rfl
  · exact lookup_no_other (remoter_tables_le3 _ (by simp [sendTable])) code
  · exact lookup_no_other (remoter_tables_le3 _ (by simp [sendTable])) code

theorem rem_recv_no_other {k : Kind} (hk : IsRem k) (code : Nat) : lookup (recvTable k) code ≠ .raisedOther := by
  rcases hk with rfl | rfl
  · exact lookup_no_other (remoter_tables_le3 _ (by simp [recvTable])) code
  · exact lookup_no_other (remoter_tables_le3 _ (by simp [recvTable])) code

/-! ### connection level: kind is never changed; a remoter's calls never raise a non-OSError -/

theorem sendFault_spec (c : Conn) (code : Nat) (h : lookup (sendTable c.kind) code ≠ .raisedOther) :
    (finishSend (sendFault c code)).2 ≠ some .other ∧ (finishSend (sendFault c code)).1.kind = c.kind := by
  unfold sendFault
  split <;> simp_all [finishSend]

theorem serviceSends_spec (c : Conn) (hk : IsRem c.kind) :
    (serviceSends c).2 ≠ some .other ∧ (serviceSends c).1.kind = c.kind := by
  unfold serviceSends
  split
  · unfold send
    split
    · exact sendFault_spec c _ (rem_send_no_other hk _)
    · exact sendFault_spec { c with sends := _ } _ (rem_send_no_other hk _)
    · rename_i n rest _
      by_cases hcnd : 0 < min n c.txbs.length ∧ c.wlFailsTx = true <;> simp [hcnd, finishSend]
  · simp

theorem recvFault_spec (c : Conn) (code : Nat) (h : lookup (recvTable c.kind) code ≠ .raisedOther) :
    (recvFault c code).2 ≠ some .other ∧ (recvFault c code).1.kind = c.kind := by
  unfold recvFault
  split <;> simp_all

theorem recvLoop_spec (script : List RResp) : ∀ (c : Conn), IsRem c.kind →
    (recvLoop c script).2 ≠ some .other ∧ (recvLoop c script).1.kind = c.kind := by
  induction script with
  | nil =>
    intro c hk
    unfold recvLoop
    split
    · simp
    · exact recvFault_spec { c with recvs := [] } _ (rem_recv_no_other hk _)
  | cons r rest ih =>
    intro c hk
    unfold recvLoop
    split
    · simp
    · split
      · exact recvFault_spec { c with recvs := rest } _ (rem_recv_no_other hk _)
      · split
        · simp
        · split
          · simp
          · exact ih _ hk

theorem serviceReceives_spec (c : Conn) (hk : IsRem c.kind) :
    (serviceReceives c).2 ≠ some .other ∧ (serviceReceives c).1.kind = c.kind := by
  unfold serviceReceives
  split
  · exact recvLoop_spec _ c hk
  · simp

/-! ### remoter level -/

/-- a remoter the server can service: its socket is open -/
def GoodRem (r : Rem) : Prop := r.csOpen = true ∧ IsRem r.c.kind

theorem Rem.serviceReceives_spec (r : Rem) (h : GoodRem r) :
    (r.serviceReceives).2 ≠ some .other ∧ GoodRem (r.serviceReceives).1 := by
  unfold Rem.serviceReceives
  split
  · exact ⟨by simp, h⟩
  · split
    · rename_i hc; rw [h.1] at hc; cases hc
    · exact ⟨(Tcp.serviceReceives_spec r.c h.2).1, h.1, by
        show IsRem (Tcp.serviceReceives r.c).1.kind
        rw [(Tcp.serviceReceives_spec r.c h.2).2]; exact h.2⟩

theorem Rem.serviceSends_spec (r : Rem) (h : GoodRem r) :
    (r.serviceSends).2 ≠ some .other ∧ GoodRem (r.serviceSends).1 := by
  unfold Rem.serviceSends
  split
  · exact ⟨by simp, h⟩
  · split
    · rename_i hc; rw [h.1] at hc; cases hc
    · exact ⟨(Tcp.serviceSends_spec r.c h.2).1, h.1, by
        show IsRem (Tcp.serviceSends r.c).1.kind
        rw [(Tcp.serviceSends_spec r.c h.2).2]; exact h.2⟩

/-! ### the per-connection loops -/

/-- what a loop does with one entry when it catches OSError: keep the serviced remoter, or drop it -/
def keep (f : Rem → Rem × Option Exn) (p : Nat × Rem) : Option (Nat × Rem) :=
  match f p.2 with
  | (r', none) => some (p.1, r')
  | (_, some _) => none

theorem ixLoop_total (f : Rem → Rem × Option Exn) (P : Rem → Prop)
    (hf : ∀ r, P r → (f r).2 ≠ some .other ∧ P (f r).1) :
    ∀ t : Table, (∀ p ∈ t, P p.2) →
      (ixLoop f true t).exn = none ∧ (∀ p ∈ (ixLoop f true t).ixes, P p.2) ∧
      (ixLoop f true t).ixes = t.filterMap (keep f) := by
  intro t
  induction t with
  | nil => intro _; simp [ixLoop]
  | cons kv rest ih =>
    obtain ⟨ca, r⟩ := kv
    intro h
    have hr := hf r (h (ca, r) (by simp))
    have hrest := ih (fun p hp => h p (by simp [hp]))
    unfold ixLoop
    simp only [List.filterMap_cons, keep]
    generalize f r = res at hr
    obtain ⟨r', e⟩ := res
    cases e with
    | none =>
      simp only
      refine ⟨hrest.1, ?_, by rw [hrest.2.2]⟩
      intro p hp
      simp only [List.mem_cons] at hp
      rcases hp with rfl | hp
      · exact hr.2
      · exact hrest.2.1 p hp
    | some e =>
      cases e with
      | osError => simp only [catches, ↓reduceIte]; exact ⟨hrest.1, hrest.2.1, hrest.2.2⟩
      | other => exact absurd rfl hr.1

/-! ### handshakes -/

theorem hs_table_benign : ∀ p ∈ Gen.Tcp.remoterTlsHs, p.2 = 0 ∨ p.2 = 2 := by decide +kernel

theorem hsLookup_benign (code : Nat) : hsLookup code = .wouldblock ∨ hsLookup code = .aborted := by
  unfold hsLookup
  cases ha : assoc Gen.Tcp.remoterTlsHs code with
  | none => simp
  | some o =>
    rcases hs_table_benign _ (assoc_mem ha) with h | h <;> simp at h <;> subst h <;> simp [Outcome.ofCode]

theorem Rem.close_kind (r : Rem) : r.close.c.kind = r.c.kind := by
  unfold Rem.close; split <;> rfl

theorem Rem.close_connected_tls (r : Rem) (h : r.c.kind = .remoterTls) (ho : r.csOpen = true) :
    r.close.c.connected = false := by
  unfold Rem.close; simp [ho, h, Kind.tls]

/-- a pending TLS remoter: socket open, TLS kind -/
def GoodCx (r : Rem) : Prop := r.csOpen = true ∧ r.c.kind = .remoterTls

theorem hsFault_spec' (r : Rem) (code : Nat) (h : GoodCx r) :
    (hsFault r code).2 = none ∧
    (((hsFault r code).1.c.connected = false ∧ (hsFault r code).1.aborted = true) ∨
     (hsFault r code).1 = r) := by
  unfold hsFault
  rcases hsLookup_benign code with hl | hl <;> rw [hl] <;> simp [Rem.close_connected_tls r h.2 h.1]

theorem handshake_total (r : Rem) (h : GoodCx r) :
    (r.handshake).2 = none ∧
    ((r.handshake).1.c.connected = true → GoodCx (r.handshake).1) ∧
    ((r.handshake).1.c.connected = false → (r.handshake).1.aborted = false → GoodCx (r.handshake).1) := by
  unfold Rem.handshake
  split
  · rename_i hc; rw [h.1] at hc; cases hc
  · split
    · have := hsFault_spec' r Gen.Tcp.wantRead h
      refine ⟨this.1, ?_, ?_⟩
      · intro hc; rcases this.2 with ⟨h1, _⟩ | h1
        · rw [h1] at hc; cases hc
        · rw [h1]; exact h
      · intro _ ha; rcases this.2 with ⟨_, h2⟩ | h1
        · rw [h2] at ha; cases ha
        · rw [h1]; exact h
    · exact ⟨rfl, fun _ => ⟨h.1, h.2⟩, fun hc => by simp at hc⟩
    · rename_i code rest _
      have hg : GoodCx { r with hs := rest } := ⟨h.1, h.2⟩
      have := hsFault_spec' { r with hs := rest } code hg
      refine ⟨this.1, ?_, ?_⟩
      · intro hc; rcases this.2 with ⟨h1, _⟩ | h1
        · rw [h1] at hc; cases hc
        · rw [h1]; exact hg
      · intro _ ha; rcases this.2 with ⟨_, h2⟩ | h1
        · rw [h2] at ha; cases ha
        · rw [h1]; exact hg

theorem GoodCx.good {r : Rem} (h : GoodCx r) : GoodRem r := ⟨h.1, Or.inr h.2⟩

theorem dictSet_all {t : Table} {ca : Nat} {r : Rem} {P : Rem → Prop} (ht : ∀ p ∈ t, P p.2) (hr : P r) :
    ∀ p ∈ (dictSet t ca r).1, P p.2 := by
  induction t with
  | nil => intro p hp; simp [dictSet] at hp; rw [hp]; exact hr
  | cons kv rest ih =>
    obtain ⟨k, v⟩ := kv
    intro p hp
    unfold dictSet at hp
    split at hp
    · simp only [List.mem_cons] at hp
      rcases hp with rfl | hp
      · exact hr
      · exact ht p (by simp [hp])
    · simp only [List.mem_cons] at hp
      rcases hp with rfl | hp
      · exact ht (k, v) (by simp)
      · exact ih (fun p hp => ht p (by simp [hp])) p hp

theorem cxLoop_total (cx : Table) : ∀ (ix : Table) (g : List Rem), (∀ p ∈ cx, GoodCx p.2) → (∀ p ∈ ix, GoodRem p.2) →
    (cxLoop cx ix g).exn = none ∧ (∀ p ∈ (cxLoop cx ix g).cxes, GoodCx p.2) ∧
      (∀ p ∈ (cxLoop cx ix g).ixes, GoodRem p.2) := by
  induction cx with
  | nil => intro ix g _ hi; exact ⟨rfl, by simp [cxLoop], hi⟩
  | cons kv rest ih =>
    obtain ⟨ca, r⟩ := kv
    intro ix g hc hi
    have hs := handshake_total r (hc (ca, r) (by simp))
    have hrest : ∀ p ∈ rest, GoodCx p.2 := fun p hp => hc p (by simp [hp])
    unfold cxLoop
    generalize r.handshake = res at hs
    obtain ⟨r', e⟩ := res
    simp only at hs
    rw [hs.1]
    simp only
    split
    · rename_i hcon
      exact ih _ _ hrest (dictSet_all hi (hs.2.1 hcon).good)
    · rename_i hcon
      split
      · exact ih _ _ hrest hi
      · rename_i hab
        have := ih ix g hrest hi
        refine ⟨this.1, ?_, this.2.2⟩
        intro p hp
        simp only [List.mem_cons] at hp
        rcases hp with rfl | hp
        · exact hs.2.2 (by simpa using hcon) (by simpa using hab)
        · exact this.2.1 p hp

/-! ### the server -/

/-- a server that can be serviced: listening, and every remoter it references has its socket open -/
structure GoodSrv (s : Server) : Prop where
  listening : s.curListen.isSome = true
  ix : ∀ p ∈ s.ixes, GoodRem p.2
  cx : ∀ p ∈ s.cxes, GoodCx p.2
  plain : s.tls = false → s.cxes = []

theorem newRem_good (sid : Nat) (p : Pending) (wl t r : Bool) : GoodCx (newRem true sid p wl t r) ∧ GoodRem (newRem false sid p wl t r) :=
  ⟨⟨rfl, rfl⟩, ⟨rfl, Or.inl rfl⟩⟩

theorem acceptAll_good (ps : List (Nat × Pending)) : ∀ {s : Server}, GoodSrv s → GoodSrv (acceptAll s ps) := by
  induction ps with
  | nil => intro s h; exact ⟨h.listening, h.ix, h.cx, h.plain⟩
  | cons sp ps ih =>
    obtain ⟨sid, p⟩ := sp
    intro s h
    unfold acceptAll
    simp only
    split
    · exact ih ⟨h.listening, h.ix, h.cx, h.plain⟩
    · split
      · rename_i ht
        refine ih ⟨h.listening, h.ix, ?_, fun hf => by simp [ht] at hf⟩
        rw [ht]
        exact dictSet_all h.cx (newRem_good _ _ _ _ _).1
      · rename_i ht
        have ht' : s.tls = false := by simpa using ht
        refine ih ⟨h.listening, ?_, h.cx, h.plain⟩
        rw [ht']
        exact dictSet_all h.ix (newRem_good _ _ _ _ _).2

theorem acceptAll_meta (ps : List (Nat × Pending)) : ∀ (s : Server),
    (acceptAll s ps).tls = s.tls ∧ (acceptAll s ps).pending = s.pending := by
  induction ps with
  | nil => intro s; exact ⟨rfl, rfl⟩
  | cons sp ps ih =>
    obtain ⟨sid, p⟩ := sp
    intro s; unfold acceptAll; simp only; split; exact ih _; split <;> exact ih _

/-- nothing in the listen socket's queue will make `accept()` raise -/
def CalmQ (s : Server) : Prop := ∀ i ∈ s.pending, ∃ p, i = PItem.conn p

theorem drainAccepts_calm (q : List PItem) : ∀ {s : Server}, (∀ i ∈ q, ∃ p, i = PItem.conn p) → GoodSrv s →
    (drainAccepts s q).2 = none ∧ GoodSrv (drainAccepts s q).1 ∧ (drainAccepts s q).1.pending = [] ∧
      (drainAccepts s q).1.tls = s.tls := by
  induction q with
  | nil => intro s _ h; exact ⟨rfl, ⟨h.listening, h.ix, h.cx, h.plain⟩, rfl, rfl⟩
  | cons i q ih =>
    intro s hq h
    obtain ⟨p, rfl⟩ := hq i (by simp)
    exact ih (s := { s with axes := _, nextSid := _ }) (fun j hj => hq j (by simp [hj])) ⟨h.listening, h.ix, h.cx, h.plain⟩

theorem connects_total {s : Server} (h : GoodSrv s) (hq : CalmQ s) :
    (s.connects).2 = none ∧ GoodSrv (s.connects).1 ∧ CalmQ (s.connects).1 := by
  unfold Server.connects
  have hd := drainAccepts_calm s.pending hq h
  generalize drainAccepts s s.pending = r at hd
  obtain ⟨s0, e⟩ := r
  obtain ⟨he, hg, hp, ht0⟩ := hd
  simp only at he hg hp ht0
  subst he
  have ha := acceptAll_good s0.axes hg
  have hm := acceptAll_meta s0.axes s0
  have hcq : CalmQ (acceptAll s0 s0.axes) := by
    intro i hi; rw [hm.2, hp] at hi; cases hi
  simp only
  split
  · have := cxLoop_total (acceptAll s0 s0.axes).cxes (acceptAll s0 s0.axes).ixes (acceptAll s0 s0.axes).gone ha.cx ha.ix
    rename_i ht
    refine ⟨this.1, ⟨ha.listening, this.2.2, this.2.1, ?_⟩, hcq⟩
    intro hf
    have : (acceptAll s0 s0.axes).tls = true := by rw [hm.1, ht0]; exact ht
    simp only at hf
    rw [this] at hf; cases hf
  · exact ⟨rfl, ha, hcq⟩

theorem recvAll_total {s : Server} (hflag : Gen.Tcp.recvLoopCatchesOSError = true) (h : GoodSrv s) :
    (s.recvAll).2 = none ∧ GoodSrv (s.recvAll).1 ∧
      (s.recvAll).1.ixes = s.ixes.filterMap (keep Rem.serviceReceives) := by
  have := ixLoop_total Rem.serviceReceives GoodRem Rem.serviceReceives_spec s.ixes h.ix
  unfold Server.recvAll
  rw [hflag]
  exact ⟨this.1, ⟨h.listening, this.2.1, h.cx, h.plain⟩, this.2.2⟩

theorem sendAll_total {s : Server} (hflag : Gen.Tcp.sendLoopCatchesOSError = true) (h : GoodSrv s) :
    (s.sendAll).2 = none ∧ GoodSrv (s.sendAll).1 ∧
      (s.sendAll).1.ixes = s.ixes.filterMap (keep Rem.serviceSends) := by
  have := ixLoop_total Rem.serviceSends GoodRem Rem.serviceSends_spec s.ixes h.ix
  unfold Server.sendAll
  rw [hflag]
  exact ⟨this.1, ⟨h.listening, this.2.1, h.cx, h.plain⟩, this.2.2⟩

theorem service_spec {s : Server} (hr : Gen.Tcp.recvLoopCatchesOSError = true)
    (hs : Gen.Tcp.sendLoopCatchesOSError = true) (h : GoodSrv s) (hq : CalmQ s) :
    (s.service).2 = none ∧ (GoodSrv (s.service).1 ∧ CalmQ (s.service).1) ∧
      (s.service).1.ixes =
        (((s.connects).1.ixes.filterMap (keep Rem.serviceReceives)).filterMap (keep Rem.serviceSends)) := by
  unfold Server.service
  have hl := h.listening
  cases hcl : s.curListen with
  | none => rw [hcl] at hl; cases hl
  | some i =>
    simp only
    have h1 := connects_total h hq
    generalize s.connects = r1 at h1
    obtain ⟨s1, e1⟩ := r1
    simp only at h1
    rw [h1.1]
    simp only [sbind]
    have h2 := recvAll_total hr h1.2.1
    have hq2 : CalmQ s1.recvAll.1 := h1.2.2
    generalize s1.recvAll = r2 at h2 hq2
    obtain ⟨s2, e2⟩ := r2
    simp only at h2 hq2
    rw [h2.1]
    simp only
    have h3 := sendAll_total hs h2.2.1
    refine ⟨h3.1, ⟨h3.2.1, hq2⟩, ?_⟩
    rw [h3.2.2, h2.2.2]

/-! ### histories without close / reopen keep the server serviceable -/

theorem mapKey_all {t : Table} {ca : Nat} {f : Rem → Rem} {P : Rem → Prop} (ht : ∀ p ∈ t, P p.2)
    (hf : ∀ r, P r → P (f r)) : ∀ p ∈ mapKey t ca f, P p.2 := by
  intro p hp
  simp only [mapKey, List.mem_map] at hp
  obtain ⟨q, hq, rfl⟩ := hp
  split
  · exact hf _ (ht q hq)
  · exact ht q hq

theorem dictDel_sub {t : Table} {ca : Nat} : ∀ p ∈ dictDel t ca, p ∈ t := by
  induction t with
  | nil => simp [dictDel]
  | cons kv rest ih =>
    obtain ⟨k, v⟩ := kv
    intro p hp
    unfold dictDel at hp
    split at hp
    · simp [hp]
    · simp only [List.mem_cons] at hp ⊢
      rcases hp with rfl | hp
      · exact Or.inl rfl
      · exact Or.inr (ih p hp)

def SOp.quiet : SOp → Bool
  | .close | .reopen | .reopenf | .closeix _ | .closeall | .afault _ => false
  | _ => true

theorem step_good {s : Server} (hr : Gen.Tcp.recvLoopCatchesOSError = true)
    (hs : Gen.Tcp.sendLoopCatchesOSError = true) (op : SOp) (hq : op.quiet = true) (h : GoodSrv s) (hc : CalmQ s) :
    GoodSrv (s.step op).1 := by
  cases op with
  | conn p => simp only [Server.step]; split <;> exact ⟨h.listening, h.ix, h.cx, h.plain⟩
  | afault code => cases hq
  | svc => exact (service_spec hr hs h hc).2.1.1
  | nop => exact h
  | svce =>
    have hsp := service_spec hr hs h hc
    simp only [Server.step]
    generalize s.service = r at hsp
    obtain ⟨s1, e⟩ := r
    obtain ⟨he, ⟨hg, _⟩, _⟩ := hsp
    simp only at he hg
    subst he
    refine ⟨hg.listening, ?_, hg.cx, hg.plain⟩
    intro p hp
    simp only [List.mem_map] at hp
    obtain ⟨q, hq', rfl⟩ := hp
    exact ⟨(hg.ix q hq').1, (hg.ix q hq').2⟩
  | tx ca d =>
    simp only [Server.step]
    split
    · exact h
    · exact ⟨h.listening, mapKey_all (f := fun r => { r with c := { r.c with txbs := r.c.txbs ++ d } }) h.ix
        (fun r hr => ⟨hr.1, hr.2⟩), h.cx, h.plain⟩
  | rm ca =>
    simp only [Server.step]
    split
    · exact h
    · exact ⟨h.listening, fun p hp => h.ix p (dictDel_sub p hp), h.cx, h.plain⟩
  | close => cases hq
  | reopen => cases hq
  | reopenf => cases hq
  | closeix ca => cases hq
  | closeall => cases hq
  | wlopen =>
    refine ⟨h.listening, ?_, ?_, ?_⟩
    · intro p hp
      simp only [Server.step, List.mem_map] at hp
      obtain ⟨q, hq', rfl⟩ := hp
      exact ⟨(h.ix q hq').1, (h.ix q hq').2⟩
    · intro p hp
      simp only [Server.step, List.mem_map] at hp
      obtain ⟨q, hq', rfl⟩ := hp
      exact ⟨(h.cx q hq').1, (h.cx q hq').2⟩
    · intro ht
      simp only [Server.step, h.plain ht, List.map_nil]
  | rxix ca =>
    simp only [Server.step]
    split
    · exact h
    · rename_i r hr
      have hg : GoodRem r := by
        have : ∀ (t : Table), dictGet t ca = some r → (∀ p ∈ t, GoodRem p.2) → GoodRem r := by
          intro t
          induction t with
          | nil => intro h0; simp [dictGet] at h0
          | cons kv rest ih =>
            obtain ⟨k, v⟩ := kv
            intro h0 hall
            unfold dictGet at h0
            split at h0
            · cases h0; exact hall (k, r) (by simp)
            · exact ih h0 (fun p hp => hall p (by simp [hp]))
        exact this s.ixes hr h.ix
      have hsp := Rem.serviceReceives_spec r hg
      generalize r.serviceReceives = res at hsp
      obtain ⟨r', e⟩ := res
      cases e with
      | none => exact ⟨h.listening, mapKey_all (f := fun _ => r') h.ix (fun _ _ => hsp.2), h.cx, h.plain⟩
      | some e =>
        simp only
        split
        · exact ⟨h.listening, fun p hp => h.ix p (dictDel_sub p hp), h.cx, h.plain⟩
        · exact ⟨h.listening, mapKey_all (f := fun _ => r') h.ix (fun _ _ => hsp.2), h.cx, h.plain⟩

theorem step_calm {s : Server} (hr : Gen.Tcp.recvLoopCatchesOSError = true)
    (hs : Gen.Tcp.sendLoopCatchesOSError = true) (op : SOp) (hq : op.quiet = true) (h : GoodSrv s) (hc : CalmQ s) :
    CalmQ (s.step op).1 := by
  cases op with
  | conn p =>
    simp only [Server.step]
    split
    · intro i hi
      simp only [List.mem_append, List.mem_singleton] at hi
      rcases hi with hi | rfl
      · exact hc i hi
      · exact ⟨p, rfl⟩
    · exact hc
  | afault code => cases hq
  | svc => exact (service_spec hr hs h hc).2.1.2
  | nop => exact hc
  | svce =>
    have hsp := service_spec hr hs h hc
    simp only [Server.step]
    generalize s.service = r at hsp
    obtain ⟨s1, e⟩ := r
    obtain ⟨he, ⟨_, hq1⟩, _⟩ := hsp
    simp only at he hq1
    subst he
    exact hq1
  | tx ca d => simp only [Server.step]; split <;> exact hc
  | rm ca => simp only [Server.step]; split <;> exact hc
  | close => cases hq
  | reopen => cases hq
  | reopenf => cases hq
  | closeix ca => cases hq
  | closeall => cases hq
  | wlopen => exact hc
  | rxix ca =>
    simp only [Server.step]
    split
    · exact hc
    · split
      · exact hc
      · split <;> exact hc

theorem run_good (hr : Gen.Tcp.recvLoopCatchesOSError = true) (hs : Gen.Tcp.sendLoopCatchesOSError = true)
    (ops : List SOp) : ∀ {s : Server}, (∀ op ∈ ops, op.quiet = true) → GoodSrv s → CalmQ s →
      GoodSrv (s.run ops) ∧ CalmQ (s.run ops) := by
  induction ops with
  | nil => intro s _ h hc; exact ⟨h, hc⟩
  | cons op ops ih =>
    intro s hq h hc
    exact ih (fun o ho => hq o (by simp [ho])) (step_good hr hs op (hq op (by simp)) h hc)
      (step_calm hr hs op (hq op (by simp)) h hc)

theorem start_calm (tls : Bool) : CalmQ (Server.start tls) := by
  intro i hi; simp [Server.start, Server.reopen, Server.reclose, Server.close] at hi

theorem start_good (tls : Bool) : GoodSrv (Server.start tls) :=
  ⟨rfl, by simp [Server.start, Server.reopen, Server.reclose, Server.close],
   by simp [Server.start, Server.reopen, Server.reclose, Server.close], fun _ => by
     simp [Server.start, Server.reopen, Server.reclose, Server.close]⟩

/-! ### one connection object (client side): scripts whose faults are all classified never make a call raise -/

def okOutcome (o : Outcome) : Prop := o = .wouldblock ∨ o = .cutoff

def BenignS (k : Kind) : SResp → Prop
  | .acc _ => True
  | .fault code => okOutcome (lookup (sendTable k) code)

def BenignR (k : Kind) : RResp → Prop
  | .data _ => True
  | .fault code => okOutcome (lookup (recvTable k) code)

structure Benign (c : Conn) : Prop where
  safe : Safe c
  s : ∀ r ∈ c.sends, BenignS c.kind r
  r : ∀ r ∈ c.recvs, BenignR c.kind r

theorem wb_ok (k : Kind) : okOutcome (lookup (sendTable k) (wbCode k)) ∧ okOutcome (lookup (recvTable k) (wbCode k)) := by
  cases k <;> exact ⟨Or.inl (by decide +kernel), Or.inl (by decide +kernel)⟩

theorem sendFault_ok (c : Conn) (code : Nat) (h : okOutcome (lookup (sendTable c.kind) code)) (hb : Benign c) :
    (finishSend (sendFault c code)).2 = none ∧ Benign (finishSend (sendFault c code)).1 := by
  unfold sendFault
  rcases h with h | h <;> rw [h] <;> exact ⟨rfl, ⟨hb.safe, hb.s, hb.r⟩⟩

theorem serviceSends_ok (c : Conn) (hb : Benign c) : (serviceSends c).2 = none ∧ Benign (serviceSends c).1 := by
  unfold serviceSends
  split
  · unfold send
    split
    · exact sendFault_ok c _ (wb_ok c.kind).1 hb
    · rename_i code rest hs
      have hb' : Benign { c with sends := rest } := ⟨hb.safe, fun r hr => hb.s r (by rw [hs]; simp [hr]), hb.r⟩
      exact sendFault_ok { c with sends := rest } code (hb.s (.fault code) (by rw [hs]; simp)) hb'
    · rename_i n rest hs
      simp only [hb.safe.tx, Bool.false_eq_true, and_false, ↓reduceIte]
      exact ⟨rfl, ⟨hb.safe, fun r hr => hb.s r (by rw [hs]; simp only [finishSend] at hr; simp [hr]), hb.r⟩⟩
  · exact ⟨rfl, hb⟩

theorem recvFault_ok (c : Conn) (code : Nat) (h : okOutcome (lookup (recvTable c.kind) code)) (hb : Benign c) :
    (recvFault c code).2 = none ∧ Benign (recvFault c code).1 := by
  unfold recvFault
  rcases h with h | h <;> rw [h] <;> exact ⟨rfl, ⟨hb.safe, hb.s, hb.r⟩⟩

theorem recvLoop_ok (script : List RResp) : ∀ (c : Conn), Safe c → (∀ r ∈ c.sends, BenignS c.kind r) →
    (∀ r ∈ script, BenignR c.kind r) →
    (recvLoop c script).2 = none ∧ Benign (recvLoop c script).1 := by
  induction script with
  | nil =>
    intro c hsafe hs _
    unfold recvLoop
    split
    · exact ⟨rfl, ⟨hsafe, hs, by simp⟩⟩
    · exact recvFault_ok { c with recvs := [] } _ (wb_ok c.kind).2 ⟨hsafe, hs, by simp⟩
  | cons r rest ih =>
    intro c hsafe hs hr
    unfold recvLoop
    split
    · exact ⟨rfl, ⟨hsafe, hs, hr⟩⟩
    · split
      · rename_i code
        exact recvFault_ok { c with recvs := rest } code (hr (.fault code) (by simp))
          ⟨hsafe, hs, fun x hx => hr x (by simp [hx])⟩
      · split
        · exact ⟨rfl, ⟨hsafe, hs, fun x hx => hr x (by simp [hx])⟩⟩
        · simp only [hsafe.rx, Bool.false_eq_true, ↓reduceIte]
          exact ih _ hsafe hs (fun x hx => hr x (by simp [hx]))

theorem serviceReceives_ok (c : Conn) (hb : Benign c) : (serviceReceives c).2 = none ∧ Benign (serviceReceives c).1 := by
  unfold serviceReceives
  split
  · exact recvLoop_ok c.recvs c hb.safe hb.s hb.r
  · exact ⟨rfl, hb⟩

theorem andThen_ok {r : Conn × Option Exn} {f : Conn → Conn × Option Exn} (h : r.2 = none ∧ Benign r.1)
    (hf : ∀ c, Benign c → (f c).2 = none ∧ Benign (f c).1) : (andThen r f).2 = none ∧ Benign (andThen r f).1 := by
  obtain ⟨c, e⟩ := r
  obtain ⟨h1, h2⟩ := h
  simp only at h1
  subst h1
  exact hf c h2

theorem step_ok (c : Conn) (op : Op) (hb : Benign c) : (step c op).2 = none ∧ Benign (step c op).1 := by
  cases op with
  | tx d => exact ⟨rfl, ⟨hb.safe, hb.s, hb.r⟩⟩
  | rst => exact ⟨rfl, ⟨hb.safe, hb.s, hb.r⟩⟩
  | clr => exact ⟨rfl, ⟨hb.safe, hb.s, hb.r⟩⟩
  | sro =>
    simp only [step]
    unfold serviceReceiveOnce
    split
    · split
      · exact recvFault_ok c _ (wb_ok c.kind).2 hb
      · rename_i code rest hr
        exact recvFault_ok { c with recvs := rest } code (hb.r (.fault code) (by rw [hr]; simp))
          ⟨hb.safe, hb.s, fun x hx => hb.r x (by rw [hr]; simp [hx])⟩
      · rename_i d rest hr
        split
        · exact ⟨rfl, ⟨hb.safe, hb.s, fun x hx => hb.r x (by rw [hr]; simp [hx])⟩⟩
        · simp only [hb.safe.rx, Bool.false_eq_true, ↓reduceIte]
          exact ⟨trivial, ⟨hb.safe, hb.s, fun x hx => hb.r x (by rw [hr]; simp [hx])⟩⟩
    · exact ⟨rfl, hb⟩
  | ss => exact serviceSends_ok c hb
  | sr => exact serviceReceives_ok c hb
  | svc =>
    cases hk : c.kind <;> simp only [step, hk]
    · exact andThen_ok (serviceSends_ok c hb) serviceReceives_ok
    · exact andThen_ok (serviceSends_ok c hb) serviceReceives_ok
    · exact andThen_ok (serviceReceives_ok c hb) serviceSends_ok
    · exact andThen_ok (serviceReceives_ok c hb) serviceSends_ok

/-- no call of the history raises -/
def NoRaise (c : Conn) : List Op → Prop
  | [] => True
  | op :: ops => (step c op).2 = none ∧ NoRaise (step c op).1 ops

theorem noRaise_of_benign (ops : List Op) : ∀ (c : Conn), Benign c → NoRaise c ops := by
  induction ops with
  | nil => intro _ _; trivial
  | cons op ops ih => intro c hb; exact ⟨(step_ok c op hb).1, ih _ (step_ok c op hb).2⟩

end Hio.Tcp
