import HioModel.Tcp.Client
/-! helper lemmas for C11: remoters the server dropped are closed; the client keeps at most its current socket -/
namespace Hio.Tcp

theorem Rem.close_closed (r : Rem) : r.close.csOpen = false := by
  unfold Rem.close
  split
  · rfl
  · simp_all

theorem Rem.close_aborted (r : Rem) : r.close.aborted = r.aborted := by
  unfold Rem.close
  split <;> rfl

/-- what C11 needs of a server state: every dropped remoter is closed; nothing waiting in `cxes` is already aborted -/
structure Life (s : Server) : Prop where
  gone : ∀ r ∈ s.gone, r.csOpen = false
  cx : ∀ p ∈ s.cxes, p.2.aborted = false

theorem retire_closed {g : List Rem} (h : ∀ r ∈ g, r.csOpen = false) (o : Option Rem) :
    ∀ r ∈ retire g o, r.csOpen = false := by
  cases o with
  | none => exact h
  | some x =>
    intro r hr
    simp only [retire, List.mem_cons] at hr
    rcases hr with rfl | hr
    · exact Rem.close_closed x
    · exact h r hr

theorem dictSet_mem {t : Table} {ca : Nat} {r : Rem} {P : Rem → Prop} (ht : ∀ p ∈ t, P p.2) (hr : P r) :
    ∀ p ∈ (dictSet t ca r).1, P p.2 := by
  induction t with
  | nil => intro p hp; simp [dictSet] at hp; rw [hp]; exact hr
  | cons kv rest ih =>
    obtain ⟨k, v⟩ := kv
    intro p hp
    unfold dictSet at hp
    split at hp
    · simp only [List.mem_cons] at hp
      rcases hp with rfl | hp
      · exact hr
      · exact ht p (by simp [hp])
    · simp only [List.mem_cons] at hp
      rcases hp with rfl | hp
      · exact ht (k, v) (by simp)
      · exact ih (fun p hp => ht p (by simp [hp])) p hp

theorem newRem_aborted (tls : Bool) (sid : Nat) (p : Pending) (wl t r : Bool) : (newRem tls sid p wl t r).aborted = false := rfl

theorem drainAccepts_life (q : List PItem) : ∀ {s : Server}, Life s → Life (drainAccepts s q).1 := by
  induction q with
  | nil => intro s h; exact ⟨h.gone, h.cx⟩
  | cons i q ih =>
    intro s h
    cases i with
    | fault code => exact ⟨h.gone, h.cx⟩
    | conn p => exact ih (s := { s with axes := _, nextSid := _ }) ⟨h.gone, h.cx⟩

theorem acceptAll_life (ps : List (Nat × Pending)) : ∀ {s : Server}, Life s → Life (acceptAll s ps) := by
  induction ps with
  | nil => intro s h; exact ⟨h.gone, h.cx⟩
  | cons sp ps ih =>
    obtain ⟨sid, p⟩ := sp
    intro s h
    unfold acceptAll
    simp only
    split
    · refine ih ⟨?_, h.cx⟩
      intro r hr
      simp only [List.mem_cons] at hr
      rcases hr with rfl | hr
      · rfl
      · exact h.gone r hr
    · split
      · exact ih ⟨retire_closed h.gone _, dictSet_mem (P := fun r => r.aborted = false) h.cx (newRem_aborted _ _ _ _ _ _)⟩
      · exact ih ⟨retire_closed h.gone _, h.cx⟩

theorem hsFault_spec (r : Rem) (code : Nat) (h : r.aborted = false) :
    ((hsFault r code).1.aborted = true → (hsFault r code).1.csOpen = false) ∧
    ((hsFault r code).2 ≠ none → (hsFault r code).1.aborted = false) := by
  unfold hsFault
  split <;> simp [h, Rem.close_closed, Rem.close_aborted]

theorem handshake_spec (r : Rem) (h : r.aborted = false) :
    ((r.handshake).1.aborted = true → (r.handshake).1.csOpen = false) ∧
    ((r.handshake).2 ≠ none → (r.handshake).1.aborted = false) := by
  unfold Rem.handshake
  split
  · simp [h]
  · split
    · exact hsFault_spec r _ h
    · simp [h]
    · exact hsFault_spec _ _ h

theorem cxLoop_life (cx : Table) : ∀ (ix : Table) (g : List Rem), (∀ r ∈ g, r.csOpen = false) →
    (∀ p ∈ cx, p.2.aborted = false) →
    (∀ r ∈ (cxLoop cx ix g).gone, r.csOpen = false) ∧ (∀ p ∈ (cxLoop cx ix g).cxes, p.2.aborted = false) := by
  induction cx with
  | nil => intro ix g hg _; exact ⟨hg, by simp [cxLoop]⟩
  | cons kv rest ih =>
    obtain ⟨ca, r⟩ := kv
    intro ix g hg hc
    have hr : r.aborted = false := hc (ca, r) (by simp)
    have hrest : ∀ p ∈ rest, p.2.aborted = false := fun p hp => hc p (by simp [hp])
    have hs := handshake_spec r hr
    unfold cxLoop
    generalize r.handshake = res at hs
    obtain ⟨r', e⟩ := res
    cases e with
    | some e =>
      simp only
      refine ⟨hg, ?_⟩
      intro p hp
      simp only [List.mem_cons] at hp
      rcases hp with rfl | hp
      · exact hs.2 (by simp)
      · exact hrest p hp
    | none =>
      simp only
      split
      · exact ih _ _ (retire_closed hg _) hrest
      · split
        · rename_i hab
          refine ih _ _ ?_ hrest
          intro x hx
          simp only [List.mem_cons] at hx
          rcases hx with rfl | hx
          · exact hs.1 hab
          · exact hg x hx
        · rename_i hab
          have := ih ix g hg hrest
          refine ⟨this.1, ?_⟩
          intro p hp
          simp only [List.mem_cons] at hp
          rcases hp with rfl | hp
          · simpa using hab
          · exact this.2 p hp

theorem ixLoop_gone_closed (f : Rem → Rem × Option Exn) (flag : Bool) (t : Table) :
    ∀ r ∈ (ixLoop f flag t).gone, r.csOpen = false := by
  induction t with
  | nil => simp [ixLoop]
  | cons kv rest ih =>
    obtain ⟨ca, r⟩ := kv
    unfold ixLoop
    generalize f r = res
    obtain ⟨r', e⟩ := res
    cases e with
    | none => exact ih
    | some e =>
      simp only
      split
      · intro x hx
        simp only [List.mem_cons] at hx
        rcases hx with rfl | hx
        · exact Rem.close_closed r'
        · exact ih x hx
      · simp

theorem recvAll_life {s : Server} (h : Life s) : Life (s.recvAll).1 := by
  refine ⟨?_, h.cx⟩
  intro r hr
  simp only [Server.recvAll, List.mem_append] at hr
  rcases hr with hr | hr
  · exact ixLoop_gone_closed _ _ _ r hr
  · exact h.gone r hr

theorem sendAll_life {s : Server} (h : Life s) : Life (s.sendAll).1 := by
  refine ⟨?_, h.cx⟩
  intro r hr
  simp only [Server.sendAll, List.mem_append] at hr
  rcases hr with hr | hr
  · exact ixLoop_gone_closed _ _ _ r hr
  · exact h.gone r hr

theorem connects_life {s : Server} (h : Life s) : Life (s.connects).1 := by
  unfold Server.connects
  have hd := drainAccepts_life s.pending h
  generalize drainAccepts s s.pending = r at hd
  obtain ⟨s0, e⟩ := r
  cases e with
  | some e => exact hd
  | none =>
    have ha := acceptAll_life s0.axes hd
    simp only
    split
    · have := cxLoop_life (acceptAll s0 s0.axes).cxes (acceptAll s0 s0.axes).ixes (acceptAll s0 s0.axes).gone ha.gone ha.cx
      exact ⟨this.1, this.2⟩
    · exact ha

theorem sbind_life {r : Server × Option Exn} {f : Server → Server × Option Exn} (h : Life r.1)
    (hf : ∀ s, Life s → Life (f s).1) : Life (sbind r f).1 := by
  obtain ⟨s, e⟩ := r
  cases e with
  | none => exact hf s h
  | some e => exact h

theorem service_life {s : Server} (h : Life s) : Life (s.service).1 := by
  unfold Server.service
  split
  · exact h
  · exact sbind_life (sbind_life (connects_life h) (fun _ => recvAll_life)) (fun _ => sendAll_life)

theorem close_life {s : Server} (h : Life s) : Life s.close := by
  refine ⟨?_, by simp [Server.close]⟩
  intro r hr
  simp only [Server.close, List.mem_append, List.mem_map] at hr
  rcases hr with (⟨p, _, rfl⟩ | ⟨p, _, rfl⟩) | hr
  · rfl
  · exact Rem.close_closed _
  · exact h.gone r hr

theorem close_ixes_closed (s : Server) : ∀ p ∈ s.close.ixes, p.2.csOpen = false := by
  intro p hp
  simp only [Server.close, List.mem_map] at hp
  obtain ⟨q, _, rfl⟩ := hp
  exact Rem.close_closed _

theorem reclose_life {s : Server} (h : Life s) : Life s.reclose := by
  have hc := close_life h
  unfold Server.reclose
  simp only
  split
  · refine ⟨?_, hc.cx⟩
    intro r hr
    simp only [List.mem_append, List.mem_map] at hr
    rcases hr with ⟨p, hp, rfl⟩ | hr
    · exact close_ixes_closed s p hp
    · exact hc.gone r hr
  · exact ⟨hc.gone, hc.cx⟩

theorem reopen_life {s : Server} (h : Life s) : Life s.reopen :=
  ⟨(reclose_life h).gone, (reclose_life h).cx⟩

theorem reopenFail_life {s : Server} (h : Life s) : Life s.reopenFail :=
  ⟨(reclose_life h).gone, (reclose_life h).cx⟩

theorem reclose_closed (s : Server) : (∀ p ∈ s.reclose.ixes, p.2.csOpen = false) ∧ s.reclose.cxes = [] := by
  unfold Server.reclose
  simp only
  split
  · exact ⟨by simp, rfl⟩
  · exact ⟨close_ixes_closed s, rfl⟩

theorem step_life {s : Server} (op : SOp) (h : Life s) : Life (s.step op).1 := by
  cases op with
  | conn p => simp only [Server.step]; split <;> exact ⟨h.gone, h.cx⟩
  | svc => exact service_life h
  | nop => exact h
  | svce =>
    have hs := service_life h
    simp only [Server.step]
    generalize s.service = r at hs
    obtain ⟨s1, e⟩ := r
    cases e with
    | some e => exact hs
    | none => exact ⟨hs.gone, hs.cx⟩
  | tx ca d => simp only [Server.step]; split <;> exact ⟨h.gone, h.cx⟩
  | rm ca =>
    simp only [Server.step]
    split
    · exact h
    · refine ⟨?_, h.cx⟩
      intro x hx
      simp only [List.mem_cons] at hx
      rcases hx with rfl | hx
      · exact Rem.close_closed _
      · exact h.gone x hx
  | close => exact close_life h
  | reopen => exact reopen_life h
  | reopenf => exact reopenFail_life h
  | afault code => simp only [Server.step]; split <;> exact ⟨h.gone, h.cx⟩
  | closeall => exact ⟨h.gone, h.cx⟩
  | wlopen =>
    refine ⟨?_, ?_⟩
    · intro r hr
      simp only [Server.step, List.mem_map] at hr
      obtain ⟨q, hq, rfl⟩ := hr
      exact h.gone q hq
    · intro p hp
      simp only [Server.step, List.mem_map] at hp
      obtain ⟨q, hq, rfl⟩ := hp
      exact h.cx q hq
  | closeix ca => simp only [Server.step]; split <;> exact ⟨h.gone, h.cx⟩
  | rxix ca =>
    simp only [Server.step]
    split
    · exact h
    · split
      · exact ⟨h.gone, h.cx⟩
      · split
        · refine ⟨?_, h.cx⟩
          intro x hx
          simp only [List.mem_cons] at hx
          rcases hx with rfl | hx
          · exact Rem.close_closed _
          · exact h.gone x hx
        · exact ⟨h.gone, h.cx⟩

theorem run_life (ops : List SOp) : ∀ {s : Server}, Life s → Life (s.run ops) := by
  induction ops with
  | nil => intro s h; exact h
  | cons op ops ih => intro s h; exact ih (step_life op h)

theorem start_life (tls : Bool) : Life (Server.start tls) :=
  reopen_life ⟨by simp, by simp⟩

/-- when every remoter the server knows of is closed and nothing waits in `.axes`, the only socket that can be open is
the listen socket -/
theorem openSocks_of_allClosed (s : Server) (h0 : s.axes = []) (h1 : ∀ p ∈ s.ixes, p.2.csOpen = false)
    (h2 : ∀ p ∈ s.cxes, p.2.csOpen = false) (h3 : ∀ r ∈ s.gone, r.csOpen = false) : s.openSocks = s.curListen.toList := by
  unfold Server.openSocks
  have : List.filter (fun x => x.csOpen) (s.ixes.map (·.2) ++ s.cxes.map (·.2) ++ s.gone) = [] := by
    simp only [List.filter_eq_nil_iff, List.mem_append, List.mem_map]
    intro r hr
    rcases hr with (⟨p, hp, rfl⟩ | ⟨p, hp, rfl⟩) | hr
    · simp [h1 p hp]
    · simp [h2 p hp]
    · simp [h3 r hr]
  rw [this, h0]; simp

theorem close_openSocks {s : Server} (h : Life s) : s.close.openSocks = [] := by
  have hc := close_life h
  rw [openSocks_of_allClosed s.close rfl (close_ixes_closed s) (by intro p hp; simp [Server.close] at hp) hc.gone]
  rfl

/-! ### client -/

def Cli.Tidy (c : Cli) : Prop := c.openIds = c.cs.toList

theorem Cli.close_tidy {c : Cli} (h : c.Tidy) : c.close.Tidy ∧ c.close.cs = none := by
  unfold Cli.close
  cases hc : c.cs with
  | none => simp only; exact ⟨h, hc⟩
  | some i =>
    unfold Cli.Tidy at h ⊢
    simp [h, hc]

theorem Cli.reopen_tidy {c : Cli} (h : c.Tidy) : c.reopen.Tidy := by
  have ⟨h1, h2⟩ := Cli.close_tidy h
  unfold Cli.reopen Cli.open Cli.Tidy at *
  simp [h1, h2]

theorem Cli.accept_tidy {c : Cli} (rc : Nat) (h : c.Tidy) : (c.accept rc).Tidy := by
  unfold Cli.accept
  have h1 : (if c.cs.isNone then c.reopen else c).Tidy := by
    split
    · exact Cli.reopen_tidy h
    · exact h
  generalize (if c.cs.isNone then c.reopen else c) = c1 at h1
  simp only
  split
  · exact h1
  · exact Cli.reopen_tidy h1
  · exact h1

theorem Cli.hsFault_tidy {c : Cli} (code : Nat) (h : c.Tidy) : (c.hsFault code).1.Tidy := by
  unfold Cli.hsFault
  split
  · exact h
  all_goals exact (Cli.close_tidy h).1

theorem Cli.handshake_tidy {c : Cli} (h : c.Tidy) : (c.handshake).1.Tidy := by
  unfold Cli.handshake
  split
  · exact Cli.hsFault_tidy _ h
  · exact h
  · exact Cli.hsFault_tidy (c := { c with hsq := _ }) _ h

theorem Cli.connect_tidy {c : Cli} (rc : Nat) (h : c.Tidy) : (c.connect rc).1.Tidy := by
  unfold Cli.connect
  split
  · exact Cli.accept_tidy rc h
  · have h1 : (if c.accepted then c else c.accept rc).Tidy := by
      split
      · exact h
      · exact Cli.accept_tidy rc h
    generalize (if c.accepted then c else c.accept rc) = c1 at h1
    simp only
    split
    · exact h1
    · split
      · exact Cli.handshake_tidy h1
      · exact h1

theorem Cli.retry_tidy {c : Cli} (h : c.Tidy) : c.retry.Tidy := Cli.reopen_tidy h

theorem Cli.serviceConnect_tidy {c : Cli} (rc : Nat) (h : c.Tidy) : (c.serviceConnect rc).1.Tidy := by
  unfold Cli.serviceConnect
  split
  · exact h
  · have h1 := Cli.connect_tidy rc h
    generalize c.connect rc = r at h1
    obtain ⟨c1, e⟩ := r
    cases e with
    | some e => exact h1
    | none =>
      simp only
      split
      · exact Cli.retry_tidy h1
      · exact h1

theorem Cli.serviceIO_tidy {c : Cli} (h : c.Tidy) : (c.serviceIO).1.Tidy := by
  unfold Cli.serviceIO
  simp only
  split <;> exact h

theorem Cli.service_tidy {c : Cli} (rc : Nat) (h : c.Tidy) : (c.service rc).1.Tidy := by
  unfold Cli.service
  have h1 := Cli.serviceConnect_tidy rc h
  generalize c.serviceConnect rc = r at h1
  obtain ⟨c1, e⟩ := r
  cases e with
  | some e => exact h1
  | none => exact Cli.serviceIO_tidy h1

theorem Cli.step_tidy {c : Cli} (op : COp) (h : c.Tidy) : (c.step op).1.Tidy := by
  cases op with
  | feed sends recvs => simp only [Cli.step]; split <;> exact h
  | wind t => exact h
  | tx d => exact h
  | service rc hs =>
    simp only [Cli.step]
    apply Cli.service_tidy
    split
    · exact h
    · exact h
  | reopen => exact Cli.reopen_tidy h
  | close => exact (Cli.close_tidy h).1
  | tick d => exact h
  | connect rc hs =>
    simp only [Cli.step]
    apply Cli.serviceConnect_tidy
    split
    · exact h
    · exact h

theorem Cli.run_tidy (ops : List COp) : ∀ {c : Cli}, c.Tidy → (c.run ops).Tidy := by
  induction ops with
  | nil => intro c h; exact h
  | cons op ops ih => intro c h; exact ih (Cli.step_tidy op h)

end Hio.Tcp

/-! ### the client's connect/handshake passes never raise on classified handshake outcomes (C10, multi-pass) -/
namespace Hio.Tcp

/-- a handshake response the code classifies without raising: done, try again, or give up nicely -/
def HsOK : HResp → Prop
  | .ok => True
  | .fault code => clientHsLookup code = .wouldblock ∨ clientHsLookup code = .aborted ∨ clientHsLookup code = .cutoff

def Cli.Calm (c : Cli) : Prop := ∀ h ∈ c.hsq, HsOK h

/-- a `connect_ex` result the code classifies without raising -/
def RcOK (rc : Nat) : Prop := Cli.acceptExn rc = none

instance (rc : Nat) : Decidable (RcOK rc) := by unfold RcOK; infer_instance

def COp.ok : COp → Prop
  | .connect rc (some h) => HsOK h ∧ RcOK rc
  | .connect rc none => RcOK rc
  | .service _ _ => False   -- full passes with socket I/O are the subject of `client_service_total_partial`
  | _ => True

theorem wantRead_hs_ok : HsOK (.fault Gen.Tcp.wantRead) := Or.inl (by decide +kernel)

theorem Cli.close_calm {c : Cli} (h : c.Calm) : c.close.Calm := by
  unfold Cli.close; split <;> exact h

theorem Cli.reopen_calm (c : Cli) : c.reopen.Calm := by
  intro h hh; simp [Cli.reopen, Cli.open] at hh

theorem Cli.accept_calm {c : Cli} (rc : Nat) (h : c.Calm) : (c.accept rc).Calm := by
  unfold Cli.accept
  have h1 : (if c.cs.isNone then c.reopen else c).Calm := by
    split
    · exact Cli.reopen_calm c
    · exact h
  generalize (if c.cs.isNone then c.reopen else c) = c1 at h1
  simp only
  split
  · exact h1
  · exact Cli.reopen_calm c1
  · exact h1

theorem Cli.hsFault_calm {c : Cli} (code : Nat) (hc : HsOK (.fault code)) (h : c.Calm) :
    (c.hsFault code).2 = none ∧ (c.hsFault code).1.Calm := by
  unfold Cli.hsFault
  rcases hc with hc | hc | hc <;> rw [hc]
  · exact ⟨rfl, h⟩
  · exact ⟨rfl, Cli.close_calm h⟩
  · exact ⟨rfl, Cli.close_calm h⟩

theorem Cli.handshake_calm {c : Cli} (h : c.Calm) : (c.handshake).2 = none ∧ (c.handshake).1.Calm := by
  unfold Cli.handshake
  split
  · exact Cli.hsFault_calm _ wantRead_hs_ok h
  · rename_i rest hq
    exact ⟨rfl, fun x hx => h x (by rw [hq]; simp [hx])⟩
  · rename_i code rest hq
    exact Cli.hsFault_calm (c := { c with hsq := rest }) code (h (.fault code) (by rw [hq]; simp))
      (fun x hx => h x (by rw [hq]; simp [hx]))

theorem Cli.connect_calm {c : Cli} (rc : Nat) (hrc : RcOK rc) (h : c.Calm) : (c.connect rc).2 = none ∧ (c.connect rc).1.Calm := by
  unfold Cli.connect
  split
  · exact ⟨hrc, Cli.accept_calm rc h⟩
  · have h1 : (if c.accepted then c else c.accept rc).Calm := by
      split
      · exact h
      · exact Cli.accept_calm rc h
    generalize (if c.accepted then c else c.accept rc) = c1 at h1
    have he : (if c.accepted then none else Cli.acceptExn rc) = none := by split; rfl; exact hrc
    simp only [he]
    split
    · exact Cli.handshake_calm h1
    · exact ⟨rfl, h1⟩

theorem Cli.serviceConnect_calm {c : Cli} (rc : Nat) (hrc : RcOK rc) (h : c.Calm) :
    (c.serviceConnect rc).2 = none ∧ (c.serviceConnect rc).1.Calm := by
  unfold Cli.serviceConnect
  split
  · exact ⟨rfl, h⟩
  · have h1 := Cli.connect_calm rc hrc h
    generalize c.connect rc = r at h1
    obtain ⟨c1, e⟩ := r
    obtain ⟨he, hc⟩ := h1
    simp only at he
    subst he
    simp only
    split
    · exact ⟨rfl, Cli.reopen_calm c1⟩
    · exact ⟨rfl, hc⟩

theorem Cli.step_calm {c : Cli} (op : COp) (ho : op.ok) (h : c.Calm) : (c.step op).2 = none ∧ (c.step op).1.Calm := by
  cases op with
  | reopen => exact ⟨rfl, Cli.reopen_calm c⟩
  | close => exact ⟨rfl, Cli.close_calm h⟩
  | tick d => exact ⟨rfl, h⟩
  | wind t => exact ⟨rfl, h⟩
  | feed sends recvs => simp only [Cli.step]; split <;> exact ⟨trivial, h⟩
  | tx d => exact ⟨rfl, h⟩
  | service rc hs => exact absurd ho (by simp [COp.ok])
  | connect rc hs =>
    simp only [Cli.step]
    have hrc : RcOK rc := by cases hs with
      | none => exact ho
      | some x => exact ho.2
    apply Cli.serviceConnect_calm rc hrc
    split
    · rename_i hh _ _
      intro x hx
      simp only [List.mem_append, List.mem_singleton] at hx
      rcases hx with hx | rfl
      · exact h x hx
      · exact ho.1
    · exact h

/-- no call of the history raises -/
def Cli.NoRaise (c : Cli) : List COp → Prop
  | [] => True
  | op :: ops => (c.step op).2 = none ∧ Cli.NoRaise (c.step op).1 ops

theorem Cli.noRaise_of_calm (ops : List COp) : ∀ (c : Cli), c.Calm → (∀ op ∈ ops, op.ok) → Cli.NoRaise c ops := by
  induction ops with
  | nil => intro _ _ _; trivial
  | cons op ops ih =>
    intro c h ho
    have := Cli.step_calm op (ho op (by simp)) h
    exact ⟨this.1, ih _ this.2 (fun o hm => ho o (by simp [hm]))⟩

end Hio.Tcp
