import HioModel.Tcp.LifeLemmas
/-!
# C11 — closing a TCP endpoint releases every socket it opened

Property theorems only.  Models: `HioModel/Tcp/Server.lean` (`Server`/`ServerTls`: listen socket, `ixes`, `cxes`, and
`gone` = every remoter the server has dropped, so no socket it ever accepted leaves the picture) and
`HioModel/Tcp/Client.lean` (`Client`/`ClientTls` open/reopen/close/serviceConnect).
`Server.openSocks s` lists the ids of all sockets the server ever obtained that are still open.
Histories are arbitrary lists of: a peer connects (any address, any scripts — same-address reconnects included),
`service`, `transmitIx`, `removeIx`, `close`, `reopen`; exceptions escaping a call do not stop the history.
-/
namespace Hio.Tcp

/-- a remoter the server no longer references (replaced by a newer connection from the same address, handshake aborted,
removed after an error, removed by `removeIx`, or cleared by `close`) has been closed — at every point of every history -/
theorem dropped_are_closed (tls : Bool) (ops : List SOp) :
    ∀ r ∈ ((Server.start tls).run ops).gone, r.csOpen = false :=
  (run_life ops (start_life tls)).gone

/-- C11.1 after `close`, no socket the server ever obtained is open: the listen socket, every accepted connection,
TLS connections still handshaking, replaced same-address connections — for every history, plain and TLS -/
theorem close_releases_all (tls : Bool) (ops : List SOp) :
    (((Server.start tls).run ops).close).openSocks = [] :=
  close_openSocks (run_life ops (start_life tls))

/-- the same, with the `close` as part of the history (what the correspondence run observes) -/
theorem close_releases_all' (tls : Bool) (ops : List SOp) :
    ((Server.start tls).run (ops ++ [SOp.close])).openSocks = [] := by
  have : ∀ (ops : List SOp) (s : Server), s.run (ops ++ [SOp.close]) = (s.run ops).close := by
    intro ops
    induction ops with
    | nil => intro s; rfl
    | cons op ops ih => intro s; simp [Server.run, ih]
  rw [this]
  exact close_releases_all tls ops

/-- `reopen` leaves exactly the fresh listen socket open -/
theorem reopen_releases_all (tls : Bool) (ops : List SOp) :
    (((Server.start tls).run ops).reopen).openSocks = [((Server.start tls).run ops).nextSid] := by
  have hl := run_life ops (start_life tls)
  generalize (Server.start tls).run ops = s at hl
  have hr := reopen_life hl
  have hc := close_life hl
  have hix : ∀ p ∈ s.reopen.ixes, p.2.csOpen = false := (reclose_closed s).1
  have hcx : ∀ p ∈ s.reopen.cxes, p.2.csOpen = false := by
    intro p hp
    have : s.reopen.cxes = [] := (reclose_closed s).2
    rw [this] at hp; cases hp
  have hax : s.reopen.axes = [] := by
    show s.reclose.axes = []
    unfold Server.reclose; simp only; split <;> rfl
  rw [openSocks_of_allClosed s.reopen hax hix hcx hr.gone]
  have : s.reopen.curListen = some s.reclose.nextSid := rfl
  have hn : s.reclose.nextSid = s.nextSid := by unfold Server.reclose; simp only; split <;> rfl
  rw [this, hn]; rfl

/-- an `open()` that fails (bind/listen raising: address in use, no permission …) leaves NO socket open — neither the listen
socket it had just created nor anything of the previous opening — after every history (failed opens included in it) -/
theorem failed_open_leaves_nothing (tls : Bool) (ops : List SOp) :
    (((Server.start tls).run ops).reopenFail).openSocks = [] := by
  have hl := run_life ops (start_life tls)
  generalize (Server.start tls).run ops = s at hl
  have hr := reopenFail_life hl
  have hcx : ∀ p ∈ s.reopenFail.cxes, p.2.csOpen = false := by
    intro p hp
    have : s.reopenFail.cxes = [] := (reclose_closed s).2
    rw [this] at hp; cases hp
  have hax : s.reopenFail.axes = [] := by
    show s.reclose.axes = []
    unfold Server.reclose; simp only; split <;> rfl
  rw [openSocks_of_allClosed s.reopenFail hax (reclose_closed s).1 hcx hr.gone]
  rfl

/-- `accept()` itself failing (EMFILE, ECONNABORTED …) in the middle of a pass: the sockets accepted before it wait in `.axes`
(open, not yet remoters) and `close()` releases them too -/
example : ((Server.start true).run [.conn ⟨1, [], [], [], false⟩, .conn ⟨2, [], [], [], false⟩, .afault 24, .conn ⟨3, [], [], [], false⟩, .svc]).openSocks
      = [0, 1, 2] ∧
    (((Server.start true).run [.conn ⟨1, [], [], [], false⟩, .conn ⟨2, [], [], [], false⟩, .afault 24, .conn ⟨3, [], [], [], false⟩, .svc]).close).openSocks
      = [] := by decide

/-- histories with failed opens: two failed re-opens, a good one, a peer, then close -/
example : (((Server.start false).run [.reopenf, .reopenf, .reopen, .conn ⟨1, [], [], [], false⟩, .svc]).close).openSocks = [] ∧
    ((Server.start false).run [.reopenf, .reopenf, .reopen, .conn ⟨1, [], [], [], false⟩, .svc]).nextSid = 5 := by decide

/-- non-vacuity / regression (F13, F14): TLS server, one peer never handshakes, one connects twice from the same address -/
example : ((Server.start true).run [.conn ⟨1, [], [], [], false⟩, .conn ⟨2, [], [], [.ok], false⟩, .svc, .conn ⟨2, [], [], [.ok], false⟩, .svc]).openSocks
    = [0, 3, 1] := by decide
example : (((Server.start true).run [.conn ⟨1, [], [], [], false⟩, .conn ⟨2, [], [], [.ok], false⟩, .svc, .conn ⟨2, [], [], [.ok], false⟩, .svc]).close).openSocks
    = [] := by decide

/-- C11.2 reopening and reconnecting a client never leaves an earlier socket open: after every history of
reopen / close / virtual-tyme ticks / serviceConnect (any `connect_ex` result — in progress, refused, accepted —, any
handshake response, the auto-reconnect retry tymer expiring before or after the connection was accepted) / transmit / full
`service()` passes whose sends and receives get ANY kernel responses (data, graceful EOF `b''`, resets and other faults,
would-block, partial sends — the C09 connection model composed in), for every
`reconnectable` flag and tymeout, plain and TLS, the only socket the client still holds open is its current one -/
theorem client_never_leaks (tls reconnectable : Bool) (tymeout : Nat) (ops : List COp) :
    (Cli.run (Cli.make tls reconnectable tymeout) ops).openIds = (Cli.run (Cli.make tls reconnectable tymeout) ops).cs.toList :=
  Cli.run_tidy ops (c := Cli.make tls reconnectable tymeout) rfl

/-- and after `close` it holds none -/
theorem client_close_releases_all (tls reconnectable : Bool) (tymeout : Nat) (ops : List COp) :
    ((Cli.run (Cli.make tls reconnectable tymeout) ops).close).openIds = [] := by
  have h := Cli.close_tidy (Cli.run_tidy ops (c := Cli.make tls reconnectable tymeout) rfl)
  rw [h.1, h.2]; rfl

/-- the retry path is really taken: a reconnecting client (tymeout 8) whose connect stays in progress gets a fresh socket at
every expiry of the retry tymer, and the abandoned ones are closed -/
example : (Cli.run (Cli.make false true 8) [.reopen, .connect 115 none, .tick 8, .connect 114 none, .tick 8, .connect 114 none]).openIds = [2]
    ∧ (Cli.run (Cli.make false true 8) [.reopen, .connect 115 none, .tick 8, .connect 114 none, .tick 8, .connect 114 none]).nextSid = 3 := by
  decide

/-- the far side closes gracefully (EOF read, connection cut off), then the client reopens: the old socket is closed -/
example : (Cli.run (Cli.make false false 0) [.connect 0 none, .feed [] [.data [1], .data []], .service 0 none]).io.cutoff = true ∧
    (Cli.run (Cli.make false false 0) [.connect 0 none, .feed [] [.data [1], .data []], .service 0 none, .reopen]).openIds = [1] := by
  decide

example : (Cli.run (Cli.make true false 0) [.reopen, .connect 0 (some (.fault 104)), .connect 111 none, .connect 0 (some .ok)]).openIds = [2] := by
  decide

end Hio.Tcp
