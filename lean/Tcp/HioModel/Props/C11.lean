import HioModel.Tcp.LifeLemmas
/-!
# C11 — closing a TCP endpoint releases every socket it opened

Property theorems only.  Models: `HioModel/Tcp/Server.lean` (`Server`/`ServerTls`: listen socket, `ixes`, `cxes`, and
`gone` = every remoter the server has dropped, so no socket it ever accepted leaves the picture) and
`HioModel/Tcp/Client.lean` (`Client`/`ClientTls` open/reopen/close/serviceConnect).
`Server.openSocks s` lists the ids of all sockets the server ever obtained that are still open.
Histories are arbitrary lists of: a peer connects (any address, any scripts — same-address reconnects included),
`service`, `transmitIx`, `removeIx`, `close`, `reopen`; exceptions escaping a call do not stop the history.
-/
namespace Hio.Tcp

/-- a remoter the server no longer references (replaced by a newer connection from the same address, handshake aborted,
removed after an error, removed by `removeIx`, or cleared by `close`) has been closed — at every point of every history -/
theorem dropped_are_closed (tls : Bool) (ops : List SOp) :
    ∀ r ∈ ((Server.start tls).run ops).gone, r.csOpen = false :=
  (run_life ops (start_life tls)).gone

/-- C11.1 after `close`, no socket the server ever obtained is open: the listen socket, every accepted connection,
TLS connections still handshaking, replaced same-address connections — for every history, plain and TLS -/
theorem close_releases_all (tls : Bool) (ops : List SOp) :
    (((Server.start tls).run ops).close).openSocks = [] :=
  close_openSocks (run_life ops (start_life tls))

/-- the same, with the `close` as part of the history (what the correspondence run observes) -/
theorem close_releases_all' (tls : Bool) (ops : List SOp) :
    ((Server.start tls).run (ops ++ [SOp.close])).openSocks = [] := by
  have : ∀ (ops : List SOp) (s : Server), s.run (ops ++ [SOp.close]) = (s.run ops).close := by
    intro ops
    induction ops with
    | nil => intro s; rfl
    | cons op ops ih => intro s; simp [Server.run, ih]
  rw [this]
  exact close_releases_all tls ops

/-- `reopen` leaves exactly the fresh listen socket open -/
theorem reopen_releases_all (tls : Bool) (ops : List SOp) :
    (((Server.start tls).run ops).reopen).openSocks = [((Server.start tls).run ops).nextSid] := by
  have h := close_openSocks (run_life ops (start_life tls))
  generalize (Server.start tls).run ops = s at h
  unfold Server.openSocks at h ⊢
  have e1 : s.reopen.ixes = s.close.ixes := rfl
  have e2 : s.reopen.cxes = s.close.cxes := rfl
  have e3 : s.reopen.gone = s.close.gone := rfl
  have e4 : s.close.curListen = none := rfl
  have e5 : s.reopen.curListen = some s.nextSid := rfl
  rw [e4] at h
  rw [e1, e2, e3, e5]
  simp only [Option.toList_none, List.nil_append] at h
  rw [h]; rfl

/-- non-vacuity / regression (F13, F14): TLS server, one peer never handshakes, one connects twice from the same address -/
example : ((Server.start true).run [.conn ⟨1, [], [], [], false⟩, .conn ⟨2, [], [], [.ok], false⟩, .svc, .conn ⟨2, [], [], [.ok], false⟩, .svc]).openSocks
    = [0, 3, 1] := by decide
example : (((Server.start true).run [.conn ⟨1, [], [], [], false⟩, .conn ⟨2, [], [], [.ok], false⟩, .svc, .conn ⟨2, [], [], [.ok], false⟩, .svc]).close).openSocks
    = [] := by decide

/-- C11.2 reopening and reconnecting a client never leaves an earlier socket open: after every history of
reopen / close / virtual-tyme ticks / serviceConnect (any `connect_ex` result — in progress, refused, accepted —, any
handshake response, the auto-reconnect retry tymer expiring before or after the connection was accepted) / transmit / full
`service()` passes whose sends and receives get ANY kernel responses (data, graceful EOF `b''`, resets and other faults,
would-block, partial sends — the C09 connection model composed in), for every
`reconnectable` flag and tymeout, plain and TLS, the only socket the client still holds open is its current one -/
theorem client_never_leaks (tls reconnectable : Bool) (tymeout : Nat) (ops : List COp) :
    (Cli.run (Cli.make tls reconnectable tymeout) ops).openIds = (Cli.run (Cli.make tls reconnectable tymeout) ops).cs.toList :=
  Cli.run_tidy ops (c := Cli.make tls reconnectable tymeout) rfl

/-- and after `close` it holds none -/
theorem client_close_releases_all (tls reconnectable : Bool) (tymeout : Nat) (ops : List COp) :
    ((Cli.run (Cli.make tls reconnectable tymeout) ops).close).openIds = [] := by
  have h := Cli.close_tidy (Cli.run_tidy ops (c := Cli.make tls reconnectable tymeout) rfl)
  rw [h.1, h.2]; rfl

/-- the retry path is really taken: a reconnecting client (tymeout 8) whose connect stays in progress gets a fresh socket at
every expiry of the retry tymer, and the abandoned ones are closed -/
example : (Cli.run (Cli.make false true 8) [.reopen, .connect 115 none, .tick 8, .connect 114 none, .tick 8, .connect 114 none]).openIds = [2]
    ∧ (Cli.run (Cli.make false true 8) [.reopen, .connect 115 none, .tick 8, .connect 114 none, .tick 8, .connect 114 none]).nextSid = 3 := by
  decide

/-- the far side closes gracefully (EOF read, connection cut off), then the client reopens: the old socket is closed -/
example : (Cli.run (Cli.make false false 0) [.connect 0 none, .feed [] [.data [1], .data []], .service 0 none]).io.cutoff = true ∧
    (Cli.run (Cli.make false false 0) [.connect 0 none, .feed [] [.data [1], .data []], .service 0 none, .reopen]).openIds = [1] := by
  decide

example : (Cli.run (Cli.make true false 0) [.reopen, .connect 0 (some (.fault 104)), .connect 111 none, .connect 0 (some .ok)]).openIds = [2] := by
  decide

end Hio.Tcp
