import HioModel.Tcp.FaultLemmas
import HioModel.Tcp.LifeLemmas
/-!
# C10 — connection-level socket faults never escape servicing

Property theorems only.  The fault handling of the ten sites (`send`/`receive` of `Client`, `ClientTls`, `Remoter`,
`RemoterTls`, and the two TLS handshakes) is DATA regenerated from the source on every run (`Gen/TcpFaults.lean`: the real
method called with a socket raising each errno of `errno.errorcode` and each ssl error class; the errno tuples as
written in the source; which exceptions the two loops of `Server.service` catch).  Theorems over those tables are by
`decide`, so deleting one errno from one tuple, or one `except` clause, breaks the build.
Model of `Server.service`: `HioModel/Tcp/Server.lean`.

FULL statement of clause 1: at every send/receive site, every `e` of the property's list (ECONNRESET EPIPE ENETRESET
ENETUNREACH EHOSTUNREACH ENETDOWN EHOSTDOWN ETIMEDOUT ECONNREFUSED, and TLS EOF at the TLS sites) is classified `cutoff`.
It is FALSE for EPIPE at all eight sites (`conn_fault_fails_at_epipe`: the method re-raises; the tree's own
`test_tcp_basic` pins `BrokenPipeError` from `Remoter.send`) — known finding C10-K1.  Everything else is proved.
-/
namespace Hio.Tcp

open Gen.Tcp in
def sendRecvTables : List (List (Nat × Nat)) :=
  [clientSend, clientRecv, clientTlsSend, clientTlsRecv, remoterSend, remoterRecv, remoterTlsSend, remoterTlsRecv]

open Gen.Tcp in
def tlsTables : List (List (Nat × Nat)) := [clientTlsSend, clientTlsRecv, remoterTlsSend, remoterTlsRecv]

/-- C10.1 (partial: EPIPE excluded) every connection-level errno of the property's list, by this platform's numeric
value, makes each of the eight send/receive methods mark the connection cut off instead of raising -/
theorem conn_fault_is_cutoff_partial :
    ∀ tbl ∈ sendRecvTables, ∀ e ∈ Gen.Tcp.connFaultErrnos, e ≠ Gen.Tcp.epipe → lookup tbl e = .cutoff := by
  decide +kernel

/-- the excluded point really fails, at all eight sites (replayed on the implementation; known finding C10-K1) -/
theorem conn_fault_fails_at_epipe : ∀ tbl ∈ sendRecvTables, lookup tbl Gen.Tcp.epipe = .raisedOS := by
  decide +kernel

/-- the property's list is not empty after the exclusion, and EPIPE is in it (non-vacuity of the two statements above) -/
example : Gen.Tcp.epipe ∈ Gen.Tcp.connFaultErrnos ∧ (Gen.Tcp.connFaultErrnos.filter (· ≠ Gen.Tcp.epipe)).length = 8 := by
  decide

/-- C10.1 TLS EOF (`ssl.SSLEOFError`) at the four TLS send/receive sites marks the connection cut off -/
theorem tls_eof_is_cutoff : ∀ tbl ∈ tlsTables, lookup tbl Gen.Tcp.sslEof = .cutoff := by
  decide +kernel

/-- C10.1 a handshake in progress that hits any connection-level fault of the list (EPIPE included), a TLS EOF or
ECONNABORTED is aborted (socket closed, flag set), on the server side and on the client side — no exclusion -/
theorem handshake_fault_is_aborted :
    ∀ e ∈ Gen.Tcp.connFaultErrnos ++ [Gen.Tcp.sslEof, Gen.Tcp.econnaborted],
      hsLookup e = .aborted ∧ clientHsLookup e = .aborted := by
  decide +kernel

/-- "try again" is not a fault: EAGAIN (plain) and SSLWantRead/SSLWantWrite (TLS, handshakes included) -/
theorem wouldblock_is_not_a_fault :
    (∀ k : Kind, lookup (sendTable k) (wbCode k) = .wouldblock ∧ lookup (recvTable k) (wbCode k) = .wouldblock) ∧
    (∀ tbl ∈ tlsTables, lookup tbl Gen.Tcp.wantWrite = .wouldblock) ∧
    (∀ c ∈ [Gen.Tcp.wantRead, Gen.Tcp.wantWrite], hsLookup c = .wouldblock ∧ clientHsLookup c = .wouldblock) := by
  refine ⟨fun k => by cases k <;> decide +kernel, by decide +kernel, by decide +kernel⟩

/-- codes < 1000 (plain errnos) that a table classifies as `cutoff` -/
def cutoffErrnos (tbl : List (Nat × Nat)) : List Nat := (tbl.filter fun p => p.2 == 1 && p.1 < 1000).map (·.1)

/-- translator cross-check: the errno tuples read from the source text (AST) are exactly the errnos the probing of the
running code found to be `cutoff`, at all eight sites -/
theorem ast_matches_probe :
    cutoffErrnos Gen.Tcp.clientSend = Gen.Tcp.astClientSend ∧ cutoffErrnos Gen.Tcp.clientRecv = Gen.Tcp.astClientRecv ∧
    cutoffErrnos Gen.Tcp.clientTlsSend = Gen.Tcp.astClientTlsSend ∧ cutoffErrnos Gen.Tcp.clientTlsRecv = Gen.Tcp.astClientTlsRecv ∧
    cutoffErrnos Gen.Tcp.remoterSend = Gen.Tcp.astRemoterSend ∧ cutoffErrnos Gen.Tcp.remoterRecv = Gen.Tcp.astRemoterRecv ∧
    cutoffErrnos Gen.Tcp.remoterTlsSend = Gen.Tcp.astRemoterTlsSend ∧ cutoffErrnos Gen.Tcp.remoterTlsRecv = Gen.Tcp.astRemoterTlsRecv := by
  decide +kernel

/-- both per-connection loops of `Server.service` catch `OSError` (read from the source on every run) -/
theorem loops_catch_oserror : Gen.Tcp.recvLoopCatchesOSError = true ∧ Gen.Tcp.sendLoopCatchesOSError = true := by
  decide

/-- so does the single-connection entry point `Server.serviceReceivesIx(ca)` -/
theorem receivesIx_catches_oserror : Gen.Tcp.recvIxCatchesOSError = true := by decide

/-- `serviceReceivesIx(ca)` on a serviceable server never lets a socket fault out: the only thing it raises is the
`ValueError` for an address it does not know (and then nothing changes) -/
theorem receivesIx_total (s : Server) (ca : Nat) (h : GoodSrv s) :
    (s.step (.rxix ca)).2 = .ok ∨ ((s.step (.rxix ca)).2 = .raised .other ∧ dictGet s.ixes ca = none ∧ (s.step (.rxix ca)).1 = s) := by
  simp only [Server.step]
  cases hg : dictGet s.ixes ca with
  | none => exact Or.inr ⟨rfl, rfl, rfl⟩
  | some r =>
    simp only
    have hgood : GoodRem r := by
      have : ∀ (t : Table), dictGet t ca = some r → (∀ p ∈ t, GoodRem p.2) → GoodRem r := by
        intro t
        induction t with
        | nil => intro h0; simp [dictGet] at h0
        | cons kv rest ih =>
          obtain ⟨k, v⟩ := kv
          intro h0 hall
          unfold dictGet at h0
          split at h0
          · cases h0; exact hall (k, r) (by simp)
          · exact ih h0 (fun p hp => hall p (by simp [hp]))
      exact this s.ixes hg h.ix
    have hsp := Rem.serviceReceives_spec r hgood
    generalize r.serviceReceives = res at hsp
    obtain ⟨r', e⟩ := res
    cases e with
    | none => exact Or.inl rfl
    | some e =>
      cases e with
      | osError => simp [catches, receivesIx_catches_oserror]
      | other => exact absurd rfl hsp.1

/-- C10.2 servicing a server never raises, whatever the sockets do: for EVERY server state in which the server is
listening and the remoters it references have their sockets open, and EVERY script (any fault code — listed or not —
at any send, recv or handshake call of any connection), `Server.service` returns normally and leaves such a state.
`CalmQ`: nothing queued on the LISTEN socket will make `accept()` itself raise (EMFILE and the like are resource errors of
the listener, which `serviceAccepts` re-raises by design; C11 covers what they must not leak) -/
theorem service_total (s : Server) (h : GoodSrv s) (hq : CalmQ s) : (s.service).2 = none ∧ GoodSrv (s.service).1 :=
  ⟨(service_spec loops_catch_oserror.1 loops_catch_oserror.2 h hq).1,
   (service_spec loops_catch_oserror.1 loops_catch_oserror.2 h hq).2.1.1⟩

/-- C10.2 for every history: after any sequence of peers connecting (any address, any scripts), services, transmits
and removals on a plain or TLS server, the next `service` does not raise (hence none in the history did) -/
theorem service_total_history (tls : Bool) (ops : List SOp) (hq : ∀ op ∈ ops, op.quiet = true) :
    (((Server.start tls).run ops).service).2 = none :=
  (service_total _ (run_good loops_catch_oserror.1 loops_catch_oserror.2 ops hq (start_good tls) (start_calm tls)).1
    (run_good loops_catch_oserror.1 loops_catch_oserror.2 ops hq (start_good tls) (start_calm tls)).2).1

/-- C10.2 (re-use) when `Server.reopen()` forgets the remoters of the previous opening (flag probed from the code), a server that is
closed and re-opened — whatever state it was in, connections open or handshaking — is serviceable again: the next
`service()` does not raise.  (At a tree where the flag is false the remoters closed by `close()` stay in `.ixes` and that service raises
AttributeError: known finding C10-K4.) -/
theorem service_after_reopen_total (hflag : Gen.Tcp.reopenClearsIxes = true) (s : Server) :
    (s.reopen.service).2 = none := by
  have hg : GoodSrv s.reopen := by
    refine ⟨rfl, ?_, ?_, fun _ => rfl⟩
    · intro p hp
      simp [Server.reopen, Server.reclose, hflag] at hp
    · intro p hp
      simp [Server.reopen, Server.reclose, Server.close, hflag] at hp
  exact (service_total _ hg (by intro i hi; simp [Server.reopen, Server.reclose, Server.close, hflag] at hi)).1

/-- non-vacuity: two peers, one resets during receive, one breaks the pipe on send -/
example : (∀ op ∈ [SOp.conn ⟨1, [.fault 32], [.data [1]], [], false⟩, SOp.conn ⟨2, [], [.fault 104], [], false⟩, SOp.svc, SOp.tx 1 [7], SOp.svc],
    op.quiet = true) := by decide

/-- C10.3 siblings are unaffected: after the connects phase, what `service` leaves in the connection table is the table
mapped entry by entry — each connection's receive pass, then its send pass, depend on that connection's own state and
script only; a connection that raised is dropped, every other entry is exactly what it would be had nobody faulted -/
theorem siblings_unaffected (s : Server) (h : GoodSrv s) (hq : CalmQ s) :
    (s.service).1.ixes =
      ((s.connects).1.ixes.filterMap (keep Rem.serviceReceives)).filterMap (keep Rem.serviceSends) :=
  (service_spec loops_catch_oserror.1 loops_catch_oserror.2 h hq).2.2

/-- the same, entry-wise: a connection whose own two passes do not raise is in the table afterwards, serviced -/
theorem sibling_serviced (s : Server) (h : GoodSrv s) (hc : CalmQ s) (p q : Nat × Rem) (hp : p ∈ (s.connects).1.ixes)
    (hq : (keep Rem.serviceReceives p).bind (keep Rem.serviceSends) = some q) : q ∈ (s.service).1.ixes := by
  rw [siblings_unaffected s h hc]
  cases h1 : keep Rem.serviceReceives p with
  | none => rw [h1] at hq; cases hq
  | some m =>
    rw [h1] at hq
    exact List.mem_filterMap.mpr ⟨m, List.mem_filterMap.mpr ⟨p, hp, h1⟩, hq⟩

/-- C10.2 (client side, partial: EPIPE is not `Benign`) a `Client`/`ClientTls` (or remoter) whose socket only ever
accepts, delivers, would-blocks or raises faults the tables classify as cutoff never raises from `service`,
`serviceSends` or `serviceReceives`, for every history of calls -/
theorem client_service_total_partial (c : Conn) (hb : Benign c) (ops : List Op) : NoRaise c ops :=
  noRaise_of_benign ops c hb

/-- every listed fault except EPIPE is `Benign` at every send/receive site, so the theorem above covers them -/
theorem listed_faults_benign (k : Kind) (e : Nat) (he : e ∈ Gen.Tcp.connFaultErrnos) (hne : e ≠ Gen.Tcp.epipe) :
    BenignS k (.fault e) ∧ BenignR k (.fault e) := by
  have hs : sendTable k ∈ sendRecvTables := by cases k <;> simp [sendTable, sendRecvTables]
  have hr : recvTable k ∈ sendRecvTables := by cases k <;> simp [recvTable, sendRecvTables]
  exact ⟨Or.inr (conn_fault_is_cutoff_partial _ hs e he hne), Or.inr (conn_fault_is_cutoff_partial _ hr e he hne)⟩

example : Benign { kind := .clientTls, sends := [.acc 3, .fault 104], recvs := [.data [1], .fault 1008] } := by
  refine ⟨Or.inl rfl, ?_, ?_⟩ <;> intro r hr <;> simp at hr <;> rcases hr with rfl | rfl
  · trivial
  · exact Or.inr (by decide +kernel)
  · trivial
  · exact Or.inr (by decide +kernel)

/-- C10.2 (client side, connect/handshake passes, multi-pass): for every `Client`/`ClientTls`, reconnectable or not, and every
history of reopen / close / ticks / serviceConnect — in particular the passes that FOLLOW an aborted handshake — no call
raises, provided every handshake response is one the code classifies (done / would-block / aborted);
`handshake_fault_is_aborted` shows that all listed connection-level faults, TLS EOF and ECONNABORTED are of that kind -/
theorem client_connect_total (tls reconnectable : Bool) (tymeout : Nat) (ops : List COp) (ho : ∀ op ∈ ops, op.ok) :
    Cli.NoRaise (Cli.make tls reconnectable tymeout) ops :=
  Cli.noRaise_of_calm ops _ (by intro h hh; simp [Cli.make] at hh) ho

example : ∀ op ∈ [COp.connect 0 (some (.fault 104)), COp.connect 0 none, COp.connect 0 (some .ok)], op.ok := by
  intro op h
  simp at h
  rcases h with rfl | rfl | rfl
  · exact ⟨Or.inr (Or.inl (by decide +kernel)), by decide +kernel⟩
  · exact (by decide +kernel : RcOK 0)
  · exact ⟨trivial, by decide +kernel⟩

/-- C10.1 the CONNECT call is a fault site too: whatever connection-level errno of the property's list `connect_ex`
returns, `Client.accept()` (hence `ClientTls.connect()`, `serviceConnect()`, `service()`) does not raise and does not take
the socket for connected — it tries again later, on the same or on a fresh socket; `0`/`EISCONN` mean connected; a
connect still in progress means try again (table probed from the code over every errno) -/
theorem connect_fault_is_retry :
    (∀ e ∈ Gen.Tcp.connFaultErrnos, connectLookup e = .retry ∨ connectLookup e = .reopen) ∧
    connectLookup 0 = .connected ∧ connectLookup Gen.Tcp.eisconn = .connected ∧
    (∀ e ∈ [Gen.Tcp.einprogress, Gen.Tcp.ealready, Gen.Tcp.eagain], connectLookup e = .retry) := by
  decide +kernel

/-- so every listed fault at the connect site satisfies the hypothesis of `client_connect_total` -/
theorem listed_connect_faults_ok : ∀ e ∈ Gen.Tcp.connFaultErrnos, RcOK e := by
  decide +kernel

end Hio.Tcp
