import HioModel.Tcp.IdleLemmas
/-!
# C12 — idle HTTP server connections time out after the configured tymeout

Property theorems only.  Model: `HioModel/Tcp/Idle.lean` — one server connection in virtual tyme (`Nat`, any unit):
the remoter's tymer `start`/`stop`, its `tymeout` (0 = never), the arrivals since the last service; `svc` is one
`http.Server.service()` for this connection in the code's order (idle check, then receive + `refresh()`, then the parsed
request may declare the connection persistent).  Histories are arbitrary lists of `tick d`, `arrive`, `svc`.
`accept t T` is a connection accepted at tyme `t` by a server whose configured tymeout is `T`
(that `T` really reaches the remoter, for plain and TLS servers, is what the correspondence run checks on the code).
-/
namespace Hio.Idle

/-- after ANY history the tymer stops exactly one tymeout after it was last (re)started: a burst of n receives does not
push the deadline n tymeouts away -/
theorem deadline_invariant (t T : Nat) (evs : List Ev) :
    (run (accept t T) evs).stop = (run (accept t T) evs).start + T ∧ (run (accept t T) evs).start ≤ (run (accept t T) evs).now :=
  ⟨(run_wf evs (accept_wf t T)).dur, (run_wf evs (accept_wf t T)).le⟩

/-- a service that sees traffic (however many chunks) on a live, unexpired connection restarts the tymer at the current tyme -/
theorem traffic_restarts_tymer (c : IC) (T : Nat) (h : Wf c T) (ho : c.isOpen = true) (hx : expired c = false)
    (hi : c.inbox ≠ []) : (svc c).start = c.now ∧ (svc c).stop = c.now + T ∧ (svc c).isOpen = true := by
  unfold svc
  simp [ho, hx, hi, h.dur]

/-- C12.1 a non-persistent connection that has had no traffic for (at least) the tymeout of virtual tyme is closed by the
next service — whatever happened before, however the idle time is cut into ticks, and however many services ran in between. -/
theorem idle_closed (c : IC) (T : Nat) (evs : List Ev) (h : Wf c T) (hT : 0 < T) (hp : c.tymeout = T)
    (hi : c.inbox = []) (hq : noArrivals evs = true) (hidle : T ≤ ticks evs) :
    (run c (evs ++ [Ev.svc])).isOpen = false := by
  rw [run_append]
  have q := run_quiet evs c hq hi
  generalize run c evs = c' at q
  simp only [run, step]
  unfold svc
  by_cases ho : c'.isOpen = true
  · have hx : expired c' = true := by
      unfold expired
      rw [q.2.2.1, hp, q.1, q.2.2.2.2.1, h.dur]
      have := h.le
      simp only [gt_iff_lt, ge_iff_le, Bool.and_eq_true, decide_eq_true_eq]
      omega
    simp [ho, hx]
  · simp [ho]

/-- non-vacuity: accepted at 3, tymeout 8, ticks 5 + 3 with a service in between -/
example : (run (accept 3 8) ([Ev.tick 5, Ev.svc, Ev.tick 3] ++ [Ev.svc])).isOpen = false := by decide

/-- once closed, closed for good -/
theorem stays_closed (c : IC) (evs : List Ev) (h : c.isOpen = false) : (run c evs).isOpen = false :=
  run_closed evs c h

/-- one round of an active connection: some ticks and at least one arrival, then a service -/
def roundOK (T : Nat) (r : List Ev) : Bool := noSvc r && hasArrival r && decide (ticks r < T)

def runRounds (c : IC) : List (List Ev) → IC
  | [] => c
  | r :: rs => runRounds (svc (run c r)) rs

/-- C12.2 a connection with traffic in every tymeout window is never closed for being idle: if every service comes less
than one tymeout after the previous one (or after acceptance) and traffic arrived in between, the connection stays open
— for any number of rounds, any tymeout > 0. -/
theorem active_never_closed (T : Nat) (rs : List (List Ev)) : ∀ (c : IC), Wf c T → c.isOpen = true → c.now = c.start →
    (∀ r ∈ rs, roundOK T r = true) → (runRounds c rs).isOpen = true := by
  induction rs with
  | nil => intro c _ ho _ _; exact ho
  | cons r rs ih =>
    intro c h ho hn hr
    have hk := hr r (by simp)
    simp only [roundOK, Bool.and_eq_true, decide_eq_true_eq] at hk
    obtain ⟨⟨h1, h2⟩, h3⟩ := hk
    have q := run_nosvc r c h1 ho
    have hw : Wf (run c r) T := run_wf r h
    have hx : expired (run c r) = false := by
      unfold expired
      rw [q.1, q.2.2.2.2.1, h.dur, hn]
      simp only [gt_iff_lt, ge_iff_le, Bool.and_eq_false_imp, decide_eq_true_eq, decide_eq_false_iff_not]
      intro _; omega
    have t := traffic_restarts_tymer (run c r) T hw q.2.2.2.1 hx (q.2.2.2.2.2.1 h2)
    exact ih (svc (run c r)) (svc_wf hw) t.2.2 (by rw [t.1, (svc_now (run c r))]) (fun r' hr' => hr r' (by simp [hr']))
where
  svc_now (c : IC) : (svc c).now = c.now := by
    unfold svc; split; rfl; split; rfl; split <;> rfl

example : roundOK 8 [Ev.tick 3, Ev.arrive .data, Ev.tick 4] = true := by decide
example : (runRounds (accept 0 8) [[Ev.tick 7, Ev.arrive .data], [Ev.arrive .data, Ev.tick 7], [Ev.tick 3, Ev.arrive .data, Ev.tick 4]]).isOpen = true := by
  decide

/-- a complete persistent request, once serviced on a live connection, switches the idle timeout off -/
theorem persistent_request_disables (c : IC) (ho : c.isOpen = true) (hx : expired c = false) (hr : Arr.req ∈ c.inbox) :
    (svc c).tymeout = 0 ∧ (svc c).isOpen = true := by
  unfold svc
  have hne : c.inbox ≠ [] := by intro e; rw [e] at hr; simp at hr
  simp [ho, hx, hne, hr]

/-- C12.3 a persistent connection (remoter tymeout 0), and any connection of a server configured with tymeout 0, is never closed for being idle -/
theorem persistent_never_closed (evs : List Ev) : ∀ (c : IC), c.tymeout = 0 → c.isOpen = true →
    (run c evs).isOpen = true ∧ (run c evs).tymeout = 0 := by
  induction evs with
  | nil => intro c h ho; exact ⟨ho, h⟩
  | cons e es ih =>
    intro c h ho
    cases e with
    | tick d => exact ih _ h ho
    | arrive a =>
      have hs : step c (.arrive a) = { c with inbox := c.inbox ++ [a] } := by simp [step, ho]
      simp only [run]; rw [hs]; exact ih _ h ho
    | svc =>
      simp only [run, step]
      apply ih
      · unfold svc; simp only [ho, expired, h]; simp; split <;> simp [h]
      · unfold svc; simp only [ho, expired, h]; simp; split <;> simp [ho]

theorem zero_tymeout_never_closes (t : Nat) (evs : List Ev) : (run (accept t 0) evs).isOpen = true :=
  (persistent_never_closed evs (accept t 0) rfl rfl).1

end Hio.Idle
