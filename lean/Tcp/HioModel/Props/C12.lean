import HioModel.Tcp.IdleLemmas
/-!
# C12 — idle HTTP server connections time out after the configured tymeout

Property theorems only.  Model: `HioModel/Tcp/Idle.lean` — one server connection in virtual tyme (`Nat`, any unit):
the remoter's tymer `start`/`stop`, its `tymeout` (0 = never), the arrivals since the last service, the bytes queued for
sending and how many the socket takes per `send` (0 = would block); `svc` is one `http.Server.service()` for this
connection in the code's order (idle check, receive + `refresh()`, the parsed request may declare the connection
persistent, the response is queued, a finished non-persistent exchange is closed by the HTTP layer, send + `refresh()`
when at least one byte left).  Histories are arbitrary lists of `tick d`, `arrive`, `svc`, `wind t` (the server re-wound
onto a tymist whose tyme is `t`) and `cap k` (the peer's willingness to take bytes changes).
`accept t T r` is a connection accepted at tyme `t` by a server whose configured tymeout is `T` and whose application
answers a request with `r` bytes (that `T` really reaches the remoter, for plain and TLS servers, is what the
correspondence run checks on the code).  `idleClosed` is a ghost flag: closed by the idle check, as opposed to the HTTP
layer finishing a non-persistent exchange.
-/
namespace Hio.Idle

/-- while the connection lives, after ANY history (traffic in either direction, bursts, partial sends, blocked sends,
re-winds) the tymer stops exactly one tymeout after it was last (re)started -/
theorem deadline_invariant (t T r : Nat) (evs : List Ev) (h : (run (accept t T r) evs).isOpen = true) :
    (run (accept t T r) evs).stop = (run (accept t T r) evs).start + T ∧
      (run (accept t T r) evs).start ≤ (run (accept t T r) evs).now :=
  ⟨(run_wf evs (accept_wf t T r) rfl h).dur, (run_wf evs (accept_wf t T r) rfl h).le⟩

/-- what counts as traffic at a service: bytes from the peer to read, or queued output of which the socket takes ≥ 1 byte -/
def Traffic (c : IC) : Prop := c.inbox ≠ [] ∨ 0 < min c.cap c.txlen

/-- a service with traffic in either direction on a live, unexpired connection restarts the tymer at the current tyme
(unless the HTTP layer closes it because a non-persistent exchange is complete) -/
theorem traffic_restarts_tymer (c : IC) (T : Nat) (h : Wf c T) (ho : c.isOpen = true) (hx : expired c = false)
    (ht : Traffic c) (hs : (svc c).isOpen = true) :
    (svc c).start = c.now ∧ (svc c).stop = c.now + T ∧ (svc c).idleClosed = c.idleClosed := by
  unfold svc at hs ⊢
  simp only [ho, hx, Bool.not_true, Bool.false_eq_true, ↓reduceIte] at hs ⊢
  by_cases hi : c.inbox = []
  · have hm : 0 < min c.cap c.txlen := by rcases ht with ht | ht; exact absurd hi ht; exact ht
    have hin : intake c = c := by simp [intake, hi]
    rw [hin] at hs ⊢
    split at hs
    · cases hs
    · rename_i hc
      simp only [hc, Bool.false_eq_true, ↓reduceIte, output, hm, refresh, h.dur]
      refine ⟨trivial, ?_, trivial⟩
      omega
  · split at hs
    · cases hs
    · rename_i hc
      simp only [hc, Bool.false_eq_true, ↓reduceIte]
      have e1 : (intake c).now = c.now ∧ (intake c).start = c.now ∧ (intake c).stop = c.now + T ∧
          (intake c).idleClosed = c.idleClosed := by
        simp only [intake, hi, ↓reduceIte, refresh, h.dur]
        refine ⟨trivial, trivial, ?_, trivial⟩
        omega
      unfold output
      split
      · simp only [refresh, e1.1, e1.2.1, e1.2.2.1, e1.2.2.2]
        refine ⟨trivial, ?_, trivial⟩
        omega
      · exact ⟨e1.2.1, e1.2.2.1, e1.2.2.2⟩

/-- re-winding the server onto another tymist restarts the tymer of a live connection at the new tyme -/
theorem wind_restarts_tymer (c : IC) (T t : Nat) (h : Wf c T) (ho : c.isOpen = true) :
    (step c (.wind t)).now = t ∧ (step c (.wind t)).start = t ∧ (step c (.wind t)).stop = t + T := by
  simp only [step, ho, ↓reduceIte, h.dur, true_and]
  omega

/-- C12.1 a non-persistent connection that has had no traffic for (at least) the tymeout of virtual tyme is closed by the
next service — whatever happened before (any `Wf` state: after traffic, after a re-wind, …), however the idle time is cut
into ticks, however many services ran in between, and WHATEVER IS STILL QUEUED FOR SENDING when the peer takes nothing
(`cap = 0`): blocked output is not traffic and does not keep the connection. -/
theorem idle_closed (c : IC) (T : Nat) (evs : List Ev) (h : Wf c T) (hT : 0 < T) (hp : c.tymeout = T)
    (hs : Still c) (hq : quiet evs = true) (hidle : T ≤ ticks evs) :
    (run c (evs ++ [Ev.svc])).isOpen = false := by
  rw [run_append]
  by_cases ho : c.isOpen = true
  · rcases run_quiet evs c hq hs ho with q | q
    · exact run_closed [Ev.svc] _ q
    · generalize run c evs = c' at q
      simp only [run, step]
      have hx : expired c' = true := by
        unfold expired
        rw [q.2.2.2.1, hp, q.2.1, q.2.2.2.2.2, h.dur]
        have := h.le
        simp only [gt_iff_lt, ge_iff_le, Bool.and_eq_true, decide_eq_true_eq]
        omega
      unfold svc
      simp [q.1, hx]
  · exact run_closed _ _ (run_closed evs c (by simpa using ho))

/-- non-vacuity: accepted at 3, tymeout 8, ticks 5 + 3 with a service in between -/
example : (run (accept 3 8 130) ([Ev.tick 5, Ev.svc, Ev.tick 3] ++ [Ev.svc])).isOpen = false := by decide

/-- non-vacuity with blocked output: a non-persistent request answered into a socket that takes nothing -/
example : Still (run (accept 0 8 130) [Ev.cap 0, Ev.arrive .req10, Ev.svc]) ∧
    (run (accept 0 8 130) [Ev.cap 0, Ev.arrive .req10, Ev.svc]).txlen = 130 ∧
    (run (run (accept 0 8 130) [Ev.cap 0, Ev.arrive .req10, Ev.svc]) ([Ev.tick 8] ++ [Ev.svc])).isOpen = false := by
  refine ⟨⟨by decide, Or.inr (by decide)⟩, by decide, by decide⟩

/-- once closed, closed for good -/
theorem stays_closed (c : IC) (evs : List Ev) (h : c.isOpen = false) : (run c evs).isOpen = false :=
  run_closed evs c h

def runRounds (c : IC) : List (List Ev) → IC
  | [] => c
  | r :: rs => runRounds (svc (run c r)) rs

/-- every round (ticks, arrivals, changes of the peer's appetite — then a service) lasts less than a tymeout and has
traffic at its service, in either direction -/
def ActiveRounds (T : Nat) : IC → List (List Ev) → Prop
  | _, [] => True
  | c, r :: rs => calm r = true ∧ ticks r < T ∧ ((run c r).isOpen = true → Traffic (run c r)) ∧
      ActiveRounds T (svc (run c r)) rs

theorem svc_now (c : IC) : (svc c).now = c.now := by
  unfold svc
  split
  · rfl
  · split
    · rfl
    · simp only
      have hi : (intake c).now = c.now := by unfold intake; split <;> rfl
      split
      · exact hi
      · unfold output; split <;> simp [refresh, hi]

/-- C12.2 a connection with traffic in every tymeout window is never closed for being idle: if every service comes less
than one tymeout after the previous one (or after acceptance / a re-wind) and there was traffic for it — bytes from the
peer, OR queued output of which the socket took at least one byte (a response leaving in partial sends) — the idle check
never closes it, for any number of rounds and any tymeout.  (It may be closed by the HTTP layer when a non-persistent
exchange is complete; that is not `idleClosed`.) -/
theorem active_never_closed (T : Nat) (rs : List (List Ev)) : ∀ (c : IC), c.idleClosed = false →
    (c.isOpen = true → Wf c T ∧ c.now = c.start) → ActiveRounds T c rs → (runRounds c rs).idleClosed = false := by
  induction rs with
  | nil => intro c hi _ _; exact hi
  | cons r rs ih =>
    intro c hic hw ha
    obtain ⟨h1, h2, h3, h4⟩ := ha
    by_cases ho : c.isOpen = true
    · obtain ⟨hwf, hn⟩ := hw ho
      have q := run_calm r c h1 ho
      have hw' : Wf (run c r) T := run_wf r hwf ho q.2.2.2.1
      have hx : expired (run c r) = false := by
        unfold expired
        rw [q.1, q.2.2.2.2.1, hwf.dur, hn]
        simp only [gt_iff_lt, ge_iff_le, Bool.and_eq_false_imp, decide_eq_true_eq, decide_eq_false_iff_not]
        intro _; omega
      apply ih (svc (run c r)) _ _ h4
      · by_cases hso : (svc (run c r)).isOpen = true
        · rw [(traffic_restarts_tymer (run c r) T hw' q.2.2.2.1 hx (h3 q.2.2.2.1) hso).2.2, q.2.2.2.2.2]; exact hic
        · -- closed, but not by the idle check: the connection had not expired
          have : (svc (run c r)).idleClosed = (run c r).idleClosed := by
            unfold svc
            simp only [q.2.2.2.1, hx, Bool.not_true, Bool.false_eq_true, ↓reduceIte]
            have hii : (intake (run c r)).idleClosed = (run c r).idleClosed := by unfold intake; split <;> rfl
            split
            · exact hii
            · unfold output; split <;> simp [refresh, hii]
          rw [this, q.2.2.2.2.2]; exact hic
      · intro hso
        have t := traffic_restarts_tymer (run c r) T hw' q.2.2.2.1 hx (h3 q.2.2.2.1) hso
        exact ⟨svc_wf hw', by rw [t.1, svc_now]⟩
    · have hc : c.isOpen = false := by simpa using ho
      have hrc : (run c r).isOpen = false := run_closed r c hc
      have hid : ∀ (evs : List Ev) (c : IC), c.isOpen = false → (run c evs).idleClosed = c.idleClosed := by
        intro evs
        induction evs with
        | nil => intro c _; rfl
        | cons e es ihe =>
          intro c hcl
          have hs : (step c e).idleClosed = c.idleClosed := by
            cases e with
            | tick d => rfl
            | arrive a => simp [step, hcl]
            | svc => simp only [step]; rw [svc_closed c hcl]
            | wind t => simp [step, hcl]
            | cap k => simp [step, hcl]
          simp only [run]; rw [ihe _ (step_closed c e hcl), hs]
      apply ih (svc (run c r)) _ _ h4
      · rw [svc_closed _ hrc, hid r c hc]; exact hic
      · intro hso; rw [svc_closed _ hrc, hrc] at hso; cases hso

/-- non-vacuity: bytes from the peer every round -/
example : ActiveRounds 8 (accept 0 8 130) [[Ev.tick 7, Ev.arrive .data], [Ev.arrive .data, Ev.tick 7], [Ev.tick 3, Ev.arrive .data, Ev.tick 4]] := by
  refine ⟨by decide, by decide, fun _ => Or.inl (by decide), by decide, by decide, fun _ => Or.inl (by decide),
    by decide, by decide, fun _ => Or.inl (by decide), trivial⟩

/-- non-vacuity: send-side traffic only — a 130-byte response leaving 3 bytes per pass, 7 ticks between passes, tymeout 8 -/
example : ActiveRounds 8 (run (accept 0 8 130) [Ev.cap 3, Ev.arrive .req10, Ev.svc]) [[Ev.tick 7], [Ev.tick 7], [Ev.tick 7]] := by
  refine ⟨by decide, by decide, fun _ => Or.inr (by decide), by decide, by decide, fun _ => Or.inr (by decide),
    by decide, by decide, fun _ => Or.inr (by decide), trivial⟩

example : (runRounds (run (accept 0 8 130) [Ev.cap 3, Ev.arrive .req10, Ev.svc]) [[Ev.tick 7], [Ev.tick 7], [Ev.tick 7]]).isOpen = true := by
  decide

/-- a complete persistent request, once serviced on a live unexpired connection, switches the idle timeout off -/
theorem persistent_request_disables (c : IC) (ho : c.isOpen = true) (hx : expired c = false) (hr : Arr.req ∈ c.inbox) :
    (svc c).tymeout = 0 := by
  have hne : c.inbox ≠ [] := by intro e; rw [e] at hr; simp at hr
  have hi : (intake c).tymeout = 0 := by simp [intake, hne, hr]
  unfold svc
  simp only [ho, hx, Bool.not_true, Bool.false_eq_true, ↓reduceIte]
  split
  · exact hi
  · unfold output; split <;> simp [refresh, hi]

/-- C12.3 a persistent connection (remoter tymeout 0), and any connection of a server configured with tymeout 0, is never
closed for being idle, whatever the history -/
theorem persistent_never_closed (evs : List Ev) : ∀ (c : IC), c.tymeout = 0 → c.idleClosed = false →
    (run c evs).idleClosed = false ∧ (run c evs).tymeout = 0 := by
  induction evs with
  | nil => intro c h hi; exact ⟨hi, h⟩
  | cons e es ih =>
    intro c h hi
    apply ih
    · cases e with
      | tick d => exact h
      | arrive a => simp only [step]; split; cases a <;> exact h; exact h
      | wind t => simp only [step]; split <;> exact h
      | cap k => simp only [step]; split <;> exact h
      | svc =>
        have hit : (intake c).tymeout = 0 := by unfold intake; split; exact h; simp [refresh, h]
        simp only [step]; unfold svc
        split
        · exact h
        · split
          · exact h
          · simp only; split
            · exact hit
            · unfold output; split <;> simp [refresh, hit]
    · cases e with
      | tick d => exact hi
      | arrive a => simp only [step]; split; cases a <;> exact hi; exact hi
      | wind t => simp only [step]; split <;> exact hi
      | cap k => simp only [step]; split <;> exact hi
      | svc =>
        have hii : (intake c).idleClosed = false := by unfold intake; split; exact hi; simp [refresh, hi]
        have hx : expired c = false := by simp [expired, h]
        simp only [step]; unfold svc
        split
        · exact hi
        · simp only [hx, Bool.false_eq_true, ↓reduceIte]
          split
          · exact hii
          · unfold output; split <;> simp [refresh, hii]

theorem zero_tymeout_never_closes (t r : Nat) (evs : List Ev) : (run (accept t 0 r) evs).idleClosed = false :=
  (persistent_never_closed evs (accept t 0 r) rfl rfl).1

end Hio.Idle
