import HioModel.Tcp.Lemmas
import HioModel.Tcp.ClientStream
/-!
# C09 — TCP/TLS byte streams are delivered exactly, in order, under partial I/O

Property theorems only.  Model: `HioModel/Tcp/Model.lean` — one connection object (`Client`, `ClientTls`, `Remoter`,
`RemoterTls`; the class is the parameter `kind`) on a socket whose behaviour is an ARBITRARY script of kernel responses
(`send` takes 0..n bytes or raises any fault code, `recv` returns a chunk / EOF or raises any fault code; an exhausted
script means "would block").  What the class does with a raised fault comes from the outcome tables regenerated from the
source on every run (`Gen/TcpFaults.lean`); none of the theorems below depends on the content of those tables except
`receives_all`/`wouldblock_is_benign`, which are re-checked against them by `decide`.

`run c ops` is the connection after the call history `ops` (`tx d`, `serviceSends`, `serviceReceives`,
`serviceReceiveOnce`, `clearRxbs`, `service`, and
`rst`: the peer resets the connection — queued bytes are still delivered but `getpeername()` fails from then on);
`kacc` / `kdel` are ghost fields: the bytes the kernel has accepted from / delivered to the object — what the peer can
ever have seen, and what actually arrived.  All statements are for every history, payload sequence, script and class, under the guard `wl = false ∨ PeerSafe kind`:
no wire log attached, or a class whose wire-log call does not ask the socket for the peer address (flags regenerated from
the code by probing; `peer_safe_kinds` lists the classes for which the guard is discharged).  FULL statement: no guard.
It is FALSE for a class whose `send`/`receive` passes `who=self.cs.getpeername()` to the wire log: on a reset connection
the call raises after the kernel already took / delivered the bytes (`stream_fails_if_wirelog_needs_peer`) — that is
`RemoterTls` at the unchanged tree (known finding C09-K2, fix proposed on fix/tcp), and exactly what the guard excludes.
-/
namespace Hio.Tcp

/-- C09.1 what the kernel accepted followed by what is still queued is exactly everything handed to `tx`, in order:
nothing lost, nothing duplicated, nothing reordered — whatever partial sends, would-blocks and faults happened. -/
theorem stream_prefix (kind : Kind) (wl : Bool) (sends : List SResp) (recvs : List RResp) (ops : List Op)
    (hs : wl = false ∨ PeerSafe kind) :
    (run (init kind wl sends recvs) ops).kacc ++ (run (init kind wl sends recvs) ops).txbs = payload ops := by
  simpa using (run_inv ops (init_inv kind wl sends recvs hs)).tx

/-- C09.1' the bytes the peer can have received are a prefix of everything transmitted so far -/
theorem peer_has_prefix (kind : Kind) (wl : Bool) (sends : List SResp) (recvs : List RResp) (ops : List Op)
    (hs : wl = false ∨ PeerSafe kind) :
    (run (init kind wl sends recvs) ops).kacc <+: payload ops :=
  ⟨_, stream_prefix kind wl sends recvs ops hs⟩

/-- C09.2 what the application took out with `clearRxbs()` followed by the receive buffer is exactly the bytes `recv`
delivered, in order (short reads, EOF, faults, `serviceReceives` and `serviceReceiveOnce` in any mix) -/
theorem rx_exact (kind : Kind) (wl : Bool) (sends : List SResp) (recvs : List RResp) (ops : List Op)
    (hs : wl = false ∨ PeerSafe kind) :
    (run (init kind wl sends recvs) ops).cleared ++ (run (init kind wl sends recvs) ops).rxbs =
      (run (init kind wl sends recvs) ops).kdel :=
  (run_inv ops (init_inv kind wl sends recvs hs)).rx

/-- C09.3 an attached wire log records, PER ENABLED DIRECTION (`txed`, `rxed`), exactly the bytes actually sent / actually
received, and nothing in a direction that is switched off — whatever the other direction is set to -/
theorem wire_log_exact (kind : Kind) (sends : List SResp) (recvs : List RResp) (ops : List Op) (txed rxed : Bool)
    (hs : PeerSafe kind) :
    (run (init kind true sends recvs txed rxed) ops).wireTx =
      (if txed then (run (init kind true sends recvs txed rxed) ops).kacc else []) ∧
    (run (init kind true sends recvs txed rxed) ops).wireRx =
      (if rxed then (run (init kind true sends recvs txed rxed) ops).kdel else []) := by
  have h := run_inv ops (init_inv kind true sends recvs (Or.inr hs) txed rxed)
  have hf := run_wl ops (init kind true sends recvs txed rxed)
  generalize run (init kind true sends recvs txed rxed) ops = c at h hf ⊢
  simp only [Conn.flags, init, Bool.true_and, Prod.mk.injEq] at hf
  exact ⟨by rw [h.wtx, hf.2.1], by rw [h.wrx, hf.2.2]⟩

/-- without a wire log nothing is recorded -/
theorem wire_log_absent (kind : Kind) (sends : List SResp) (recvs : List RResp) (ops : List Op) (txed rxed : Bool) :
    (run (init kind false sends recvs txed rxed) ops).wireTx = [] ∧
    (run (init kind false sends recvs txed rxed) ops).wireRx = [] := by
  have h := run_inv ops (init_inv kind false sends recvs (Or.inl rfl) txed rxed)
  have hf := run_wl ops (init kind false sends recvs txed rxed)
  generalize run (init kind false sends recvs txed rxed) ops = c at h hf ⊢
  simp only [Conn.flags, init, Bool.false_and, Prod.mk.injEq] at hf
  exact ⟨by rw [h.wtx, hf.2.1]; rfl, by rw [h.wrx, hf.2.2]; rfl⟩

/-- the guard is discharged for `Client`, `ClientTls` and `Remoter` (re-checked against the flags probed from the code):
for these classes every theorem of this file holds with a wire log attached and the peer resetting at any moment -/
theorem peer_safe_kinds : PeerSafe .client ∧ PeerSafe .clientTls ∧ PeerSafe .remoter := by
  unfold PeerSafe; decide

/-- the excluded situation really fails: a class whose `receive` wire-logs `who=getpeername()` loses bytes the kernel
delivered once the peer has reset, and one whose `send` does so re-sends bytes the kernel already took -/
theorem stream_fails_if_wirelog_needs_peer (k : Kind) :
    (needsPeerRecv k = true →
      (run (init k true [] [.data [1]]) [.rst, .sr]).rxbs ≠ (run (init k true [] [.data [1]]) [.rst, .sr]).kdel) ∧
    (needsPeerSend k = true →
      (run (init k true [.acc 1, .acc 1] []) [.tx [7], .rst, .ss, .ss]).kacc = [7, 7]) := by
  constructor
  · intro h
    cases k <;> simp [run, step, init, serviceReceives, recvLoop, Conn.guard, Conn.wlFailsRx, h]
  · intro h
    cases k <;> simp [run, step, init, serviceSends, send, finishSend, Conn.guard, Conn.wlFailsTx, h]

/-- C09.1 over the WHOLE life of a client object: whatever was handed to `tx` since construction — also before the
connection was up — is, in order, what the sockets of this client have accepted so far followed by what is still queued;
connect attempts that are refused or stay in progress, aborted TLS handshakes, the reconnect timer, explicit
`reopen`/`close`, re-winds: nothing of `.txbs` is lost or duplicated (`Client`/`ClientTls`, any `reconnectable`/`tymeout`) -/
theorem client_stream_prefix (tls reconnectable : Bool) (tymeout : Nat) (ops : List COp) :
    (Cli.run (Cli.make tls reconnectable tymeout) ops).io.kacc ++ (Cli.run (Cli.make tls reconnectable tymeout) ops).io.txbs
      = cpayload ops := by
  simpa using (Cli.run_io ops (Cli.make_io tls reconnectable tymeout)).tx

/-- non-vacuity: bytes queued before the connection is up survive a refused connect and an aborted handshake -/
example : (Cli.run (Cli.make true true 8) [.tx [1, 2], .connect 111 none, .connect 0 (some (.fault 104)), .tx [3],
    .connect 0 none, .connect 0 (some .ok), .feed [.acc 9] [], .service 0 none]).io.kacc = [1, 2, 3] := by decide

/-- the same invariants hold from ANY state that satisfies them (e.g. mid-history), not only from a fresh connection -/
theorem stream_prefix_from (c : Conn) (p : Bytes) (h : Inv c p) (ops : List Op) : Inv (run c ops) (p ++ payload ops) :=
  run_inv ops h

/-- C09.4 (liveness) on a healthy connection — not cut off, and every `send` on a non-empty buffer takes at least one
byte — `|txbs|` (or any larger number of) service calls empty the buffer, and all of it reached the kernel, in order. -/
theorem drains (c : Conn) (n : Nat) (hsafe : Safe c) (hn : c.txbs.length ≤ n) (hc : c.cutoff = false) (hg : c.guard = true)
    (hs : AllAccept c.sends) (hl : n ≤ c.sends.length) :
    (sendN n c).txbs = [] ∧ (sendN n c).kacc = c.kacc ++ c.txbs :=
  ⟨(drains_aux n c hsafe hn hc hg hs hl).1, (drains_aux n c hsafe hn hc hg hs hl).2.1⟩

/-- non-vacuity of `drains`: a remoter with 3 queued bytes and a 1-byte-dribbling kernel -/
example : Safe { kind := .remoter, txbs := [1, 2, 3], sends := [.acc 1, .acc 1, .acc 1] } := Or.inl rfl
example : (sendN 3 { kind := .remoter, txbs := [1, 2, 3], sends := [.acc 1, .acc 1, .acc 1] }).txbs = [] ∧
    (sendN 3 { kind := .remoter, txbs := [1, 2, 3], sends := [.acc 1, .acc 1, .acc 1] }).kacc = [1, 2, 3] := by
  decide

/-- C09.4' a healthy history delivers all of it: after any history from a fresh connection, if the connection is not
cut off and the remaining script only accepts, `|txbs|` further service calls leave every transmitted byte with the kernel -/
theorem drains_delivers_all (kind : Kind) (wl : Bool) (sends : List SResp) (recvs : List RResp) (ops : List Op)
    (hsafe : wl = false ∨ PeerSafe kind)
    (hc : (run (init kind wl sends recvs) ops).cutoff = false) (hg : (run (init kind wl sends recvs) ops).guard = true)
    (hs : AllAccept (run (init kind wl sends recvs) ops).sends)
    (hl : (run (init kind wl sends recvs) ops).txbs.length ≤ (run (init kind wl sends recvs) ops).sends.length) :
    (sendN (run (init kind wl sends recvs) ops).txbs.length (run (init kind wl sends recvs) ops)).kacc = payload ops := by
  rw [(drains _ _ (run_inv ops (init_inv kind wl sends recvs hsafe)).safe (Nat.le_refl _) hc hg hs hl).2]
  exact stream_prefix kind wl sends recvs ops hsafe

/-- the would-block signal of each class (EAGAIN; SSLWantRead for TLS) is classified as "try again", at both sites
(re-checked against the regenerated tables) -/
theorem wouldblock_is_benign (k : Kind) :
    lookup (recvTable k) (wbCode k) = .wouldblock ∧ lookup (sendTable k) (wbCode k) = .wouldblock := by
  cases k <;> decide

/-- C09.5 one `serviceReceives` on a healthy connection takes everything the kernel has (any number of short reads) -/
theorem receives_all (c : Conn) (ds : List Bytes) (hsafe : Safe c) (hc : c.cutoff = false) (hg : c.guard = true)
    (hr : c.recvs = ds.map RResp.data) (hd : ∀ d ∈ ds, d ≠ []) :
    (serviceReceives c).1.rxbs = c.rxbs ++ ds.flatten ∧ (serviceReceives c).2 = none ∧
      (serviceReceives c).1.cutoff = false := by
  unfold serviceReceives
  rw [hg, hr]
  exact recvLoop_all ds c hsafe hc hd (wouldblock_is_benign c.kind).1

example : (serviceReceives { kind := .clientTls, recvs := [.data [1], .data [2, 3]] }).1.rxbs = [1, 2, 3] := by decide

end Hio.Tcp
