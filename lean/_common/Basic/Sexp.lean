/-!
# S-expression line protocol (driver side)

One request per line, one reply per line.  Atoms are decimal integers (optionally
negative), bare identifiers, and `#<hex>` byte strings (`#` alone is the empty
byte string).  Floats travel as the decimal value of their 64-bit pattern.

This file is import-free so that drivers can be compiled as `lean_exe`.
-/
namespace Hio

inductive Sexp where
  | atom (s : String)
  | list (xs : List Sexp)
deriving Repr, BEq, Inhabited

namespace Sexp

inductive Tok where
  | lp | rp | at (s : String)
deriving Repr

def flushAtom (cur : List Char) (acc : List Tok) : List Tok :=
  if cur.isEmpty then acc else Tok.at (String.ofList cur.reverse) :: acc

/-- tokens, in reverse order -/
def tokenizeRev : List Char → List Char → List Tok → List Tok
  | [], cur, acc => flushAtom cur acc
  | c :: cs, cur, acc =>
    if c == '(' then tokenizeRev cs [] (Tok.lp :: flushAtom cur acc)
    else if c == ')' then tokenizeRev cs [] (Tok.rp :: flushAtom cur acc)
    else if c == ' ' || c == '\n' || c == '\r' || c == '\t' then tokenizeRev cs [] (flushAtom cur acc)
    else tokenizeRev cs (c :: cur) acc

/-- stack of reversed accumulators -/
def parseToks : List Tok → List (List Sexp) → Option (List Sexp)
  | [], [top] => some top.reverse
  | [], _ => none
  | Tok.lp :: ts, st => parseToks ts ([] :: st)
  | Tok.rp :: ts, top :: nxt :: st => parseToks ts ((Sexp.list top.reverse :: nxt) :: st)
  | Tok.rp :: _, _ => none
  | Tok.at s :: ts, top :: st => parseToks ts ((Sexp.atom s :: top) :: st)
  | Tok.at _ :: _, [] => none

/-- parse a line holding exactly one S-expression -/
def parse (line : String) : Option Sexp :=
  match parseToks (tokenizeRev line.toList [] []).reverse [[]] with
  | some [x] => some x
  | _ => none

mutual
def str : Sexp → String
  | .atom s => s
  | .list xs => "(" ++ strL xs ++ ")"
def strL : List Sexp → String
  | [] => ""
  | [x] => x.str
  | x :: y :: xs => x.str ++ " " ++ strL (y :: xs)
end

instance : ToString Sexp := ⟨Sexp.str⟩

/-! ### decoding helpers -/

def digitVal (c : Char) : Option Nat :=
  if '0' ≤ c ∧ c ≤ '9' then some (c.toNat - '0'.toNat) else none

def natOfChars : List Char → Nat → Option Nat
  | [], acc => some acc
  | c :: cs, acc => match digitVal c with
    | some d => natOfChars cs (acc * 10 + d)
    | none => none

def nat? : Sexp → Option Nat
  | .atom s => match s.toList with
    | [] => none
    | cs => natOfChars cs 0
  | _ => none

def int? : Sexp → Option Int
  | .atom s => match s.toList with
    | '-' :: (c :: cs) => (natOfChars (c :: cs) 0).map (fun n => - (Int.ofNat n))
    | [] => none
    | cs => (natOfChars cs 0).map Int.ofNat
  | _ => none

def hexVal (c : Char) : Option Nat :=
  if '0' ≤ c ∧ c ≤ '9' then some (c.toNat - '0'.toNat)
  else if 'a' ≤ c ∧ c ≤ 'f' then some (c.toNat - 'a'.toNat + 10)
  else if 'A' ≤ c ∧ c ≤ 'F' then some (c.toNat - 'A'.toNat + 10)
  else none

def hexBytes : List Char → List Nat → Option (List Nat)
  | [], acc => some acc.reverse
  | [_], _ => none
  | a :: b :: cs, acc => match hexVal a, hexVal b with
    | some x, some y => hexBytes cs ((x * 16 + y) :: acc)
    | _, _ => none

/-- `#<hex>` atom as a list of byte values (each `< 256`) -/
def bytes? : Sexp → Option (List Nat)
  | .atom s => match s.toList with
    | '#' :: cs => hexBytes cs []
    | _ => none
  | _ => none

def sym? : Sexp → Option String
  | .atom s => some s
  | _ => none

def list? : Sexp → Option (List Sexp)
  | .list xs => some xs
  | _ => none

def bool? : Sexp → Option Bool
  | .atom "t" => some true
  | .atom "f" => some false
  | _ => none

/-- `(name a b c)` inside a list of fields → `[a, b, c]` -/
def field (name : String) : List Sexp → Option (List Sexp)
  | [] => none
  | .list (.atom n :: rest) :: more => if n == name then some rest else field name more
  | _ :: more => field name more

def field1 (name : String) (fs : List Sexp) : Option Sexp :=
  match field name fs with
  | some [x] => some x
  | _ => none

/-! ### encoding helpers -/

def ofNat (n : Nat) : Sexp := .atom (toString n)
def ofInt (n : Int) : Sexp := .atom (toString n)
def ofBool (b : Bool) : Sexp := .atom (if b then "t" else "f")
def sym (s : String) : Sexp := .atom s

def hexDigit (n : Nat) : Char :=
  if n < 10 then Char.ofNat ('0'.toNat + n) else Char.ofNat ('a'.toNat + (n - 10))

def ofBytes (bs : List Nat) : Sexp :=
  .atom (String.ofList ('#' :: (bs.flatMap fun b => [hexDigit (b / 16 % 16), hexDigit (b % 16)])))

def ofOpt {α} (f : α → Sexp) : Option α → Sexp
  | none => .atom "-"
  | some a => f a

def tag (name : String) (xs : List Sexp) : Sexp := .list (.atom name :: xs)

end Sexp

/-- read request lines from stdin, answer each with one line -/
partial def serveLoop (h : IO.FS.Stream) (out : IO.FS.Stream) (f : Sexp → Sexp) : IO Unit := do
  let line ← h.getLine
  if line.isEmpty then
    out.flush
    return ()
  match Sexp.parse line with
  | some req => out.putStrLn (f req).str
  | none => out.putStrLn "(bad-request)"
  serveLoop h out f

def serve (f : Sexp → Sexp) : IO Unit := do
  serveLoop (← IO.getStdin) (← IO.getStdout) f

end Hio
