import HioModel.Dom.Lemmas
/-!
# C28 — data objects round-trip through dict / JSON / CBOR / MessagePack

Property theorems only.  Model: `HioModel/Dom/Model.lean` (`dictify` = `dataclasses.asdict`,
`datify`, `_fromdict`, and the raw codecs as a PARAMETER `Codec`).

Full statement: for every schema `S`, class `c` and instance `x` of `c` whose fields hold
representable values (nested instances included), `fromraw S C c (asraw C x) = ok x` for each
of the three codecs `C`.

It is FALSE in general — `datify` only rebuilds a nested instance that is DIRECTLY the value
of a field annotated with its class (or `Optional[class]` / `class | None`, after the fix
commit); witnesses below:
* `roundtrip_fails_in_list_annotated_field`, `roundtrip_fails_in_string_annotated_field`
  (instances inside `list[C]`, or under a string annotation, come back as plain dicts) — known finding C28-K1;
* `roundtrip_fails_plain_dict_in_class_field` (a plain dict that fits a class-annotated
  field comes back as an instance) — known finding C28-K2.
Under the guard `wt S (dom c) x` ("nested objects sit in class-annotated fields, everything
else is plain"; `Lemmas.lean`) it is proved for every schema, every nesting depth and
every codec that is lawful on the one tree handed to it (`…_partial`).  That `json`, `cbor2`
and `msgpack` are lawful on the generated domain is exercised by the correspondence run, not proved.
-/
namespace Hio.Dom

/-- C28 (partial: guard `wt`): `cls._fromdict(x._asdict())` gives back `x`, an instance of the same class,
for every schema and every nesting depth. -/
theorem fromdict_asdict_partial (S : Schema) (c : Nat) (ks : List Key) (vs : List Tree)
    (h : wt S (.dom c) (.obj c ks vs)) :
    fromdict S c (dictify (.obj c ks vs)) = .ok (.obj c ks vs) := by
  simp only [fromdict, datify_dictify S (.dom c) _ h, ↓reduceIte]

/-- what is handed to a codec never contains a data-object instance: only null / bool / int / float / str /
list / str-keyed dict (so "representable by JSON/CBOR/MessagePack" is a statement about plain trees) -/
theorem asdict_is_plain (x : Tree) : plain (dictify x) = true := plain_dictify x

/-- C28 (partial: guard `wt`) lifted through ANY codec that decodes what it encoded for this one plain tree:
`cls._fromjson(x._asjson())`, `_fromcbor(_ascbor())`, `_frommgpk(_asmgpk())` all give back `x`. -/
theorem roundtrip_any_lawful_codec_partial (S : Schema) (C : Codec) (c : Nat) (ks : List Key) (vs : List Tree)
    (h : wt S (.dom c) (.obj c ks vs))
    (lawful : C.dec (C.enc (dictify (.obj c ks vs))) = some (dictify (.obj c ks vs))) :
    fromraw S C c (asraw C (.obj c ks vs)) = .ok (.obj c ks vs) := by
  simp only [fromraw, asraw, lawful, fromdict_asdict_partial S c ks vs h]

/-- the same, for a codec lawful on a whole representable domain `Rep` (e.g. 64-bit ints, non-NaN floats,
unicode strings, str keys) -/
theorem roundtrip_lawful_on_domain_partial (S : Schema) (C : Codec) (Rep : Tree → Prop)
    (lawful : ∀ v, plain v = true → Rep v → C.dec (C.enc v) = some v)
    (c : Nat) (ks : List Key) (vs : List Tree)
    (h : wt S (.dom c) (.obj c ks vs)) (hr : Rep (dictify (.obj c ks vs))) :
    fromraw S C c (asraw C (.obj c ks vs)) = .ok (.obj c ks vs) :=
  roundtrip_any_lawful_codec_partial S C c ks vs h (lawful _ (plain_dictify _) hr)

/-- a value under a non-dataclass annotation (`Any`, builtins, `list[C]`, `dict[str, C]`, a string) is never
touched by `datify` — so plain values there always survive, and instances there never come back -/
theorem datify_ignores_nonclass_annotation (S : Schema) (a : Ann) (t : Tree) (h : candidates S a = []) :
    datify S a t = t := datify_nonclass S a t h

/-- `_fromdict` rejects (ValueError) a dict with a key that is not a field of the class -/
theorem fromdict_rejects_unknown_key (S : Schema) (c : Nat) (k : Class) (ks : List Key) (vs : List Tree)
    (name : Key) (hk : S[c]? = some k) (hh : k.hook = none) (hm : name ∈ ks) (hu : k.field? name = none) :
    fromdict S c (.dict ks vs) = .error .valueError := by
  have hr : construct c k ks (datifyL S k ks vs) (.dict ks vs) = .dict ks vs :=
    construct_reject _ _ _ _ _ ⟨name, hm, hu⟩
  simp [fromdict, datify, candidates, hk, hr, pick, hh]

/-! ### the guard cannot be dropped: concrete witnesses (replayed on the implementation in `corpus()`) -/

/-- `P` = one field `x : Any = 0` -/
def exP : Class := { fields := [⟨[120], .any, some (.int 0)⟩] }
/-- `L a` = one field `a : <ann> = None` -/
def exL (a : Ann) : Class := { fields := [⟨[97], a, some .null⟩] }
def exInner : Tree := .obj 0 [[120]] [.int 1]

/-- F45 / C28-K1: an instance inside a `list[P]` field comes back as a plain dict -/
theorem roundtrip_fails_in_list_annotated_field :
    fromdict [exP, exL (.listOf 0)] 1 (dictify (.obj 1 [[97]] [.list [exInner]]))
      = .ok (.obj 1 [[97]] [.list [.dict [[120]] [.int 1]]]) ∧
    fromdict [exP, exL (.listOf 0)] 1 (dictify (.obj 1 [[97]] [.list [exInner]])) ≠ .ok (.obj 1 [[97]] [.list [exInner]]) := by
  refine ⟨rfl, ?_⟩
  rw [show fromdict [exP, exL (.listOf 0)] 1 (dictify (.obj 1 [[97]] [.list [exInner]]))
      = .ok (.obj 1 [[97]] [.list [.dict [[120]] [.int 1]]]) from rfl]
  simp [exInner]

/-- F45 / C28-K1: an instance under a string annotation (`from __future__ import annotations`) comes back as a plain dict -/
theorem roundtrip_fails_in_string_annotated_field :
    fromdict [exP, exL (.strAnn 0)] 1 (dictify (.obj 1 [[97]] [exInner]))
      = .ok (.obj 1 [[97]] [.dict [[120]] [.int 1]]) ∧
    fromdict [exP, exL (.strAnn 0)] 1 (dictify (.obj 1 [[97]] [exInner])) ≠ .ok (.obj 1 [[97]] [exInner]) := by
  refine ⟨rfl, ?_⟩
  rw [show fromdict [exP, exL (.strAnn 0)] 1 (dictify (.obj 1 [[97]] [exInner]))
      = .ok (.obj 1 [[97]] [.dict [[120]] [.int 1]]) from rfl]
  simp [exInner]

/-- the same instance under `Optional[P]` IS rebuilt (after the fix commit) -/
theorem roundtrip_holds_in_optional_annotated_field :
    fromdict [exP, exL (.opt [0])] 1 (dictify (.obj 1 [[97]] [exInner])) = .ok (.obj 1 [[97]] [exInner]) := by rfl

/-- C28-K2: a plain empty dict in a `P`-annotated field comes back as `P()` -/
theorem roundtrip_fails_plain_dict_in_class_field :
    fromdict [exP, exL (.dom 0)] 1 (dictify (.obj 1 [[97]] [.dict [] []]))
      = .ok (.obj 1 [[97]] [.obj 0 [[120]] [.int 0]]) ∧
    fromdict [exP, exL (.dom 0)] 1 (dictify (.obj 1 [[97]] [.dict [] []])) ≠ .ok (.obj 1 [[97]] [.dict [] []]) := by
  refine ⟨rfl, ?_⟩
  rw [show fromdict [exP, exL (.dom 0)] 1 (dictify (.obj 1 [[97]] [.dict [] []]))
      = .ok (.obj 1 [[97]] [.obj 0 [[120]] [.int 0]]) from rfl]
  simp

/-! ### unions of several data-object classes (`Circle | Square | None`, `Optional[Union[Circle, Square]]`) -/

/-- `Circle` = one field `r : Any = 0`;  `Square` = one field `s : Any = 0`;  `Box` = one field `r : Any = 1` -/
def exCircle : Class := { fields := [⟨[114], .any, some (.int 0)⟩] }
def exSquare : Class := { fields := [⟨[115], .any, some (.int 0)⟩] }
def exBox : Class := { fields := [⟨[114], .any, some (.int 1)⟩] }

/-- a value of the SECOND member of a union round-trips when the first member lacks one of its field names
(instance of the guard `wt`, proved through the general theorem) -/
theorem union_second_member_roundtrips :
    fromdict [exCircle, exSquare, exL (.opt [0, 1])] 2 (dictify (.obj 2 [[97]] [.obj 1 [[115]] [.int 3]]))
      = .ok (.obj 2 [[97]] [.obj 1 [[115]] [.int 3]]) :=
  fromdict_asdict_partial _ 2 _ _ (by
    refine wt_obj_intro [] (exL (.opt [0, 1])) [] rfl (by simp) rfl (by decide) rfl rfl (by simp) ⟨?_, trivial⟩
    refine wt_obj_intro [(0, exCircle)] exSquare [] rfl ?_ rfl (by decide) rfl rfl (by intro p hp; simp only [List.mem_singleton] at hp; subst hp; rfl) ⟨trivial, trivial⟩
    intro p hp
    simp only [List.mem_singleton] at hp; subst hp
    exact ⟨[115], by simp [exSquare], by simp [exCircle, Class.field?]⟩)

/-- witness that the guard is needed: `Circle` and `Box` have the same field names, so a `Box` stored in a
`Circle | Box | None` field comes back as a `Circle` (known finding C28-K3) -/
theorem union_ambiguous_members_fail :
    fromdict [exCircle, exBox, exL (.opt [0, 1])] 2 (dictify (.obj 2 [[97]] [.obj 1 [[114]] [.int 3]]))
      = .ok (.obj 2 [[97]] [.obj 0 [[114]] [.int 3]]) ∧
    fromdict [exCircle, exBox, exL (.opt [0, 1])] 2 (dictify (.obj 2 [[97]] [.obj 1 [[114]] [.int 3]]))
      ≠ .ok (.obj 2 [[97]] [.obj 1 [[114]] [.int 3]]) := by
  refine ⟨rfl, ?_⟩
  rw [show fromdict [exCircle, exBox, exL (.opt [0, 1])] 2 (dictify (.obj 2 [[97]] [.obj 1 [[114]] [.int 3]]))
      = .ok (.obj 2 [[97]] [.obj 0 [[114]] [.int 3]]) from rfl]
  simp

/-! ### members that validate in `__post_init__` -/

/-- `Percent` = `n : Any = 0` with `__post_init__` raising unless `0 ≤ n ≤ 100`;  `Count` = `n : Any = 0` unchecked -/
def exPercent : Class := { fields := [⟨[110], .any, some (.int 0)⟩], check := some ⟨[110], 0, 100⟩ }
def exCount : Class := { fields := [⟨[110], .any, some (.int 0)⟩] }

/-- an earlier union member that REJECTS the dict in its `__post_init__` (any exception class) is skipped like one that
lacks a key: `level: Percent | Count` holding `Count(500)` round-trips -/
theorem union_earlier_member_rejecting_in_post_init_is_skipped :
    fromdict [exPercent, exCount, exL (.opt [0, 1])] 2 (dictify (.obj 2 [[97]] [.obj 1 [[110]] [.int 500]]))
      = .ok (.obj 2 [[97]] [.obj 1 [[110]] [.int 500]]) := by rfl

/-- … while a value the earlier member admits is claimed by it (the ambiguity of C28-K3) -/
theorem union_earlier_member_admitting_claims_the_value :
    fromdict [exPercent, exCount, exL (.opt [0, 1])] 2 (dictify (.obj 2 [[97]] [.obj 1 [[110]] [.int 50]]))
      = .ok (.obj 2 [[97]] [.obj 0 [[110]] [.int 50]]) := by rfl

/-- `_fromdict` of a dict its own class's `__post_init__` rejects is a `ValueError` from `_fromdict`, nothing else -/
theorem fromdict_rejected_by_post_init :
    fromdict [exPercent] 0 (.dict [[110]] [.int 500]) = .error .valueError := by rfl

/-! ### classes with a `_dictify` / `_datify` hook pair -/

/-- `Gauge` = `level : Any = 0` with the `wrap` hook pair;  `Tagged` = `n : Any = 0` with the `rename` pair -/
def exGauge : Class := { fields := [⟨[108], .any, some (.int 0)⟩], hook := some .wrap }
def exTagged : Class := { fields := [⟨[110], .any, some (.int 0)⟩], hook := some .rename }

/-- a hooked data object handed to `_asdict` / `_asjson` … ITSELF goes out through its `_dictify` and comes back through its
`_datify`: it round-trips, value-transforming and key-renaming hooks alike -/
theorem hooked_object_roundtrips_at_top_level :
    fromdict [exGauge] 0 (dictifyTop [exGauge] (.obj 0 [[108]] [.list [.int 1, .int 2]])) = .ok (.obj 0 [[108]] [.list [.int 1, .int 2]]) ∧
    fromdict [exTagged] 0 (dictifyTop [exTagged] (.obj 0 [[110]] [.int 7])) = .ok (.obj 0 [[110]] [.int 7]) ∧
    dictifyTop [exTagged] (.obj 0 [[110]] [.int 7]) = .dict [[104, 95, 110]] [.int 7] := by
  refine ⟨rfl, rfl, rfl⟩

/-- serialising a hooked object WITHOUT its `_dictify` (plain `asdict`) while reading it back with its `_datify` is wrong:
the renaming class refuses its own output, the wrapping class silently returns another value -/
theorem hooks_must_be_used_in_both_directions :
    fromdict [exTagged] 0 (dictify (.obj 0 [[110]] [.int 7])) = .error .valueError ∧
    fromdict [exGauge] 0 (dictify (.obj 0 [[108]] [.list [.int 5]])) = .ok (.obj 0 [[108]] [.int 5]) := by
  refine ⟨rfl, rfl⟩

/-- C28-K5: that is exactly what happens to a hooked object NESTED in another one — `dataclasses.asdict` recurses into it
without its `_dictify`, `datify` reads it back with its `_datify` -/
theorem nested_hooked_object_does_not_roundtrip :
    fromdict [exTagged, exL (.dom 0)] 1 (dictifyTop [exTagged, exL (.dom 0)] (.obj 1 [[97]] [.obj 0 [[110]] [.int 7]]))
      = .ok (.obj 1 [[97]] [.dict [[110]] [.int 7]]) := by rfl

/-! ### non-vacuity: the guard is met by a concrete three-level nested instance, and the codec hypothesis by a codec -/

def exS : Schema := [exP, exL (.dom 0), { fields := [⟨[98], .opt [1], none⟩, ⟨[103], .any, some .null⟩] }]
def exX : Tree := .obj 2 [[98], [103]] [.obj 1 [[97]] [exInner], .list [.int 1, .dict [[122]] [.null]]]

theorem exX_wt : wt exS (.dom 2) exX := by
  refine wt_obj_intro [] _ [] rfl (by simp) rfl (by decide) rfl rfl (by simp) ⟨?_, ⟨rfl, rfl⟩, trivial⟩
  refine wt_obj_intro [] (exL (.dom 0)) [] rfl (by simp) rfl (by decide) rfl rfl (by simp) ⟨?_, trivial⟩
  exact wt_obj_intro [] exP [] rfl (by simp) rfl (by decide) rfl rfl (by simp) ⟨trivial, trivial⟩
example : fromdict exS 2 (dictify exX) = .ok exX := fromdict_asdict_partial exS 2 _ _ exX_wt
example : ∃ C : Codec, C.dec (C.enc (dictify exX)) = some (dictify exX) :=
  ⟨⟨fun _ => [], fun _ => some (dictify exX)⟩, rfl⟩

end Hio.Dom
