import HioModel.Dom.Model
/-! Helper definitions and lemmas for the Dom model.  Property theorems live in `Props/C28.lean`. -/
namespace Hio.Dom

/-! ### plain trees: no data-object instance anywhere -/
mutual
def plain : Tree → Bool
  | .obj _ _ _ => false
  | .list xs => plainL xs
  | .dict _ vs => plainL vs
  | _ => true
def plainL : List Tree → Bool
  | [] => true
  | x :: xs => plain x && plainL xs
end

/-- values `datify` never touches whatever the annotation: scalars and non-empty strings -/
def atom : Tree → Bool
  | .null | .bool _ | .int _ | .float _ => true
  | .str (_ :: _) => true
  | _ => false

/-! ### well-typed instances
An instance is well typed for an annotation when every nested data object sits DIRECTLY in a
field whose annotation resolves to its class (`C`, `Optional[C]`, `C | None`), carries exactly
the class's field names (pairwise distinct), and every other value is plain (under a
non-dataclass annotation) or a scalar / non-empty string (under any annotation). -/
mutual
def wt (S : Schema) : Ann → Tree → Prop
  | a, .obj c ks vs =>
    ∃ pre k post, candidates S a = pre ++ (c, k) :: post ∧
      -- every member tried BEFORE the object's own class lacks one of the object's field names, so it rejects the dict
      (∀ p ∈ pre, ∃ name ∈ k.fields.map (·.name), p.2.field? name = none) ∧
      ks = k.fields.map (·.name) ∧ (k.fields.map (·.name)).Nodup ∧
      k.admits vs = true ∧          -- the instance satisfies its own `__post_init__`
      k.hook = none ∧ (∀ p ∈ pre, p.2.hook = none) ∧      -- no `_dictify` / `_datify` hooks among the classes tried
      wtL S (k.fields.map (·.ann)) vs
  | a, .list xs => candidates S a = [] ∧ plainL xs = true
  | a, .dict _ vs => candidates S a = [] ∧ plainL vs = true
  | a, .str [] => candidates S a = []
  | _, _ => True
def wtL (S : Schema) : List Ann → List Tree → Prop
  | a :: as, v :: vs => wt S a v ∧ wtL S as vs
  | [], [] => True
  | _, _ => False
end

mutual
theorem plain_dictify : ∀ v : Tree, plain (dictify v) = true
  | .null | .bool _ | .int _ | .float _ | .str _ => by simp [dictify, plain]
  | .list xs => by simp only [dictify, plain]; exact plainL_dictifyL xs
  | .dict ks vs => by simp only [dictify, plain]; exact plainL_dictifyL vs
  | .obj c ks vs => by simp only [dictify, plain]; exact plainL_dictifyL vs
theorem plainL_dictifyL : ∀ vs : List Tree, plainL (dictifyL vs) = true
  | [] => by simp [dictifyL, plainL]
  | v :: vs => by simp only [dictifyL, plainL, plain_dictify v, plainL_dictifyL vs, Bool.and_self]
end

mutual
theorem dictify_of_plain : ∀ v : Tree, plain v = true → dictify v = v
  | .null, _ | .bool _, _ | .int _, _ | .float _, _ | .str _, _ => by simp [dictify]
  | .list xs, h => by simp only [plain] at h; simp only [dictify, dictifyL_of_plainL xs h]
  | .dict ks vs, h => by simp only [plain] at h; simp only [dictify, dictifyL_of_plainL vs h]
  | .obj c ks vs, h => by simp [plain] at h
theorem dictifyL_of_plainL : ∀ vs : List Tree, plainL vs = true → dictifyL vs = vs
  | [], _ => by simp [dictifyL]
  | v :: vs, h => by
    simp only [plainL, Bool.and_eq_true] at h
    simp only [dictifyL, dictify_of_plain v h.1, dictifyL_of_plainL vs h.2]
end

theorem datify_nonclass (S : Schema) (a : Ann) (t : Tree) (h : candidates S a = []) : datify S a t = t := by
  cases t with
  | dict ks vs => simp [datify, h, pick]
  | list xs => cases xs <;> simp [datify, h, pick]
  | str s => cases s <;> simp [datify, h, pick]
  | _ => simp [datify]

/-- attempts that did not produce an instance are skipped -/
theorem pick_skip (orig : Tree) (l1 l2 : List (Nat × Tree)) (h : ∀ x ∈ l1, ∀ c ks vs, x.2 ≠ .obj c ks vs) :
    pick orig (l1 ++ l2) = pick orig l2 := by
  induction l1 with
  | nil => rfl
  | cons x xs ih =>
    obtain ⟨c, t⟩ := x
    have hx := h (c, t) (List.mem_cons_self ..)
    have ih' := ih (fun y hy => h y (List.mem_cons_of_mem _ hy))
    cases t with
    | obj c' ks vs => exact absurd rfl (hx c' ks vs)
    | _ => simpa [pick] using ih'

/-- a class that lacks one of the keys rejects the dict (`fieldtypes[f]` raises `KeyError`) -/
theorem construct_reject (c : Nat) (k : Class) (ks : List Key) (vs : List Tree) (orig : Tree)
    (h : ∃ name ∈ ks, k.field? name = none) : construct c k ks vs orig = orig := by
  obtain ⟨name, hm, hn⟩ := h
  have : ks.all (fun n => (k.field? n).isSome) = false := by
    rw [List.all_eq_false]; exact ⟨name, hm, by simp [hn]⟩
  simp [construct, this]

theorem datify_atom (S : Schema) (a : Ann) (t : Tree) (h : atom t = true) : datify S a t = t := by
  cases t with
  | dict ks vs => simp [atom] at h
  | list xs => simp [atom] at h
  | obj c ks vs => simp [atom] at h
  | str s => cases s with
    | nil => simp [atom] at h
    | cons => simp [datify]
  | _ => simp [datify]

/-! ### keyword construction with exactly the class's own field names -/

theorem lookupKV_ne (name k : Key) (ks : List Key) (v : Tree) (vs : List Tree) (h : k ≠ name) :
    lookupKV name (k :: ks) (v :: vs) = lookupKV name ks vs := by
  simp [lookupKV, h]

theorem fillFields_skip (k : Key) (v : Tree) (ks : List Key) (vs : List Tree) :
    ∀ fs : List Field, k ∉ fs.map (·.name) → fillFields (k :: ks) (v :: vs) fs = fillFields ks vs fs
  | [], _ => by simp [fillFields]
  | f :: fs, h => by
    simp only [List.map_cons, List.mem_cons, not_or] at h
    simp only [fillFields, lookupKV_ne f.name k ks v vs h.1, fillFields_skip k v ks vs fs h.2]

theorem fillFields_own : ∀ (fs : List Field) (vs : List Tree), (fs.map (·.name)).Nodup → fs.length = vs.length →
    fillFields (fs.map (·.name)) vs fs = some vs
  | [], [], _, _ => by simp [fillFields]
  | [], _ :: _, _, h => by simp at h
  | _ :: _, [], _, h => by simp at h
  | f :: fs, v :: vs, hn, hl => by
    simp only [List.map_cons, List.nodup_cons] at hn
    simp only [List.length_cons, Nat.add_right_cancel_iff] at hl
    simp only [List.map_cons, fillFields, lookupKV, ↓reduceIte]
    rw [fillFields_skip f.name v _ vs fs hn.1, fillFields_own fs vs hn.2 hl]

theorem find_own (fs : List Field) (f : Field) (hm : f ∈ fs) (hn : (fs.map (·.name)).Nodup) :
    fs.find? (fun g => g.name == f.name) = some f := by
  induction fs with
  | nil => cases hm
  | cons g gs ih =>
    simp only [List.map_cons, List.nodup_cons] at hn
    rcases List.mem_cons.mp hm with rfl | hm'
    · simp [List.find?]
    · have hne : g.name ≠ f.name := by
        intro e; exact hn.1 (e ▸ List.mem_map_of_mem hm')
      have hb : (g.name == f.name) = false := by simpa using hne
      simp only [List.find?, hb, ih hm' hn.2]

theorem wtL_length (S : Schema) : ∀ (as : List Ann) (vs : List Tree), wtL S as vs → as.length = vs.length
  | [], [], _ => rfl
  | [], _ :: _, h => by simp [wtL] at h
  | _ :: _, [], h => by simp [wtL] at h
  | a :: as, v :: vs, h => by simp only [wtL] at h; simp [wtL_length S as vs h.2]

mutual
theorem datify_dictify (S : Schema) : ∀ (a : Ann) (v : Tree), wt S a v → datify S a (dictify v) = v
  | _, .null, _ | _, .bool _, _ | _, .int _, _ | _, .float _, _ => by simp [dictify, datify]
  | a, .str s, h => by
    cases s with
    | nil => simp only [wt] at h; simp [dictify, datify, h, pick]
    | cons => simp [dictify, datify]
  | a, .list xs, h => by
    simp only [wt] at h
    rw [dictify_of_plain _ (by simpa [plain] using h.2), datify_nonclass S a _ h.1]
  | a, .dict ks vs, h => by
    simp only [wt] at h
    rw [dictify_of_plain _ (by simpa [plain] using h.2), datify_nonclass S a _ h.1]
  | a, .obj c ks vs, h => by
    simp only [wt] at h
    obtain ⟨pre, k, post, hc, hpre, rfl, hn, hadm, hhk, hhpre, hw⟩ := h
    have hl : k.fields.length = vs.length := by
      have := wtL_length S _ _ hw; simpa using this
    have hrec := datifyL_dictifyL S k k.fields vs (fun f hf => by
      simp only [Class.annOf, Class.field?, find_own k.fields f hf hn]) hw
    have hall : (k.fields.map (·.name)).all (fun name => (k.field? name).isSome) = true := by
      simp only [List.all_eq_true, List.mem_map]
      rintro name ⟨f, hf, rfl⟩
      simp [Class.field?, find_own k.fields f hf hn]
    have hown : construct c k (k.fields.map (·.name)) vs (.dict (k.fields.map (·.name)) (dictifyL vs))
        = .obj c (k.fields.map (·.name)) vs := by
      simp only [construct, hall, ↓reduceIte, fillFields_own k.fields vs hn hl, hadm]
    simp only [dictify, datify, hc, List.map_append, List.map_cons, hrec, hown, hhk]
    rw [pick_skip]
    · simp [pick]
    · intro x hx c' ks' vs' he
      obtain ⟨p, hp, rfl⟩ := List.mem_map.mp hx
      simp only [hhpre p hp] at he
      rw [construct_reject _ _ _ _ _ (hpre p hp)] at he
      cases he
theorem datifyL_dictifyL (S : Schema) (k : Class) : ∀ (fs : List Field) (vs : List Tree),
    (∀ f ∈ fs, k.annOf f.name = f.ann) → wtL S (fs.map (·.ann)) vs →
    datifyL S k (fs.map (·.name)) (dictifyL vs) = vs
  | [], [], _, _ => by simp [dictifyL, datifyL]
  | [], _ :: _, _, h => by simp [wtL] at h
  | _ :: _, [], _, h => by simp [wtL] at h
  | f :: fs, v :: vs, ha, h => by
    simp only [List.map_cons, wtL] at h
    simp only [List.map_cons, dictifyL, datifyL, ha f (List.mem_cons_self ..), datify_dictify S f.ann v h.1,
      datifyL_dictifyL S k fs vs (fun g hg => ha g (List.mem_cons_of_mem _ hg)) h.2]
end

theorem wt_obj_intro {S : Schema} {a : Ann} {c : Nat} {ks : List Key} {vs : List Tree}
    (pre : List (Nat × Class)) (k : Class) (post : List (Nat × Class))
    (hc : candidates S a = pre ++ (c, k) :: post)
    (hpre : ∀ p ∈ pre, ∃ name ∈ k.fields.map (·.name), p.2.field? name = none)
    (hks : ks = k.fields.map (·.name)) (hn : (k.fields.map (·.name)).Nodup)
    (hadm : k.admits vs = true) (hhk : k.hook = none) (hhpre : ∀ p ∈ pre, p.2.hook = none)
    (hw : wtL S (k.fields.map (·.ann)) vs) : wt S a (.obj c ks vs) := by
  simp only [wt]; exact ⟨pre, k, post, hc, hpre, hks, hn, hadm, hhk, hhpre, hw⟩

end Hio.Dom
