/-!
# Model of `hio.help.doming` dictify / datify / _fromdict / raw codecs (faithful to the current source)

Values are trees.  A data-object instance `obj c ks vs` carries its class index, its field
names and its field values (parallel lists, as do `dict`s, so that the only nested
occurrence is `List Tree`).  A schema is the list of dataclasses a run-time program
defined: per field its name, what `Field.type` holds, and its default if any.

`datify` follows the code: a callable `_datify` hook is not modelled; an annotation that
is not a dataclass (`Any`, builtins, `list[C]`, `dict[str, C]`, a string left by
`from __future__ import annotations`) makes `fields()` raise and the value is returned
as is; a union (`Optional[C]`, `C | None`, `A | B | None`) tries its dataclass members in order and keeps
the first one that ACCEPTS the value (`isinstance` check; fix commit 6cb25be);
for a dataclass `C` every exception inside `cls(**{f: datify(type f, d[f]) for f in d})`
(unknown key, missing required field, `d` not iterable, …) returns `d` unchanged.
-/
namespace Hio.Dom

abbrev Key := List Nat     -- utf-8 bytes of a str

inductive Tree where
  | null
  | bool (b : Bool)
  | int (i : Int)
  | float (bits : Nat)                 -- opaque atom: the IEEE-754 pattern
  | str (s : Key)
  | list (xs : List Tree)
  | dict (ks : List Key) (vs : List Tree)
  | obj (c : Nat) (ks : List Key) (vs : List Tree)
deriving Repr, Inhabited

/-- what `Field.type` holds -/
inductive Ann where
  | any                 -- `Any`, `int`, `str`, `list`, `dict`, … : not a dataclass
  | dom (c : Nat)       -- the dataclass itself
  | opt (cs : List Nat) -- `Optional[C]`, `C | None`, and unions of several dataclasses `A | B | None`, `Optional[Union[A, B]]`
  | listOf (c : Nat)    -- `list[C]`
  | dictOf (c : Nat)    -- `dict[str, C]`
  | strAnn (c : Nat)    -- the string `"C"`
deriving Repr, DecidableEq

structure Field where
  name : Key
  ann : Ann
  dflt : Option Tree      -- `none`: required

/-- a `__post_init__` that validates one field: an `int` value outside `[lo, hi]` makes the constructor raise
(`ValueError` or any other exception class: `datify` catches them all) -/
structure Check where
  field : Key
  lo : Int
  hi : Int

/-- a `_dictify` / `_datify` hook pair a class may define (exact inverses of each other):
`rename`: `_dictify` gives `{"h_" + name: value}`, `_datify` strips the prefix again (and refuses a key without it);
`wrap`:   `_dictify` gives `{name: [value]}`, `_datify` takes the single element out again (and refuses anything else) -/
inductive Hook | rename | wrap
deriving DecidableEq, Repr

structure Class where
  fields : List Field
  check : Option Check := none
  hook : Option Hook := none

abbrev Schema := List Class

inductive Exn | valueError | decodeError
deriving Repr, DecidableEq

/-! ### dictify = `dataclasses.asdict` -/
mutual
def dictify : Tree → Tree
  | .list xs => .list (dictifyL xs)
  | .dict ks vs => .dict ks (dictifyL vs)
  | .obj _ ks vs => .dict ks (dictifyL vs)
  | t => t
def dictifyL : List Tree → List Tree
  | [] => []
  | x :: xs => dictify x :: dictifyL xs
end

/-! ### datify -/

/-- the dataclasses `datify` tries for an annotation, in order: the class itself, or the dataclass members of a
union in the order `typing.get_args` lists them; none for every other annotation -/
def candidates (S : Schema) : Ann → List (Nat × Class)
  | .dom c => match S[c]? with
    | some k => [(c, k)]
    | none => []
  | .opt cs => cs.filterMap fun c => (S[c]?).map fun k => (c, k)
  | _ => []

def Class.field? (k : Class) (name : Key) : Option Field := k.fields.find? (fun f => f.name == name)

def Class.annOf (k : Class) (name : Key) : Ann :=
  match k.field? name with
  | some f => f.ann
  | none => .any

def lookupKV (name : Key) : List Key → List Tree → Option Tree
  | k :: ks, v :: vs => if k = name then some v else lookupKV name ks vs
  | _, _ => none

/-- the value `cls(**kw)` gives each field: the keyword argument, else the default, else `TypeError` (`none`) -/
def fillFields (ks : List Key) (vs : List Tree) : List Field → Option (List Tree)
  | [] => some []
  | f :: fs =>
    match (match lookupKV f.name ks vs with | some v => some v | none => f.dflt), fillFields ks vs fs with
    | some v, some rest => some (v :: rest)
    | _, _ => none

/-- does `__post_init__` let these field values through? -/
def Class.admits (k : Class) (fvs : List Tree) : Bool :=
  match k.check with
  | none => true
  | some ch =>
    match lookupKV ch.field (k.fields.map (·.name)) fvs with
    | some (.int v) => decide (ch.lo ≤ v) && decide (v ≤ ch.hi)
    | _ => true

/-- `cls(**kw)` once the keyword arguments `ks`/`vs` are datified; `orig` is what the `except Exception` returns:
unknown key, missing required field, or a `__post_init__` that rejects the values -/
def construct (c : Nat) (k : Class) (ks : List Key) (vs : List Tree) (orig : Tree) : Tree :=
  if ks.all (fun name => (k.field? name).isSome) then
    match fillFields ks vs k.fields with
    | some fvs => if k.admits fvs then .obj c (k.fields.map (·.name)) fvs else orig
    | none => orig
  else orig

/-- the first attempt that produced an instance of the class it was tried for (`isinstance(dom, arg)`); else `orig` -/
def pick (orig : Tree) : List (Nat × Tree) → Tree
  | [] => orig
  | (c, .obj c' ks vs) :: rest => if c' = c then .obj c' ks vs else pick orig rest
  | _ :: rest => pick orig rest

def stripH : Key → Option Key
  | 104 :: 95 :: rest => some rest
  | _ => none

def unwrap1 : Tree → Option Tree
  | .list [v] => some v
  | _ => none

/-- `cls._datify(d)` of a hooked class on a dict (any exception inside it is swallowed by `datify`: `orig`) -/
def viaHook (h : Hook) (c : Nat) (k : Class) (ks : List Key) (vs : List Tree) (orig : Tree) : Tree :=
  match h with
  | .rename => match ks.mapM stripH with
    | some ks' => construct c k ks' vs orig
    | none => orig
  | .wrap => match vs.mapM unwrap1 with
    | some vs' => construct c k ks vs' orig
    | none => orig

mutual
def datify (S : Schema) : Ann → Tree → Tree
  | a, .dict ks vs =>
    pick (.dict ks vs) ((candidates S a).map fun ck => (ck.1,
      match ck.2.hook with
      | none => construct ck.1 ck.2 ks (datifyL S ck.2 ks vs) (.dict ks vs)
      | some h => viaHook h ck.1 ck.2 ks vs (.dict ks vs)))      -- a `_datify` hook replaces the field-by-field conversion
  | a, .list [] =>            -- `for f in []`: no keyword arguments at all (a hook wants a dict: it raises, `d` comes back)
    pick (.list []) ((candidates S a).map fun ck => (ck.1,
      match ck.2.hook with | none => construct ck.1 ck.2 [] [] (.list []) | some _ => .list []))
  | a, .str [] =>             -- `for f in ""`
    pick (.str []) ((candidates S a).map fun ck => (ck.1,
      match ck.2.hook with | none => construct ck.1 ck.2 [] [] (.str []) | some _ => .str []))
  | _, t => t                 -- not iterable / `fieldtypes[f]` or `d[f]` raises: returned unchanged
/-- `datify(fieldtypes[f], d[f])` for the keys of `d` in order -/
def datifyL (S : Schema) (k : Class) : List Key → List Tree → List Tree
  | name :: ks, v :: vs => datify S (k.annOf name) v :: datifyL S k ks vs
  | _, _ => []
end

/-- `dictify(x)` as the methods call it: the class's own `_dictify` hook when it has one — for the object handed in ONLY
(`dataclasses.asdict` recurses into nested data objects itself and knows nothing of their hooks) -/
def dictifyTop (S : Schema) : Tree → Tree
  | .obj c ks vs =>
    match (S[c]?).bind (·.hook) with
    | some .rename => .dict (ks.map fun k => 104 :: 95 :: k) (dictifyL vs)
    | some .wrap => .dict ks ((dictifyL vs).map fun v => .list [v])
    | none => dictify (.obj c ks vs)
  | t => dictify t

/-- `cls._fromdict(d)`: datify, then `isinstance(dom, cls)` -/
def fromdict (S : Schema) (c : Nat) (d : Tree) : Except Exn Tree :=
  match datify S (.dom c) d with
  | .obj c' ks vs => if c' = c then .ok (.obj c' ks vs) else .error .valueError
  | _ => .error .valueError

/-- a serialisation library: JSON, CBOR or MessagePack enter only through this interface -/
structure Codec where
  enc : Tree → List Nat
  dec : List Nat → Option Tree

/-- `x._asjson()` / `_ascbor()` / `_asmgpk()` -/
def asraw (C : Codec) (x : Tree) : List Nat := C.enc (dictify x)      -- for a class without hooks (`dictifyTop` otherwise)

/-- `cls._fromjson(s)` / `_fromcbor(s)` / `_frommgpk(s)` -/
def fromraw (S : Schema) (C : Codec) (c : Nat) (raw : List Nat) : Except Exn Tree :=
  match C.dec raw with
  | some d => fromdict S c d
  | none => .error .decodeError

end Hio.Dom
