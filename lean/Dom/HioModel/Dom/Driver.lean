import HioModel.Basic.Sexp
import HioModel.Dom.Model
open Hio Hio.Dom Hio.Sexp

def ltBytes : List Nat → List Nat → Bool
  | [], [] => false
  | [], _ :: _ => true
  | _ :: _, [] => false
  | x :: xs, y :: ys => if x < y then true else if y < x then false else ltBytes xs ys

def insertBy {α} (lt : α → α → Bool) (x : α) : List α → List α
  | [] => [x]
  | y :: ys => if lt x y then x :: y :: ys else y :: insertBy lt x ys

def sortBy {α} (lt : α → α → Bool) (xs : List α) : List α := xs.foldr (insertBy lt) []

/-- print a tree in the canonical form of the harness (dict entries sorted by key) -/
partial def outTree : Tree → Sexp
  | .null => sym "null"
  | .bool b => tag "bool" [ofBool b]
  | .int i => tag "int" [ofInt i]
  | .float b => tag "float" [ofNat b]
  | .str s => tag "str" [ofBytes s]
  | .list xs => tag "list" (xs.map outTree)
  | .dict ks vs =>
    tag "dict" ((sortBy (fun a b => ltBytes a.1 b.1) (ks.zip vs)).map fun (k, v) => .list [ofBytes k, outTree v])
  | .obj c _ vs => tag "obj" (ofNat c :: vs.map outTree)

/-- the same text as `(outTree t).str`, built in linear time (a 2^17-element list has to be printed) -/
partial def render : Tree → String
  | .null => "null"
  | .bool b => "(bool " ++ (if b then "t" else "f") ++ ")"
  | .int i => "(int " ++ toString i ++ ")"
  | .float b => "(float " ++ toString b ++ ")"
  | .str s => "(str " ++ (ofBytes s).str ++ ")"
  | .list [] => "(list)"
  | .list xs => "(list " ++ String.intercalate " " (xs.map render) ++ ")"
  | .dict ks vs =>
    match sortBy (fun a b => ltBytes a.1 b.1) (ks.zip vs) with
    | [] => "(dict)"
    | kvs => "(dict " ++ String.intercalate " " (kvs.map fun (k, v) => "(" ++ (ofBytes k).str ++ " " ++ render v ++ ")") ++ ")"
  | .obj c _ [] => "(obj " ++ toString c ++ ")"
  | .obj c _ vs => "(obj " ++ toString c ++ " " ++ String.intercalate " " (vs.map render) ++ ")"

def namesOf (S : Schema) (c : Nat) : List Key :=
  match S[c]? with
  | some k => k.fields.map (·.name)
  | none => []

partial def tree? (S : Schema) : Sexp → Option Tree
  | .atom "null" => some .null
  | .list [.atom "bool", b] => (bool? b).map .bool
  | .list [.atom "int", i] => (int? i).map .int
  | .list [.atom "float", b] => (nat? b).map .float
  | .list [.atom "str", s] => (bytes? s).map .str
  | .list (.atom "list" :: xs) => (xs.mapM (tree? S)).map .list
  | .list (.atom "dict" :: kvs) => do
    let ps ← kvs.mapM fun
      | .list [k, v] => do some ((← bytes? k), (← tree? S v))
      | _ => none
    some (.dict (ps.map (·.1)) (ps.map (·.2)))
  | .list (.atom "obj" :: c :: vs) => do
    let c ← nat? c
    let vs ← vs.mapM (tree? S)
    some (.obj c (namesOf S c) vs)
  | _ => none

def ann? : Sexp → Option Ann
  | .atom "any" => some .any
  | .list [.atom "dom", c] => (nat? c).map .dom
  | .list (.atom "opt" :: cs) => (cs.mapM nat?).map .opt
  | .list [.atom "list", c] => (nat? c).map .listOf
  | .list [.atom "dictof", c] => (nat? c).map .dictOf
  | .list [.atom "strann", c] => (nat? c).map .strAnn
  | _ => none

/-- classes are parsed in order so that defaults / instances can mention earlier classes -/
def field? (S : Schema) : Sexp → Option Field
  | .list [.atom "fld", n, a, d] => do
    let n ← bytes? n
    let a ← ann? a
    let d ← (match d with
      | .atom "-" => some none
      | t => (tree? S t).map some)
    some ⟨n, a, d⟩
  | _ => none

def check? : Sexp → Option Check
  | .list [.atom "chk", f, lo, hi] => do some ⟨← bytes? f, ← int? lo, ← int? hi⟩
  | _ => none

def isChk : Sexp → Bool
  | .list (.atom "chk" :: _) => true
  | _ => false

def isHook : Sexp → Bool
  | .list [.atom "hook", _] => true
  | _ => false

def hook? : Sexp → Option Hook
  | .list [.atom "hook", .atom "rename"] => some .rename
  | .list [.atom "hook", .atom "wrap"] => some .wrap
  | _ => none

def schema? : List Sexp → Schema → Option Schema
  | [], acc => some acc
  | .list (.atom "cls" :: items) :: rest, acc => do
    let fs ← (items.filter (fun x => !isChk x && !isHook x)).mapM (field? acc)
    let hk ← (match items.filter isHook with
      | [] => some none
      | h :: _ => (hook? h).map some)
    let ck ← (match items.filter isChk with
      | [] => some none
      | c :: _ => (check? c).map some)
    schema? rest (acc ++ [{ fields := fs, check := ck, hook := hk }])
  | _, _ => none

def outRes : Except Exn Tree → Sexp
  | .ok t => .atom ("(ok " ++ render t ++ ")")
  | .error .valueError => tag "raise" [sym "ValueError"]
  | .error .decodeError => tag "raise" [sym "DecodeError"]

def rtReply (S : Schema) (x : Sexp) : Sexp :=
  match tree? S x with
  | some (.obj c ks vs) =>
    let d := dictifyTop S (.obj c ks vs)
    .list [.atom (render d), outRes (fromdict S c d)]
  | _ => sym "bad-request"

def loadReply (S : Schema) (c d : Sexp) : Sexp :=
  match nat? c, tree? S d with
  | some c, some d => outRes (fromdict S c d)
  | _, _ => sym "bad-request"

/-- every call is a function of its own argument only: a history is answered call by call -/
def stepReply (S : Schema) : Sexp → Sexp
  | .list [.atom "rt", x] => rtReply S x
  | .list [.atom "load", c, d] => loadReply S c d
  | .list [.atom "bad"] => .list [sym "bad"]
  | _ => sym "bad-request"

def handle : Sexp → Sexp
  | .list [.atom "rt", .list cs, x] =>
    match schema? cs [] with
    | none => sym "bad-request"
    | some S => rtReply S x
  | .list [.atom "load", .list cs, c, d] =>
    match schema? cs [] with
    | some S => loadReply S c d
    | none => sym "bad-request"
  | .list [.atom "seq", .list cs, .list steps] =>
    match schema? cs [] with
    | some S => .list (steps.map (stepReply S))
    | none => sym "bad-request"
  | _ => sym "bad-request"

def main : IO Unit := serve handle
