import HioModel.Cli.Model
/-! invariants of the client model (C19) -/
namespace Hio.Http.Cli
open Hio.Http

/-- originating request of an entry: its own `reply` key, or the one carried by the first hop of its history -/
def origin (e : Entry) : Option Nat :=
  match e.redirects with
  | h :: _ => h.tag
  | [] => e.tag

/-- originating request of the exchange in process -/
def curOrigin (s : St) : Option Nat :=
  match s.redirects with
  | h :: _ => h.tag
  | [] => s.latest

/-- the accounting of requests: answered ++ in process ++ still queued -/
def ledger (s : St) : List (Option Nat) :=
  s.entries.map origin ++ (if s.waited then [curOrigin s] else []) ++ s.queue.map (fun q => some q.1)

/-- the request a key stands for -/
def reqOf (reqs : List Req) (k : Nat) : Option Req := reqs[k]?

structure Inv (reqs : List Req) (s : St) : Prop where
  flight : s.inflight = if s.waited && s.pending.isSome then 1 else 0
  peak : s.peak ≤ 1
  fifo : ledger s = (List.range reqs.length).map some
  idle : s.waited = false → s.latest = none ∧ s.redirects = []
  hist : ∀ h ∈ s.redirects, isRedirect h.status = true
  ents : ∀ e ∈ s.entries, (∀ h ∈ e.redirects, isRedirect h.status = true) ∧
    (e.errored = false → ∃ st, e.status = some st ∧ isRedirect st = false)
  qok : ∀ q ∈ s.queue, reqOf reqs q.1 = some q.2
  cok : ∀ k, s.latest = some k → reqOf reqs k = some s.cur
  hok : ∀ h, s.redirects.head? = some h → ∀ k, h.tag = some k → ∃ r, reqOf reqs k = some r ∧ r.path = h.path
  eok : ∀ e ∈ s.entries, (∀ k, e.tag = some k → reqOf reqs k = some ⟨e.method, e.path, e.rbody, e.rqargs⟩) ∧
    (∀ h, e.redirects.head? = some h → ∀ k, h.tag = some k → ∃ r, reqOf reqs k = some r ∧ r.path = h.path)

/-- `transmit` touches neither the ledger's parts nor the history -/
theorem transmit_fields (servers : List Server) (s : St) (r : Req) :
    (transmit servers s r).waited = true ∧ (transmit servers s r).entries = s.entries ∧
    (transmit servers s r).queue = s.queue ∧ (transmit servers s r).latest = s.latest ∧
    (transmit servers s r).redirects = s.redirects ∧ (transmit servers s r).outcome = s.outcome ∧
    (transmit servers s r).secure = s.secure ∧ (transmit servers s r).cur = r := by
  unfold transmit
  split
  · split <;> simp
  · simp

theorem transmit_flight (servers : List Server) (s : St) (r : Req) (h0 : s.inflight = 0) (hp : s.peak ≤ 1) :
    (transmit servers s r).inflight = (if (transmit servers s r).waited && (transmit servers s r).pending.isSome then 1 else 0) ∧
    (transmit servers s r).peak ≤ 1 := by
  unfold transmit
  split
  · split <;> simp [h0, hp] <;> omega
  · simp [h0, hp]

theorem ledger_transmit (servers : List Server) (s : St) (r : Req) :
    ledger (transmit servers s r) = s.entries.map origin ++ [curOrigin s] ++ s.queue.map (fun q => some q.1) := by
  obtain ⟨h1, h2, h3, h4, h5, _, _, _⟩ := transmit_fields servers s r
  simp [ledger, curOrigin, h1, h2, h3, h4, h5]

/-- transmitting in a state where nothing is in flight re-establishes the invariant, given the ledger it will have -/
theorem inv_transmit (reqs : List Req) (servers : List Server) (t : St) (r : Req) (hfl : t.inflight = 0) (hp : t.peak ≤ 1)
    (hled : t.entries.map origin ++ [curOrigin t] ++ t.queue.map (fun q => some q.1) = (List.range reqs.length).map some)
    (hh : ∀ h ∈ t.redirects, isRedirect h.status = true)
    (he : ∀ e ∈ t.entries, (∀ h ∈ e.redirects, isRedirect h.status = true) ∧ (e.errored = false → ∃ st, e.status = some st ∧ isRedirect st = false))
    (hq : ∀ q ∈ t.queue, reqOf reqs q.1 = some q.2) (hc : ∀ k, t.latest = some k → reqOf reqs k = some r)
    (hho : ∀ h, t.redirects.head? = some h → ∀ k, h.tag = some k → ∃ r, reqOf reqs k = some r ∧ r.path = h.path)
    (heo : ∀ e ∈ t.entries, (∀ k, e.tag = some k → reqOf reqs k = some ⟨e.method, e.path, e.rbody, e.rqargs⟩) ∧
      (∀ h, e.redirects.head? = some h → ∀ k, h.tag = some k → ∃ r, reqOf reqs k = some r ∧ r.path = h.path)) :
    Inv reqs (transmit servers t r) := by
  obtain ⟨f1, f2, f3, f4, f5, _, _, f8⟩ := transmit_fields servers t r
  obtain ⟨g1, g2⟩ := transmit_flight servers t r hfl hp
  refine ⟨g1, g2, ?_, ?_, ?_, ?_, ?_, ?_, ?_, ?_⟩
  · rw [ledger_transmit]; exact hled
  · intro hwt; rw [f1] at hwt; exact absurd hwt (by decide)
  · rw [f5]; exact hh
  · rw [f2]; exact he
  · rw [f3]; exact hq
  · rw [f4, f8]; exact hc
  · rw [f5]; exact hho
  · rw [f2]; exact heo

theorem inv_serviceRequests (reqs : List Req) (servers : List Server) (s : St) (h : Inv reqs s) : Inv reqs (serviceRequests servers s) := by
  unfold serviceRequests
  by_cases hw : s.waited = true
  · rw [if_pos hw]; exact h
  · rw [if_neg hw]
    have hwf : s.waited = false := by simpa using hw
    obtain ⟨hl, hr⟩ := h.idle hwf
    have hfl : s.inflight = 0 := by rw [h.flight]; simp [hwf]
    split
    · exact h
    · rename_i k r q hq
      apply inv_transmit reqs servers { s with queue := q, latest := some k } r hfl h.peak
      · have := h.fifo
        simp only [ledger, hwf, hq, Bool.false_eq_true, ↓reduceIte, List.append_nil, List.map_cons] at this
        simp [curOrigin, hr, ← this]
      · exact h.hist
      · exact h.ents
      · intro x hx; exact h.qok x (by rw [hq]; exact List.mem_cons_of_mem _ hx)
      · intro k' hk'
        simp only [Option.some.injEq] at hk'
        subst hk'
        exact h.qok (k, r) (by rw [hq]; exact List.mem_cons_self ..)
      · intro x hx; rw [show ({ s with queue := q, latest := some k } : St).redirects = s.redirects from rfl, hr] at hx; simp at hx
      · exact h.eok

/-- `Inv` only reads nine fields -/
theorem inv_congr (reqs : List Req) (s t : St) (h : Inv reqs s)
    (e1 : t.inflight = s.inflight) (e2 : t.waited = s.waited) (e3 : t.pending = s.pending) (e4 : t.peak = s.peak)
    (e5 : t.entries = s.entries) (e6 : t.queue = s.queue) (e7 : t.latest = s.latest) (e8 : t.redirects = s.redirects)
    (e9 : t.cur = s.cur) : Inv reqs t := by
  refine ⟨by rw [e1, e2, e3]; exact h.flight, by rw [e4]; exact h.peak, ?_, by rw [e2, e7, e8]; exact h.idle,
    by rw [e8]; exact h.hist, by rw [e5]; exact h.ents, by rw [e6]; exact h.qok, by rw [e7, e9]; exact h.cok,
    by rw [e8]; exact h.hok, by rw [e5]; exact h.eok⟩
  have := h.fifo
  simp only [ledger, curOrigin] at this ⊢
  rw [e2, e5, e6, e7, e8]; exact this

/-- the response in process is taken off the wire -/
theorem inv_consume (reqs : List Req) (s : St) (rp : Resp) (al : Bool) (h : Inv reqs s) (hw : s.waited = true) (hp : s.pending.isSome = true) :
    Inv reqs { s with inflight := s.inflight - 1, pending := none, alive := al } := by
  have hfl : s.inflight = 1 := by rw [h.flight]; simp [hw, hp]
  refine ⟨by simp [hfl], h.peak, ?_, h.idle, h.hist, h.ents, h.qok, h.cok, h.hok, h.eok⟩
  exact h.fifo

theorem inv_finish (reqs : List Req) (s : St) (status : Option Nat) (body : Bytes) (errored : Bool) (h : Inv reqs s)
    (hw : s.waited = true) (hpn : s.pending = none)
    (hst : errored = false → ∃ st, status = some st ∧ isRedirect st = false) :
    Inv reqs (finish s status body errored) := by
  have hfl : s.inflight = 0 := by rw [h.flight]; simp [hpn]
  unfold finish
  refine ⟨by simp [hfl], by simpa using h.peak, ?_, by simp, by simp, ?_, h.qok, by simp, by simp, ?_⟩
  · rw [← h.fifo]
    simp [ledger, hw, origin, curOrigin]
  · intro e he'
    simp only [List.mem_append, List.mem_singleton] at he'
    rcases he' with he' | he'
    · exact h.ents e he'
    · subst he'; exact ⟨h.hist, hst⟩
  · intro e he'
    simp only [List.mem_append, List.mem_singleton] at he'
    rcases he' with he' | he'
    · exact h.eok e he'
    · subst he'
      refine ⟨?_, h.hok⟩
      intro k hk
      have := h.cok k hk
      rw [this]

theorem curOrigin_hop (reds : List Hop) (latest : Option Nat) (st : Nat) (p : Bytes) :
    (match reds ++ [(⟨st, p, latest⟩ : Hop)] with | h :: _ => h.tag | [] => none) =
    (match reds with | h :: _ => h.tag | [] => latest) := by
  cases reds <;> rfl

/-- a consumed redirect response goes into the history; the `reply` key moves with the first hop -/
theorem inv_hop (reqs : List Req) (s : St) (st : Nat) (h : Inv reqs s) (hw : s.waited = true) (hr : isRedirect st = true) :
    Inv reqs { s with redirects := s.redirects ++ [⟨st, s.cur.path, s.latest⟩], latest := none } := by
  refine ⟨h.flight, h.peak, ?_, by intro hc; rw [hw] at hc; exact absurd hc (by decide), ?_, h.ents, h.qok,
    by intro k hk; exact absurd hk (by simp), ?_, h.eok⟩
  · have := h.fifo
    simp only [ledger, curOrigin, hw, ↓reduceIte] at this ⊢
    rw [curOrigin_hop]; exact this
  · intro x hx
    rcases List.mem_append.mp hx with hx | hx
    · exact h.hist x hx
    · simp only [List.mem_singleton] at hx; subst hx; exact hr
  · intro x hx k hk
    cases hreds : s.redirects with
    | nil =>
      simp only [hreds, List.nil_append, List.head?_cons, Option.some.injEq] at hx
      subst hx
      exact ⟨s.cur, h.cok k hk, rfl⟩
    | cons y ys =>
      simp only [hreds, List.cons_append, List.head?_cons, Option.some.injEq] at hx
      subst hx
      exact h.hok y (by rw [hreds]; rfl) k hk

/-- the same before `.latest` is consumed (the state `redirect()` sees when it raises) -/
theorem inv_hop_keep (reqs : List Req) (s : St) (st : Nat) (h : Inv reqs s) (hw : s.waited = true) (hr : isRedirect st = true) :
    Inv reqs { s with redirects := s.redirects ++ [⟨st, s.cur.path, s.latest⟩] } := by
  refine ⟨h.flight, h.peak, ?_, by intro hc; rw [hw] at hc; exact absurd hc (by decide), ?_, h.ents, h.qok, h.cok, ?_, h.eok⟩
  · have := h.fifo
    simp only [ledger, curOrigin, hw, ↓reduceIte] at this ⊢
    cases hreds : s.redirects with
    | nil => rw [hreds] at this; simpa using this
    | cons y ys => rw [hreds] at this; simpa using this
  · intro x hx
    rcases List.mem_append.mp hx with hx | hx
    · exact h.hist x hx
    · simp only [List.mem_singleton] at hx; subst hx; exact hr
  · intro x hx k hk
    cases hreds : s.redirects with
    | nil =>
      simp only [hreds, List.nil_append, List.head?_cons, Option.some.injEq] at hx
      subst hx
      exact ⟨s.cur, h.cok k hk, rfl⟩
    | cons y ys =>
      simp only [hreds, List.cons_append, List.head?_cons, Option.some.injEq] at hx
      subst hx
      exact h.hok y (by rw [hreds]; rfl) k hk

/-- transmitting the next hop / request from a consistent waiting state with nothing on the wire -/
theorem inv_transmit_waiting (reqs : List Req) (servers : List Server) (t : St) (r : Req) (h : Inv reqs t)
    (hw : t.waited = true) (hpn : t.pending = none) (hc : ∀ k, t.latest = some k → reqOf reqs k = some r) :
    Inv reqs (transmit servers t r) := by
  have hfl : t.inflight = 0 := by rw [h.flight]; simp [hpn]
  apply inv_transmit reqs servers t r hfl h.peak _ h.hist h.ents h.qok hc h.hok h.eok
  have := h.fifo
  simpa [ledger, hw] using this

theorem inv_handle (reqs : List Req) (servers : List Server) (s : St) (rp : Resp) (h : Inv reqs s)
    (hw : s.waited = true) (hp : s.pending.isSome = true) : Inv reqs (handle servers s rp) := by
  unfold handle
  simp only []
  have h0 := inv_consume reqs s rp (s.alive && !(rp.close || rp.framing == 2 || rp.framing == 3)) h hw hp
  by_cases hr : isRedirect rp.status = true
  · simp only [hr, ↓reduceIte]
    have hk := inv_hop_keep reqs _ rp.status h0 hw hr
    have hrefuse := inv_finish reqs _ none [] true hk hw rfl (fun hc => absurd hc (by decide))
    have h1 := inv_hop reqs _ rp.status h0 hw hr
    split
    · exact hrefuse
    · rename_i l hl
      split
      · split
        · exact hrefuse
        · apply inv_transmit_waiting reqs servers
          · exact inv_congr reqs _ _ h1 rfl rfl rfl rfl rfl rfl rfl rfl rfl
          · exact hw
          · rfl
          · intro k hk; exact absurd hk (by simp)
      · apply inv_transmit_waiting reqs servers _ _ h1 hw rfl
        intro k hk; exact absurd hk (by simp)
  · simp only [hr, Bool.false_eq_true, ↓reduceIte]
    exact inv_finish reqs _ _ _ _ h0 hw rfl (fun _ => ⟨rp.status, rfl, by simpa using hr⟩)

theorem inv_outcome (reqs : List Req) (s : St) (o : Outcome) (h : Inv reqs s) : Inv reqs { s with outcome := o } :=
  inv_congr reqs _ _ h rfl rfl rfl rfl rfl rfl rfl rfl rfl

theorem inv_serviceResponse (reqs : List Req) (servers : List Server) (arrived : Bool) (s : St) (h : Inv reqs s) :
    Inv reqs (serviceResponse servers arrived s) := by
  unfold serviceResponse
  by_cases hw : s.waited = true
  · rw [if_neg (by simp [hw])]
    split
    · rename_i hp
      exact inv_finish reqs s none [] true h hw hp (fun hc => absurd hc (by decide))
    · rename_i rp hp
      have hps : s.pending.isSome = true := by rw [hp]; rfl
      split
      · exact h
      · split
        · unfold afterIdle
          split
          · exact inv_congr reqs _ _ (inv_handle reqs servers s _ h hw hps) rfl rfl rfl rfl rfl rfl rfl rfl rfl
          · exact inv_handle reqs servers s _ h hw hps
        · split
          · split
            · split
              · exact inv_handle reqs servers s rp h hw hps
              · exact inv_finish reqs _ none [] true (inv_consume reqs s rp false h hw hps) hw rfl (fun hc => absurd hc (by decide))
            · exact inv_outcome reqs s .stuck h
          · unfold afterIdle
            split
            · exact inv_congr reqs _ _ (inv_handle reqs servers s rp h hw hps) rfl rfl rfl rfl rfl rfl rfl rfl rfl
            · exact inv_handle reqs servers s rp h hw hps
  · rw [if_pos (by simp [hw])]
    exact h

theorem inv_cycle (reqs : List Req) (servers : List Server) (arrived : Bool) (s : St) (h : Inv reqs s) : Inv reqs (cycle servers arrived s) := by
  unfold cycle
  split
  · exact inv_serviceResponse reqs servers arrived _ (inv_serviceRequests reqs servers s h)
  · exact h

theorem inv_run (reqs : List Req) (servers : List Server) (sched : List Bool) (s : St) (h : Inv reqs s) : Inv reqs (run servers sched s) := by
  induction sched generalizing s with
  | nil => exact h
  | cons a as ih => exact ih _ (inv_cycle reqs servers a s h)

theorem map_fst_zip_range (reqs : List Req) : ((List.range reqs.length).zip reqs).map (fun q => some q.1) = (List.range reqs.length).map some := by
  calc ((List.range reqs.length).zip reqs).map (fun q => some q.1)
      = (((List.range reqs.length).zip reqs).map Prod.fst).map some := by rw [List.map_map]; rfl
    _ = (List.range reqs.length).map some := by rw [List.map_fst_zip]; simp

theorem zip_range_ok (reqs : List Req) : ∀ q ∈ (List.range reqs.length).zip reqs, reqOf reqs q.1 = some q.2 := by
  intro q hq
  obtain ⟨i, hi, he⟩ := List.mem_iff_getElem.mp hq
  simp only [List.getElem_zip, List.getElem_range] at he
  subst he
  simp only [List.length_zip, List.length_range, Nat.min_self] at hi
  simp [reqOf, hi]

theorem inv_init (secure : Bool) (port : Nat) (servers : List Server) (reqs : List Req) :
    Inv reqs (init secure port servers reqs) := by
  refine ⟨by simp [init], by simp [init], ?_, by simp [init], by simp [init], by simp [init], zip_range_ok reqs,
    by simp [init], by simp [init], by simp [init]⟩
  simp only [ledger, init, List.map_nil, Bool.false_eq_true, ↓reduceIte, List.append_nil, List.nil_append]
  exact map_fst_zip_range reqs


/-! ### https is never left -/

/-- on https, and everything put on the wire since `w0` went over TLS -/
def SecRel (w0 : List Sent) (s : St) : Prop :=
  s.secure = true ∧ ∃ added, s.wire = w0 ++ added ∧ ∀ w ∈ added, w.tls = true

theorem sec_congr (w0 : List Sent) (s t : St) (h : SecRel w0 s) (e1 : t.secure = s.secure) (e2 : t.wire = s.wire) : SecRel w0 t := by
  unfold SecRel; rw [e1, e2]; exact h

theorem sec_transmit (w0 : List Sent) (servers : List Server) (s : St) (r : Req) (h : SecRel w0 s) :
    SecRel w0 (transmit servers s r) := by
  obtain ⟨hs, added, hw, ht⟩ := h
  unfold transmit
  split
  · split
    · refine ⟨hs, added ++ [⟨s.port, s.secure, r.method, targetOf r.path r.qargs, if r.method == lit "GET" then [] else r.body⟩], ?_, ?_⟩
      · simp [hw]
      · intro w hw'
        rcases List.mem_append.mp hw' with hw' | hw'
        · exact ht w hw'
        · simp only [List.mem_singleton] at hw'; subst hw'; exact hs
    · exact ⟨hs, added, hw, ht⟩
  · exact ⟨hs, added, hw, ht⟩

theorem sec_serviceRequests (w0 : List Sent) (servers : List Server) (s : St) (h : SecRel w0 s) :
    SecRel w0 (serviceRequests servers s) := by
  unfold serviceRequests
  split
  · exact h
  · split
    · exact h
    · exact sec_transmit w0 servers _ _ (sec_congr w0 s _ h rfl rfl)

theorem sec_handle (w0 : List Sent) (servers : List Server) (s : St) (rp : Resp) (h : SecRel w0 s) :
    SecRel w0 (handle servers s rp) := by
  unfold handle
  simp only []
  split
  · split
    · exact sec_congr w0 s _ h rfl rfl
    · rename_i l hl
      split
      · split
        · exact sec_congr w0 s _ h rfl rfl
        · rename_i hne hnr
          apply sec_transmit
          have hsec : l.secure = true := by
            have : s.secure = true := h.1
            simp only [this, Bool.true_and, Bool.not_eq_true', Bool.not_eq_false] at hnr
            exact hnr
          obtain ⟨_, added, hw, ht⟩ := h
          exact ⟨hsec, added, hw, ht⟩
      · exact sec_transmit w0 servers _ _ (sec_congr w0 s _ h rfl rfl)
  · exact sec_congr w0 s _ h rfl rfl

theorem sec_serviceResponse (w0 : List Sent) (servers : List Server) (arrived : Bool) (s : St) (h : SecRel w0 s) :
    SecRel w0 (serviceResponse servers arrived s) := by
  unfold serviceResponse
  split
  · exact h
  · split
    · exact sec_congr w0 s _ h rfl rfl
    · split
      · exact h
      · split
        · unfold afterIdle
          split
          · exact sec_congr w0 _ _ (sec_handle w0 servers s _ h) rfl rfl
          · exact sec_handle w0 servers s _ h
        · split
          · split
            · split
              · exact sec_handle w0 servers s _ h
              · exact sec_congr w0 s _ h rfl rfl
            · exact sec_congr w0 s _ h rfl rfl
          · unfold afterIdle
            split
            · exact sec_congr w0 _ _ (sec_handle w0 servers s _ h) rfl rfl
            · exact sec_handle w0 servers s _ h

theorem sec_cycle (w0 : List Sent) (servers : List Server) (arrived : Bool) (s : St) (h : SecRel w0 s) :
    SecRel w0 (cycle servers arrived s) := by
  unfold cycle
  split
  · exact sec_serviceResponse w0 servers arrived _ (sec_serviceRequests w0 servers s h)
  · exact h

theorem sec_run (w0 : List Sent) (servers : List Server) (sched : List Bool) (s : St) (h : SecRel w0 s) :
    SecRel w0 (run servers sched s) := by
  induction sched generalizing s with
  | nil => exact h
  | cons a as ih => exact ih _ (sec_cycle w0 servers a s h)

theorem run_terminal (servers : List Server) (sched : List Bool) (s : St) (h : s.outcome ≠ .running) : run servers sched s = s := by
  induction sched with
  | nil => rfl
  | cons a as ih =>
    have : cycle servers a s = s := by
      unfold cycle
      split
      · rename_i hr; exact absurd hr h
      · rfl
    simp only [run, this, ih]

end Hio.Http.Cli
