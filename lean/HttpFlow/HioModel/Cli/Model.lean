import HioModel.Text
import HioModel.Gen.HttpConsts
import HioModel.Req.Model
/-!
# Model of `hio.core.http.clienting.Client`: request queue, `waited`, `latest`, response
queue, redirect history — against a scripted world of servers

Faithful to the tree with the `fix:` commits for F30 (entries own their body) and F51
(a request written into a connection the server already closed yields an errored entry).
Message level: one server response is a value (status, Location, body, framing, close);
*when* it has arrived completely is an input (`sched`, one Boolean per service cycle), so that
every delay / split delivery is covered by quantifying over `sched`.

One `cycle` = one `Client.service()` call: `serviceRequests` (pop + transmit when not
`waited`), then `serviceResponse` (when `waited`: error entry if the connection is dead, else
if the response is complete: redirect or append an entry).

The request target on the wire is `targetOf path qargs`; a followed redirect is re-sent to the Location's path and the
Location's query arguments ONLY (the previous arguments are dropped), with the same method and an empty body.
Responses to HEAD (also to the hops of a redirected HEAD) and with status 1xx / 204 / 304 are bodiless whatever
Content-Length / Transfer-Encoding they carry (`bodiless`; tree with the two `fix:` commits 3095720 and 041b28b).
Interim `100 Continue` responses a server sends before a response (any number, RFC 7231 6.2.1) are read past by
`Respondent.parseHead` and are not part of a `Resp`: the scripted servers of the correspondence run send 0–10 of them.
Known finding kept in the model (C19-K1): a response cut short by the server closing
(`framing = 3`) is never completed — `outcome = stuck`, `waited` stays true.
The https→http refusal and a 3xx response without `Location` (tree after HttpParse's fix of F48/F49): `redirect()` raises,
`serviceResponse` catches it and reports the redirect response itself as an errored entry with the history attached;
nothing is sent to the target, the connection is kept and the queue moves on.
-/
namespace Hio.Http.Cli
open Hio.Http

structure Loc where
  secure : Bool
  port : Nat
  path : Bytes
  query : List (Bytes × Bytes)    -- the Location's query string, as arguments
deriving Repr, DecidableEq

structure Resp where
  status : Nat
  loc : Option Loc
  body : Bytes
  framing : Nat          -- 0 Content-Length | 1 chunked | 2 until close | 3 Content-Length larger than what is sent, then close
  close : Bool
  idleClose : Bool       -- if the client is idle after this exchange the server says `408` on its own and closes (bytes nobody asked for)
deriving Repr, DecidableEq

structure Req where
  method : Bytes
  path : Bytes
  body : Bytes
  qargs : List (Bytes × Bytes)
deriving Repr, DecidableEq

/-- the request target `Requester.build` writes for a path and a query-argument dict -/
def targetOf (path : Bytes) (qargs : List (Bytes × Bytes)) : Bytes :=
  Req.quote path ++ (if (Req.packQs qargs).isEmpty then [] else 63 :: Req.packQs qargs)

/-- responses that end at the blank line whatever their header fields say (RFC 7230 3.3.3): to HEAD, 1xx, 204, 304 -/
def bodiless (method : Bytes) (status : Nat) : Bool :=
  method == lit "HEAD" || status == 204 || status == 304 || (100 ≤ status && status < 200)

structure Server where
  port : Nat
  script : List Resp
deriving Repr, DecidableEq

/-- one hop of the redirect history: the redirect response's status and the request that drew it -/
structure Hop where
  status : Nat
  path : Bytes
  tag : Option Nat
deriving Repr, DecidableEq

structure Entry where
  status : Option Nat
  body : Bytes
  errored : Bool
  tag : Option Nat       -- the `reply` association key of the request dict carried by the entry
  method : Bytes
  path : Bytes
  rbody : Bytes
  rqargs : List (Bytes × Bytes)
  redirects : List Hop
deriving Repr, DecidableEq

structure Sent where
  port : Nat
  tls : Bool
  method : Bytes
  path : Bytes                  -- the request target as written on the wire (quoted path, `?`, packed query)
  body : Bytes
deriving Repr, DecidableEq

inductive Outcome | running | stuck
deriving Repr, DecidableEq

structure St where
  queue : List (Nat × Req)     -- `.requests`, each with its position in the original queue (the `reply` key)
  waited : Bool
  latest : Option Nat          -- `.latest` (its tag); none once consumed
  cur : Req                    -- requester method / path / body
  secure : Bool                -- requester.scheme == 'https'
  port : Nat                   -- connector.ha port
  alive : Bool                 -- connection not cut off
  pending : Option Resp        -- response on its way for the request in process (none: the request never reached a server)
  used : List (Nat × Nat)      -- per port: script entries consumed so far
  redirects : List Hop
  entries : List Entry
  wire : List Sent             -- what the servers received, in order
  inflight : Nat               -- (ghost) requests on the wire whose response the client has not consumed yet
  peak : Nat                   -- (ghost) the largest value `inflight` ever had
  outcome : Outcome
deriving Repr, DecidableEq

def defaultResp : Resp := ⟨200, none, [], 0, false, false⟩

def usedOf (port : Nat) (u : List (Nat × Nat)) : Nat := (u.lookup port).getD 0

def bump (port : Nat) : List (Nat × Nat) → List (Nat × Nat)
  | [] => [(port, 1)]
  | (p, n) :: r => if p = port then (p, n + 1) :: r else (p, n) :: bump port r

def scriptOf (servers : List Server) (port : Nat) : Option (List Resp) :=
  (servers.find? (fun s => s.port = port)).map (·.script)

/-- `Client.transmit`: mark waited, set requester fields, queue the request bytes; they reach a server only
when the connection is alive -/
def transmit (servers : List Server) (s : St) (r : Req) : St :=
  if s.alive then
    match scriptOf servers s.port with
    | some sc =>
      { s with waited := true, cur := r,
               pending := some (sc.getD (usedOf s.port s.used) defaultResp),
               used := bump s.port s.used,
               -- `Requester.build`: no body is sent with GET
               wire := s.wire ++ [⟨s.port, s.secure, r.method, targetOf r.path r.qargs, if r.method == lit "GET" then [] else r.body⟩],
               inflight := s.inflight + 1, peak := max s.peak (s.inflight + 1) }
    | none => { s with waited := true, cur := r, pending := none }
  else { s with waited := true, cur := r, pending := none }

/-- `serviceRequests` -/
def serviceRequests (servers : List Server) (s : St) : St :=
  if s.waited then s else
  match s.queue with
  | [] => s
  | (k, r) :: q => transmit servers { s with queue := q, latest := some k } r

def isRedirect (status : Nat) : Bool := Gen.redirectStatuses.contains status

/-- the `request` dict snapshot stored in a response: `.latest` (with its `reply` key) updated by the requester's fields -/
def snapshotTag (s : St) : Option Nat := s.latest

/-- append the finished response (normal or errored) to `.responses` -/
def finish (s : St) (status : Option Nat) (body : Bytes) (errored : Bool) : St :=
  { s with entries := s.entries ++ [⟨status, body, errored, s.latest, s.cur.method, s.cur.path, s.cur.body, s.cur.qargs, s.redirects⟩],
           redirects := [], latest := none, waited := false, pending := none }

/-- `serviceResponse` once the response in process is completely available -/
def handle (servers : List Server) (s : St) (rp : Resp) : St :=
  -- the response is consumed: it is no longer in flight; a closing server leaves the connection dead
  let s0 := { s with inflight := s.inflight - 1, pending := none,
                     alive := s.alive && !(rp.close || rp.framing == 2 || rp.framing == 3) }
  if isRedirect rp.status then
    -- `.redirects.append(copy(response))`: the redirect response (with the request that drew it) joins the history
    let hop : Hop := ⟨rp.status, s.cur.path, s.latest⟩
    let sh := { s0 with redirects := s0.redirects ++ [hop] }
    -- `redirect()` raised (no Location, or https → http): the redirect response itself is reported as an errored
    -- entry with the history attached; nothing is sent and the connection is kept
    let refuse := finish sh none [] true
    let s1 := { sh with latest := none }
    match rp.loc with
    | none => refuse
    | some l =>
      if l.port != s1.port || l.secure != s1.secure then
        if s1.secure && !l.secure then refuse
        else
          let s2 := { s1 with port := l.port, secure := l.secure, alive := (scriptOf servers l.port).isSome }
          transmit servers s2 ⟨s2.cur.method, l.path, [], l.query⟩
      else transmit servers s1 ⟨s1.cur.method, l.path, [], l.query⟩
  else finish s0 (some rp.status) rp.body false

/-- a server that times out an idle client: when nothing is in process and nothing is queued after the exchange, the connection
is dead from then on; the unsolicited bytes themselves answer nothing (tree with fix: what arrives while no request is in
process is dropped) -/
def afterIdle (rp : Resp) (s : St) : St :=
  if rp.idleClose && !s.waited && s.queue.isEmpty then { s with alive := false } else s

/-- `serviceResponse` -/
def serviceResponse (servers : List Server) (arrived : Bool) (s : St) : St :=
  if !s.waited then s else
  match s.pending with
  | none => finish s none [] true                          -- F51 fix: PrematureClosure → errored entry
  | some rp =>
    if !arrived then s
    else if bodiless s.cur.method rp.status then
      -- the response ends at the blank line: Content-Length and Transfer-Encoding are ignored, no body byte is read
      afterIdle rp (handle servers s { rp with body := [] })
    else if rp.framing == 3 then
      -- server closed before the declared length was delivered: with nothing left unparsed the parser raises
      -- PrematureClosure (errored entry); with partial body bytes left it waits forever (C19-K1)
      if rp.body.isEmpty then
        -- (`redirectant` was already set by parseHead, so an errored redirect is still followed)
        if isRedirect rp.status then handle servers s rp
        else finish { s with inflight := s.inflight - 1, pending := none, alive := false } none [] true
      else { s with outcome := .stuck }
    else afterIdle rp (handle servers s rp)

/-- one `Client.service()` -/
def cycle (servers : List Server) (arrived : Bool) (s : St) : St :=
  match s.outcome with
  | .running => serviceResponse servers arrived (serviceRequests servers s)
  | _ => s

def run (servers : List Server) : List Bool → St → St
  | [], s => s
  | a :: as, s => run servers as (cycle servers a s)

def init (secure : Bool) (port : Nat) (servers : List Server) (reqs : List Req) : St :=
  { queue := (List.range reqs.length).zip reqs, waited := false, latest := none, cur := ⟨lit "GET", lit "/", [], []⟩,
    secure := secure, port := port, alive := (scriptOf servers port).isSome, pending := none, used := [],
    redirects := [], entries := [], wire := [], inflight := 0, peak := 0, outcome := .running }

/-- a second run on the same Client object: `client.reopen()` while idle, then more `client.request(...)` calls.
`Client.request` fills what the caller leaves out from the requester's CURRENT fields (at the time of the call):
`path = none` → the stored path, `qargs = none` → the stored query arguments.  (No theorem depends on this function.) -/
def reopenAndQueue (servers : List Server) (reopen : Bool) (s : St) (base : Nat) (more : List (Bytes × Option Bytes × Bytes × Option (List (Bytes × Bytes)))) : St :=
  if s.waited || s.outcome != .running then s else
  let rs : List Req := more.map fun m => ⟨m.1, m.2.1.getD s.cur.path, m.2.2.1, m.2.2.2.getD s.cur.qargs⟩
  { s with alive := if reopen then (scriptOf servers s.port).isSome else s.alive, pending := none,
           queue := s.queue ++ ((List.range rs.length).map (· + base)).zip rs }

end Hio.Http.Cli
