import HioModel.Basic.Sexp
import HioModel.Wsgi.Model
import HioModel.Cli.Model
import HioModel.Req.Model
open Hio Hio.Sexp Hio.Http

namespace Drv

def optBytes? : Sexp → Option (Option Bytes)
  | .atom "-" => some none
  | s => (bytes? s).map some

def optNat? : Sexp → Option (Option Nat)
  | .atom "-" => some none
  | s => (nat? s).map some

def pair? : Sexp → Option (Bytes × Bytes)
  | .list [a, b] => do some ((← bytes? a), (← bytes? b))
  | _ => none

def pairs? : Sexp → Option (List (Bytes × Bytes))
  | .list xs => xs.mapM pair?
  | _ => none

def bytesList? : Sexp → Option (List Bytes)
  | .list xs => xs.mapM bytes?
  | _ => none

/-! ### C18 -/

def wsgiReq? : Sexp → Option Wsgi.Req
  | .list [v, c] => do some ⟨(← nat? v), (← optBytes? c)⟩
  | _ => none

def wsgiStatus? (s : Sexp) : Option Bytes :=
  match bytes? s with
  | some b => some b
  | none => (nat? s).map Wsgi.statusOfCode

def wsgiApp? : Sexp → Option Wsgi.App
  | .list [st, hs, cl, ps, rv] => do
    some ⟨(← wsgiStatus? st), (← pairs? hs), (← optNat? cl), (← bytesList? ps), (← bytes? rv)⟩
  | _ => none

def wsgiErr? : Sexp → Option (Option (Nat × Wsgi.Err))
  | .atom "-" => some none
  | .list [k, st, rs, ti, de, fa, hs] => do
    some (some (← nat? k, ⟨(← nat? st), (← bytes? rs), (← bytes? ti), (← bytes? de), (← optNat? fa), (← pairs? hs)⟩))
  | _ => none

def wsgiAppX? : Sexp → Option Wsgi.AppX
  | .list [st, hs, cl, ps, rv, .atom "crash"] => do
    some ⟨← wsgiApp? (.list [st, hs, cl, ps, rv]), none, true⟩
  | .list [st, hs, cl, ps, rv, er] => do
    some ⟨← wsgiApp? (.list [st, hs, cl, ps, rv]), ← wsgiErr? er, false⟩
  | a => do some ⟨← wsgiApp? a, none, false⟩

def c18Conn : Sexp → Option Sexp
  | .list [eof, .list rs, .list as] => do
    let eof ← bool? eof
    let rs ← rs.mapM wsgiReq?
    let as ← as.mapM wsgiAppX?
    if rs.length != as.length then none
    let o := Wsgi.serveX (rs.zip as)
    -- a connection whose client went away is dropped by the server; what had been queued by then depends on timing
    if eof then some (.list [sym "eof", ofBool true])
    else some (.list [ofBytes o.raw, ofBool o.closed, ofNat o.calls])
  | _ => none

def c18 : Sexp → Option Sexp
  | .list [.atom "c18", .list rs, .list as] => do
    let rs ← rs.mapM wsgiReq?
    let as ← as.mapM wsgiAppX?
    if rs.length != as.length then none
    let o := Wsgi.serveX (rs.zip as)
    some (.list [ofBytes o.raw, ofBool o.closed, ofNat o.calls])
  | _ => none


/-! ### C19 -/

def cliLoc? : Sexp → Option (Option Cli.Loc)
  | .atom "-" => some none
  | .list [s, p, path, q] => do some (some ⟨(← bool? s), (← nat? p), (← bytes? path), (← pairs? q)⟩)
  | _ => none

def cliResp? : Sexp → Option Cli.Resp
  | .list [st, loc, body, fr, cl, ic] => do
    some ⟨(← nat? st), (← cliLoc? loc), (← bytes? body), (← nat? fr), (← bool? cl), (← bool? ic)⟩
  | _ => none

def cliServer? : Sexp → Option Cli.Server
  | .list [p, .list rs] => do some ⟨(← nat? p), (← rs.mapM cliResp?)⟩
  | _ => none

def cliReq? : Sexp → Option Cli.Req
  | .list [m, p, b, q] => do some ⟨(← bytes? m), (← bytes? p), (← bytes? b), (← pairs? q)⟩
  | _ => none

def ofPairs (ps : List (Bytes × Bytes)) : Sexp := .list (ps.map fun p => .list [ofBytes p.1, ofBytes p.2])

def optPairs? : Sexp → Option (Option (List (Bytes × Bytes)))
  | .atom "-" => some none
  | s => (pairs? s).map some

def cliMore? : Sexp → Option (Bytes × Option Bytes × Bytes × Option (List (Bytes × Bytes)))
  | .list [m, p, b, q] => do some ((← bytes? m), (← optBytes? p), (← bytes? b), (← optPairs? q))
  | _ => none

def ofOptNat : Option Nat → Sexp := ofOpt ofNat

def outcomeName : Cli.Outcome → String
  | .running => "running" | .stuck => "stuck"

def c19 : Sexp → Option Sexp
  | .list [.atom "c19", sec, port, .list rq, .list sv, .list more, ro] => do
    let ro ← bool? ro
    let sec ← bool? sec
    let port ← nat? port
    let rq ← rq.mapM cliReq?
    let sv ← sv.mapM cliServer?
    let more ← more.mapM cliMore?
    let fuel := 2 * (rq.length + more.length + (sv.map (fun s => s.script.length)).foldl (· + ·) 0) + 10
    let s1 := Cli.run sv (List.replicate fuel true) (Cli.init sec port sv rq)
    let s := if more.isEmpty then s1 else Cli.run sv (List.replicate fuel true) (Cli.reopenAndQueue sv ro s1 rq.length more)
    let ents := s.entries.map fun e =>
      Sexp.list [ofOptNat e.status, ofBytes e.body, ofBool e.errored, ofOptNat e.tag, ofBytes e.method, ofBytes e.path, ofBytes e.rbody, ofPairs e.rqargs,
                 .list (e.redirects.map fun h => .list [ofNat h.status, ofBytes h.path, ofOptNat h.tag])]
    let wire := s.wire.map fun w => Sexp.list [ofNat w.port, ofBool w.tls, ofBytes w.method, ofBytes w.path, ofBytes w.body]
    -- `stuck` is visible from outside only as waited = true with requests left
    let oc := match s.outcome with | .stuck => "running" | o => outcomeName o
    some (.list [sym oc, .list ents, .list wire, ofBool s.waited, ofNat s.queue.length])
  | _ => none


/-! ### C14 -/

def exnName : Req.Exn → String
  | .unmodelled => "unmodelled" | .incomplete => "incomplete" | .badRequestLine => "HTTPException"
  | .unknownProtocol => "HTTPException" | .badMethod => "HTTPException" | .valueError => "ValueError"
  | .tooManyHeaders => "HTTPException" | .noLength => "HTTPException" | .lineTooLong => "HTTPException"


def c14Spec? : Sexp → Option Req.Spec
  | .list [m, p, qa, hs, bk, raw, form, host, bd] => do
    some ⟨(← bytes? m), (← bytes? p), (← pairs? qa), (← pairs? hs), (← nat? bk), (← bytes? raw), (← pairs? form), (← bytes? host), (← bytes? bd)⟩
  | _ => none

def c14View : Except Req.Exn Req.View → Sexp
  | .error e => .list [sym "error", sym (exnName e)]
  | .ok v => .list [sym "ok", ofBytes v.method, ofBytes v.path, ofPairs v.query, ofPairs v.headers, ofBytes v.body]

def c14 : Sexp → Option Sexp
  | .list [.atom "c14", .list specs] => do
    let specs ← specs.mapM c14Spec?
    let builds := specs.map Req.build
    let stream := builds.foldl (fun acc b => match b with | .ok m => acc ++ m | .error _ => acc) []
    let n := (builds.filter (fun b => match b with | .ok _ => true | .error _ => false)).length
    some (.list [.list (builds.map fun b => match b with | .ok m => ofBytes m | .error e => .list [sym "raise", sym (exnName e)]),
                 .list ((Req.recoverSeq n stream).map c14View)])
  | .list [.atom "quote", b] => do some (ofBytes (Req.quote (← bytes? b)))
  | .list [.atom "quote_plus", b] => do some (ofBytes (Req.quotePlus (← bytes? b)))
  | .list [.atom "unquote", b] => do some (ofBytes (Req.unq (← bytes? b)))
  | .list [.atom "unquote_plus", b] => do some (ofBytes (Req.unqPlus (← bytes? b)))
  | .list [.atom "parse_qsl", b] => do some (ofPairs (Req.parseQsl (← bytes? b)))
  | _ => none

def c18m : Sexp → Option Sexp
  | .list [.atom "c18m", .list cs] => do some (.list (← cs.mapM c18Conn))
  | _ => none

def handle (r : Sexp) : Sexp :=
  match r with
  | .list (.atom "c18" :: _) => (c18 r).getD (sym "bad-request")
  | .list (.atom "c18m" :: _) => (c18m r).getD (sym "bad-request")
  | .list (.atom "c19" :: _) => (c19 r).getD (sym "bad-request")
  | .list (.atom _ :: _) => (c14 r).getD (sym "bad-request")
  | _ => sym "bad-request"

end Drv

def main : IO Unit := serve Drv.handle
