import HioModel.Basic.Sexp
import HioModel.Wsgi.Model
open Hio Hio.Sexp Hio.Http

namespace Drv

def optBytes? : Sexp → Option (Option Bytes)
  | .atom "-" => some none
  | s => (bytes? s).map some

def optNat? : Sexp → Option (Option Nat)
  | .atom "-" => some none
  | s => (nat? s).map some

def pair? : Sexp → Option (Bytes × Bytes)
  | .list [a, b] => do some ((← bytes? a), (← bytes? b))
  | _ => none

def pairs? : Sexp → Option (List (Bytes × Bytes))
  | .list xs => xs.mapM pair?
  | _ => none

def bytesList? : Sexp → Option (List Bytes)
  | .list xs => xs.mapM bytes?
  | _ => none

/-! ### C18 -/

def wsgiReq? : Sexp → Option Wsgi.Req
  | .list [v, c] => do some ⟨(← nat? v), (← optBytes? c)⟩
  | _ => none

def wsgiApp? : Sexp → Option Wsgi.App
  | .list [st, hs, cl, ps, rv] => do
    some ⟨(← bytes? st), (← pairs? hs), (← optNat? cl), (← bytesList? ps), (← bytes? rv)⟩
  | _ => none

def c18 : Sexp → Option Sexp
  | .list [.atom "c18", .list rs, .list as] => do
    let rs ← rs.mapM wsgiReq?
    let as ← as.mapM wsgiApp?
    if rs.length != as.length then none
    let o := Wsgi.serve (rs.zip as)
    some (.list [ofBytes o.raw, ofBool o.closed, ofNat o.calls])
  | _ => none

def handle (r : Sexp) : Sexp :=
  match r with
  | .list (.atom "c18" :: _) => (c18 r).getD (sym "bad-request")
  | _ => sym "bad-request"

end Drv

def main : IO Unit := serve Drv.handle
