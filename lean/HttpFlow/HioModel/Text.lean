/-!
# Byte-string helpers shared by the HttpFlow models (import-free)

Bytes are `List Nat` (values `< 256` at the boundary).  These mirror the CPython
`bytes`/`str` methods the HTTP code uses: `lower`, `upper`, `title`, `in`, `find`,
`str(int)`, `format(n, 'x')`, `b'\r\n'.join`.
-/
namespace Hio.Http

abbrev Bytes := List Nat

def crlf : Bytes := [13, 10]

def isUpper (b : Nat) : Bool := 65 ≤ b && b ≤ 90
def isLower (b : Nat) : Bool := 97 ≤ b && b ≤ 122
def isAlpha (b : Nat) : Bool := isUpper b || isLower b
def isDigit (b : Nat) : Bool := 48 ≤ b && b ≤ 57
def toLower (b : Nat) : Nat := if isUpper b then b + 32 else b
def toUpper (b : Nat) : Nat := if isLower b then b - 32 else b
def lower (s : Bytes) : Bytes := s.map toLower
def upper (s : Bytes) : Bytes := s.map toUpper

/-- `bytes.title()`: a letter that follows a letter is lowered, any other letter is raised -/
def titleAux : Bool → Bytes → Bytes
  | _, [] => []
  | prev, b :: bs =>
    if isAlpha b then (if prev then toLower b else toUpper b) :: titleAux true bs
    else b :: titleAux false bs

def title (s : Bytes) : Bytes := titleAux false s

/-- `pat in s` for byte strings -/
def containsSub (pat : Bytes) : Bytes → Bool
  | [] => pat.isEmpty
  | b :: bs => pat.isPrefixOf (b :: bs) || containsSub pat bs

/-- ascii text literal as bytes -/
def lit (s : String) : Bytes := s.toList.map Char.toNat

/-- digits of `n` in base `b + 2`, most significant first, no leading zero (`[0]` for zero) -/
def digitsB (b : Nat) (n : Nat) : List Nat :=
  if n < b + 2 then [n] else digitsB b (n / (b + 2)) ++ [n % (b + 2)]
decreasing_by
  have : 0 < n := by omega
  exact Nat.div_lt_self this (by omega)

def decChar (d : Nat) : Nat := 48 + d
def hexChar (d : Nat) : Nat := if d < 10 then 48 + d else 87 + d

/-- `str(n).encode()` -/
def toDec (n : Nat) : Bytes := (digitsB 8 n).map decChar
/-- `format(n, 'x').encode()` -/
def toHex (n : Nat) : Bytes := (digitsB 14 n).map hexChar

def decVal (c : Nat) : Option Nat := if isDigit c then some (c - 48) else none
def hexVal (c : Nat) : Option Nat :=
  if isDigit c then some (c - 48)
  else if 97 ≤ c && c ≤ 102 then some (c - 87)
  else if 65 ≤ c && c ≤ 70 then some (c - 55)
  else none

/-- value of a non-empty digit string in the given base (`none` on any foreign character or on the empty string) -/
def parseDigits (val : Nat → Option Nat) (base : Nat) : Bytes → Nat → Option Nat
  | [], acc => some acc
  | c :: cs, acc => match val c with
    | some d => parseDigits val base cs (acc * base + d)
    | none => none

def parseDec (s : Bytes) : Option Nat := if s.isEmpty then none else parseDigits decVal 10 s 0
def parseHex (s : Bytes) : Option Nat := if s.isEmpty then none else parseDigits hexVal 16 s 0

/-- `b'\r\n'.join(lines)` -/
def joinCrlf : List Bytes → Bytes
  | [] => []
  | [l] => l
  | l :: m :: ls => l ++ crlf ++ joinCrlf (m :: ls)

/-- `httping.packHeader(name, value)` for one value -/
def packHeader (name value : Bytes) : Bytes := title name ++ [58, 32] ++ value

/-- `httping.packChunk(msg)` -/
def packChunk (msg : Bytes) : Bytes := toHex msg.length ++ crlf ++ msg ++ crlf

abbrev Headers := List (Bytes × Bytes)

/-- `key in hict` (case-insensitive); `k` is given in lower case -/
def hasKey (k : Bytes) (hs : Headers) : Bool := hs.any (fun h => lower h.1 == k)

/-- `hict[key]` / `hict.get(key)`: first value -/
def getKey (k : Bytes) : Headers → Option Bytes
  | [] => none
  | h :: hs => if lower h.1 == k then some h.2 else getKey k hs

/-- `hict[key] = value`: replace the first entry in place, drop the other entries with that key, append when absent -/
def setKey (k v : Bytes) : Headers → Headers
  | [] => [(k, v)]
  | h :: hs => if lower h.1 == k then (k, v) :: hs.filter (fun x => lower x.1 != k) else h :: setKey k v hs

/-- split at the first occurrence of byte `c` -/
def splitAt1 (c : Nat) : Bytes → Option (Bytes × Bytes)
  | [] => none
  | b :: bs => if b = c then some ([], bs) else (splitAt1 c bs).map (fun p => (b :: p.1, p.2))

/-- split at the first occurrence of the two bytes `x y` -/
def split2 (x y : Nat) : Bytes → Option (Bytes × Bytes)
  | [] => none
  | b :: rest =>
    if b = x ∧ rest.head? = some y then some ([], rest.tail)
    else (split2 x y rest).map (fun p => (b :: p.1, p.2))

end Hio.Http
