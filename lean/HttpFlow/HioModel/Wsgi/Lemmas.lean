import HioModel.Wsgi.Spec
import HioModel.Req.Lemmas
import HioModel.TextLemmas
/-! helper lemmas for C18 -/
namespace Hio.Http.Wsgi
open Hio.Http

/-- what is queued once the head is out -/
def outH (hd : Bytes) (w : W) : Bytes := if w.headed then w.out else w.out ++ hd

def enc (ch : Bool) (m : Bytes) : Bytes := if ch then packChunk m else m

def nonEmpties (ps : List Bytes) : List Bytes := ps.filter (fun p => !p.isEmpty)

/-! ### no declared length -/

theorem write_none (hd : Bytes) (ch : Bool) (w : W) (m : Bytes) :
    write hd ch none w m = ⟨outH hd w ++ enc ch m, true, w.size⟩ := by
  unfold write outH enc; rfl

theorem runPieces_none (hd : Bytes) (ch : Bool) (ps : List Bytes) (w : W) :
    (runPieces hd ch none ps w).2 = false ∧
    outH hd (runPieces hd ch none ps w).1 = outH hd w ++ (nonEmpties ps).flatMap (enc ch) := by
  induction ps generalizing w with
  | nil => simp [runPieces, nonEmpties]
  | cons p ps ih =>
    unfold runPieces
    by_cases hp : p.isEmpty = true
    · simp only [hp, ↓reduceIte]
      have := ih w
      simpa [nonEmpties, hp] using this
    · simp only [hp, Bool.false_eq_true, ↓reduceIte]
      have := ih (write hd ch none w p)
      refine ⟨this.1, ?_⟩
      rw [this.2, write_none]
      simp [nonEmpties, hp, outH]

theorem flatMap_id_nonEmpties (ps : List Bytes) : (nonEmpties ps).flatMap (enc false) = ps.flatten := by
  induction ps with
  | nil => rfl
  | cons p ps ih =>
    by_cases hp : p.isEmpty = true
    · have : p = [] := List.isEmpty_iff.mp hp
      subst this
      simpa [nonEmpties] using ih
    · simp only [nonEmpties, List.filter_cons, hp, Bool.not_false, ↓reduceIte, List.flatMap_cons, List.flatten_cons]
      rw [show List.filter (fun p => !p.isEmpty) ps = nonEmpties ps from rfl, ih]
      simp [enc]

/-! ### declared length `L` (never chunked) -/

/-- state after the app produced `pre` so far -/
def Inv (hd : Bytes) (L : Nat) (w : W) (pre : Bytes) : Prop :=
  w.size = min pre.length L ∧ (if w.headed then w.out = hd ++ pre.take L else w.out = [] ∧ pre = [])

theorem write_len_inv (hd : Bytes) (L : Nat) (w : W) (pre m : Bytes) (h : Inv hd L w pre) :
    Inv hd L (write hd false (some L) w m) (pre ++ m) ∧ (write hd false (some L) w m).headed = true := by
  obtain ⟨hs, ho⟩ := h
  unfold write
  simp only [Bool.false_eq_true, ↓reduceIte]
  refine ⟨⟨?_, ?_⟩, ?_⟩
  rotate_left 2
  · trivial
  · simp only [List.length_append]
    split
    · simp only [List.length_take]; omega
    · omega
  · simp only [↓reduceIte]
    have hout : (if w.headed then w.out else w.out ++ hd) = hd ++ pre.take L := by
      by_cases hh : w.headed = true
      · simp only [hh, ↓reduceIte] at ho ⊢; exact ho
      · simp only [hh, Bool.false_eq_true, ↓reduceIte] at ho ⊢; rw [ho.1, ho.2]; simp
    rw [hout, List.take_append, List.append_assoc]
    congr 1; congr 1
    split
    · congr 1; omega
    · rename_i hle
      rw [List.take_of_length_le]; omega

theorem runPieces_len (hd : Bytes) (L : Nat) (ps : List Bytes) (w : W) (pre : Bytes) (h : Inv hd L w pre) :
    let res := runPieces hd false (some L) ps w
    (res.2 = true → res.1.out = hd ++ (pre ++ ps.flatten).take L ∧ L ≤ (pre ++ ps.flatten).length) ∧
    (res.2 = false → Inv hd L res.1 (pre ++ ps.flatten)) := by
  induction ps generalizing w pre with
  | nil => simp [runPieces]; exact h
  | cons p ps ih =>
    unfold runPieces
    by_cases hp : p.isEmpty = true
    · have : p = [] := List.isEmpty_iff.mp hp
      subst this
      simp only [List.isEmpty_nil, ↓reduceIte, List.flatten_cons, List.nil_append]
      exact ih w pre h
    · simp only [hp, Bool.false_eq_true, ↓reduceIte, List.flatten_cons]
      obtain ⟨hinv, hhd⟩ := write_len_inv hd L w pre p h
      by_cases hge : (write hd false (some L) w p).size ≥ L
      · simp only [hge, ↓reduceIte, forall_const, Bool.true_eq_false, false_implies, and_true]
        obtain ⟨hs, ho⟩ := hinv
        rw [hhd] at ho
        simp only [↓reduceIte] at ho
        have hlen : L ≤ (pre ++ p).length := by rw [hs] at hge; omega
        rw [ho, ← List.append_assoc pre p, List.take_append_of_le_length hlen]
        refine ⟨rfl, ?_⟩
        simp only [List.length_append] at hlen ⊢; omega
      · simp only [hge, ↓reduceIte]
        have := ih (write hd false (some L) w p) (pre ++ p) hinv
        simpa [List.append_assoc] using this


theorem chunkedOf_clen (r : Req) (a : App) (L : Nat) (h : a.clen = some L) : chunkedOf r a = false := by
  unfold chunkedOf chunkable; simp [h]

/-- the bytes that follow the head -/
def payload (r : Req) (a : App) : Bytes :=
  match a.clen with
  | some L => (appBody a).take L
  | none =>
    (nonEmpties a.pieces).flatMap (enc (chunkedOf r a)) ++ (if a.retval.isEmpty then [] else enc (chunkedOf r a) a.retval) ++
      enc (chunkedOf r a) []

/-- refinement: the stateful `Responder` run equals head followed by a closed-form payload -/
theorem respond_eq (r : Req) (a : App) : respond r a = head r a ++ payload r a := by
  unfold respond respondW payload
  cases hc : a.clen with
  | none =>
    obtain ⟨h1, h2⟩ := runPieces_none (head r a) (chunkedOf r a) a.pieces ⟨[], false, 0⟩
    simp only []
    generalize hrp : runPieces (head r a) (chunkedOf r a) none a.pieces ⟨[], false, 0⟩ = res at h1 h2
    obtain ⟨w, e⟩ := res
    simp only at h1 h2
    subst h1
    simp only []
    have hinit : outH (head r a) ⟨[], false, 0⟩ = head r a := by simp [outH]
    rw [hinit] at h2
    by_cases hr : a.retval.isEmpty = true
    · simp only [hr, ↓reduceIte, write_none, h2, List.append_nil, List.append_assoc]
    · simp only [hr, Bool.false_eq_true, ↓reduceIte, write_none, h2]
      simp [outH, List.append_assoc]
  | some L =>
    have hch := chunkedOf_clen r a L hc
    rw [hch]
    have hinit : Inv (head r a) L ⟨[], false, 0⟩ [] := by simp [Inv]
    obtain ⟨h1, h2⟩ := runPieces_len (head r a) L a.pieces ⟨[], false, 0⟩ [] hinit
    simp only []
    generalize hrp : runPieces (head r a) false (some L) a.pieces ⟨[], false, 0⟩ = res at h1 h2
    obtain ⟨w, e⟩ := res
    simp only [List.nil_append] at h1 h2
    cases e with
    | true =>
      obtain ⟨ho, hl⟩ := h1 rfl
      simp only [ho, appBody]
      rw [List.take_append_of_le_length hl]
    | false =>
      have hinv := h2 rfl
      simp only []
      by_cases hr : a.retval.isEmpty = true
      · have hre : a.retval = [] := List.isEmpty_iff.mp hr
        simp only [hr, ↓reduceIte]
        obtain ⟨hi, hh⟩ := write_len_inv (head r a) L w a.pieces.flatten [] hinv
        obtain ⟨_, ho⟩ := hi
        rw [hh] at ho
        simp only [↓reduceIte, List.append_nil] at ho
        rw [ho, appBody, hre, List.append_nil]
      · simp only [hr, Bool.false_eq_true, ↓reduceIte]
        obtain ⟨hi1, _⟩ := write_len_inv (head r a) L w a.pieces.flatten a.retval hinv
        obtain ⟨hi, hh⟩ := write_len_inv (head r a) L _ _ [] hi1
        obtain ⟨_, ho⟩ := hi
        rw [hh] at ho
        simp only [↓reduceIte, List.append_nil] at ho
        rw [ho, appBody]


/-! ### the response parser on what the model emits -/

theorem readHead_lines (ls : List Bytes) (tail : Bytes) (h : ∀ l ∈ ls, 10 ∉ l ∧ l ≠ []) (fuel : Nat) (hf : ls.length < fuel) :
    readHead fuel (ls.flatMap (· ++ crlf) ++ crlf ++ tail) = some (ls, tail) := by
  induction ls generalizing fuel with
  | nil =>
    cases fuel with
    | zero => omega
    | succ f =>
      simp only [List.flatMap_nil, List.nil_append, crlf, List.cons_append, readHead]
      rw [show (13 :: 10 :: tail) = [] ++ 13 :: 10 :: tail from rfl, split2_crlf [] tail (by simp)]
      simp
  | cons l ls ih =>
    cases fuel with
    | zero => omega
    | succ f =>
      obtain ⟨hl, hne⟩ := h l (List.mem_cons_self ..)
      simp only [List.flatMap_cons, crlf, List.append_assoc, List.cons_append, List.nil_append, readHead]
      rw [split2_crlf l _ hl]
      have : l.isEmpty = false := by cases l with | nil => exact absurd rfl hne | cons _ _ => rfl
      simp only [this, Bool.false_eq_true, ↓reduceIte]
      have := ih (fun x hx => h x (List.mem_cons_of_mem _ hx)) f (by simp at hf; omega)
      simp only [crlf, List.append_assoc, List.cons_append, List.nil_append] at this
      rw [this]; rfl

theorem decodeChunks_step (f : Nat) (raw sz rest : Bytes) (n : Nat) (h1 : split2 13 10 raw = some (sz, rest))
    (h2 : parseHex sz = some n) (hn : n ≠ 0) (hlen : ¬ rest.length < n + 2) (hcr : (rest.drop n).take 2 = crlf) :
    decodeChunks (f + 1) raw = (decodeChunks f (rest.drop (n + 2))).map (fun p => (rest.take n ++ p.1, p.2)) := by
  simp only [decodeChunks, h1, h2, hn, hlen, hcr, ↓reduceIte]

theorem decodeChunks_last (f : Nat) (raw sz rest rest' : Bytes) (h1 : split2 13 10 raw = some (sz, rest))
    (h2 : parseHex sz = some 0) (h3 : split2 13 10 rest = some ([], rest')) :
    decodeChunks (f + 1) raw = some ([], rest') := by
  simp [decodeChunks, h1, h2, h3]

theorem packChunk_append (p more : Bytes) :
    packChunk p ++ more = toHex p.length ++ 13 :: 10 :: (p ++ 13 :: 10 :: more) := by
  simp [packChunk, crlf]

theorem decodeChunks_stream (ps : List Bytes) (tail : Bytes) (h : ∀ p ∈ ps, p ≠ []) (fuel : Nat) (hf : ps.length < fuel) :
    decodeChunks fuel (ps.flatMap packChunk ++ packChunk [] ++ tail) = some (ps.flatten, tail) := by
  induction ps generalizing fuel with
  | nil =>
    cases fuel with
    | zero => omega
    | succ f =>
      simp only [List.flatMap_nil, List.nil_append, List.flatten_nil]
      rw [packChunk_append]
      exact decodeChunks_last f _ _ _ tail (split2_crlf _ _ (toHex_no_lf _)) (parseHex_toHex 0)
        (by rw [show ([] ++ 13 :: 10 :: tail) = [] ++ 13 :: 10 :: tail from rfl]; exact split2_crlf [] tail (by simp))
  | cons p ps ih =>
    cases fuel with
    | zero => omega
    | succ f =>
      have hp : p ≠ [] := h p (List.mem_cons_self ..)
      have hlen : p.length ≠ 0 := by cases p with | nil => exact absurd rfl hp | cons _ _ => simp
      simp only [List.flatMap_cons, List.append_assoc, List.flatten_cons]
      rw [packChunk_append]
      rw [decodeChunks_step f _ _ _ p.length (split2_crlf _ _ (toHex_no_lf _)) (parseHex_toHex _) hlen
        (by simp only [List.length_append, List.length_cons]; omega)
        (by rw [List.drop_left]; rfl)]
      rw [List.take_left]
      have hd : ∀ more : Bytes, List.drop (p.length + 2) (p ++ 13 :: 10 :: more) = more := by
        intro more; rw [← List.drop_drop, List.drop_left]; rfl
      rw [hd]
      have := ih (fun x hx => h x (List.mem_cons_of_mem _ hx)) f (by simp at hf; omega)
      rw [List.append_assoc] at this
      rw [this]
      rfl


/-! ### the head -/

def wireHeaders (r : Req) (a : App) : Headers := (finalHeaders r a).map (fun h => (title h.1, h.2))

theorem getKey_titled (k : Bytes) (hs : Headers) : getKey k (hs.map (fun h => (title h.1, h.2))) = getKey k hs := by
  induction hs with
  | nil => rfl
  | cons h hs ih => simp only [List.map_cons, getKey, Req.lower_title, ih]

theorem splitHeaders_packed (hs : Headers) (h : ∀ x ∈ hs, 58 ∉ x.1) :
    splitHeaders (hs.map (fun x => packHeader x.1 x.2)) = some (hs.map (fun x => (title x.1, x.2))) := by
  induction hs with
  | nil => rfl
  | cons x hs ih =>
    simp only [List.map_cons, splitHeaders]
    rw [Req.split_packHeader _ _ (h x (List.mem_cons_self ..)), ih (fun y hy => h y (List.mem_cons_of_mem _ hy))]

theorem hasKey_singleton (k : Bytes) (e : Bytes × Bytes) : hasKey k [e] = (lower e.1 == k) := by
  simp [hasKey]

theorem hasKey_opt (k : Bytes) (c : Bool) (xs : Headers) (e : Bytes × Bytes) (hne : (lower e.1 == k) = false) :
    hasKey k (if c then xs else xs ++ [e]) = hasKey k xs := by
  cases c
  · simp only [Bool.false_eq_true, ↓reduceIte, hasKey_append, hasKey_singleton, hne, Bool.or_false]
  · rfl

theorem getKey_opt (k : Bytes) (c : Bool) (xs : Headers) (e : Bytes × Bytes) (hne : (lower e.1 == k) = false) :
    getKey k (if c then xs else xs ++ [e]) = getKey k xs := by
  cases c
  · simp only [Bool.false_eq_true, ↓reduceIte, getKey_append, getKey, hne]
    cases getKey k xs <;> rfl
  · rfl

theorem mem_opt (c : Bool) (xs : Headers) (e x : Bytes × Bytes) (h : x ∈ (if c then xs else xs ++ [e])) : x ∈ xs ∨ x = e := by
  cases c
  · simp only [Bool.false_eq_true, ↓reduceIte, List.mem_append, List.mem_singleton] at h; exact h
  · exact Or.inl h

/-- headers before the Transfer-Encoding decision -/
def hs2 (a : App) : Headers :=
  let hs := startHeaders a
  let hs1 := if hasKey (lit "server") hs then hs else hs ++ [(lit "server", Gen.serverName)]
  if hasKey (lit "date") hs1 then hs1 else hs1 ++ [(lit "date", fixedDate)]

theorem mem_startHeaders (a : App) (x : Bytes × Bytes) (hx : x ∈ startHeaders a) :
    x ∈ a.headers ∨ ∃ L, a.clen = some L ∧ x = (lit "Content-Length", toDec L) := by
  unfold startHeaders at hx
  cases hc : a.clen with
  | none => rw [hc] at hx; exact Or.inl hx
  | some L =>
    rw [hc] at hx
    rcases List.mem_append.mp hx with h | h
    · exact Or.inl h
    · exact Or.inr ⟨L, rfl, by simpa using h⟩

theorem mem_hs2 (a : App) (x : Bytes × Bytes) (hx : x ∈ hs2 a) :
    x ∈ a.headers ∨ (∃ L, a.clen = some L ∧ x = (lit "Content-Length", toDec L)) ∨
      x = (lit "server", Gen.serverName) ∨ x = (lit "date", fixedDate) := by
  unfold hs2 at hx
  rcases mem_opt _ _ _ _ hx with h | h
  · rcases mem_opt _ _ _ _ h with h | h
    · rcases mem_startHeaders a x h with h | h
      · exact Or.inl h
      · exact Or.inr (Or.inl h)
    · exact Or.inr (Or.inr (Or.inl h))
  · exact Or.inr (Or.inr (Or.inr h))

theorem hasKey_te_start (a : App) (h : hasKey (lit "transfer-encoding") a.headers = false) :
    hasKey (lit "transfer-encoding") (startHeaders a) = false := by
  unfold startHeaders
  have e1 : (lower (lit "Content-Length") == lit "transfer-encoding") = false := by decide
  cases a.clen with
  | none => exact h
  | some L => simp only [hasKey_append, h, hasKey_singleton, e1, Bool.or_false]

theorem hasKey_te_hs2 (a : App) (h : hasKey (lit "transfer-encoding") a.headers = false) :
    hasKey (lit "transfer-encoding") (hs2 a) = false := by
  unfold hs2
  simp only
  rw [hasKey_opt _ _ _ _ (by decide), hasKey_opt _ _ _ _ (by decide)]
  exact hasKey_te_start a h

theorem getKey_cl_hs2 (a : App) (h : hasKey (lit "content-length") a.headers = false) :
    getKey (lit "content-length") (hs2 a) = a.clen.map toDec := by
  unfold hs2
  simp only
  rw [getKey_opt _ _ _ _ (by decide), getKey_opt _ _ _ _ (by decide)]
  unfold startHeaders
  have hn := getKey_of_not_hasKey _ _ h
  have e1 : (lower (lit "Content-Length") == lit "content-length") = true := by decide
  cases a.clen with
  | none => simpa using hn
  | some L => simp [getKey_append, hn, getKey, e1]

theorem finalHeaders_eq (r : Req) (a : App) (h : hasKey (lit "transfer-encoding") a.headers = false) :
    finalHeaders r a = hs2 a ++ (if chunkedOf r a then [(lit "transfer-encoding", lit "chunked")] else []) := by
  have : finalHeaders r a = if chunkedOf r a then setKey (lit "transfer-encoding") (lit "chunked") (hs2 a) else hs2 a := rfl
  rw [this]
  split
  · exact setKey_of_not_hasKey _ _ _ (hasKey_te_hs2 a h)
  · simp

theorem chunkedOf_eq (r : Req) (a : App) (h : hasKey (lit "transfer-encoding") a.headers = false)
    (_hl : hasKey (lit "content-length") a.headers = false) : chunkedOf r a = (r.ver != 0 && a.clen.isNone) := by
  unfold chunkedOf
  simp only [hasKey_te_start a h, Bool.not_false, Bool.true_or, Bool.and_true]
  rfl


theorem final_mem (r : Req) (a : App) (wf : WFApp a) (x : Bytes × Bytes) (hx : x ∈ finalHeaders r a) :
    10 ∉ x.1 ∧ 58 ∉ x.1 ∧ 10 ∉ x.2 := by
  rw [finalHeaders_eq r a wf.noTe] at hx
  rcases List.mem_append.mp hx with h | h
  · rcases mem_hs2 a x h with h | ⟨L, _, h⟩ | h | h
    · exact ⟨(wf.names x h).1, (wf.names x h).2, wf.values x h⟩
    · subst h
      exact ⟨by show 10 ∉ lit "Content-Length"; decide, by show 58 ∉ lit "Content-Length"; decide, toDec_no_lf L⟩
    · subst h; exact ⟨by decide, by decide, by decide⟩
    · subst h; exact ⟨by decide, by decide, by decide⟩
  · split at h
    · simp only [List.mem_singleton] at h; subst h; exact ⟨by decide, by decide, by decide⟩
    · simp at h

theorem headLines_ok (r : Req) (a : App) (wf : WFApp a) : ∀ l ∈ headLines r a, 10 ∉ l ∧ l ≠ [] := by
  intro l hl
  unfold headLines at hl
  rcases List.mem_cons.mp hl with h | h
  · subst h
    refine ⟨?_, by simp⟩
    intro hm
    simp only [List.append_assoc, List.mem_append, List.mem_singleton] at hm
    rcases hm with hm | hm | hm
    · exact absurd hm (by decide)
    · omega
    · exact wf.status hm
  · rcases List.mem_map.mp h with ⟨x, hx, rfl⟩
    obtain ⟨h1, _, h3⟩ := final_mem r a wf x hx
    refine ⟨?_, by simp [packHeader]⟩
    intro hm
    unfold packHeader at hm
    rcases List.mem_append.mp hm with hm | hm
    · rcases List.mem_append.mp hm with hm | hm
      · exact not_mem_title 10 (by omega) _ h1 hm
      · simp at hm
    · exact h3 hm

theorem nonEmpties_flatten (ps : List Bytes) : (nonEmpties ps).flatten = ps.flatten := by
  induction ps with
  | nil => rfl
  | cons p ps ih =>
    by_cases hp : p.isEmpty = true
    · have : p = [] := List.isEmpty_iff.mp hp
      subst this; simpa [nonEmpties] using ih
    · simp only [nonEmpties, List.filter_cons, hp, Bool.not_false, ↓reduceIte, List.flatten_cons]
      rw [show List.filter (fun p => !p.isEmpty) ps = nonEmpties ps from rfl, ih]

theorem nonEmpties_ne (ps : List Bytes) : ∀ p ∈ nonEmpties ps, p ≠ [] := by
  intro p hp
  have := (List.mem_filter.mp hp).2
  intro e; subst e; simp at this

theorem enc_true : enc true = packChunk := by funext m; simp [enc]

/-- the chunked payload is the chunk stream of the non-empty pieces (and return value) followed by the last chunk -/
theorem payload_chunked (r : Req) (a : App) (hc : a.clen = none) (hch : chunkedOf r a = true) :
    payload r a = (nonEmpties (a.pieces ++ [a.retval])).flatMap packChunk ++ packChunk [] := by
  unfold payload
  rw [hc]
  simp only [hch, enc_true]
  by_cases hr : a.retval.isEmpty = true
  · simp [nonEmpties, List.filter_append, hr, packChunk]
  · simp [nonEmpties, List.filter_append, hr]

/-- ONE response, followed by anything, parses back to exactly what the application asked for -/
theorem parseResp_respond (r : Req) (a : App) (tail : Bytes) (wf : WFApp a) (hd : Delimited r a) (fuel : Nat)
    (hf : (finalHeaders r a).length + a.pieces.length + 3 ≤ fuel) :
    parseResp fuel (respond r a ++ tail) =
      some (⟨Gen.responseVersion ++ [32] ++ a.status, wireHeaders r a, expectedBody a⟩, tail) := by
  rw [respond_eq, head, joinCrlf_blank, List.append_assoc]
  unfold parseResp
  rw [readHead_lines (headLines r a) (payload r a ++ tail) (headLines_ok r a wf) fuel
    (by simp only [headLines, List.length_cons, List.length_map]; omega)]
  simp only [headLines]
  rw [splitHeaders_packed _ (fun x hx => (final_mem r a wf x hx).2.1)]
  simp only []
  have hte : getKey (lit "transfer-encoding") ((finalHeaders r a).map (fun h => (title h.1, h.2))) =
      if chunkedOf r a then some (lit "chunked") else none := by
    rw [getKey_titled, finalHeaders_eq r a wf.noTe, getKey_append, getKey_of_not_hasKey _ _ (hasKey_te_hs2 a wf.noTe)]
    cases chunkedOf r a
    · rfl
    · decide
  have hcl : getKey (lit "content-length") ((finalHeaders r a).map (fun h => (title h.1, h.2))) = a.clen.map toDec := by
    rw [getKey_titled, finalHeaders_eq r a wf.noTe, getKey_append, getKey_cl_hs2 a wf.noLen]
    cases hc : a.clen with
    | some L => rfl
    | none =>
      simp only [Option.map_none]
      cases chunkedOf r a
      · rfl
      · decide
  rw [hte, chunkedOf_eq r a wf.noTe wf.noLen]
  cases hc : a.clen with
  | none =>
    have hv : r.ver ≠ 0 := by
      rcases hd with h | h
      · rw [hc] at h; exact absurd h (by decide)
      · exact h
    have hch : chunkedOf r a = true := by rw [chunkedOf_eq r a wf.noTe wf.noLen, hc]; simp [hv]
    simp only [Option.isNone_none, Bool.and_true, bne_iff_ne, ne_eq, hv, not_false_eq_true, ↓reduceIte,
      Option.map_some]
    have hcond : (some (lower (lit "chunked")) == some (lit "chunked")) = true := by decide
    rw [if_pos hcond]
    rw [payload_chunked r a hc hch, decodeChunks_stream _ tail (nonEmpties_ne _) fuel
      (by
        have : (nonEmpties (a.pieces ++ [a.retval])).length ≤ (a.pieces ++ [a.retval]).length := List.length_filter_le _ _
        simp only [List.length_append, List.length_singleton] at this
        omega)]
    simp only [Option.map_some, wireHeaders, expectedBody, hc, appBody, nonEmpties_flatten]
    simp
  | some L =>
    simp only [Option.isNone_some, Bool.and_false, Bool.false_eq_true, ↓reduceIte, Option.map_none]
    have : (none == some (lit "chunked")) = false := rfl
    simp only [this, Bool.false_eq_true, ↓reduceIte]
    rw [hcl, hc]
    simp only [Option.map_some, parseDec_toDec]
    have hlen := wf.enough L hc
    have hp : payload r a = (appBody a).take L := by unfold payload; rw [hc]
    have hpl : (payload r a).length = L := by rw [hp, List.length_take]; omega
    have hnot : ¬ (payload r a ++ tail).length < L := by simp only [List.length_append]; omega
    rw [if_neg hnot]
    have e1 : (payload r a ++ tail).take L = payload r a := by rw [← hpl]; exact List.take_left
    have e2 : (payload r a ++ tail).drop L = tail := by rw [← hpl]; exact List.drop_left
    rw [e1, e2, hp]
    simp only [wireHeaders, expectedBody, hc]


/-- a response that is not `Delimited` is refused by the parser whatever follows it: it has neither framing header -/
theorem parseResp_undelimited (r : Req) (a : App) (tail : Bytes) (wf : WFApp a) (hd : ¬ Delimited r a) (fuel : Nat)
    (hf : (finalHeaders r a).length + 3 ≤ fuel) :
    parseResp fuel (respond r a ++ tail) = none := by
  have hc : a.clen = none := by
    cases h : a.clen with
    | none => rfl
    | some L => exact absurd (Or.inl (by rw [h]; rfl)) hd
  have hv : r.ver = 0 := by
    by_cases h : r.ver = 0
    · exact h
    · exact absurd (Or.inr h) hd
  have hch : chunkedOf r a = false := by rw [chunkedOf_eq r a wf.noTe wf.noLen, hv]; rfl
  rw [respond_eq, head, joinCrlf_blank, List.append_assoc]
  unfold parseResp
  rw [readHead_lines (headLines r a) (payload r a ++ tail) (headLines_ok r a wf) fuel
    (by simp only [headLines, List.length_cons, List.length_map]; omega)]
  simp only [headLines]
  rw [splitHeaders_packed _ (fun x hx => (final_mem r a wf x hx).2.1)]
  simp only []
  have hte : getKey (lit "transfer-encoding") ((finalHeaders r a).map (fun h => (title h.1, h.2))) = none := by
    rw [getKey_titled, finalHeaders_eq r a wf.noTe, getKey_append, getKey_of_not_hasKey _ _ (hasKey_te_hs2 a wf.noTe), hch]
    rfl
  have hcl : getKey (lit "content-length") ((finalHeaders r a).map (fun h => (title h.1, h.2))) = none := by
    rw [getKey_titled, finalHeaders_eq r a wf.noTe, getKey_append, getKey_cl_hs2 a wf.noLen, hc, hch]
    rfl
  rw [hte, hcl]
  rfl

end Hio.Http.Wsgi
