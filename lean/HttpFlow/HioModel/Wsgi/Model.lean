import HioModel.Text
import HioModel.Gen.HttpConsts
/-!
# Model of `hio.core.http.serving` response side: `Responder` and the
`Server.serviceReqs` / `serviceReps` hand-over on ONE connection

Faithful to the tree with the `fix:` commit for F28 applied (`Responder.reset` takes the
per-request `chunkable`).  F29 (HTTP/1.0 keep-alive without Content-Length) is modelled as
the code behaves: not delimited, connection kept open.

Input: the requests parsed on one connection (version, `Connection` header value) paired with
what the WSGI application does for each (status, header list, optional Content-Length, the
pieces its iterator yields, the generator's return value).  Output: every byte queued on the
connection, whether the server closed it, how many times the app was called.

Not modelled (outside C18's quantifier, never generated): an app that itself supplies a
`Content-Length`/`Transfer-Encoding` header through the header list (the model takes the length as
a number), an app that raises, `exc_info`, the legacy `write()` callable.
-/
namespace Hio.Http.Wsgi
open Hio.Http

structure Req where
  ver : Nat                 -- 0: HTTP/1.0, otherwise HTTP/1.1 (the parser maps every 1.x, x ≥ 1, to (1,1))
  conn : Option Bytes       -- value of the Connection header, if any
deriving Repr, DecidableEq

structure App where
  status : Bytes
  headers : Headers
  clen : Option Nat
  pieces : List Bytes
  retval : Bytes            -- generator return value (`StopIteration.value`); empty = None
deriving Repr, DecidableEq

/-- `Requestant.checkPersisted` (request length is never None here: the requests carry Content-Length or no body) -/
def persisted (r : Req) : Bool :=
  let c := match r.conn with | some v => lower v | none => []
  if r.ver = 0 then r.conn.isSome && containsSub (lit "keep-alive") c
  else !(r.conn.isSome && containsSub (lit "close") c)

/-- `"{0} {1}".format(status, STATUS_DESCRIPTIONS[status])` for an int status -/
def statusOfCode (n : Nat) : Bytes := toDec n ++ [32] ++ ((Gen.statusDescriptions.lookup n).getD [])

def fixedDate : Bytes := lit "Thu, 01 Jan 1970 00:00:00 GMT"

/-- the header list `start()` stores: the app's list, plus Content-Length when the app declares one -/
def startHeaders (a : App) : Headers :=
  match a.clen with
  | some n => a.headers ++ [(lit "Content-Length", toDec n)]
  | none => a.headers

/-- `.chunkable` when `build()` runs: per-request value, cleared by `start()` when a length is declared -/
def chunkable (r : Req) (a : App) : Bool := r.ver != 0 && a.clen.isNone

/-- `Responder.build`: decides `.chunked` and completes the header list -/
def chunkedOf (r : Req) (a : App) : Bool :=
  let hs := startHeaders a
  chunkable r a && (!hasKey (lit "transfer-encoding") hs || getKey (lit "transfer-encoding") hs == some (lit "chunked"))

def finalHeaders (r : Req) (a : App) : Headers :=
  let hs := startHeaders a
  let hs1 := if hasKey (lit "server") hs then hs else hs ++ [(lit "server", Gen.serverName)]
  let hs2 := if hasKey (lit "date") hs1 then hs1 else hs1 ++ [(lit "date", fixedDate)]
  if chunkedOf r a then setKey (lit "transfer-encoding") (lit "chunked") hs2 else hs2

def headLines (r : Req) (a : App) : List Bytes :=
  (Gen.responseVersion ++ [32] ++ a.status) :: (finalHeaders r a).map (fun h => packHeader h.1 h.2)

/-- the head bytes: `CRLF.join(lines + [b"", b""])` -/
def head (r : Req) (a : App) : Bytes := joinCrlf (headLines r a ++ [[], []])

/-- writer state: bytes queued so far for this response, `.headed`, `.size` -/
structure W where
  out : Bytes
  headed : Bool
  size : Nat
deriving Repr, DecidableEq

/-- `Responder.write(msg)` -/
def write (hd : Bytes) (chunked : Bool) (length : Option Nat) (w : W) (msg : Bytes) : W :=
  let out1 := if w.headed then w.out else w.out ++ hd
  let m1 := if chunked then packChunk msg else msg
  match length with
  | none => ⟨out1 ++ m1, true, w.size⟩
  | some L =>
    let m2 := if w.size + m1.length > L then m1.take (L - w.size) else m1
    ⟨out1 ++ m2, true, w.size + m2.length⟩

/-- the `else:` branch of `Responder.service` over the iterator's items: empty items write nothing;
returns the state and whether `.ended` was set because the declared length was reached -/
def runPieces (hd : Bytes) (chunked : Bool) (length : Option Nat) : List Bytes → W → W × Bool
  | [], w => (w, false)
  | p :: ps, w =>
    if p.isEmpty then runPieces hd chunked length ps w
    else
      let w' := write hd chunked length w p
      match length with
      | some L => if w'.size ≥ L then (w', true) else runPieces hd chunked length ps w'
      | none => runPieces hd chunked length ps w'

/-- all bytes of one response -/
def respondW (r : Req) (a : App) : W :=
  let hd := head r a
  let ch := chunkedOf r a
  match runPieces hd ch a.clen a.pieces ⟨[], false, 0⟩ with
  | (w, true) => w
  | (w, false) =>
    -- StopIteration: `if ex.value: write(ex.value)`; `write(b'')`
    let w1 := if a.retval.isEmpty then w else write hd ch a.clen w a.retval
    write hd ch a.clen w1 []

def respond (r : Req) (a : App) : Bytes := (respondW r a).out

structure Out where
  raw : Bytes
  closed : Bool
  calls : Nat
deriving Repr, DecidableEq

/-- requests on one connection in arrival order; after a non-persistent request the connection is
closed (once its bytes are flushed) and later pipelined requests are never parsed -/
def serve : List (Req × App) → Out
  | [] => ⟨[], false, 0⟩
  | (r, a) :: rest =>
    if persisted r then
      let o := serve rest
      ⟨respond r a ++ o.raw, o.closed, o.calls + 1⟩
    else ⟨respond r a, true, 1⟩

end Hio.Http.Wsgi
