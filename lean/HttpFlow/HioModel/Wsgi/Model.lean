import HioModel.Text
import HioModel.Gen.HttpConsts
/-!
# Model of `hio.core.http.serving` response side: `Responder` and the
`Server.serviceReqs` / `serviceReps` hand-over on ONE connection

Faithful to the tree with the `fix:` commit for F28 applied (`Responder.reset` takes the
per-request `chunkable`).  F29 (HTTP/1.0 keep-alive without Content-Length) is modelled as
the code behaves: not delimited, connection kept open.

Input: the requests parsed on one connection (version, `Connection` header value) paired with
what the WSGI application does for each (status, header list, optional Content-Length, the
pieces its iterator yields, the generator's return value).  Output: every byte queued on the
connection, whether the server closed it, how many times the app was called.

An app may list `Transfer-Encoding: chunked` (any case of name and value) itself: `build()` then chunks exactly as
if it had not.  An app may raise `httping.HTTPError` (`Err`, `respondX`): before the head is out the error is rendered as a
length-delimited text response of its own, afterwards the response simply ends.

Not modelled (outside C18's quantifier, never generated): an app that supplies a `Content-Length` header through the header
list of the model (the model takes the length as a number) or another transfer coding, an ITERATOR that raises anything else.
An app CALLABLE that raises anything else (`AppX.crash`): no response, the server closes the connection once earlier responses
are flushed (tree with the `fix:` commits 1b1019f and 9f8cb8a).
-/
namespace Hio.Http.Wsgi
open Hio.Http

structure Req where
  ver : Nat                 -- 0: HTTP/1.0, otherwise HTTP/1.1 (the parser maps every 1.x, x ≥ 1, to (1,1))
  conn : Option Bytes       -- value of the Connection header, if any
deriving Repr, DecidableEq

structure App where
  status : Bytes
  headers : Headers
  clen : Option Nat
  pieces : List Bytes
  retval : Bytes            -- generator return value (`StopIteration.value`); empty = None
deriving Repr, DecidableEq

/-- `Requestant.checkPersisted` (request length is never None here: the requests carry Content-Length or no body) -/
def persisted (r : Req) : Bool :=
  let c := match r.conn with | some v => lower v | none => []
  if r.ver = 0 then r.conn.isSome && containsSub (lit "keep-alive") c
  else !(r.conn.isSome && containsSub (lit "close") c)

/-- `"{0} {1}".format(status, STATUS_DESCRIPTIONS[status])` for an int status -/
def statusOfCode (n : Nat) : Bytes := toDec n ++ [32] ++ ((Gen.statusDescriptions.lookup n).getD [])

def fixedDate : Bytes := lit "Thu, 01 Jan 1970 00:00:00 GMT"

/-- the header list `start()` stores: the app's list, plus Content-Length when the app declares one -/
def startHeaders (a : App) : Headers :=
  match a.clen with
  | some n => a.headers ++ [(lit "Content-Length", toDec n)]
  | none => a.headers

/-- `.chunkable` when `build()` runs: per-request value, cleared by `start()` when a length is declared -/
def chunkable (r : Req) (a : App) : Bool := r.ver != 0 && a.clen.isNone

/-- `Responder.build`: decides `.chunked` and completes the header list -/
def chunkedOf (r : Req) (a : App) : Bool :=
  let hs := startHeaders a
  chunkable r a && (!hasKey (lit "transfer-encoding") hs ||
    (getKey (lit "transfer-encoding") hs).map lower == some (lit "chunked"))

def finalHeaders (r : Req) (a : App) : Headers :=
  let hs := startHeaders a
  let hs1 := if hasKey (lit "server") hs then hs else hs ++ [(lit "server", Gen.serverName)]
  let hs2 := if hasKey (lit "date") hs1 then hs1 else hs1 ++ [(lit "date", fixedDate)]
  if chunkedOf r a then setKey (lit "transfer-encoding") (lit "chunked") hs2 else hs2

def headLines (r : Req) (a : App) : List Bytes :=
  (Gen.responseVersion ++ [32] ++ a.status) :: (finalHeaders r a).map (fun h => packHeader h.1 h.2)

/-- the head bytes: `CRLF.join(lines + [b"", b""])` -/
def head (r : Req) (a : App) : Bytes := joinCrlf (headLines r a ++ [[], []])

/-- writer state: bytes queued so far for this response, `.headed`, `.size` -/
structure W where
  out : Bytes
  headed : Bool
  size : Nat
deriving Repr, DecidableEq

/-- `Responder.write(msg)` -/
def write (hd : Bytes) (chunked : Bool) (length : Option Nat) (w : W) (msg : Bytes) : W :=
  let out1 := if w.headed then w.out else w.out ++ hd
  let m1 := if chunked then packChunk msg else msg
  match length with
  | none => ⟨out1 ++ m1, true, w.size⟩
  | some L =>
    let m2 := if w.size + m1.length > L then m1.take (L - w.size) else m1
    ⟨out1 ++ m2, true, w.size + m2.length⟩

/-- the `else:` branch of `Responder.service` over the iterator's items: empty items write nothing;
returns the state and whether `.ended` was set because the declared length was reached -/
def runPieces (hd : Bytes) (chunked : Bool) (length : Option Nat) : List Bytes → W → W × Bool
  | [], w => (w, false)
  | p :: ps, w =>
    if p.isEmpty then runPieces hd chunked length ps w
    else
      let w' := write hd chunked length w p
      match length with
      | some L => if w'.size ≥ L then (w', true) else runPieces hd chunked length ps w'
      | none => runPieces hd chunked length ps w'

/-- all bytes of one response -/
def respondW (r : Req) (a : App) : W :=
  let hd := head r a
  let ch := chunkedOf r a
  match runPieces hd ch a.clen a.pieces ⟨[], false, 0⟩ with
  | (w, true) => w
  | (w, false) =>
    -- StopIteration: `if ex.value: write(ex.value)`; `write(b'')`
    let w1 := if a.retval.isEmpty then w else write hd ch a.clen w a.retval
    write hd ch a.clen w1 []

def respond (r : Req) (a : App) : Bytes := (respondW r a).out

structure Out where
  raw : Bytes
  closed : Bool
  calls : Nat
deriving Repr, DecidableEq

/-- requests on one connection in arrival order; after a non-persistent request the connection is
closed (once its bytes are flushed) and later pipelined requests are never parsed -/
def serve : List (Req × App) → Out
  | [] => ⟨[], false, 0⟩
  | (r, a) :: rest =>
    if persisted r then
      let o := serve rest
      ⟨respond r a ++ o.raw, o.closed, o.calls + 1⟩
    else ⟨respond r a, true, 1⟩

/-! ### an app that raises `httping.HTTPError`

`Responder.service`: if nothing has been sent for this response yet the error replaces it — status `"{status} {reason}"`, the
error's own headers, `content-type: text/plain` unless it has one, `content-length` of the rendered text ALWAYS set by the
server (a Content-Length carried by the error is overwritten in place), body = `HTTPError.render()`.  Once the head is out the
error is only logged and the response ends as if the iterator were exhausted. -/

structure Err where
  status : Nat
  reason : Bytes            -- empty: `STATUS_DESCRIPTIONS.get(status, "Unknown")`
  title : Bytes
  detail : Bytes
  fault : Option Nat
  headers : Headers
deriving Repr, DecidableEq

def errReason (e : Err) : Bytes :=
  if e.reason.isEmpty then (Gen.statusDescriptions.lookup e.status).getD (lit "Unknown") else e.reason

/-- `HTTPError.render()` -/
def renderErr (e : Err) : Bytes :=
  toDec e.status ++ [32] ++ errReason e ++ [10] ++ e.title ++ [10] ++ e.detail ++ [10] ++
    (match e.fault with | some f => toDec f | none => [])

/-- `headers.update(ex.headers.items())`, default content type -/
def errHs1 (e : Err) : Headers :=
  if hasKey (lit "content-type") e.headers then e.headers else e.headers ++ [(lit "content-type", lit "text/plain")]

/-- `headers['content-length'] = str(len(msg))`: a value the error carried is replaced where it stands, otherwise appended
(names are title-cased on the wire, so the spelling of the appended name is immaterial) -/
def errHeaders (e : Err) : Headers :=
  let v := toDec (renderErr e).length
  if hasKey (lit "content-length") (errHs1 e) then setKey (lit "content-length") v (errHs1 e)
  else errHs1 e ++ [(lit "Content-Length", v)]

/-- the whole error response: `start(status, headers.items(), exc_info)`, `write(msg)`; a length is declared, so never chunked -/
def respondErr (e : Err) : Bytes :=
  let hs := errHeaders e
  let hsS := if hasKey (lit "server") hs then hs else hs ++ [(lit "server", Gen.serverName)]
  let hsD := if hasKey (lit "date") hsS then hsS else hsS ++ [(lit "date", fixedDate)]
  joinCrlf (((Gen.responseVersion ++ [32] ++ (toDec e.status ++ [32] ++ errReason e)) :: hsD.map (fun h => packHeader h.1 h.2)) ++ [[], []])
    ++ renderErr e

/-- the same response seen as the output of an app (when the error carries no Content-Length of its own) -/
def errApp (e : Err) : App :=
  ⟨toDec e.status ++ [32] ++ errReason e, errHs1 e, some (renderErr e).length, [renderErr e], []⟩

/-- an app together with the point where it raises: after `k` items of its iterator -/
structure AppX where
  app : App
  err : Option (Nat × Err)
  /-- the application callable itself raises something that is not an `HTTPError` (tree with fix 1b1019f): there is nothing to send,
  the responder is closed and the server closes the connection — also when the request was persistent and more are buffered -/
  crash : Bool := false
deriving Repr, DecidableEq

def respondX (r : Req) (x : AppX) : Bytes :=
  match x.err with
  | none => respond r x.app
  | some (k, e) =>
    let before := x.app.pieces.take k
    if before.all (·.isEmpty) then respondErr e
    else respond r { x.app with pieces := before, retval := [] }

def serveX : List (Req × AppX) → Out
  | [] => ⟨[], false, 0⟩
  | (r, x) :: rest =>
    if x.crash then ⟨[], true, 1⟩
    else if persisted r then
      let o := serveX rest
      ⟨respondX r x ++ o.raw, o.closed, o.calls + 1⟩
    else ⟨respondX r x, true, 1⟩

/-! ### idle time

`Requestant.checkPersisted` sets `remoter.tymeout = 0` ("never times out") as soon as a persistent request is parsed, and
nothing sets it back; `Server.serviceConnects` drops a connection whose `tymeout > 0` timer has expired with no traffic.
`gap` = seconds without traffic before a request arrives, `stall` = longest silence while the app answers it.
`none` = the connection was dropped by the idle timeout (what happens then is C12's matter). -/

structure Pace where
  gap : Nat
  stall : Nat
deriving Repr, DecidableEq

def reaped (tymeout idle : Nat) : Bool := tymeout != 0 && idle ≥ tymeout

def serveTimed (tymeout : Nat) : List (Req × App × Pace) → Option Out
  | [] => some ⟨[], false, 0⟩
  | (r, a, p) :: rest =>
    if reaped tymeout p.gap then none
    else
      let t' := if persisted r then 0 else tymeout
      if reaped t' p.stall then none
      else if persisted r then
        (serveTimed t' rest).map (fun o => ⟨respond r a ++ o.raw, o.closed, o.calls + 1⟩)
      else some ⟨respond r a, true, 1⟩

end Hio.Http.Wsgi
