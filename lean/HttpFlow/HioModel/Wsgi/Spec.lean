import HioModel.Wsgi.Model
/-!
# A plain HTTP/1.1 response-framing parser (specification side of C18)

Written independently of the `Responder` model: read lines up to the blank line, split each
header at the first `": "`, then take the body by `Transfer-Encoding: chunked` (chunk-size
lines in hex, terminated by a zero chunk and a blank line, no trailers) or by `Content-Length`.
A response with neither is NOT self-delimiting and the parser refuses it (`none`).
-/
namespace Hio.Http.Wsgi
open Hio.Http

structure Parsed where
  statusLine : Bytes
  headers : Headers          -- (name as on the wire, value) in wire order
  body : Bytes
deriving Repr, DecidableEq

/-- the lines before the blank line, and what follows it -/
def readHead : Nat → Bytes → Option (List Bytes × Bytes)
  | 0, _ => none
  | fuel + 1, raw =>
    match split2 13 10 raw with
    | none => none
    | some (l, rest) =>
      if l.isEmpty then some ([], rest)
      else (readHead fuel rest).map (fun p => (l :: p.1, p.2))

/-- chunked body: (decoded body, rest of the stream) -/
def decodeChunks : Nat → Bytes → Option (Bytes × Bytes)
  | 0, _ => none
  | fuel + 1, raw =>
    match split2 13 10 raw with
    | none => none
    | some (sz, rest) =>
      match parseHex sz with
      | none => none
      | some n =>
        if n = 0 then
          match split2 13 10 rest with
          | some (l, rest') => if l.isEmpty then some ([], rest') else none
          | none => none
        else if rest.length < n + 2 then none
        else if (rest.drop n).take 2 = crlf then
          (decodeChunks fuel (rest.drop (n + 2))).map (fun p => (rest.take n ++ p.1, p.2))
        else none

def splitHeaders : List Bytes → Option Headers
  | [] => some []
  | l :: ls => match split2 58 32 l, splitHeaders ls with
    | some h, some hs => some (h :: hs)
    | _, _ => none

/-- one self-delimiting response from the front of the stream: (parsed, rest) -/
def parseResp (fuel : Nat) (raw : Bytes) : Option (Parsed × Bytes) :=
  match readHead fuel raw with
  | none => none
  | some ([], _) => none
  | some (st :: hl, rest) =>
    match splitHeaders hl with
    | none => none
    | some hs =>
      if (getKey (lit "transfer-encoding") hs).map lower == some (lit "chunked") then
        (decodeChunks fuel rest).map (fun p => (⟨st, hs, p.1⟩, p.2))
      else match getKey (lit "content-length") hs with
        | none => none
        | some v => match parseDec v with
          | none => none
          | some n => if rest.length < n then none else some (⟨st, hs, rest.take n⟩, rest.drop n)

/-- `n` responses in a row -/
def parseMany (fuel : Nat) : Nat → Bytes → Option (List Parsed × Bytes)
  | 0, raw => some ([], raw)
  | n + 1, raw => match parseResp fuel raw with
    | none => none
    | some (p, rest) => (parseMany fuel n rest).map (fun q => (p :: q.1, q.2))

/-! ### what the application asked for -/

/-- the bytes the app produced for the body, in order -/
def appBody (a : App) : Bytes := a.pieces.flatten ++ a.retval

/-- the body a client must see: the app's bytes, cut at a declared Content-Length -/
def expectedBody (a : App) : Bytes :=
  match a.clen with
  | some L => (appBody a).take L
  | none => appBody a

/-- the response is delimited by its own bytes -/
def Delimited (r : Req) (a : App) : Prop := a.clen.isSome = true ∨ r.ver ≠ 0

instance (r : Req) (a : App) : Decidable (Delimited r a) := by unfold Delimited; infer_instance

/-- app output inside C18's quantifier: printable structure only (no LF in status / names / values, names without `:`),
framing headers left to the server, and at least as many body bytes as a declared Content-Length -/
structure WFApp (a : App) : Prop where
  status : 10 ∉ a.status
  names : ∀ h ∈ a.headers, 10 ∉ h.1 ∧ 58 ∉ h.1
  values : ∀ h ∈ a.headers, 10 ∉ h.2
  noLen : hasKey (lit "content-length") a.headers = false
  noTe : hasKey (lit "transfer-encoding") a.headers = false
  enough : ∀ L, a.clen = some L → L ≤ (appBody a).length

end Hio.Http.Wsgi
