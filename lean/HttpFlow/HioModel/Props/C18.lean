import HioModel.Wsgi.Lemmas
/-!
# C18 — WSGI responses are framed and pipelined requests answered in order

Model: `HioModel/Wsgi/Model.lean` (`Responder.start/build/write/reset/service`, `Server.serviceReqs/serviceReps`
on one connection; F28 and the `.persisted` race repaired in the tree, F29 kept).  Specification side:
`HioModel/Wsgi/Spec.lean` — an independent response-framing parser (`parseResp`, `parseMany`), what the
application asked for (`appBody`, `expectedBody`), the well-formedness of app output (`WFApp`) and
`Delimited r a` = "the response carries its own end" (declared Content-Length, or an HTTP/1.1 request so that the
body is chunked).

Full statement: for EVERY request list and EVERY well-formed app behaviour the byte stream parses back, response by
response in request order, to exactly the app's status line, header list and body.  It is FALSE exactly when a
request is HTTP/1.0 and the app declares no Content-Length (F29, known finding C18-K1): `f29_not_delimited`.
Everything else is proved: `responses_parse_back_partial` (guard: every response `Delimited`).
-/
namespace Hio.Http.Wsgi
open Hio.Http

/-- C18 clamp: with a declared Content-Length `L` the bytes after the head are exactly the first `L` bytes the
application produced — never more than `L`, for every app behaviour (any pieces, empty ones, return value) -/
theorem clamp (r : Req) (a : App) (L : Nat) (h : a.clen = some L) :
    respond r a = head r a ++ (appBody a).take L ∧ ((appBody a).take L).length ≤ L := by
  refine ⟨?_, by rw [List.length_take]; omega⟩
  rw [respond_eq]; unfold payload; rw [h]

/-- C18 close: the server closes the connection iff some request on it was not persistent … -/
theorem close_iff_not_persisted (l : List (Req × App)) :
    (serve l).closed = true ↔ ∃ x ∈ l, persisted x.1 = false := by
  induction l with
  | nil => simp [serve]
  | cons x l ih =>
    obtain ⟨r, a⟩ := x
    unfold serve
    by_cases hp : persisted r = true
    · simp only [hp, ↓reduceIte, ih, List.mem_cons, exists_eq_or_imp, Bool.true_eq_false, false_or]
    · simp only [hp, Bool.false_eq_true, ↓reduceIte, List.mem_cons, exists_eq_or_imp, true_iff]
      exact Or.inl (by simpa using hp)

/-- … and it answers exactly the requests up to and including the first non-persistent one, each once -/
theorem answers_until_first_close (l : List (Req × App)) :
    (serve l).calls = (l.takeWhile (fun x => persisted x.1)).length + (if l.all (fun x => persisted x.1) then 0 else 1) := by
  induction l with
  | nil => rfl
  | cons x l ih =>
    obtain ⟨r, a⟩ := x
    unfold serve
    by_cases hp : persisted r = true
    · simp only [hp, ↓reduceIte, ih, List.takeWhile_cons, List.length_cons, List.all_cons, Bool.true_and]
      omega
    · simp [hp]

/-- the requests that get a response -/
def answered : List (Req × App) → List (Req × App)
  | [] => []
  | (r, a) :: rest => if persisted r then (r, a) :: answered rest else [(r, a)]

def expected (x : Req × App) : Parsed :=
  ⟨Gen.responseVersion ++ [32] ++ x.2.status, wireHeaders x.1 x.2, expectedBody x.2⟩

/-- C18 one response: whatever follows it on the wire, a delimited response of a well-formed app parses to the app's
status line, the header list (app headers in order, then the server's additions) and the expected body, and the
parser stops exactly at its end -/
theorem one_response_parses_back (r : Req) (a : App) (tail : Bytes) (wf : WFApp a) (hd : Delimited r a) (fuel : Nat)
    (hf : (finalHeaders r a).length + a.pieces.length + 3 ≤ fuel) :
    parseResp fuel (respond r a ++ tail) = some (expected (r, a), tail) :=
  parseResp_respond r a tail wf hd fuel hf

/-- C18 parse back (partial: every response delimited, i.e. no HTTP/1.0 request answered without Content-Length):
the whole byte stream of a connection parses, in request order, to exactly one response per answered request with
the application's status, headers and body, and nothing is left over -/
theorem responses_parse_back_partial (l : List (Req × App)) (fuel : Nat)
    (wf : ∀ x ∈ l, WFApp x.2) (hd : ∀ x ∈ l, Delimited x.1 x.2)
    (hf : ∀ x ∈ l, (finalHeaders x.1 x.2).length + x.2.pieces.length + 3 ≤ fuel) :
    parseMany fuel (serve l).calls (serve l).raw = some ((answered l).map expected, []) := by
  induction l with
  | nil => rfl
  | cons x l ih =>
    obtain ⟨r, a⟩ := x
    have hx : (r, a) ∈ (r, a) :: l := List.mem_cons_self ..
    unfold serve answered
    by_cases hp : persisted r = true
    · simp only [hp, ↓reduceIte, parseMany, List.map_cons]
      rw [parseResp_respond r a _ (wf _ hx) (hd _ hx) fuel (hf _ hx)]
      simp only []
      rw [ih (fun y hy => wf y (List.mem_cons_of_mem _ hy)) (fun y hy => hd y (List.mem_cons_of_mem _ hy))
        (fun y hy => hf y (List.mem_cons_of_mem _ hy))]
      rfl
    · simp only [hp, Bool.false_eq_true, ↓reduceIte, parseMany, List.map_cons, List.map_nil]
      have := parseResp_respond r a [] (wf _ hx) (hd _ hx) fuel (hf _ hx)
      rw [List.append_nil] at this
      rw [this]
      rfl

/-- C18 self-delimiting (partial): every response of a well-formed app is delimited by its own bytes unless the
request is HTTP/1.0 and the app declares no Content-Length -/
theorem self_delimiting_partial (r : Req) (a : App) (tail : Bytes) (wf : WFApp a)
    (g : ¬ (r.ver = 0 ∧ a.clen = none)) (fuel : Nat) (hf : (finalHeaders r a).length + a.pieces.length + 3 ≤ fuel) :
    ∃ p, parseResp fuel (respond r a ++ tail) = some (p, tail) := by
  have hd : Delimited r a := by
    unfold Delimited
    cases hc : a.clen with
    | some L => exact Or.inl rfl
    | none => exact Or.inr (fun h0 => g ⟨h0, hc⟩)
  exact ⟨_, parseResp_respond r a tail wf hd fuel hf⟩

/-- the excluded case really fails (F29, replayed on the implementation: known finding C18-K1): an HTTP/1.0
keep-alive request answered without Content-Length stays open (`persisted`) yet its response has neither framing -/
theorem f29_not_delimited :
    let r : Req := ⟨0, some (lit "keep-alive")⟩
    let a : App := ⟨lit "200 OK", [], none, [lit "ab"], []⟩
    persisted r = true ∧ parseResp 100 (respond r a) = none ∧ parseResp 100 (respond r a ++ respond r a) = none := by
  decide

/-- … and not only on that witness: EVERY HTTP/1.0 response of a well-formed app without Content-Length is refused by the
framing parser, whatever follows it on the wire (so on a kept-alive connection it cannot be told from the next response) -/
theorem undelimited_never_parses (r : Req) (a : App) (tail : Bytes) (wf : WFApp a) (h : r.ver = 0 ∧ a.clen = none)
    (fuel : Nat) (hf : (finalHeaders r a).length + 3 ≤ fuel) :
    parseResp fuel (respond r a ++ tail) = none := by
  apply parseResp_undelimited r a tail wf _ fuel hf
  intro hd
  rcases hd with hd | hd
  · rw [h.2] at hd; exact absurd hd (by decide)
  · exact hd h.1

/-! non-vacuity: a concrete well-formed app with headers, empty pieces and a return value -/
example : WFApp ⟨lit "404 Not Found", [(lit "Set-Cookie", lit "a=1"), (lit "x-b", lit "")], none, [lit "ab", [], lit "cd"], lit "t"⟩ :=
  ⟨by decide, by decide, by decide, by decide, by decide, by intro L h; cases h⟩
example : Delimited ⟨1, none⟩ ⟨lit "200 OK", [], none, [], []⟩ := by decide
example : Delimited ⟨0, some (lit "keep-alive")⟩ ⟨lit "200 OK", [], some 2, [lit "abc"], []⟩ := by decide

end Hio.Http.Wsgi
