import HioModel.Wsgi.Model
namespace Hio.Http.Wsgi
theorem placeholder18 : serve [] = ⟨[], false, 0⟩ := rfl
end Hio.Http.Wsgi
