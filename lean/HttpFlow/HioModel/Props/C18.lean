import HioModel.Wsgi.Lemmas
/-!
# C18 — WSGI responses are framed and pipelined requests answered in order

Model: `HioModel/Wsgi/Model.lean` (`Responder.start/build/write/reset/service`, `Server.serviceReqs/serviceReps`
on one connection; F28 and the `.persisted` race repaired in the tree, F29 kept).  Specification side:
`HioModel/Wsgi/Spec.lean` — an independent response-framing parser (`parseResp`, `parseMany`), what the
application asked for (`appBody`, `expectedBody`), the well-formedness of app output (`WFApp`) and
`Delimited r a` = "the response carries its own end" (declared Content-Length, or an HTTP/1.1 request so that the
body is chunked).

Full statement: for EVERY request list and EVERY well-formed app behaviour the byte stream parses back, response by
response in request order, to exactly the app's status line, header list and body.  It is FALSE exactly when a
request is HTTP/1.0 and the app declares no Content-Length (F29, known finding C18-K1): `f29_not_delimited`.
Everything else is proved: `responses_parse_back_partial` (guard: every response `Delimited`).
-/
namespace Hio.Http.Wsgi
open Hio.Http

/-- C18 clamp: with a declared Content-Length `L` the bytes after the head are exactly the first `L` bytes the
application produced — never more than `L`, for every app behaviour (any pieces, empty ones, return value) -/
theorem clamp (r : Req) (a : App) (L : Nat) (h : a.clen = some L) :
    respond r a = head r a ++ (appBody a).take L ∧ ((appBody a).take L).length ≤ L := by
  refine ⟨?_, by rw [List.length_take]; omega⟩
  rw [respond_eq]; unfold payload; rw [h]

/-- C18 close: the server closes the connection iff some request on it was not persistent … -/
theorem close_iff_not_persisted (l : List (Req × App)) :
    (serve l).closed = true ↔ ∃ x ∈ l, persisted x.1 = false := by
  induction l with
  | nil => simp [serve]
  | cons x l ih =>
    obtain ⟨r, a⟩ := x
    unfold serve
    by_cases hp : persisted r = true
    · simp only [hp, ↓reduceIte, ih, List.mem_cons, exists_eq_or_imp, Bool.true_eq_false, false_or]
    · simp only [hp, Bool.false_eq_true, ↓reduceIte, List.mem_cons, exists_eq_or_imp, true_iff]
      exact Or.inl (by simpa using hp)

/-- … and it answers exactly the requests up to and including the first non-persistent one, each once -/
theorem answers_until_first_close (l : List (Req × App)) :
    (serve l).calls = (l.takeWhile (fun x => persisted x.1)).length + (if l.all (fun x => persisted x.1) then 0 else 1) := by
  induction l with
  | nil => rfl
  | cons x l ih =>
    obtain ⟨r, a⟩ := x
    unfold serve
    by_cases hp : persisted r = true
    · simp only [hp, ↓reduceIte, ih, List.takeWhile_cons, List.length_cons, List.all_cons, Bool.true_and]
      omega
    · simp [hp]

/-- the requests that get a response -/
def answered : List (Req × App) → List (Req × App)
  | [] => []
  | (r, a) :: rest => if persisted r then (r, a) :: answered rest else [(r, a)]

def expected (x : Req × App) : Parsed :=
  ⟨Gen.responseVersion ++ [32] ++ x.2.status, wireHeaders x.1 x.2, expectedBody x.2⟩

/-- C18 one response: whatever follows it on the wire, a delimited response of a well-formed app parses to the app's
status line, the header list (app headers in order, then the server's additions) and the expected body, and the
parser stops exactly at its end -/
theorem one_response_parses_back (r : Req) (a : App) (tail : Bytes) (wf : WFApp a) (hd : Delimited r a) (fuel : Nat)
    (hf : (finalHeaders r a).length + a.pieces.length + 3 ≤ fuel) :
    parseResp fuel (respond r a ++ tail) = some (expected (r, a), tail) :=
  parseResp_respond r a tail wf hd fuel hf

/-- C18 parse back (partial: every response delimited, i.e. no HTTP/1.0 request answered without Content-Length):
the whole byte stream of a connection parses, in request order, to exactly one response per answered request with
the application's status, headers and body, and nothing is left over -/
theorem responses_parse_back_partial (l : List (Req × App)) (fuel : Nat)
    (wf : ∀ x ∈ l, WFApp x.2) (hd : ∀ x ∈ l, Delimited x.1 x.2)
    (hf : ∀ x ∈ l, (finalHeaders x.1 x.2).length + x.2.pieces.length + 3 ≤ fuel) :
    parseMany fuel (serve l).calls (serve l).raw = some ((answered l).map expected, []) := by
  induction l with
  | nil => rfl
  | cons x l ih =>
    obtain ⟨r, a⟩ := x
    have hx : (r, a) ∈ (r, a) :: l := List.mem_cons_self ..
    unfold serve answered
    by_cases hp : persisted r = true
    · simp only [hp, ↓reduceIte, parseMany, List.map_cons]
      rw [parseResp_respond r a _ (wf _ hx) (hd _ hx) fuel (hf _ hx)]
      simp only []
      rw [ih (fun y hy => wf y (List.mem_cons_of_mem _ hy)) (fun y hy => hd y (List.mem_cons_of_mem _ hy))
        (fun y hy => hf y (List.mem_cons_of_mem _ hy))]
      rfl
    · simp only [hp, Bool.false_eq_true, ↓reduceIte, parseMany, List.map_cons, List.map_nil]
      have := parseResp_respond r a [] (wf _ hx) (hd _ hx) fuel (hf _ hx)
      rw [List.append_nil] at this
      rw [this]
      rfl

/-- C18 self-delimiting (partial): every response of a well-formed app is delimited by its own bytes unless the
request is HTTP/1.0 and the app declares no Content-Length -/
theorem self_delimiting_partial (r : Req) (a : App) (tail : Bytes) (wf : WFApp a)
    (g : ¬ (r.ver = 0 ∧ a.clen = none)) (fuel : Nat) (hf : (finalHeaders r a).length + a.pieces.length + 3 ≤ fuel) :
    ∃ p, parseResp fuel (respond r a ++ tail) = some (p, tail) := by
  have hd : Delimited r a := by
    unfold Delimited
    cases hc : a.clen with
    | some L => exact Or.inl rfl
    | none => exact Or.inr (fun h0 => g ⟨h0, hc⟩)
  exact ⟨_, parseResp_respond r a tail wf hd fuel hf⟩

/-- the excluded case really fails (F29, replayed on the implementation: known finding C18-K1): an HTTP/1.0
keep-alive request answered without Content-Length stays open (`persisted`) yet its response has neither framing -/
theorem f29_not_delimited :
    let r : Req := ⟨0, some (lit "keep-alive")⟩
    let a : App := ⟨lit "200 OK", [], none, [lit "ab"], []⟩
    persisted r = true ∧ parseResp 100 (respond r a) = none ∧ parseResp 100 (respond r a ++ respond r a) = none := by
  decide

/-- … and not only on that witness: EVERY HTTP/1.0 response of a well-formed app without Content-Length is refused by the
framing parser, whatever follows it on the wire (so on a kept-alive connection it cannot be told from the next response) -/
theorem undelimited_never_parses (r : Req) (a : App) (tail : Bytes) (wf : WFApp a) (h : r.ver = 0 ∧ a.clen = none)
    (fuel : Nat) (hf : (finalHeaders r a).length + 3 ≤ fuel) :
    parseResp fuel (respond r a ++ tail) = none := by
  apply parseResp_undelimited r a tail wf _ fuel hf
  intro hd
  rcases hd with hd | hd
  · rw [h.2] at hd; exact absurd hd (by decide)
  · exact hd h.1

/-- C18 across idle time: once the connection never times out (tymeout 0) no silence of any length — between requests or
while a slow app answers — changes anything: the exchange is exactly the untimed one -/
theorem never_reaped_when_tymeout_zero (l : List (Req × App × Pace)) :
    serveTimed 0 l = some (serve (l.map (fun x => (x.1, x.2.1)))) := by
  induction l with
  | nil => rfl
  | cons x l ih =>
    obtain ⟨r, a, p⟩ := x
    simp only [serveTimed, reaped, bne_self_eq_false, Bool.false_and, Bool.false_eq_true, ↓reduceIte, ite_self, List.map_cons, serve]
    by_cases hp : persisted r = true
    · simp [hp, ih]
    · simp [hp]

/-- … and a connection whose FIRST request is persistent (HTTP/1.1 without `close`, or HTTP/1.0 with keep-alive) and arrives
before the server's idle timeout `T` is never closed by the idle timeout afterwards, whatever the gaps and stalls: the server
still closes after a response exactly when the request was not persistent (`close_iff_not_persisted` applies to the result) -/
theorem persistent_connection_outlives_idle (T : Nat) (r : Req) (a : App) (p : Pace) (rest : List (Req × App × Pace))
    (hp : persisted r = true) (hg : reaped T p.gap = false) :
    serveTimed T ((r, a, p) :: rest) = some (serve (((r, a, p) :: rest).map (fun x => (x.1, x.2.1)))) := by
  have h0 : reaped 0 p.stall = false := by simp [reaped]
  simp only [serveTimed, hg, Bool.false_eq_true, ↓reduceIte, hp, h0,
    never_reaped_when_tymeout_zero rest, Option.map_some, List.map_cons, serve]

/-- a non-persistent first request answered by an app that stalls for the timeout IS dropped (C12's rule; why long stalls are
generated only once the connection is persistent) -/
theorem stalled_first_response_is_reaped :
    serveTimed 5 [(⟨0, none⟩, ⟨lit "200 OK", [], none, [lit "a"], []⟩, ⟨0, 6⟩)] = none := by decide

/-! ### framing headers given by the application, and applications that raise `HTTPError` -/

/-- an application that lists `Transfer-Encoding: chunked` ITSELF (name and value in any case) for an HTTP/1.1 request, with no
declared length, is chunked exactly like one that does not: the bytes after the head are the chunk stream of its non-empty
pieces followed by the terminating chunk — so the next pipelined response starts where this one ends -/
theorem app_listed_chunked_is_chunked (r : Req) (a : App) (hv : r.ver ≠ 0) (hc : a.clen = none)
    (hte : (getKey (lit "transfer-encoding") a.headers).map lower = some (lit "chunked")) :
    respond r a = head r a ++ ((nonEmpties (a.pieces ++ [a.retval])).flatMap packChunk ++ packChunk []) := by
  have hch : chunkedOf r a = true := by
    unfold chunkedOf chunkable startHeaders
    simp [hc, hte, hv]
  rw [respond_eq, payload_chunked r a hc hch]

/-- apps that do not raise: `serveX` is `serve` -/
theorem serveX_no_error (l : List (Req × App)) : serveX (l.map (fun x => (x.1, ⟨x.2, none, false⟩))) = serve l := by
  induction l with
  | nil => rfl
  | cons x l ih =>
    obtain ⟨r, a⟩ := x
    simp only [List.map_cons, serveX, serve, respondX, ih, Bool.false_eq_true, ↓reduceIte]

/-- the Content-Length of an error response is ALWAYS the length of the rendered text, whatever headers the error carries
(a `Content-Length` among them is overwritten) -/
theorem error_length_is_the_servers (e : Err) :
    getKey (lit "content-length") (errHeaders e) = some (toDec (renderErr e).length) ∧
    ((errHeaders e).filter (fun h => lower h.1 == lit "content-length")).length = 1 := by
  unfold errHeaders
  by_cases h : hasKey (lit "content-length") (errHs1 e) = true
  · simp only [h, ↓reduceIte]
    generalize errHs1 e = hs at h
    induction hs with
    | nil => simp [hasKey] at h
    | cons x hs ih =>
      by_cases hx : (lower x.1 == lit "content-length") = true
      · have hl : lower (lit "content-length") = lit "content-length" := by decide
        have hnil : List.filter (fun a => lower a.1 == lit "content-length" && lower a.1 != lit "content-length") hs = [] := by
          apply List.filter_eq_nil_iff.mpr
          intro a _
          simp [bne]
        constructor
        · simp [setKey, hx, getKey, hl]
        · simp only [setKey, hx, ↓reduceIte, List.filter_cons, hl, beq_self_eq_true, List.filter_filter, List.length_cons]
          rw [show (fun a : Bytes × Bytes => lower a.1 == lit "content-length" && lower a.1 != lit "content-length") = (fun a => lower a.1 == lit "content-length" && lower a.1 != lit "content-length") from rfl, hnil]
          rfl
      · have hh : hasKey (lit "content-length") hs = true := by
          simpa [hasKey, hx] using h
        simp only [setKey, hx, Bool.false_eq_true, ↓reduceIte, getKey, List.filter_cons]
        exact ih hh
  · have h' : hasKey (lit "content-length") (errHs1 e) = false := by simpa using h
    simp only [h', Bool.false_eq_true, ↓reduceIte]
    rw [getKey_append, getKey_of_not_hasKey _ _ h']
    have hl : lower (lit "Content-Length") = lit "content-length" := by decide
    refine ⟨by simp [getKey, hl], ?_⟩
    rw [List.filter_append]
    have : List.filter (fun h => lower h.1 == lit "content-length") (errHs1 e) = [] := by
      apply List.filter_eq_nil_iff.mpr
      intro a ha
      have := h'
      simp only [hasKey, List.any_eq_false] at this
      simpa using this a ha
    rw [this]
    simp [List.filter, hl]

/-- an error raised before anything was sent, carrying no Content-Length of its own, is answered exactly as an application
would answer that starts with the error's status and headers, declares the length of the rendered text and yields it -/
theorem error_response_as_app (r : Req) (e : Err) (h : hasKey (lit "content-length") e.headers = false) :
    respondErr e = respond r (errApp e) := by
  have h1 : hasKey (lit "content-length") (errHs1 e) = false := by
    unfold errHs1
    rw [hasKey_opt _ _ _ _ (by decide)]
    exact h
  have hch : chunkedOf r (errApp e) = false := chunkedOf_clen r (errApp e) _ rfl
  rw [respond_eq]
  unfold respondErr errHeaders head headLines finalHeaders payload
  simp only [h1, Bool.false_eq_true, ↓reduceIte, hch]
  simp [errApp, startHeaders, appBody]

/-- … and therefore parses back, whatever follows it on the wire, to the error's status line, its headers and the rendered
text as body, and the parser stops exactly at its end: an error response is delimited like any other -/
theorem error_response_parses_back (r : Req) (e : Err) (tail : Bytes) (h : hasKey (lit "content-length") e.headers = false)
    (wf : WFApp (errApp e)) (fuel : Nat) (hf : (finalHeaders r (errApp e)).length + 4 ≤ fuel) :
    parseResp fuel (respondErr e ++ tail) =
      some (⟨Gen.responseVersion ++ [32] ++ (toDec e.status ++ [32] ++ errReason e), wireHeaders r (errApp e), renderErr e⟩, tail) := by
  rw [error_response_as_app r e h]
  have := parseResp_respond r (errApp e) tail wf (Or.inl rfl) fuel (by simpa [errApp] using hf)
  rw [this]
  simp [errApp, expectedBody, appBody]

/-- once the head is out an error only ends the response: what the client sees is the response of the same application cut off
after the items it had yielded, with no return value -/
theorem error_after_head_ends_response (r : Req) (a : App) (k : Nat) (e : Err)
    (h : ((a.pieces.take k).all (·.isEmpty)) = false) :
    respondX r ⟨a, some (k, e), false⟩ = respond r { a with pieces := a.pieces.take k, retval := [] } := by
  simp [respondX, h]

/-- an application that raises when it is called gets no response and the server closes the connection, whatever the request
said about persistence and however many requests are buffered behind it: none of them is answered (so a client can never
mistake a later answer for the answer to the failed request) -/
theorem crash_closes_and_answers_nothing_more (r : Req) (a : App) (rest : List (Req × AppX)) :
    serveX ((r, ⟨a, none, true⟩) :: rest) = ⟨[], true, 1⟩ := by
  simp [serveX]

/-- in every history the connection ends closed iff some answered request was not persistent or its application crashed -/
theorem serveX_closed_iff (l : List (Req × AppX)) :
    (serveX l).closed = l.any (fun x => x.2.crash || !persisted x.1) := by
  induction l with
  | nil => rfl
  | cons x l ih =>
    obtain ⟨r, x⟩ := x
    by_cases hc : x.crash = true
    · simp [serveX, hc]
    · by_cases hp : persisted r = true
      · simp [serveX, hc, hp, ih]
      · simp [serveX, hc, hp]

set_option maxRecDepth 200000 in
/-- non-vacuity / regression witness: an error that carries `Content-Length: 999` is answered with the length of its text -/
theorem error_content_length_witness :
    respondX ⟨1, none⟩ ⟨⟨lit "200 OK", [], none, [], []⟩, some (0, ⟨404, [], lit "T", lit "d", none, [(lit "Content-Length", lit "999")]⟩), false⟩ =
      lit "HTTP/1.1 404 Not Found\r\nContent-Length: 18\r\nContent-Type: text/plain\r\nServer: Ioflo WSGI Server\r\nDate: Thu, 01 Jan 1970 00:00:00 GMT\r\n\r\n404 Not Found\nT\nd\n" := by
  decide +kernel

/-! non-vacuity: a concrete well-formed app with headers, empty pieces and a return value -/
example : WFApp ⟨lit "404 Not Found", [(lit "Set-Cookie", lit "a=1"), (lit "x-b", lit "")], none, [lit "ab", [], lit "cd"], lit "t"⟩ :=
  ⟨by decide, by decide, by decide, by decide, by decide, by intro L h; cases h⟩
example : Delimited ⟨1, none⟩ ⟨lit "200 OK", [], none, [], []⟩ := by decide
example : Delimited ⟨0, some (lit "keep-alive")⟩ ⟨lit "200 OK", [], some 2, [lit "abc"], []⟩ := by decide

end Hio.Http.Wsgi
