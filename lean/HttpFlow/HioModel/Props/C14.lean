import HioModel.Req.Lemmas
/-!
# C14 — requests built by the HTTP client are recovered exactly by the server

Model: `HioModel/Req/Model.lean` (`Requester.build`, `updateQargsQuery`, `packHeader`,
`Requestant.parseHead/parseBody`, and `urllib.parse` quote / quote_plus / unquote / unquote_plus /
parse_qsl at byte level; always-safe set, METHODS, default header values regenerated from the
live modules into `Gen/HttpConsts.lean`).  "Byte string" = list of numbers `< 256` (`BytesOk`).

Full statement (composed): for every spec in the quantifier, `recover (build spec) = view spec`
(`request_roundtrip_partial`, proved for every `WF` spec).
It FAILS on two characterised sets, excluded by `WF`, kept as recorded known findings and proved to fail here:
 * a header name sent twice (F50 / C14-K1): `repeated_header_keeps_last`;
 * TAB / CR / LF in the path (C14-K2): `path_tab_is_dropped`.
-/
namespace Hio.Http.Req
open Hio.Http

/-- C14.a  `unquote(quote(p)) = p` at byte level: ALL byte strings, any safe set that does not hold `%`
(in particular `quote`'s `safe='/'`, used for the path) -/
theorem unquote_quote (bs : Bytes) (h : BytesOk bs) : unq (quote bs) = bs :=
  unq_quoteWith _ (by simp [alwaysSafe_pct]) bs h

/-- C14.b  `unquote_plus(quote_plus(s)) = s` at byte level: ALL byte strings (query keys and values) -/
theorem unquote_plus_quote_plus (bs : Bytes) (h : BytesOk bs) : unqPlus (quotePlus bs) = bs :=
  unqPlus_quotePlusWith _ rfl rfl bs h

/-- the same for the form encoding `quote_plus(form, '&=')` -/
theorem unquote_plus_quote_plus_form (bs : Bytes) (h : BytesOk bs) :
    unqPlus (quotePlusWith (fun b => b == 38 || b == 61) bs) = bs :=
  unqPlus_quotePlusWith _ rfl rfl bs h

/-- C14.c  every query-argument list (arbitrary keys and values, duplicates and empty strings included) packed by
`updateQargsQuery` is decoded by `parse_qsl(QUERY_STRING, keep_blank_values=True)` to exactly the same list, in order -/
theorem qargs_roundtrip (qs : List (Bytes × Bytes)) (h : ∀ kv ∈ qs, BytesOk kv.1 ∧ BytesOk kv.2) :
    parseQsl (packQs qs) = qs :=
  parseQsl_packQs qs h

/-- the packed query never holds a byte that would end the request target or the line:
only always-safe characters, `+ % & =` and hex digits -/
theorem packed_field_chars (bs : Bytes) (c : Nat) (h : c ∈ quotePlus bs) :
    alwaysSafe c = true ∨ c = 43 ∨ c = 37 ∨ ∃ d, c = hexU d :=
  mem_quotePlus bs c h

/-- C14.d  a header line written by `packHeader` is split by `parseLeader` (`line.split(': ', 1)`) into a name equal to
the original ignoring case and the untouched value — for every name without `:` (every token) and EVERY value -/
theorem header_line_roundtrip (n v : Bytes) (h : 58 ∉ n) :
    ∃ k, split2 58 32 (packHeader n v) = some (k, v) ∧ lower k = lower n :=
  ⟨title n, split_packHeader n v h, lower_title n⟩

/-! ### the composed theorem -/

/-- a request inside C14's quantifier.  Every clause is a decidable condition on the spec:
the method is an HTTP method (any case); the path is a path (`pathOk`: one leading `/`, no `?`/`#`), any bytes, but no
TAB/CR/LF (C14-K2); query keys and values are arbitrary byte strings; header names have no `:`/LF and values no LF; no
header name goes on the wire twice (F50 / C14-K1), at most 100 fields, the client does not announce chunking, and an
explicit Content-Length states the length of the body that is sent; forms are not multipart. -/
structure WF (s : Spec) : Prop where
  method : upper s.method ∈ Gen.methods
  ascii : isAscii s.method = true
  path : pathOk s.path = true
  pathBytes : BytesOk s.path
  pathClean : stripUnsafe s.path = s.path
  query : ∀ kv ∈ s.qargs, BytesOk kv.1 ∧ BytesOk kv.2
  notMultipart : (!isGet s && s.bkind == 2 && multipart s) = false
  names : ∀ h ∈ builtHeaders s, 10 ∉ h.1 ∧ 58 ∉ h.1
  values : ∀ h ∈ builtHeaders s, 10 ∉ h.2
  distinct : ((builtHeaders s).map (fun h => lower h.1)).Nodup
  few : (builtHeaders s).length ≤ 100
  noTe : hasKey (lit "transfer-encoding") (builtHeaders s) = false
  length : LengthOk (builtHeaders s) (builtBody s)

/-- what the server must recover -/
def view (s : Spec) : View := ⟨upper s.method, s.path, s.qargs, lowered (builtHeaders s), builtBody s⟩

/-- C14 (composed; `_partial` because `WF` carries the two defect guards `distinct` (F50) and `pathClean` (C14-K2) next to
the clauses that merely spell out the property's quantifier): for EVERY well-formed request spec the bytes `Requester.build` produces are parsed by
`Requestant` (+ `parse_qsl` on the query string) back to exactly the same method, path, query-argument list, header
fields (names ignoring case, values untouched, in wire order) and body bytes -/
theorem request_roundtrip_partial (s : Spec) (wf : WF s) :
    ∃ msg, build s = .ok msg ∧ recover msg = .ok (view s) := by
  have hne : s.path ≠ [] := by
    intro e; have := wf.path; rw [e] at this; exact absurd this (by decide)
  refine ⟨_, build_eq s hne wf.pathClean wf.path wf.ascii wf.notMultipart, ?_⟩
  exact recover_wire (upper s.method) s.path s.qargs (builtHeaders s) (builtBody s)
    ⟨wf.method, wf.path, wf.pathBytes, wf.query, wf.names, wf.values, wf.distinct, wf.few, wf.noTe, wf.length⟩

/-- … and the caller's own header fields are among those recovered, value untouched (a Content-Type is replaced only when
a JSON / form body dictates it) -/
theorem spec_headers_recovered (s : Spec) (x : Bytes × Bytes) (hx : x ∈ s.headers)
    (hct : (lower x.1 == lit "content-type") = false ∨ isGet s = true ∨ (s.bkind != 1 && s.bkind != 2) = true) :
    (lower x.1, x.2) ∈ (view s).headers := by
  have := spec_header_on_wire s x hx hct
  exact List.mem_map.mpr ⟨x, this, rfl⟩

/-- the body recovered is the body the client meant to send: raw bytes / JSON text as given, nothing with GET -/
theorem body_recovered (s : Spec) :
    (view s).body = if isGet s then [] else if s.bkind == 2 then formBody s.form else s.raw := by
  unfold view builtBody
  by_cases hg : isGet s = true
  · simp [hg]
  · by_cases h1 : (s.bkind == 1) = true
    · have : (s.bkind == 2) = false := by
        have : s.bkind = 1 := by simpa using h1
        simp [this]
      simp [hg, h1, this]
    · simp [hg, h1]

/-- F50 / C14-K1 (known finding, replayed on the implementation): a header sent twice keeps only its last value -/
theorem repeated_header_keeps_last :
    let s : Spec := ⟨lit "GET", lit "/p", [], [(lit "x-one", lit "1"), (lit "X-ONE", lit "2")], 0, [], [], lit "h:1"⟩
    ∃ msg v, build s = .ok msg ∧ recover msg = .ok v ∧ getKey (lit "x-one") v.headers = some (lit "2") ∧
      (lit "x-one", lit "1") ∉ v.headers := by
  refine ⟨_, _, rfl, rfl, ?_, ?_⟩ <;> decide

/-- C14-K2 (known finding, replayed on the implementation): TAB / CR / LF in the path are dropped before quoting -/
theorem path_tab_is_dropped :
    let s : Spec := ⟨lit "GET", [47, 112, 9, 113, 10], [], [], 0, [], [], lit "h:1"⟩
    ∃ msg v, build s = .ok msg ∧ recover msg = .ok v ∧ v.path = lit "/pq" := by
  exact ⟨_, _, rfl, rfl, by decide⟩

/-- non-vacuity: a spec with mixed-case method, non-ASCII path bytes, reserved characters in query keys and values, several
headers (one overriding a default) satisfies `WF` -/
example : WF ⟨lit "get", lit "/a b/" ++ [195, 169, 37], [(lit "k 1", lit "v&=1"), ([], []), ([228, 184, 173], lit "+")],
    [(lit "X-One", lit " v "), (lit "accept-encoding", lit "gzip"), (lit "Cookie", [255, 0])], 0, lit "dropped", [], lit "example.com:8080"⟩ := by
  refine ⟨by decide, by decide, by decide, by unfold BytesOk; decide, by decide, ?_, by decide, by decide, by decide, by decide,
    by decide, by decide, by decide⟩
  unfold BytesOk; decide

/-! non-vacuity / concrete instances (tests, not the unbounded claims) -/
example : BytesOk (lit "a b/%+&=~" ++ [0, 255, 195, 169]) := by unfold BytesOk; decide
example : quote (lit "/a b") = lit "/a%20b" := by decide
example : packQs [(lit "k 1", lit "v&=1"), ([], [])] = lit "k+1=v%26%3D1&=" := by decide
example : packHeader (lit "x-my-hdr") (lit " v ") = lit "X-My-Hdr:  v " := by decide

end Hio.Http.Req
