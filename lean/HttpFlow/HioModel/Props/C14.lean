import HioModel.Req.Lemmas
/-!
# C14 — requests built by the HTTP client are recovered exactly by the server

Model: `HioModel/Req/Model.lean` (`Requester.build`, `updateQargsQuery`, `packHeader`,
`Requestant.parseHead/parseBody`, and `urllib.parse` quote / quote_plus / unquote / unquote_plus /
parse_qsl at byte level; always-safe set, METHODS, default header values regenerated from the
live modules into `Gen/HttpConsts.lean`).  "Byte string" = list of numbers `< 256` (`BytesOk`).

Full statement (composed): for every well-formed spec, `recover (build spec) = view spec`.
It FAILS on two characterised sets, kept as recorded known findings and proved to fail here:
 * a header name sent twice (F50 / C14-K1): `repeated_header_keeps_last`;
 * TAB / CR / LF in the path (C14-K2): `path_tab_is_dropped`.
-/
namespace Hio.Http.Req
open Hio.Http

/-- C14.a  `unquote(quote(p)) = p` at byte level: ALL byte strings, any safe set that does not hold `%`
(in particular `quote`'s `safe='/'`, used for the path) -/
theorem unquote_quote (bs : Bytes) (h : BytesOk bs) : unq (quote bs) = bs :=
  unq_quoteWith _ (by simp [alwaysSafe_pct]) bs h

/-- C14.b  `unquote_plus(quote_plus(s)) = s` at byte level: ALL byte strings (query keys and values) -/
theorem unquote_plus_quote_plus (bs : Bytes) (h : BytesOk bs) : unqPlus (quotePlus bs) = bs :=
  unqPlus_quotePlusWith _ rfl rfl bs h

/-- the same for the form encoding `quote_plus(form, '&=')` -/
theorem unquote_plus_quote_plus_form (bs : Bytes) (h : BytesOk bs) :
    unqPlus (quotePlusWith (fun b => b == 38 || b == 61) bs) = bs :=
  unqPlus_quotePlusWith _ rfl rfl bs h

/-- C14.c  every query-argument list (arbitrary keys and values, duplicates and empty strings included) packed by
`updateQargsQuery` is decoded by `parse_qsl(QUERY_STRING, keep_blank_values=True)` to exactly the same list, in order -/
theorem qargs_roundtrip (qs : List (Bytes × Bytes)) (h : ∀ kv ∈ qs, BytesOk kv.1 ∧ BytesOk kv.2) :
    parseQsl (packQs qs) = qs :=
  parseQsl_packQs qs h

/-- the packed query never holds a byte that would end the request target or the line:
only always-safe characters, `+ % & =` and hex digits -/
theorem packed_field_chars (bs : Bytes) (c : Nat) (h : c ∈ quotePlus bs) :
    alwaysSafe c = true ∨ c = 43 ∨ c = 37 ∨ ∃ d, c = hexU d :=
  mem_quotePlus bs c h

/-- C14.d  a header line written by `packHeader` is split by `parseLeader` (`line.split(': ', 1)`) into a name equal to
the original ignoring case and the untouched value — for every name without `:` (every token) and EVERY value -/
theorem header_line_roundtrip (n v : Bytes) (h : 58 ∉ n) :
    ∃ k, split2 58 32 (packHeader n v) = some (k, v) ∧ lower k = lower n :=
  ⟨title n, split_packHeader n v h, lower_title n⟩

/-! non-vacuity / concrete instances (tests, not the unbounded claims) -/
example : BytesOk (lit "a b/%+&=~" ++ [0, 255, 195, 169]) := by unfold BytesOk; decide
example : quote (lit "/a b") = lit "/a%20b" := by decide
example : packQs [(lit "k 1", lit "v&=1"), ([], [])] = lit "k+1=v%26%3D1&=" := by decide
example : packHeader (lit "x-my-hdr") (lit " v ") = lit "X-My-Hdr:  v " := by decide

end Hio.Http.Req
