import HioModel.Req.Lemmas
/-!
# C14 — requests built by the HTTP client are recovered exactly by the server

Model: `HioModel/Req/Model.lean` (`Requester.build`, `updateQargsQuery`, `packHeader`,
`Requestant.parseHead/parseBody`, and `urllib.parse` quote / quote_plus / unquote / unquote_plus /
parse_qsl at byte level; always-safe set, METHODS, default header values regenerated from the
live modules into `Gen/HttpConsts.lean`).  "Byte string" = list of numbers `< 256` (`BytesOk`).

Full statement (composed): for every spec in the quantifier, `recover (build spec) = view spec`
(`request_roundtrip_partial`, proved for every `WF` spec; `requests_recovered_in_sequence_partial` for any number of
requests on one connection).
It FAILS on two characterised sets, excluded by `WF`, kept as recorded known findings and proved to fail here:
 * a header name sent twice (F50 / C14-K1): `repeated_header_keeps_last`;
 * TAB / CR / LF in the path (C14-K2): `path_tab_is_dropped`.
-/
namespace Hio.Http.Req
open Hio.Http

/-- C14.a  `unquote(quote(p)) = p` at byte level: ALL byte strings, any safe set that does not hold `%`
(in particular `quote`'s `safe='/'`, used for the path) -/
theorem unquote_quote (bs : Bytes) (h : BytesOk bs) : unq (quote bs) = bs :=
  unq_quoteWith _ (by simp [alwaysSafe_pct]) bs h

/-- C14.b  `unquote_plus(quote_plus(s)) = s` at byte level: ALL byte strings (query keys and values) -/
theorem unquote_plus_quote_plus (bs : Bytes) (h : BytesOk bs) : unqPlus (quotePlus bs) = bs :=
  unqPlus_quotePlusWith _ rfl rfl bs h

/-- the same for the form encoding `quote_plus(form, '&=')` -/
theorem unquote_plus_quote_plus_form (bs : Bytes) (h : BytesOk bs) :
    unqPlus (quotePlusWith (fun b => b == 38 || b == 61) bs) = bs :=
  unqPlus_quotePlusWith _ rfl rfl bs h

/-- C14.c  every query-argument list (arbitrary keys and values, duplicates and empty strings included) packed by
`updateQargsQuery` is decoded by `parse_qsl(QUERY_STRING, keep_blank_values=True)` to exactly the same list, in order -/
theorem qargs_roundtrip (qs : List (Bytes × Bytes)) (h : ∀ kv ∈ qs, BytesOk kv.1 ∧ BytesOk kv.2) :
    parseQsl (packQs qs) = qs :=
  parseQsl_packQs qs h

/-- the packed query never holds a byte that would end the request target or the line:
only always-safe characters, `+ % & =` and hex digits -/
theorem packed_field_chars (bs : Bytes) (c : Nat) (h : c ∈ quotePlus bs) :
    alwaysSafe c = true ∨ c = 43 ∨ c = 37 ∨ ∃ d, c = hexU d :=
  mem_quotePlus bs c h

/-- C14.d  a header line written by `packHeader` is split by `parseLeader` (`line.split(': ', 1)`) into a name equal to
the original ignoring case and the untouched value — for every name without `:` (every token) and EVERY value -/
theorem header_line_roundtrip (n v : Bytes) (h : 58 ∉ n) :
    ∃ k, split2 58 32 (packHeader n v) = some (k, v) ∧ lower k = lower n :=
  ⟨title n, split_packHeader n v h, lower_title n⟩

/-- C14.e  a query string written ON THE PATH in the standard form encoding (`+`, percent escapes in names and values) is read
by `updateQargsQuery` as exactly its argument list, for every list of byte-string pairs … -/
theorem path_query_roundtrip (ps : List (Bytes × Bytes)) (h : ∀ kv ∈ ps, BytesOk kv.1 ∧ BytesOk kv.2) :
    parsePathQs (packQs ps) = ps :=
  parsePathQs_packQs ps h

/-- … and `path?query` is split there: the path proper and the query as written -/
theorem path_with_query_splits (p : Bytes) (ps : List (Bytes × Bytes)) (hok : pathOk p = true)
    (h : ∀ kv ∈ ps, BytesOk kv.1 ∧ BytesOk kv.2) :
    urlParts (p ++ 63 :: packQs ps) = (p, packQs ps) := by
  unfold pathOk at hok
  simp only [Bool.and_eq_true, Bool.not_eq_true'] at hok
  obtain ⟨⟨_, h63⟩, h35⟩ := hok
  refine urlParts_with_query p _ ?_ ?_ ?_
  · intro hm; have := List.contains_iff_mem.mpr hm; rw [h35] at this; exact absurd this (by decide)
  · intro hm; have := List.contains_iff_mem.mpr hm; rw [h63] at this; exact absurd this (by decide)
  · intro hm; exact (packQs_targetBytes ps h 35 hm).2.1 rfl

/-! ### the composed theorem -/

/-- a request inside C14's quantifier.  Every clause is a decidable condition on the spec:
the method is an HTTP method (any case); what the caller passes as path has no TAB/CR/LF (C14-K2) and its path part
(`pathOf`: before `?`/`#`) is a path (`pathOk`: one leading `/`), any bytes; the query arguments that go on the wire
(`queryOf`: the dict updated by the arguments written on the path) are arbitrary byte strings; header names have no
`:`/LF and values no LF; no header name goes on the wire twice (F50 / C14-K1), at most MAX_HEADERS fields and no line longer than
MAX_LINE_SIZE (the server's limits, regenerated from the code), the client does not
announce chunking, and an explicit Content-Length states the length of the body that is sent. -/
structure WF (s : Spec) : Prop where
  method : upper s.method ∈ Gen.methods
  ascii : isAscii s.method = true
  pathGiven : s.path ≠ []
  pathClean : stripUnsafe s.path = s.path
  path : pathOk (pathOf s) = true
  pathBytes : BytesOk (pathOf s)
  query : ∀ kv ∈ queryOf s, BytesOk kv.1 ∧ BytesOk kv.2
  names : ∀ h ∈ builtHeaders s, 10 ∉ h.1 ∧ 58 ∉ h.1
  values : ∀ h ∈ builtHeaders s, 10 ∉ h.2
  distinct : ((builtHeaders s).map (fun h => lower h.1)).Nodup
  few : (builtHeaders s).length ≤ Gen.maxHeaders
  short : (upper s.method ++ [32] ++ target (pathOf s) (queryOf s) ++ [32] ++ Gen.requestVersion).length ≤ Gen.maxLineSize ∧
    ∀ h ∈ builtHeaders s, (packHeader h.1 h.2).length ≤ Gen.maxLineSize
  noTe : hasKey (lit "transfer-encoding") (builtHeaders s) = false
  length : LengthOk (builtHeaders s) (builtBody s)

/-- what the server must recover -/
def view (s : Spec) : View := ⟨upper s.method, pathOf s, queryOf s, lowered (builtHeaders s), builtBody s⟩

/-- the bytes of one request -/
def wireOf (s : Spec) : Bytes :=
  joinCrlf ((upper s.method ++ [32] ++ target (pathOf s) (queryOf s) ++ [32] ++ Gen.requestVersion) ::
    (builtHeaders s).map (fun h => packHeader h.1 h.2) ++ [[], []]) ++ builtBody s

theorem build_wire (s : Spec) (wf : WF s) : build s = .ok (wireOf s) :=
  build_eq s wf.pathGiven wf.pathClean wf.path wf.ascii

/-- whatever follows a request on the connection, the server recovers exactly `view s` and stops exactly at its end -/
theorem recover_then (s : Spec) (wf : WF s) (tail : Bytes) : recover (wireOf s ++ tail) = .ok (view s, tail) :=
  recover_wire (upper s.method) (pathOf s) (queryOf s) (builtHeaders s) (builtBody s) tail
    ⟨wf.method, wf.path, wf.pathBytes, wf.query, wf.names, wf.values, wf.distinct, wf.few, wf.short, wf.noTe, wf.length⟩

/-- C14 (composed; `_partial` because `WF` carries the two defect guards `distinct` (F50) and `pathClean` (C14-K2) next to
the clauses that merely spell out the property's quantifier): for EVERY well-formed request spec — query arguments in the
dict and/or on the path, raw / JSON / urlencoded / multipart body — the bytes `Requester.build` produces are parsed by
`Requestant` (+ `parse_qsl` on the query string) back to exactly the same method, path, query-argument list, header
fields (names ignoring case, values untouched, in wire order) and body bytes, with nothing left unconsumed -/
theorem request_roundtrip_partial (s : Spec) (wf : WF s) :
    ∃ msg, build s = .ok msg ∧ recover msg = .ok (view s, []) := by
  refine ⟨wireOf s, build_wire s wf, ?_⟩
  have := recover_then s wf []
  rwa [List.append_nil] at this

theorem wireOf_ne_nil (s : Spec) (wf : WF s) : wireOf s ≠ [] := by
  intro e
  have := recover_then s wf []
  rw [List.append_nil, e] at this
  have h2 : recover [] = .error .incomplete := rfl
  rw [h2] at this
  cases this

/-- C14 on a kept-alive connection: requests sent one after the other are recovered one by one, each exactly as if it were
alone — the parser carries nothing over from an earlier request (header fields, Content-Length, body) -/
theorem requests_recovered_in_sequence_partial (specs : List Spec) (wf : ∀ s ∈ specs, WF s) :
    specs.map build = specs.map (fun s => .ok (wireOf s)) ∧
    recoverSeq specs.length (specs.flatMap wireOf) = specs.map (fun s => .ok (view s)) := by
  refine ⟨List.map_congr_left (fun s hs => build_wire s (wf s hs)), ?_⟩
  induction specs with
  | nil => rfl
  | cons s rest ih =>
    have hs := wf s (List.mem_cons_self ..)
    simp only [List.length_cons, List.flatMap_cons, recoverSeq, List.map_cons]
    have hne : (wireOf s ++ rest.flatMap wireOf).isEmpty = false := by
      cases h : wireOf s with
      | nil => exact absurd h (wireOf_ne_nil s hs)
      | cons _ _ => rfl
    rw [hne, recover_then s hs]
    simp only [Bool.false_eq_true, ↓reduceIte]
    rw [ih (fun x hx => wf x (List.mem_cons_of_mem _ hx))]

/-- … and the caller's own header fields are among those recovered, value untouched (a Content-Type is replaced only when
a JSON / form body dictates it) -/
theorem spec_headers_recovered (s : Spec) (x : Bytes × Bytes) (hx : x ∈ s.headers)
    (hct : (lower x.1 == lit "content-type") = false ∨ isGet s = true ∨ (s.bkind != 1 && s.bkind != 2) = true) :
    (lower x.1, x.2) ∈ (view s).headers := by
  have := spec_header_on_wire s x hx hct
  exact List.mem_map.mpr ⟨x, this, rfl⟩

/-- the body recovered is the body the client meant to send: raw bytes / JSON text as given, the form encoding of the
fields (urlencoded, or multipart with the drawn boundary), nothing with GET -/
theorem body_recovered (s : Spec) :
    (view s).body = if isGet s then [] else if s.bkind == 1 then s.raw
      else if s.bkind == 2 then (if multipart s then multipartBody s.boundary s.form else formBody s.form) else s.raw := by
  unfold view builtBody bodyAndHeaders isGet
  simp only []
  split
  · rfl
  · split
    · rfl
    · split
      · split <;> rfl
      · rfl

/-- a plain path with a dict: what is recovered is the path and the dict as given -/
theorem plain_path_view (s : Spec) (hok : pathOk s.path = true) : (view s).path = s.path ∧ (view s).query = s.qargs := by
  unfold view pathOf queryOf
  rw [urlParts_plain s.path hok]
  simp [parsePathQs, mergeQs]

/-- F50 / C14-K1 (known finding, replayed on the implementation): a header sent twice keeps only its last value -/
theorem repeated_header_keeps_last :
    let s : Spec := ⟨lit "GET", lit "/p", [], [(lit "x-one", lit "1"), (lit "X-ONE", lit "2")], 0, [], [], lit "h:1", []⟩
    ∃ msg v, build s = .ok msg ∧ recover msg = .ok (v, []) ∧ getKey (lit "x-one") v.headers = some (lit "2") ∧
      (lit "x-one", lit "1") ∉ v.headers := by
  refine ⟨_, _, rfl, rfl, ?_, ?_⟩ <;> decide

/-- C14-K2 (known finding, replayed on the implementation): TAB / CR / LF in the path are dropped before quoting -/
theorem path_tab_is_dropped :
    let s : Spec := ⟨lit "GET", [47, 112, 9, 113, 10], [], [], 0, [], [], lit "h:1", []⟩
    ∃ msg v, build s = .ok msg ∧ recover msg = .ok (v, []) ∧ v.path = lit "/pq" := by
  exact ⟨_, _, rfl, rfl, by decide⟩

/-- non-vacuity: a spec with mixed-case method, non-ASCII path bytes, a query written on the path (`+`, an escaped `&` in a name)
that overrides one dict entry, reserved characters in dict keys and values, several headers (one overriding a default) satisfies `WF` -/
example : WF ⟨lit "get", lit "/a b/" ++ [195, 169, 37] ++ lit "?q=new+v&a%26b=1#frag", [(lit "k 1", lit "v&=1"), ([], []), (lit "q", lit "old"), ([228, 184, 173], lit "+")],
    [(lit "X-One", lit " v "), (lit "accept-encoding", lit "gzip"), (lit "Cookie", [255, 0])], 0, lit "dropped", [], lit "example.com:8080", []⟩ := by
  refine ⟨by decide, by decide, by decide, by decide, by decide, by unfold BytesOk; decide, ?_, by decide, by decide, by decide,
    by decide, by decide, by decide, by decide⟩
  unfold BytesOk; decide

/-- … and what is recovered for it: the path argument `q` replaced the dict's value in place, `a&b` was appended -/
example : (view ⟨lit "get", lit "/p?q=new+v&a%26b=1#frag", [(lit "q", lit "old"), (lit "z", lit "1")], [], 0, [], [], lit "h:1", []⟩).query =
    [(lit "q", lit "new v"), (lit "z", lit "1"), (lit "a&b", lit "1")] := by decide

/-- non-vacuity for a multipart form with non-ASCII field text (the Content-Length line is the byte length) -/
example : (bodyAndHeaders ⟨lit "POST", lit "/up", [], [(lit "Content-Type", lit "multipart/form-data")], 2, [], [([195, 169], [228, 184, 173])], lit "h:1", lit "B"⟩).1.length = 103 := by decide

/-! non-vacuity / concrete instances (tests, not the unbounded claims) -/
example : BytesOk (lit "a b/%+&=~" ++ [0, 255, 195, 169]) := by unfold BytesOk; decide
example : quote (lit "/a b") = lit "/a%20b" := by decide
example : packQs [(lit "k 1", lit "v&=1"), ([], [])] = lit "k+1=v%26%3D1&=" := by decide
example : packHeader (lit "x-my-hdr") (lit " v ") = lit "X-My-Hdr:  v " := by decide

end Hio.Http.Req
