import HioModel.Cli.Lemmas
/-!
# C19 — client requests are sent one at a time, answered in FIFO order, redirects followed with history

Model: `HioModel/Cli/Model.lean` — `Client.serviceRequests / serviceResponse / redirect / transmit` with state
(`requests`, `waited`, `latest`, requester fields, `redirects`, `responses`) against scripted servers; one `cycle` is one
`Client.service()`.  WHEN a response has arrived completely is the schedule `sched : List Bool`; every theorem below is
for EVERY queue `reqs`, EVERY server world `servers` (any scripts: immediate, redirecting to any port / scheme incl.
unknown targets, closing, until-close, truncated), EVERY schedule (hence every delay and split) and every number of
cycles.  F30 and F51 are repaired in the tree (the model has their fixed behaviour).

Full statement of "each request produces exactly one entry": it FAILS for a response the server cuts short after
some body bytes (C19-K1: the parser waits forever, `outcome = stuck`): `truncated_response_sticks`.
`one_entry_each_partial` has exactly the guard "the run ended idle" (not waiting, queue empty).  The https→http refusal
no longer ends the client (tree after the F49 repair): it yields an errored entry (`refused_redirect_is_reported`).
-/
namespace Hio.Http.Cli
open Hio.Http

/-- the state after any number of service cycles under any arrival schedule -/
def after (secure : Bool) (port : Nat) (servers : List Server) (reqs : List Req) (sched : List Bool) : St :=
  run servers sched (init secure port servers reqs)

/-- C19 one at a time: at every moment at most one request is on the wire unanswered (`peak` is the largest number of
unanswered requests the servers ever held); a new one goes out only when none is (`inflight` is 0 or 1 and 1 exactly
while the client waits for a response it can still get) -/
theorem one_in_flight (secure : Bool) (port : Nat) (servers : List Server) (reqs : List Req) (sched : List Bool) :
    let s := after secure port servers reqs sched
    s.peak ≤ 1 ∧ s.inflight = (if s.waited && s.pending.isSome then 1 else 0) := by
  have h := inv_run reqs servers sched _ (inv_init secure port servers reqs)
  exact ⟨h.peak, h.flight⟩

/-- C19 FIFO: the k-th response entry originates from the k-th queued request (its own `reply` key, or — after
redirects — the key carried by the first hop of its history), and answered ++ in-process ++ still-queued is exactly
`0, 1, …, n-1`: no request is skipped, duplicated or reordered -/
theorem fifo (secure : Bool) (port : Nat) (servers : List Server) (reqs : List Req) (sched : List Bool) :
    let s := after secure port servers reqs sched
    ledger s = (List.range reqs.length).map some ∧
    ∀ k (hk : k < s.entries.length), origin s.entries[k] = some k := by
  have h := inv_run reqs servers sched _ (inv_init secure port servers reqs)
  refine ⟨h.fifo, ?_⟩
  intro k hk
  have hf := h.fifo
  have hlen : k < (ledger (after secure port servers reqs sched)).length := by
    simp only [ledger, List.length_append, List.length_map]; omega
  have h1 : (ledger (after secure port servers reqs sched))[k]'hlen = origin (after secure port servers reqs sched).entries[k] := by
    simp only [ledger, List.append_assoc]
    rw [List.getElem_append_left (by simpa using hk)]
    simp
  have hlen2 : k < ((List.range reqs.length).map some).length := by rw [← hf]; exact hlen
  have h2 : (ledger (after secure port servers reqs sched))[k]'hlen = ((List.range reqs.length).map some)[k]'hlen2 := by
    congr 1
  rw [← h1, h2]
  simp

/-- … and the entry carries that request: an entry with a `reply` key `k` holds exactly the k-th queued request
(method, path, body, query arguments); the first hop of a history with key `k` was drawn by the k-th request's path -/
theorem entry_carries_request (secure : Bool) (port : Nat) (servers : List Server) (reqs : List Req) (sched : List Bool) :
    ∀ e ∈ (after secure port servers reqs sched).entries,
      (∀ k, e.tag = some k → reqs[k]? = some ⟨e.method, e.path, e.rbody, e.rqargs⟩) ∧
      (∀ h, e.redirects.head? = some h → ∀ k, h.tag = some k → ∃ r, reqs[k]? = some r ∧ r.path = h.path) :=
  (inv_run reqs servers sched _ (inv_init secure port servers reqs)).eok

/-- C19 one entry each (partial: the run ended idle): when the client is no longer waiting and the queue is empty,
there is exactly one entry per queued request -/
theorem one_entry_each_partial (secure : Bool) (port : Nat) (servers : List Server) (reqs : List Req) (sched : List Bool)
    (hw : (after secure port servers reqs sched).waited = false) (hq : (after secure port servers reqs sched).queue = []) :
    (after secure port servers reqs sched).entries.length = reqs.length := by
  have h := (fifo secure port servers reqs sched).1
  simp only [ledger, hw, hq, Bool.false_eq_true, ↓reduceIte, List.map_nil, List.append_nil] at h
  have := congrArg List.length h
  simpa using this

/-- C19 redirects are followed transparently with the history attached: everything in an entry's history is a
redirect response that was consumed for that request (in order of consumption), and an entry that is not an error
is never itself a redirect — for every entry, however long the chain and wherever it led -/
theorem redirect_history_attached (secure : Bool) (port : Nat) (servers : List Server) (reqs : List Req) (sched : List Bool) :
    ∀ e ∈ (after secure port servers reqs sched).entries,
      (∀ h ∈ e.redirects, isRedirect h.status = true) ∧
      (e.errored = false → ∃ st, e.status = some st ∧ isRedirect st = false) :=
  (inv_run reqs servers sched _ (inv_init secure port servers reqs)).ents

/-- C19 https → http is refused: from any state in which the client is on https, whatever happens next, it stays on
https and every request put on the wire from then on goes over TLS — no byte reaches an insecure target … -/
theorem https_to_http_refused (servers : List Server) (sched : List Bool) (s : St) (h : s.secure = true) :
    (run servers sched s).secure = true ∧
    ∃ added, (run servers sched s).wire = s.wire ++ added ∧ ∀ w ∈ added, w.tls = true :=
  sec_run s.wire servers sched s ⟨h, [], by simp, by simp⟩

/-- … in particular a client created on https never sends anything in clear … -/
theorem https_client_only_tls (port : Nat) (servers : List Server) (reqs : List Req) (sched : List Bool) :
    ∀ w ∈ (after true port servers reqs sched).wire, w.tls = true := by
  obtain ⟨_, added, hw, ht⟩ := https_to_http_refused servers sched (init true port servers reqs) rfl
  intro w hm
  unfold after at hm
  rw [hw] at hm
  simpa [init] using ht w (by simpa [init] using hm)

/-- … and the refusal is reported, not raised: when the response in process is a redirect received on https that points to an
http target, consuming it puts NOTHING on the wire, keeps the client on https, and appends exactly one errored entry whose
history ends with that redirect response; the client stops waiting, so the queue moves on -/
theorem refused_redirect_is_reported (servers : List Server) (s : St) (rp : Resp) (l : Loc)
    (hr : isRedirect rp.status = true) (hl : rp.loc = some l) (hs : s.secure = true) (hi : l.secure = false) :
    let s' := handle servers s rp
    s'.wire = s.wire ∧ s'.secure = true ∧ s'.waited = false ∧
    ∃ e, s'.entries = s.entries ++ [e] ∧ e.errored = true ∧
      e.redirects = s.redirects ++ [⟨rp.status, s.cur.path, s.latest⟩] := by
  simp only [handle, hr, hl, hs, hi, ↓reduceIte, finish]
  simp

/-- C19 redirects are followed TRANSPARENTLY: when a redirect is followed, the only thing that can appear on the wire is ONE
request whose target is exactly the Location's path and the Location's query arguments (none of the redirected request's own
arguments), sent to the Location's port and scheme, with the same method and no body — and that is also the request the
client now holds -/
theorem redirect_hop_is_location (servers : List Server) (s : St) (rp : Resp) (l : Loc)
    (hr : isRedirect rp.status = true) (hl : rp.loc = some l) (hsec : (s.secure && !l.secure) = false) :
    let s' := handle servers s rp
    s'.cur = ⟨s.cur.method, l.path, [], l.query⟩ ∧
    (s'.wire = s.wire ∨
      s'.wire = s.wire ++ [⟨l.port, l.secure, s.cur.method, targetOf l.path l.query, []⟩]) := by
  have hget : ∀ m : Bytes, (if (m == lit "GET") = true then ([] : Bytes) else []) = [] := by intro m; split <;> rfl
  by_cases hd : (l.port != s.port || l.secure != s.secure) = true
  · simp only [handle, hr, hl, ↓reduceIte, hd, hsec, Bool.false_eq_true, transmit]
    split
    · split <;> simp [hget]
    · simp
  · have hd' : (l.port != s.port || l.secure != s.secure) = false := by simpa using hd
    have hp : l.port = s.port := by
      simp only [Bool.or_eq_false_iff, bne_eq_false_iff_eq] at hd'; exact hd'.1
    have hs : l.secure = s.secure := by
      simp only [Bool.or_eq_false_iff, bne_eq_false_iff_eq] at hd'; exact hd'.2
    simp only [handle, hr, hl, ↓reduceIte, hd', Bool.false_eq_true, transmit]
    split
    · split <;> simp [hget, hp, hs]
    · simp

/-- C19 bodiless responses (to HEAD, and 1xx / 204 / 304) are complete at the blank line whatever Content-Length or
Transfer-Encoding they carry: once such a response (not a redirect) is in, the request gets its entry — with an
empty body and that status — and the client stops waiting, so the queue moves on -/
theorem bodiless_response_completes (servers : List Server) (s : St) (rp : Resp)
    (hw : s.waited = true) (hp : s.pending = some rp) (hb : bodiless s.cur.method rp.status = true)
    (hr : isRedirect rp.status = false) :
    let s' := serviceResponse servers true s
    s'.waited = false ∧ s'.outcome = s.outcome ∧
    ∃ e, s'.entries = s.entries ++ [e] ∧ e.body = [] ∧ e.status = some rp.status ∧ e.errored = false := by
  simp only [serviceResponse, hw, hp, hb, handle, hr, finish, afterIdle, Bool.not_true, Bool.false_eq_true, ↓reduceIte]
  split <;> simp

/-- C19-K2 regression (fixed in the tree, 3095720): a response to HEAD that announces `Transfer-Encoding: chunked` is
complete at the blank line; the request behind it is sent and answered -/
theorem chunked_bodiless_completes :
    let servers : List Server := [⟨8101, [⟨200, none, lit "entity", 1, false, false⟩, ⟨200, none, lit "two", 0, false, false⟩]⟩]
    let s := after false 8101 servers [⟨lit "HEAD", lit "/a", [], []⟩, ⟨lit "GET", lit "/b", [], []⟩] [true, true, true, true]
    s.outcome = .running ∧ s.waited = false ∧ s.entries.map (·.body) = [[], lit "two"] ∧ s.queue = [] := by
  decide

/-- regression (fixed in the tree, 041b28b): the hop of a redirected HEAD is still a HEAD for the response parser — its
response with a Content-Length is bodiless, the entry appears with the history attached and the queue moves on -/
theorem redirected_head_completes :
    let servers : List Server := [⟨8101, [⟨302, some ⟨false, 8101, lit "/r", []⟩, [], 0, false, false⟩, ⟨200, none, lit "entity", 0, false, false⟩,
      ⟨200, none, lit "two", 0, false, false⟩]⟩]
    let s := after false 8101 servers [⟨lit "HEAD", lit "/a", [], []⟩, ⟨lit "GET", lit "/b", [], []⟩] [true, true, true, true]
    s.waited = false ∧ s.wire.map (·.method) = [lit "HEAD", lit "HEAD", lit "GET"] ∧
      s.entries.map (·.body) = [[], lit "two"] ∧ s.entries.map (fun e => e.redirects.map (·.status)) = [[302], []] := by
  decide

/-- the redirected request's own query arguments do not travel with the hop (test on a concrete world) -/
theorem redirect_drops_old_args_witness :
    let servers : List Server := [⟨8101, [⟨307, some ⟨false, 8101, lit "/landing", [(lit "name", lit "fame")]⟩, [], 0, false, false⟩]⟩]
    let s := after false 8101 servers [⟨lit "GET", lit "/start", [], [(lit "token", lit "abc"), (lit "page", lit "2")]⟩] [true, true, true]
    s.wire.map (·.path) = [lit "/start?token=abc&page=2", lit "/landing?name=fame"] ∧
      s.entries.map (·.rqargs) = [[(lit "name", lit "fame")]] := by
  decide

/-- the refusal does happen (test on a concrete world): https client, server answers 302 → http://…:8102; the second
queued request is still served on the https connection afterwards -/
theorem refusal_witness :
    let servers : List Server := [⟨8101, [⟨302, some ⟨false, 8102, lit "/r", []⟩, [], 0, false, false⟩, ⟨200, none, lit "ok", 0, false, false⟩]⟩, ⟨8102, []⟩]
    let s := after true 8101 servers [⟨lit "GET", lit "/a", [], []⟩, ⟨lit "GET", lit "/b", [], []⟩] [true, true, true]
    s.outcome = .running ∧ s.waited = false ∧ s.wire.map (·.port) = [8101, 8101] ∧
      s.entries.map (·.errored) = [true, false] ∧ s.entries.map origin = [some 0, some 1] ∧
      (s.entries.map (fun e => e.redirects.map (·.status))) = [[302], []] := by
  decide

/-- C19-K1 witness (known finding, replayed on the implementation): a response cut short after some body bytes is
never completed; the request and everything behind it stay unanswered -/
theorem truncated_response_sticks :
    let servers : List Server := [⟨8101, [⟨200, none, lit "one", 3, false, false⟩]⟩]
    let s := after false 8101 servers [⟨lit "GET", lit "/a", [], []⟩, ⟨lit "GET", lit "/b", [], []⟩] [true, true, true, true, true]
    s.outcome = .stuck ∧ s.waited = true ∧ s.entries = [] ∧ s.queue.length = 1 := by
  decide

/-- F51 regression (fixed in the tree): a server that closes after its first response leaves the later requests
with an errored entry each, in order, instead of hanging -/
theorem closed_connection_yields_error_entries :
    let servers : List Server := [⟨8101, [⟨200, none, lit "one", 0, true, false⟩]⟩]
    let s := after false 8101 servers [⟨lit "GET", lit "/a", [], []⟩, ⟨lit "GET", lit "/b", [], []⟩, ⟨lit "GET", lit "/c", [], []⟩] [true, true, true, true]
    s.waited = false ∧ s.entries.map (·.errored) = [false, true, true] ∧ s.entries.map origin = [some 0, some 1, some 2] := by
  decide

end Hio.Http.Cli
