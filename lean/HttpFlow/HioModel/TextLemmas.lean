import HioModel.Text
/-! lemmas about the shared byte-string helpers: positional digits, CRLF joining -/
namespace Hio.Http

theorem digitsB_ne_nil (b n : Nat) : digitsB b n ≠ [] := by
  rw [digitsB]; split <;> simp

theorem digitsB_lt (b n : Nat) : ∀ d ∈ digitsB b n, d < b + 2 := by
  induction n using Nat.strongRecOn with
  | _ n ih =>
    rw [digitsB]
    split
    · intro d hd; simp at hd; omega
    · rename_i h
      intro d hd
      rcases List.mem_append.mp hd with hd | hd
      · exact ih (n / (b + 2)) (Nat.div_lt_self (by omega) (by omega)) d hd
      · simp at hd; subst hd; exact Nat.mod_lt _ (by omega)

theorem parseDigits_append (val : Nat → Option Nat) (base : Nat) (xs : Bytes) (c acc : Nat) :
    parseDigits val base (xs ++ [c]) acc =
      (parseDigits val base xs acc).bind (fun a => (val c).map (fun d => a * base + d)) := by
  induction xs generalizing acc with
  | nil => simp only [List.nil_append, parseDigits]; cases val c <;> rfl
  | cons x xs ih =>
    simp only [List.cons_append, parseDigits]
    cases val x with
    | none => rfl
    | some d => exact ih _

/-- reading back the digits of `n` gives `n` (any base `b + 2`, any digit alphabet the value function inverts) -/
theorem parseDigits_digitsB (val : Nat → Option Nat) (chr : Nat → Nat) (b : Nat)
    (hv : ∀ d, d < b + 2 → val (chr d) = some d) (n : Nat) :
    parseDigits val (b + 2) ((digitsB b n).map chr) 0 = some n := by
  induction n using Nat.strongRecOn with
  | _ n ih =>
    rw [digitsB]
    split
    · rename_i h
      simp [parseDigits, hv n h]
    · rename_i h
      rw [List.map_append, List.map_singleton, parseDigits_append,
        ih (n / (b + 2)) (Nat.div_lt_self (by omega) (by omega)),
        hv _ (Nat.mod_lt _ (by omega))]
      simp only [Option.bind_some, Option.map_some]
      congr 1
      exact Nat.div_add_mod' n (b + 2)

theorem decVal_decChar (d : Nat) (h : d < 10) : decVal (decChar d) = some d := by
  unfold decVal decChar isDigit
  have : (decide (48 ≤ 48 + d) && decide (48 + d ≤ 57)) = true := by
    simp only [Bool.and_eq_true, decide_eq_true_eq]; omega
  rw [if_pos this]
  congr 1; omega

theorem hexVal_hexChar (d : Nat) (h : d < 16) : hexVal (hexChar d) = some d := by
  have : d = 0 ∨ d = 1 ∨ d = 2 ∨ d = 3 ∨ d = 4 ∨ d = 5 ∨ d = 6 ∨ d = 7 ∨ d = 8 ∨ d = 9 ∨ d = 10 ∨ d = 11 ∨
      d = 12 ∨ d = 13 ∨ d = 14 ∨ d = 15 := by omega
  rcases this with h | h | h | h | h | h | h | h | h | h | h | h | h | h | h | h <;> subst h <;> decide

theorem toDec_ne_nil (n : Nat) : toDec n ≠ [] := by
  unfold toDec; simp [digitsB_ne_nil]

theorem toHex_ne_nil (n : Nat) : toHex n ≠ [] := by
  unfold toHex; simp [digitsB_ne_nil]

/-- `int(str(n)) == n` -/
theorem parseDec_toDec (n : Nat) : parseDec (toDec n) = some n := by
  unfold parseDec
  have : (toDec n).isEmpty = false := by
    cases h : toDec n with
    | nil => exact absurd h (toDec_ne_nil n)
    | cons _ _ => rfl
  rw [this]
  exact parseDigits_digitsB decVal decChar 8 decVal_decChar n

/-- `int(format(n, 'x'), 16) == n` -/
theorem parseHex_toHex (n : Nat) : parseHex (toHex n) = some n := by
  unfold parseHex
  have : (toHex n).isEmpty = false := by
    cases h : toHex n with
    | nil => exact absurd h (toHex_ne_nil n)
    | cons _ _ => rfl
  rw [this]
  exact parseDigits_digitsB hexVal hexChar 14 hexVal_hexChar n

theorem hexChar_ge (d : Nat) : 48 ≤ hexChar d := by unfold hexChar; split <;> omega

theorem toHex_no_lf (n : Nat) : 10 ∉ toHex n := by
  unfold toHex
  intro h
  rcases List.mem_map.mp h with ⟨d, _, e⟩
  have := hexChar_ge d; omega

theorem toDec_no_lf (n : Nat) : 10 ∉ toDec n := by
  unfold toDec decChar
  intro h
  rcases List.mem_map.mp h with ⟨d, _, e⟩
  omega

/-! ### CRLF framing -/

theorem joinCrlf_blank (ls : List Bytes) : joinCrlf (ls ++ [[], []]) = ls.flatMap (· ++ crlf) ++ crlf := by
  induction ls with
  | nil => simp [joinCrlf, crlf]
  | cons l ls ih =>
    cases ls with
    | nil => simp [joinCrlf, crlf]
    | cons m ms =>
      simp only [List.cons_append, joinCrlf, List.flatMap_cons] at ih ⊢
      rw [ih]; simp [List.append_assoc]

/-- a line without LF followed by CRLF is cut exactly there -/
theorem split2_crlf (l r : Bytes) (h : 10 ∉ l) : split2 13 10 (l ++ 13 :: 10 :: r) = some (l, r) := by
  induction l with
  | nil => simp [split2]
  | cons b l ih =>
    have hl : 10 ∉ l := fun m => h (List.mem_cons_of_mem _ m)
    have hhead : (l ++ 13 :: 10 :: r).head? ≠ some 10 := by
      cases l with
      | nil => simp
      | cons c l' =>
        simp only [List.cons_append, List.head?_cons, ne_eq, Option.some.injEq]
        intro e; exact hl (e ▸ List.mem_cons_self ..)
    simp only [List.cons_append, split2]
    rw [if_neg (fun hc => hhead hc.2), ih hl]
    rfl


/-! ### title-casing keeps everything below `A` untouched -/

theorem toUpper_ne_small (b c : Nat) (hc : c < 65) (hb : b ≠ c) : toUpper b ≠ c := by
  unfold toUpper isLower
  split
  · rename_i h; simp only [Bool.and_eq_true, decide_eq_true_eq] at h; omega
  · exact hb

theorem toLower_ne_small (b c : Nat) (hc : c < 65) (hb : b ≠ c) : toLower b ≠ c := by
  unfold toLower isUpper
  split
  · rename_i h; simp only [Bool.and_eq_true, decide_eq_true_eq] at h; omega
  · exact hb

theorem not_mem_titleAux (c : Nat) (hc : c < 65) (p : Bool) (s : Bytes) (h : c ∉ s) : c ∉ titleAux p s := by
  induction s generalizing p with
  | nil => simp [titleAux]
  | cons b s ih =>
    have hb : b ≠ c := fun e => h (e ▸ List.mem_cons_self ..)
    have hs : c ∉ s := fun m => h (List.mem_cons_of_mem _ m)
    unfold titleAux
    by_cases ha : isAlpha b = true
    · simp only [ha, ↓reduceIte]
      intro hm
      rcases List.mem_cons.mp hm with e | hm
      · cases p
        · simp only [Bool.false_eq_true, ↓reduceIte] at e; exact toUpper_ne_small b c hc hb e.symm
        · simp only [↓reduceIte] at e; exact toLower_ne_small b c hc hb e.symm
      · exact ih true hs hm
    · simp only [ha, Bool.false_eq_true, ↓reduceIte]
      intro hm
      rcases List.mem_cons.mp hm with e | hm
      · exact hb e.symm
      · exact ih false hs hm

theorem not_mem_title (c : Nat) (hc : c < 65) (s : Bytes) (h : c ∉ s) : c ∉ title s := not_mem_titleAux c hc false s h

/-! ### header list lookups -/

theorem getKey_append (k : Bytes) (xs ys : Headers) :
    getKey k (xs ++ ys) = match getKey k xs with | some v => some v | none => getKey k ys := by
  induction xs with
  | nil => simp [getKey]
  | cons h xs ih =>
    simp only [List.cons_append, getKey]
    split
    · rfl
    · exact ih

theorem hasKey_append (k : Bytes) (xs ys : Headers) : hasKey k (xs ++ ys) = (hasKey k xs || hasKey k ys) := by
  simp [hasKey, List.any_append]

theorem getKey_of_not_hasKey (k : Bytes) (xs : Headers) (h : hasKey k xs = false) : getKey k xs = none := by
  induction xs with
  | nil => rfl
  | cons x xs ih =>
    simp only [hasKey, List.any_cons, Bool.or_eq_false_iff] at h
    simp only [getKey, h.1, Bool.false_eq_true, ↓reduceIte]
    exact ih (by simpa [hasKey] using h.2)

theorem setKey_of_not_hasKey (k v : Bytes) (xs : Headers) (h : hasKey k xs = false) : setKey k v xs = xs ++ [(k, v)] := by
  induction xs with
  | nil => rfl
  | cons x xs ih =>
    simp only [hasKey, List.any_cons, Bool.or_eq_false_iff] at h
    simp only [setKey, h.1, Bool.false_eq_true, ↓reduceIte, List.cons_append]
    rw [ih (by simpa [hasKey] using h.2)]

end Hio.Http
