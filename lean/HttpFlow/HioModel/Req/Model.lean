import HioModel.Text
import HioModel.Gen.HttpConsts
/-!
# Model of the request path: `Requester.build` (client) → bytes → `Requestant.parseHead/parseBody`
and the query decoding a WSGI app applies to `QUERY_STRING` (server)

Faithful to the tree with the `fix:` commit for F19 applied (query keys are quoted like values).
Text crosses as bytes: paths / query strings / form fields as UTF-8, header values as latin-1.
`str.encode('utf-8')` / `bytes.decode('utf-8')` are not modelled (trusted bijection on valid UTF-8,
exercised by the correspondence); `json.dumps` enters as a parameter (the spec carries its output).

`urllib.parse.quote / quote_plus / unquote / unquote_plus / parse_qsl(keep_blank_values=True)` are
modelled at byte level (`quoteWith`, `quotePlusWith`, `unq`, `unqPlus`, `parseQsl`) with the always-safe
set regenerated from the stdlib.

A query string (and fragment) given on the path is split off like `urlsplit` does and merged into the qargs dict
(`urlParts`, `parsePathQs`, `mergeQs`); multipart forms take the boundary as a parameter.
Inputs the model declines (`Exn.unmodelled`, never generated inside C14's quantifier): a path that does
not start with exactly one `/`, a method with non-ASCII bytes, chunked request bodies, a `Content-Length` that is not plain digits.
Kept defects: F50 (`parseLeader` assigns `headers[key] = value`: a repeated header keeps its last
value), C14-K2 (`urlsplit` drops TAB/CR/LF from the path before it is quoted).
-/
namespace Hio.Http.Req
open Hio.Http

inductive Exn
  | unmodelled | incomplete | badRequestLine | unknownProtocol | badMethod | valueError | tooManyHeaders | noLength | lineTooLong
deriving Repr, DecidableEq

/-! ### urllib.parse at byte level -/

def hexU (d : Nat) : Nat := if d < 10 then 48 + d else 55 + d

/-- `'%{:02X}'.format(b)` -/
def pct (b : Nat) : Bytes := [37, hexU (b / 16), hexU (b % 16)]

/-- `quote_from_bytes(bs, safe)` with the safe set as a predicate -/
def quoteWith (safe : Nat → Bool) : Bytes → Bytes
  | [] => []
  | b :: bs => (if safe b then [b] else pct b) ++ quoteWith safe bs

def alwaysSafe (b : Nat) : Bool := Gen.alwaysSafe.contains b

/-- `quote(s)` (safe = '/') -/
def quote (bs : Bytes) : Bytes := quoteWith (fun b => alwaysSafe b || b == 47) bs

def plusOfSpace (b : Nat) : Nat := if b = 32 then 43 else b
def spaceOfPlus (b : Nat) : Nat := if b = 43 then 32 else b

/-- `quote_plus(s, safe=extra)` -/
def quotePlusWith (extra : Nat → Bool) (bs : Bytes) : Bytes :=
  (quoteWith (fun b => alwaysSafe b || extra b || b == 32) bs).map plusOfSpace

def quotePlus (bs : Bytes) : Bytes := quotePlusWith (fun _ => false) bs

/-- `unquote_to_bytes` -/
def unq : Bytes → Bytes
  | [] => []
  | [c] => [c]
  | [c, d] => [c, d]
  | c :: a :: b :: rest =>
    if c = 37 then
      match hexVal a, hexVal b with
      | some x, some y => (16 * x + y) :: unq rest
      | _, _ => 37 :: unq (a :: b :: rest)
    else c :: unq (a :: b :: rest)

/-- `unquote_plus` -/
def unqPlus (bs : Bytes) : Bytes := unq (bs.map spaceOfPlus)

/-- `s.split(c)` for a one-byte separator -/
def splitOn (c : Nat) : Bytes → List Bytes
  | [] => [[]]
  | b :: bs =>
    if b = c then [] :: splitOn c bs
    else match splitOn c bs with
      | [] => [[b]]
      | s :: ss => (b :: s) :: ss

/-- one `name=value` field of `parse_qsl(..., keep_blank_values=True)` -/
def parseField (f : Bytes) : Bytes × Bytes :=
  match splitAt1 61 f with
  | some (k, v) => (unqPlus k, unqPlus v)
  | none => (unqPlus f, [])

/-- `parse_qsl(qs, keep_blank_values=True)` -/
def parseQsl (qs : Bytes) : List (Bytes × Bytes) :=
  if qs.isEmpty then [] else ((splitOn 38 qs).filter (fun f => !f.isEmpty)).map parseField

/-- `'&'.join(parts)` -/
def joinAmp : List Bytes → Bytes
  | [] => []
  | [p] => p
  | p :: q :: ps => p ++ [38] ++ joinAmp (q :: ps)

/-- the query string `updateQargsQuery` regenerates -/
def packQs (qargs : List (Bytes × Bytes)) : Bytes :=
  joinAmp (qargs.map fun kv => quotePlus kv.1 ++ [61] ++ quotePlus kv.2)

/-! ### client: `Requester.build` -/

structure Spec where
  method : Bytes
  path : Bytes
  qargs : List (Bytes × Bytes)
  headers : Headers
  bkind : Nat                       -- 0 raw body | 1 JSON data | 2 form fields
  raw : Bytes                       -- the raw body, or `json.dumps(data, separators=(',', ':'))` as UTF-8
  form : List (Bytes × Bytes)
  host : Bytes                      -- "hostname:port" of the connection (value of the default Host header)
  boundary : Bytes                  -- the multipart boundary `build` draws with `random.randint` (a parameter, like the JSON text)
deriving Repr, DecidableEq

/-- `urlsplit` removes TAB, LF and CR from the URL -/
def stripUnsafe (p : Bytes) : Bytes := p.filter (fun b => b != 9 && b != 10 && b != 13)

/-- a path `urlsplit` returns unchanged as `.path`: one leading slash, no query or fragment mark -/
def pathOk (p : Bytes) : Bool :=
  p.head? == some 47 && (p.drop 1).head? != some 47 && !p.contains 63 && !p.contains 35

def isAscii (s : Bytes) : Bool := s.all (· < 128)

/-- the `application/x-www-form-urlencoded` body -/
def formBody (form : List (Bytes × Bytes)) : Bytes :=
  quotePlusWith (fun b => b == 38 || b == 61) (joinAmp (form.map fun kv => kv.1 ++ [61] ++ kv.2))

def startsWith (pre s : Bytes) : Bool := pre.isPrefixOf s

structure Built where
  lines : List Bytes
  body : Bytes
deriving Repr, DecidableEq

/-- `'content-type' in headers and headers['content-type'].startswith('multipart/form-data')` -/
def multipart (s : Spec) : Bool :=
  match getKey (lit "content-type") s.headers with
  | some v => startsWith (lit "multipart/form-data") v
  | none => false

/-- `urlsplit(u)` of a relative reference: (path, query); the fragment is dropped -/
def urlParts (u : Bytes) : Bytes × Bytes :=
  let noFrag := match splitAt1 35 u with | some (a, _) => a | none => u
  match splitAt1 63 noFrag with
  | some (p, q) => (p, q)
  | none => (noFrag, [])

/-- the `;` / `&` split of `updateQargsQuery` -/
def queryParts (q : Bytes) : List Bytes :=
  if q.contains 59 then splitOn 59 q else if q.contains 38 then splitOn 38 q else [q]

/-- one part of a query string given on the path: name and value are form-decoded, a bare name means `true` -/
def parsePart (f : Bytes) : Bytes × Bytes :=
  match splitAt1 61 f with
  | some (k, v) => (unqPlus k, unqPlus v)
  | none => (unqPlus f, lit "true")

/-- the query arguments `updateQargsQuery` reads from a query string -/
def parsePathQs (q : Bytes) : List (Bytes × Bytes) :=
  if q.isEmpty then [] else ((queryParts q).filter (fun f => !f.isEmpty)).map parsePart

/-- `d[k] = v` on an insertion-ordered dict -/
def dictSet (k v : Bytes) : List (Bytes × Bytes) → List (Bytes × Bytes)
  | [] => [(k, v)]
  | (k', v') :: r => if k' == k then (k', v) :: r else (k', v') :: dictSet k v r

/-- the qargs dict updated by the arguments found on the path -/
def mergeQs (qs ps : List (Bytes × Bytes)) : List (Bytes × Bytes) :=
  ps.foldl (fun acc kv => dictSet kv.1 kv.2 acc) qs

/-- the `multipart/form-data` body for boundary `b` -/
def multipartBody (b : Bytes) (form : List (Bytes × Bytes)) : Bytes :=
  form.flatMap (fun kv => lit "\r\n--" ++ b ++ lit "\r\nContent-Disposition: form-data; name=\"" ++ kv.1 ++
      lit "\"\r\nContent-Type: text/plain; charset=utf-8\r\n\r\n" ++ kv.2) ++
    lit "\r\n--" ++ b ++ lit "--"

/-- body and header fields as sent: nothing with GET, else JSON text / form encoding (urlencoded or multipart) / raw body -/
def bodyAndHeaders (s : Spec) : Bytes × Headers :=
  if upper s.method == lit "GET" then ([], s.headers)
  else if s.bkind == 1 then (s.raw, setKey (lit "content-type") Gen.jsonContentType s.headers)
  else if s.bkind == 2 then
    (if multipart s then (multipartBody s.boundary s.form, setKey (lit "content-type") (lit "multipart/form-data; boundary=" ++ s.boundary) s.headers)
     else (formBody s.form, setKey (lit "content-type") Gen.formContentType s.headers))
  else (s.raw, s.headers)

def buildParts (s : Spec) : Except Exn Built :=
  let method := upper s.method
  let parts := urlParts (stripUnsafe (if s.path.isEmpty then [47] else s.path))
  if !pathOk parts.1 || !isAscii s.method then .error .unmodelled else
  let query := packQs (mergeQs s.qargs (parsePathQs parts.2))
  let target := quote parts.1 ++ (if query.isEmpty then [] else 63 :: query)
  let start := method ++ [32] ++ target ++ [32] ++ Gen.requestVersion
  let hostL := if hasKey (lit "host") s.headers then [] else [packHeader (lit "Host") s.host]
  let accL := if hasKey (lit "accept-encoding") s.headers then [] else [packHeader (lit "Accept-Encoding") Gen.acceptEncoding]
  let bh := bodyAndHeaders s
  let clL := if !bh.1.isEmpty && !hasKey (lit "content-length") bh.2 then [packHeader (lit "Content-Length") (toDec bh.1.length)] else []
  .ok ⟨[start] ++ hostL ++ accL ++ clL ++ bh.2.map (fun h => packHeader h.1 h.2), bh.1⟩

/-- `Requester.build()`: the request message -/
def build (s : Spec) : Except Exn Bytes :=
  match buildParts s with
  | .ok b => .ok (joinCrlf (b.lines ++ [[], []]) ++ b.body)
  | .error e => .error e

/-! ### server: `Requestant.parseHead` / `parseBody` -/

/-- `parseLine(raw, eols=(CRLF, LF))`: the first CRLF anywhere, else the first LF -/
def takeLine (raw : Bytes) : Option (Bytes × Bytes) :=
  match split2 13 10 raw with
  | some p => some p
  | none => splitAt1 10 raw

/-- whitespace of `str.split()` on a latin-1 decoded line -/
def isWs (b : Nat) : Bool :=
  (9 ≤ b && b ≤ 13) || (28 ≤ b && b ≤ 32) || b == 133 || b == 160

def wordsAux : Bytes → Bytes → List Bytes
  | [], cur => if cur.isEmpty then [] else [cur.reverse]
  | b :: bs, cur =>
    if isWs b then (if cur.isEmpty then wordsAux bs [] else cur.reverse :: wordsAux bs [])
    else wordsAux bs (b :: cur)

/-- `line.split()` -/
def words (line : Bytes) : List Bytes := wordsAux line []

structure View where
  method : Bytes
  path : Bytes
  query : List (Bytes × Bytes)
  headers : Headers                 -- names lower-cased, in stored order
  body : Bytes
deriving Repr, DecidableEq

/-- `parseLeader`: header lines up to the blank line; `headers[key] = value` -/
def parseLeader : Nat → Bytes → Headers → Except Exn (Headers × Bytes)
  | 0, _, _ => .error .incomplete
  | fuel + 1, raw, hs =>
    match takeLine raw with
    | none => .error .incomplete
    | some (line, rest) =>
      if line.length > Gen.maxLineSize then .error .lineTooLong
      else if line.isEmpty then .ok (hs, rest)
      else match split2 58 32 line with
        | none => .error .valueError
        | some (k, v) =>
          let hs' := setKey (lower k) v hs
          if hs'.length > Gen.maxHeaders then .error .tooManyHeaders else parseLeader fuel rest hs'

/-- the request target as `urlsplit` sees it on the server: (quoted path, raw query) -/
def splitTarget (url : Bytes) : Except Exn (Bytes × Bytes) :=
  if url.head? != some 47 || (url.drop 1).head? == some 47 then .error .unmodelled else
  let noFrag := match splitAt1 35 url with | some (a, _) => a | none => url
  match splitAt1 63 noFrag with
  | some (p, q) => .ok (p, q)
  | none => .ok (noFrag, [])

def recover (raw : Bytes) : Except Exn (View × Bytes) :=
  match takeLine raw with
  | none => .error .incomplete
  | some (line, rest) =>
    if line.length > Gen.maxLineSize then .error .lineTooLong else
    if line.isEmpty then .error .badRequestLine else
    let ws := words line
    let method := ws.getD 0 []
    let url := ws.getD 1 []
    let version := ws.getD 2 []
    if !startsWith (lit "HTTP/") version then .error .unknownProtocol
    else if !Gen.methods.contains method then .error .badMethod
    else if !startsWith (lit "HTTP/1.") version then .error .unknownProtocol
    else match splitTarget url with
    | .error e => .error e
    | .ok (qpath, query) =>
      match parseLeader (rest.length + 1) rest [] with
      | .error e => .error e
      | .ok (hs, rest2) =>
        if (getKey (lit "transfer-encoding") hs).map lower == some (lit "chunked") then .error .unmodelled else
        let len : Except Exn Nat := match getKey (lit "content-length") hs with
          | none => .ok 0
          | some v => if v.isEmpty then .ok 0 else match parseDec v with
            | some n => .ok n
            | none => .error .unmodelled
        match len with
        | .error e => .error e
        | .ok n =>
          if rest2.length < n then .error .incomplete
          else .ok (⟨method, unq qpath, parseQsl query, hs, rest2.take n⟩, rest2.drop n)

/-- the requests one `Requestant` parses from a connection's byte stream, one after the other; the parser carries
nothing from one request to the next except the unread rest of the stream -/
def recoverSeq : Nat → Bytes → List (Except Exn View)
  | 0, _ => []
  | n + 1, raw =>
    if raw.isEmpty then []
    else match recover raw with
      | .ok (v, rest) => .ok v :: recoverSeq n rest
      | .error e => [.error e]

end Hio.Http.Req
