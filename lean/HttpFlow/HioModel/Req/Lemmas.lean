import HioModel.Req.Model
/-! helper lemmas for C14 (urllib.parse byte level round trips, query packing, header lines) -/
namespace Hio.Http.Req
open Hio.Http

theorem unq_cons_ne (c : Nat) (rest : Bytes) (h : c ≠ 37) : unq (c :: rest) = c :: unq rest := by
  match rest with
  | [] => simp [unq]
  | [d] => simp [unq]
  | a :: b :: r => simp [unq, h]

theorem unq_pct (a b x y : Nat) (rest : Bytes) (ha : hexVal a = some x) (hb : hexVal b = some y) :
    unq (37 :: a :: b :: rest) = (16 * x + y) :: unq rest := by
  simp [unq, ha, hb]

theorem hexVal_hexU (d : Nat) (h : d < 16) : hexVal (hexU d) = some d := by
  have : d = 0 ∨ d = 1 ∨ d = 2 ∨ d = 3 ∨ d = 4 ∨ d = 5 ∨ d = 6 ∨ d = 7 ∨ d = 8 ∨ d = 9 ∨ d = 10 ∨ d = 11 ∨
      d = 12 ∨ d = 13 ∨ d = 14 ∨ d = 15 := by omega
  rcases this with h | h | h | h | h | h | h | h | h | h | h | h | h | h | h | h <;> subst h <;> decide

/-- `unquote_to_bytes(quote_from_bytes(bs, safe)) == bs` for every byte string and every safe set without `%` -/
theorem unq_quoteWith (safe : Nat → Bool) (hs : safe 37 = false) (bs : Bytes) (hb : ∀ b ∈ bs, b < 256) :
    unq (quoteWith safe bs) = bs := by
  induction bs with
  | nil => simp [quoteWith, unq]
  | cons b bs ih =>
    have hb' : ∀ x ∈ bs, x < 256 := fun x hx => hb x (List.mem_cons_of_mem _ hx)
    have hlt : b < 256 := hb b (List.mem_cons_self ..)
    simp only [quoteWith]
    by_cases hsafe : safe b = true
    · have hne : b ≠ 37 := by intro e; rw [e, hs] at hsafe; exact absurd hsafe (by decide)
      simp only [hsafe, ↓reduceIte, List.singleton_append]
      rw [unq_cons_ne _ _ hne, ih hb']
    · simp only [hsafe, pct, Bool.false_eq_true, ↓reduceIte, List.cons_append, List.nil_append]
      rw [unq_pct _ _ (b / 16) (b % 16) _ (hexVal_hexU _ (by omega)) (hexVal_hexU _ (by omega)), ih hb']
      congr 1
      omega


/-! ### facts about the regenerated always-safe table (re-checked whenever the stdlib table changes) -/

theorem alwaysSafe_pct : alwaysSafe 37 = false := by decide
theorem alwaysSafe_plus : alwaysSafe 43 = false := by decide
theorem alwaysSafe_amp : alwaysSafe 38 = false := by decide
theorem alwaysSafe_eq : alwaysSafe 61 = false := by decide
theorem alwaysSafe_space : alwaysSafe 32 = false := by decide

theorem hexU_ge (d : Nat) : 48 ≤ hexU d := by unfold hexU; split <;> omega

/-- every byte `quote` emits is a safe byte, `%`, or an upper-case hex digit character (`≥ 48`) -/
theorem mem_quoteWith (safe : Nat → Bool) (bs : Bytes) (c : Nat) (h : c ∈ quoteWith safe bs) :
    safe c = true ∨ c = 37 ∨ ∃ d, c = hexU d := by
  induction bs with
  | nil => simp [quoteWith] at h
  | cons b bs ih =>
    simp only [quoteWith, List.mem_append] at h
    rcases h with h | h
    · by_cases hsafe : safe b = true
      · simp only [hsafe, ↓reduceIte, List.mem_singleton] at h; subst h; exact Or.inl hsafe
      · simp only [hsafe, pct, Bool.false_eq_true, ↓reduceIte, List.mem_cons, List.not_mem_nil, or_false] at h
        rcases h with h | h | h
        · exact Or.inr (Or.inl h)
        · exact Or.inr (Or.inr ⟨_, h⟩)
        · exact Or.inr (Or.inr ⟨_, h⟩)
    · exact ih h

theorem space_plus_inv (l : Bytes) (h : 43 ∉ l) : (l.map plusOfSpace).map spaceOfPlus = l := by
  induction l with
  | nil => rfl
  | cons c l ih =>
    have hc : c ≠ 43 := fun e => h (e ▸ List.mem_cons_self ..)
    have hl : 43 ∉ l := fun m => h (List.mem_cons_of_mem _ m)
    simp only [List.map_cons, ih hl]
    congr 1
    unfold plusOfSpace spaceOfPlus
    by_cases h32 : c = 32
    · simp [h32]
    · simp [h32, hc]

/-- `unquote_plus(quote_plus(bs, safe=extra)) == bs` for every byte string, as long as `%` and `+` are not declared safe -/
theorem unqPlus_quotePlusWith (extra : Nat → Bool) (h37 : extra 37 = false) (h43 : extra 43 = false)
    (bs : Bytes) (hb : ∀ b ∈ bs, b < 256) : unqPlus (quotePlusWith extra bs) = bs := by
  unfold unqPlus quotePlusWith
  have hno : 43 ∉ quoteWith (fun b => alwaysSafe b || extra b || b == 32) bs := by
    intro hm
    rcases mem_quoteWith _ _ _ hm with h | h | ⟨d, h⟩
    · simp [alwaysSafe_plus, h43] at h
    · omega
    · have := hexU_ge d; omega
  rw [space_plus_inv _ hno]
  exact unq_quoteWith _ (by simp [alwaysSafe_pct, h37]) bs hb

/-- bytes of a `quote_plus` result: never `&`, `=`, nor anything that is not always-safe / `+` / `%` / hex -/
theorem mem_quotePlus (bs : Bytes) (c : Nat) (h : c ∈ quotePlus bs) :
    alwaysSafe c = true ∨ c = 43 ∨ c = 37 ∨ ∃ d, c = hexU d := by
  unfold quotePlus quotePlusWith at h
  rcases List.mem_map.mp h with ⟨x, hx, rfl⟩
  unfold plusOfSpace
  by_cases h32 : x = 32
  · simp [h32]
  · simp only [h32, ↓reduceIte]
    rcases mem_quoteWith _ _ _ hx with h | h | h
    · simp only [Bool.or_eq_true, beq_iff_eq] at h
      rcases h with (h | h) | h
      · exact Or.inl h
      · exact absurd h (by decide)
      · exact absurd h h32
    · exact Or.inr (Or.inr (Or.inl h))
    · exact Or.inr (Or.inr (Or.inr h))

theorem quotePlus_no_amp (bs : Bytes) : 38 ∉ quotePlus bs := by
  intro h
  rcases mem_quotePlus _ _ h with h | h | h | ⟨d, h⟩
  · rw [alwaysSafe_amp] at h; exact absurd h (by decide)
  · omega
  · omega
  · have := hexU_ge d; omega

theorem quotePlus_no_eq (bs : Bytes) : 61 ∉ quotePlus bs := by
  intro h
  rcases mem_quotePlus _ _ h with h | h | h | ⟨d, h⟩
  · rw [alwaysSafe_eq] at h; exact absurd h (by decide)
  · omega
  · omega
  · unfold hexU at h; split at h <;> omega

/-! ### splitting -/

theorem splitAt1_append (c : Nat) (l r : Bytes) (h : c ∉ l) : splitAt1 c (l ++ c :: r) = some (l, r) := by
  induction l with
  | nil => simp [splitAt1]
  | cons b l ih =>
    have hb : b ≠ c := fun e => h (e ▸ List.mem_cons_self ..)
    have hl : c ∉ l := fun m => h (List.mem_cons_of_mem _ m)
    simp [splitAt1, hb, ih hl]

theorem splitAt1_none (c : Nat) (l : Bytes) (h : c ∉ l) : splitAt1 c l = none := by
  induction l with
  | nil => rfl
  | cons b l ih =>
    have hb : b ≠ c := fun e => h (e ▸ List.mem_cons_self ..)
    have hl : c ∉ l := fun m => h (List.mem_cons_of_mem _ m)
    simp [splitAt1, hb, ih hl]

theorem splitOn_single (c : Nat) (l : Bytes) (h : c ∉ l) : splitOn c l = [l] := by
  induction l with
  | nil => rfl
  | cons b l ih =>
    have hb : b ≠ c := fun e => h (e ▸ List.mem_cons_self ..)
    have hl : c ∉ l := fun m => h (List.mem_cons_of_mem _ m)
    simp [splitOn, hb, ih hl]

theorem splitOn_append (c : Nat) (l r : Bytes) (h : c ∉ l) : splitOn c (l ++ c :: r) = l :: splitOn c r := by
  induction l with
  | nil => simp [splitOn]
  | cons b l ih =>
    have hb : b ≠ c := fun e => h (e ▸ List.mem_cons_self ..)
    have hl : c ∉ l := fun m => h (List.mem_cons_of_mem _ m)
    simp [splitOn, hb, ih hl]

theorem splitOn_joinAmp (segs : List Bytes) (hne : segs ≠ []) (h : ∀ s ∈ segs, 38 ∉ s) :
    splitOn 38 (joinAmp segs) = segs := by
  induction segs with
  | nil => exact absurd rfl hne
  | cons s rest ih =>
    cases rest with
    | nil => simp only [joinAmp]; exact splitOn_single _ _ (h s (List.mem_cons_self ..))
    | cons t rest =>
      simp only [joinAmp, List.append_assoc, List.singleton_append]
      rw [splitOn_append _ _ _ (h s (List.mem_cons_self ..))]
      rw [ih (by simp) (fun x hx => h x (List.mem_cons_of_mem _ hx))]

theorem joinAmp_eq_nil (segs : List Bytes) (h : ∀ s ∈ segs, s ≠ []) : joinAmp segs = [] → segs = [] := by
  intro e
  cases segs with
  | nil => rfl
  | cons s rest =>
    exfalso
    cases rest with
    | nil => simp only [joinAmp] at e; exact h s (List.mem_cons_self ..) e
    | cons t rest => simp [joinAmp] at e

/-- one packed `key=value` field decodes to the pair -/
theorem parseField_pack (k v : Bytes) (hk : ∀ b ∈ k, b < 256) (hv : ∀ b ∈ v, b < 256) :
    parseField (quotePlus k ++ [61] ++ quotePlus v) = (k, v) := by
  unfold parseField
  rw [List.append_assoc, List.singleton_append, splitAt1_append _ _ _ (quotePlus_no_eq k)]
  simp only [quotePlus]
  rw [unqPlus_quotePlusWith _ rfl rfl k hk, unqPlus_quotePlusWith _ rfl rfl v hv]


def BytesOk (l : Bytes) : Prop := ∀ b ∈ l, b < 256

def encField (kv : Bytes × Bytes) : Bytes := quotePlus kv.1 ++ [61] ++ quotePlus kv.2

theorem encField_no_amp (kv : Bytes × Bytes) : 38 ∉ encField kv := by
  unfold encField
  intro h
  simp only [List.append_assoc, List.mem_append, List.mem_singleton] at h
  rcases h with h | h | h
  · exact quotePlus_no_amp _ h
  · omega
  · exact quotePlus_no_amp _ h

theorem encField_ne_nil (kv : Bytes × Bytes) : encField kv ≠ [] := by
  unfold encField; simp

theorem parseQsl_packQs (qs : List (Bytes × Bytes)) (hb : ∀ kv ∈ qs, BytesOk kv.1 ∧ BytesOk kv.2) :
    parseQsl (packQs qs) = qs := by
  cases hq : qs with
  | nil => simp [packQs, joinAmp, parseQsl]
  | cons kv rest =>
    rw [← hq]
    have hne : qs.map encField ≠ [] := by rw [hq]; simp
    have hjoin : joinAmp (qs.map encField) ≠ [] := by
      intro e
      exact hne (joinAmp_eq_nil _ (by intro s hs; rcases List.mem_map.mp hs with ⟨kv, _, rfl⟩; exact encField_ne_nil kv) e)
    show parseQsl (joinAmp (qs.map encField)) = qs
    unfold parseQsl
    have : (joinAmp (qs.map encField)).isEmpty = false := by
      cases h : joinAmp (qs.map encField) with
      | nil => exact absurd h hjoin
      | cons _ _ => rfl
    rw [this]
    simp only [Bool.false_eq_true, ↓reduceIte]
    rw [splitOn_joinAmp _ hne (by intro s hs; rcases List.mem_map.mp hs with ⟨kv, _, rfl⟩; exact encField_no_amp kv)]
    have hfilter : (qs.map encField).filter (fun f => !f.isEmpty) = qs.map encField := by
      apply List.filter_eq_self.mpr
      intro s hs
      rcases List.mem_map.mp hs with ⟨kv, _, rfl⟩
      cases h : encField kv with
      | nil => exact absurd h (encField_ne_nil kv)
      | cons _ _ => rfl
    rw [hfilter, List.map_map]
    have : ∀ kv ∈ qs, (parseField ∘ encField) kv = kv := by
      intro kv hkv
      obtain ⟨h1, h2⟩ := hb kv hkv
      exact parseField_pack kv.1 kv.2 h1 h2
    calc qs.map (parseField ∘ encField) = qs.map id := List.map_congr_left this
      _ = qs := List.map_id _

/-! ### header lines -/

theorem split2_append (x y : Nat) (l r : Bytes) (h : x ∉ l) : split2 x y (l ++ x :: y :: r) = some (l, r) := by
  induction l with
  | nil => simp [split2]
  | cons b l ih =>
    have hb : b ≠ x := fun e => h (e ▸ List.mem_cons_self ..)
    have hl : x ∉ l := fun m => h (List.mem_cons_of_mem _ m)
    simp [split2, hb, ih hl]

theorem toLower_toLower (b : Nat) : toLower (toLower b) = toLower b := by
  unfold toLower isUpper; split <;> simp_all <;> omega

theorem toLower_toUpper (b : Nat) : toLower (toUpper b) = toLower b := by
  unfold toLower toUpper isUpper isLower
  by_cases h : (97 ≤ b && b ≤ 122) = true
  · simp only [h, ↓reduceIte]
    simp only [Bool.and_eq_true, decide_eq_true_eq] at h
    have h1 : (65 ≤ b - 32 && b - 32 ≤ 90) = true := by simp; omega
    have h2 : (65 ≤ b && b ≤ 90) = false := by simp; omega
    simp only [h1, h2, ↓reduceIte, Bool.false_eq_true]; omega
  · simp [h]

theorem lower_titleAux (p : Bool) (s : Bytes) : lower (titleAux p s) = lower s := by
  induction s generalizing p with
  | nil => rfl
  | cons b s ih =>
    unfold titleAux
    by_cases ha : isAlpha b = true
    · simp only [ha, ↓reduceIte, lower, List.map_cons]
      cases p
      · simp only [Bool.false_eq_true, ↓reduceIte, toLower_toUpper]; congr 1; exact ih true
      · simp only [↓reduceIte, toLower_toLower]; congr 1; exact ih true
    · simp only [ha, Bool.false_eq_true, ↓reduceIte, lower, List.map_cons]; congr 1; exact ih false

theorem lower_title (s : Bytes) : lower (title s) = lower s := lower_titleAux false s

theorem toUpper_ne_58 (b : Nat) (hb : b ≠ 58) : toUpper b ≠ 58 := by
  unfold toUpper isLower
  split
  · rename_i h; simp only [Bool.and_eq_true, decide_eq_true_eq] at h; omega
  · exact hb

theorem toLower_ne_58 (b : Nat) (hb : b ≠ 58) : toLower b ≠ 58 := by
  unfold toLower isUpper
  split
  · rename_i h; simp only [Bool.and_eq_true, decide_eq_true_eq] at h; omega
  · exact hb

theorem mem_titleAux_colon (p : Bool) (s : Bytes) (h : 58 ∉ s) : 58 ∉ titleAux p s := by
  induction s generalizing p with
  | nil => simp [titleAux]
  | cons b s ih =>
    have hb : b ≠ 58 := fun e => h (e ▸ List.mem_cons_self ..)
    have hs : 58 ∉ s := fun m => h (List.mem_cons_of_mem _ m)
    unfold titleAux
    by_cases ha : isAlpha b = true
    · simp only [ha, ↓reduceIte]
      intro hm
      rcases List.mem_cons.mp hm with e | hm
      · cases p
        · simp only [Bool.false_eq_true, ↓reduceIte] at e; exact toUpper_ne_58 b hb e.symm
        · simp only [↓reduceIte] at e; exact toLower_ne_58 b hb e.symm
      · exact ih true hs hm
    · simp only [ha, Bool.false_eq_true, ↓reduceIte]
      intro hm
      rcases List.mem_cons.mp hm with e | hm
      · exact hb e.symm
      · exact ih false hs hm

/-- a header line splits back into the (title-cased) name and the untouched value -/
theorem split_packHeader (n v : Bytes) (h : 58 ∉ n) : split2 58 32 (packHeader n v) = some (title n, v) := by
  unfold packHeader
  rw [List.append_assoc]
  exact split2_append 58 32 (title n) v (mem_titleAux_colon false n h)

end Hio.Http.Req

namespace Hio.Http.Req
open Hio.Http

/-! ### the request line -/

def NoWs (w : Bytes) : Prop := ∀ b ∈ w, isWs b = false

theorem wordsAux_word (w rest cur : Bytes) (h : NoWs w) : wordsAux (w ++ rest) cur = wordsAux rest (w.reverse ++ cur) := by
  induction w generalizing cur with
  | nil => rfl
  | cons b w ih =>
    have hb : isWs b = false := h b (List.mem_cons_self ..)
    simp only [List.cons_append, wordsAux, hb, Bool.false_eq_true, ↓reduceIte]
    rw [ih (fun x hx => h x (List.mem_cons_of_mem _ hx))]
    simp

theorem words_three (a b c : Bytes) (ha : NoWs a) (hb : NoWs b) (hc : NoWs c) (hae : a ≠ []) (hbe : b ≠ []) (hce : c ≠ []) :
    words (a ++ [32] ++ b ++ [32] ++ c) = [a, b, c] := by
  have hrev : ∀ x : Bytes, x ≠ [] → (x.reverse ++ ([] : Bytes)).isEmpty = false := by
    intro x hx; cases x with | nil => exact absurd rfl hx | cons _ _ => simp
  unfold words
  rw [List.append_assoc, List.append_assoc, List.append_assoc, wordsAux_word a _ [] ha]
  have hsp : isWs 32 = true := by decide
  simp only [List.singleton_append, wordsAux, hsp, ↓reduceIte, hrev a hae, Bool.false_eq_true, List.append_nil, List.reverse_reverse]
  rw [wordsAux_word b _ [] hb]
  simp only [wordsAux, hsp, ↓reduceIte, hrev b hbe, Bool.false_eq_true, List.append_nil, List.reverse_reverse]
  have := wordsAux_word c [] [] hc
  rw [List.append_nil] at this
  rw [this]
  simp only [wordsAux, hrev c hce, Bool.false_eq_true, ↓reduceIte, List.append_nil, List.reverse_reverse]

end Hio.Http.Req
