import HioModel.Req.Model
import HioModel.TextLemmas
/-! helper lemmas for C14 (urllib.parse byte level round trips, query packing, header lines) -/
namespace Hio.Http.Req
open Hio.Http

theorem unq_cons_ne (c : Nat) (rest : Bytes) (h : c ≠ 37) : unq (c :: rest) = c :: unq rest := by
  match rest with
  | [] => simp [unq]
  | [d] => simp [unq]
  | a :: b :: r => simp [unq, h]

theorem unq_pct (a b x y : Nat) (rest : Bytes) (ha : hexVal a = some x) (hb : hexVal b = some y) :
    unq (37 :: a :: b :: rest) = (16 * x + y) :: unq rest := by
  simp [unq, ha, hb]

theorem hexVal_hexU (d : Nat) (h : d < 16) : hexVal (hexU d) = some d := by
  have : d = 0 ∨ d = 1 ∨ d = 2 ∨ d = 3 ∨ d = 4 ∨ d = 5 ∨ d = 6 ∨ d = 7 ∨ d = 8 ∨ d = 9 ∨ d = 10 ∨ d = 11 ∨
      d = 12 ∨ d = 13 ∨ d = 14 ∨ d = 15 := by omega
  rcases this with h | h | h | h | h | h | h | h | h | h | h | h | h | h | h | h <;> subst h <;> decide

/-- `unquote_to_bytes(quote_from_bytes(bs, safe)) == bs` for every byte string and every safe set without `%` -/
theorem unq_quoteWith (safe : Nat → Bool) (hs : safe 37 = false) (bs : Bytes) (hb : ∀ b ∈ bs, b < 256) :
    unq (quoteWith safe bs) = bs := by
  induction bs with
  | nil => simp [quoteWith, unq]
  | cons b bs ih =>
    have hb' : ∀ x ∈ bs, x < 256 := fun x hx => hb x (List.mem_cons_of_mem _ hx)
    have hlt : b < 256 := hb b (List.mem_cons_self ..)
    simp only [quoteWith]
    by_cases hsafe : safe b = true
    · have hne : b ≠ 37 := by intro e; rw [e, hs] at hsafe; exact absurd hsafe (by decide)
      simp only [hsafe, ↓reduceIte, List.singleton_append]
      rw [unq_cons_ne _ _ hne, ih hb']
    · simp only [hsafe, pct, Bool.false_eq_true, ↓reduceIte, List.cons_append, List.nil_append]
      rw [unq_pct _ _ (b / 16) (b % 16) _ (hexVal_hexU _ (by omega)) (hexVal_hexU _ (by omega)), ih hb']
      congr 1
      omega


/-! ### facts about the regenerated always-safe table (re-checked whenever the stdlib table changes) -/

theorem alwaysSafe_pct : alwaysSafe 37 = false := by decide
theorem alwaysSafe_plus : alwaysSafe 43 = false := by decide
theorem alwaysSafe_amp : alwaysSafe 38 = false := by decide
theorem alwaysSafe_eq : alwaysSafe 61 = false := by decide
theorem alwaysSafe_space : alwaysSafe 32 = false := by decide

theorem hexU_ge (d : Nat) : 48 ≤ hexU d := by unfold hexU; split <;> omega

/-- every byte `quote` emits is a safe byte, `%`, or an upper-case hex digit character (`≥ 48`) -/
theorem mem_quoteWith (safe : Nat → Bool) (bs : Bytes) (c : Nat) (h : c ∈ quoteWith safe bs) :
    safe c = true ∨ c = 37 ∨ ∃ d, c = hexU d := by
  induction bs with
  | nil => simp [quoteWith] at h
  | cons b bs ih =>
    simp only [quoteWith, List.mem_append] at h
    rcases h with h | h
    · by_cases hsafe : safe b = true
      · simp only [hsafe, ↓reduceIte, List.mem_singleton] at h; subst h; exact Or.inl hsafe
      · simp only [hsafe, pct, Bool.false_eq_true, ↓reduceIte, List.mem_cons, List.not_mem_nil, or_false] at h
        rcases h with h | h | h
        · exact Or.inr (Or.inl h)
        · exact Or.inr (Or.inr ⟨_, h⟩)
        · exact Or.inr (Or.inr ⟨_, h⟩)
    · exact ih h

theorem space_plus_inv (l : Bytes) (h : 43 ∉ l) : (l.map plusOfSpace).map spaceOfPlus = l := by
  induction l with
  | nil => rfl
  | cons c l ih =>
    have hc : c ≠ 43 := fun e => h (e ▸ List.mem_cons_self ..)
    have hl : 43 ∉ l := fun m => h (List.mem_cons_of_mem _ m)
    simp only [List.map_cons, ih hl]
    congr 1
    unfold plusOfSpace spaceOfPlus
    by_cases h32 : c = 32
    · simp [h32]
    · simp [h32, hc]

/-- `unquote_plus(quote_plus(bs, safe=extra)) == bs` for every byte string, as long as `%` and `+` are not declared safe -/
theorem unqPlus_quotePlusWith (extra : Nat → Bool) (h37 : extra 37 = false) (h43 : extra 43 = false)
    (bs : Bytes) (hb : ∀ b ∈ bs, b < 256) : unqPlus (quotePlusWith extra bs) = bs := by
  unfold unqPlus quotePlusWith
  have hno : 43 ∉ quoteWith (fun b => alwaysSafe b || extra b || b == 32) bs := by
    intro hm
    rcases mem_quoteWith _ _ _ hm with h | h | ⟨d, h⟩
    · simp [alwaysSafe_plus, h43] at h
    · omega
    · have := hexU_ge d; omega
  rw [space_plus_inv _ hno]
  exact unq_quoteWith _ (by simp [alwaysSafe_pct, h37]) bs hb

/-- bytes of a `quote_plus` result: never `&`, `=`, nor anything that is not always-safe / `+` / `%` / hex -/
theorem mem_quotePlus (bs : Bytes) (c : Nat) (h : c ∈ quotePlus bs) :
    alwaysSafe c = true ∨ c = 43 ∨ c = 37 ∨ ∃ d, c = hexU d := by
  unfold quotePlus quotePlusWith at h
  rcases List.mem_map.mp h with ⟨x, hx, rfl⟩
  unfold plusOfSpace
  by_cases h32 : x = 32
  · simp [h32]
  · simp only [h32, ↓reduceIte]
    rcases mem_quoteWith _ _ _ hx with h | h | h
    · simp only [Bool.or_eq_true, beq_iff_eq] at h
      rcases h with (h | h) | h
      · exact Or.inl h
      · exact absurd h (by decide)
      · exact absurd h h32
    · exact Or.inr (Or.inr (Or.inl h))
    · exact Or.inr (Or.inr (Or.inr h))

theorem quotePlus_no_amp (bs : Bytes) : 38 ∉ quotePlus bs := by
  intro h
  rcases mem_quotePlus _ _ h with h | h | h | ⟨d, h⟩
  · rw [alwaysSafe_amp] at h; exact absurd h (by decide)
  · omega
  · omega
  · have := hexU_ge d; omega

theorem quotePlus_no_eq (bs : Bytes) : 61 ∉ quotePlus bs := by
  intro h
  rcases mem_quotePlus _ _ h with h | h | h | ⟨d, h⟩
  · rw [alwaysSafe_eq] at h; exact absurd h (by decide)
  · omega
  · omega
  · unfold hexU at h; split at h <;> omega

/-! ### splitting -/

theorem splitAt1_append (c : Nat) (l r : Bytes) (h : c ∉ l) : splitAt1 c (l ++ c :: r) = some (l, r) := by
  induction l with
  | nil => simp [splitAt1]
  | cons b l ih =>
    have hb : b ≠ c := fun e => h (e ▸ List.mem_cons_self ..)
    have hl : c ∉ l := fun m => h (List.mem_cons_of_mem _ m)
    simp [splitAt1, hb, ih hl]

theorem splitAt1_none (c : Nat) (l : Bytes) (h : c ∉ l) : splitAt1 c l = none := by
  induction l with
  | nil => rfl
  | cons b l ih =>
    have hb : b ≠ c := fun e => h (e ▸ List.mem_cons_self ..)
    have hl : c ∉ l := fun m => h (List.mem_cons_of_mem _ m)
    simp [splitAt1, hb, ih hl]

theorem splitOn_single (c : Nat) (l : Bytes) (h : c ∉ l) : splitOn c l = [l] := by
  induction l with
  | nil => rfl
  | cons b l ih =>
    have hb : b ≠ c := fun e => h (e ▸ List.mem_cons_self ..)
    have hl : c ∉ l := fun m => h (List.mem_cons_of_mem _ m)
    simp [splitOn, hb, ih hl]

theorem splitOn_append (c : Nat) (l r : Bytes) (h : c ∉ l) : splitOn c (l ++ c :: r) = l :: splitOn c r := by
  induction l with
  | nil => simp [splitOn]
  | cons b l ih =>
    have hb : b ≠ c := fun e => h (e ▸ List.mem_cons_self ..)
    have hl : c ∉ l := fun m => h (List.mem_cons_of_mem _ m)
    simp [splitOn, hb, ih hl]

theorem splitOn_joinAmp (segs : List Bytes) (hne : segs ≠ []) (h : ∀ s ∈ segs, 38 ∉ s) :
    splitOn 38 (joinAmp segs) = segs := by
  induction segs with
  | nil => exact absurd rfl hne
  | cons s rest ih =>
    cases rest with
    | nil => simp only [joinAmp]; exact splitOn_single _ _ (h s (List.mem_cons_self ..))
    | cons t rest =>
      simp only [joinAmp, List.append_assoc, List.singleton_append]
      rw [splitOn_append _ _ _ (h s (List.mem_cons_self ..))]
      rw [ih (by simp) (fun x hx => h x (List.mem_cons_of_mem _ hx))]

theorem joinAmp_eq_nil (segs : List Bytes) (h : ∀ s ∈ segs, s ≠ []) : joinAmp segs = [] → segs = [] := by
  intro e
  cases segs with
  | nil => rfl
  | cons s rest =>
    exfalso
    cases rest with
    | nil => simp only [joinAmp] at e; exact h s (List.mem_cons_self ..) e
    | cons t rest => simp [joinAmp] at e

/-- one packed `key=value` field decodes to the pair -/
theorem parseField_pack (k v : Bytes) (hk : ∀ b ∈ k, b < 256) (hv : ∀ b ∈ v, b < 256) :
    parseField (quotePlus k ++ [61] ++ quotePlus v) = (k, v) := by
  unfold parseField
  rw [List.append_assoc, List.singleton_append, splitAt1_append _ _ _ (quotePlus_no_eq k)]
  simp only [quotePlus]
  rw [unqPlus_quotePlusWith _ rfl rfl k hk, unqPlus_quotePlusWith _ rfl rfl v hv]


def BytesOk (l : Bytes) : Prop := ∀ b ∈ l, b < 256

def encField (kv : Bytes × Bytes) : Bytes := quotePlus kv.1 ++ [61] ++ quotePlus kv.2

theorem encField_no_amp (kv : Bytes × Bytes) : 38 ∉ encField kv := by
  unfold encField
  intro h
  simp only [List.append_assoc, List.mem_append, List.mem_singleton] at h
  rcases h with h | h | h
  · exact quotePlus_no_amp _ h
  · omega
  · exact quotePlus_no_amp _ h

theorem encField_ne_nil (kv : Bytes × Bytes) : encField kv ≠ [] := by
  unfold encField; simp

theorem parseQsl_packQs (qs : List (Bytes × Bytes)) (hb : ∀ kv ∈ qs, BytesOk kv.1 ∧ BytesOk kv.2) :
    parseQsl (packQs qs) = qs := by
  cases hq : qs with
  | nil => simp [packQs, joinAmp, parseQsl]
  | cons kv rest =>
    rw [← hq]
    have hne : qs.map encField ≠ [] := by rw [hq]; simp
    have hjoin : joinAmp (qs.map encField) ≠ [] := by
      intro e
      exact hne (joinAmp_eq_nil _ (by intro s hs; rcases List.mem_map.mp hs with ⟨kv, _, rfl⟩; exact encField_ne_nil kv) e)
    show parseQsl (joinAmp (qs.map encField)) = qs
    unfold parseQsl
    have : (joinAmp (qs.map encField)).isEmpty = false := by
      cases h : joinAmp (qs.map encField) with
      | nil => exact absurd h hjoin
      | cons _ _ => rfl
    rw [this]
    simp only [Bool.false_eq_true, ↓reduceIte]
    rw [splitOn_joinAmp _ hne (by intro s hs; rcases List.mem_map.mp hs with ⟨kv, _, rfl⟩; exact encField_no_amp kv)]
    have hfilter : (qs.map encField).filter (fun f => !f.isEmpty) = qs.map encField := by
      apply List.filter_eq_self.mpr
      intro s hs
      rcases List.mem_map.mp hs with ⟨kv, _, rfl⟩
      cases h : encField kv with
      | nil => exact absurd h (encField_ne_nil kv)
      | cons _ _ => rfl
    rw [hfilter, List.map_map]
    have : ∀ kv ∈ qs, (parseField ∘ encField) kv = kv := by
      intro kv hkv
      obtain ⟨h1, h2⟩ := hb kv hkv
      exact parseField_pack kv.1 kv.2 h1 h2
    calc qs.map (parseField ∘ encField) = qs.map id := List.map_congr_left this
      _ = qs := List.map_id _

/-! ### header lines -/

theorem split2_append (x y : Nat) (l r : Bytes) (h : x ∉ l) : split2 x y (l ++ x :: y :: r) = some (l, r) := by
  induction l with
  | nil => simp [split2]
  | cons b l ih =>
    have hb : b ≠ x := fun e => h (e ▸ List.mem_cons_self ..)
    have hl : x ∉ l := fun m => h (List.mem_cons_of_mem _ m)
    simp [split2, hb, ih hl]

theorem toLower_toLower (b : Nat) : toLower (toLower b) = toLower b := by
  unfold toLower isUpper; split <;> simp_all <;> omega

theorem toLower_toUpper (b : Nat) : toLower (toUpper b) = toLower b := by
  unfold toLower toUpper isUpper isLower
  by_cases h : (97 ≤ b && b ≤ 122) = true
  · simp only [h, ↓reduceIte]
    simp only [Bool.and_eq_true, decide_eq_true_eq] at h
    have h1 : (65 ≤ b - 32 && b - 32 ≤ 90) = true := by simp; omega
    have h2 : (65 ≤ b && b ≤ 90) = false := by simp; omega
    simp only [h1, h2, ↓reduceIte, Bool.false_eq_true]; omega
  · simp [h]

theorem lower_titleAux (p : Bool) (s : Bytes) : lower (titleAux p s) = lower s := by
  induction s generalizing p with
  | nil => rfl
  | cons b s ih =>
    unfold titleAux
    by_cases ha : isAlpha b = true
    · simp only [ha, ↓reduceIte, lower, List.map_cons]
      cases p
      · simp only [Bool.false_eq_true, ↓reduceIte, toLower_toUpper]; congr 1; exact ih true
      · simp only [↓reduceIte, toLower_toLower]; congr 1; exact ih true
    · simp only [ha, Bool.false_eq_true, ↓reduceIte, lower, List.map_cons]; congr 1; exact ih false

theorem lower_title (s : Bytes) : lower (title s) = lower s := lower_titleAux false s

theorem toUpper_ne_58 (b : Nat) (hb : b ≠ 58) : toUpper b ≠ 58 := by
  unfold toUpper isLower
  split
  · rename_i h; simp only [Bool.and_eq_true, decide_eq_true_eq] at h; omega
  · exact hb

theorem toLower_ne_58 (b : Nat) (hb : b ≠ 58) : toLower b ≠ 58 := by
  unfold toLower isUpper
  split
  · rename_i h; simp only [Bool.and_eq_true, decide_eq_true_eq] at h; omega
  · exact hb

theorem mem_titleAux_colon (p : Bool) (s : Bytes) (h : 58 ∉ s) : 58 ∉ titleAux p s := by
  induction s generalizing p with
  | nil => simp [titleAux]
  | cons b s ih =>
    have hb : b ≠ 58 := fun e => h (e ▸ List.mem_cons_self ..)
    have hs : 58 ∉ s := fun m => h (List.mem_cons_of_mem _ m)
    unfold titleAux
    by_cases ha : isAlpha b = true
    · simp only [ha, ↓reduceIte]
      intro hm
      rcases List.mem_cons.mp hm with e | hm
      · cases p
        · simp only [Bool.false_eq_true, ↓reduceIte] at e; exact toUpper_ne_58 b hb e.symm
        · simp only [↓reduceIte] at e; exact toLower_ne_58 b hb e.symm
      · exact ih true hs hm
    · simp only [ha, Bool.false_eq_true, ↓reduceIte]
      intro hm
      rcases List.mem_cons.mp hm with e | hm
      · exact hb e.symm
      · exact ih false hs hm

/-- a header line splits back into the (title-cased) name and the untouched value -/
theorem split_packHeader (n v : Bytes) (h : 58 ∉ n) : split2 58 32 (packHeader n v) = some (title n, v) := by
  unfold packHeader
  rw [List.append_assoc]
  exact split2_append 58 32 (title n) v (mem_titleAux_colon false n h)

end Hio.Http.Req

namespace Hio.Http.Req
open Hio.Http

/-! ### the request line -/

def NoWs (w : Bytes) : Prop := ∀ b ∈ w, isWs b = false

theorem wordsAux_word (w rest cur : Bytes) (h : NoWs w) : wordsAux (w ++ rest) cur = wordsAux rest (w.reverse ++ cur) := by
  induction w generalizing cur with
  | nil => rfl
  | cons b w ih =>
    have hb : isWs b = false := h b (List.mem_cons_self ..)
    simp only [List.cons_append, wordsAux, hb, Bool.false_eq_true, ↓reduceIte]
    rw [ih _ (fun x hx => h x (List.mem_cons_of_mem _ hx))]
    simp

theorem words_three (a b c : Bytes) (ha : NoWs a) (hb : NoWs b) (hc : NoWs c) (hae : a ≠ []) (hbe : b ≠ []) (hce : c ≠ []) :
    words (a ++ [32] ++ b ++ [32] ++ c) = [a, b, c] := by
  have hrev : ∀ x : Bytes, x ≠ [] → x.reverse.isEmpty = false := by
    intro x hx; cases x with | nil => exact absurd rfl hx | cons _ _ => simp
  unfold words
  rw [List.append_assoc, List.append_assoc, List.append_assoc, wordsAux_word a _ [] ha]
  have hsp : isWs 32 = true := by decide
  simp only [List.singleton_append, wordsAux, hsp, ↓reduceIte, List.append_nil, List.reverse_reverse]
  rw [wordsAux_word b _ [] hb]
  simp only [wordsAux, hsp, ↓reduceIte, List.append_nil, List.reverse_reverse]
  have := wordsAux_word c [] [] hc
  rw [List.append_nil] at this
  rw [this]
  simp only [wordsAux, List.append_nil, List.reverse_reverse, hrev a hae, hrev b hbe, hrev c hce, Bool.false_eq_true, ↓reduceIte]

end Hio.Http.Req

namespace Hio.Http.Req
open Hio.Http

theorem takeLine_crlf (l rest : Bytes) (h : 10 ∉ l) : takeLine (l ++ crlf ++ rest) = some (l, rest) := by
  unfold takeLine
  have : l ++ crlf ++ rest = l ++ 13 :: 10 :: rest := by simp [crlf]
  rw [this, split2_crlf l rest h]

theorem lower_lower (s : Bytes) : lower (lower s) = lower s := by
  unfold lower; rw [List.map_map]; congr 1; funext b; exact toLower_toLower b

def lowered (hs : Headers) : Headers := hs.map (fun h => (lower h.1, h.2))

theorem hasKey_lowered_append (k : Bytes) (acc : Headers) (n v : Bytes) :
    hasKey k (acc ++ [(lower n, v)]) = (hasKey k acc || (lower n == k)) := by
  simp [hasKey, List.any_append, lower_lower]

/-- `parseLeader` over header lines with pairwise different names: every line becomes one entry, in order -/
theorem parseLeader_lines (hs : Headers) (acc : Headers) (body : Bytes) (fuel : Nat) (hf : hs.length < fuel)
    (hn : ∀ h ∈ hs, 10 ∉ h.1 ∧ 58 ∉ h.1) (hv : ∀ h ∈ hs, 10 ∉ h.2)
    (hd : ∀ h ∈ hs, hasKey (lower h.1) acc = false) (hnd : (hs.map (fun h => lower h.1)).Nodup)
    (few : acc.length + hs.length ≤ Gen.maxHeaders)
    (short : ∀ h ∈ hs, (packHeader h.1 h.2).length ≤ Gen.maxLineSize) :
    parseLeader fuel ((hs.map (fun h => packHeader h.1 h.2)).flatMap (· ++ crlf) ++ crlf ++ body) acc =
      .ok (acc ++ lowered hs, body) := by
  induction hs generalizing acc fuel with
  | nil =>
    cases fuel with
    | zero => omega
    | succ f =>
      simp only [List.map_nil, List.flatMap_nil, List.nil_append, parseLeader, lowered, List.append_nil]
      have := takeLine_crlf [] body (by simp)
      rw [List.nil_append] at this
      rw [this]
      have h0 : ¬ (([] : Bytes).length > Gen.maxLineSize) := by simp
      simp [h0]
  | cons h hs ih =>
    cases fuel with
    | zero => omega
    | succ f =>
      obtain ⟨hn1, hn2⟩ := hn h (List.mem_cons_self ..)
      have hshort : ¬ ((packHeader h.1 h.2).length > Gen.maxLineSize) := by
        have := short h (List.mem_cons_self ..); omega
      have hv1 := hv h (List.mem_cons_self ..)
      have hline : 10 ∉ packHeader h.1 h.2 := by
        unfold packHeader
        intro hm
        rcases List.mem_append.mp hm with hm | hm
        · rcases List.mem_append.mp hm with hm | hm
          · exact not_mem_title 10 (by omega) _ hn1 hm
          · simp at hm
        · exact hv1 hm
      simp only [List.map_cons, List.flatMap_cons, List.append_assoc, parseLeader]
      rw [← List.append_assoc (packHeader h.1 h.2) crlf, takeLine_crlf _ _ hline]
      have hne : (packHeader h.1 h.2).isEmpty = false := by simp [packHeader]
      simp only [hshort, hne, Bool.false_eq_true, ↓reduceIte]
      rw [split_packHeader _ _ hn2]
      simp only [lower_title]
      have hk := hd h (List.mem_cons_self ..)
      rw [setKey_of_not_hasKey _ _ _ hk]
      have few' : acc.length + (hs.length + 1) ≤ Gen.maxHeaders := by simpa using few
      have hlen : ¬ (acc ++ [(lower h.1, h.2)]).length > Gen.maxHeaders := by
        simp only [List.length_append, List.length_cons, List.length_nil]; omega
      rw [if_neg hlen]
      have hnd' := List.nodup_cons.mp hnd
      have := ih (acc ++ [(lower h.1, h.2)]) f (by simp at hf; omega)
        (fun x hx => hn x (List.mem_cons_of_mem _ hx)) (fun x hx => hv x (List.mem_cons_of_mem _ hx))
        (by
          intro x hx
          rw [hasKey_lowered_append, hd x (List.mem_cons_of_mem _ hx), Bool.false_or]
          have : lower h.1 ≠ lower x.1 := by
            intro e; exact hnd'.1 (List.mem_map.mpr ⟨x, hx, e.symm⟩)
          simpa using this)
        hnd'.2 (by simp only [List.length_append, List.length_cons, List.length_nil]; omega)
        (fun x hx => short x (List.mem_cons_of_mem _ hx))
      rw [List.append_assoc] at this
      rw [this]
      simp [lowered]

end Hio.Http.Req

namespace Hio.Http.Req
open Hio.Http

/-! ### the request target -/

theorem alwaysSafe_table : ∀ c ∈ Gen.alwaysSafe, isWs c = false ∧ c ≠ 63 ∧ c ≠ 35 ∧ c ≠ 10 ∧ c ≠ 47 := by decide

theorem alwaysSafe_mem (c : Nat) (h : alwaysSafe c = true) : c ∈ Gen.alwaysSafe := by
  unfold alwaysSafe at h; exact List.contains_iff_mem.mp h

def HexByte (c : Nat) : Prop := (48 ≤ c ∧ c ≤ 57) ∨ (65 ≤ c ∧ c ≤ 70)

theorem hexU_range (d : Nat) (h : d < 16) : HexByte (hexU d) := by
  unfold hexU HexByte; split <;> omega

/-- bytes of a quoted string: safe ones, `%`, hex digit characters -/
theorem quoteWith_chars (safe : Nat → Bool) (bs : Bytes) (hb : BytesOk bs) (c : Nat) (h : c ∈ quoteWith safe bs) :
    safe c = true ∨ c = 37 ∨ HexByte c := by
  induction bs with
  | nil => simp [quoteWith] at h
  | cons b bs ih =>
    have hlt : b < 256 := hb b (List.mem_cons_self ..)
    simp only [quoteWith, List.mem_append] at h
    rcases h with h | h
    · by_cases hsafe : safe b = true
      · simp only [hsafe, ↓reduceIte, List.mem_singleton] at h; subst h; exact Or.inl hsafe
      · simp only [hsafe, pct, Bool.false_eq_true, ↓reduceIte, List.mem_cons, List.not_mem_nil, or_false] at h
        rcases h with h | h | h
        · exact Or.inr (Or.inl h)
        · subst h; exact Or.inr (Or.inr (hexU_range _ (by omega)))
        · subst h; exact Or.inr (Or.inr (hexU_range _ (by omega)))
    · exact ih (fun x hx => hb x (List.mem_cons_of_mem _ hx)) h

/-- a byte that may appear in a request target built by the client -/
def TargetByte (c : Nat) : Prop := isWs c = false ∧ c ≠ 35 ∧ c ≠ 10

theorem targetByte_of_quote (c : Nat) (h : (alwaysSafe c || c == 47) = true ∨ c = 37 ∨ HexByte c) : TargetByte c ∧ c ≠ 63 := by
  rcases h with h | h | h
  · simp only [Bool.or_eq_true, beq_iff_eq] at h
    rcases h with h | h
    · have := alwaysSafe_table c (alwaysSafe_mem c h)
      exact ⟨⟨this.1, this.2.2.1, this.2.2.2.1⟩, this.2.1⟩
    · subst h; exact ⟨⟨by decide, by decide, by decide⟩, by decide⟩
  · subst h; exact ⟨⟨by decide, by decide, by decide⟩, by decide⟩
  · unfold HexByte at h
    have hw : isWs c = false := by
      unfold isWs
      simp only [Bool.or_eq_false_iff, Bool.and_eq_false_iff, decide_eq_false_iff_not, beq_eq_false_iff_ne, ne_eq]
      omega
    have e1 : c ≠ 35 := by omega
    have e2 : c ≠ 10 := by omega
    have e3 : c ≠ 63 := by omega
    exact ⟨⟨hw, e1, e2⟩, e3⟩

theorem quote_targetBytes (p : Bytes) (hb : BytesOk p) : ∀ c ∈ quote p, TargetByte c ∧ c ≠ 63 := by
  intro c hc
  exact targetByte_of_quote c (quoteWith_chars _ p hb c hc)

theorem quotePlus_targetBytes (bs : Bytes) (hb : BytesOk bs) : ∀ c ∈ quotePlus bs, TargetByte c := by
  intro c hc
  unfold quotePlus quotePlusWith at hc
  rcases List.mem_map.mp hc with ⟨x, hx, rfl⟩
  unfold plusOfSpace
  by_cases h32 : x = 32
  · simp only [h32, ↓reduceIte]; exact ⟨by decide, by decide, by decide⟩
  · simp only [h32, ↓reduceIte]
    rcases quoteWith_chars _ bs hb x hx with h | h | h
    · simp only [Bool.or_false, Bool.or_eq_true, beq_iff_eq] at h
      rcases h with h | h
      · have := alwaysSafe_table x (alwaysSafe_mem x h)
        exact ⟨this.1, this.2.2.1, this.2.2.2.1⟩
      · exact absurd h h32
    · exact (targetByte_of_quote x (Or.inr (Or.inl h))).1
    · exact (targetByte_of_quote x (Or.inr (Or.inr h))).1

theorem joinAmp_mem (segs : List Bytes) (c : Nat) (h : c ∈ joinAmp segs) : c = 38 ∨ ∃ s ∈ segs, c ∈ s := by
  induction segs with
  | nil => simp [joinAmp] at h
  | cons s rest ih =>
    cases rest with
    | nil => simp only [joinAmp] at h; exact Or.inr ⟨s, List.mem_cons_self .., h⟩
    | cons t rest =>
      simp only [joinAmp, List.append_assoc, List.mem_append, List.mem_singleton] at h
      rcases h with h | h | h
      · exact Or.inr ⟨s, List.mem_cons_self .., h⟩
      · exact Or.inl h
      · rcases ih h with h | ⟨x, hx, hc⟩
        · exact Or.inl h
        · exact Or.inr ⟨x, List.mem_cons_of_mem _ hx, hc⟩

theorem packQs_targetBytes (qs : List (Bytes × Bytes)) (hb : ∀ kv ∈ qs, BytesOk kv.1 ∧ BytesOk kv.2) :
    ∀ c ∈ packQs qs, TargetByte c := by
  intro c hc
  rcases joinAmp_mem _ c hc with h | ⟨s, hs, hcs⟩
  · subst h; exact ⟨by decide, by decide, by decide⟩
  · rcases List.mem_map.mp hs with ⟨kv, hkv, rfl⟩
    simp only [List.append_assoc, List.mem_append, List.mem_singleton] at hcs
    rcases hcs with h | h | h
    · exact quotePlus_targetBytes _ (hb kv hkv).1 c h
    · subst h; exact ⟨by decide, by decide, by decide⟩
    · exact quotePlus_targetBytes _ (hb kv hkv).2 c h

/-- the request target `Requester.build` writes -/
def target (p : Bytes) (qs : List (Bytes × Bytes)) : Bytes :=
  quote p ++ (if (packQs qs).isEmpty then [] else 63 :: packQs qs)

theorem target_bytes (p : Bytes) (qs : List (Bytes × Bytes)) (hp : BytesOk p) (hb : ∀ kv ∈ qs, BytesOk kv.1 ∧ BytesOk kv.2) :
    ∀ c ∈ target p qs, TargetByte c := by
  intro c hc
  unfold target at hc
  rcases List.mem_append.mp hc with h | h
  · exact (quote_targetBytes p hp c h).1
  · split at h
    · simp at h
    · rcases List.mem_cons.mp h with h | h
      · subst h; exact ⟨by decide, by decide, by decide⟩
      · exact packQs_targetBytes qs hb c h

theorem splitTarget_target (p : Bytes) (qs : List (Bytes × Bytes)) (hok : pathOk p = true) (hp : BytesOk p)
    (hb : ∀ kv ∈ qs, BytesOk kv.1 ∧ BytesOk kv.2) :
    splitTarget (target p qs) = .ok (quote p, packQs qs) := by
  -- shape of the path
  unfold pathOk at hok
  simp only [Bool.and_eq_true, beq_iff_eq, bne_iff_ne, ne_eq, Bool.not_eq_true'] at hok
  obtain ⟨⟨⟨h1, h2⟩, _⟩, _⟩ := hok
  obtain ⟨p', rfl⟩ : ∃ p', p = 47 :: p' := by
    cases p with
    | nil => simp at h1
    | cons a p' => simp only [List.head?_cons, Option.some.injEq] at h1; exact ⟨p', by rw [h1]⟩
  have hq47 : quote (47 :: p') = 47 :: quote p' := by
    have : alwaysSafe 47 = false := by decide
    simp [quote, quoteWith, this]
  have hno35 : 35 ∉ target (47 :: p') qs := fun hm => (target_bytes _ qs hp hb 35 hm).2.1 rfl
  have hno63 : 63 ∉ quote (47 :: p') := fun hm => (quote_targetBytes _ hp 63 hm).2 rfl
  have hsecond : ((target (47 :: p') qs).drop 1).head? ≠ some 47 := by
    unfold target
    rw [hq47]
    simp only [List.cons_append, List.drop_succ_cons, List.drop_zero]
    cases p' with
    | nil =>
      simp only [quote, quoteWith, List.nil_append]
      split <;> simp
    | cons c p'' =>
      simp only [List.drop_succ_cons, List.drop_zero, List.head?_cons] at h2
      have hc : c ≠ 47 := fun e => h2 (by rw [e])
      simp only [quote, quoteWith]
      split
      · simp [hc]
      · simp [pct]
  unfold splitTarget
  have hhead : (target (47 :: p') qs).head? = some 47 := by unfold target; rw [hq47]; rfl
  simp only [hhead, bne_self_eq_false, Bool.false_or]
  have : (((target (47 :: p') qs).drop 1).head? == some 47) = false := by simpa using hsecond
  rw [this]
  simp only [Bool.false_eq_true, ↓reduceIte]
  rw [splitAt1_none 35 _ hno35]
  simp only []
  unfold target
  by_cases hq : (packQs qs).isEmpty = true
  · have hqe : packQs qs = [] := List.isEmpty_iff.mp hq
    rw [hqe]
    simp only [List.isEmpty_nil, ↓reduceIte, List.append_nil, splitAt1_none 63 _ hno63]
  · simp only [hq, Bool.false_eq_true, ↓reduceIte]
    rw [splitAt1_append 63 _ _ hno63]

end Hio.Http.Req

namespace Hio.Http.Req
open Hio.Http

/-! ### the whole request on the server -/

theorem methods_table : ∀ m ∈ Gen.methods, m ≠ [] ∧ ∀ b ∈ m, isWs b = false ∧ b ≠ 10 := by decide

theorem version_facts : startsWith (lit "HTTP/") Gen.requestVersion = true ∧ startsWith (lit "HTTP/1.") Gen.requestVersion = true ∧
    Gen.requestVersion ≠ [] ∧ ∀ b ∈ Gen.requestVersion, isWs b = false ∧ b ≠ 10 := by decide

theorem getKey_lowered (k : Bytes) (hs : Headers) : getKey k (lowered hs) = getKey k hs := by
  induction hs with
  | nil => rfl
  | cons h hs ih => simp only [lowered, List.map_cons, getKey, lower_lower] at ih ⊢; rw [ih]

theorem flatMap_crlf_length (xs : List Bytes) : xs.length ≤ (xs.flatMap (· ++ crlf)).length := by
  induction xs with
  | nil => simp
  | cons x xs ih =>
    have h2 : (x ++ crlf).length = x.length + 2 := by simp [crlf]
    rw [List.flatMap_cons, List.length_append, h2, List.length_cons]; omega

theorem unquote_path (p : Bytes) (h : BytesOk p) : unq (quote p) = p :=
  unq_quoteWith _ (by simp [alwaysSafe_pct]) p h

/-- a Content-Length field, when present, states the length of the body; without one the body is empty -/
def LengthOk (hs : Headers) (body : Bytes) : Prop :=
  match getKey (lit "content-length") hs with
  | none => body = []
  | some v => v = toDec body.length

instance (hs : Headers) (body : Bytes) : Decidable (LengthOk hs body) := by
  unfold LengthOk; split <;> infer_instance

/-- what the wire must look like for the server to recover `(m, p, qs, hs, body)` -/
structure WireOk (m p : Bytes) (qs : List (Bytes × Bytes)) (hs : Headers) (body : Bytes) : Prop where
  method : m ∈ Gen.methods
  path : pathOk p = true
  pathBytes : BytesOk p
  query : ∀ kv ∈ qs, BytesOk kv.1 ∧ BytesOk kv.2
  names : ∀ h ∈ hs, 10 ∉ h.1 ∧ 58 ∉ h.1
  values : ∀ h ∈ hs, 10 ∉ h.2
  distinct : (hs.map (fun h => lower h.1)).Nodup
  few : hs.length ≤ Gen.maxHeaders
  short : (m ++ [32] ++ target p qs ++ [32] ++ Gen.requestVersion).length ≤ Gen.maxLineSize ∧
    ∀ h ∈ hs, (packHeader h.1 h.2).length ≤ Gen.maxLineSize
  noTe : hasKey (lit "transfer-encoding") hs = false
  length : match getKey (lit "content-length") hs with
    | none => body = []
    | some v => v = toDec body.length

theorem recover_wire (m p : Bytes) (qs : List (Bytes × Bytes)) (hs : Headers) (body tail : Bytes) (w : WireOk m p qs hs body) :
    recover (joinCrlf ((m ++ [32] ++ target p qs ++ [32] ++ Gen.requestVersion) :: hs.map (fun h => packHeader h.1 h.2) ++ [[], []]) ++ body ++ tail)
      = .ok (⟨m, p, qs, lowered hs, body⟩, tail) := by
  obtain ⟨hmne, hmb⟩ := methods_table m w.method
  obtain ⟨v1, v2, v3, v4⟩ := version_facts
  have htb := target_bytes p qs w.pathBytes w.query
  have htne : target p qs ≠ [] := by
    unfold target
    have hok := w.path
    unfold pathOk at hok
    cases p with
    | nil => simp at hok
    | cons a p' => simp [quote, quoteWith]; split <;> simp [pct]
  -- the start line
  have hstart10 : 10 ∉ m ++ [32] ++ target p qs ++ [32] ++ Gen.requestVersion := by
    intro hm
    simp only [List.append_assoc, List.mem_append, List.mem_singleton] at hm
    rcases hm with h | h | h | h | h
    · exact (hmb 10 h).2 rfl
    · omega
    · exact (htb 10 h).2.2 rfl
    · omega
    · exact (v4 10 h).2 rfl
  rw [List.append_assoc, joinCrlf_blank, List.flatMap_cons, List.append_assoc, List.append_assoc]
  unfold recover
  rw [← List.append_assoc _ crlf, takeLine_crlf _ _ hstart10]
  have hne : (m ++ [32] ++ target p qs ++ [32] ++ Gen.requestVersion).isEmpty = false := by
    cases m with
    | nil => exact absurd rfl hmne
    | cons _ _ => rfl
  have hsl : ¬ ((m ++ [32] ++ target p qs ++ [32] ++ Gen.requestVersion).length > Gen.maxLineSize) := by
    have := w.short.1; omega
  simp only [hsl, hne, Bool.false_eq_true, ↓reduceIte]
  rw [words_three m (target p qs) Gen.requestVersion (fun b hb => (hmb b hb).1) (fun b hb => (htb b hb).1)
    (fun b hb => (v4 b hb).1) hmne htne v3]
  simp only [List.getD_cons_zero, List.getD_cons_succ, v1, v2, Bool.not_true, Bool.false_eq_true, ↓reduceIte]
  have hmc : Gen.methods.contains m = true := List.contains_iff_mem.mpr w.method
  simp only [hmc, Bool.not_true, Bool.false_eq_true, ↓reduceIte]
  rw [splitTarget_target p qs w.path w.pathBytes w.query]
  simp only []
  rw [parseLeader_lines hs [] (body ++ tail) _ (by
      have := flatMap_crlf_length (hs.map (fun h => packHeader h.1 h.2))
      simp only [List.length_map, List.length_append] at this ⊢
      omega) w.names w.values (by intro h _; rfl) w.distinct (by simpa using w.few) w.short.2]
  simp only [List.nil_append]
  have hte : getKey (lit "transfer-encoding") (lowered hs) = none := by
    rw [getKey_lowered]; exact getKey_of_not_hasKey _ _ w.noTe
  rw [hte, getKey_lowered]
  simp only [Option.map_none]
  have hnone : ((none : Option Bytes) == some (lit "chunked")) = false := rfl
  simp only [hnone, Bool.false_eq_true, ↓reduceIte]
  have hlen := w.length
  cases hc : getKey (lit "content-length") hs with
  | none =>
    rw [hc] at hlen
    simp only [hlen, List.nil_append, Nat.not_lt_zero, ↓reduceIte, List.take_zero, List.drop_zero, unquote_path p w.pathBytes,
      parseQsl_packQs qs w.query]
  | some v =>
    rw [hc] at hlen
    simp only []
    have hve : v.isEmpty = false := by
      rw [hlen]; cases h : toDec body.length with
      | nil => exact absurd h (toDec_ne_nil _)
      | cons _ _ => rfl
    have hv : v = toDec body.length := hlen
    subst hv
    have hnl : ¬ (body ++ tail).length < body.length := by simp
    simp only [hve, Bool.false_eq_true, ↓reduceIte, parseDec_toDec, hnl, List.take_left, List.drop_left,
      unquote_path p w.pathBytes, parseQsl_packQs qs w.query]

end Hio.Http.Req

namespace Hio.Http.Req
open Hio.Http

/-! ### what `Requester.build` puts on the wire, in closed form -/

def isGet (s : Spec) : Bool := upper s.method == lit "GET"

/-- the body that is sent: nothing with GET, else JSON text / form encoding (urlencoded or multipart) / raw body -/
def builtBody (s : Spec) : Bytes := (bodyAndHeaders s).1

/-- the caller's header fields after the Content-Type override of JSON / form bodies -/
def sentHeaders (s : Spec) : Headers := (bodyAndHeaders s).2

/-- every header field on the wire, in order: defaults first, then the caller's -/
def builtHeaders (s : Spec) : Headers :=
  (if hasKey (lit "host") s.headers then [] else [(lit "Host", s.host)]) ++
  (if hasKey (lit "accept-encoding") s.headers then [] else [(lit "Accept-Encoding", Gen.acceptEncoding)]) ++
  (if !(builtBody s).isEmpty && !hasKey (lit "content-length") (sentHeaders s) then [(lit "Content-Length", toDec (builtBody s).length)] else []) ++
  sentHeaders s

/-- the path proper of what the caller passed as path -/
def pathOf (s : Spec) : Bytes := (urlParts s.path).1

/-- the query arguments that go on the wire: the dict, updated by the arguments written on the path -/
def queryOf (s : Spec) : List (Bytes × Bytes) := mergeQs s.qargs (parsePathQs (urlParts s.path).2)

theorem build_eq (s : Spec) (hne : s.path ≠ []) (hclean : stripUnsafe s.path = s.path) (hok : pathOk (pathOf s) = true)
    (hascii : isAscii s.method = true) :
    build s = .ok (joinCrlf ((upper s.method ++ [32] ++ target (pathOf s) (queryOf s) ++ [32] ++ Gen.requestVersion) ::
      (builtHeaders s).map (fun h => packHeader h.1 h.2) ++ [[], []]) ++ builtBody s) := by
  have hpe : s.path.isEmpty = false := by cases h : s.path with | nil => exact absurd h hne | cons _ _ => rfl
  unfold pathOf at hok
  unfold build buildParts
  simp only [hpe, Bool.false_eq_true, ↓reduceIte, hclean, hok, hascii, Bool.not_true, Bool.or_self]
  unfold builtHeaders builtBody sentHeaders target pathOf queryOf
  have hite : ∀ (c : Prop) [Decidable c] (x : Bytes × Bytes),
      List.map (fun h : Bytes × Bytes => packHeader h.1 h.2) (if c then [] else [x]) = if c then [] else [packHeader x.1 x.2] := by
    intro c _ x; split <;> rfl
  have hite2 : ∀ (c : Prop) [Decidable c] (x : Bytes × Bytes),
      List.map (fun h : Bytes × Bytes => packHeader h.1 h.2) (if c then [x] else []) = if c then [packHeader x.1 x.2] else [] := by
    intro c _ x; split <;> rfl
  simp [hite, hite2]

theorem splitAt1_none_of_contains (c : Nat) (l : Bytes) (h : l.contains c = false) : splitAt1 c l = none := by
  apply splitAt1_none
  intro hm
  have : l.contains c = true := List.contains_iff_mem.mpr hm
  rw [h] at this; exact absurd this (by decide)

/-- a plain path (no `?`, no `#`) is its own path part and carries no query -/
theorem urlParts_plain (p : Bytes) (hok : pathOk p = true) : urlParts p = (p, []) := by
  unfold pathOk at hok
  simp only [Bool.and_eq_true, Bool.not_eq_true'] at hok
  obtain ⟨⟨_, h63⟩, h35⟩ := hok
  unfold urlParts
  simp only [splitAt1_none_of_contains 35 p h35, splitAt1_none_of_contains 63 p h63]

theorem mem_setKey_of_ne (k v : Bytes) (hs : Headers) (x : Bytes × Bytes) (hx : x ∈ hs) (hne : (lower x.1 == k) = false) :
    x ∈ setKey k v hs := by
  induction hs with
  | nil => simp at hx
  | cons h hs ih =>
    unfold setKey
    rcases List.mem_cons.mp hx with e | hx
    · subst e; simp [hne]
    · split
      · exact List.mem_cons_of_mem _ (List.mem_filter.mpr ⟨hx, by simp [bne, hne]⟩)
      · exact List.mem_cons_of_mem _ (ih hx)

/-- a caller's header field is on the wire unchanged, unless it is the Content-Type that a JSON / form body replaces -/
theorem spec_header_on_wire (s : Spec) (x : Bytes × Bytes) (hx : x ∈ s.headers)
    (hct : (lower x.1 == lit "content-type") = false ∨ isGet s = true ∨ (s.bkind != 1 && s.bkind != 2) = true) :
    x ∈ builtHeaders s := by
  unfold builtHeaders
  apply List.mem_append_right
  unfold sentHeaders bodyAndHeaders
  split
  · exact hx
  · rename_i hg
    rcases hct with h | h | h
    · split
      · exact mem_setKey_of_ne _ _ _ _ hx h
      · split
        · split
          · exact mem_setKey_of_ne _ _ _ _ hx h
          · exact mem_setKey_of_ne _ _ _ _ hx h
        · exact hx
    · exact absurd h hg
    · simp only [Bool.and_eq_true, bne_iff_ne, ne_eq] at h
      have h1 : (s.bkind == 1) = false := by simpa using h.1
      have h2 : (s.bkind == 2) = false := by simpa using h.2
      simp only [h1, h2, Bool.false_eq_true, ↓reduceIte]
      exact hx

/-! ### a query string written on the path -/

theorem quotePlus_no_semi (bs : Bytes) : 59 ∉ quotePlus bs := by
  intro h
  rcases mem_quotePlus _ _ h with h | h | h | ⟨d, h⟩
  · have : alwaysSafe 59 = false := by decide
    rw [this] at h; exact absurd h (by decide)
  · omega
  · omega
  · unfold hexU at h; split at h <;> omega

theorem packQs_no_semi (ps : List (Bytes × Bytes)) : 59 ∉ packQs ps := by
  intro hc
  rcases joinAmp_mem _ 59 hc with h | ⟨s, hs, hcs⟩
  · omega
  · rcases List.mem_map.mp hs with ⟨kv, _, rfl⟩
    simp only [List.append_assoc, List.mem_append, List.mem_singleton] at hcs
    rcases hcs with h | h | h
    · exact quotePlus_no_semi _ h
    · omega
    · exact quotePlus_no_semi _ h

theorem parsePart_pack (k v : Bytes) (hk : BytesOk k) (hv : BytesOk v) : parsePart (encField (k, v)) = (k, v) := by
  unfold parsePart encField
  rw [List.append_assoc, List.singleton_append, splitAt1_append _ _ _ (quotePlus_no_eq k)]
  simp only [quotePlus]
  rw [unqPlus_quotePlusWith _ rfl rfl k hk, unqPlus_quotePlusWith _ rfl rfl v hv]

/-- a query string in the standard form encoding, written on the path, is read back as exactly its arguments -/
theorem parsePathQs_packQs (ps : List (Bytes × Bytes)) (hb : ∀ kv ∈ ps, BytesOk kv.1 ∧ BytesOk kv.2) :
    parsePathQs (packQs ps) = ps := by
  cases hq : ps with
  | nil => simp [packQs, joinAmp, parsePathQs]
  | cons kv rest =>
    rw [← hq]
    have hne : ps.map encField ≠ [] := by rw [hq]; simp
    have hjoin : joinAmp (ps.map encField) ≠ [] := by
      intro e
      exact hne (joinAmp_eq_nil _ (by intro s hs; rcases List.mem_map.mp hs with ⟨kv, _, rfl⟩; exact encField_ne_nil kv) e)
    have hpk : packQs ps = joinAmp (ps.map encField) := rfl
    have hemp : (packQs ps).isEmpty = false := by
      rw [hpk]; cases h : joinAmp (ps.map encField) with
      | nil => exact absurd h hjoin
      | cons _ _ => rfl
    have hsemi : (packQs ps).contains 59 = false := by
      cases h : (packQs ps).contains 59 with
      | false => rfl
      | true => exact absurd (List.contains_iff_mem.mp h) (packQs_no_semi ps)
    have hparts : (queryParts (packQs ps)).filter (fun f => !f.isEmpty) = ps.map encField := by
      unfold queryParts
      rw [hsemi]
      simp only [Bool.false_eq_true, ↓reduceIte]
      have hfilter : (ps.map encField).filter (fun f => !f.isEmpty) = ps.map encField := by
        apply List.filter_eq_self.mpr
        intro s hs
        rcases List.mem_map.mp hs with ⟨kv, _, rfl⟩
        cases h : encField kv with
        | nil => exact absurd h (encField_ne_nil kv)
        | cons _ _ => rfl
      split
      · rw [hpk, splitOn_joinAmp _ hne (by intro s hs; rcases List.mem_map.mp hs with ⟨kv, _, rfl⟩; exact encField_no_amp kv)]
        exact hfilter
      · rename_i hamp
        -- no '&': exactly one field
        have hone : ∃ kv, ps = [kv] := by
          cases hps : ps with
          | nil => rw [hps] at hne; simp at hne
          | cons a r =>
            cases r with
            | nil => exact ⟨a, rfl⟩
            | cons b r' =>
              exfalso
              apply hamp
              apply List.contains_iff_mem.mpr
              rw [hpk, hps]
              simp [joinAmp]
        obtain ⟨kv1, h1⟩ := hone
        rw [hpk, h1]
        simp only [List.map_cons, List.map_nil, joinAmp, List.filter_cons, List.filter_nil]
        have : (encField kv1).isEmpty = false := by
          cases h : encField kv1 with
          | nil => exact absurd h (encField_ne_nil kv1)
          | cons _ _ => rfl
        simp [this]
    unfold parsePathQs
    rw [hemp]
    simp only [Bool.false_eq_true, ↓reduceIte, hparts, List.map_map]
    have : ∀ kv ∈ ps, (parsePart ∘ encField) kv = kv := by
      intro kv hkv
      obtain ⟨h1, h2⟩ := hb kv hkv
      exact parsePart_pack kv.1 kv.2 h1 h2
    calc ps.map (parsePart ∘ encField) = ps.map id := List.map_congr_left this
      _ = ps := List.map_id _

/-- `path?query` splits into the path and the query as written (no `#` anywhere, no `?` in the path) -/
theorem urlParts_with_query (p q : Bytes) (hp35 : 35 ∉ p) (hp63 : 63 ∉ p) (hq35 : 35 ∉ q) :
    urlParts (p ++ 63 :: q) = (p, q) := by
  unfold urlParts
  have h35 : 35 ∉ p ++ 63 :: q := by
    intro h
    rcases List.mem_append.mp h with h | h
    · exact hp35 h
    · rcases List.mem_cons.mp h with h | h
      · omega
      · exact hq35 h
  simp only [splitAt1_none 35 _ h35, splitAt1_append 63 p q hp63]

end Hio.Http.Req
