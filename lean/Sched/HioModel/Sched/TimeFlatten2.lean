import HioModel.Sched.TimeSim2
/-! C04, heterogeneous forests: whole runs (main loop in lockstep, enter phase) -/
set_option linter.unusedSectionVars false
set_option linter.unusedSimpArgs false
namespace Hio.Sched
variable {τ : Type}
variable [Add τ] [LE τ] [DecidableRel (α := τ) (· ≤ ·)] [OfNat τ 0] [BEq τ]

/-- `q` is `p` with every transparent group spliced away; DoDoers with `keep i = true` are kept on both sides and must
have tock `0` or the scheduler's `tock` (then they are resumed in every cycle) -/
inductive Flattens2 (keep : Id → Bool) (tock : τ) : List (Spec τ) → List (Spec τ) → Prop
  | nil : Flattens2 keep tock [] []
  | leaf {i act steps p q} : keep i = true → plainSteps steps = true →
      (match act with | .fail => False | _ => True) →
      Flattens2 keep tock p q → Flattens2 keep tock (.leaf i act steps :: p) (.leaf i act steps :: q)
  | tgroup {i pool kids p q1 q2} : keep i = false →
      Flattens2 keep tock kids q1 → Flattens2 keep tock p q2 →
      Flattens2 keep tock (.group i 0 false kids pool :: p) (q1 ++ q2)
  | kgroup {i g al pool kids kidsF p q} : keep i = true → (g = 0 ∨ g = tock) →
      Flattens2 keep tock kids kidsF → Flattens2 keep tock p q →
      Flattens2 keep tock (.group i g al kids pool :: p) (.group i g al kidsF pool :: q)

theorem Sim2.close {keep : Id → Bool} {tock : τ} {b : Bool} {now : τ} {N F : List (RT τ)} (h : Sim2 keep tock b now N F) (t : τ) :
    keepView keep (closeAllRev t N) = keepView keep (closeAllRev t F) := by
  induction h with
  | nil => rfl
  | @leaf i r r' s N F hk _ _ _ _ ih =>
      simp only [closeAllRev, closeRT, keepView_append, ih]
  | @tgroup i rg pool doers deeds N F1 F2 hk _ _ _ _ ih1 ih2 =>
      simp only [closeAllRev, closeRT, keepView_append, ih1, ih2, closeAllRev_append]
      simp [keepView, ev, hk]
  | @kgroup i rg rg' g al pool dN dF deeds deedsF N F hk _ _ _ _ _ ih1 ih2 =>
      simp only [closeAllRev, closeRT, keepView_append, ih1, ih2]

theorem keepView_stopEvs2 {keep : Id → Bool} {tock : τ} {b : Bool} {now : τ} {N F : List (RT τ)}
    (h : Sim2 keep tock b now N F) (t : τ) :
    keepView keep (stopEvs t N) = keepView keep (stopEvs t F) := by
  simp only [stopEvs, keepView_append, h.close t]

section laws
variable [LawfulTyme τ]

theorem Sim2.doLoop {keep : Id → Bool} {tock : τ} (h0 : 0 ≤ tock) (pool : List (Spec τ)) (stopAt : Option τ) :
    ∀ (fuel n : Nat) (now : τ) (b : Bool) (N F : List (RT τ)) (dN dF : List Id), Sim2 keep tock b now N F →
      SameView keep (Hio.Sched.doLoop pool tock stopAt fuel n now N dN) (Hio.Sched.doLoop pool tock stopAt fuel n now F dF) := by
  intro fuel
  induction fuel with
  | zero =>
    intro n now b N F dN dF h
    exact ⟨keepView_stopEvs2 h now, rfl, rfl, rfl, rfl, rfl⟩
  | succ fuel ih =>
    intro n now b N F dN dF h
    obtain ⟨esN, esF, N', F', hrunN, hrunF, hview, hsim⟩ :=
      h.cycle h0 pool pool tock tock 0 0 { doers := dN } { doers := dF } (Or.inl rfl) (Or.inl rfl) rfl rfl
    simp only [List.nil_append] at hrunN hrunF
    rw [doLoop_succ_ok hrunN, doLoop_succ_ok hrunF]
    simp only []
    have hemp : N'.isEmpty = F'.isEmpty := by
      have := hsim.nil_iff
      cases N' <;> cases F' <;> simp_all
    rw [hemp]
    cases hE : F'.isEmpty with
    | true =>
      simp only [if_true]
      refine ⟨?_, rfl, rfl, rfl, rfl, rfl⟩
      simp only [keepView_append, hview]
    | false =>
      simp only [Bool.false_eq_true, if_false]
      cases limitHit stopAt (now + tock)
      rotate_left
      · simp only [if_true]
        refine ⟨?_, rfl, rfl, rfl, rfl, rfl⟩
        simp only [keepView_append, hview, keepView_stopEvs2 hsim]
      · simp only [Bool.false_eq_true, if_false]
        obtain ⟨e1, e2, e3, e4, e5, e6⟩ := ih (n+1) (now + tock) true N' F' dN dF hsim
        refine ⟨?_, e2, e3, e4, e5, e6⟩
        simp only [keepView_append, hview, e1]

theorem Flattens2.enter {keep : Id → Bool} {tock : τ} {p q : List (Spec τ)} (h : Flattens2 keep tock p q)
    (hG : Spec.allStepsL g04 p = true) (start : τ) :
    ∃ esP N0 esQ F0, enterList start p = (esP, N0, false) ∧ enterList start q = (esQ, F0, false)
      ∧ keepView keep esP = keepView keep esQ ∧ Sim2 keep tock false start N0 F0 := by
  induction h with
  | nil => exact ⟨[], [], [], [], by rw [enterList], by rw [enterList], rfl, Sim2.nil⟩
  | @leaf i act steps p q hk hp hact _ ih =>
    simp only [Spec.allStepsL, Spec.allSteps, Bool.and_eq_true] at hG
    obtain ⟨esP, N0, esQ, F0, hP, hQ, hv, hs⟩ := ih hG.2
    cases act with
    | fail => exact absurd hact (by simp)
    | ok =>
      refine ⟨[ev i (.flag false) start, ev i .enter start] ++ esP, .leaf i start steps :: N0,
        [ev i (.flag false) start, ev i .enter start] ++ esQ, .leaf i start steps :: F0, ?_, ?_, ?_, ?_⟩
      · rw [enterList, enterSpec]; simp [hP]
      · rw [enterList, enterSpec]; simp [hQ]
      · rw [keepView_append, keepView_append, hv]
      · exact Sim2.leaf hk hp hG.1 (Or.inl rfl) hs
    | done v =>
      refine ⟨[ev i (.flag false) start, ev i .enter start] ++ [ev i .clean start, ev i .exit start] ++ flagEvs i v start ++ esP, N0,
        [ev i (.flag false) start, ev i .enter start] ++ [ev i .clean start, ev i .exit start] ++ flagEvs i v start ++ esQ, F0, ?_, ?_, ?_, hs⟩
      · rw [enterList, enterSpec]; simp [hP]
      · rw [enterList, enterSpec]; simp [hQ]
      · rw [keepView_append, keepView_append (b := esQ), hv]
  | @tgroup i pool kids p q1 q2 hk _ _ ih1 ih2 =>
    simp only [Spec.allStepsL, Spec.allSteps, Bool.and_eq_true] at hG
    obtain ⟨esK, NK, esQ1, F1, hK, hQ1, hv1, hs1⟩ := ih1 hG.1
    obtain ⟨esP, N0, esQ2, F2, hP, hQ2, hv2, hs2⟩ := ih2 hG.2
    refine ⟨[ev i (.flag false) start, ev i .enter start] ++ esK ++ esP,
      .group i start 0 false pool (kids.map Spec.id) NK :: N0, esQ1 ++ esQ2, F1 ++ F2, ?_, ?_, ?_, ?_⟩
    · rw [enterList, enterSpec]; simp [hK, hP]
    · exact enterList_append_ok start q1 q2 hQ1 hQ2
    · simp only [keepView_append, hv1, hv2]
      simp [keepView, ev, hk]
    · exact Sim2.tgroup hk (LawfulTyme.le_refl start) (fun h => by simp at h) hs1 hs2
  | @kgroup i g al pool kids kidsF p q hk hgt _ _ ih1 ih2 =>
    simp only [Spec.allStepsL, Spec.allSteps, Bool.and_eq_true] at hG
    obtain ⟨esK, NK, esKF, FK, hK, hKF, hv1, hs1⟩ := ih1 hG.1
    obtain ⟨esP, N0, esQ, F0, hP, hQ, hv2, hs2⟩ := ih2 hG.2
    refine ⟨[ev i (.flag false) start, ev i .enter start] ++ esK ++ esP,
      .group i start g al pool (kids.map Spec.id) NK :: N0,
      [ev i (.flag false) start, ev i .enter start] ++ esKF ++ esQ,
      .group i start g al pool (kidsF.map Spec.id) FK :: F0, ?_, ?_, ?_, ?_⟩
    · rw [enterList, enterSpec]; simp [hK, hP]
    · rw [enterList, enterSpec]; simp [hKF, hQ]
    · simp only [keepView_append, hv1, hv2]
    · exact Sim2.kgroup hk hgt (LawfulTyme.le_refl start) (LawfulTyme.le_refl start) hs1 hs2

/-- the whole run of a heterogeneous forest and of its flattening -/
theorem Flattens2.sameView {keep : Id → Bool} {tock : τ} {p q : List (Spec τ)} (hF : Flattens2 keep tock p q)
    (hG : Spec.allStepsL g04 p = true) (pool : List (Spec τ)) (h0 : 0 ≤ tock) (start : τ)
    (limit : Option τ) (fuel : Nat) :
    SameView keep (doistDo pool tock start limit fuel p) (doistDo pool tock start limit fuel q) := by
  obtain ⟨esP, N0, esQ, F0, hP, hQ, hv, hs⟩ := hF.enter hG start
  unfold doistDo
  rw [hP, hQ]
  simp only []
  obtain ⟨e1, e2, e3, e4, e5, e6⟩ :=
    Sim2.doLoop h0 pool (limit.map (start + ·)) fuel 0 start false N0 F0 (p.map Spec.id) (q.map Spec.id) hs
  exact ⟨by simp only [keepView_append, hv, e1], e2, e3, e4, e5, e6⟩

end laws
end Hio.Sched
