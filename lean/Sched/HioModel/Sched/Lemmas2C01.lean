import HioModel.Sched.Model2
import HioModel.Sched.Defs
/-!
# Helper lemmas for property C01 on the second-generation model (`Hio.Sched2`)

Port of `LemmasC01.lean` (self-contained: the generic `Eff` / `Tr` calculus is repeated here in namespace
`Hio.Sched2`; `LState / lstep / lifeRun / LifecycleWF` come from `Defs.lean`, they work on the shared `Ev`).

`Eff w es D s0 L`: "if the ids in `D` are pairwise distinct, then `es` touches only ids in `D`, and an id of `D`
started in automaton state `s0` ends `.live` when it is in `L` and `.idle` otherwise; `L` is a sublist of `D`".
`Tr w es F L L'`: `es` touches only ids of the footprint `F`, every id of `F` goes from its state under the live
set `L` to its state under `L'`.  `RT2.foot` = the doer, its live deeds, everything enterable from its pool;
`RT2.WF` / `SInv`: footprints of sibling deeds are disjoint, a deed entered from the pool is registered in `doers`
and never removes itself.  New with respect to Model: exception kinds (only `err` runs abort, so the strict
automaton needs `x.aborts` of everything raised, at steps and at enters), failing clean actions (`clean, exit`, legal).
-/
namespace Hio.Sched2
open Hio.Sched hiding abortEvs closeRT closeAllRev enterSpec enterList liveUn extendList removeOp applyOps headStep
  resumeGroup runCycle stopEvs doLoop doistDo
variable {τ : Type}

/-! ### vocabulary for `Spec2` / `RT2` -/
mutual
/-- ids of all live (entered, not exited) doers in a run-time subtree -/
def RT2.liveIds : RT2 τ → List Id
  | .leaf i _ _ _ => [i]
  | .group i _ _ _ _ _ deeds _ => i :: RT2.liveIdsL deeds
def RT2.liveIdsL : List (RT2 τ) → List Id
  | [] => []
  | d :: ds => d.liveIds ++ RT2.liveIdsL ds
end

mutual
/-- ids a spec enters when it is entered (itself and, for a group, its kids — not its pool) -/
def Spec2.eids : Spec2 τ → List Id
  | .leaf i _ _ _ => [i]
  | .group i _ _ kids _ _ => i :: Spec2.eidsL kids
def Spec2.eidsL : List (Spec2 τ) → List Id
  | [] => []
  | s :: ss => s.eids ++ Spec2.eidsL ss
end

/-! ### `lifeRun` basics -/
theorem lifeRun_nil (w : Bool) (i : Id) (s : LState) : lifeRun w i s ([] : List (Ev τ)) = s := rfl

theorem lifeRun_cons (w : Bool) (i : Id) (s : LState) (e : Ev τ) (es : List (Ev τ)) :
    lifeRun w i s (e :: es) = lifeRun w i (if e.id = i then lstep w s e.kind else s) es := rfl

theorem lifeRun_append (w : Bool) (i : Id) (s : LState) (a b : List (Ev τ)) :
    lifeRun w i s (a ++ b) = lifeRun w i (lifeRun w i s a) b := by
  simp [lifeRun, List.foldl_append]

theorem lstep_nonlife (w : Bool) (s : LState) (k : Kind) (h : k.isLife = false) : lstep w s k = s := by
  cases s <;> cases k <;> first | rfl | (simp [Kind.isLife] at h)

theorem lifeRun_untouched (w : Bool) (j : Id) (es : List (Ev τ))
    (h : ∀ e ∈ es, e.id = j → e.kind.isLife = false) : ∀ s, lifeRun w j s es = s := by
  induction es with
  | nil => intro s; rfl
  | cons e es ih =>
    intro s
    rw [lifeRun_cons]
    have ih' := ih (fun e' he' => h e' (List.mem_cons_of_mem _ he'))
    by_cases hj : e.id = j
    · rw [if_pos hj, lstep_nonlife w s e.kind (h e (List.mem_cons_self ..) hj)]; exact ih' s
    · rw [if_neg hj]; exact ih' s

/-- expected automaton state of `i` when exactly the ids in `L` are live -/
def stOf (L : List Id) (i : Id) : LState := if i ∈ L then .live else .idle

theorem stOf_mem {L : List Id} {i : Id} (h : i ∈ L) : stOf L i = .live := by simp [stOf, h]
theorem stOf_not_mem {L : List Id} {i : Id} (h : i ∉ L) : stOf L i = .idle := by simp [stOf, h]

/-- see the file header -/
def Eff (w : Bool) (es : List (Ev τ)) (D : List Id) (s0 : LState) (L : List Id) : Prop :=
  D.Nodup → L.Sublist D ∧ (∀ i, i ∉ D → ∀ s, lifeRun w i s es = s) ∧
    (∀ i, i ∈ D → lifeRun w i s0 es = stOf L i)

/-- the event list changes nobody's automaton state -/
def Noop (w : Bool) (es : List (Ev τ)) : Prop := ∀ i s, lifeRun w i s es = s

theorem Noop.of_nonlife {w : Bool} {es : List (Ev τ)} (h : ∀ e ∈ es, e.kind.isLife = false) : Noop w es :=
  fun i s => lifeRun_untouched w i es (fun e he _ => h e he) s

theorem Eff.cast {w : Bool} {es : List (Ev τ)} {D D' L L' : List Id} {s0 : LState}
    (h : Eff w es D s0 L) (hD : D = D') (hL : L = L') : Eff w es D' s0 L' := by
  subst hD; subst hL; exact h

theorem Eff.nil {w : Bool} {D : List Id} : Eff w ([] : List (Ev τ)) D .live D :=
  fun _ => ⟨List.Sublist.refl _, fun _ _ _ => rfl, fun _ hi => by rw [lifeRun_nil, stOf_mem hi]⟩

theorem Eff.nil_idle {w : Bool} {D : List Id} : Eff w ([] : List (Ev τ)) D .idle [] :=
  fun _ => ⟨List.nil_sublist _, fun _ _ _ => rfl, fun _ _ => by rw [lifeRun_nil]; rfl⟩

theorem Eff.noop {w : Bool} {es : List (Ev τ)} {D : List Id} (h : Noop w es) : Eff w es D .live D :=
  fun _ => ⟨List.Sublist.refl _, fun i _ s => h i s, fun i hi => by rw [h i, stOf_mem hi]⟩

/-- sequential composition: the second list acts on what the first left live -/
theorem Eff.seq {w : Bool} {a b : List (Ev τ)} {D L L' : List Id} {s0 : LState}
    (h1 : Eff w a D s0 L) (h2 : Eff w b L .live L') : Eff w (a ++ b) D s0 L' := by
  intro hD
  obtain ⟨s1, u1, r1⟩ := h1 hD
  obtain ⟨s2, u2, r2⟩ := h2 (hD.sublist s1)
  refine ⟨s2.trans s1, ?_, ?_⟩
  · intro i hi s
    rw [lifeRun_append, u1 i hi, u2 i (fun h => hi (s1.subset h))]
  · intro i hi
    rw [lifeRun_append, r1 i hi]
    by_cases hL : i ∈ L
    · rw [stOf_mem hL]; exact r2 i hL
    · rw [stOf_not_mem hL, u2 i hL, stOf_not_mem (fun h => hL (s2.subset h))]

theorem Eff.seq_noop {w : Bool} {a b : List (Ev τ)} {D L : List Id} {s0 : LState}
    (h1 : Eff w a D s0 L) (h2 : Noop w b) : Eff w (a ++ b) D s0 L := h1.seq (Eff.noop h2)

/-- parallel composition on disjoint domains (events in the same order as the domains) -/
theorem Eff.par {w : Bool} {a b : List (Ev τ)} {D1 D2 L1 L2 : List Id} {s0 : LState}
    (h1 : Eff w a D1 s0 L1) (h2 : Eff w b D2 s0 L2) : Eff w (a ++ b) (D1 ++ D2) s0 (L1 ++ L2) := by
  intro hD
  have hn := List.nodup_append.1 hD
  obtain ⟨s1, u1, r1⟩ := h1 hn.1
  obtain ⟨s2, u2, r2⟩ := h2 hn.2.1
  refine ⟨s1.append s2, ?_, ?_⟩
  · intro i hi s
    simp only [List.mem_append, not_or] at hi
    rw [lifeRun_append, u1 i hi.1, u2 i hi.2]
  · intro i hi
    rw [lifeRun_append]
    rcases List.mem_append.1 hi with h | h
    · have h2' : i ∉ D2 := fun h' => hn.2.2 i h i h' rfl
      rw [r1 i h, u2 i h2']
      have h3 : i ∉ L2 := fun h' => h2' (s2.subset h')
      simp [stOf, h3]
    · have h1' : i ∉ D1 := fun h' => hn.2.2 i h' i h rfl
      rw [u1 i h1', r2 i h]
      have h3 : i ∉ L1 := fun h' => h1' (s1.subset h')
      simp [stOf, h3]

/-- parallel composition, events in the opposite order -/
theorem Eff.par' {w : Bool} {a b : List (Ev τ)} {D1 D2 L1 L2 : List Id} {s0 : LState}
    (h1 : Eff w a D1 s0 L1) (h2 : Eff w b D2 s0 L2) : Eff w (b ++ a) (D1 ++ D2) s0 (L1 ++ L2) := by
  intro hD
  have hn := List.nodup_append.1 hD
  obtain ⟨s1, u1, r1⟩ := h1 hn.1
  obtain ⟨s2, u2, r2⟩ := h2 hn.2.1
  refine ⟨s1.append s2, ?_, ?_⟩
  · intro i hi s
    simp only [List.mem_append, not_or] at hi
    rw [lifeRun_append, u2 i hi.2, u1 i hi.1]
  · intro i hi
    rw [lifeRun_append]
    rcases List.mem_append.1 hi with h | h
    · have h2' : i ∉ D2 := fun h' => hn.2.2 i h i h' rfl
      rw [u2 i h2', r1 i h]
      have h3 : i ∉ L2 := fun h' => h2' (s2.subset h')
      simp [stOf, h3]
    · have h1' : i ∉ D1 := fun h' => hn.2.2 i h' i h rfl
      rw [r2 i h, u1 i h1']
      have h3 : i ∉ L1 := fun h' => h1' (s1.subset h')
      simp [stOf, h3]

theorem Eff.frame_left {w : Bool} {es : List (Ev τ)} {D L : List Id} (A : List Id)
    (h : Eff w es D .live L) : Eff w es (A ++ D) .live (A ++ L) :=
  Eff.par (a := []) Eff.nil h

theorem Eff.frame_right {w : Bool} {es : List (Ev τ)} {D L : List Id} (B : List Id)
    (h : Eff w es D .live L) : Eff w es (D ++ B) .live (L ++ B) := by
  have := Eff.par h (Eff.nil (τ := τ) (D := B))
  rwa [List.append_nil] at this

theorem Eff.frame {w : Bool} {es : List (Ev τ)} {D L : List Id} (A B : List Id)
    (h : Eff w es D .live L) : Eff w es (A ++ D ++ B) .live (A ++ L ++ B) :=
  (h.frame_left A).frame_right B

/-- entering: ids that are not concerned stay idle -/
theorem Eff.widen_right {w : Bool} {es : List (Ev τ)} {D L : List Id} (B : List Id)
    (h : Eff w es D .idle L) : Eff w es (D ++ B) .idle L := by
  have := Eff.par h (Eff.nil_idle (τ := τ) (D := B))
  rwa [List.append_nil, List.append_nil] at this

/-- all events belong to the single doer `i` -/
theorem Eff.single {w : Bool} {es : List (Ev τ)} {i : Id} {s0 : LState} {L : List Id}
    (hid : ∀ e ∈ es, e.id = i) (hL : L.Sublist [i]) (hr : lifeRun w i s0 es = stOf L i) :
    Eff w es [i] s0 L := by
  intro _
  refine ⟨hL, ?_, ?_⟩
  · intro j hj s
    apply lifeRun_untouched
    intro e he hej
    exact absurd ((hid e he).symm.trans hej ▸ List.mem_singleton.2 rfl) hj
  · intro j hj
    rw [List.mem_singleton.1 hj]; exact hr

/-! ### atomic event lists of one doer -/
section atoms
variable {w : Bool} {i : Id} {now : τ}

theorem Eff.recur1 : Eff w [ev i .recur now] [i] .live [i] :=
  Eff.single (by simp [ev]) (List.Sublist.refl _) (by simp [lifeRun_cons, lifeRun_nil, ev, lstep, stOf])

theorem Eff.ceaseExit : Eff w [ev i .cease now, ev i .exit now] [i] .live [] :=
  Eff.single (by simp [ev]) (List.nil_sublist _) (by simp [lifeRun_cons, lifeRun_nil, ev, lstep, stOf])

theorem Eff.cleanExit : Eff w [ev i .clean now, ev i .exit now] [i] .live [] :=
  Eff.single (by simp [ev]) (List.nil_sublist _) (by simp [lifeRun_cons, lifeRun_nil, ev, lstep, stOf])

theorem Eff.abortExit : Eff w [ev i .abort now, ev i .exit now] [i] .live [] :=
  Eff.single (by simp [ev]) (List.nil_sublist _) (by simp [lifeRun_cons, lifeRun_nil, ev, lstep, stOf])

/-- exception exit of a running doer: legal for `Exception`; for a BaseException (no abort) only in the weak automaton -/
theorem Eff.raiseExit {x : Exn2} (hx : x.aborts = false → w = true) :
    Eff w (abortEvs i x now ++ [ev i .exit now]) [i] .live [] := by
  cases hxa : x.aborts with
  | true => simp only [abortEvs, hxa, if_true]; exact Eff.abortExit
  | false =>
    have hw := hx hxa; subst hw
    exact Eff.single (by simp [ev, abortEvs, hxa]) (List.nil_sublist _)
      (by simp [abortEvs, hxa, lifeRun_cons, lifeRun_nil, ev, lstep, stOf])

theorem Eff.enter1 : Eff w [ev i (.flag false) now, ev i .enter now] [i] .idle [i] :=
  Eff.single (by simp [ev]) (List.Sublist.refl _) (by simp [lifeRun_cons, lifeRun_nil, ev, lstep, stOf, Kind.isLife])

theorem noop_flagEvs (v : Option Bool) : Noop w (flagEvs i v now) :=
  Noop.of_nonlife (by cases v <;> simp [flagEvs, ev, Kind.isLife])

theorem noop_one {k : Kind} (h : k.isLife = false) : Noop w [ev i k now] :=
  Noop.of_nonlife (by simp [ev, h])

end atoms

/-! ### ids / guards of lists of run-time doers -/
theorem RT2.liveIdsL_nil : RT2.liveIdsL ([] : List (RT2 τ)) = [] := by simp [RT2.liveIdsL]
theorem RT2.liveIdsL_cons (d : RT2 τ) (ds : List (RT2 τ)) :
    RT2.liveIdsL (d :: ds) = d.liveIds ++ RT2.liveIdsL ds := by simp [RT2.liveIdsL]
theorem RT2.liveIds_leaf (i : Id) (r : τ) (st : List (Step2 τ)) (cf : Bool) : (RT2.leaf i r st cf).liveIds = [i] := by
  simp [RT2.liveIds]
theorem RT2.liveIds_group (i : Id) (r t : τ) (a : Bool) (p : List (Spec2 τ)) (d : List Id) (ds : List (RT2 τ))
    (cf : Bool) : (RT2.group i r t a p d ds cf).liveIds = [i] ++ RT2.liveIdsL ds := by
  simp [RT2.liveIds]

theorem RT2.liveIdsL_append (a b : List (RT2 τ)) :
    RT2.liveIdsL (a ++ b) = RT2.liveIdsL a ++ RT2.liveIdsL b := by
  induction a with
  | nil => simp [RT2.liveIdsL_nil]
  | cons d ds ih => simp [RT2.liveIdsL_cons, ih, List.append_assoc]

theorem RT2.liveIdsL_singleton (d : RT2 τ) : RT2.liveIdsL [d] = d.liveIds := by
  simp [RT2.liveIdsL_cons, RT2.liveIdsL_nil]

theorem RT2.liveIds_setRetyme (r : τ) (d : RT2 τ) : (d.setRetyme r).liveIds = d.liveIds := by
  cases d <;> simp [RT2.setRetyme, RT2.liveIds]

/-! ### closing -/
theorem closeAllRev_append (now : τ) (a b : List (RT2 τ)) :
    closeAllRev now (a ++ b) = closeAllRev now b ++ closeAllRev now a := by
  induction a with
  | nil => simp [closeAllRev]
  | cons d ds ih => simp [closeAllRev, ih, List.append_assoc]

mutual
theorem closeRT_eff (w : Bool) (now : τ) : ∀ rt : RT2 τ, Eff w (closeRT now rt) rt.liveIds .live []
  | .leaf i _ _ _ => by
      rw [closeRT, RT2.liveIds_leaf]; exact Eff.ceaseExit
  | .group i _ _ _ _ _ deeds _ => by
      rw [closeRT, RT2.liveIds_group]
      exact ((Eff.ceaseExit.frame_right _).seq (closeAllRev_eff w now deeds)).seq_noop (noop_one rfl)
theorem closeAllRev_eff (w : Bool) (now : τ) : ∀ ds : List (RT2 τ), Eff w (closeAllRev now ds) (RT2.liveIdsL ds) .live []
  | [] => by rw [closeAllRev, RT2.liveIdsL_nil]; exact Eff.nil
  | d :: ds => by
      rw [closeAllRev, RT2.liveIdsL_cons]
      exact Eff.par' (closeRT_eff w now d) (closeAllRev_eff w now ds)
end

/-- closing the `h`-hits of a list of live deeds leaves exactly the others live -/
theorem closeFilter_eff (w : Bool) (now : τ) (h : RT2 τ → Bool) : ∀ ds : List (RT2 τ),
    Eff w (closeAllRev now (ds.filter h)) (RT2.liveIdsL ds) .live (RT2.liveIdsL (ds.filter (fun d => !h d)))
  | [] => by simp only [List.filter_nil, closeAllRev, RT2.liveIdsL_nil]; exact Eff.nil
  | d :: ds => by
      have ih := closeFilter_eff w now h ds
      rw [RT2.liveIdsL_cons]
      by_cases hd : h d = true
      · have e1 : (d :: ds).filter h = d :: ds.filter h := by simp [hd]
        have e2 : (d :: ds).filter (fun d => !h d) = ds.filter (fun d => !h d) := by simp [hd]
        rw [e1, e2, closeAllRev]
        exact Eff.par' (closeRT_eff w now d) ih
      · have e1 : (d :: ds).filter h = ds.filter h := by simp [hd]
        have e2 : (d :: ds).filter (fun d => !h d) = d :: ds.filter (fun d => !h d) := by simp [hd]
        rw [e1, e2, RT2.liveIdsL_cons]
        exact ih.frame_left _

/-! ### static guards -/
def stepsNoSelfRm (i : Id) (steps : List (Step2 τ)) : Bool :=
  steps.all (fun s => s.ops.all (fun o => match o with | .remove ids => !ids.contains i | .extend _ => true))

/-- everything a script raises runs the abort context (is an `Exception`), unless the weak automaton is used -/
def kbOK (w : Bool) (steps : List (Step2 τ)) : Bool :=
  w || steps.all (fun s => match s.out with | .raise x => x.aborts | _ => true)

/-- same for what the enter action raises -/
def actOK (w : Bool) : EnterAct2 → Bool
  | .fail x => w || x.aborts
  | _ => true

/-- a doer that sits in a pool must not remove itself -/
def Spec2.selfOK : Spec2 τ → Bool
  | .leaf i _ steps _ => stepsNoSelfRm i steps
  | .group .. => true
def RT2.selfOK : RT2 τ → Bool
  | .leaf i _ steps _ => stepsNoSelfRm i steps
  | .group .. => true

mutual
def Spec2.good (w : Bool) : Spec2 τ → Bool
  | .leaf _ act steps _ => actOK w act && kbOK w steps
  | .group _ _ _ kids pool _ => Spec2.goodL w kids && Spec2.goodL w pool && pool.all Spec2.selfOK
def Spec2.goodL (w : Bool) : List (Spec2 τ) → Bool
  | [] => true
  | s :: ss => s.good w && Spec2.goodL w ss
end

/-! ### entering -/
theorem Spec2.eids_leaf (i : Id) (a : EnterAct2) (st : List (Step2 τ)) (cf : Bool) : (Spec2.leaf i a st cf).eids = [i] := by
  simp [Spec2.eids]
theorem Spec2.eids_group (i : Id) (t : τ) (a : Bool) (kids pool : List (Spec2 τ)) (cf : Bool) :
    (Spec2.group i t a kids pool cf).eids = [i] ++ Spec2.eidsL kids := by simp [Spec2.eids]
theorem Spec2.eidsL_nil : Spec2.eidsL ([] : List (Spec2 τ)) = [] := by simp [Spec2.eidsL]
theorem Spec2.eidsL_cons (s : Spec2 τ) (ss : List (Spec2 τ)) : Spec2.eidsL (s :: ss) = s.eids ++ Spec2.eidsL ss := by
  simp [Spec2.eidsL]

theorem Eff.seq2 {w : Bool} {a b c : List (Ev τ)} {D L L' : List Id} {s0 : LState}
    (h1 : Eff w a D s0 L) (h2 : Eff w (b ++ c) L .live L') : Eff w (a ++ b ++ c) D s0 L' := by
  rw [List.append_assoc]; exact h1.seq h2

theorem actOK_fail {w : Bool} {x : Exn2} (h : actOK w (.fail x) = true) : x.aborts = false → w = true := by
  simp only [actOK, Bool.or_eq_true] at h
  intro hxa
  rcases h with h | h
  · exact h
  · rw [hxa] at h; cases h

mutual
theorem enterSpec_eff (w : Bool) (now : τ) :
    ∀ (s : Spec2 τ) (es : List (Ev τ)) (r : Option (RT2 τ)) (b : Option Exn2), enterSpec now s = (es, r, b) →
      s.good w = true →
      Eff w es s.eids .idle (RT2.liveIdsL r.toList) ∧
        (∀ x, b = some x → r = none ∧ (x.aborts = false → w = true))
  | .leaf i act steps cf, es, r, b, h, hg => by
      rw [Spec2.eids_leaf]
      simp only [Spec2.good, Bool.and_eq_true] at hg
      cases act with
      | ok =>
        simp only [enterSpec, Prod.mk.injEq] at h; obtain ⟨rfl, rfl, rfl⟩ := h
        refine ⟨?_, by simp⟩
        rw [Option.toList, RT2.liveIdsL_singleton, RT2.liveIds_leaf]; exact Eff.enter1
      | fail x =>
        simp only [enterSpec, Prod.mk.injEq] at h; obtain ⟨rfl, rfl, rfl⟩ := h
        have hx := actOK_fail hg.1
        refine ⟨?_, fun y hy => ⟨rfl, by cases hy; exact hx⟩⟩
        rw [Option.toList, RT2.liveIdsL_nil]; exact Eff.enter1.seq2 (Eff.raiseExit hx)
      | done v =>
        cases cf with
        | true =>
          simp only [enterSpec, if_true, Prod.mk.injEq] at h; obtain ⟨rfl, rfl, rfl⟩ := h
          refine ⟨?_, fun y hy => ⟨rfl, by cases hy; simp [Exn2.aborts]⟩⟩
          rw [Option.toList, RT2.liveIdsL_nil]; exact Eff.enter1.seq Eff.cleanExit
        | false =>
          simp only [enterSpec, Bool.false_eq_true, if_false, Prod.mk.injEq] at h; obtain ⟨rfl, rfl, rfl⟩ := h
          refine ⟨?_, by simp⟩
          rw [Option.toList, RT2.liveIdsL_nil]; exact (Eff.enter1.seq Eff.cleanExit).seq_noop (noop_flagEvs v)
  | .group i tock always kids pool cf, es, r, b, h, hg => by
      rw [enterSpec] at h
      rw [Spec2.eids_group]
      simp only [Spec2.good, Bool.and_eq_true] at hg
      split at h
      next es' deeds x heq =>
        have ih := enterList_eff w now kids es' deeds (some x) heq hg.1.1
        have hx := ih.2 x rfl
        simp only [Prod.mk.injEq] at h; obtain ⟨rfl, rfl, rfl⟩ := h
        refine ⟨?_, fun y hy => ⟨rfl, by cases hy; exact hx⟩⟩
        rw [Option.toList, RT2.liveIdsL_nil]
        exact (((Eff.par Eff.enter1 ih.1).seq2 ((Eff.raiseExit hx).frame_right _)).seq
          (closeAllRev_eff w now deeds)).seq_noop (noop_one rfl)
      next es' deeds heq =>
        have ih := enterList_eff w now kids es' deeds none heq hg.1.1
        simp only [Prod.mk.injEq] at h; obtain ⟨rfl, rfl, rfl⟩ := h
        refine ⟨?_, by simp⟩
        rw [Option.toList, RT2.liveIdsL_singleton, RT2.liveIds_group]
        exact Eff.par Eff.enter1 ih.1
theorem enterList_eff (w : Bool) (now : τ) :
    ∀ (ss : List (Spec2 τ)) (es : List (Ev τ)) (rs : List (RT2 τ)) (b : Option Exn2),
      enterList now ss = (es, rs, b) → Spec2.goodL w ss = true →
      Eff w es (Spec2.eidsL ss) .idle (RT2.liveIdsL rs) ∧ (∀ x, b = some x → x.aborts = false → w = true)
  | [], es, rs, b, h, _ => by
      rw [enterList] at h
      simp only [Prod.mk.injEq] at h; obtain ⟨rfl, rfl, rfl⟩ := h
      rw [Spec2.eidsL_nil, RT2.liveIdsL_nil]
      exact ⟨Eff.nil_idle, by simp⟩
  | s :: ss, es, rs, b, h, hg => by
      rw [enterList] at h
      rw [Spec2.eidsL_cons]
      simp only [Spec2.goodL, Bool.and_eq_true] at hg
      split at h
      next e r' x heq =>
        have ih := enterSpec_eff w now s e r' (some x) heq hg.1
        simp only [Prod.mk.injEq] at h; obtain ⟨rfl, rfl, rfl⟩ := h
        obtain ⟨hr, hx⟩ := ih.2 x rfl
        subst hr
        refine ⟨?_, fun y hy => by cases hy; exact hx⟩
        have := ih.1; rw [Option.toList, RT2.liveIdsL_nil] at this
        rw [RT2.liveIdsL_nil]; exact this.widen_right _
      next e r' heq =>
        have ih := enterSpec_eff w now s e r' none heq hg.1
        split at h
        next e2 rs' b' heq2 =>
          have ih2 := enterList_eff w now ss e2 rs' b' heq2 hg.2
          simp only [Prod.mk.injEq] at h; obtain ⟨rfl, rfl, rfl⟩ := h
          refine ⟨?_, ih2.2⟩
          rw [RT2.liveIdsL_append]; exact Eff.par ih.1 ih2.1
end

/-! ### remove / ops without extend -/
theorem liveUn_setpr (c : Cyc2 τ) (p : List (RT2 τ)) (un : List (RT2 τ)) :
    liveUn { c with pr := p } un = liveUn c un := rfl

theorem liveUn_fresh (doers : List Id) (un : List (RT2 τ)) : liveUn ({ doers := doers } : Cyc2 τ) un = un := by
  simp [liveUn]

theorem liveUn_cons_gone {c : Cyc2 τ} {d : RT2 τ} {un : List (RT2 τ)} (h : c.gone.contains d.id = true) :
    liveUn c (d :: un) = liveUn c un := by
  have h' : d.id ∈ c.gone := by simpa using h
  simp [liveUn, h']

theorem liveUn_cons_live {c : Cyc2 τ} {d : RT2 τ} {un : List (RT2 τ)} (h : ¬ c.gone.contains d.id = true) :
    liveUn c (d :: un) = d :: liveUn c un := by
  have h' : d.id ∉ c.gone := by simpa using h
  simp [liveUn, h']

theorem RT2.liveIdsL_mid (a b : List (RT2 τ)) (d : RT2 τ) :
    RT2.liveIdsL (a ++ d :: b) = RT2.liveIdsL a ++ d.liveIds ++ RT2.liveIdsL b := by
  rw [RT2.liveIdsL_append, RT2.liveIdsL_cons, List.append_assoc]

/-- the deeds a `remove(ids)` closes -/
def rmHit (c : Cyc2 τ) (ids : List Id) (d : RT2 τ) : Bool :=
  (ids.filter (fun i => c.doers.contains i)).contains d.id

theorem removeOp_eq (now : τ) (sid : Id) (un : List (RT2 τ)) (ids : List Id) (c : Cyc2 τ) :
    removeOp now sid un ids c =
      ([ev sid .rmBeg now] ++ closeAllRev now (c.pr.filter (rmHit c ids) ++ (liveUn c un).filter (rmHit c ids))
          ++ [ev sid .rmEnd now],
       { pr := c.pr.filter (fun d => !rmHit c ids d),
         doers := c.doers.filter (fun i => !(ids.filter (fun i => c.doers.contains i)).contains i),
         gone := c.gone ++ ((liveUn c un).filter (rmHit c ids)).map RT2.id }) := rfl

theorem liveUn_removeOp (now : τ) (sid : Id) (un : List (RT2 τ)) (ids : List Id) (c : Cyc2 τ) :
    liveUn (removeOp now sid un ids c).2 un = (liveUn c un).filter (fun d => !rmHit c ids d) := by
  rw [removeOp_eq]
  simp only [liveUn, List.filter_filter]
  apply List.filter_congr
  intro d hd
  rw [Bool.eq_iff_iff]
  simp only [Bool.not_eq_true', Bool.and_eq_true,
    List.contains_eq_mem, decide_eq_false_iff_not, List.mem_filter, decide_eq_true_eq,
    not_and, rmHit]
  constructor
  · intro h
    have hg : d.id ∉ c.gone := fun hh => h (List.mem_append_left _ hh)
    refine ⟨fun h1 h2 => h (List.mem_append_right _
      (List.mem_map.2 ⟨d, List.mem_filter.2 ⟨hd, by simp [h1, h2, hg]⟩, rfl⟩)), hg⟩
  · intro ⟨h1, h2⟩ hh
    rcases List.mem_append.1 hh with hh | hh
    · exact h2 hh
    · obtain ⟨d', hd', he⟩ := List.mem_map.1 hh
      have := (List.mem_filter.1 hd').2
      simp [he] at this
      exact h1 this.1.1 this.1.2

theorem removeOp_eff (w : Bool) (now : τ) (sid : Id) (un : List (RT2 τ)) (ids : List Id) (c : Cyc2 τ) (M : List Id) :
    Eff w (removeOp now sid un ids c).1
      (RT2.liveIdsL c.pr ++ M ++ RT2.liveIdsL (liveUn c un)) .live
      (RT2.liveIdsL (removeOp now sid un ids c).2.pr ++ M ++ RT2.liveIdsL (liveUn (removeOp now sid un ids c).2 un)) := by
  rw [liveUn_removeOp]
  rw [removeOp_eq, closeAllRev_append]
  exact ((Eff.noop (noop_one rfl)).seq
    (Eff.par' ((closeFilter_eff w now (rmHit c ids) c.pr).frame_right M)
      (closeFilter_eff w now (rmHit c ids) (liveUn c un)))).seq_noop (noop_one rfl)

theorem stopEvs_eff (w : Bool) (now : τ) (ds : List (RT2 τ)) :
    Eff w (stopEvs now ds) (RT2.liveIdsL ds) .live [] :=
  ((Eff.noop (noop_one rfl)).seq (closeAllRev_eff w now ds)).seq_noop (noop_one rfl)


theorem Eff.lifecycle {w : Bool} {es : List (Ev τ)} {D : List Id} (h : Eff w es D .idle []) (hD : D.Nodup) :
    LifecycleWF w es := by
  intro i
  obtain ⟨_, u, r⟩ := h hD
  by_cases hi : i ∈ D
  · rw [r i hi]; rfl
  · exact u i hi _

/-! ## Part 2: the same with `extend`

With `extend`, live ids no longer only shrink.  `Tr w es F L L'` generalises `Eff`: `es` touches only ids of the
footprint `F`, and every id of `F` goes from its state under the live set `L` to its state under `L'`.
The footprint of a run-time doer (`RT2.foot`) is itself, its live deeds and everything enterable from its pool;
`RT2.WF` / `SInv` say that footprints of sibling deeds are disjoint and that a deed entered from the pool is
registered in `doers` (so `extend` skips it) and never removes itself.
-/

/-- `es` touches only ids in `F`; an id of `F` goes from its state under live-set `L` to that under `L'` -/
def Tr (w : Bool) (es : List (Ev τ)) (F L L' : List Id) : Prop :=
  (∀ i, i ∉ F → ∀ s, lifeRun w i s es = s) ∧ (∀ i, i ∈ F → lifeRun w i (stOf L i) es = stOf L' i)

theorem stOf_congr {L M : List Id} {i : Id} (h : i ∈ L ↔ i ∈ M) : stOf L i = stOf M i := by
  simp [stOf, h]

theorem Tr.loc {w : Bool} {es : List (Ev τ)} {F L L' G M M' : List Id} (h : Tr w es F L L')
    (hFG : ∀ i, i ∈ F → i ∈ G) (h1 : ∀ i, i ∈ F → (i ∈ M ↔ i ∈ L)) (h2 : ∀ i, i ∈ F → (i ∈ M' ↔ i ∈ L'))
    (h3 : ∀ i, i ∉ F → (i ∈ M ↔ i ∈ M')) : Tr w es G M M' := by
  refine ⟨fun i hi s => h.1 i (fun hh => hi (hFG i hh)) s, fun i _ => ?_⟩
  by_cases hF : i ∈ F
  · rw [stOf_congr (h1 i hF), stOf_congr (h2 i hF)]; exact h.2 i hF
  · rw [h.1 i hF, stOf_congr (h3 i hF)]

theorem Tr.seq {w : Bool} {a b : List (Ev τ)} {F L L' L'' : List Id} (h1 : Tr w a F L L') (h2 : Tr w b F L' L'') :
    Tr w (a ++ b) F L L'' :=
  ⟨fun i hi s => by rw [lifeRun_append, h1.1 i hi, h2.1 i hi],
   fun i hi => by rw [lifeRun_append, h1.2 i hi, h2.2 i hi]⟩

theorem Tr.noop {w : Bool} {es : List (Ev τ)} {F L : List Id} (h : Noop w es) : Tr w es F L L :=
  ⟨fun i _ s => h i s, fun i _ => h i _⟩

theorem Eff.toTr {w : Bool} {es : List (Ev τ)} {D L' : List Id} (h : Eff w es D .live L') (hD : D.Nodup) :
    Tr w es D D L' := by
  obtain ⟨_, u, r⟩ := h hD
  exact ⟨u, fun i hi => by rw [stOf_mem hi]; exact r i hi⟩

theorem Eff.toTr_idle {w : Bool} {es : List (Ev τ)} {D L' : List Id} (h : Eff w es D .idle L') (hD : D.Nodup) :
    Tr w es D [] L' := by
  obtain ⟨_, u, r⟩ := h hD
  exact ⟨u, fun i hi => by rw [stOf_not_mem (by simp)]; exact r i hi⟩


/-! ### footprints and the run-time invariant -/
mutual
/-- every id the subtree may ever touch: itself, its live deeds, everything enterable from its pool -/
def RT2.foot : RT2 τ → List Id
  | .leaf i _ _ _ => [i]
  | .group i _ _ _ pool _ deeds _ => i :: (RT2.footL deeds ++ Spec2.idsL pool)
def RT2.footL : List (RT2 τ) → List Id
  | [] => []
  | d :: ds => d.foot ++ RT2.footL ds
end

def PoolOK (w : Bool) (pool : List (Spec2 τ)) : Prop :=
  (Spec2.idsL pool).Nodup ∧ Spec2.goodL w pool = true ∧ pool.all Spec2.selfOK = true

def Disj (A B : List Id) : Prop := ∀ i, i ∈ A → i ∉ B

def DeedOK (pool : List (Spec2 τ)) (doers : List Id) (d : RT2 τ) : Prop :=
  Disj d.foot (Spec2.idsL pool) ∨
    ∃ s, s ∈ pool ∧ s.id = d.id ∧ (∀ i ∈ d.foot, i ∈ s.ids) ∧ d.id ∈ doers ∧ d.selfOK = true

mutual
def RT2.WF (w : Bool) : RT2 τ → Prop
  | .leaf _ _ st _ => kbOK w st = true
  | .group i _ _ _ pool doers deeds _ =>
      i ∉ RT2.footL deeds ∧ i ∉ Spec2.idsL pool ∧ PoolOK w pool ∧
      deeds.Pairwise (fun a b => Disj a.foot b.foot) ∧ (∀ d ∈ deeds, DeedOK pool doers d) ∧ RT2.WFL w deeds
def RT2.WFL (w : Bool) : List (RT2 τ) → Prop
  | [] => True
  | d :: ds => d.WF w ∧ RT2.WFL w ds
end

structure SInv (w : Bool) (pool : List (Spec2 τ)) (doers : List Id) (ds : List (RT2 τ)) : Prop where
  pw : ds.Pairwise (fun a b => Disj a.foot b.foot)
  ok : ∀ d ∈ ds, DeedOK pool doers d
  wf : ∀ d ∈ ds, d.WF w

theorem RT2.footL_nil : RT2.footL ([] : List (RT2 τ)) = [] := by simp [RT2.footL]
theorem RT2.footL_cons (d : RT2 τ) (ds : List (RT2 τ)) : RT2.footL (d :: ds) = d.foot ++ RT2.footL ds := by
  simp [RT2.footL]
theorem RT2.mem_footL {j : Id} : ∀ {ds : List (RT2 τ)}, j ∈ RT2.footL ds ↔ ∃ d, d ∈ ds ∧ j ∈ d.foot
  | [] => by simp [RT2.footL_nil]
  | d :: ds => by simp [RT2.footL_cons, RT2.mem_footL (ds := ds)]
theorem RT2.WFL_iff {w : Bool} : ∀ {ds : List (RT2 τ)}, RT2.WFL w ds ↔ ∀ d, d ∈ ds → d.WF w
  | [] => by simp [RT2.WFL]
  | d :: ds => by simp [RT2.WFL, RT2.WFL_iff (ds := ds)]
theorem RT2.mem_liveIdsL {j : Id} : ∀ {ds : List (RT2 τ)}, j ∈ RT2.liveIdsL ds ↔ ∃ d, d ∈ ds ∧ j ∈ d.liveIds
  | [] => by simp [RT2.liveIdsL_nil]
  | d :: ds => by simp [RT2.liveIdsL_cons, RT2.mem_liveIdsL (ds := ds)]

mutual
theorem RT2.liveIds_sub_foot : ∀ (d : RT2 τ) (j : Id), j ∈ d.liveIds → j ∈ d.foot
  | .leaf i _ _ _, j, h => by simpa [RT2.liveIds, RT2.foot] using h
  | .group i _ _ _ pool _ deeds _, j, h => by
      simp only [RT2.liveIds, RT2.foot, List.mem_cons, List.mem_append] at h ⊢
      rcases h with h | h
      · exact Or.inl h
      · exact Or.inr (Or.inl (RT2.liveIdsL_sub_footL deeds j h))
theorem RT2.liveIdsL_sub_footL : ∀ (ds : List (RT2 τ)) (j : Id), j ∈ RT2.liveIdsL ds → j ∈ RT2.footL ds
  | [], j, h => by simp [RT2.liveIdsL] at h
  | d :: ds, j, h => by
      simp only [RT2.liveIdsL, RT2.footL, List.mem_append] at h ⊢
      rcases h with h | h
      · exact Or.inl (RT2.liveIds_sub_foot d j h)
      · exact Or.inr (RT2.liveIdsL_sub_footL ds j h)
end

theorem nodup_liveIdsL_of {ds : List (RT2 τ)} (h1 : ∀ d ∈ ds, d.liveIds.Nodup)
    (h2 : ds.Pairwise (fun a b => Disj a.foot b.foot)) : (RT2.liveIdsL ds).Nodup := by
  induction ds with
  | nil => simp [RT2.liveIdsL_nil]
  | cons d ds ih =>
    rw [RT2.liveIdsL_cons, List.nodup_append]
    rw [List.pairwise_cons] at h2
    refine ⟨h1 d (List.mem_cons_self ..), ih (fun d' hd' => h1 d' (List.mem_cons_of_mem _ hd')) h2.2, ?_⟩
    intro a ha b hb hab
    subst hab
    obtain ⟨d', hd', hb'⟩ := RT2.mem_liveIdsL.1 hb
    exact h2.1 d' hd' a (RT2.liveIds_sub_foot d a ha) (RT2.liveIds_sub_foot d' a hb')

mutual
theorem RT2.nodup_liveIds (w : Bool) : ∀ (d : RT2 τ), d.WF w → d.liveIds.Nodup
  | .leaf i _ _ _, _ => by simp [RT2.liveIds]
  | .group i _ _ _ pool doers deeds _, h => by
      simp only [RT2.WF] at h
      obtain ⟨h1, _, _, h4, _, h6⟩ := h
      simp only [RT2.liveIds, List.nodup_cons]
      exact ⟨fun hh => h1 (RT2.liveIdsL_sub_footL deeds i hh),
        nodup_liveIdsL_of (RT2.nodup_liveIdsL w deeds h6) h4⟩
theorem RT2.nodup_liveIdsL (w : Bool) : ∀ (ds : List (RT2 τ)), RT2.WFL w ds → ∀ d ∈ ds, d.liveIds.Nodup
  | [], _ => by simp
  | d :: ds, h => by
      simp only [RT2.WFL] at h
      intro d' hd'
      rcases List.mem_cons.1 hd' with hd' | hd'
      · rw [hd']; exact RT2.nodup_liveIds w d h.1
      · exact RT2.nodup_liveIdsL w ds h.2 d' hd'
end

theorem SInv.nodup {w : Bool} {pool : List (Spec2 τ)} {doers : List Id} {ds : List (RT2 τ)}
    (h : SInv w pool doers ds) : (RT2.liveIdsL ds).Nodup :=
  nodup_liveIdsL_of (fun d hd => RT2.nodup_liveIds w d (h.wf d hd)) h.pw


/-! ### static facts about specs -/
theorem Spec2.idsL_nil : Spec2.idsL ([] : List (Spec2 τ)) = [] := by simp [Spec2.idsL]
theorem Spec2.idsL_cons (s : Spec2 τ) (ss : List (Spec2 τ)) : Spec2.idsL (s :: ss) = s.ids ++ Spec2.idsL ss := by
  simp [Spec2.idsL]
theorem Spec2.ids_group (i : Id) (t : τ) (a : Bool) (kids pool : List (Spec2 τ)) (cf : Bool) :
    (Spec2.group i t a kids pool cf).ids = i :: (Spec2.idsL kids ++ Spec2.idsL pool) := by simp [Spec2.ids]
theorem Spec2.mem_idsL {j : Id} : ∀ {ss : List (Spec2 τ)}, j ∈ Spec2.idsL ss ↔ ∃ s, s ∈ ss ∧ j ∈ s.ids
  | [] => by simp [Spec2.idsL_nil]
  | s :: ss => by simp [Spec2.idsL_cons, Spec2.mem_idsL (ss := ss)]
theorem Spec2.id_mem_ids (s : Spec2 τ) : s.id ∈ s.ids := by
  cases s <;> simp [Spec2.ids, Spec2.id]
theorem Spec2.idsL_append (a b : List (Spec2 τ)) : Spec2.idsL (a ++ b) = Spec2.idsL a ++ Spec2.idsL b := by
  induction a with
  | nil => simp [Spec2.idsL_nil]
  | cons s ss ih => simp [Spec2.idsL_cons, ih, List.append_assoc]

mutual
theorem Spec2.eids_sublist_ids : ∀ s : Spec2 τ, s.eids.Sublist s.ids
  | .leaf _ _ _ _ => by simp [Spec2.eids, Spec2.ids]
  | .group i _ _ kids pool _ => by
      simp only [Spec2.eids, Spec2.ids]
      exact ((Spec2.eidsL_sublist_idsL kids).trans (List.sublist_append_left _ _)).cons_cons i
theorem Spec2.eidsL_sublist_idsL : ∀ ss : List (Spec2 τ), (Spec2.eidsL ss).Sublist (Spec2.idsL ss)
  | [] => by simp [Spec2.eidsL, Spec2.idsL]
  | s :: ss => by
      simp only [Spec2.eidsL, Spec2.idsL]
      exact (Spec2.eids_sublist_ids s).append (Spec2.eidsL_sublist_idsL ss)
end

theorem Spec2.ids_sublist_idsL {s : Spec2 τ} : ∀ {ss : List (Spec2 τ)}, s ∈ ss → s.ids.Sublist (Spec2.idsL ss)
  | a :: ss, h => by
      rw [Spec2.idsL_cons]
      rcases List.mem_cons.1 h with h | h
      · rw [h]; exact List.sublist_append_left _ _
      · exact (Spec2.ids_sublist_idsL h).trans (List.sublist_append_right _ _)

theorem Spec2.eq_of_common {j : Id} {s1 s2 : Spec2 τ} : ∀ {ss : List (Spec2 τ)}, (Spec2.idsL ss).Nodup →
    s1 ∈ ss → s2 ∈ ss → j ∈ s1.ids → j ∈ s2.ids → s1 = s2
  | a :: ss, hN, h1, h2, hj1, hj2 => by
      rw [Spec2.idsL_cons, List.nodup_append] at hN
      rcases List.mem_cons.1 h1 with h1 | h1 <;> rcases List.mem_cons.1 h2 with h2 | h2
      · rw [h1, h2]
      · exact absurd rfl (hN.2.2 j (h1 ▸ hj1) j (Spec2.mem_idsL.2 ⟨s2, h2, hj2⟩))
      · exact absurd rfl (hN.2.2 j (h2 ▸ hj2) j (Spec2.mem_idsL.2 ⟨s1, h1, hj1⟩))
      · exact Spec2.eq_of_common hN.2.1 h1 h2 hj1 hj2

theorem Spec2.goodL_mem {w : Bool} {s : Spec2 τ} : ∀ {ss : List (Spec2 τ)}, Spec2.goodL w ss = true → s ∈ ss →
    s.good w = true
  | a :: ss, h, hs => by
      simp only [Spec2.goodL, Bool.and_eq_true] at h
      rcases List.mem_cons.1 hs with hs | hs
      · rw [hs]; exact h.1
      · exact Spec2.goodL_mem h.2 hs

/-! ### entering produces well-formed deeds -/
mutual
theorem enterSpec_wf (w : Bool) (now : τ) :
    ∀ (s : Spec2 τ) (es : List (Ev τ)) (r : RT2 τ) (b : Option Exn2), enterSpec now s = (es, some r, b) →
      s.ids.Nodup → s.good w = true →
      r.WF w ∧ r.id = s.id ∧ (∀ j ∈ r.foot, j ∈ s.ids) ∧ (s.selfOK = true → r.selfOK = true)
  | .leaf i act steps cf, es, r, b, h, _, hg => by
      cases act with
      | ok =>
        simp only [enterSpec, Prod.mk.injEq, Option.some.injEq] at h; obtain ⟨_, rfl, _⟩ := h
        simp only [Spec2.good, Bool.and_eq_true] at hg
        refine ⟨by simpa [RT2.WF] using hg.2, rfl, by simp [RT2.foot, Spec2.ids], by simp [Spec2.selfOK, RT2.selfOK]⟩
      | fail x => simp [enterSpec] at h
      | done v => cases cf <;> simp [enterSpec] at h
  | .group i tock always kids pool cf, es, r, b, h, hN, hg => by
      rw [enterSpec] at h
      split at h
      next es' deeds x heq => simp at h
      next es' deeds heq =>
        simp only [Prod.mk.injEq, Option.some.injEq] at h; obtain ⟨_, rfl, _⟩ := h
        rw [Spec2.ids_group, List.nodup_cons, List.nodup_append] at hN
        simp only [Spec2.good, Bool.and_eq_true] at hg
        obtain ⟨hwf, hpw, hfoot⟩ := enterList_wf w now kids es' deeds none heq hN.2.1 hg.1.1
        have hfootL : ∀ j, j ∈ RT2.footL deeds → j ∈ Spec2.idsL kids := by
          intro j hj; obtain ⟨d, hd, hjd⟩ := RT2.mem_footL.1 hj; exact hfoot d hd j hjd
        refine ⟨?_, rfl, ?_, fun _ => rfl⟩
        · simp only [RT2.WF]
          refine ⟨fun hh => hN.1 (List.mem_append_left _ (hfootL i hh)),
            fun hh => hN.1 (List.mem_append_right _ hh), ⟨hN.2.2.1, hg.1.2, hg.2⟩, hpw, ?_, hwf⟩
          intro d hd
          exact Or.inl (fun j hj hj' => hN.2.2.2 j (hfoot d hd j hj) j hj' rfl)
        · intro j hj
          simp only [RT2.foot, Spec2.ids, List.mem_cons, List.mem_append] at hj ⊢
          rcases hj with hj | hj | hj
          · exact Or.inl hj
          · exact Or.inr (Or.inl (hfootL j hj))
          · exact Or.inr (Or.inr hj)
theorem enterList_wf (w : Bool) (now : τ) :
    ∀ (ss : List (Spec2 τ)) (es : List (Ev τ)) (rs : List (RT2 τ)) (b : Option Exn2), enterList now ss = (es, rs, b) →
      (Spec2.idsL ss).Nodup → Spec2.goodL w ss = true →
      RT2.WFL w rs ∧ rs.Pairwise (fun a b => Disj a.foot b.foot) ∧ (∀ d ∈ rs, ∀ j ∈ d.foot, j ∈ Spec2.idsL ss)
  | [], es, rs, b, h, _, _ => by
      rw [enterList] at h
      simp only [Prod.mk.injEq] at h; obtain ⟨_, rfl, _⟩ := h
      simp [RT2.WFL]
  | s :: ss, es, rs, b, h, hN, hg => by
      rw [enterList] at h
      rw [Spec2.idsL_cons, List.nodup_append] at hN
      simp only [Spec2.goodL, Bool.and_eq_true] at hg
      split at h
      next e r' x heq =>
        simp only [Prod.mk.injEq] at h; obtain ⟨_, rfl, _⟩ := h
        simp [RT2.WFL]
      next e r' heq =>
        split at h
        next e2 rs' b' heq2 =>
          simp only [Prod.mk.injEq] at h; obtain ⟨_, rfl, _⟩ := h
          obtain ⟨hwf, hpw, hfoot⟩ := enterList_wf w now ss e2 rs' b' heq2 hN.2.1 hg.2
          cases r' with
          | none =>
            simp only [Option.toList, List.nil_append]
            exact ⟨hwf, hpw, fun d hd j hj => by
              rw [Spec2.idsL_cons]; exact List.mem_append_right _ (hfoot d hd j hj)⟩
          | some r =>
            obtain ⟨hr1, _, hr3, _⟩ := enterSpec_wf w now s e r none heq hN.1 hg.1
            simp only [Option.toList, List.singleton_append]
            refine ⟨by simp only [RT2.WFL]; exact ⟨hr1, hwf⟩, ?_, ?_⟩
            · rw [List.pairwise_cons]
              exact ⟨fun d hd j hj hj' => hN.2.2 j (hr3 j hj) j (hfoot d hd j hj') rfl, hpw⟩
            · intro d hd j hj
              rw [Spec2.idsL_cons]
              rcases List.mem_cons.1 hd with hd | hd
              · rw [hd] at hj; exact List.mem_append_left _ (hr3 j hj)
              · exact List.mem_append_right _ (hfoot d hd j hj)
end


/-! ### plumbing for the scheduler invariant -/
theorem Disj.symm {A B : List Id} (h : Disj A B) : Disj B A := fun i hb ha => h i ha hb

theorem RT2.footL_append (a b : List (RT2 τ)) : RT2.footL (a ++ b) = RT2.footL a ++ RT2.footL b := by
  induction a with
  | nil => simp [RT2.footL_nil]
  | cons d ds ih => simp [RT2.footL_cons, ih, List.append_assoc]

section sinv
variable {w : Bool} {pool : List (Spec2 τ)} {doers : List Id}

theorem SInv.perm {ds ds' : List (RT2 τ)} (h : SInv w pool doers ds) (p : ds.Perm ds') : SInv w pool doers ds' :=
  ⟨(p.pairwise_iff (fun h => Disj.symm h)).1 h.pw, fun d hd => h.ok d (p.mem_iff.2 hd),
   fun d hd => h.wf d (p.mem_iff.2 hd)⟩

theorem SInv.sublist {ds ds' : List (RT2 τ)} (h : SInv w pool doers ds) (p : ds'.Sublist ds) : SInv w pool doers ds' :=
  ⟨h.pw.sublist p, fun d hd => h.ok d (p.subset hd), fun d hd => h.wf d (p.subset hd)⟩

theorem DeedOK.mono {doers' : List Id} {d : RT2 τ} (h : DeedOK pool doers d)
    (hd : d.id ∈ doers → d.id ∈ doers') : DeedOK pool doers' d := by
  rcases h with h | ⟨s, h1, h2, h3, h4, h5⟩
  · exact Or.inl h
  · exact Or.inr ⟨s, h1, h2, h3, hd h4, h5⟩

theorem SInv.mono {doers' : List Id} {ds : List (RT2 τ)} (h : SInv w pool doers ds)
    (hd : ∀ d ∈ ds, d.id ∈ doers → d.id ∈ doers') : SInv w pool doers' ds :=
  ⟨h.pw, fun d hdd => (h.ok d hdd).mono (hd d hdd), h.wf⟩

theorem SInv.cons {ds : List (RT2 τ)} {r : RT2 τ} (h : SInv w pool doers ds)
    (h1 : ∀ j ∈ r.foot, j ∉ RT2.footL ds) (h2 : DeedOK pool doers r) (h3 : r.WF w) : SInv w pool doers (r :: ds) := by
  refine ⟨List.pairwise_cons.2 ⟨?_, h.pw⟩, ?_, ?_⟩
  · intro d hd j hj hj'
    exact h1 j hj (RT2.mem_footL.2 ⟨d, hd, hj'⟩)
  · intro d hd
    rcases List.mem_cons.1 hd with hd | hd
    · rw [hd]; exact h2
    · exact h.ok d hd
  · intro d hd
    rcases List.mem_cons.1 hd with hd | hd
    · rw [hd]; exact h3
    · exact h.wf d hd

theorem SInv.uncons {ds : List (RT2 τ)} {r : RT2 τ} (h : SInv w pool doers (r :: ds)) :
    SInv w pool doers ds ∧ (∀ j ∈ r.foot, j ∉ RT2.footL ds) ∧ DeedOK pool doers r ∧ r.WF w := by
  refine ⟨h.sublist (List.sublist_cons_self _ _), ?_, h.ok r (List.mem_cons_self ..), h.wf r (List.mem_cons_self ..)⟩
  intro j hj hj'
  obtain ⟨d, hd, hjd⟩ := RT2.mem_footL.1 hj'
  exact (List.pairwise_cons.1 h.pw).1 d hd j hj hjd

/-- the deed in the middle of the zipper: what the invariant says about it -/
theorem SInv.mid {A B : List (RT2 τ)} {d : RT2 τ} (h : SInv w pool doers (A ++ d :: B)) :
    SInv w pool doers (A ++ B) ∧ (∀ j ∈ d.foot, j ∉ RT2.footL (A ++ B)) ∧ DeedOK pool doers d ∧ d.WF w :=
  (h.perm List.perm_middle).uncons

theorem SInv.replace {A B : List (RT2 τ)} {d d' : RT2 τ} (h : SInv w pool doers (A ++ d :: B))
    (h1 : ∀ j ∈ d'.foot, j ∈ d.foot) (h2 : DeedOK pool doers d → DeedOK pool doers d') (h3 : d'.WF w) :
    SInv w pool doers ((A ++ [d']) ++ B) := by
  obtain ⟨h0, hf, hok, _⟩ := h.mid
  have := h0.cons (r := d') (fun j hj => hf j (h1 j hj)) (h2 hok) h3
  refine this.perm ?_
  rw [List.append_assoc, List.singleton_append]
  exact List.perm_middle.symm

/-- a pool spec that is not registered in `doers` shares no id with any live deed -/
theorem SInv.fresh {ds : List (RT2 τ)} (h : SInv w pool doers ds) (hp : PoolOK w pool) {s : Spec2 τ}
    (hs : s ∈ pool) (hnd : s.id ∉ doers) : ∀ j ∈ s.ids, j ∉ RT2.footL ds := by
  intro j hj hj'
  obtain ⟨d, hd, hjd⟩ := RT2.mem_footL.1 hj'
  rcases h.ok d hd with hok | ⟨s', hs', hid, hsub, hin, _⟩
  · exact hok j hjd (Spec2.mem_idsL.2 ⟨s, hs, hj⟩)
  · have : s' = s := Spec2.eq_of_common hp.1 hs' hs (hsub j hjd) hj
    rw [this] at hid
    exact hnd (hid ▸ hin)

end sinv


/-! ### ops with `extend` -/
theorem Tr.weaken {w : Bool} {es : List (Ev τ)} {F G L L' : List Id} (h : Tr w es F L L')
    (hFG : ∀ i, i ∈ F → i ∈ G) (hL : ∀ i, i ∈ L → i ∈ F) (hL' : ∀ i, i ∈ L' → i ∈ F) : Tr w es G L L' :=
  h.loc hFG (fun _ _ => Iff.rfl) (fun _ _ => Iff.rfl)
    (fun i hi => ⟨fun h => absurd (hL i h) hi, fun h => absurd (hL' i h) hi⟩)

theorem Tr.congr {w : Bool} {es : List (Ev τ)} {F L L' M M' : List Id} (h : Tr w es F L L')
    (h1 : ∀ i, i ∈ M ↔ i ∈ L) (h2 : ∀ i, i ∈ M' ↔ i ∈ L') : Tr w es F M M' :=
  ⟨h.1, fun i hi => by rw [stOf_congr (h1 i), stOf_congr (h2 i)]; exact h.2 i hi⟩

theorem RT2.liveIdsL_perm {ds ds' : List (RT2 τ)} (p : ds.Perm ds') (j : Id) :
    j ∈ RT2.liveIdsL ds ↔ j ∈ RT2.liveIdsL ds' := by
  simp only [RT2.mem_liveIdsL, p.mem_iff]

theorem RT2.footL_perm {ds ds' : List (RT2 τ)} (p : ds.Perm ds') (j : Id) :
    j ∈ RT2.footL ds ↔ j ∈ RT2.footL ds' := by
  simp only [RT2.mem_footL, p.mem_iff]

theorem RT2.footL_sublist {ds ds' : List (RT2 τ)} (p : ds'.Sublist ds) (j : Id) (h : j ∈ RT2.footL ds') :
    j ∈ RT2.footL ds := by
  obtain ⟨d, hd, hj⟩ := RT2.mem_footL.1 h
  exact RT2.mem_footL.2 ⟨d, p.subset hd, hj⟩

section ops
variable {w : Bool} {pool : List (Spec2 τ)}

theorem removeOp_inv (now : τ) (sid : Id) (un : List (RT2 τ)) (ids : List Id) (c : Cyc2 τ) (mid : List (RT2 τ))
    (G0 : List Id) (hI : SInv w pool c.doers (c.pr ++ mid ++ liveUn c un))
    (hself : ∀ d ∈ mid, d.id ∈ pool.map Spec2.id → d.id ∉ ids)
    (hG : ∀ j, j ∈ RT2.footL (c.pr ++ mid ++ liveUn c un) → j ∈ G0) :
    Tr w (removeOp now sid un ids c).1 G0 (RT2.liveIdsL (c.pr ++ mid ++ liveUn c un))
      (RT2.liveIdsL ((removeOp now sid un ids c).2.pr ++ mid ++ liveUn (removeOp now sid un ids c).2 un)) ∧
    SInv w pool (removeOp now sid un ids c).2.doers
      ((removeOp now sid un ids c).2.pr ++ mid ++ liveUn (removeOp now sid un ids c).2 un) ∧
    ((removeOp now sid un ids c).2.pr ++ mid ++ liveUn (removeOp now sid un ids c).2 un).Sublist
      (c.pr ++ mid ++ liveUn c un) := by
  have hsub : ((removeOp now sid un ids c).2.pr ++ mid ++ liveUn (removeOp now sid un ids c).2 un).Sublist
      (c.pr ++ mid ++ liveUn c un) := by
    rw [liveUn_removeOp]
    exact ((List.filter_sublist (l := c.pr)).append (List.Sublist.refl mid)).append List.filter_sublist
  refine ⟨?_, ?_, hsub⟩
  · have he := removeOp_eff w now sid un ids c (RT2.liveIdsL mid)
    have hN := hI.nodup
    simp only [RT2.liveIdsL_append] at hN ⊢
    have hs := (he hN).1
    refine (he.toTr hN).weaken ?_ (fun _ h => h) (fun i h => hs.subset h)
    intro i hi
    apply hG
    have := RT2.liveIdsL_sub_footL (c.pr ++ mid ++ liveUn c un) i
    simp only [RT2.liveIdsL_append] at this
    exact this hi
  · refine ⟨hI.pw.sublist hsub, ?_, fun d hd => hI.wf d (hsub.subset hd)⟩
    intro d hd
    rcases hI.ok d (hsub.subset hd) with h | ⟨s, hs, hid, hsub', hin, hself'⟩
    · exact Or.inl h
    · refine Or.inr ⟨s, hs, hid, hsub', ?_, hself'⟩
      rw [removeOp_eq]
      refine List.mem_filter.2 ⟨hin, ?_⟩
      rw [liveUn_removeOp, removeOp_eq] at hd
      simp only [List.mem_append, List.mem_filter] at hd
      rcases hd with (hd | hd) | hd
      · simpa [rmHit] using hd.2
      · have := hself d hd (hid ▸ List.mem_map.2 ⟨s, hs, rfl⟩)
        simp only [Bool.not_eq_true', List.contains_eq_mem, List.mem_filter, decide_eq_false_iff_not]
        exact fun hh => this hh.1
      · simpa [rmHit] using hd.2

theorem enterPool_inv (now : τ) (hp : PoolOK w pool) {s : Spec2 τ} (hs : s ∈ pool) {doers : List Id}
    (hnd : s.id ∉ doers) {ds : List (RT2 τ)} (hI : SInv w pool doers ds) {G0 : List Id}
    (hGp : ∀ j, j ∈ Spec2.idsL pool → j ∈ G0) (hG : ∀ j, j ∈ RT2.footL ds → j ∈ G0)
    {e : List (Ev τ)} {r : Option (RT2 τ)} {b : Option Exn2} (he : enterSpec now s = (e, r, b)) :
    Tr w e G0 (RT2.liveIdsL ds) (RT2.liveIdsL (r.toList ++ ds)) ∧ SInv w pool (doers ++ [s.id]) (r.toList ++ ds) ∧
      (∀ j, j ∈ RT2.footL (r.toList ++ ds) → j ∈ G0) ∧
      (∀ x, b = some x → r = none ∧ (x.aborts = false → w = true)) := by
  have hsN : s.ids.Nodup := hp.1.sublist (Spec2.ids_sublist_idsL hs)
  have heN : s.eids.Nodup := hsN.sublist (Spec2.eids_sublist_ids s)
  obtain ⟨heff, hbn⟩ := enterSpec_eff w now s e r b he (Spec2.goodL_mem hp.2.1 hs)
  have hfresh := hI.fresh hp hs hnd
  have hsubL := (heff heN).1
  have hlive : ∀ j, j ∈ s.eids → j ∉ RT2.liveIdsL ds := fun j hj hj' =>
    hfresh j ((Spec2.eids_sublist_ids s).subset hj) (RT2.liveIdsL_sub_footL ds j hj')
  have hsG : ∀ j, j ∈ s.ids → j ∈ G0 := fun j hj => hGp j (Spec2.mem_idsL.2 ⟨s, hs, hj⟩)
  refine ⟨?_, ?_, ?_, hbn⟩
  · refine (heff.toTr_idle heN).loc (fun j hj => hsG j ((Spec2.eids_sublist_ids s).subset hj)) ?_ ?_ ?_
    · intro j hj; simp [hlive j hj]
    · intro j hj; simp [RT2.liveIdsL_append, hlive j hj]
    · intro j hj
      have : j ∉ RT2.liveIdsL r.toList := fun hh => hj (hsubL.subset hh)
      simp [RT2.liveIdsL_append, this]
  · have hI' : SInv w pool (doers ++ [s.id]) ds := hI.mono (fun _ _ h => List.mem_append_left _ h)
    cases r with
    | none => simpa using hI'
    | some r0 =>
      obtain ⟨h1, h2, h3, h4⟩ := enterSpec_wf w now s e r0 b he hsN (Spec2.goodL_mem hp.2.1 hs)
      simp only [Option.toList, List.singleton_append]
      refine hI'.cons (fun j hj => hfresh j (h3 j hj)) (Or.inr ⟨s, hs, h2.symm, h3, ?_, h4 ?_⟩) h1
      · rw [h2]; exact List.mem_append_right _ (List.mem_singleton.2 rfl)
      · exact List.all_eq_true.1 hp.2.2 s hs
  · intro j hj
    rw [RT2.footL_append, List.mem_append] at hj
    rcases hj with hj | hj
    · cases r with
      | none => simp [RT2.footL_nil] at hj
      | some r0 =>
        obtain ⟨_, _, h3, _⟩ := enterSpec_wf w now s e r0 b he hsN (Spec2.goodL_mem hp.2.1 hs)
        simp only [Option.toList, RT2.footL_cons, RT2.footL_nil, List.append_nil] at hj
        exact hsG j (h3 j hj)
    · exact hG j hj

theorem extendList_inv (now : τ) (hp : PoolOK w pool) (un mid : List (RT2 τ)) (G0 : List Id)
    (hGp : ∀ j, j ∈ Spec2.idsL pool → j ∈ G0) :
    ∀ (ks : List Nat) (c : Cyc2 τ) (e : List (Ev τ)) (c1 : Cyc2 τ) (b : Option Exn2),
      extendList pool now ks c = (e, c1, b) →
      SInv w pool c.doers (c.pr ++ mid ++ liveUn c un) →
      (∀ j, j ∈ RT2.footL (c.pr ++ mid ++ liveUn c un) → j ∈ G0) →
      Tr w e G0 (RT2.liveIdsL (c.pr ++ mid ++ liveUn c un)) (RT2.liveIdsL (c1.pr ++ mid ++ liveUn c1 un)) ∧
      SInv w pool c1.doers (c1.pr ++ mid ++ liveUn c1 un) ∧
      (∀ j, j ∈ RT2.footL (c1.pr ++ mid ++ liveUn c1 un) → j ∈ G0) ∧
      (∀ x, b = some x → x.aborts = false → w = true)
  | [], c, e, c1, b, h, hI, hG => by
      rw [extendList] at h
      simp only [Prod.mk.injEq] at h; obtain ⟨rfl, rfl, rfl⟩ := h
      exact ⟨Tr.noop (fun _ _ => rfl), hI, hG, by simp⟩
  | k :: ks, c, e, c1, b, h, hI, hG => by
      rw [extendList] at h
      split at h
      · exact extendList_inv now hp un mid G0 hGp ks c e c1 b h hI hG
      · rename_i s hk
        have hs : s ∈ pool := List.mem_of_getElem? hk
        split at h
        · exact extendList_inv now hp un mid G0 hGp ks c e c1 b h hI hG
        · rename_i hnd
          have hnd' : s.id ∉ c.doers := by simpa using hnd
          split at h
          next e1 r x heq =>
            simp only [Prod.mk.injEq] at h; obtain ⟨rfl, rfl, rfl⟩ := h
            obtain ⟨h1, _, _, h4⟩ := enterPool_inv now hp hs hnd' hI hGp hG heq
            obtain ⟨hr, hx⟩ := h4 x rfl
            subst hr
            exact ⟨by simpa using h1, hI, hG, fun y hy => by cases hy; exact hx⟩
          next e1 r heq =>
            obtain ⟨h1, h2, h3, _⟩ := enterPool_inv now hp hs hnd' hI hGp hG heq
            have p : (r.toList ++ (c.pr ++ mid ++ liveUn c un)).Perm ((c.pr ++ r.toList) ++ mid ++ liveUn c un) := by
              simp only [List.append_assoc]
              rw [← List.append_assoc, ← List.append_assoc c.pr]
              exact List.perm_append_comm.append_right _
            split at h
            next e2 c2 b' heq2 =>
              simp only [Prod.mk.injEq] at h; obtain ⟨rfl, rfl, rfl⟩ := h
              obtain ⟨g1, g2, g3, g4⟩ := extendList_inv now hp un mid G0 hGp ks _ e2 c2 b' heq2
                (h2.perm p) (fun j hj => h3 j ((RT2.footL_perm p j).2 hj))
              exact ⟨(h1.congr (fun _ => Iff.rfl) (fun j => (RT2.liveIdsL_perm p j).symm)).seq g1, g2, g3, g4⟩

theorem applyOps_inv (now : τ) (sid : Id) (hp : PoolOK w pool) (un mid : List (RT2 τ)) (G0 : List Id)
    (hGp : ∀ j, j ∈ Spec2.idsL pool → j ∈ G0) :
    ∀ (ops : List Op) (c : Cyc2 τ) (eo : List (Ev τ)) (c1 : Cyc2 τ) (b : Option Exn2),
      applyOps pool now sid un ops c = (eo, c1, b) →
      (∀ d ∈ mid, d.id ∈ pool.map Spec2.id → ∀ ids, Op.remove ids ∈ ops → d.id ∉ ids) →
      SInv w pool c.doers (c.pr ++ mid ++ liveUn c un) →
      (∀ j, j ∈ RT2.footL (c.pr ++ mid ++ liveUn c un) → j ∈ G0) →
      Tr w eo G0 (RT2.liveIdsL (c.pr ++ mid ++ liveUn c un)) (RT2.liveIdsL (c1.pr ++ mid ++ liveUn c1 un)) ∧
      SInv w pool c1.doers (c1.pr ++ mid ++ liveUn c1 un) ∧
      (∀ j, j ∈ RT2.footL (c1.pr ++ mid ++ liveUn c1 un) → j ∈ G0) ∧
      (∀ x, b = some x → x.aborts = false → w = true)
  | [], c, eo, c1, b, h, _, hI, hG => by
      rw [applyOps] at h
      simp only [Prod.mk.injEq] at h; obtain ⟨rfl, rfl, rfl⟩ := h
      exact ⟨Tr.noop (fun _ _ => rfl), hI, hG, by simp⟩
  | .extend ks :: ops, c, eo, c1, b, h, hself, hI, hG => by
      rw [applyOps] at h
      split at h
      next e c' x heq =>
        simp only [Prod.mk.injEq] at h; obtain ⟨rfl, rfl, rfl⟩ := h
        exact extendList_inv now hp un mid G0 hGp ks c _ _ (some x) heq hI hG
      next e c' heq =>
        obtain ⟨h1, h2, h3, _⟩ := extendList_inv now hp un mid G0 hGp ks c _ _ none heq hI hG
        split at h
        next e2 c2 b' heq2 =>
          simp only [Prod.mk.injEq] at h; obtain ⟨rfl, rfl, rfl⟩ := h
          obtain ⟨g1, g2, g3, g4⟩ := applyOps_inv now sid hp un mid G0 hGp ops c' e2 c2 b' heq2
            (fun d hd hdp ids hin => hself d hd hdp ids (List.mem_cons_of_mem _ hin)) h2 h3
          exact ⟨(h1.seq (Tr.noop (noop_one rfl))).seq g1, g2, g3, g4⟩
  | .remove ids :: ops, c, eo, c1, b, h, hself, hI, hG => by
      rw [applyOps] at h
      split at h
      next e c' heq =>
        have hr := removeOp_inv now sid un ids c mid G0 hI
          (fun d hd hdp => hself d hd hdp ids (List.mem_cons_self ..)) hG
        rw [heq] at hr
        obtain ⟨h1, h2, h3⟩ := hr
        split at h
        next e2 c2 b' heq2 =>
          simp only [Prod.mk.injEq] at h; obtain ⟨rfl, rfl, rfl⟩ := h
          obtain ⟨g1, g2, g3, g4⟩ := applyOps_inv now sid hp un mid G0 hGp ops c' e2 c2 b' heq2
            (fun d hd hdp ids' hin => hself d hd hdp ids' (List.mem_cons_of_mem _ hin)) h2
            (fun j hj => hG j (RT2.footL_sublist h3 j hj))
          exact ⟨(h1.seq (Tr.noop (noop_one rfl))).seq g1, g2, g3, g4⟩

end ops


/-! ### one cycle, with `extend` -/
theorem Tr.seq2 {w : Bool} {a b c : List (Ev τ)} {F L L' L'' : List Id} (h1 : Tr w a F L L')
    (h2 : Tr w (b ++ c) F L' L'') : Tr w (a ++ b ++ c) F L L'' := by
  rw [List.append_assoc]; exact h1.seq h2

/-- events of the single doer `i` -/
theorem Tr.single {w : Bool} {es : List (Ev τ)} {i : Id} {G M M' : List Id} (hid : ∀ e ∈ es, e.id = i)
    (hi : i ∈ G) (hr : lifeRun w i (stOf M i) es = stOf M' i) (hM : ∀ j, j ≠ i → (j ∈ M ↔ j ∈ M')) :
    Tr w es G M M' := by
  have hun : ∀ j, j ≠ i → ∀ s, lifeRun w j s es = s := fun j hj s =>
    lifeRun_untouched w j es (fun e he hej => absurd ((hid e he).symm.trans hej).symm hj) s
  refine ⟨fun j hj s => hun j (fun h => hj (h ▸ hi)) s, fun j _ => ?_⟩
  by_cases hj : j = i
  · rw [hj]; exact hr
  · rw [hun j hj, stOf_congr (hM j hj)]

section runs
variable {w : Bool} {i : Id} {now : τ}
theorem run_recur : lifeRun w i .live [ev i .recur now] = .live := by
  simp [lifeRun_cons, lifeRun_nil, ev, lstep]
theorem run_cleanExit : lifeRun w i .live [ev i .clean now, ev i .exit now] = .idle := by
  simp [lifeRun_cons, lifeRun_nil, ev, lstep]
theorem run_cleanExitEnd : lifeRun w i .live [ev i .clean now, ev i .exit now, ev i .exitEnd now] = .idle := by
  simp [lifeRun_cons, lifeRun_nil, ev, lstep, Kind.isLife]
theorem run_raiseExit {x : Exn2} (hx : x.aborts = false → w = true) :
    lifeRun w i .live (abortEvs i x now ++ [ev i .exit now]) = .idle := by
  cases hxa : x.aborts with
  | true => simp [abortEvs, hxa, lifeRun_cons, lifeRun_nil, ev, lstep]
  | false => have := hx hxa; subst this; simp [abortEvs, hxa, lifeRun_cons, lifeRun_nil, ev, lstep]
theorem ids_raiseExit {x : Exn2} : ∀ e ∈ abortEvs i x now ++ [ev i .exit now], e.id = i := by
  cases hxa : x.aborts <;> simp [abortEvs, hxa, ev]
end runs

theorem headStep_kb {w : Bool} {steps : List (Step2 τ)} (h : kbOK w steps = true) :
    (∀ x, (headStep steps).1.out = .raise x → x.aborts = false → w = true) ∧ kbOK w (headStep steps).2 = true := by
  cases steps with
  | nil => simp [headStep, h]
  | cons s ss =>
    simp only [kbOK, List.all_cons, Bool.or_eq_true, Bool.and_eq_true, headStep] at h ⊢
    rcases h with h | h
    · exact ⟨fun _ _ _ => h, Or.inl h⟩
    · refine ⟨fun x hk hxa => ?_, Or.inr h.2⟩
      have h1 := h.1
      rw [hk] at h1
      simp only at h1
      rw [hxa] at h1; cases h1

theorem headStep_self {i : Id} {steps : List (Step2 τ)} (h : stepsNoSelfRm i steps = true) :
    (∀ ids, Op.remove ids ∈ (headStep steps).1.ops → i ∉ ids) ∧ stepsNoSelfRm i (headStep steps).2 = true := by
  cases steps with
  | nil => simp [headStep, stepsNoSelfRm]
  | cons s ss =>
    simp only [stepsNoSelfRm, List.all_cons, Bool.and_eq_true, headStep] at h ⊢
    refine ⟨fun ids hin => ?_, h.2⟩
    have := List.all_eq_true.1 h.1 _ hin
    simpa using this

theorem RT2.foot_setRetyme (r : τ) (d : RT2 τ) : (d.setRetyme r).foot = d.foot := by
  cases d <;> simp [RT2.setRetyme, RT2.foot]
theorem RT2.id_setRetyme (r : τ) (d : RT2 τ) : (d.setRetyme r).id = d.id := by
  cases d <;> simp [RT2.setRetyme, RT2.id]
theorem RT2.selfOK_setRetyme (r : τ) (d : RT2 τ) : (d.setRetyme r).selfOK = d.selfOK := by
  cases d <;> simp [RT2.setRetyme, RT2.selfOK]
theorem RT2.WF_setRetyme (w : Bool) (r : τ) (d : RT2 τ) : (d.setRetyme r).WF w ↔ d.WF w := by
  cases d <;> simp [RT2.setRetyme, RT2.WF]

theorem DeedOK.replace {pool : List (Spec2 τ)} {doers : List Id} {d d' : RT2 τ} (h : DeedOK pool doers d)
    (hid : d'.id = d.id) (hf : ∀ j, j ∈ d'.foot → j ∈ d.foot) (hs : d.selfOK = true → d'.selfOK = true) :
    DeedOK pool doers d' := by
  rcases h with h | ⟨s, h1, h2, h3, h4, h5⟩
  · exact Or.inl (fun j hj => h j (hf j hj))
  · exact Or.inr ⟨s, h1, h2.trans hid.symm, fun j hj => h3 j (hf j hj), hid ▸ h4, hs h5⟩

/-- localise the effect of the deed in the middle of the zipper -/
theorem Tr.deed {w : Bool} {es : List (Ev τ)} {A B : List (RT2 τ)} {d : RT2 τ} {Lr G0 : List Id}
    (h : Tr w es d.foot d.liveIds Lr) (hLr : ∀ j, j ∈ Lr → j ∈ d.foot)
    (hfd : ∀ j, j ∈ d.foot → j ∉ RT2.footL (A ++ B)) (hG : ∀ j, j ∈ d.foot → j ∈ G0) :
    Tr w es G0 (RT2.liveIdsL (A ++ d :: B)) (RT2.liveIdsL A ++ Lr ++ RT2.liveIdsL B) := by
  have hnl : ∀ j, j ∈ d.foot → j ∉ RT2.liveIdsL A ∧ j ∉ RT2.liveIdsL B := by
    intro j hj
    have := hfd j hj
    rw [RT2.footL_append, List.mem_append, not_or] at this
    exact ⟨fun hh => this.1 (RT2.liveIdsL_sub_footL A j hh), fun hh => this.2 (RT2.liveIdsL_sub_footL B j hh)⟩
  refine h.loc hG ?_ ?_ ?_
  · intro j hj
    simp [RT2.liveIdsL_append, RT2.liveIdsL_cons, (hnl j hj).1, (hnl j hj).2]
  · intro j hj
    simp [(hnl j hj).1, (hnl j hj).2]
  · intro j hj
    have h1 : j ∉ d.liveIds := fun hh => hj (RT2.liveIds_sub_foot d j hh)
    have h2 : j ∉ Lr := fun hh => hj (hLr j hh)
    simp [RT2.liveIdsL_append, RT2.liveIdsL_cons, h1, h2]

section cycle2
variable [Add τ] [LE τ] [DecidableRel (α := τ) (· ≤ ·)] [OfNat τ 0] [BEq τ]

/-- what a resume leaves behind -/
def Res2.ok2 (w : Bool) (rt0 : RT2 τ) : Res2 τ → Prop
  | .yielded rt _ => rt.WF w ∧ rt.id = rt0.id ∧ (∀ j, j ∈ rt.foot → j ∈ rt0.foot) ∧ (rt0.selfOK = true → rt.selfOK = true)
  | .finished => True
  | .raised x => x.aborts = false → w = true

/-- ids left live by a resume -/
def Res2.liveIds : Res2 τ → List Id
  | .yielded rt _ => rt.liveIds
  | _ => []

omit [Add τ] [LE τ] [DecidableRel (α := τ) (· ≤ ·)] [OfNat τ 0] [BEq τ] in
theorem leaf_mid_mem (A B : List (RT2 τ)) (i : Id) (r : τ) (st : List (Step2 τ)) (cf : Bool) (j : Id) :
    j ∈ RT2.liveIdsL (A ++ [RT2.leaf i r st cf] ++ B) ↔ j = i ∨ j ∈ RT2.liveIdsL (A ++ B) := by
  simp only [RT2.liveIdsL_append, RT2.liveIdsL_cons, RT2.liveIdsL_nil, RT2.liveIds_leaf, List.mem_append,
    List.mem_singleton, List.append_nil]
  grind

mutual
theorem resumeGroup_tr (w : Bool) (now : τ) :
    ∀ (rt : RT2 τ), (∀ i r s cf, rt ≠ .leaf i r s cf) → rt.WF w →
      ∀ (es : List (Ev τ)) (res : Res2 τ), resumeGroup now rt = (es, res) →
        Tr w es rt.foot rt.liveIds res.liveIds ∧ res.ok2 w rt
  | .leaf i r s cf, hg, _, _, _, _ => absurd rfl (hg i r s cf)
  | .group i r tock always pool doers deeds cf, _, hwf, es, res, h => by
      simp only [RT2.WF] at hwf
      obtain ⟨hi1, hi2, hp, hpw, hok, hwfl⟩ := hwf
      have hI : SInv w pool doers deeds := ⟨hpw, hok, RT2.WFL_iff.1 hwfl⟩
      have hi : i ∉ RT2.footL deeds ++ Spec2.idsL pool := by simp [hi1, hi2]
      have hK : ∀ j, j ∈ RT2.liveIdsL deeds → j ∈ RT2.footL deeds ++ Spec2.idsL pool :=
        fun j hj => List.mem_append_left _ (RT2.liveIdsL_sub_footL deeds j hj)
      have hrun := fun es' un c x => runCycle_tr w now deeds { doers := doers } pool tock i
        (RT2.footL deeds ++ Spec2.idsL pool) es' un c x hp (by rw [liveUn_fresh]; exact hI)
        (by rw [liveUn_fresh]; exact fun j hj => List.mem_append_left _ hj) (fun j hj => List.mem_append_right _ hj)
      rw [resumeGroup] at h
      simp only [RT2.foot, RT2.liveIds]
      have T1 : Tr w [ev i .recur now] (i :: (RT2.footL deeds ++ Spec2.idsL pool)) (i :: RT2.liveIdsL deeds)
          (i :: RT2.liveIdsL deeds) :=
        Tr.single (by simp [ev]) (List.mem_cons_self ..) (by rw [stOf_mem (List.mem_cons_self ..)]; exact run_recur)
          (fun _ _ => Iff.rfl)
      have T2 : ∀ {es' : List (Ev τ)} {K' : List Id}, Tr w es' (RT2.footL deeds ++ Spec2.idsL pool) (RT2.liveIdsL deeds) K' →
          (∀ j, j ∈ K' → j ∈ RT2.footL deeds ++ Spec2.idsL pool) →
          Tr w es' (i :: (RT2.footL deeds ++ Spec2.idsL pool)) (i :: RT2.liveIdsL deeds) (i :: K') := by
        intro es' K' ht hK'
        refine ht.loc (fun j hj => List.mem_cons_of_mem _ hj) ?_ ?_ ?_
        · intro j hj; have : j ≠ i := fun h => hi (h ▸ hj); simp [this]
        · intro j hj; have : j ≠ i := fun h => hi (h ▸ hj); simp [this]
        · intro j hj
          have h1 : j ∉ RT2.liveIdsL deeds := fun hh => hj (hK j hh)
          have h2 : j ∉ K' := fun hh => hj (hK' j hh)
          simp [h1, h2]
      split at h
      next es' un c x heq =>
        obtain ⟨ht, hI2, hf2, _, hx⟩ := hrun es' un c (some x) heq
        simp only [Prod.mk.injEq] at h; obtain ⟨rfl, rfl⟩ := h
        have ht' : Tr w es' (RT2.footL deeds ++ Spec2.idsL pool) (RT2.liveIdsL deeds) (RT2.liveIdsL (c.pr ++ un)) := by
          rw [liveUn_fresh] at ht; exact ht
        have hK' : ∀ j, j ∈ RT2.liveIdsL (c.pr ++ un) → j ∈ RT2.footL deeds ++ Spec2.idsL pool :=
          fun j hj => hf2 j (RT2.liveIdsL_sub_footL _ j hj)
        have hx' : x.aborts = false → w = true := hx x rfl
        have hiK' : i ∉ RT2.liveIdsL (c.pr ++ un) := fun hh => hi (hK' i hh)
        have T3 : Tr w (abortEvs i x now ++ [ev i .exit now]) (i :: (RT2.footL deeds ++ Spec2.idsL pool))
            (i :: RT2.liveIdsL (c.pr ++ un)) (RT2.liveIdsL (c.pr ++ un)) :=
          Tr.single ids_raiseExit (List.mem_cons_self ..)
            (by rw [stOf_mem (List.mem_cons_self ..), stOf_not_mem hiK']; exact run_raiseExit hx')
            (fun j hj => by simp [hj])
        have T4 : Tr w (closeAllRev now (c.pr ++ un)) (i :: (RT2.footL deeds ++ Spec2.idsL pool))
            (RT2.liveIdsL (c.pr ++ un)) [] :=
          ((closeAllRev_eff w now (c.pr ++ un)).toTr hI2.nodup).weaken
            (fun j hj => List.mem_cons_of_mem _ (hK' j hj)) (fun _ h => h) (by simp)
        exact ⟨((((T1.seq (T2 ht' hK')).seq2 T3).seq T4).seq (Tr.noop (noop_one rfl))), hx'⟩
      next es' un c heq =>
        obtain ⟨ht, hI2, hf2, hun, _⟩ := hrun es' un c none heq
        have hun' := hun rfl; subst hun'
        rw [List.append_nil] at hI2 hf2
        have ht' : Tr w es' (RT2.footL deeds ++ Spec2.idsL pool) (RT2.liveIdsL deeds) (RT2.liveIdsL c.pr) := by
          rw [liveUn_fresh, List.append_nil] at ht; exact ht
        have hK' : ∀ j, j ∈ RT2.liveIdsL c.pr → j ∈ RT2.footL deeds ++ Spec2.idsL pool :=
          fun j hj => hf2 j (RT2.liveIdsL_sub_footL _ j hj)
        have h1 : Tr w ([ev i .recur now] ++ es' ++ [ev i (.flag c.pr.isEmpty) now])
            (i :: (RT2.footL deeds ++ Spec2.idsL pool)) (i :: RT2.liveIdsL deeds) (i :: RT2.liveIdsL c.pr) :=
          (T1.seq (T2 ht' hK')).seq (Tr.noop (noop_one rfl))
        simp only at h
        split at h
        · simp only [Prod.mk.injEq] at h; obtain ⟨rfl, rfl⟩ := h
          refine ⟨by simpa only [Res2.liveIds, RT2.liveIds] using h1, ?_⟩
          simp only [Res2.ok2, RT2.WF, RT2.foot, RT2.id]
          refine ⟨⟨fun hh => hi (hf2 i hh), hi2, hp, hI2.pw, hI2.ok, RT2.WFL_iff.2 hI2.wf⟩, trivial, ?_, fun _ => rfl⟩
          intro j hj
          rcases List.mem_cons.1 hj with hj | hj
          · exact hj ▸ List.mem_cons_self ..
          · rcases List.mem_append.1 hj with hj | hj
            · exact List.mem_cons_of_mem _ (hf2 j hj)
            · exact List.mem_cons_of_mem _ (List.mem_append_right _ hj)
        · rename_i hne
          have hemp : c.pr = [] := by
            cases hpr : c.pr with
            | nil => rfl
            | cons a b => simp [hpr] at hne
          have T5 : Tr w [ev i .clean now, ev i .exit now, ev i .exitEnd now] (i :: (RT2.footL deeds ++ Spec2.idsL pool))
              (i :: RT2.liveIdsL c.pr) [] := by
            rw [hemp, RT2.liveIdsL_nil]
            exact Tr.single (by simp [ev]) (List.mem_cons_self ..)
              (by rw [stOf_mem (List.mem_cons_self ..), stOf_not_mem (by simp)]; exact run_cleanExitEnd)
              (fun j hj => by simp [hj])
          split at h
          · simp only [Prod.mk.injEq] at h; obtain ⟨rfl, rfl⟩ := h
            exact ⟨h1.seq T5, by simp [Res2.ok2, Exn2.aborts]⟩
          · simp only [Prod.mk.injEq] at h; obtain ⟨rfl, rfl⟩ := h
            exact ⟨h1.seq T5, trivial⟩
theorem runCycle_tr (w : Bool) (now : τ) :
    ∀ (un : List (RT2 τ)) (c : Cyc2 τ) (pool : List (Spec2 τ)) (stock : τ) (sid : Id) (G0 : List Id)
      (es : List (Ev τ)) (un2 : List (RT2 τ)) (c2 : Cyc2 τ) (x : Option Exn2),
      PoolOK w pool → SInv w pool c.doers (c.pr ++ liveUn c un) →
      (∀ j, j ∈ RT2.footL (c.pr ++ liveUn c un) → j ∈ G0) → (∀ j, j ∈ Spec2.idsL pool → j ∈ G0) →
      runCycle pool now stock sid un c = (es, un2, c2, x) →
      Tr w es G0 (RT2.liveIdsL (c.pr ++ liveUn c un)) (RT2.liveIdsL (c2.pr ++ un2)) ∧
        SInv w pool c2.doers (c2.pr ++ un2) ∧ (∀ j, j ∈ RT2.footL (c2.pr ++ un2) → j ∈ G0) ∧
        (x = none → un2 = []) ∧ (∀ y, x = some y → y.aborts = false → w = true)
  | [], c, pool, stock, sid, G0, es, un2, c2, x, _, hI, hG, _, h => by
      rw [runCycle] at h
      simp only [Prod.mk.injEq] at h; obtain ⟨rfl, rfl, rfl, rfl⟩ := h
      have e0 : liveUn c ([] : List (RT2 τ)) = [] := by simp [liveUn]
      rw [e0] at hI hG ⊢
      exact ⟨Tr.noop (fun _ _ => rfl), hI, hG, fun _ => rfl, by simp⟩
  | .leaf i r steps cf :: un, c, pool, stock, sid, G0, es, un2, c2, x, hp, hI, hG, hGp, h => by
      rw [runCycle] at h
      split at h
      · rename_i hgone
        rw [liveUn_cons_gone hgone] at hI hG ⊢
        exact runCycle_tr w now un c pool stock sid G0 es un2 c2 x hp hI hG hGp h
      · rename_i hgone
        rw [liveUn_cons_live hgone] at hI hG ⊢
        split at h
        · conv at h => zeta
          have e1 : c.pr ++ RT2.leaf i r steps cf :: liveUn c un = c.pr ++ [RT2.leaf i r steps cf] ++ liveUn c un := by simp
          obtain ⟨_, _, hokd, hwfd⟩ := hI.mid
          simp only [RT2.WF] at hwfd
          obtain ⟨hkb, hrest⟩ := headStep_kb hwfd
          have hselfd : i ∈ pool.map Spec2.id → stepsNoSelfRm i steps = true := by
            intro hin
            rcases hokd with hok | ⟨s, _, _, _, _, hs5⟩
            · obtain ⟨s, hs, hid⟩ := List.mem_map.1 hin
              exact absurd (Spec2.mem_idsL.2 ⟨s, hs, hid ▸ Spec2.id_mem_ids s⟩) (hok i (by simp [RT2.foot]))
            · simpa [RT2.selfOK] using hs5
          have hiG0 : i ∈ G0 := hG i (RT2.mem_footL.2 ⟨RT2.leaf i r steps cf, by simp, by simp [RT2.foot]⟩)
          split at h
          next eo c1 opRaised heq =>
            rw [e1] at hI hG ⊢
            obtain ⟨ht, hI1, hG1, hxo⟩ := applyOps_inv now sid hp un [RT2.leaf i r steps cf] G0 hGp _ c eo c1 opRaised heq
              (by intro d hd hdp ids hin
                  rw [List.mem_singleton.1 hd] at hdp ⊢
                  exact (headStep_self (hselfd hdp)).1 ids hin) hI hG
            have e2 : c1.pr ++ [RT2.leaf i r steps cf] ++ liveUn c1 un = c1.pr ++ RT2.leaf i r steps cf :: liveUn c1 un := by
              simp
            have hI1m := hI1
            rw [e2] at hI1m
            obtain ⟨hI10, hfd1, _, _⟩ := hI1m.mid
            have hinot1 : i ∉ RT2.liveIdsL (c1.pr ++ liveUn c1 un) :=
              fun hh => hfd1 i (by simp [RT2.foot]) (RT2.liveIdsL_sub_footL _ i hh)
            have hG10 : ∀ j, j ∈ RT2.footL (c1.pr ++ liveUn c1 un) → j ∈ G0 := fun j hj =>
              hG1 j (RT2.footL_sublist ((List.sublist_append_left _ _).append (List.Sublist.refl _)) j hj)
            have T1 : Tr w [ev i .recur now] G0 (RT2.liveIdsL (c.pr ++ [RT2.leaf i r steps cf] ++ liveUn c un))
                (RT2.liveIdsL (c.pr ++ [RT2.leaf i r steps cf] ++ liveUn c un)) :=
              Tr.single (by simp [ev]) hiG0
                (by rw [stOf_mem ((leaf_mid_mem ..).2 (Or.inl rfl))]; exact run_recur) (fun _ _ => Iff.rfl)
            have hrec := T1.seq ht
            have Tclose : ∀ (evs : List (Ev τ)), (∀ e ∈ evs, e.id = i) → lifeRun w i .live evs = .idle →
                Tr w evs G0 (RT2.liveIdsL (c1.pr ++ [RT2.leaf i r steps cf] ++ liveUn c1 un))
                  (RT2.liveIdsL (c1.pr ++ liveUn c1 un)) := fun evs hid hr =>
              Tr.single hid hiG0
                (by rw [stOf_mem ((leaf_mid_mem ..).2 (Or.inl rfl)), stOf_not_mem hinot1]; exact hr)
                (fun j hj => by rw [leaf_mid_mem]; simp [hj])
            split at h
            next x' hout =>
              simp only [Prod.mk.injEq] at h; obtain ⟨rfl, rfl, rfl, rfl⟩ := h
              have hx : x'.aborts = false → w = true := by
                cases opRaised with
                | some y =>
                  simp only [Out2.raise.injEq] at hout
                  exact hout ▸ hxo y rfl
                | none => exact hkb x' hout
              exact ⟨hrec.seq2 (Tclose _ ids_raiseExit (run_raiseExit hx)), hI10, hG10, fun hk => by simp at hk,
                fun y hy => by cases hy; exact hx⟩
            next v hout =>
              split at h
              · simp only [Prod.mk.injEq] at h; obtain ⟨rfl, rfl, rfl, rfl⟩ := h
                exact ⟨hrec.seq (Tclose _ (by simp [ev]) run_cleanExit), hI10, hG10, fun hk => by simp at hk,
                  fun y hy => by cases hy; simp [Exn2.aborts]⟩
              · split at h
                next e2' un2' c2' x' heq2 =>
                  simp only [Prod.mk.injEq] at h; obtain ⟨rfl, rfl, rfl, rfl⟩ := h
                  obtain ⟨g1, g2⟩ := runCycle_tr w now un c1 pool stock sid G0 e2' un2' c2' x' hp hI10 hG10 hGp heq2
                  exact ⟨((hrec.seq (Tclose _ (by simp [ev]) run_cleanExit)).seq (Tr.noop (noop_flagEvs v))).seq g1, g2⟩
            next t hout =>
              split at h
              next e2' un2' c2' x' heq2 =>
                simp only [Prod.mk.injEq] at h; obtain ⟨rfl, rfl, rfl, rfl⟩ := h
                have hI1' : SInv w pool c1.doers
                    ((c1.pr ++ [RT2.leaf i (nextDue now stock r t) (headStep steps).2 cf]) ++ liveUn c1 un) :=
                  hI1m.replace (by simp [RT2.foot])
                    (fun hok => hok.replace rfl (by simp [RT2.foot])
                      (fun hs => by simp only [RT2.selfOK] at hs ⊢; exact (headStep_self hs).2))
                    (by simp only [RT2.WF]; exact hrest)
                have e3 : RT2.liveIdsL (c1.pr ++ [RT2.leaf i r steps cf] ++ liveUn c1 un) =
                    RT2.liveIdsL ((c1.pr ++ [RT2.leaf i (nextDue now stock r t) (headStep steps).2 cf]) ++ liveUn c1 un) := by
                  simp [RT2.liveIdsL_append, RT2.liveIdsL_cons, RT2.liveIds_leaf]
                have e4 : RT2.footL ((c1.pr ++ [RT2.leaf i (nextDue now stock r t) (headStep steps).2 cf]) ++ liveUn c1 un) =
                    RT2.footL (c1.pr ++ [RT2.leaf i r steps cf] ++ liveUn c1 un) := by
                  simp [RT2.footL_append, RT2.footL_cons, RT2.foot]
                obtain ⟨g1, g2⟩ := runCycle_tr w now un
                  { c1 with pr := c1.pr ++ [RT2.leaf i (nextDue now stock r t) (headStep steps).2 cf] }
                  pool stock sid G0 e2' un2' c2' x' hp hI1' (fun j hj => hG1 j (e4 ▸ hj)) hGp heq2
                have g1' : Tr w e2' G0
                    (RT2.liveIdsL ((c1.pr ++ [RT2.leaf i (nextDue now stock r t) (headStep steps).2 cf]) ++ liveUn c1 un))
                    (RT2.liveIdsL (c2'.pr ++ un2')) := g1
                rw [← e3] at g1'
                exact ⟨hrec.seq g1', g2⟩
        · have e0 : c.pr ++ RT2.leaf i r steps cf :: liveUn c un = (c.pr ++ [RT2.leaf i r steps cf]) ++ liveUn c un := by simp
          rw [e0] at hI hG ⊢
          exact runCycle_tr w now un { c with pr := c.pr ++ [RT2.leaf i r steps cf] } pool stock sid G0 es un2 c2 x hp hI hG hGp h
  | .group i r tock always gpool doers deeds cf :: un, c, pool, stock, sid, G0, es, un2, c2, x, hp, hI, hG, hGp, h => by
      rw [runCycle] at h
      split at h
      · rename_i hgone
        rw [liveUn_cons_gone hgone] at hI hG ⊢
        exact runCycle_tr w now un c pool stock sid G0 es un2 c2 x hp hI hG hGp h
      · rename_i hgone
        rw [liveUn_cons_live hgone] at hI hG ⊢
        split at h
        · obtain ⟨hI0, hfd, _, hwfd⟩ := hI.mid
          have hGd : ∀ j, j ∈ (RT2.group i r tock always gpool doers deeds cf).foot → j ∈ G0 :=
            fun j hj => hG j (RT2.mem_footL.2 ⟨_, by simp, hj⟩)
          have hG00 : ∀ j, j ∈ RT2.footL (c.pr ++ liveUn c un) → j ∈ G0 := fun j hj =>
            hG j (RT2.footL_sublist ((List.Sublist.refl _).append (List.sublist_cons_self _ _)) j hj)
          split at h
          next eg x' heq =>
            obtain ⟨heg, hok⟩ := resumeGroup_tr w now _ (fun _ _ _ _ hh => by cases hh) hwfd eg _ heq
            simp only [Prod.mk.injEq] at h; obtain ⟨rfl, rfl, rfl, rfl⟩ := h
            have := heg.deed (A := c.pr) (B := liveUn c un) (G0 := G0) (by simp [Res2.liveIds]) hfd hGd
            simp only [Res2.liveIds, List.append_nil] at this
            rw [← RT2.liveIdsL_append] at this
            exact ⟨this, hI0, hG00, fun hk => by simp at hk, fun y hy => by cases hy; exact hok⟩
          next eg heq =>
            obtain ⟨heg, _⟩ := resumeGroup_tr w now _ (fun _ _ _ _ hh => by cases hh) hwfd eg _ heq
            have := heg.deed (A := c.pr) (B := liveUn c un) (G0 := G0) (by simp [Res2.liveIds]) hfd hGd
            simp only [Res2.liveIds, List.append_nil] at this
            rw [← RT2.liveIdsL_append] at this
            split at h
            next e2' un2' c2' x' heq2 =>
              simp only [Prod.mk.injEq] at h; obtain ⟨rfl, rfl, rfl, rfl⟩ := h
              obtain ⟨g1, g2⟩ := runCycle_tr w now un c pool stock sid G0 e2' un2' c2' x' hp hI0 hG00 hGp heq2
              exact ⟨(this.seq (Tr.noop (noop_one rfl))).seq g1, g2⟩
          next eg rt t heq =>
            obtain ⟨heg, hok⟩ := resumeGroup_tr w now _ (fun _ _ _ _ hh => by cases hh) hwfd eg _ heq
            simp only [Res2.ok2] at hok
            obtain ⟨hk1, hk2, hk3, hk4⟩ := hok
            have := heg.deed (A := c.pr) (B := liveUn c un) (G0 := G0)
              (by simp only [Res2.liveIds]; exact fun j hj => hk3 j (RT2.liveIds_sub_foot rt j hj)) hfd hGd
            simp only [Res2.liveIds] at this
            split at h
            next e2' un2' c2' x' heq2 =>
              simp only [Prod.mk.injEq] at h; obtain ⟨rfl, rfl, rfl, rfl⟩ := h
              have hI' : SInv w pool c.doers
                  ((c.pr ++ [rt.setRetyme (nextDue now stock r (some t))]) ++ liveUn c un) :=
                hI.replace (by rw [RT2.foot_setRetyme]; exact hk3)
                  (fun hok => hok.replace (by rw [RT2.id_setRetyme]; exact hk2) (by rw [RT2.foot_setRetyme]; exact hk3)
                    (by rw [RT2.selfOK_setRetyme]; exact hk4))
                  ((RT2.WF_setRetyme w _ rt).2 hk1)
              have e3 : RT2.liveIdsL ((c.pr ++ [rt.setRetyme (nextDue now stock r (some t))]) ++ liveUn c un) =
                  RT2.liveIdsL c.pr ++ rt.liveIds ++ RT2.liveIdsL (liveUn c un) := by
                simp [RT2.liveIdsL_append, RT2.liveIdsL_cons, RT2.liveIds_setRetyme]
              have hG' : ∀ j, j ∈ RT2.footL ((c.pr ++ [rt.setRetyme (nextDue now stock r (some t))]) ++ liveUn c un) →
                  j ∈ G0 := by
                intro j hj
                simp only [RT2.footL_append, RT2.footL_cons, RT2.footL_nil, RT2.foot_setRetyme, List.append_nil,
                  List.mem_append] at hj
                rcases hj with (hj | hj) | hj
                · exact hG00 j (by rw [RT2.footL_append]; exact List.mem_append_left _ hj)
                · exact hGd j (hk3 j hj)
                · exact hG00 j (by rw [RT2.footL_append]; exact List.mem_append_right _ hj)
              obtain ⟨g1, g2⟩ := runCycle_tr w now un
                { c with pr := c.pr ++ [rt.setRetyme (nextDue now stock r (some t))] }
                pool stock sid G0 e2' un2' c2' x' hp hI' hG' hGp heq2
              have g1' : Tr w e2' G0
                  (RT2.liveIdsL ((c.pr ++ [rt.setRetyme (nextDue now stock r (some t))]) ++ liveUn c un))
                  (RT2.liveIdsL (c2'.pr ++ un2')) := g1
              rw [e3] at g1'
              exact ⟨this.seq g1', g2⟩
        · have e0 : c.pr ++ RT2.group i r tock always gpool doers deeds cf :: liveUn c un =
              (c.pr ++ [RT2.group i r tock always gpool doers deeds cf]) ++ liveUn c un := by simp
          rw [e0] at hI hG ⊢
          exact runCycle_tr w now un { c with pr := c.pr ++ [RT2.group i r tock always gpool doers deeds cf] }
            pool stock sid G0 es un2 c2 x hp hI hG hGp h
end


/-! ### the whole run, with `extend` -/
omit [Add τ] [LE τ] [DecidableRel (α := τ) (· ≤ ·)] [OfNat τ 0] [BEq τ] in
theorem stopEvs_tr {w : Bool} {pool : List (Spec2 τ)} {doers : List Id} {ds : List (RT2 τ)} {G0 : List Id} (now : τ)
    (hI : SInv w pool doers ds) (hG : ∀ j, j ∈ RT2.footL ds → j ∈ G0) :
    Tr w (stopEvs now ds) G0 (RT2.liveIdsL ds) [] :=
  ((stopEvs_eff w now ds).toTr hI.nodup).weaken (fun j hj => hG j (RT2.liveIdsL_sub_footL ds j hj))
    (fun _ h => h) (by simp)

theorem doLoop_tr (w : Bool) (pool : List (Spec2 τ)) (hp : PoolOK w pool) (tock : τ) (G0 : List Id)
    (hGp : ∀ j, j ∈ Spec2.idsL pool → j ∈ G0) :
    ∀ (stopAt : Option τ) (fuel n : Nat) (now : τ) (deeds : List (RT2 τ)) (doers : List Id),
      SInv w pool doers deeds → (∀ j, j ∈ RT2.footL deeds → j ∈ G0) →
      Tr w (doLoop pool tock stopAt fuel n now deeds doers).evs G0 (RT2.liveIdsL deeds) []
  | stopAt, 0, n, now, deeds, doers, hI, hG => by
      rw [doLoop]; exact stopEvs_tr now hI hG
  | stopAt, fuel+1, n, now, deeds, doers, hI, hG => by
      have hrun := fun es un c x => runCycle_tr w now deeds { doers := doers } pool tock 0 G0 es un c x hp
        (by rw [liveUn_fresh]; exact hI) (by rw [liveUn_fresh]; exact hG) hGp
      rw [doLoop]
      split
      next es un c x heq =>
        obtain ⟨ht, hI2, hf2, _, _⟩ := hrun es un c (some x) heq
        rw [liveUn_fresh] at ht
        exact Tr.seq ht (stopEvs_tr now hI2 hf2)
      next es un c heq =>
        obtain ⟨ht, hI2, hf2, hun, _⟩ := hrun es un c none heq
        have hun' := hun rfl; subst hun'
        rw [liveUn_fresh] at ht
        rw [List.append_nil] at ht hI2 hf2
        have ht' : Tr w es G0 (RT2.liveIdsL deeds) (RT2.liveIdsL c.pr) := ht
        conv => zeta
        split
        · rename_i hemp
          have hemp' : c.pr = [] := by
            cases hpr : c.pr with
            | nil => rfl
            | cons a b => simp [hpr] at hemp
          rw [hemp'] at ht' hI2 hf2
          exact ht'.seq (stopEvs_tr _ hI2 hf2)
        · have hrec := fun sa => doLoop_tr w pool hp tock G0 hGp sa fuel (n+1) (now + tock) c.pr c.doers hI2 hf2
          split
          · split
            · exact ht'.seq (stopEvs_tr _ hI2 hf2)
            · exact ht'.seq (hrec _)
          · simp only [Bool.false_eq_true, if_false]
            exact ht'.seq (hrec _)

/-- C01 with `extend`: all ids of the program distinct, pools well-behaved -/
theorem lifecycle_of_good (w : Bool) (pool : List (Spec2 τ)) (tock start : τ) (limit : Option τ) (fuel : Nat)
    (specs : List (Spec2 τ)) (hN : (Spec2.idsL specs ++ Spec2.idsL pool).Nodup)
    (hgs : Spec2.goodL w specs = true) (hgp : Spec2.goodL w pool = true) (hsp : pool.all Spec2.selfOK = true) :
    LifecycleWF w (doistDo pool tock start limit fuel specs).evs := by
  have hn := List.nodup_append.1 hN
  have hp : PoolOK w pool := ⟨hn.2.1, hgp, hsp⟩
  have heN : (Spec2.eidsL specs).Nodup := hn.1.sublist (Spec2.eidsL_sublist_idsL specs)
  rw [doistDo]
  split
  next es deeds x heq =>
    obtain ⟨he, _⟩ := enterList_eff w start specs es deeds (some x) heq hgs
    exact (he.seq (stopEvs_eff w start deeds)).lifecycle heN
  next es deeds heq =>
    obtain ⟨he, _⟩ := enterList_eff w start specs es deeds none heq hgs
    obtain ⟨hwfl, hpw, hfoot⟩ := enterList_wf w start specs es deeds none heq hn.1 hgs
    have hI : SInv w pool (specs.map Spec2.id) deeds :=
      ⟨hpw, fun d hd => Or.inl (fun j hj hj' => hn.2.2 j (hfoot d hd j hj) j hj' rfl), RT2.WFL_iff.1 hwfl⟩
    have hG : ∀ j, j ∈ RT2.footL deeds → j ∈ Spec2.idsL specs ++ Spec2.idsL pool := by
      intro j hj
      obtain ⟨d, hd, hjd⟩ := RT2.mem_footL.1 hj
      exact List.mem_append_left _ (hfoot d hd j hjd)
    have T1 : Tr w es (Spec2.idsL specs ++ Spec2.idsL pool) [] (RT2.liveIdsL deeds) :=
      (he.toTr_idle heN).weaken
        (fun j hj => List.mem_append_left _ ((Spec2.eidsL_sublist_idsL specs).subset hj)) (by simp)
        (fun j hj => (he heN).1.subset hj)
    have T2 := doLoop_tr w pool hp tock (Spec2.idsL specs ++ Spec2.idsL pool) (fun j hj => List.mem_append_right _ hj)
      (limit.map (start + ·)) fuel 0 start deeds (specs.map Spec2.id) hI hG
    have T := T1.seq T2
    intro i
    show lifeRun w i .idle (es ++ _) = .idle
    by_cases hi : i ∈ Spec2.idsL specs ++ Spec2.idsL pool
    · have := T.2 i hi
      simpa [stOf] using this
    · exact T.1 i hi _


end cycle2

/-! ### readable static hypotheses for the full theorem -/
/-- every exception a script raises is an `Exception` (`.err`): no KeyboardInterrupt / SystemExit -/
def stepsOnlyErr (steps : List (Step2 τ)) : Bool :=
  steps.all (fun s => match s.out with | .raise x => decide (x = .err) | _ => true)

/-- same for what an enter action raises -/
def actOnlyErr : EnterAct2 → Bool
  | .fail x => decide (x = .err)
  | _ => true

mutual
/-- no BaseException anywhere in the spec: every `Out2.raise x` and every `EnterAct2.fail x`, in kids and pools at
any depth, has `x = .err` -/
def Spec2.onlyErr : Spec2 τ → Bool
  | .leaf _ act steps _ => actOnlyErr act && stepsOnlyErr steps
  | .group _ _ _ kids pool _ => Spec2.onlyErrL kids && Spec2.onlyErrL pool
def Spec2.onlyErrL : List (Spec2 τ) → Bool
  | [] => true
  | s :: ss => s.onlyErr && Spec2.onlyErrL ss
end

theorem actOK_of (w : Bool) (act : EnterAct2) (h : w = true ∨ actOnlyErr act = true) : actOK w act = true := by
  cases act with
  | fail x =>
    rcases h with h | h
    · simp [actOK, h]
    · simp only [actOnlyErr, decide_eq_true_eq] at h
      simp [actOK, h, Exn2.aborts]
  | ok => rfl
  | done v => rfl

theorem kbOK_of (w : Bool) (steps : List (Step2 τ)) (h : w = true ∨ stepsOnlyErr steps = true) :
    kbOK w steps = true := by
  rcases h with h | h
  · simp [kbOK, h]
  · simp only [kbOK, Bool.or_eq_true]
    right
    rw [stepsOnlyErr, List.all_eq_true] at h
    rw [List.all_eq_true]
    intro s hs
    have := h s hs
    cases ho : s.out with
    | raise x =>
      rw [ho] at this
      simp only [decide_eq_true_eq] at this
      simp [this, Exn2.aborts]
    | ret v => rfl
    | yieldT t => rfl

mutual
/-- in every pool at any depth below this spec, no member removes itself -/
def Spec2.poolsNoSelfRemove : Spec2 τ → Bool
  | .leaf _ _ _ _ => true
  | .group _ _ _ kids pool _ =>
      Spec2.poolsNoSelfRemoveL kids && Spec2.poolsNoSelfRemoveL pool && pool.all Spec2.selfOK
def Spec2.poolsNoSelfRemoveL : List (Spec2 τ) → Bool
  | [] => true
  | s :: ss => s.poolsNoSelfRemove && Spec2.poolsNoSelfRemoveL ss
end

/-- "no pool doer removes itself": a doer that can be `extend`ed in (a member of the Doist's pool or of the
pool of any DoDoer of the program) never issues `remove` with its own id -/
def noPoolSelfRemove (specs pool : List (Spec2 τ)) : Bool :=
  Spec2.poolsNoSelfRemoveL specs && Spec2.poolsNoSelfRemoveL pool && pool.all Spec2.selfOK

mutual
theorem Spec2.good_of (w : Bool) : ∀ s : Spec2 τ, (w = true ∨ s.onlyErr = true) →
    s.poolsNoSelfRemove = true → s.good w = true
  | .leaf _ act steps _, hk, _ => by
      simp only [Spec2.good, Bool.and_eq_true]
      refine ⟨actOK_of w act ?_, kbOK_of w steps ?_⟩
      · rcases hk with hk | hk
        · exact Or.inl hk
        · simp only [Spec2.onlyErr, Bool.and_eq_true] at hk; exact Or.inr hk.1
      · rcases hk with hk | hk
        · exact Or.inl hk
        · simp only [Spec2.onlyErr, Bool.and_eq_true] at hk; exact Or.inr hk.2
  | .group _ _ _ kids pool _, hk, hs => by
      simp only [Spec2.poolsNoSelfRemove, Bool.and_eq_true] at hs
      simp only [Spec2.good, Bool.and_eq_true]
      have hk1 : w = true ∨ Spec2.onlyErrL kids = true := by
        rcases hk with hk | hk
        · exact Or.inl hk
        · simp only [Spec2.onlyErr, Bool.and_eq_true] at hk; exact Or.inr hk.1
      have hk2 : w = true ∨ Spec2.onlyErrL pool = true := by
        rcases hk with hk | hk
        · exact Or.inl hk
        · simp only [Spec2.onlyErr, Bool.and_eq_true] at hk; exact Or.inr hk.2
      exact ⟨⟨Spec2.goodL_of w kids hk1 hs.1.1, Spec2.goodL_of w pool hk2 hs.1.2⟩, hs.2⟩
theorem Spec2.goodL_of (w : Bool) : ∀ ss : List (Spec2 τ), (w = true ∨ Spec2.onlyErrL ss = true) →
    Spec2.poolsNoSelfRemoveL ss = true → Spec2.goodL w ss = true
  | [], _, _ => by simp [Spec2.goodL]
  | s :: ss, hk, hs => by
      simp only [Spec2.poolsNoSelfRemoveL, Bool.and_eq_true] at hs
      simp only [Spec2.goodL, Bool.and_eq_true]
      have hk1 : w = true ∨ s.onlyErr = true := by
        rcases hk with hk | hk
        · exact Or.inl hk
        · simp only [Spec2.onlyErrL, Bool.and_eq_true] at hk; exact Or.inr hk.1
      have hk2 : w = true ∨ Spec2.onlyErrL ss = true := by
        rcases hk with hk | hk
        · exact Or.inl hk
        · simp only [Spec2.onlyErrL, Bool.and_eq_true] at hk; exact Or.inr hk.2
      exact ⟨Spec2.good_of w s hk1 hs.1, Spec2.goodL_of w ss hk2 hs.2⟩
end

/-- C01 in full on the second-generation model, both automata -/
theorem lifecycle_of_static [Add τ] [LE τ] [DecidableRel (α := τ) (· ≤ ·)] [OfNat τ 0] [BEq τ]
    (w : Bool) (pool : List (Spec2 τ)) (tock start : τ) (limit : Option τ) (fuel : Nat)
    (specs : List (Spec2 τ)) (hN : (Spec2.idsL specs ++ Spec2.idsL pool).Nodup)
    (hS : noPoolSelfRemove specs pool = true)
    (hK : w = true ∨ (Spec2.onlyErrL specs = true ∧ Spec2.onlyErrL pool = true)) :
    LifecycleWF w (doistDo pool tock start limit fuel specs).evs := by
  simp only [noPoolSelfRemove, Bool.and_eq_true] at hS
  refine lifecycle_of_good w pool tock start limit fuel specs hN
    (Spec2.goodL_of w specs ?_ hS.1.1) (Spec2.goodL_of w pool ?_ hS.1.2) hS.2
  · rcases hK with hK | hK
    · exact Or.inl hK
    · exact Or.inr hK.1
  · rcases hK with hK | hK
    · exact Or.inl hK
    · exact Or.inr hK.2

end Hio.Sched2
