import HioModel.Sched.Model
import HioModel.Sched.Model2
/-!
# `Model2` on scripts without the new data IS `Model`

`embSpec` / `embRT` embed the scripts and run-time doers of `Hio.Sched` into those of `Hio.Sched2`
(`cleanFails := false`, `fail ↦ fail .err`, exception kinds `err ↦ err`, `kbint ↦ kbint`).  Every function of
`Model2` commutes with the embedding; `doistDo_embed` is the statement for a whole run.
Imports the two models only.
-/
namespace Hio.Sched2
open Hio.Sched (Id Kind Ev ev Op flagEvs Exn Out Step EnterAct Spec RT Cyc Res Final nextDue)

variable {τ : Type}

/-! ### the embedding -/

def embExn : Exn → Exn2
  | .err => .err
  | .kbint => .kbint

def embOut : Out τ → Out2 τ
  | .yieldT t => .yieldT t
  | .ret v => .ret v
  | .raise e => .raise (embExn e)

def embStep (s : Step τ) : Step2 τ := ⟨s.ops, embOut s.out⟩

def embAct : EnterAct → EnterAct2
  | .ok => .ok
  | .fail => .fail .err
  | .done v => .done v

mutual
def embSpec : Spec τ → Spec2 τ
  | .leaf i act steps => .leaf i (embAct act) (steps.map embStep) false
  | .group i tock always kids pool => .group i tock always (embSpecL kids) (embSpecL pool) false
def embSpecL : List (Spec τ) → List (Spec2 τ)
  | [] => []
  | s :: ss => embSpec s :: embSpecL ss
end

mutual
def embRT : RT τ → RT2 τ
  | .leaf i r steps => .leaf i r (steps.map embStep) false
  | .group i r tock always pool doers deeds => .group i r tock always (embSpecL pool) doers (embRTL deeds) false
def embRTL : List (RT τ) → List (RT2 τ)
  | [] => []
  | d :: ds => embRT d :: embRTL ds
end

def embCyc (c : Cyc τ) : Cyc2 τ := ⟨embRTL c.pr, c.doers, c.gone⟩

def embRes : Res τ → Res2 τ
  | .yielded rt t => .yielded (embRT rt) t
  | .finished => .finished
  | .raised e => .raised (embExn e)

/-- `Model` reports "an enter raised" as a Bool; it is always an `Exception` there -/
def embB (b : Bool) : Option Exn2 := if b then some .err else none

def embFinal (f : Final τ) : Final2 τ := ⟨f.evs, f.done, f.tyme, embB f.raised, f.fuelOut, f.doers, f.cycles⟩

/-! ### list facts -/

theorem embSpecL_eq_map (l : List (Spec τ)) : embSpecL l = l.map embSpec := by
  induction l with
  | nil => rfl
  | cons s l ih => rw [embSpecL, ih]; rfl

theorem embRTL_eq_map (l : List (RT τ)) : embRTL l = l.map embRT := by
  induction l with
  | nil => rfl
  | cons s l ih => rw [embRTL, ih]; rfl

theorem embRTL_append (a b : List (RT τ)) : embRTL (a ++ b) = embRTL a ++ embRTL b := by
  simp only [embRTL_eq_map, List.map_append]

theorem embRTL_toList (r : Option (RT τ)) : embRTL r.toList = (r.map embRT).toList := by
  cases r <;> rfl

theorem embRT_id (d : RT τ) : (embRT d).id = d.id := by cases d <;> rfl
theorem embRT_retyme (d : RT τ) : (embRT d).retyme = d.retyme := by cases d <;> rfl
theorem embRT_setRetyme (r : τ) (d : RT τ) : (embRT d).setRetyme r = embRT (d.setRetyme r) := by cases d <;> rfl
theorem embSpec_id (s : Spec τ) : (embSpec s).id = s.id := by cases s <;> rfl

theorem embSpecL_map_id (l : List (Spec τ)) : (embSpecL l).map Spec2.id = l.map Spec.id := by
  induction l with
  | nil => rfl
  | cons s l ih => rw [embSpecL, List.map_cons, List.map_cons, ih, embSpec_id]

theorem embSpecL_getElem? (l : List (Spec τ)) (k : Nat) : (embSpecL l)[k]? = l[k]?.map embSpec := by
  rw [embSpecL_eq_map, List.getElem?_map]

theorem embRTL_filter (p : Id → Bool) (l : List (RT τ)) :
    (embRTL l).filter (fun d => p d.id) = embRTL (l.filter (fun d => p d.id)) := by
  induction l with
  | nil => rfl
  | cons d l ih =>
      rw [embRTL, List.filter_cons, List.filter_cons, embRT_id]
      cases p d.id
      · simpa using ih
      · simp only [if_true, embRTL, ih]

theorem embRTL_map_id (l : List (RT τ)) : (embRTL l).map RT2.id = l.map RT.id := by
  induction l with
  | nil => rfl
  | cons s l ih => rw [embRTL, List.map_cons, List.map_cons, ih, embRT_id]

theorem embRTL_isEmpty (l : List (RT τ)) : (embRTL l).isEmpty = l.isEmpty := by cases l <;> rfl

/-! ### ids are preserved -/
mutual
theorem embSpec_ids : ∀ s : Spec τ, Spec2.ids (embSpec s) = Hio.Sched.Spec.ids s
  | .leaf i act steps => by rw [embSpec, Spec2.ids, Hio.Sched.Spec.ids]
  | .group i tock always kids pool => by
      rw [embSpec, Spec2.ids, Hio.Sched.Spec.ids, embSpecL_ids kids, embSpecL_ids pool]
theorem embSpecL_ids : ∀ l : List (Spec τ), Spec2.idsL (embSpecL l) = Hio.Sched.Spec.idsL l
  | [] => by rw [embSpecL, Spec2.idsL, Hio.Sched.Spec.idsL]
  | s :: ss => by rw [embSpecL, Spec2.idsL, Hio.Sched.Spec.idsL, embSpec_ids s, embSpecL_ids ss]
end

/-! ### close -/

theorem abortEvs_emb (i : Id) (x : Exn) (now : τ) : abortEvs i (embExn x) now = Hio.Sched.abortEvs i x now := by
  cases x <;> rfl

theorem abortEvs_err (i : Id) (now : τ) : abortEvs i Exn2.err now = [ev i .abort now] := rfl

mutual
theorem closeRT_emb (now : τ) : ∀ d : RT τ, closeRT now (embRT d) = Hio.Sched.closeRT now d
  | .leaf i r steps => by rw [embRT, closeRT, Hio.Sched.closeRT]
  | .group i r tock always pool doers deeds => by
      rw [embRT, closeRT, Hio.Sched.closeRT, closeAllRev_emb now deeds]
theorem closeAllRev_emb (now : τ) : ∀ ds : List (RT τ), closeAllRev now (embRTL ds) = Hio.Sched.closeAllRev now ds
  | [] => by rw [embRTL, closeAllRev, Hio.Sched.closeAllRev]
  | d :: ds => by rw [embRTL, closeAllRev, Hio.Sched.closeAllRev, closeAllRev_emb now ds, closeRT_emb now d]
end

/-! ### enter -/

theorem embB_true : embB true = some Exn2.err := rfl
theorem embB_false : embB false = none := rfl

mutual
theorem enterSpec_emb (now : τ) : ∀ s : Spec τ, enterSpec now (embSpec s) =
    ((Hio.Sched.enterSpec now s).1, (Hio.Sched.enterSpec now s).2.1.map embRT, embB (Hio.Sched.enterSpec now s).2.2)
  | .leaf i act steps => by
      cases act with
      | ok => rfl
      | fail => rfl
      | done v => rfl
  | .group i tock always kids pool => by
      have ih := enterList_emb now kids
      rw [embSpec, enterSpec, ih, Hio.Sched.enterSpec]
      rcases Hio.Sched.enterList now kids with ⟨es, deeds, b⟩
      cases b with
      | false => simp only [embB_false, Option.map_some, embRT, embSpecL_map_id]
      | true =>
          simp only [embB_true, Option.map_none, closeAllRev_emb, abortEvs_err, List.append_assoc, List.cons_append,
            List.nil_append]
theorem enterList_emb (now : τ) : ∀ l : List (Spec τ), enterList now (embSpecL l) =
    ((Hio.Sched.enterList now l).1, embRTL (Hio.Sched.enterList now l).2.1, embB (Hio.Sched.enterList now l).2.2)
  | [] => rfl
  | s :: ss => by
      have ih1 := enterSpec_emb now s
      have ih2 := enterList_emb now ss
      rw [embSpecL, enterList, ih1, Hio.Sched.enterList]
      rcases Hio.Sched.enterSpec now s with ⟨e, r, b⟩
      cases b with
      | true => rfl
      | false =>
          simp only [embB_false]
          rw [ih2]
          rcases Hio.Sched.enterList now ss with ⟨e2, rs, b2⟩
          simp only [embRTL_append, embRTL_toList]
end

/-! ### extend / remove / ops -/

theorem extendList_emb (pool : List (Spec τ)) (now : τ) : ∀ (ks : List Nat) (c : Cyc τ),
    extendList (embSpecL pool) now ks (embCyc c) =
      ((Hio.Sched.extendList pool now ks c).1, embCyc (Hio.Sched.extendList pool now ks c).2.1,
        embB (Hio.Sched.extendList pool now ks c).2.2)
  | [], c => rfl
  | k :: ks, c => by
      rw [extendList, Hio.Sched.extendList, embSpecL_getElem?]
      cases hk : pool[k]? with
      | none => simp only [Option.map_none]; exact extendList_emb pool now ks c
      | some s =>
          simp only [Option.map_some, embSpec_id]
          have hd : (embCyc c).doers = c.doers := rfl
          rw [hd]
          split
          · exact extendList_emb pool now ks c
          · rw [enterSpec_emb]
            rcases Hio.Sched.enterSpec now s with ⟨e, r, b⟩
            cases b with
            | true => rfl
            | false =>
                simp only [embB_false]
                have key : ({ embCyc c with pr := (embCyc c).pr ++ (Option.map embRT r).toList,
                                            doers := c.doers ++ [s.id] } : Cyc2 τ)
                    = embCyc { c with pr := c.pr ++ r.toList, doers := c.doers ++ [s.id] } := by
                  simp only [embCyc, embRTL_append, embRTL_toList]
                rw [key, extendList_emb pool now ks]

theorem liveUn_emb (c : Cyc τ) (un : List (RT τ)) : liveUn (embCyc c) (embRTL un) = embRTL (Hio.Sched.liveUn c un) :=
  embRTL_filter (fun i => !c.gone.contains i) un

theorem removeOp_emb (now : τ) (sid : Id) (un : List (RT τ)) (ids : List Id) (c : Cyc τ) :
    removeOp now sid (embRTL un) ids (embCyc c) =
      ((Hio.Sched.removeOp now sid un ids c).1, embCyc (Hio.Sched.removeOp now sid un ids c).2) := by
  unfold removeOp Hio.Sched.removeOp
  have hd : (embCyc c).doers = c.doers := rfl
  have hp : (embCyc c).pr = embRTL c.pr := rfl
  have hg : (embCyc c).gone = c.gone := rfl
  simp only [hd, hp, hg, liveUn_emb]
  rw [embRTL_filter (fun i => (ids.filter (fun i => c.doers.contains i)).contains i),
    embRTL_filter (fun i => (ids.filter (fun i => c.doers.contains i)).contains i),
    embRTL_filter (fun i => !(ids.filter (fun i => c.doers.contains i)).contains i),
    ← embRTL_append, closeAllRev_emb, embRTL_map_id]
  rfl

theorem applyOps_emb (pool : List (Spec τ)) (now : τ) (sid : Id) (un : List (RT τ)) : ∀ (ops : List Op) (c : Cyc τ),
    applyOps (embSpecL pool) now sid (embRTL un) ops (embCyc c) =
      ((Hio.Sched.applyOps pool now sid un ops c).1, embCyc (Hio.Sched.applyOps pool now sid un ops c).2.1,
        embB (Hio.Sched.applyOps pool now sid un ops c).2.2)
  | [], c => rfl
  | .extend ks :: ops, c => by
      rw [applyOps, Hio.Sched.applyOps, extendList_emb]
      rcases Hio.Sched.extendList pool now ks c with ⟨e, c1, b⟩
      cases b with
      | true => rfl
      | false =>
          simp only [embB_false]
          rw [applyOps_emb pool now sid un ops c1]
          rfl
  | .remove ids :: ops, c => by
      rw [applyOps, Hio.Sched.applyOps, removeOp_emb]
      rcases Hio.Sched.removeOp now sid un ids c with ⟨e, c1⟩
      simp only
      rw [applyOps_emb pool now sid un ops c1]
      rfl

theorem headStep_emb (steps : List (Step τ)) :
    headStep (steps.map embStep) = (embStep (Hio.Sched.headStep steps).1, (Hio.Sched.headStep steps).2.map embStep) := by
  cases steps <;> rfl

theorem embCyc_init (doers : List Id) : ({ doers := doers } : Cyc2 τ) = embCyc { doers := doers } := rfl

theorem stopEvs_emb (now : τ) (ds : List (RT τ)) : stopEvs now (embRTL ds) = Hio.Sched.stopEvs now ds := by
  rw [stopEvs, Hio.Sched.stopEvs, closeAllRev_emb]

/-- the result of a cycle, embedded -/
def embRun (r : List (Ev τ) × List (RT τ) × Cyc τ × Option Exn) : List (Ev τ) × List (RT2 τ) × Cyc2 τ × Option Exn2 :=
  (r.1, embRTL r.2.1, embCyc r.2.2.1, r.2.2.2.map embExn)

section cyc
variable [Add τ] [LE τ] [DecidableRel (α := τ) (· ≤ ·)] [OfNat τ 0] [BEq τ]

mutual
theorem resumeGroup_emb (now : τ) : ∀ rt : RT τ,
    resumeGroup now (embRT rt) = ((Hio.Sched.resumeGroup now rt).1, embRes (Hio.Sched.resumeGroup now rt).2)
  | .leaf _ _ _ => rfl
  | .group i r tock always pool doers deeds => by
      have ih := runCycle_emb pool now tock i deeds { doers := doers }
      rw [embRT, resumeGroup, embCyc_init, ih, Hio.Sched.resumeGroup, embRun]
      rcases Hio.Sched.runCycle pool now tock i deeds { doers := doers } with ⟨es, un, c, x⟩
      cases x with
      | some x =>
          simp only [Option.map_some, abortEvs_emb, embRes]
          have : (embCyc c).pr ++ embRTL un = embRTL (c.pr ++ un) := by rw [embRTL_append]; rfl
          rw [this, closeAllRev_emb]
      | none =>
          have hp : (embCyc c).pr = embRTL c.pr := rfl
          have hd : (embCyc c).doers = c.doers := rfl
          simp only [Option.map_none, hp, hd, embRTL_isEmpty]
          split
          · simp only [embRes, embRT]
          · simp only [embRes, Bool.false_eq_true, if_false]
theorem runCycle_emb (pool : List (Spec τ)) (now stock : τ) (sid : Id) : ∀ (un : List (RT τ)) (c : Cyc τ),
    runCycle (embSpecL pool) now stock sid (embRTL un) (embCyc c) = embRun (Hio.Sched.runCycle pool now stock sid un c)
  | [], c => rfl
  | .leaf i r steps :: un, c => by
      have ih := runCycle_emb pool now stock sid un
      have hg : (embCyc c).gone = c.gone := rfl
      rw [embRTL, embRT, runCycle.eq_def, Hio.Sched.runCycle.eq_def]
      simp only [RT2.id, RT2.retyme, RT.id, RT.retyme, hg]
      by_cases h1 : c.gone.contains i = true
      · simp only [h1, if_true]; exact ih c
      · simp only [h1, Bool.false_eq_true, if_false]
        by_cases h2 : r ≤ now
        · simp only [h2, if_true]
          rw [headStep_emb]
          rcases Hio.Sched.headStep steps with ⟨⟨ops, out⟩, rest⟩
          simp only [embStep]
          rw [applyOps_emb]
          rcases Hio.Sched.applyOps pool now sid un ops c with ⟨eo, c1, b⟩
          cases b with
          | true =>
              simp only [embB_true, if_true, abortEvs_err, liveUn_emb]
              rfl
          | false =>
              simp only [embB_false, Bool.false_eq_true, if_false]
              cases out with
              | raise x =>
                  simp only [embOut, liveUn_emb, abortEvs_emb]
                  rfl
              | ret v =>
                  simp only [embOut]
                  rw [ih c1]
                  rfl
              | yieldT t =>
                  simp only [embOut]
                  rw [show (⟨(embCyc c1).pr ++ [RT2.leaf i (nextDue now stock r t) (rest.map embStep) false],
                        (embCyc c1).doers, (embCyc c1).gone⟩ : Cyc2 τ)
                      = embCyc ⟨c1.pr ++ [RT.leaf i (nextDue now stock r t) rest], c1.doers, c1.gone⟩ from by
                    simp only [embCyc, embRTL_append, embRTL, embRT]]
                  rw [ih]
                  rfl
        · simp only [h2, if_false]
          rw [show (⟨(embCyc c).pr ++ [RT2.leaf i r (steps.map embStep) false], (embCyc c).doers, c.gone⟩ : Cyc2 τ)
              = embCyc ⟨c.pr ++ [RT.leaf i r steps], c.doers, c.gone⟩ from by
            simp only [embCyc, embRTL_append, embRTL, embRT]]
          exact ih _
  | .group i r tock always gpool doers deeds :: un, c => by
      have ih := runCycle_emb pool now stock sid un
      have ihg := resumeGroup_emb now (.group i r tock always gpool doers deeds)
      have hg : (embCyc c).gone = c.gone := rfl
      rw [embRT] at ihg
      rw [embRTL, embRT, runCycle.eq_def, Hio.Sched.runCycle.eq_def]
      simp only [RT2.id, RT2.retyme, RT.id, RT.retyme, hg]
      by_cases h1 : c.gone.contains i = true
      · simp only [h1, if_true]; exact ih c
      · simp only [h1, Bool.false_eq_true, if_false]
        by_cases h2 : r ≤ now
        · simp only [h2, if_true]
          rw [ihg]
          rcases Hio.Sched.resumeGroup now (.group i r tock always gpool doers deeds) with ⟨eg, res⟩
          cases res with
          | raised x =>
              simp only [embRes, liveUn_emb]
              rfl
          | finished =>
              simp only [embRes]
              rw [ih c]
              rfl
          | yielded rt t =>
              simp only [embRes, embRT_setRetyme]
              rw [show (⟨(embCyc c).pr ++ [embRT (rt.setRetyme (nextDue now stock r (some t)))],
                    (embCyc c).doers, c.gone⟩ : Cyc2 τ)
                  = embCyc ⟨c.pr ++ [rt.setRetyme (nextDue now stock r (some t))], c.doers, c.gone⟩ from by
                simp only [embCyc, embRTL_append, embRTL]]
              rw [ih]
              rfl
        · simp only [h2, if_false]
          rw [show (⟨(embCyc c).pr ++ [RT2.group i r tock always (embSpecL gpool) doers (embRTL deeds) false],
                (embCyc c).doers, c.gone⟩ : Cyc2 τ)
              = embCyc ⟨c.pr ++ [RT.group i r tock always gpool doers deeds], c.doers, c.gone⟩ from by
            simp only [embCyc, embRTL_append, embRTL, embRT]]
          exact ih _
end

theorem loopRaises_emb (x : Exn) : loopRaises (embExn x) = embB (x == .err) := by cases x <;> rfl

theorem doLoop_emb (pool : List (Spec τ)) (tock : τ) (stopAt : Option τ) : ∀ (fuel n : Nat) (now : τ)
    (deeds : List (RT τ)) (doers : List Id),
    doLoop (embSpecL pool) tock stopAt fuel n now (embRTL deeds) doers
      = embFinal (Hio.Sched.doLoop pool tock stopAt fuel n now deeds doers)
  | 0, n, now, deeds, doers => by
      rw [doLoop, Hio.Sched.doLoop, stopEvs_emb]; rfl
  | fuel+1, n, now, deeds, doers => by
      rw [doLoop, embCyc_init, runCycle_emb, Hio.Sched.doLoop]
      rcases Hio.Sched.runCycle pool now tock 0 deeds { doers := doers } with ⟨es, un, c, x⟩
      cases x with
      | some x =>
          simp only [embRun, Option.map_some, loopRaises_emb]
          have : (embCyc c).pr ++ embRTL un = embRTL (c.pr ++ un) := by rw [embRTL_append]; rfl
          rw [this, stopEvs_emb]
          rfl
      | none =>
          have hp : (embCyc c).pr = embRTL c.pr := rfl
          have hd : (embCyc c).doers = c.doers := rfl
          simp only [embRun, Option.map_none, hp, hd, embRTL_isEmpty]
          by_cases h1 : c.pr.isEmpty = true
          · simp only [h1, if_true]
            rw [show stopEvs (now + tock) ([] : List (RT2 τ)) = Hio.Sched.stopEvs (now + tock) [] from stopEvs_emb _ []]
            rfl
          · simp only [h1, Bool.false_eq_true, if_false]
            cases stopAt with
            | none =>
                simp only [Bool.false_eq_true, if_false]
                rw [doLoop_emb pool tock none fuel (n+1) (now + tock) c.pr c.doers]; rfl
            | some s =>
                simp only
                by_cases h2 : s ≤ now + tock
                · simp only [h2, decide_true, if_true]; rw [stopEvs_emb]; rfl
                · simp only [h2, decide_false, Bool.false_eq_true, if_false]
                  rw [doLoop_emb pool tock (some s) fuel (n+1) (now + tock) c.pr c.doers]; rfl

/-- `Model2` on embedded scripts is `Model` -/
theorem doistDo_emb (pool : List (Spec τ)) (tock start : τ) (limit : Option τ) (fuel : Nat) (specs : List (Spec τ)) :
    doistDo (embSpecL pool) tock start limit fuel (embSpecL specs)
      = embFinal (Hio.Sched.doistDo pool tock start limit fuel specs) := by
  rw [doistDo, Hio.Sched.doistDo, enterList_emb, embSpecL_map_id]
  rcases Hio.Sched.enterList start specs with ⟨es, deeds, b⟩
  cases b with
  | true => simp only [embB_true, stopEvs_emb]; rfl
  | false => simp only [embB_false]; rw [doLoop_emb]; rfl
end cyc

section final
variable [Add τ] [LE τ] [DecidableRel (α := τ) (· ≤ ·)] [OfNat τ 0] [BEq τ]

/-- the whole-run statement, field by field -/
theorem doistDo_embed (pool : List (Spec τ)) (tock start : τ) (limit : Option τ) (fuel : Nat) (specs : List (Spec τ)) :
    let f := Hio.Sched.doistDo pool tock start limit fuel specs
    let g := Hio.Sched2.doistDo (embSpecL pool) tock start limit fuel (embSpecL specs)
    g.evs = f.evs ∧ g.done = f.done ∧ g.tyme = f.tyme ∧ g.fuelOut = f.fuelOut ∧ g.doers = f.doers
      ∧ g.cycles = f.cycles ∧ (g.raised = if f.raised then some .err else none) := by
  intro f g
  have h : g = embFinal f := doistDo_emb pool tock start limit fuel specs
  rw [h]
  exact ⟨rfl, rfl, rfl, rfl, rfl, rfl, rfl⟩
end final

end Hio.Sched2
