import HioModel.Sched.Model
/-!
# Property vocabulary for the scheduler model (shared by all `Props/C0x.lean`)
Import-free apart from the model.  Nothing here changes the model.
-/
namespace Hio.Sched
variable {τ : Type}

/-! ### ids of live doers -/
mutual
/-- ids of all live (entered, not exited) doers in a run-time subtree -/
def RT.liveIds : RT τ → List Id
  | .leaf i _ _ => [i]
  | .group i _ _ _ _ _ deeds => i :: RT.liveIdsL deeds
def RT.liveIdsL : List (RT τ) → List Id
  | [] => []
  | d :: ds => d.liveIds ++ RT.liveIdsL ds
end

mutual
/-- ids a spec enters when it is entered (itself and, for a group, its kids — not its pool) -/
def Spec.eids : Spec τ → List Id
  | .leaf i _ _ => [i]
  | .group i _ _ kids _ => i :: Spec.eidsL kids
def Spec.eidsL : List (Spec τ) → List Id
  | [] => []
  | s :: ss => s.eids ++ Spec.eidsL ss
end

/-! ### the lifecycle automaton of C01 -/
inductive LState | idle | live | closing | bad
deriving DecidableEq, Repr

def Kind.isLife : Kind → Bool
  | .enter | .recur | .clean | .cease | .abort | .exit => true
  | _ => false

/-- `enter · recur* · (clean | cease | abort) · exit`, restartable after exit (a removed doer may be
extended again).  `weak = true` additionally allows `exit` straight from the running state
(what the code does for KeyboardInterrupt, pre-finding F01).  Non-lifecycle kinds are ignored. -/
def lstep (weak : Bool) : LState → Kind → LState
  | .idle, .enter => .live
  | .live, .recur => .live
  | .live, .clean => .closing
  | .live, .cease => .closing
  | .live, .abort => .closing
  | .closing, .exit => .idle
  | .live, .exit => if weak then .idle else .bad
  | s, k => if k.isLife then .bad else s

/-- run the automaton of doer `i` over an event list, starting in state `s` -/
def lifeRun (weak : Bool) (i : Id) (s : LState) (evs : List (Ev τ)) : LState :=
  evs.foldl (fun s e => if e.id = i then lstep weak s e.kind else s) s

/-- every doer's projection of the trace is a sequence of complete lifecycles -/
def LifecycleWF (weak : Bool) (evs : List (Ev τ)) : Prop :=
  ∀ i : Id, lifeRun weak i .idle evs = .idle

/-- number of events of kind `k` of doer `i` -/
def countK (k : Kind) (i : Id) (evs : List (Ev τ)) : Nat :=
  (evs.filter (fun e => e.id == i && e.kind == k)).length

/-- how many live doers in a subtree have id `i` -/
def occ (i : Id) (ids : List Id) : Nat := ids.count i

/-! ### static restrictions used as guards of `_partial` theorems -/
def Op.isExtend : Op → Bool
  | .extend _ => true
  | .remove _ => false

def Out.isKbint : Out τ → Bool
  | .raise .kbint => true
  | _ => false

/-- no step issues `extend` (guard for the F03-affected clauses) -/
def stepsNoExtend (steps : List (Step τ)) : Bool := steps.all (fun s => s.ops.all (fun o => !o.isExtend))
/-- no step raises KeyboardInterrupt (guard for F01) -/
def stepsNoKbint (steps : List (Step τ)) : Bool := steps.all (fun s => !s.out.isKbint)

mutual
/-- `p` holds of the script of every leaf that is entered with this spec (kids, not pools) -/
def Spec.allSteps (p : List (Step τ) → Bool) : Spec τ → Bool
  | .leaf _ _ steps => p steps
  | .group _ _ _ kids _ => Spec.allStepsL p kids
def Spec.allStepsL (p : List (Step τ) → Bool) : List (Spec τ) → Bool
  | [] => true
  | s :: ss => s.allSteps p && Spec.allStepsL p ss
end

mutual
/-- `p` holds of the remaining script of every live leaf -/
def RT.allSteps (p : List (Step τ) → Bool) : RT τ → Bool
  | .leaf _ _ steps => p steps
  | .group _ _ _ _ _ _ deeds => RT.allStepsL p deeds
def RT.allStepsL (p : List (Step τ) → Bool) : List (RT τ) → Bool
  | [] => true
  | d :: ds => d.allSteps p && RT.allStepsL p ds
end

/-- `start + tock + … + tock` (`k` times), literally what `tick()` does -/
def iterAdd [Add τ] (start tock : τ) : Nat → τ
  | 0 => start
  | k+1 => iterAdd start tock k + tock

end Hio.Sched
