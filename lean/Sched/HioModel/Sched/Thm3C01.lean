import HioModel.Sched.Lemmas3C01
/-!
# C01 (doer lifecycle) on the third-generation model `Hio.Sched3` (scheduler ops issued from cease / exit actions)

Statements proved here (time type `τ` arbitrary; every close-fuel `cf`, pool, tock, start, limit, fuel, specs):

    theorem lifecycle_wf3_weak :
        (Spec3.idsL specs ++ Spec3.idsL pool).Nodup →          -- all ids of the program distinct (pools included)
        noPoolSelfRemove3 specs pool = true →                  -- no pool doer removes itself from a STEP op
        closeOpsRemoveNonPool3 specs pool = true →             -- guard G on close-time ops, see below
        (doistDo cf pool tock start limit fuel specs).starved = false →
        LifecycleWF true (doistDo cf pool tock start limit fuel specs).evs
    theorem lifecycle_wf3 : the same + `Spec3.onlyErrL specs = true`, `Spec3.onlyErrL pool = true`
        (every `Out2.raise x` / `EnterAct2.fail x`, kids and pools at any depth, has `x = .err`) → `LifecycleWF false …`

Guard G = `closeOpsRemoveNonPool3` (decidable): for every doer of the program, at any depth, the ops of its cease
action and of its exit action are `remove`s — never `extend` — and no id they name is a member of the pool of the
scheduler the doer belongs to (the Doist's `pool` for top-level doers and pool members, a DoDoer's own pool for its
kids and pool members).  Two hazards make (some such) guard necessary; both are exhibited below as `example`s
(`decide`) with all the other hypotheses true and the WEAK property false:

* close-time `extend`: a `remove` unlinks the hit deeds and drops them from `.doers` BEFORE closing them, so the cease
  action of a removed pool doer (or of a doer closed next to it) can `extend` with a pool doer that is still waiting
  to be closed, or is being closed: `enter` on a live / closing doer.  (The choice offered as "close-time ops never
  extend".)
* close-time `remove` naming a pool doer: when the RUNNING doer L (a pool doer) removes doer d, and d's cease action
  removes L, then L leaves `.doers` although it is still scheduled (it is off the deque while it runs), and a later
  `extend` enters it a second time.  This is the close-time form of "a pool doer removes itself"; it is not covered by
  `noPoolSelfRemove3`, which only looks at L's own ops.

What is NOT proved (the guard is stronger than necessary): close-time `extend`s that only name pool doers which are in
`.doers` or idle at that moment (e.g. in a shutdown by `closeLoop`, where nothing has left `.doers`), close-time
`remove`s of pool doers that are not running, and self-removal from an EXIT action (harmless: the doer is idle).  A
proof would have to carry the waiting list of a `remove` (`rdeeds`) and the running doer through `closeRT` as part of
the invariant instead of keeping them out of the state as done here (`PInv` / `Sub` in `Lemmas3C01.lean`).

Proof: `Lemmas3C01.lean` — invariant layer of `Lemmas2C01` ported (`RT3.foot`, `RT3.WF`, `SInv`), state-to-state `Tr`
statements for `closeRT / closeLoop / closeList / removeOp / applyOps` in one fuel block (`close_block`), then
`enter_block`, `extendList_inv`, `applyOps_inv` by induction on the fuel; this file — `resumeGroup_tr / runCycle_tr`,
`doLoop_tr`, the static guards and the theorems.  Everything is conditional on "not starved"; `mono_all` /
`runCycle_mono` (`Embed3.lean`) give that an unstarved result comes from unstarved intermediate states.
-/
namespace Hio.Sched3
open Hio.Sched hiding abortEvs closeRT closeAllRev enterSpec enterList liveUn extendList removeOp applyOps headStep
  resumeGroup runCycle stopEvs doLoop doistDo
open Hio.Sched2 (Exn2 Out2 Step2 EnterAct2 abortEvs loopRaises Tr stOf stOf_mem stOf_not_mem stOf_congr Noop noop_one
  noop_flagEvs lifeRun_nil lifeRun_cons lifeRun_append lifeRun_untouched Disj stepsNoSelfRm kbOK actOK actOK_fail
  run_recur run_cleanExit run_cleanExitEnd run_raiseExit ids_raiseExit actOK_of kbOK_of stepsOnlyErr actOnlyErr)
variable {τ : Type}

theorem headStep_kb {w : Bool} {steps : List (Step2 τ)} (h : kbOK w steps = true) :
    (∀ x, (headStep steps).1.out = .raise x → x.aborts = false → w = true) ∧ kbOK w (headStep steps).2 = true := by
  cases steps with
  | nil => simp [headStep, h]
  | cons s ss =>
    simp only [kbOK, List.all_cons, Bool.or_eq_true, Bool.and_eq_true, headStep] at h ⊢
    rcases h with h | h
    · exact ⟨fun _ _ _ => h, Or.inl h⟩
    · refine ⟨fun x hk hxa => ?_, Or.inr h.2⟩
      have h1 := h.1
      rw [hk] at h1
      simp only at h1
      rw [hxa] at h1; cases h1

theorem headStep_self {i : Id} {steps : List (Step2 τ)} (h : stepsNoSelfRm i steps = true) :
    (∀ ids, Op.remove ids ∈ (headStep steps).1.ops → i ∉ ids) ∧ stepsNoSelfRm i (headStep steps).2 = true := by
  cases steps with
  | nil => simp [headStep, stepsNoSelfRm]
  | cons s ss =>
    simp only [stepsNoSelfRm, List.all_cons, Bool.and_eq_true, headStep] at h ⊢
    refine ⟨fun ids hin => ?_, h.2⟩
    have := List.all_eq_true.1 h.1 _ hin
    simpa using this

theorem RT3.foot_setRetyme (r : τ) (d : RT3 τ) : (d.setRetyme r).foot = d.foot := by
  cases d <;> simp [RT3.setRetyme, RT3.foot]
theorem RT3.id_setRetyme (r : τ) (d : RT3 τ) : (d.setRetyme r).id = d.id := by
  cases d <;> simp [RT3.setRetyme, RT3.id]
theorem RT3.selfOK_setRetyme (r : τ) (d : RT3 τ) : (d.setRetyme r).selfOK = d.selfOK := by
  cases d <;> simp [RT3.setRetyme, RT3.selfOK]
theorem RT3.WF_setRetyme (w : Bool) (r : τ) (d : RT3 τ) : (d.setRetyme r).WF w ↔ d.WF w := by
  cases d <;> simp [RT3.setRetyme, RT3.WF]

theorem DeedOK.replace {pool : List (Spec3 τ)} {doers : List Id} {d d' : RT3 τ} (h : DeedOK pool doers d)
    (hid : d'.id = d.id) (hf : ∀ j, j ∈ d'.foot → j ∈ d.foot) (hs : d.selfOK = true → d'.selfOK = true) :
    DeedOK pool doers d' := by
  rcases h with h | ⟨s, h1, h2, h3, h4, h5⟩
  · exact Or.inl (fun j hj => h j (hf j hj))
  · exact Or.inr ⟨s, h1, h2.trans hid.symm, fun j hj => h3 j (hf j hj), hid ▸ h4, hs h5⟩

/-- localise the effect of the deed in the middle of the zipper -/
theorem Tr.deed3 {w : Bool} {es : List (Ev τ)} {A B : List (RT3 τ)} {d : RT3 τ} {Lr G0 : List Id}
    (h : Tr w es d.foot d.liveIds Lr) (hLr : ∀ j, j ∈ Lr → j ∈ d.foot)
    (hfd : ∀ j, j ∈ d.foot → j ∉ RT3.footL (A ++ B)) (hG : ∀ j, j ∈ d.foot → j ∈ G0) :
    Tr w es G0 (RT3.liveIdsL (A ++ d :: B)) (RT3.liveIdsL A ++ Lr ++ RT3.liveIdsL B) := by
  have hnl : ∀ j, j ∈ d.foot → j ∉ RT3.liveIdsL A ∧ j ∉ RT3.liveIdsL B := by
    intro j hj
    have := hfd j hj
    rw [RT3.footL_append, List.mem_append, not_or] at this
    exact ⟨fun hh => this.1 (RT3.liveIdsL_sub_footL A j hh), fun hh => this.2 (RT3.liveIdsL_sub_footL B j hh)⟩
  refine h.loc hG ?_ ?_ ?_
  · intro j hj
    simp [RT3.liveIdsL_append, RT3.liveIdsL_cons, (hnl j hj).1, (hnl j hj).2]
  · intro j hj
    simp [(hnl j hj).1, (hnl j hj).2]
  · intro j hj
    have h1 : j ∉ d.liveIds := fun hh => hj (RT3.liveIds_sub_foot d j hh)
    have h2 : j ∉ Lr := fun hh => hj (hLr j hh)
    simp [RT3.liveIdsL_append, RT3.liveIdsL_cons, h1, h2]

theorem liveUn_fresh (doers : List Id) (un : List (RT3 τ)) : liveUn ({ doers := doers } : Cyc3 τ) un = un := by
  simp [liveUn]

theorem liveUn_cons_gone {c : Cyc3 τ} {d : RT3 τ} {un : List (RT3 τ)} (h : c.gone.contains d.id = true) :
    liveUn c (d :: un) = liveUn c un := by
  have h' : d.id ∈ c.gone := by simpa using h
  simp [liveUn, h']

theorem liveUn_cons_live {c : Cyc3 τ} {d : RT3 τ} {un : List (RT3 τ)} (h : ¬ c.gone.contains d.id = true) :
    liveUn c (d :: un) = d :: liveUn c un := by
  have h' : d.id ∉ c.gone := by simpa using h
  simp [liveUn, h']

theorem RT3.closeOK_setRetyme (P : List Id) (r : τ) (d : RT3 τ) : (d.setRetyme r).closeOK P = d.closeOK P := by
  cases d <;> simp [RT3.setRetyme, RT3.closeOK]

section cycle2
variable [Add τ] [LE τ] [DecidableRel (α := τ) (· ≤ ·)] [OfNat τ 0] [BEq τ]

/-- what a resume leaves behind -/
def Res3.ok2 (w : Bool) (rt0 : RT3 τ) : Res3 τ → Prop
  | .yielded rt _ => rt.WF w ∧ rt.id = rt0.id ∧ (∀ j, j ∈ rt.foot → j ∈ rt0.foot) ∧
      (rt0.selfOK = true → rt.selfOK = true) ∧ (∀ P, rt.closeOK P = true)
  | .finished => True
  | .raised x => x.aborts = false → w = true

/-- ids left live by a resume -/
def Res3.liveIds : Res3 τ → List Id
  | .yielded rt _ => rt.liveIds
  | _ => []

omit [Add τ] [LE τ] [DecidableRel (α := τ) (· ≤ ·)] [OfNat τ 0] [BEq τ] in
theorem leaf_mid_mem (A B : List (RT3 τ)) (i : Id) (r : τ) (st : List (Step2 τ)) (cf : Bool) (co eo : List Op) (j : Id) :
    j ∈ RT3.liveIdsL (A ++ [RT3.leaf i r st cf co eo] ++ B) ↔ j = i ∨ j ∈ RT3.liveIdsL (A ++ B) := by
  simp only [RT3.liveIdsL_append, RT3.liveIdsL_cons, RT3.liveIdsL_nil, RT3.liveIds_leaf, List.mem_append,
    List.mem_singleton, List.append_nil]
  grind

omit [Add τ] [LE τ] [DecidableRel (α := τ) (· ≤ ·)] [OfNat τ 0] [BEq τ] in
theorem SInv.sub0 {w : Bool} {pool : List (Spec3 τ)} {c c' : Cyc3 τ} {un : List (RT3 τ)}
    (h : SInv w pool c.doers (c.pr ++ liveUn c un)) (s : Sub (pool.map Spec3.id) un c c') :
    SInv w pool c'.doers (c'.pr ++ liveUn c' un) := by
  have := SInv.sub (mid := []) (by simpa using h) s
  simpa using this

mutual
theorem resumeGroup_tr (w : Bool) (cf : Nat) (now : τ) :
    ∀ (rt : RT3 τ), (∀ i r s clf co eo, rt ≠ .leaf i r s clf co eo) → rt.WF w →
      ∀ (es : List (Ev τ)) (res : Res3 τ) (sv : Bool), resumeGroup cf now rt = (es, res, sv) → sv = false →
        Tr w es rt.foot rt.liveIds res.liveIds ∧ res.ok2 w rt
  | .leaf i r s clf co eo, hg, _, _, _, _, _, _ => absurd rfl (hg i r s clf co eo)
  | .group i r tock always pool doers deeds clf, _, hwf, es, res, sv, h, hsv => by
      simp only [RT3.WF] at hwf
      obtain ⟨hi1, hi2, hp, hpw, hok, hcl, hwfl⟩ := hwf
      have hI : SInv w pool doers deeds := ⟨⟨hpw, RT3.WFL_iff.1 hwfl, hcl⟩, hok⟩
      have hi : i ∉ RT3.footL deeds ++ Spec3.idsL pool := by simp [hi1, hi2]
      have hK : ∀ j, j ∈ RT3.liveIdsL deeds → j ∈ RT3.footL deeds ++ Spec3.idsL pool :=
        fun j hj => List.mem_append_left _ (liveSub j hj)
      have hrun := fun es' un c x => runCycle_tr w cf now deeds { doers := doers } pool tock i
        (RT3.footL deeds ++ Spec3.idsL pool) es' un c x hp (by rw [liveUn_fresh]; exact hI)
        (by rw [liveUn_fresh]; exact fun j hj => List.mem_append_left _ hj) (fun j hj => List.mem_append_right _ hj)
      rw [resumeGroup] at h
      simp only [RT3.foot, RT3.liveIds]
      have T1 : Tr w [ev i .recur now] (i :: (RT3.footL deeds ++ Spec3.idsL pool)) (i :: RT3.liveIdsL deeds)
          (i :: RT3.liveIdsL deeds) :=
        Tr.single (by simp [ev]) (List.mem_cons_self ..) (by rw [stOf_mem (List.mem_cons_self ..)]; exact run_recur)
          (fun _ _ => Iff.rfl)
      have T2 : ∀ {es' : List (Ev τ)} {K' : List Id}, Tr w es' (RT3.footL deeds ++ Spec3.idsL pool) (RT3.liveIdsL deeds) K' →
          (∀ j, j ∈ K' → j ∈ RT3.footL deeds ++ Spec3.idsL pool) →
          Tr w es' (i :: (RT3.footL deeds ++ Spec3.idsL pool)) (i :: RT3.liveIdsL deeds) (i :: K') := by
        intro es' K' ht hK'
        refine ht.loc (fun j hj => List.mem_cons_of_mem _ hj) ?_ ?_ ?_
        · intro j hj; have : j ≠ i := fun h => hi (h ▸ hj); simp [this]
        · intro j hj; have : j ≠ i := fun h => hi (h ▸ hj); simp [this]
        · intro j hj
          have h1 : j ∉ RT3.liveIdsL deeds := fun hh => hj (hK j hh)
          have h2 : j ∉ K' := fun hh => hj (hK' j hh)
          simp [h1, h2]
      split at h
      next es' un c x heq =>
        rcases hCL : closeLoop pool now i cf { c with pr := c.pr ++ un } with ⟨ec, g⟩
        rw [hCL] at h
        simp only [Prod.mk.injEq] at h; obtain ⟨rfl, rfl, rfl⟩ := h
        have hcs : c.starved = false := by
          have := (mono_all (τ := τ) cf).2.1 pool now i { c with pr := c.pr ++ un }
          rw [hCL] at this
          exact this hsv
        obtain ⟨ht, hI2, hf2, _, hx⟩ := hrun es' un c (some x) heq hcs
        have ht' : Tr w es' (RT3.footL deeds ++ Spec3.idsL pool) (RT3.liveIdsL deeds) (RT3.liveIdsL (c.pr ++ un)) := by
          rw [liveUn_fresh] at ht; exact ht
        have hK' : ∀ j, j ∈ RT3.liveIdsL (c.pr ++ un) → j ∈ RT3.footL deeds ++ Spec3.idsL pool :=
          fun j hj => hf2 j (liveSub j hj)
        have hx' : x.aborts = false → w = true := hx x rfl
        have hiK' : i ∉ RT3.liveIdsL (c.pr ++ un) := fun hh => hi (hK' i hh)
        have T3 : Tr w (abortEvs i x now ++ [ev i .exit now]) (i :: (RT3.footL deeds ++ Spec3.idsL pool))
            (i :: RT3.liveIdsL (c.pr ++ un)) (RT3.liveIdsL (c.pr ++ un)) :=
          Tr.single ids_raiseExit (List.mem_cons_self ..)
            (by rw [stOf_mem (List.mem_cons_self ..), stOf_not_mem hiK']; exact run_raiseExit hx')
            (fun j hj => by simp [hj])
        have tc := (close_block (τ := τ) (w := w) cf).2.1 pool now i { c with pr := c.pr ++ un } hI2.toPInv
          (by rw [hCL]; exact hsv)
        rw [hCL] at tc
        have T4 : Tr w ec (i :: (RT3.footL deeds ++ Spec3.idsL pool)) (RT3.liveIdsL (c.pr ++ un)) [] :=
          tc.weaken (fun j hj => List.mem_cons_of_mem _ (hf2 j hj)) liveSub (by simp)
        exact ⟨((((T1.seq (T2 ht' hK')).seq2 T3).seq T4).seq (Tr.noop (noop_one rfl))), hx'⟩
      next es' un c heq =>
        have hcs : c.starved = false := by
          simp only at h
          split at h
          · simp only [Prod.mk.injEq] at h; rw [h.2.2]; exact hsv
          · split at h
            · simp only [Prod.mk.injEq] at h; rw [h.2.2]; exact hsv
            · simp only [Prod.mk.injEq] at h; rw [h.2.2]; exact hsv
        obtain ⟨ht, hI2, hf2, hun, _⟩ := hrun es' un c none heq hcs
        have hun' := hun rfl; subst hun'
        rw [List.append_nil] at hI2 hf2
        have ht' : Tr w es' (RT3.footL deeds ++ Spec3.idsL pool) (RT3.liveIdsL deeds) (RT3.liveIdsL c.pr) := by
          rw [liveUn_fresh, List.append_nil] at ht; exact ht
        have hK' : ∀ j, j ∈ RT3.liveIdsL c.pr → j ∈ RT3.footL deeds ++ Spec3.idsL pool :=
          fun j hj => hf2 j (liveSub j hj)
        have h1 : Tr w ([ev i .recur now] ++ es' ++ [ev i (.flag c.pr.isEmpty) now])
            (i :: (RT3.footL deeds ++ Spec3.idsL pool)) (i :: RT3.liveIdsL deeds) (i :: RT3.liveIdsL c.pr) :=
          (T1.seq (T2 ht' hK')).seq (Tr.noop (noop_one rfl))
        simp only at h
        split at h
        · simp only [Prod.mk.injEq] at h; obtain ⟨rfl, rfl, _⟩ := h
          refine ⟨by simpa only [Res3.liveIds, RT3.liveIds] using h1, ?_⟩
          simp only [Res3.ok2, RT3.WF, RT3.foot, RT3.id]
          refine ⟨⟨fun hh => hi (hf2 i hh), hi2, hp, hI2.pw, hI2.ok, hI2.cl, RT3.WFL_iff.2 hI2.wf⟩, trivial, ?_,
            fun _ => rfl, fun _ => rfl⟩
          intro j hj
          rcases List.mem_cons.1 hj with hj | hj
          · exact hj ▸ List.mem_cons_self ..
          · rcases List.mem_append.1 hj with hj | hj
            · exact List.mem_cons_of_mem _ (hf2 j hj)
            · exact List.mem_cons_of_mem _ (List.mem_append_right _ hj)
        · rename_i hne
          have hemp : c.pr = [] := by
            cases hpr : c.pr with
            | nil => rfl
            | cons a b => simp [hpr] at hne
          have T5 : Tr w [ev i .clean now, ev i .exit now, ev i .exitEnd now] (i :: (RT3.footL deeds ++ Spec3.idsL pool))
              (i :: RT3.liveIdsL c.pr) [] := by
            rw [hemp, RT3.liveIdsL_nil]
            exact Tr.single (by simp [ev]) (List.mem_cons_self ..)
              (by rw [stOf_mem (List.mem_cons_self ..), stOf_not_mem (by simp)]; exact run_cleanExitEnd)
              (fun j hj => by simp [hj])
          split at h
          · simp only [Prod.mk.injEq] at h; obtain ⟨rfl, rfl, _⟩ := h
            exact ⟨h1.seq T5, by simp [Res3.ok2, Exn2.aborts]⟩
          · simp only [Prod.mk.injEq] at h; obtain ⟨rfl, rfl, _⟩ := h
            exact ⟨h1.seq T5, trivial⟩
theorem runCycle_tr (w : Bool) (cf : Nat) (now : τ) :
    ∀ (un : List (RT3 τ)) (c : Cyc3 τ) (pool : List (Spec3 τ)) (stock : τ) (sid : Id) (G0 : List Id)
      (es : List (Ev τ)) (un2 : List (RT3 τ)) (c2 : Cyc3 τ) (x : Option Exn2),
      PoolOK w pool → SInv w pool c.doers (c.pr ++ liveUn c un) →
      (∀ j, j ∈ RT3.footL (c.pr ++ liveUn c un) → j ∈ G0) → (∀ j, j ∈ Spec3.idsL pool → j ∈ G0) →
      runCycle cf pool now stock sid un c = (es, un2, c2, x) → c2.starved = false →
      Tr w es G0 (RT3.liveIdsL (c.pr ++ liveUn c un)) (RT3.liveIdsL (c2.pr ++ un2)) ∧
        SInv w pool c2.doers (c2.pr ++ un2) ∧ (∀ j, j ∈ RT3.footL (c2.pr ++ un2) → j ∈ G0) ∧
        (x = none → un2 = []) ∧ (∀ y, x = some y → y.aborts = false → w = true)
  | [], c, pool, stock, sid, G0, es, un2, c2, x, _, hI, hG, _, h, _ => by
      rw [runCycle] at h
      simp only [Prod.mk.injEq] at h; obtain ⟨rfl, rfl, rfl, rfl⟩ := h
      have e0 : liveUn c ([] : List (RT3 τ)) = [] := by simp [liveUn]
      rw [e0] at hI hG ⊢
      exact ⟨Tr.noop (fun _ _ => rfl), hI, hG, fun _ => rfl, by simp⟩
  | .leaf i r steps clf co eo :: un, c, pool, stock, sid, G0, es, un2, c2, x, hp, hI, hG, hGp, h, hs => by
      rw [runCycle] at h
      split at h
      · rename_i hgone
        rw [liveUn_cons_gone hgone] at hI hG ⊢
        exact runCycle_tr w cf now un c pool stock sid G0 es un2 c2 x hp hI hG hGp h hs
      · rename_i hgone
        rw [liveUn_cons_live hgone] at hI hG ⊢
        split at h
        · conv at h => zeta
          have e1 : c.pr ++ RT3.leaf i r steps clf co eo :: liveUn c un =
              c.pr ++ [RT3.leaf i r steps clf co eo] ++ liveUn c un := by simp
          obtain ⟨_, _, hokd, hwfd, hcld⟩ := hI.mid
          simp only [RT3.WF] at hwfd
          simp only [RT3.closeOK, Bool.and_eq_true] at hcld
          obtain ⟨hkb, hrest⟩ := headStep_kb hwfd
          have hselfd : i ∈ pool.map Spec3.id → stepsNoSelfRm i steps = true := by
            intro hin
            rcases hokd with hok | ⟨s, _, _, _, _, hs5⟩
            · obtain ⟨s, hs, hid⟩ := List.mem_map.1 hin
              exact absurd (Spec3.mem_idsL.2 ⟨s, hs, hid ▸ Spec3.id_mem_ids s⟩) (hok i (by simp [RT3.foot]))
            · simpa [RT3.selfOK] using hs5
          have hiG0 : i ∈ G0 := hG i (RT3.mem_footL.2 ⟨RT3.leaf i r steps clf co eo, by simp, by simp [RT3.foot]⟩)
          have hmA := (mono_all (τ := τ) cf).2.2.2.2.2 pool now sid un
          have hCA := (close_block (τ := τ) (w := w) cf).2.2.2.2 pool now sid un eo
          rcases hAO : applyOps pool now sid un cf (headStep steps).1.ops c with ⟨eo1, c1, opRaised⟩
          rw [hAO] at h
          dsimp only at h
          rw [e1] at hI hG ⊢
          have hstep := fun hc1 => applyOps_inv now sid hp un [RT3.leaf i r steps clf co eo] G0 hGp cf _ c eo1 c1
            opRaised hAO
              (by intro d hd hdp ids hin
                  rw [List.mem_singleton.1 hd] at hdp ⊢
                  exact (headStep_self (hselfd hdp)).1 ids hin) hI hG hc1
          have e2 : c1.pr ++ [RT3.leaf i r steps clf co eo] ++ liveUn c1 un =
              c1.pr ++ RT3.leaf i r steps clf co eo :: liveUn c1 un := by simp
          -- everything that follows once `c1` is known not to be starved
          have hmain : c1.starved = false →
              ∃ hrec : Tr w ([ev i .recur now] ++ eo1) G0 (RT3.liveIdsL (c.pr ++ [RT3.leaf i r steps clf co eo] ++ liveUn c un))
                  (RT3.liveIdsL (c1.pr ++ [RT3.leaf i r steps clf co eo] ++ liveUn c1 un)),
                SInv w pool c1.doers (c1.pr ++ RT3.leaf i r steps clf co eo :: liveUn c1 un) ∧
                SInv w pool c1.doers (c1.pr ++ liveUn c1 un) ∧
                (∀ j, j ∈ RT3.footL (c1.pr ++ [RT3.leaf i r steps clf co eo] ++ liveUn c1 un) → j ∈ G0) ∧
                (∀ j, j ∈ RT3.footL (c1.pr ++ liveUn c1 un) → j ∈ G0) ∧
                (∀ (evs : List (Ev τ)), (∀ e ∈ evs, e.id = i) → lifeRun w i .live evs = .idle →
                  Tr w evs G0 (RT3.liveIdsL (c1.pr ++ [RT3.leaf i r steps clf co eo] ++ liveUn c1 un))
                    (RT3.liveIdsL (c1.pr ++ liveUn c1 un))) ∧
                (∀ y, opRaised = some y → y.aborts = false → w = true) := by
            intro hc1
            obtain ⟨ht, hI1, hG1, hxo⟩ := hstep hc1
            have hI1m := hI1
            rw [e2] at hI1m
            obtain ⟨hI10, hfd1, _, _, _⟩ := hI1m.mid
            have hinot1 : i ∉ RT3.liveIdsL (c1.pr ++ liveUn c1 un) :=
              fun hh => hfd1 i (by simp [RT3.foot]) (liveSub i hh)
            have hG10 : ∀ j, j ∈ RT3.footL (c1.pr ++ liveUn c1 un) → j ∈ G0 := fun j hj =>
              hG1 j (RT3.footL_sublist ((List.sublist_append_left _ _).append (List.Sublist.refl _)) j hj)
            have T1 : Tr w [ev i .recur now] G0 (RT3.liveIdsL (c.pr ++ [RT3.leaf i r steps clf co eo] ++ liveUn c un))
                (RT3.liveIdsL (c.pr ++ [RT3.leaf i r steps clf co eo] ++ liveUn c un)) :=
              Tr.single (by simp [ev]) hiG0
                (by rw [stOf_mem ((leaf_mid_mem ..).2 (Or.inl rfl))]; exact run_recur) (fun _ _ => Iff.rfl)
            refine ⟨T1.seq ht, hI1m, hI10, hG1, hG10, ?_, hxo⟩
            intro evs hid hr
            exact Tr.single hid hiG0
              (by rw [stOf_mem ((leaf_mid_mem ..).2 (Or.inl rfl)), stOf_not_mem hinot1]; exact hr)
              (fun j hj => by rw [leaf_mid_mem]; simp [hj])
          -- the exit action's ops, after the doer ended
          have hexit : ∀ (e3 : List (Ev τ)) (c3 : Cyc3 τ) (b3 : Option Exn2),
              applyOps pool now sid un cf eo c1 = (e3, c3, b3) → c3.starved = false →
              SInv w pool c1.doers (c1.pr ++ liveUn c1 un) → (∀ j, j ∈ RT3.footL (c1.pr ++ liveUn c1 un) → j ∈ G0) →
              Tr w e3 G0 (RT3.liveIdsL (c1.pr ++ liveUn c1 un)) (RT3.liveIdsL (c3.pr ++ liveUn c3 un)) ∧
                SInv w pool c3.doers (c3.pr ++ liveUn c3 un) ∧
                (∀ j, j ∈ RT3.footL (c3.pr ++ liveUn c3 un) → j ∈ G0) := by
            intro e3 c3 b3 hE3 hc3 hI10 hG10
            have := hCA c1 hcld.2 hI10.toPInv (by rw [hE3]; exact hc3)
            rw [hE3] at this
            obtain ⟨t3, s3⟩ := this
            exact ⟨t3.weaken hG10 liveSub (fun j hj => RT3.footL_sublist s3.sublist j (liveSub j hj)),
              hI10.sub0 s3, fun j hj => hG10 j (RT3.footL_sublist s3.sublist j hj)⟩
          split at h
          next x' hout =>
            rcases hE3 : applyOps pool now sid un cf eo c1 with ⟨e3, c3, b3⟩
            rw [hE3] at h
            simp only [Prod.mk.injEq] at h; obtain ⟨rfl, rfl, rfl, rfl⟩ := h
            have hc1 : c1.starved = false := by have := hmA eo c1; rw [hE3] at this; exact this hs
            obtain ⟨hrec, _, hI10, _, hG10, Tclose, hxo⟩ := hmain hc1
            obtain ⟨t3, hI3, hG3⟩ := hexit e3 c3 b3 hE3 hs hI10 hG10
            have hx : x'.aborts = false → w = true := by
              cases opRaised with
              | some y =>
                simp only [Out2.raise.injEq] at hout
                exact hout ▸ hxo y rfl
              | none => exact hkb x' hout
            exact ⟨(hrec.seq2 (Tclose _ ids_raiseExit (run_raiseExit hx))).seq t3, hI3, hG3, fun hk => by simp at hk,
              fun y hy => by cases hy; exact hx⟩
          next v hout =>
            split at h
            · rcases hE3 : applyOps pool now sid un cf eo c1 with ⟨e3, c3, b3⟩
              rw [hE3] at h
              simp only [Prod.mk.injEq] at h; obtain ⟨rfl, rfl, rfl, rfl⟩ := h
              have hc1 : c1.starved = false := by have := hmA eo c1; rw [hE3] at this; exact this hs
              obtain ⟨hrec, _, hI10, _, hG10, Tclose, _⟩ := hmain hc1
              obtain ⟨t3, hI3, hG3⟩ := hexit e3 c3 b3 hE3 hs hI10 hG10
              exact ⟨(hrec.seq (Tclose _ (by simp [ev]) run_cleanExit)).seq t3, hI3, hG3, fun hk => by simp at hk,
                fun y hy => by cases hy; simp [Exn2.aborts]⟩
            · rcases hE3 : applyOps pool now sid un cf eo c1 with ⟨e3, c3, b3⟩
              rw [hE3] at h
              dsimp only at h
              rcases hRC : runCycle cf pool now stock sid un c3 with ⟨e2', un2', c2', x'⟩
              rw [hRC] at h
              simp only [Prod.mk.injEq] at h; obtain ⟨rfl, rfl, rfl, rfl⟩ := h
              have hc3 : c3.starved = false := by
                have := runCycle_mono cf pool now stock sid un c3; rw [hRC] at this; exact this hs
              have hc1 : c1.starved = false := by have := hmA eo c1; rw [hE3] at this; exact this hc3
              obtain ⟨hrec, _, hI10, _, hG10, Tclose, _⟩ := hmain hc1
              obtain ⟨t3, hI3, hG3⟩ := hexit e3 c3 b3 hE3 hc3 hI10 hG10
              obtain ⟨g1, g2⟩ := runCycle_tr w cf now un c3 pool stock sid G0 e2' un2' c2' x' hp hI3 hG3 hGp hRC hs
              exact ⟨((((hrec.seq (Tclose _ (by simp [ev]) run_cleanExit)).seq t3).seq (Tr.noop (noop_flagEvs v))).seq g1), g2⟩
          next t hout =>
            rcases hRC : runCycle cf pool now stock sid un
              { c1 with pr := c1.pr ++ [RT3.leaf i (nextDue now stock r t) (headStep steps).2 clf co eo] } with
              ⟨e2', un2', c2', x'⟩
            rw [hRC] at h
            simp only [Prod.mk.injEq] at h; obtain ⟨rfl, rfl, rfl, rfl⟩ := h
            have hc1 : c1.starved = false := by
              have := runCycle_mono cf pool now stock sid un
                { c1 with pr := c1.pr ++ [RT3.leaf i (nextDue now stock r t) (headStep steps).2 clf co eo] }
              rw [hRC] at this; exact this hs
            obtain ⟨hrec, hI1m, _, hG1, _, _, _⟩ := hmain hc1
            have hI1' : SInv w pool c1.doers
                ((c1.pr ++ [RT3.leaf i (nextDue now stock r t) (headStep steps).2 clf co eo]) ++ liveUn c1 un) :=
              hI1m.replace (by simp [RT3.foot])
                (fun hok => hok.replace rfl (by simp [RT3.foot])
                  (fun hs => by simp only [RT3.selfOK] at hs ⊢; exact (headStep_self hs).2))
                (by simp only [RT3.WF]; exact hrest)
                (by simp only [RT3.closeOK, Bool.and_eq_true]; exact hcld)
            have e3 : RT3.liveIdsL (c1.pr ++ [RT3.leaf i r steps clf co eo] ++ liveUn c1 un) =
                RT3.liveIdsL ((c1.pr ++ [RT3.leaf i (nextDue now stock r t) (headStep steps).2 clf co eo]) ++ liveUn c1 un) := by
              simp [RT3.liveIdsL_append, RT3.liveIdsL_cons, RT3.liveIds_leaf]
            have e4 : RT3.footL ((c1.pr ++ [RT3.leaf i (nextDue now stock r t) (headStep steps).2 clf co eo]) ++ liveUn c1 un) =
                RT3.footL (c1.pr ++ [RT3.leaf i r steps clf co eo] ++ liveUn c1 un) := by
              simp [RT3.footL_append, RT3.footL_cons, RT3.foot]
            obtain ⟨g1, g2⟩ := runCycle_tr w cf now un
              { c1 with pr := c1.pr ++ [RT3.leaf i (nextDue now stock r t) (headStep steps).2 clf co eo] }
              pool stock sid G0 e2' un2' c2' x' hp hI1' (fun j hj => hG1 j (e4 ▸ hj)) hGp hRC hs
            have g1' : Tr w e2' G0
                (RT3.liveIdsL ((c1.pr ++ [RT3.leaf i (nextDue now stock r t) (headStep steps).2 clf co eo]) ++ liveUn c1 un))
                (RT3.liveIdsL (c2'.pr ++ un2')) := g1
            rw [← e3] at g1'
            exact ⟨hrec.seq g1', g2⟩
        · have e0 : c.pr ++ RT3.leaf i r steps clf co eo :: liveUn c un =
              (c.pr ++ [RT3.leaf i r steps clf co eo]) ++ liveUn c un := by simp
          rw [e0] at hI hG ⊢
          exact runCycle_tr w cf now un { c with pr := c.pr ++ [RT3.leaf i r steps clf co eo] } pool stock sid G0 es
            un2 c2 x hp hI hG hGp h hs
  | .group i r tock always gpool doers deeds clf :: un, c, pool, stock, sid, G0, es, un2, c2, x, hp, hI, hG, hGp, h, hs => by
      rw [runCycle] at h
      split at h
      · rename_i hgone
        rw [liveUn_cons_gone hgone] at hI hG ⊢
        exact runCycle_tr w cf now un c pool stock sid G0 es un2 c2 x hp hI hG hGp h hs
      · rename_i hgone
        rw [liveUn_cons_live hgone] at hI hG ⊢
        split at h
        · obtain ⟨hI0, hfd, _, hwfd, _⟩ := hI.mid
          have hGd : ∀ j, j ∈ (RT3.group i r tock always gpool doers deeds clf).foot → j ∈ G0 :=
            fun j hj => hG j (RT3.mem_footL.2 ⟨_, by simp, hj⟩)
          have hG00 : ∀ j, j ∈ RT3.footL (c.pr ++ liveUn c un) → j ∈ G0 := fun j hj =>
            hG j (RT3.footL_sublist ((List.Sublist.refl _).append (List.sublist_cons_self _ _)) j hj)
          rcases hRG : resumeGroup cf now (RT3.group i r tock always gpool doers deeds clf) with ⟨eg, res, sv⟩
          rw [hRG] at h
          have hres := fun hsv => resumeGroup_tr w cf now _ (fun _ _ _ _ _ _ hh => by cases hh) hwfd eg res sv hRG hsv
          cases res with
          | raised x' =>
            dsimp only at h
            simp only [Prod.mk.injEq] at h; obtain ⟨rfl, rfl, rfl, rfl⟩ := h
            dsimp only at hs
            simp only [Bool.or_eq_false_iff] at hs
            obtain ⟨heg, hok⟩ := hres hs.2
            have := Tr.deed3 heg (A := c.pr) (B := liveUn c un) (G0 := G0) (by simp [Res3.liveIds]) hfd hGd
            simp only [Res3.liveIds, List.append_nil] at this
            rw [← RT3.liveIdsL_append] at this
            exact ⟨this, hI0, hG00, fun hk => by simp at hk, fun y hy => by cases hy; exact hok⟩
          | finished =>
            dsimp only at h
            rcases hRC : runCycle cf pool now stock sid un { c with starved := c.starved || sv } with ⟨e2', un2', c2', x'⟩
            rw [hRC] at h
            simp only [Prod.mk.injEq] at h; obtain ⟨rfl, rfl, rfl, rfl⟩ := h
            have hcs : (c.starved || sv) = false := by
              have := runCycle_mono cf pool now stock sid un { c with starved := c.starved || sv }
              rw [hRC] at this; exact this hs
            simp only [Bool.or_eq_false_iff] at hcs
            obtain ⟨heg, _⟩ := hres hcs.2
            have := Tr.deed3 heg (A := c.pr) (B := liveUn c un) (G0 := G0) (by simp [Res3.liveIds]) hfd hGd
            simp only [Res3.liveIds, List.append_nil] at this
            rw [← RT3.liveIdsL_append] at this
            obtain ⟨g1, g2⟩ := runCycle_tr w cf now un { c with starved := c.starved || sv } pool stock sid G0 e2' un2'
              c2' x' hp hI0 hG00 hGp hRC hs
            exact ⟨(this.seq (Tr.noop (noop_one rfl))).seq g1, g2⟩
          | yielded rt t =>
            dsimp only at h
            rcases hRC : runCycle cf pool now stock sid un
              { c with pr := c.pr ++ [rt.setRetyme (nextDue now stock r (some t))], starved := c.starved || sv } with
              ⟨e2', un2', c2', x'⟩
            rw [hRC] at h
            simp only [Prod.mk.injEq] at h; obtain ⟨rfl, rfl, rfl, rfl⟩ := h
            have hcs : (c.starved || sv) = false := by
              have := runCycle_mono cf pool now stock sid un
                { c with pr := c.pr ++ [rt.setRetyme (nextDue now stock r (some t))], starved := c.starved || sv }
              rw [hRC] at this; exact this hs
            simp only [Bool.or_eq_false_iff] at hcs
            obtain ⟨heg, hok⟩ := hres hcs.2
            simp only [Res3.ok2] at hok
            obtain ⟨hk1, hk2, hk3, hk4, hk5⟩ := hok
            have := Tr.deed3 heg (A := c.pr) (B := liveUn c un) (G0 := G0)
              (by simp only [Res3.liveIds]; exact fun j hj => hk3 j (RT3.liveIds_sub_foot rt j hj)) hfd hGd
            simp only [Res3.liveIds] at this
            have hI' : SInv w pool c.doers
                ((c.pr ++ [rt.setRetyme (nextDue now stock r (some t))]) ++ liveUn c un) :=
              hI.replace (by rw [RT3.foot_setRetyme]; exact hk3)
                (fun hok => hok.replace (by rw [RT3.id_setRetyme]; exact hk2) (by rw [RT3.foot_setRetyme]; exact hk3)
                  (by rw [RT3.selfOK_setRetyme]; exact hk4))
                ((RT3.WF_setRetyme w _ rt).2 hk1) (by rw [RT3.closeOK_setRetyme]; exact hk5 _)
            have e3 : RT3.liveIdsL ((c.pr ++ [rt.setRetyme (nextDue now stock r (some t))]) ++ liveUn c un) =
                RT3.liveIdsL c.pr ++ rt.liveIds ++ RT3.liveIdsL (liveUn c un) := by
              simp [RT3.liveIdsL_append, RT3.liveIdsL_cons, RT3.liveIds_setRetyme]
            have hG' : ∀ j, j ∈ RT3.footL ((c.pr ++ [rt.setRetyme (nextDue now stock r (some t))]) ++ liveUn c un) →
                j ∈ G0 := by
              intro j hj
              simp only [RT3.footL_append, RT3.footL_cons, RT3.footL_nil, RT3.foot_setRetyme, List.append_nil,
                List.mem_append] at hj
              rcases hj with (hj | hj) | hj
              · exact hG00 j (by rw [RT3.footL_append]; exact List.mem_append_left _ hj)
              · exact hGd j (hk3 j hj)
              · exact hG00 j (by rw [RT3.footL_append]; exact List.mem_append_right _ hj)
            obtain ⟨g1, g2⟩ := runCycle_tr w cf now un
              { c with pr := c.pr ++ [rt.setRetyme (nextDue now stock r (some t))], starved := c.starved || sv }
              pool stock sid G0 e2' un2' c2' x' hp hI' hG' hGp hRC hs
            have g1' : Tr w e2' G0
                (RT3.liveIdsL ((c.pr ++ [rt.setRetyme (nextDue now stock r (some t))]) ++ liveUn c un))
                (RT3.liveIdsL (c2'.pr ++ un2')) := g1
            rw [e3] at g1'
            exact ⟨this.seq g1', g2⟩
        · have e0 : c.pr ++ RT3.group i r tock always gpool doers deeds clf :: liveUn c un =
              (c.pr ++ [RT3.group i r tock always gpool doers deeds clf]) ++ liveUn c un := by simp
          rw [e0] at hI hG ⊢
          exact runCycle_tr w cf now un { c with pr := c.pr ++ [RT3.group i r tock always gpool doers deeds clf] }
            pool stock sid G0 es un2 c2 x hp hI hG hGp h hs
end

end cycle2

/-! ### the whole run -/
theorem closeLoop_nil (cf : Nat) (pool : List (Spec3 τ)) (now : τ) (sid : Id) (doers : List Id) :
    (closeLoop pool now sid cf ({ pr := [], doers := doers } : Cyc3 τ)).1 = [] ∧
      (closeLoop pool now sid cf ({ pr := [], doers := doers } : Cyc3 τ)).2.starved = false := by
  cases cf <;> simp [closeLoop]

theorem stopEvs_tr {w : Bool} {pool : List (Spec3 τ)} {ds : List (RT3 τ)} {G0 : List Id} (cf : Nat) (now : τ)
    (doers : List Id) (hI : PInv w pool ds) (hG : ∀ j, j ∈ RT3.footL ds → j ∈ G0)
    (hs : stopStarved cf pool now ds doers = false) :
    Tr w (stopEvs cf pool now ds doers) G0 (RT3.liveIdsL ds) [] := by
  unfold stopStarved at hs
  unfold stopEvs
  have tc := (close_block (τ := τ) (w := w) cf).2.1 pool now 0 { pr := ds, doers := doers } hI hs
  exact ((Tr.noop (noop_one rfl)).seq (tc.weaken hG liveSub (by simp))).seq (Tr.noop (noop_one rfl))

section run
variable [Add τ] [LE τ] [DecidableRel (α := τ) (· ≤ ·)] [OfNat τ 0] [BEq τ]

theorem doLoop_tr (w : Bool) (cf : Nat) (pool : List (Spec3 τ)) (hp : PoolOK w pool) (tock : τ) (G0 : List Id)
    (hGp : ∀ j, j ∈ Spec3.idsL pool → j ∈ G0) :
    ∀ (stopAt : Option τ) (fuel n : Nat) (now : τ) (deeds : List (RT3 τ)) (doers : List Id),
      SInv w pool doers deeds → (∀ j, j ∈ RT3.footL deeds → j ∈ G0) →
      (doLoop cf pool tock stopAt fuel n now deeds doers).starved = false →
      Tr w (doLoop cf pool tock stopAt fuel n now deeds doers).evs G0 (RT3.liveIdsL deeds) []
  | stopAt, 0, n, now, deeds, doers, hI, hG, hs => by
      rw [doLoop] at hs ⊢; exact stopEvs_tr cf now doers hI.toPInv hG hs
  | stopAt, fuel+1, n, now, deeds, doers, hI, hG, hs => by
      have hrun := fun es un c x => runCycle_tr w cf now deeds { doers := doers } pool tock 0 G0 es un c x hp
        (by rw [liveUn_fresh]; exact hI) (by rw [liveUn_fresh]; exact hG) hGp
      rw [doLoop] at hs ⊢
      rcases hRC : runCycle cf pool now tock 0 deeds { doers := doers } with ⟨es, un, c, x⟩
      rw [hRC] at hs
      cases x with
      | some x =>
        dsimp only at hs ⊢
        simp only [Bool.or_eq_false_iff] at hs
        obtain ⟨ht, hI2, hf2, _, _⟩ := hrun es un c (some x) hRC hs.1
        rw [liveUn_fresh] at ht
        exact Tr.seq ht (stopEvs_tr cf now c.doers hI2.toPInv hf2 hs.2)
      | none =>
        dsimp only at hs ⊢
        have hor : ∀ {a b : Bool}, (a || b) = false → a = false ∧ b = false := by
          intro a b h; cases a <;> cases b <;> simp_all
        have hcs : c.starved = false := by
          by_cases hemp : c.pr.isEmpty = true
          · simp only [hemp, ↓reduceIte] at hs; exact hs
          · simp only [hemp, ↓reduceIte] at hs
            cases stopAt with
            | none => simp only [Bool.false_eq_true, ↓reduceIte] at hs; exact (hor hs).1
            | some sa =>
              by_cases hd : decide (sa ≤ now + tock) = true
              · simp only [hd, ↓reduceIte] at hs; exact (hor hs).1
              · simp only [hd, ↓reduceIte] at hs; exact (hor hs).1
        obtain ⟨ht, hI2, hf2, hun, _⟩ := hrun es un c none hRC hcs
        have hun' := hun rfl; subst hun'
        rw [liveUn_fresh] at ht
        rw [List.append_nil] at ht hI2 hf2
        have ht' : Tr w es G0 (RT3.liveIdsL deeds) (RT3.liveIdsL c.pr) := ht
        by_cases hemp : c.pr.isEmpty = true
        · simp only [hemp, ↓reduceIte] at hs ⊢
          have hemp' : c.pr = [] := by
            cases hpr : c.pr with
            | nil => rfl
            | cons a b => simp [hpr] at hemp
          rw [hemp'] at ht' hI2 hf2
          refine ht'.seq (stopEvs_tr cf _ c.doers hI2.toPInv hf2 ?_)
          exact (closeLoop_nil cf pool _ 0 c.doers).2
        · simp only [hemp, ↓reduceIte] at hs ⊢
          have hrec := fun sa hh => doLoop_tr w cf pool hp tock G0 hGp sa fuel (n+1) (now + tock) c.pr c.doers hI2 hf2 hh
          cases stopAt with
          | none =>
            simp only [Bool.false_eq_true, ↓reduceIte] at hs ⊢
            exact ht'.seq (hrec _ (hor hs).2)
          | some sa =>
            by_cases hd : decide (sa ≤ now + tock) = true
            · simp only [hd, ↓reduceIte] at hs ⊢
              exact ht'.seq (stopEvs_tr cf _ c.doers hI2.toPInv hf2 (hor hs).2)
            · simp only [hd, ↓reduceIte] at hs ⊢
              exact ht'.seq (hrec _ (hor hs).2)

/-- C01 on Model3 under the internal guard `good` -/
theorem lifecycle_of_good (w : Bool) (cf : Nat) (pool : List (Spec3 τ)) (tock start : τ) (limit : Option τ) (fuel : Nat)
    (specs : List (Spec3 τ)) (hN : (Spec3.idsL specs ++ Spec3.idsL pool).Nodup)
    (hgs : Spec3.goodL w specs = true) (hgp : Spec3.goodL w pool = true) (hsp : pool.all Spec3.selfOK = true)
    (hcs : specs.all (Spec3.closeOK (pool.map Spec3.id)) = true)
    (hcp : pool.all (Spec3.closeOK (pool.map Spec3.id)) = true)
    (hs : (doistDo cf pool tock start limit fuel specs).starved = false) :
    LifecycleWF w (doistDo cf pool tock start limit fuel specs).evs := by
  have hn := List.nodup_append.1 hN
  have hp : PoolOK w pool := ⟨hn.2.1, hgp, hsp, hcp⟩
  rw [doistDo] at hs ⊢
  rcases hEL : enterList start cf specs with ⟨es, deeds, b, sv⟩
  rw [hEL] at hs
  have hsv : sv = false := by
    cases b <;> (dsimp only at hs; simp only [Bool.or_eq_false_iff] at hs; exact hs.1)
  obtain ⟨t, _, hwf, hpw, hfoot, hclo⟩ := (enter_block (τ := τ) (w := w) cf).2 start specs es deeds b sv hEL hn.1 hgs hsv
  have hI : SInv w pool (specs.map Spec3.id) deeds :=
    ⟨⟨hpw, hwf, hclo _ hcs⟩, fun d hd => Or.inl (fun j hj hj' => hn.2.2 j (hfoot d hd j hj) j hj' rfl)⟩
  have hG : ∀ j, j ∈ RT3.footL deeds → j ∈ Spec3.idsL specs ++ Spec3.idsL pool := by
    intro j hj
    obtain ⟨d, hd, hjd⟩ := RT3.mem_footL.1 hj
    exact List.mem_append_left _ (hfoot d hd j hjd)
  have T1 : Tr w es (Spec3.idsL specs ++ Spec3.idsL pool) [] (RT3.liveIdsL deeds) :=
    t.weaken (fun j hj => List.mem_append_left _ hj) (by simp)
      (fun j hj => by
        have := hG j (liveSub j hj)
        obtain ⟨d, hd, hjd⟩ := RT3.mem_liveIdsL.1 hj
        exact hfoot d hd j (RT3.liveIds_sub_foot d j hjd))
  have fin : ∀ (ev2 : List (Ev τ)), Tr w ev2 (Spec3.idsL specs ++ Spec3.idsL pool) (RT3.liveIdsL deeds) [] →
      LifecycleWF w (es ++ ev2) := by
    intro ev2 T2
    have T := T1.seq T2
    intro i
    by_cases hi : i ∈ Spec3.idsL specs ++ Spec3.idsL pool
    · have := T.2 i hi
      simpa [stOf] using this
    · exact T.1 i hi _
  cases b with
  | some x =>
    dsimp only at hs ⊢
    simp only [Bool.or_eq_false_iff] at hs
    exact fin _ (stopEvs_tr cf start _ hI.toPInv hG hs.2)
  | none =>
    dsimp only at hs ⊢
    simp only [Bool.or_eq_false_iff] at hs
    exact fin _ (doLoop_tr w cf pool hp tock _ (fun j hj => List.mem_append_right _ hj)
      (limit.map (start + ·)) fuel 0 start deeds (specs.map Spec3.id) hI hG hs.2)

end run

/-! ### readable static hypotheses -/
mutual
/-- no BaseException anywhere in the spec: every `Out2.raise x` and every `EnterAct2.fail x`, in kids and pools at
any depth, has `x = .err` -/
def Spec3.onlyErr : Spec3 τ → Bool
  | .leaf _ act steps _ _ _ => actOnlyErr act && stepsOnlyErr steps
  | .group _ _ _ kids pool _ => Spec3.onlyErrL kids && Spec3.onlyErrL pool
def Spec3.onlyErrL : List (Spec3 τ) → Bool
  | [] => true
  | s :: ss => s.onlyErr && Spec3.onlyErrL ss
end

mutual
/-- close-time ops (cease / exit actions), everywhere below this spec: they are `remove`s and never name a member of
the pool of the doer's own scheduler -/
def Spec3.closeOpsGood : Spec3 τ → Bool
  | .leaf _ _ _ _ _ _ => true
  | .group _ _ _ kids pool _ =>
      Spec3.closeOpsGoodL kids && Spec3.closeOpsGoodL pool &&
        (kids.all (Spec3.closeOK (pool.map Spec3.id)) && pool.all (Spec3.closeOK (pool.map Spec3.id)))
def Spec3.closeOpsGoodL : List (Spec3 τ) → Bool
  | [] => true
  | s :: ss => s.closeOpsGood && Spec3.closeOpsGoodL ss
end

/-- guard G: the ops a doer issues from its cease / exit action are `remove`s (never `extend`) and never name a
pool doer of the scheduler the doer belongs to (Doist: `pool`; DoDoer: its own pool) -/
def closeOpsRemoveNonPool3 (specs pool : List (Spec3 τ)) : Bool :=
  Spec3.closeOpsGoodL specs && Spec3.closeOpsGoodL pool &&
    (specs.all (Spec3.closeOK (pool.map Spec3.id)) && pool.all (Spec3.closeOK (pool.map Spec3.id)))

mutual
/-- in every pool at any depth below this spec, no member removes itself -/
def Spec3.poolsNoSelfRemove : Spec3 τ → Bool
  | .leaf _ _ _ _ _ _ => true
  | .group _ _ _ kids pool _ =>
      Spec3.poolsNoSelfRemoveL kids && Spec3.poolsNoSelfRemoveL pool && pool.all Spec3.selfOK
def Spec3.poolsNoSelfRemoveL : List (Spec3 τ) → Bool
  | [] => true
  | s :: ss => s.poolsNoSelfRemove && Spec3.poolsNoSelfRemoveL ss
end

/-- "no pool doer removes itself": a doer that can be `extend`ed in (a member of the Doist's pool or of the
pool of any DoDoer of the program) never issues `remove` with its own id -/
def noPoolSelfRemove3 (specs pool : List (Spec3 τ)) : Bool :=
  Spec3.poolsNoSelfRemoveL specs && Spec3.poolsNoSelfRemoveL pool && pool.all Spec3.selfOK

mutual
theorem Spec3.good_of (w : Bool) : ∀ s : Spec3 τ, (w = true ∨ s.onlyErr = true) →
    s.poolsNoSelfRemove = true → s.closeOpsGood = true → s.good w = true
  | .leaf _ act steps _ _ _, hk, _, _ => by
      simp only [Spec3.good, Bool.and_eq_true]
      refine ⟨actOK_of w act ?_, kbOK_of w steps ?_⟩
      · rcases hk with hk | hk
        · exact Or.inl hk
        · simp only [Spec3.onlyErr, Bool.and_eq_true] at hk; exact Or.inr hk.1
      · rcases hk with hk | hk
        · exact Or.inl hk
        · simp only [Spec3.onlyErr, Bool.and_eq_true] at hk; exact Or.inr hk.2
  | .group _ _ _ kids pool _, hk, hs, hc => by
      simp only [Spec3.poolsNoSelfRemove, Bool.and_eq_true] at hs
      simp only [Spec3.closeOpsGood, Bool.and_eq_true] at hc
      simp only [Spec3.good, Bool.and_eq_true]
      have hk1 : w = true ∨ Spec3.onlyErrL kids = true := by
        rcases hk with hk | hk
        · exact Or.inl hk
        · simp only [Spec3.onlyErr, Bool.and_eq_true] at hk; exact Or.inr hk.1
      have hk2 : w = true ∨ Spec3.onlyErrL pool = true := by
        rcases hk with hk | hk
        · exact Or.inl hk
        · simp only [Spec3.onlyErr, Bool.and_eq_true] at hk; exact Or.inr hk.2
      exact ⟨⟨⟨Spec3.goodL_of w kids hk1 hs.1.1 hc.1.1, Spec3.goodL_of w pool hk2 hs.1.2 hc.1.2⟩, hs.2⟩, hc.2⟩
theorem Spec3.goodL_of (w : Bool) : ∀ ss : List (Spec3 τ), (w = true ∨ Spec3.onlyErrL ss = true) →
    Spec3.poolsNoSelfRemoveL ss = true → Spec3.closeOpsGoodL ss = true → Spec3.goodL w ss = true
  | [], _, _, _ => by simp [Spec3.goodL]
  | s :: ss, hk, hs, hc => by
      simp only [Spec3.poolsNoSelfRemoveL, Bool.and_eq_true] at hs
      simp only [Spec3.closeOpsGoodL, Bool.and_eq_true] at hc
      simp only [Spec3.goodL, Bool.and_eq_true]
      have hk1 : w = true ∨ s.onlyErr = true := by
        rcases hk with hk | hk
        · exact Or.inl hk
        · simp only [Spec3.onlyErrL, Bool.and_eq_true] at hk; exact Or.inr hk.1
      have hk2 : w = true ∨ Spec3.onlyErrL ss = true := by
        rcases hk with hk | hk
        · exact Or.inl hk
        · simp only [Spec3.onlyErrL, Bool.and_eq_true] at hk; exact Or.inr hk.2
      exact ⟨Spec3.good_of w s hk1 hs.1 hc.1, Spec3.goodL_of w ss hk2 hs.2 hc.2⟩
end

section final
variable [Add τ] [LE τ] [DecidableRel (α := τ) (· ≤ ·)] [OfNat τ 0] [BEq τ]

theorem lifecycle_of_static (w : Bool) (cf : Nat) (pool : List (Spec3 τ)) (tock start : τ) (limit : Option τ) (fuel : Nat)
    (specs : List (Spec3 τ)) (hN : (Spec3.idsL specs ++ Spec3.idsL pool).Nodup)
    (hS : noPoolSelfRemove3 specs pool = true) (hC : closeOpsRemoveNonPool3 specs pool = true)
    (hK : w = true ∨ (Spec3.onlyErrL specs = true ∧ Spec3.onlyErrL pool = true))
    (hs : (doistDo cf pool tock start limit fuel specs).starved = false) :
    LifecycleWF w (doistDo cf pool tock start limit fuel specs).evs := by
  simp only [noPoolSelfRemove3, Bool.and_eq_true] at hS
  simp only [closeOpsRemoveNonPool3, Bool.and_eq_true] at hC
  refine lifecycle_of_good w cf pool tock start limit fuel specs hN
    (Spec3.goodL_of w specs ?_ hS.1.1 hC.1.1) (Spec3.goodL_of w pool ?_ hS.1.2 hC.1.2) hS.2 hC.2.1 hC.2.2 hs
  · rcases hK with hK | hK
    · exact Or.inl hK
    · exact Or.inr hK.1
  · rcases hK with hK | hK
    · exact Or.inl hK
    · exact Or.inr hK.2

/-- **C01 on Model3, weak automaton.** -/
theorem lifecycle_wf3_weak (cf : Nat) (pool : List (Spec3 τ)) (tock start : τ) (limit : Option τ) (fuel : Nat)
    (specs : List (Spec3 τ)) :
    (Spec3.idsL specs ++ Spec3.idsL pool).Nodup → noPoolSelfRemove3 specs pool = true →
    closeOpsRemoveNonPool3 specs pool = true →
    (doistDo cf pool tock start limit fuel specs).starved = false →
    LifecycleWF true (doistDo cf pool tock start limit fuel specs).evs :=
  fun hN hS hC hs => lifecycle_of_static true cf pool tock start limit fuel specs hN hS hC (Or.inl rfl) hs

/-- **C01 on Model3, strict automaton**: additionally no BaseException kinds anywhere. -/
theorem lifecycle_wf3 (cf : Nat) (pool : List (Spec3 τ)) (tock start : τ) (limit : Option τ) (fuel : Nat)
    (specs : List (Spec3 τ)) :
    (Spec3.idsL specs ++ Spec3.idsL pool).Nodup → noPoolSelfRemove3 specs pool = true →
    closeOpsRemoveNonPool3 specs pool = true →
    Spec3.onlyErrL specs = true → Spec3.onlyErrL pool = true →
    (doistDo cf pool tock start limit fuel specs).starved = false →
    LifecycleWF false (doistDo cf pool tock start limit fuel specs).evs :=
  fun hN hS hC hK1 hK2 hs => lifecycle_of_static false cf pool tock start limit fuel specs hN hS hC (Or.inr ⟨hK1, hK2⟩) hs

end final

/-! ### non-vacuity and necessity of the guards (tests on literals, `τ := Nat`; `decide +kernel`: plain `decide` runs
out of memory on the fuel-indexed mutual recursion of Model3) -/

/-- doer 1 extends the Doist with pool doer 10 and then removes doer 2, whose cease action removes doer 3 (closed at
once, inside the remove), whose exit action in turn removes doer 1 from `.doers` (harmless: 1 is not a pool doer) -/
def c01Pool3 : List (Spec3 Nat) := [.leaf 10 .ok [⟨[], .yieldT none⟩, ⟨[], .yieldT none⟩] false [] []]
def c01Prog3 : List (Spec3 Nat) :=
  [ .leaf 1 .ok [⟨[.extend [0]], .yieldT none⟩, ⟨[.remove [2]], .yieldT none⟩] false [] [],
    .leaf 2 .ok [⟨[], .yieldT none⟩, ⟨[], .yieldT none⟩] false [.remove [3]] [],
    .leaf 3 .ok [⟨[], .yieldT none⟩, ⟨[], .yieldT none⟩] false [] [.remove [1]] ]

/-- the hypotheses of `lifecycle_wf3` hold of it (close-fuel 12 is enough: not starved) -/
example : (Spec3.idsL c01Prog3 ++ Spec3.idsL c01Pool3).Nodup ∧ noPoolSelfRemove3 c01Prog3 c01Pool3 = true ∧
    closeOpsRemoveNonPool3 c01Prog3 c01Pool3 = true ∧ Spec3.onlyErrL c01Prog3 = true ∧ Spec3.onlyErrL c01Pool3 = true ∧
    (doistDo 12 c01Pool3 1 0 (some 2) 10 c01Prog3).starved = false := by decide +kernel

/-- and the nested forced closes really happen: `cease 2, cease 3, exit 3, exit 2` inside the remove of doer 1 -/
example : let evs := (doistDo 12 c01Pool3 1 0 (some 2) 10 c01Prog3).evs
    countK .enter 10 evs = 1 ∧ countK .cease 2 evs = 1 ∧ countK .cease 3 evs = 1 ∧ countK .rmBeg 0 evs = 3 := by
  decide +kernel

/-- guard G, "never `extend`": doer 1 removes pool doer 10, whose cease action extends the Doist with 10 again —
10 has left `.doers` but is still being closed: `enter` on a closing doer -/
example : let pool : List (Spec3 Nat) := [.leaf 10 .ok [⟨[], .yieldT none⟩, ⟨[], .yieldT none⟩] false [.extend [0]] []]
    let specs : List (Spec3 Nat) :=
      [.leaf 1 .ok [⟨[.extend [0]], .yieldT none⟩, ⟨[.remove [10]], .yieldT none⟩] false [] []]
    (Spec3.idsL specs ++ Spec3.idsL pool).Nodup ∧ noPoolSelfRemove3 specs pool = true ∧
      closeOpsRemoveNonPool3 specs pool = false ∧ (doistDo 12 pool 1 0 (some 2) 10 specs).starved = false ∧
      lifeRun true 10 .idle (doistDo 12 pool 1 0 (some 2) 10 specs).evs ≠ .idle := by
  decide +kernel

/-- guard G, "never name a pool doer": pool doer 10 removes doer 2, whose cease action removes 10 — the RUNNING doer,
which leaves `.doers` but stays scheduled; its next `extend [0]` enters it again while live -/
example : let pool : List (Spec3 Nat) :=
      [.leaf 10 .ok [⟨[.remove [2]], .yieldT none⟩, ⟨[.extend [0]], .yieldT none⟩, ⟨[], .yieldT none⟩] false [] []]
    let specs : List (Spec3 Nat) :=
      [.leaf 1 .ok [⟨[.extend [0]], .yieldT none⟩, ⟨[], .yieldT none⟩, ⟨[], .yieldT none⟩] false [] [],
       .leaf 2 .ok [⟨[], .yieldT none⟩, ⟨[], .yieldT none⟩] false [.remove [10]] []]
    (Spec3.idsL specs ++ Spec3.idsL pool).Nodup ∧ noPoolSelfRemove3 specs pool = true ∧
      closeOpsRemoveNonPool3 specs pool = false ∧ (doistDo 12 pool 1 0 (some 3) 10 specs).starved = false ∧
      lifeRun true 10 .idle (doistDo 12 pool 1 0 (some 3) 10 specs).evs ≠ .idle := by
  decide +kernel

end Hio.Sched3
