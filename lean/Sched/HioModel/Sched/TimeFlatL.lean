import HioModel.Sched.TimeFlatten
/-! The function `Spec.flatL` (what the driver and the Python oracle compute) satisfies the relation `Flattens`. -/
set_option linter.unusedSectionVars false
namespace Hio.Sched
variable {τ : Type}
variable [Add τ] [LE τ] [DecidableRel (α := τ) (· ≤ ·)] [OfNat τ 0] [BEq τ]

mutual
/-- a forest of plain leaves (op-free, fault-free, enter does not fail) and transparent groups; `keep` = the leaves -/
def Spec.okT (keep : Id → Bool) : Spec τ → Bool
  | .leaf i act steps => keep i && plainSteps steps && (match act with | .fail => false | _ => true)
  | .group i t al kids _ => !keep i && transparentB t al && Spec.okTL keep kids
def Spec.okTL (keep : Id → Bool) : List (Spec τ) → Bool
  | [] => true
  | s :: ss => s.okT keep && Spec.okTL keep ss
end

variable [LawfulTyme τ]

theorem Flattens.append {keep : Id → Bool} {a qa : List (Spec τ)} (ha : Flattens keep a qa) :
    ∀ {b qb : List (Spec τ)}, Flattens keep b qb → Flattens keep (a ++ b) (qa ++ qb) := by
  induction ha with
  | nil => intro b qb hb; simpa using hb
  | leaf hk hp hact _ ih => intro b qb hb; exact Flattens.leaf hk hp hact (ih hb)
  | group hk h1 _ _ ih2 =>
    intro b qb hb
    simp only [List.cons_append, List.append_assoc]
    exact Flattens.group hk h1 (ih2 hb)

mutual
theorem flattens_flat (keep : Id → Bool) : ∀ s : Spec τ, s.okT keep = true → Flattens keep [s] s.flat
  | .leaf i act steps, h => by
      simp only [Spec.okT, Bool.and_eq_true] at h
      rw [Spec.flat]
      refine Flattens.leaf h.1.1 h.1.2 ?_ Flattens.nil
      cases act <;> simp_all
  | .group i t al kids pool, h => by
      simp only [Spec.okT, Bool.and_eq_true, Bool.not_eq_true'] at h
      have ht : transparentB t al = true := h.1.2
      rw [Spec.flat]
      simp only [ht, if_true]
      simp only [transparentB, Bool.and_eq_true, Bool.not_eq_true'] at ht
      have e0 : t = 0 := (LawfulTyme.beq_zero t).mp ht.1
      have ea : al = false := ht.2
      subst e0; subst ea
      have := Flattens.group (pool := pool) h.1.1 (flattens_flatL keep kids h.2) Flattens.nil
      simpa using this
theorem flattens_flatL (keep : Id → Bool) : ∀ p : List (Spec τ), Spec.okTL keep p = true → Flattens keep p (Spec.flatL p)
  | [], _ => by rw [Spec.flatL]; exact Flattens.nil
  | s :: ss, h => by
      simp only [Spec.okTL, Bool.and_eq_true] at h
      rw [Spec.flatL]
      have := (flattens_flat keep s h.1).append (flattens_flatL keep ss h.2)
      simpa using this
end

/-- the whole run: enter phase, then the main loop in lockstep (used by C04 and, projected on one doer, by C03) -/
theorem Flattens.sameView {keep : Id → Bool} {p q : List (Spec τ)} (hF : Flattens keep p q)
    (hG : Spec.allStepsL g04 p = true) (pool : List (Spec τ)) {tock : τ} (h0 : 0 ≤ tock) (start : τ)
    (limit : Option τ) (fuel : Nat) :
    SameView keep (doistDo pool tock start limit fuel p) (doistDo pool tock start limit fuel q) := by
  obtain ⟨esP, N0, esQ, F0, hP, hQ, hv, hs⟩ := hF.enter hG start
  have hvQ : keepView keep esQ = esQ := by rw [← hv, keepView_idem]
  unfold doistDo
  rw [hP, hQ]
  simp only []
  obtain ⟨e1, e2, e3, e4, e5, e6⟩ :=
    Sim.doLoop h0 pool (limit.map (start + ·)) fuel 0 start false N0 F0 (p.map Spec.id) (q.map Spec.id) hs
  exact ⟨by simp only [keepView_append, hv, hvQ, e1], e2, e3, e4, e5, e6⟩

omit [Add τ] [LE τ] [DecidableRel (α := τ) (· ≤ ·)] [OfNat τ 0] [BEq τ] [LawfulTyme τ] in
/-- the resumptions of a kept doer can be read off the kept view -/
theorem keepView_recurTymes (keep : Id → Bool) (i : Id) (hk : keep i = true) (evs : List (Ev τ)) :
    recurTymes i (keepView keep evs) = recurTymes i evs := by
  simp only [recurTymes, keepView, List.filter_filter]
  congr 1
  apply List.filter_congr
  intro e _
  by_cases h : e.id = i
  · simp [h, hk]
  · simp [h]

end Hio.Sched
