import HioModel.Sched.LemmasC02
import HioModel.Sched.TimeCycle
/-!
# C03 "in ENTER order": composing the per-pass order (deque order, `runCycle_cycleOK`) with the C02 invariant
"the live doer tree embeds, in order, into the spec tree" (`Fits`/`FitsL`, `runCycle_fits`, by the other engineer)
-/
set_option linter.unusedSectionVars false
set_option linter.unusedSimpArgs false
namespace Hio.Sched
open C02
variable {τ : Type}

/-- ids of the `enter` events, in trace order -/
def enterIds (evs : List (Ev τ)) : List Id :=
  (evs.filter (fun e => e.kind == .enter)).map Ev.id

theorem enterIds_append (a b : List (Ev τ)) : enterIds (a ++ b) = enterIds a ++ enterIds b := by
  simp [enterIds]

theorem enterIds_flagEvs (i : Id) (v : Option Bool) (now : τ) : enterIds (flagEvs i v now) = [] := by
  cases v <;> simp [enterIds, flagEvs, ev]

mutual
/-- an enter that does not raise emits the `enter` events of the spec's doers in spec (pre)order -/
theorem enterSpec_enterIds (now : τ) : ∀ s : Spec τ, (enterSpec now s).2.2 = false →
    enterIds (enterSpec now s).1 = s.eids
  | .leaf i act steps, h => by
      unfold enterSpec at h ⊢
      cases act with
      | ok => simp [enterIds, ev, Spec.eids]
      | fail => simp at h
      | done v =>
          simp only [enterIds_append, enterIds_flagEvs, List.append_nil]
          simp [enterIds, ev, Spec.eids]
  | .group i tock always kids pool, h => by
      have ih := enterList_enterIds now kids
      unfold enterSpec at h ⊢
      rcases hk : enterList now kids with ⟨es, deeds, b⟩
      rw [hk] at h ih
      cases b with
      | true => simp at h
      | false =>
          simp only [enterIds_append, ih rfl, Spec.eids]
          simp [enterIds, ev]
theorem enterList_enterIds (now : τ) : ∀ ss : List (Spec τ), (enterList now ss).2.2 = false →
    enterIds (enterList now ss).1 = Spec.eidsL ss
  | [], _ => by simp [enterList, enterIds, Spec.eidsL]
  | s :: ss, h => by
      have ih1 := enterSpec_enterIds now s
      have ih2 := enterList_enterIds now ss
      unfold enterList at h ⊢
      rcases h1 : enterSpec now s with ⟨e1, r, b⟩
      rw [h1] at h ih1
      cases b with
      | true => simp at h
      | false =>
          rcases h2 : enterList now ss with ⟨e2, rs, b2⟩
          rw [h2] at h ih2
          simp only at h ⊢
          rw [enterIds_append, ih1 rfl, ih2 h, Spec.eidsL]
end

mutual
/-- the C02 embedding, read on ids: the live forest lists, in order, a sub-selection of the entered ids -/
theorem Fits_liveIds : ∀ (s : Spec τ) (d : RT τ), Fits s d → d.liveIds.Sublist s.eids
  | .leaf i _ _, .leaf j _ _, h => by
      simp only [Fits] at h; subst h; simp [RT.liveIds, Spec.eids]
  | .leaf _ _ _, .group .., h => by simp [Fits] at h
  | .group _ _ _ _ _, .leaf .., h => by simp [Fits] at h
  | .group i _ _ kids _, .group j _ _ _ _ _ deeds, h => by
      simp only [Fits] at h
      obtain ⟨rfl, hk⟩ := h
      simp only [RT.liveIds, Spec.eids]
      exact List.Sublist.cons_cons _ (FitsL_liveIds kids deeds hk)
theorem FitsL_liveIds : ∀ (ss : List (Spec τ)) (ds : List (RT τ)), FitsL ss ds → (RT.liveIdsL ds).Sublist (Spec.eidsL ss)
  | [], ds, h => by simp only [FitsL] at h; subst h; simp [RT.liveIdsL]
  | s :: ss, ds, h => by
      unfold FitsL at h
      rcases h with h | h
      · rw [Spec.eidsL]
        exact (FitsL_liveIds ss ds h).trans (List.sublist_append_right _ _)
      · cases ds with
        | nil => exact absurd h (by simp)
        | cons d ds' =>
          simp only at h
          rw [Spec.eidsL, RT.liveIdsL]
          exact List.Sublist.append (Fits_liveIds s d h.1) (FitsL_liveIds ss ds' h.2)
end

section run
variable [Add τ] [LE τ] [DecidableRel (α := τ) (· ≤ ·)] [OfNat τ 0] [BEq τ]

/-- the C02 invariant carried over whole cycles of the Doist -/
theorem cycState_fits (pool : List (Spec τ)) (tock : τ) (ss : List (Spec τ)) :
    ∀ (k : Nat) (now : τ) (deeds : List (RT τ)) (doers : List Id) {t : τ} {d : List (RT τ)} {ds : List Id},
      RT.allStepsL stepsNoExtend deeds = true → FitsL ss deeds →
      cycState pool tock k now deeds doers = some (t, d, ds) →
      RT.allStepsL stepsNoExtend d = true ∧ FitsL ss d
  | 0, now, deeds, doers, t, d, ds, ha, hf, h => by
      simp only [cycState, Option.some.injEq, Prod.mk.injEq] at h
      obtain ⟨_, rfl, _⟩ := h
      exact ⟨ha, hf⟩
  | k+1, now, deeds, doers, t, d, ds, ha, hf, h => by
      rw [cycState] at h
      have hfit := runCycle_fits now pool tock 0 deeds { doers := doers } ha (by simp [RT.allStepsL])
      rcases hr : runCycle pool now tock 0 deeds { doers := doers } with ⟨es, un, c, x⟩
      rw [hr] at h hfit
      cases x with
      | some x => simp at h
      | none =>
          simp only at h hfit
          have h1 : RT.allStepsL stepsNoExtend c.pr = true := by
            have := hfit.1
            rw [allStepsL_append, Bool.and_eq_true] at this
            exact this.1
          have h2 : FitsL ss c.pr := FitsL_sublist ss (List.sublist_append_left _ _) (hfit.2 ss (by simpa using hf))
          exact cycState_fits pool tock ss k (now + tock) c.pr c.doers h1 h2 h

end run
end Hio.Sched
