import HioModel.Sched.TimeDefs
/-!
# C03: what one cycle emits — every event observes the scheduler's current tyme; `recur` events come at most once per
live doer, in deque order (any program: ops, faults, nesting)
-/
set_option linter.unusedSectionVars false
set_option linter.unusedSimpArgs false
namespace Hio.Sched
variable {τ : Type}

/-- events that carry tyme `now` and are not resumptions -/
def QuietAt (now : τ) (evs : List (Ev τ)) : Prop := ∀ e ∈ evs, e.tyme = now ∧ e.kind ≠ .recur

theorem QuietAt.nil (now : τ) : QuietAt now ([] : List (Ev τ)) := fun _ h => by simp at h
theorem QuietAt.append {now : τ} {a b : List (Ev τ)} (ha : QuietAt now a) (hb : QuietAt now b) : QuietAt now (a ++ b) := by
  intro e he
  rcases List.mem_append.mp he with h | h
  · exact ha e h
  · exact hb e h
theorem QuietAt.single (now : τ) (i : Id) (k : Kind) (hk : k ≠ .recur) : QuietAt now [ev i k now] := by
  intro e he; simp only [List.mem_singleton] at he; subst he; exact ⟨rfl, hk⟩
theorem QuietAt.cons (now : τ) (i : Id) (k : Kind) (hk : k ≠ .recur) {es : List (Ev τ)} (h : QuietAt now es) :
    QuietAt now (ev i k now :: es) := (QuietAt.single now i k hk).append h

theorem flagEvs_quiet (i : Id) (v : Option Bool) (now : τ) : QuietAt now (flagEvs i v now) := by
  cases v with
  | none => exact QuietAt.nil now
  | some b => exact QuietAt.single now i _ (by simp)

theorem abortEvs_quiet (i : Id) (x : Exn) (now : τ) : QuietAt now (abortEvs i x now) := by
  cases x with
  | err => exact QuietAt.single now i _ (by simp)
  | kbint => exact QuietAt.nil now

mutual
theorem closeRT_quiet (now : τ) : ∀ rt : RT τ, QuietAt now (closeRT now rt)
  | .leaf i _ _ => by
      rw [closeRT]; exact QuietAt.cons now i _ (by simp) (QuietAt.single now i _ (by simp))
  | .group i _ _ _ _ _ deeds => by
      rw [closeRT]
      exact ((QuietAt.cons now i _ (by simp) (QuietAt.single now i _ (by simp))).append (closeAllRev_quiet now deeds)).append
        (QuietAt.single now i _ (by simp))
theorem closeAllRev_quiet (now : τ) : ∀ ds : List (RT τ), QuietAt now (closeAllRev now ds)
  | [] => by rw [closeAllRev]; exact QuietAt.nil now
  | d :: ds => by rw [closeAllRev]; exact (closeAllRev_quiet now ds).append (closeRT_quiet now d)
end

mutual
theorem enterSpec_quiet (now : τ) : ∀ s : Spec τ, QuietAt now (enterSpec now s).1
  | .leaf i act steps => by
      unfold enterSpec
      have hpre : QuietAt now [ev i (.flag false) now, ev i .enter now] :=
        QuietAt.cons now i _ (by simp) (QuietAt.single now i _ (by simp))
      cases act with
      | ok => exact hpre
      | fail => exact hpre.append (QuietAt.cons now i _ (by simp) (QuietAt.single now i _ (by simp)))
      | done v =>
          exact (hpre.append (QuietAt.cons now i _ (by simp) (QuietAt.single now i _ (by simp)))).append (flagEvs_quiet i v now)
  | .group i tock always kids pool => by
      have ih := enterList_quiet now kids
      have hpre : QuietAt now [ev i (.flag false) now, ev i .enter now] :=
        QuietAt.cons now i _ (by simp) (QuietAt.single now i _ (by simp))
      unfold enterSpec
      rcases h : enterList now kids with ⟨es, deeds, b⟩
      rw [h] at ih
      cases b with
      | true =>
          exact (((hpre.append ih).append (QuietAt.cons now i _ (by simp) (QuietAt.single now i _ (by simp)))).append
            (closeAllRev_quiet now deeds)).append (QuietAt.single now i _ (by simp))
      | false => exact hpre.append ih
theorem enterList_quiet (now : τ) : ∀ ss : List (Spec τ), QuietAt now (enterList now ss).1
  | [] => by rw [enterList]; exact QuietAt.nil now
  | s :: ss => by
      have ih1 := enterSpec_quiet now s
      have ih2 := enterList_quiet now ss
      rw [enterList]
      rcases h : enterSpec now s with ⟨e, r, b⟩
      rw [h] at ih1
      cases b with
      | true => exact ih1
      | false =>
          rcases h2 : enterList now ss with ⟨e2, rs, b2⟩
          rw [h2] at ih2
          exact ih1.append ih2
end

theorem extendList_quiet (pool : List (Spec τ)) (now : τ) (ks : List Nat) (c : Cyc τ) :
    QuietAt now (extendList pool now ks c).1 := by
  fun_induction extendList pool now ks c with
  | case1 c => exact QuietAt.nil now
  | case2 k ks c hk ih => exact ih
  | case3 k ks c s hk hc ih => exact ih
  | case4 k ks c s hk hc e r he => have := enterSpec_quiet now s; rw [he] at this; exact this
  | case5 k ks c s hk hc e r he e2 c2 b h2 ih =>
      have := enterSpec_quiet now s; rw [he] at this
      rw [h2] at ih
      exact this.append ih

theorem removeOp_quiet (now : τ) (sid : Id) (un : List (RT τ)) (ids : List Id) (c : Cyc τ) :
    QuietAt now (removeOp now sid un ids c).1 := by
  simp only [removeOp]
  exact ((QuietAt.single now sid _ (by simp)).append (closeAllRev_quiet now _)).append (QuietAt.single now sid _ (by simp))

theorem applyOps_quiet (pool : List (Spec τ)) (now : τ) (sid : Id) (un : List (RT τ)) (ops : List Op) (c : Cyc τ) :
    QuietAt now (applyOps pool now sid un ops c).1 := by
  fun_induction applyOps pool now sid un ops c with
  | case1 c => exact QuietAt.nil now
  | case2 ks ops c e c1 he => have := extendList_quiet pool now ks c; rw [he] at this; exact this
  | case3 ks ops c e c1 he e2 c2 b h2 ih =>
      have := extendList_quiet pool now ks c; rw [he] at this
      rw [h2] at ih
      exact (this.append (QuietAt.single now sid _ (by simp))).append ih
  | case4 ids ops c e c1 he e2 c2 b h2 ih =>
      have := removeOp_quiet now sid un ids c; rw [he] at this
      rw [h2] at ih
      exact (this.append (QuietAt.single now sid _ (by simp))).append ih

/-- what C03 says of the events of one pass: all carry `now`; the resumed ids form a sublist of `ids` -/
def CycleOK (now : τ) (ids : List Id) (evs : List (Ev τ)) : Prop :=
  (∀ e ∈ evs, e.tyme = now) ∧ (recurIds evs).Sublist ids

theorem recurIds_append (a b : List (Ev τ)) : recurIds (a ++ b) = recurIds a ++ recurIds b := by
  simp [recurIds]

theorem QuietAt.recurIds {now : τ} {a : List (Ev τ)} (h : QuietAt now a) : recurIds a = [] := by
  simp only [Hio.Sched.recurIds, List.map_eq_nil_iff, List.filter_eq_nil_iff]
  intro e he
  have := (h e he).2
  simp [this]

theorem QuietAt.cycleOK {now : τ} {a : List (Ev τ)} (h : QuietAt now a) : CycleOK now [] a :=
  ⟨fun e he => (h e he).1, by rw [h.recurIds]; exact List.Sublist.refl _⟩

theorem CycleOK.append {now : τ} {i1 i2 : List Id} {a b : List (Ev τ)} (ha : CycleOK now i1 a) (hb : CycleOK now i2 b) :
    CycleOK now (i1 ++ i2) (a ++ b) := by
  refine ⟨fun e he => ?_, ?_⟩
  · rcases List.mem_append.mp he with h | h
    · exact ha.1 e h
    · exact hb.1 e h
  · rw [recurIds_append]; exact List.Sublist.append ha.2 hb.2

theorem CycleOK.quiet_left {now : τ} {ids : List Id} {a b : List (Ev τ)} (ha : QuietAt now a) (hb : CycleOK now ids b) :
    CycleOK now ids (a ++ b) := by simpa using ha.cycleOK.append hb

theorem CycleOK.quiet_right {now : τ} {ids : List Id} {a b : List (Ev τ)} (ha : CycleOK now ids a) (hb : QuietAt now b) :
    CycleOK now ids (a ++ b) := by simpa using ha.append hb.cycleOK

theorem CycleOK.recur_cons {now : τ} {ids : List Id} (i : Id) {a : List (Ev τ)} (ha : CycleOK now ids a) :
    CycleOK now (i :: ids) (ev i .recur now :: a) := by
  refine ⟨fun e he => ?_, ?_⟩
  · rcases List.mem_cons.mp he with h | h
    · rw [h]; rfl
    · exact ha.1 e h
  · have : recurIds (ev i .recur now :: a) = i :: recurIds a := by simp [recurIds, ev]
    rw [this]; exact List.Sublist.cons_cons i ha.2

theorem CycleOK.mono {now : τ} {ids ids' : List Id} {a : List (Ev τ)} (ha : CycleOK now ids a) (h : ids.Sublist ids') :
    CycleOK now ids' a := ⟨ha.1, ha.2.trans h⟩

section cyc
variable [Add τ] [LE τ] [DecidableRel (α := τ) (· ≤ ·)] [OfNat τ 0] [BEq τ]

mutual
theorem resumeGroup_cycleOK (now : τ) : ∀ rt : RT τ, CycleOK now rt.liveIds (resumeGroup now rt).1
  | .leaf _ _ _ => by
      rw [resumeGroup]; exact (QuietAt.nil now).cycleOK.mono (List.nil_sublist _)
  | .group i r tock always pool doers deeds => by
      have ih := runCycle_cycleOK pool now tock i deeds { doers := doers }
      rw [resumeGroup, RT.liveIds]
      rcases h : runCycle pool now tock i deeds { doers := doers } with ⟨es, un, c, x⟩
      rw [h] at ih
      cases x with
      | some x =>
          simp only
          have hq : QuietAt now (abortEvs i x now ++ [ev i .exit now] ++ closeAllRev now (c.pr ++ un) ++ [ev i .exitEnd now]) :=
            (((abortEvs_quiet i x now).append (QuietAt.single now i _ (by simp))).append (closeAllRev_quiet now _)).append
              (QuietAt.single now i _ (by simp))
          have := (CycleOK.recur_cons i ih).quiet_right hq
          simpa [List.append_assoc] using this
      | none =>
          have h1 : CycleOK now (i :: RT.liveIdsL deeds) ([ev i .recur now] ++ es ++ [ev i (.flag c.pr.isEmpty) now]) := by
            have := (CycleOK.recur_cons i ih).quiet_right (QuietAt.single now i (.flag c.pr.isEmpty) (by simp))
            simpa [List.append_assoc] using this
          simp only
          split
          · exact h1
          · exact h1.quiet_right (QuietAt.cons now i _ (by simp) (QuietAt.cons now i _ (by simp) (QuietAt.single now i _ (by simp))))
theorem runCycle_cycleOK (pool : List (Spec τ)) (now stock : τ) (sid : Id) :
    ∀ (un : List (RT τ)) (c : Cyc τ), CycleOK now (RT.liveIdsL un) (runCycle pool now stock sid un c).1
  | [], c => by rw [runCycle]; exact (QuietAt.nil now).cycleOK.mono (List.nil_sublist _)
  | .leaf i r steps :: un, c => by
      have ihu := runCycle_cycleOK pool now stock sid un
      have hsub : (RT.liveIdsL un).Sublist (RT.liveIdsL (.leaf i r steps :: un)) := by
        rw [RT.liveIdsL, RT.liveIds]; exact List.sublist_append_right _ _
      rw [runCycle.eq_def]
      simp only
      split
      · exact (ihu c).mono hsub
      · split
        · have hA := applyOps_quiet pool now sid un (headStep steps).fst.ops c
          generalize applyOps pool now sid un (headStep steps).fst.ops c = A at hA ⊢
          rw [RT.liveIdsL, RT.liveIds]
          generalize (if A.2.2 = true then Out.raise Exn.err else (headStep steps).1.out) = out
          cases out with
          | raise x =>
              have hq : QuietAt now (A.1 ++ abortEvs i x now ++ [ev i .exit now]) :=
                (hA.append (abortEvs_quiet i x now)).append (QuietAt.single now i _ (by simp))
              have := CycleOK.recur_cons i (hq.cycleOK.mono (List.nil_sublist (RT.liveIdsL un)))
              simpa [List.append_assoc] using this
          | ret v =>
              have hq : QuietAt now (A.1 ++ [ev i .clean now, ev i .exit now] ++ flagEvs i v now) :=
                (hA.append (QuietAt.cons now i _ (by simp) (QuietAt.single now i _ (by simp)))).append (flagEvs_quiet i v now)
              have := CycleOK.recur_cons i (CycleOK.quiet_left hq (ihu A.2.1))
              simpa [List.append_assoc] using this
          | yieldT t =>
              have := CycleOK.recur_cons i (CycleOK.quiet_left hA (ihu { A.2.1 with pr := A.2.1.pr ++ [.leaf i (nextDue now stock r t) (headStep steps).2] }))
              simpa [List.append_assoc] using this
        · exact (ihu _).mono hsub
  | .group i r tock always gpool doers deeds :: un, c => by
      have ihu := runCycle_cycleOK pool now stock sid un
      have ihd := resumeGroup_cycleOK now (.group i r tock always gpool doers deeds)
      have hsub : (RT.liveIdsL un).Sublist (RT.liveIdsL (.group i r tock always gpool doers deeds :: un)) := by
        rw [RT.liveIdsL]; exact List.sublist_append_right _ _
      rw [runCycle.eq_def]
      simp only
      split
      · exact (ihu c).mono hsub
      · split
        · rcases hg : resumeGroup now (.group i r tock always gpool doers deeds) with ⟨eg, res⟩
          rw [hg] at ihd
          rw [RT.liveIdsL]
          cases res with
          | raised x => simpa using ihd.append ((QuietAt.nil now).cycleOK.mono (List.nil_sublist (RT.liveIdsL un)))
          | finished =>
              have := ihd.append (CycleOK.quiet_left (QuietAt.single now i (.flag true) (by simp)) (ihu c))
              simpa [List.append_assoc] using this
          | yielded rt t => exact ihd.append (ihu _)
        · exact (ihu _).mono hsub
end

end cyc
end Hio.Sched
