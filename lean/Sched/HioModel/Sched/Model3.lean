import HioModel.Sched.Model2
/-!
# Third-generation scheduler model (`Hio.Sched3`): scheduler ops issued from cease / exit actions

`Model2` plus, per leaf, `ceaseOps` and `exitOps`: extend / remove calls on the doer's OWN scheduler issued from its
cease action (forced close) and from its exit action (every ending).  A forced shutdown is therefore re-entrant:
`exit()` pops a deed off the deque BEFORE closing it and re-tests the deque each time, so

* `remove()` from a close action takes further deeds out of the deque that is being emptied and closes them at once,
* `extend()` from a close action enters new doers and appends them at the right end, where the loop pops them next.

The scheduler state (`Cyc3`: deeds right of the marker / the deque being emptied, doers list, lazily removed ids)
is threaded through every close.  All close / enter / op functions are one mutual recursion on a fuel argument
(a close action may extend with a doer whose close action extends again …); out of fuel they emit nothing.
Exceptions raised by ops inside a close action are NOT modelled (the op sequence just stops); neither are close-time
ops of a doer that ends during its own enter (done / failing enter): `enterSpec` ignores them.
Import-free apart from Model / Model2.
-/
namespace Hio.Sched3
open Hio.Sched (Id Kind Ev ev Op flagEvs nextDue)
open Hio.Sched2 (Exn2 Out2 Step2 EnterAct2 abortEvs loopRaises)

inductive Spec3 (τ : Type)
  | leaf (id : Id) (enter : EnterAct2) (steps : List (Step2 τ)) (cleanFails : Bool) (ceaseOps exitOps : List Op)
  | group (id : Id) (tock : τ) (always : Bool) (kids : List (Spec3 τ)) (pool : List (Spec3 τ)) (cleanFails : Bool)

inductive RT3 (τ : Type)
  | leaf (id : Id) (retyme : τ) (steps : List (Step2 τ)) (cleanFails : Bool) (ceaseOps exitOps : List Op)
  | group (id : Id) (retyme : τ) (tock : τ) (always : Bool) (pool : List (Spec3 τ))
      (doers : List Id) (deeds : List (RT3 τ)) (cleanFails : Bool)

def RT3.id {τ} : RT3 τ → Id
  | .leaf i _ _ _ _ _ => i
  | .group i _ _ _ _ _ _ _ => i
def RT3.retyme {τ} : RT3 τ → τ
  | .leaf _ r _ _ _ _ => r
  | .group _ r _ _ _ _ _ _ => r
def RT3.setRetyme {τ} (r : τ) : RT3 τ → RT3 τ
  | .leaf i _ s cf co eo => .leaf i r s cf co eo
  | .group i _ t a p d ds cf => .group i r t a p d ds cf
def Spec3.id {τ} : Spec3 τ → Id
  | .leaf i _ _ _ _ _ => i
  | .group i _ _ _ _ _ => i

variable {τ : Type}

structure Cyc3 (τ : Type) where
  pr : List (RT3 τ) := []
  doers : List Id := []
  gone : List Id := []
  starved : Bool := false   -- a close / op ran out of fuel somewhere below: the events are then incomplete

def Cyc3.starve (c : Cyc3 τ) : Cyc3 τ := { c with starved := true }

def liveUn (c : Cyc3 τ) (un : List (RT3 τ)) : List (RT3 τ) := un.filter (fun d => !c.gone.contains d.id)

mutual
/-- `dog.close()` of deed `d` of scheduler `sid` (pool `pool`) whose remaining state is `(un, c)`; `d` is already off the deque -/
def closeRT (pool : List (Spec3 τ)) (now : τ) (sid : Id) (un : List (RT3 τ)) :
    Nat → RT3 τ → Cyc3 τ → List (Ev τ) × Cyc3 τ
  | 0, _, c => ([], c.starve)
  | f+1, .leaf i _ _ _ co eo, c =>
      match applyOps pool now sid un f co c with
      | (e1, c1, _) =>
        match applyOps pool now sid un f eo c1 with
        | (e2, c2, _) => ([ev i .cease now] ++ e1 ++ [ev i .exit now] ++ e2, c2)
  | f+1, .group i _ _ _ gpool doers deeds _, c =>
      match closeLoop gpool now i f { pr := deeds, doers := doers } with
      | (e, g) => ([ev i .cease now, ev i .exit now] ++ e ++ [ev i .exitEnd now], { c with starved := c.starved || g.starved })
termination_by structural fuel _ _ => fuel
/-- `exit()` on the scheduler's own deque `c.pr`: pop from the right, close, look again -/
def closeLoop (pool : List (Spec3 τ)) (now : τ) (sid : Id) : Nat → Cyc3 τ → List (Ev τ) × Cyc3 τ
  | 0, c => ([], if c.pr.isEmpty then c else c.starve)
  | f+1, c =>
      match c.pr.getLast? with
      | none => ([], c)
      | some d =>
          match closeRT pool now sid [] f d { c with pr := c.pr.dropLast } with
          | (e, c1) =>
            match closeLoop pool now sid f c1 with
            | (e2, c2) => (e ++ e2, c2)
termination_by structural fuel _ => fuel
/-- `exit(deeds=rdeeds)` of a remove() call: the local list `l` is closed from its right end; the close actions see `(un, c)` -/
def closeList (pool : List (Spec3 τ)) (now : τ) (sid : Id) (un : List (RT3 τ)) :
    Nat → List (RT3 τ) → Cyc3 τ → List (Ev τ) × Cyc3 τ
  | 0, l, c => ([], if l.isEmpty then c else c.starve)
  | f+1, l, c =>
      match l.getLast? with
      | none => ([], c)
      | some d =>
          match closeRT pool now sid un f d c with
          | (e, c1) =>
            match closeList pool now sid un f l.dropLast c1 with
            | (e2, c2) => (e ++ e2, c2)
termination_by structural fuel _ _ => fuel
/-- the 4th component: ran out of fuel (then nothing / not everything was entered or closed) -/
def enterSpec (now : τ) : Nat → Spec3 τ → List (Ev τ) × Option (RT3 τ) × Option Exn2 × Bool
  | 0, _ => ([], none, some .err, true)
  | _+1, .leaf i act steps cf co eo =>
      let pre := [ev i (.flag false) now, ev i .enter now]
      match act with
      | .ok => (pre, some (.leaf i now steps cf co eo), none, false)
      | .fail x => (pre ++ abortEvs i x now ++ [ev i .exit now], none, some x, false)
      | .done v =>
          if cf then (pre ++ [ev i .clean now, ev i .exit now], none, some .err, false)
          else (pre ++ [ev i .clean now, ev i .exit now] ++ flagEvs i v now, none, none, false)
  | f+1, .group i tock always kids pool cf =>
      let pre := [ev i (.flag false) now, ev i .enter now]
      match enterList now f kids with
      | (es, deeds, some x, sv) =>
          match closeLoop pool now i f { pr := deeds, doers := kids.map Spec3.id } with
          | (ec, g) =>
            (pre ++ es ++ abortEvs i x now ++ [ev i .exit now] ++ ec ++ [ev i .exitEnd now], none, some x, sv || g.starved)
      | (es, deeds, none, sv) =>
          (pre ++ es, some (.group i now tock always pool (kids.map Spec3.id) deeds cf), none, sv)
termination_by structural fuel _ => fuel
def enterList (now : τ) : Nat → List (Spec3 τ) → List (Ev τ) × List (RT3 τ) × Option Exn2 × Bool
  | 0, [] => ([], [], none, false)
  | 0, _ :: _ => ([], [], some .err, true)
  | _, [] => ([], [], none, false)
  | f+1, s :: ss =>
      match enterSpec now f s with
      | (e, _, some x, sv) => (e, [], some x, sv)
      | (e, r, none, sv) =>
          match enterList now f ss with
          | (e2, rs, b, sv2) => (e ++ e2, r.toList ++ rs, b, sv || sv2)
termination_by structural fuel _ => fuel
def extendList (pool : List (Spec3 τ)) (now : τ) : Nat → List Nat → Cyc3 τ → List (Ev τ) × Cyc3 τ × Option Exn2
  | 0, [], c => ([], c, none)
  | 0, _ :: _, c => ([], c.starve, none)
  | _, [], c => ([], c, none)
  | f+1, k :: ks, c =>
      match pool[k]? with
      | none => extendList pool now f ks c
      | some s =>
          if c.doers.contains s.id then extendList pool now f ks c else
          match enterSpec now f s with
          | (e, _, some x, sv) => (e, { c with starved := c.starved || sv }, some x)
          | (e, r, none, sv) =>
              match extendList pool now f ks { c with pr := c.pr ++ r.toList, doers := c.doers ++ [s.id], starved := c.starved || sv } with
              | (e2, c2, b) => (e ++ e2, c2, b)
termination_by structural fuel _ _ => fuel
/-- `remove(ids)`: unlink the hit deeds and drop them from `.doers` first, then close them (right to left); their
close actions already see the scheduler without them -/
def removeOp (pool : List (Spec3 τ)) (now : τ) (sid : Id) (un : List (RT3 τ)) :
    Nat → List Id → Cyc3 τ → List (Ev τ) × Cyc3 τ
  | 0, _, c => ([], c.starve)
  | f+1, ids, c =>
      let rids := ids.filter (fun i => c.doers.contains i)
      let hit (d : RT3 τ) : Bool := rids.contains d.id
      let unHit := (liveUn c un).filter hit
      let prHit := c.pr.filter hit
      let c0 : Cyc3 τ := { pr := c.pr.filter (fun d => !hit d),
                           doers := c.doers.filter (fun i => !rids.contains i),
                           gone := c.gone ++ unHit.map RT3.id, starved := c.starved }
      match closeList pool now sid un f (prHit ++ unHit) c0 with
      | (e, c1) => ([ev sid .rmBeg now] ++ e ++ [ev sid .rmEnd now], c1)
termination_by structural fuel _ _ => fuel
def applyOps (pool : List (Spec3 τ)) (now : τ) (sid : Id) (un : List (RT3 τ)) :
    Nat → List Op → Cyc3 τ → List (Ev τ) × Cyc3 τ × Option Exn2
  | 0, [], c => ([], c, none)
  | 0, _ :: _, c => ([], c.starve, none)
  | _, [], c => ([], c, none)
  | f+1, .extend ks :: ops, c =>
      match extendList pool now f ks c with
      | (e, c1, some x) => (e, c1, some x)
      | (e, c1, none) =>
          match applyOps pool now sid un f ops c1 with
          | (e2, c2, b) => (e ++ [ev sid (.doers c1.doers) now] ++ e2, c2, b)
  | f+1, .remove ids :: ops, c =>
      match removeOp pool now sid un f ids c with
      | (e, c1) =>
          match applyOps pool now sid un f ops c1 with
          | (e2, c2, b) => (e ++ [ev sid (.doers c1.doers) now] ++ e2, c2, b)
termination_by structural fuel _ _ => fuel
end

variable [Add τ] [LE τ] [DecidableRel (α := τ) (· ≤ ·)] [OfNat τ 0] [BEq τ]

def headStep (steps : List (Step2 τ)) : Step2 τ × List (Step2 τ) :=
  match steps with
  | [] => (⟨[], .ret (some true)⟩, [])
  | s :: ss => (s, ss)

inductive Res3 (τ : Type)
  | yielded (rt : RT3 τ) (tock : τ)
  | finished
  | raised (e : Exn2)

mutual
def resumeGroup (cf : Nat) (now : τ) : RT3 τ → List (Ev τ) × Res3 τ × Bool
  | .leaf _ _ _ _ _ _ => ([], .raised .err, false)
  | .group i r tock always pool doers deeds clf =>
      match runCycle cf pool now tock i deeds { doers := doers } with
      | (es, un, c, some x) =>
          match closeLoop pool now i cf { c with pr := c.pr ++ un } with
          | (ec, g) =>
            ([ev i .recur now] ++ es ++ abortEvs i x now ++ [ev i .exit now] ++ ec ++ [ev i .exitEnd now], .raised x, g.starved)
      | (es, _, c, none) =>
          let es := [ev i .recur now] ++ es ++ [ev i (.flag c.pr.isEmpty) now]
          if !c.pr.isEmpty || always then
            (es, .yielded (.group i r tock always pool c.doers c.pr clf) tock, c.starved)
          else if clf then
            (es ++ [ev i .clean now, ev i .exit now, ev i .exitEnd now], .raised .err, c.starved)
          else
            (es ++ [ev i .clean now, ev i .exit now, ev i .exitEnd now], .finished, c.starved)
/-- one pass over the deeds left of the marker; `cf` = fuel handed to every close / enter / op -/
def runCycle (cf : Nat) (pool : List (Spec3 τ)) (now stock : τ) (sid : Id) :
    List (RT3 τ) → Cyc3 τ → List (Ev τ) × List (RT3 τ) × Cyc3 τ × Option Exn2
  | [], c => ([], [], c, none)
  | d :: un, c =>
    if c.gone.contains d.id then runCycle cf pool now stock sid un c else
    if d.retyme ≤ now then
      match d with
      | .leaf i r steps clf co eo =>
          let st := (headStep steps).1
          let rest := (headStep steps).2
          match applyOps pool now sid un cf st.ops c with
          | (eo1, c1, opRaised) =>
            let out := match opRaised with | some x => Out2.raise x | none => st.out
            match out with
            | .raise x =>
                -- abort (Exception only), exit, then the exit action's ops; the exception goes on
                match applyOps pool now sid un cf eo c1 with
                | (e3, c3, _) =>
                  ([ev i .recur now] ++ eo1 ++ abortEvs i x now ++ [ev i .exit now] ++ e3, liveUn c3 un, c3, some x)
            | .ret v =>
                if clf then
                  match applyOps pool now sid un cf eo c1 with
                  | (e3, c3, _) =>
                    ([ev i .recur now] ++ eo1 ++ [ev i .clean now, ev i .exit now] ++ e3, liveUn c3 un, c3, some .err)
                else
                match applyOps pool now sid un cf eo c1 with
                | (e3, c3, _) =>
                  match runCycle cf pool now stock sid un c3 with
                  | (e2, un2, c2, x) =>
                    ([ev i .recur now] ++ eo1 ++ [ev i .clean now, ev i .exit now] ++ e3 ++ flagEvs i v now ++ e2, un2, c2, x)
            | .yieldT t =>
                match runCycle cf pool now stock sid un { c1 with pr := c1.pr ++ [.leaf i (nextDue now stock r t) rest clf co eo] } with
                | (e2, un2, c2, x) => ([ev i .recur now] ++ eo1 ++ e2, un2, c2, x)
      | .group i r tock always gpool doers deeds clf =>
          match resumeGroup cf now (.group i r tock always gpool doers deeds clf) with
          | (eg, .raised x, sv) => (eg, liveUn c un, { c with starved := c.starved || sv }, some x)
          | (eg, .finished, sv) =>
              match runCycle cf pool now stock sid un { c with starved := c.starved || sv } with
              | (e2, un2, c2, x) => (eg ++ [ev i (.flag true) now] ++ e2, un2, c2, x)
          | (eg, .yielded rt t, sv) =>
              match runCycle cf pool now stock sid un { c with pr := c.pr ++ [rt.setRetyme (nextDue now stock r (some t))], starved := c.starved || sv } with
              | (e2, un2, c2, x) => (eg ++ e2, un2, c2, x)
    else
      runCycle cf pool now stock sid un { c with pr := c.pr ++ [d] }
end

/-- `Doist.exit()` in do(): the deque is `deeds`, the doers list `doers` -/
def stopEvs (cf : Nat) (pool : List (Spec3 τ)) (now : τ) (deeds : List (RT3 τ)) (doers : List Id) : List (Ev τ) :=
  [ev 0 .stopBeg now] ++ (closeLoop pool now 0 cf { pr := deeds, doers := doers }).1 ++ [ev 0 .stopEnd now]

/-- the doers list after that exit() (close actions may have changed it) -/
def stopDoers (cf : Nat) (pool : List (Spec3 τ)) (now : τ) (deeds : List (RT3 τ)) (doers : List Id) : List Id :=
  (closeLoop pool now 0 cf { pr := deeds, doers := doers }).2.doers

def stopStarved (cf : Nat) (pool : List (Spec3 τ)) (now : τ) (deeds : List (RT3 τ)) (doers : List Id) : Bool :=
  (closeLoop pool now 0 cf { pr := deeds, doers := doers }).2.starved

/-- result of a run; `starved` = some close / op ran out of its fuel `cf` (then the events are incomplete) -/
structure Final3 (τ : Type) extends Hio.Sched2.Final2 τ where
  starved : Bool

def doLoop (cf : Nat) (pool : List (Spec3 τ)) (tock : τ) (stopAt : Option τ) :
    Nat → Nat → τ → List (RT3 τ) → List Id → Final3 τ
  | 0, n, now, deeds, doers =>
      ⟨⟨stopEvs cf pool now deeds doers, false, now, none, true, stopDoers cf pool now deeds doers, n⟩,
       stopStarved cf pool now deeds doers⟩
  | fuel+1, n, now, deeds, doers =>
      match runCycle cf pool now tock 0 deeds { doers := doers } with
      | (es, un, c, some x) =>
          ⟨⟨es ++ stopEvs cf pool now (c.pr ++ un) c.doers, false, now, loopRaises x, false,
             stopDoers cf pool now (c.pr ++ un) c.doers, n⟩,
           c.starved || stopStarved cf pool now (c.pr ++ un) c.doers⟩
      | (es, _, c, none) =>
          let now' := now + tock
          if c.pr.isEmpty then ⟨⟨es ++ stopEvs cf pool now' [] c.doers, true, now', none, false, c.doers, n+1⟩, c.starved⟩
          else
            let stop := match stopAt with | some s => decide (s ≤ now') | none => false
            if stop then
              ⟨⟨es ++ stopEvs cf pool now' c.pr c.doers, false, now', none, false, stopDoers cf pool now' c.pr c.doers, n+1⟩,
               c.starved || stopStarved cf pool now' c.pr c.doers⟩
            else
              let f := doLoop cf pool tock stopAt fuel (n+1) now' c.pr c.doers
              { f with evs := es ++ f.evs, starved := c.starved || f.starved }

/-- `Doist(tock, tyme=start, limit).do(doers=specs)`; `doers` of the result is the list AFTER the final exit() -/
def doistDo (cf : Nat) (pool : List (Spec3 τ)) (tock start : τ) (limit : Option τ) (fuel : Nat) (specs : List (Spec3 τ)) :
    Final3 τ :=
  match enterList start cf specs with
  | (es, deeds, some x, sv) =>
      ⟨⟨es ++ stopEvs cf pool start deeds (specs.map Spec3.id), false, start, some x, false,
         stopDoers cf pool start deeds (specs.map Spec3.id), 0⟩,
       sv || stopStarved cf pool start deeds (specs.map Spec3.id)⟩
  | (es, deeds, none, sv) =>
      let f := doLoop cf pool tock (limit.map (start + ·)) fuel 0 start deeds (specs.map Spec3.id)
      { f with evs := es ++ f.evs, starved := sv || f.starved }

mutual
def Spec3.ids : Spec3 τ → List Id
  | .leaf i _ _ _ _ _ => [i]
  | .group i _ _ kids pool _ => i :: (Spec3.idsL kids ++ Spec3.idsL pool)
def Spec3.idsL : List (Spec3 τ) → List Id
  | [] => []
  | s :: ss => s.ids ++ Spec3.idsL ss
end

end Hio.Sched3
