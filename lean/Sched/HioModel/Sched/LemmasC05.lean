import HioModel.Sched.Defs
/-!
# Helpers for C05 (run termination, done flags)
-/
namespace Hio.Sched
variable {τ : Type}

theorem ff_ne_tt {P : Prop} (h : false = true) : P := Bool.noConfusion h
theorem tt_ne_ff {P : Prop} (h : true = false) : P := Bool.noConfusion h

/-! ### flags: local facts that need no time structure -/

theorem flagEvs_isFlag (i : Id) (v : Option Bool) (now : τ) :
    ∀ e ∈ flagEvs i v now, e.kind.isFlag = true := by
  intro e he
  cases v with
  | none => simp [flagEvs] at he
  | some b => simp [flagEvs] at he; subst he; rfl

theorem abortEvs_noFlag (i : Id) (x : Exn) (now : τ) :
    ∀ e ∈ abortEvs i x now, e.kind.isFlag = false := by
  intro e he
  cases x with
  | err => simp [abortEvs] at he; subst he; rfl
  | kbint => simp [abortEvs] at he

mutual
theorem closeRT_noFlag (now : τ) : ∀ rt : RT τ, ∀ e ∈ closeRT now rt, e.kind.isFlag = false
  | .leaf i _ _ => by
      intro e he
      simp only [closeRT, List.mem_cons, List.not_mem_nil, or_false] at he
      rcases he with h | h <;> subst h <;> rfl
  | .group i _ _ _ _ _ deeds => by
      intro e he
      simp only [closeRT, List.mem_append, List.mem_cons, List.not_mem_nil, or_false] at he
      rcases he with (h | h) | h
      · rcases h with h | h <;> subst h <;> rfl
      · exact closeAllRev_noFlag now deeds e h
      · subst h; rfl
theorem closeAllRev_noFlag (now : τ) : ∀ ds : List (RT τ), ∀ e ∈ closeAllRev now ds, e.kind.isFlag = false
  | [] => by intro e he; simp [closeAllRev] at he
  | d :: ds => by
      intro e he
      simp only [closeAllRev, List.mem_append] at he
      rcases he with h | h
      · exact closeAllRev_noFlag now ds e h
      · exact closeRT_noFlag now d e h
end

theorem stopEvs_noFlag (now : τ) (ds : List (RT τ)) : ∀ e ∈ stopEvs now ds, e.kind.isFlag = false := by
  intro e he
  simp only [stopEvs, List.mem_append, List.mem_cons, List.not_mem_nil, or_false] at he
  rcases he with (h | h) | h
  · subst h; rfl
  · exact closeAllRev_noFlag now ds e h
  · subst h; rfl

theorem removeOp_noFlag (now : τ) (sid : Id) (un : List (RT τ)) (ids : List Id) (c : Cyc τ) :
    ∀ e ∈ (removeOp now sid un ids c).1, e.kind.isFlag = false := by
  intro e he
  simp only [removeOp, List.mem_append, List.mem_cons, List.not_mem_nil, or_false] at he
  rcases he with (h | h) | h
  · subst h; rfl
  · exact closeAllRev_noFlag now _ e h
  · subst h; rfl

theorem flagEvs_true {i j : Id} {v : Option Bool} {now t : τ}
    (h : ev j (.flag true) t ∈ flagEvs i v now) : v = some true ∧ j = i := by
  cases v with
  | none => simp [flagEvs] at h
  | some b =>
      simp only [flagEvs, List.mem_cons, List.not_mem_nil, or_false, ev, Ev.mk.injEq, Kind.flag.injEq] at h
      exact ⟨by rw [h.2.1], h.1⟩

/-- what a forced close emits: only `cease`, `exit`, `exitEnd`, all stamped `now` -/
def Kind.isCloseKind : Kind → Bool
  | .cease | .exit | .exitEnd => true
  | _ => false

mutual
theorem closeRT_kinds (now : τ) : ∀ rt : RT τ, ∀ e ∈ closeRT now rt, e.kind.isCloseKind = true ∧ e.tyme = now
  | .leaf i _ _ => by
      intro e he
      simp only [closeRT, List.mem_cons, List.not_mem_nil, or_false] at he
      rcases he with h | h <;> subst h <;> exact ⟨rfl, rfl⟩
  | .group i _ _ _ _ _ deeds => by
      intro e he
      simp only [closeRT, List.mem_append, List.mem_cons, List.not_mem_nil, or_false] at he
      rcases he with (h | h) | h
      · rcases h with h | h <;> subst h <;> exact ⟨rfl, rfl⟩
      · exact closeAllRev_kinds now deeds e h
      · subst h; exact ⟨rfl, rfl⟩
theorem closeAllRev_kinds (now : τ) : ∀ ds : List (RT τ), ∀ e ∈ closeAllRev now ds, e.kind.isCloseKind = true ∧ e.tyme = now
  | [] => by intro e he; simp [closeAllRev] at he
  | d :: ds => by
      intro e he
      simp only [closeAllRev, List.mem_append] at he
      rcases he with h | h
      · exact closeAllRev_kinds now ds e h
      · exact closeRT_kinds now d e h
end

/-- `enterSpec` always starts with `done = False` followed by the `enter` of the same doer -/
theorem enterSpec_begins (now : τ) (s : Spec τ) :
    ∃ rest, (enterSpec now s).1 = ev s.id (.flag false) now :: ev s.id .enter now :: rest := by
  cases s with
  | leaf i act steps =>
      cases act <;> simp [enterSpec, Spec.id]
  | group i tock always kids pool =>
      unfold enterSpec
      rcases h : enterList now kids with ⟨es, deeds, b⟩
      cases b <;> simp [Spec.id]

theorem iterAdd_shift [Add τ] (start tock : τ) : ∀ k, iterAdd (start + tock) tock k = iterAdd start tock (k+1)
  | 0 => rfl
  | k+1 => by
      show iterAdd (start + tock) tock k + tock = iterAdd start tock (k+1) + tock
      rw [iterAdd_shift start tock k]

section loop
variable [Add τ] [LE τ] [DecidableRel (α := τ) (· ≤ ·)] [OfNat τ 0] [BEq τ]

/-- scheduler state `(tyme, deeds, doers)` after `k` completed cycles (calls of `recur()` followed by `tick()`),
`none` if one of these cycles raised -/
def cycleState (pool : List (Spec τ)) (tock : τ) : Nat → τ → List (RT τ) → List Id → Option (τ × List (RT τ) × List Id)
  | 0, now, deeds, doers => some (now, deeds, doers)
  | k+1, now, deeds, doers =>
      match runCycle pool now tock 0 deeds { doers := doers } with
      | (_, _, c, none) => cycleState pool tock k (now + tock) c.pr c.doers
      | (_, _, _, some _) => none

/-- cycle number `k+1` (the one starting from the state after `k` completed cycles) was stopped by exception `x` -/
def CycleStopped (pool : List (Spec τ)) (tock : τ) (now : τ) (deeds : List (RT τ)) (doers : List Id) (k : Nat) (x : Exn) : Prop :=
  ∃ now' deeds' doers' es un c, cycleState pool tock k now deeds doers = some (now', deeds', doers') ∧
    runCycle pool now' tock 0 deeds' { doers := doers' } = (es, un, c, some x)

theorem cycleState_succ_none {pool : List (Spec τ)} {tock now : τ} {deeds doers es un c} (k : Nat)
    (h : runCycle pool now tock 0 deeds { doers := doers } = (es, un, c, none)) :
    cycleState pool tock (k+1) now deeds doers = cycleState pool tock k (now + tock) c.pr c.doers := by
  simp only [cycleState, h]

theorem CycleStopped_succ {pool : List (Spec τ)} {tock now : τ} {deeds doers es un c} (k : Nat) (x : Exn)
    (h : runCycle pool now tock 0 deeds { doers := doers } = (es, un, c, none)) :
    CycleStopped pool tock now deeds doers (k+1) x ↔ CycleStopped pool tock (now + tock) c.pr c.doers k x := by
  unfold CycleStopped
  rw [cycleState_succ_none k h]

/-- the limit test of `Doist.do` (`self.limit and tymer.expired`) at tyme `t` -/
def stopB (stopAt : Option τ) (t : τ) : Bool :=
  match stopAt with
  | some s => decide (s ≤ t)
  | none => false

theorem doLoop_succ_some {pool : List (Spec τ)} {tock : τ} {stopAt : Option τ} {fuel n : Nat} {now : τ} {deeds doers es un c x}
    (h : runCycle pool now tock 0 deeds { doers := doers } = (es, un, c, some x)) :
    doLoop pool tock stopAt (fuel+1) n now deeds doers =
      ⟨es ++ stopEvs now (c.pr ++ un), false, now, x == .err, false, c.doers, n⟩ := by
  rw [doLoop, h]

theorem doLoop_succ_none {pool : List (Spec τ)} {tock : τ} {stopAt : Option τ} {fuel n : Nat} {now : τ} {deeds doers es un c}
    (h : runCycle pool now tock 0 deeds { doers := doers } = (es, un, c, none)) :
    doLoop pool tock stopAt (fuel+1) n now deeds doers =
      if c.pr.isEmpty then ⟨es ++ stopEvs (now + tock) [], true, now + tock, false, false, c.doers, n+1⟩
      else if stopB stopAt (now + tock) then ⟨es ++ stopEvs (now + tock) c.pr, false, now + tock, false, false, c.doers, n+1⟩
      else { doLoop pool tock stopAt fuel (n+1) (now + tock) c.pr c.doers with
             evs := es ++ (doLoop pool tock stopAt fuel (n+1) (now + tock) c.pr c.doers).evs } := by
  rw [doLoop, h]
  rfl

theorem doLoop_empty {pool : List (Spec τ)} {tock : τ} {stopAt : Option τ} {fuel n : Nat} {now : τ} {deeds doers es un c}
    (h : runCycle pool now tock 0 deeds { doers := doers } = (es, un, c, none)) (hne : c.pr.isEmpty = true) :
    doLoop pool tock stopAt (fuel+1) n now deeds doers =
      ⟨es ++ stopEvs (now + tock) [], true, now + tock, false, false, c.doers, n+1⟩ := by
  rw [doLoop_succ_none h]; simp only [hne, if_true]

theorem doLoop_limit {pool : List (Spec τ)} {tock : τ} {stopAt : Option τ} {fuel n : Nat} {now : τ} {deeds doers es un c}
    (h : runCycle pool now tock 0 deeds { doers := doers } = (es, un, c, none)) (hne : c.pr.isEmpty = false)
    (hstop : stopB stopAt (now + tock) = true) :
    doLoop pool tock stopAt (fuel+1) n now deeds doers =
      ⟨es ++ stopEvs (now + tock) c.pr, false, now + tock, false, false, c.doers, n+1⟩ := by
  rw [doLoop_succ_none h]; simp only [hne, hstop, Bool.false_eq_true, if_false, if_true]

/-- the cycle counter only offsets the result -/
theorem doLoop_shift (pool : List (Spec τ)) (tock : τ) (stopAt : Option τ) :
    ∀ fuel n now deeds doers,
      doLoop pool tock stopAt fuel n now deeds doers =
        { doLoop pool tock stopAt fuel 0 now deeds doers with
          cycles := n + (doLoop pool tock stopAt fuel 0 now deeds doers).cycles }
  | 0, n, now, deeds, doers => by simp [doLoop]
  | fuel+1, n, now, deeds, doers => by
      rcases h : runCycle pool now tock 0 deeds { doers := doers } with ⟨es, un, c, x⟩
      cases x with
      | some x => rw [doLoop_succ_some h, doLoop_succ_some h]; simp
      | none =>
          rw [doLoop_succ_none h, doLoop_succ_none h]
          cases c.pr.isEmpty
          · cases stopB stopAt (now + tock)
            · simp only [Bool.false_eq_true, if_false]
              rw [doLoop_shift pool tock stopAt fuel (n+1), doLoop_shift pool tock stopAt fuel (0+1)]
              simp only [Final.mk.injEq, true_and]
              omega
            · simp
          · simp

/-- one-step unfolding of the loop in the recursive case, with the cycle counter normalised -/
theorem doLoop_step {pool : List (Spec τ)} {tock : τ} {stopAt : Option τ} {fuel : Nat} {now : τ} {deeds doers es un c}
    (h : runCycle pool now tock 0 deeds { doers := doers } = (es, un, c, none))
    (hne : c.pr.isEmpty = false) (hstop : stopB stopAt (now + tock) = false) :
    doLoop pool tock stopAt (fuel+1) 0 now deeds doers =
      { doLoop pool tock stopAt fuel 0 (now + tock) c.pr c.doers with
        evs := es ++ (doLoop pool tock stopAt fuel 0 (now + tock) c.pr c.doers).evs
        cycles := (doLoop pool tock stopAt fuel 0 (now + tock) c.pr c.doers).cycles + 1 } := by
  rw [doLoop_succ_none h]
  simp only [hne, hstop, Bool.false_eq_true, if_false]
  rw [doLoop_shift pool tock stopAt fuel (0+1)]
  simp only [Final.mk.injEq, true_and]
  omega


/-! ### the loop, by induction on fuel (all for the normalised counter `n = 0`) -/
section
variable (pool : List (Spec τ)) (tock : τ) (stopAt : Option τ)

theorem doLoop_tyme : ∀ fuel now deeds doers,
    (doLoop pool tock stopAt fuel 0 now deeds doers).tyme
      = iterAdd now tock (doLoop pool tock stopAt fuel 0 now deeds doers).cycles
  | 0, now, deeds, doers => rfl
  | fuel+1, now, deeds, doers => by
      rcases h : runCycle pool now tock 0 deeds { doers := doers } with ⟨es, un, c, x⟩
      cases x with
      | some x => rw [doLoop_succ_some h]; rfl
      | none =>
          cases hne : c.pr.isEmpty
          · cases hstop : stopB stopAt (now + tock)
            · rw [doLoop_step h hne hstop]
              simp only
              rw [doLoop_tyme fuel (now + tock) c.pr c.doers, iterAdd_shift]
            · rw [doLoop_limit h hne hstop]; rfl
          · rw [doLoop_empty h hne]; rfl

/-- every way the loop can end -/
theorem doLoop_ends : ∀ fuel now deeds doers,
    let D := doLoop pool tock stopAt fuel 0 now deeds doers
    D.fuelOut = true ∨ D.done = true ∨ D.raised = true ∨ CycleStopped pool tock now deeds doers D.cycles .kbint
      ∨ (D.done = false ∧ stopB stopAt D.tyme = true)
  | 0, now, deeds, doers => Or.inl rfl
  | fuel+1, now, deeds, doers => by
      intro D
      rcases h : runCycle pool now tock 0 deeds { doers := doers } with ⟨es, un, c, x⟩
      cases x with
      | some x =>
          have hD : D = _ := doLoop_succ_some h
          rw [hD]
          cases x with
          | err => right; right; left; rfl
          | kbint => right; right; right; left; exact ⟨now, deeds, doers, es, un, c, rfl, h⟩
      | none =>
          cases hne : c.pr.isEmpty
          · cases hstop : stopB stopAt (now + tock)
            · have hD : D = _ := doLoop_step h hne hstop
              rw [hD]
              simp only
              rw [CycleStopped_succ _ _ h]
              exact doLoop_ends fuel (now + tock) c.pr c.doers
            · have hD : D = _ := doLoop_limit h hne hstop
              rw [hD]
              right; right; right; right; exact ⟨rfl, hstop⟩
          · have hD : D = _ := doLoop_empty h hne
            rw [hD]
            right; left; trivial

/-- while the loop goes on, the deque is non-empty and the limit has not been reached -/
theorem doLoop_mid : ∀ fuel now deeds doers k, 0 < k →
    k < (doLoop pool tock stopAt fuel 0 now deeds doers).cycles →
    (∃ t ds dd, cycleState pool tock k now deeds doers = some (t, ds, dd) ∧ ds ≠ [])
      ∧ stopB stopAt (iterAdd now tock k) = false
  | 0, now, deeds, doers, k => by intro _ hk; exact absurd hk (Nat.not_lt_zero _)
  | fuel+1, now, deeds, doers, k => by
      rcases h : runCycle pool now tock 0 deeds { doers := doers } with ⟨es, un, c, x⟩
      cases x with
      | some x => rw [doLoop_succ_some h]; intro _ hk; exact absurd hk (Nat.not_lt_zero _)
      | none =>
          cases hne : c.pr.isEmpty
          · cases hstop : stopB stopAt (now + tock)
            · rw [doLoop_step h hne hstop]
              simp only
              intro hk0 hk
              cases k with
              | zero => exact absurd hk0 (Nat.lt_irrefl 0)
              | succ k =>
                rw [cycleState_succ_none k h, ← iterAdd_shift]
                cases k with
                | zero =>
                    refine ⟨⟨now + tock, c.pr, c.doers, rfl, ?_⟩, hstop⟩
                    intro h0; rw [h0] at hne; exact tt_ne_ff hne
                | succ k =>
                    exact doLoop_mid fuel (now + tock) c.pr c.doers (k+1) (Nat.succ_pos k) (by omega)
            · rw [doLoop_limit h hne hstop]
              intro _ hk; exact absurd hk (by simp only; omega)
          · rw [doLoop_empty h hne]
            intro _ hk; exact absurd hk (by simp only; omega)

/-- a run that ends neither by an exception in a doer nor by fuel: the state after the last cycle is what is
tested and closed; emptiness decides `done` -/
theorem doLoop_normal_end : ∀ fuel now deeds doers,
    let D := doLoop pool tock stopAt fuel 0 now deeds doers
    D.raised = false → D.fuelOut = false → ¬ CycleStopped pool tock now deeds doers D.cycles .kbint →
    0 < D.cycles ∧ ∃ ds, cycleState pool tock D.cycles now deeds doers = some (D.tyme, ds, D.doers)
      ∧ (D.done = true ↔ ds = []) ∧ ∃ pre, D.evs = pre ++ stopEvs D.tyme ds
  | 0, now, deeds, doers => by intro D _ h; exact tt_ne_ff h
  | fuel+1, now, deeds, doers => by
      intro D
      rcases h : runCycle pool now tock 0 deeds { doers := doers } with ⟨es, un, c, x⟩
      cases x with
      | some x =>
          have hD : D = _ := doLoop_succ_some h
          rw [hD]
          cases x with
          | err => intro h1; exact tt_ne_ff h1
          | kbint => intro _ _ h3; exact absurd ⟨now, deeds, doers, es, un, c, rfl, h⟩ h3
      | none =>
          cases hne : c.pr.isEmpty
          · have hne' : c.pr ≠ [] := by intro h0; rw [h0] at hne; exact tt_ne_ff hne
            cases hstop : stopB stopAt (now + tock)
            · have hD : D = _ := doLoop_step h hne hstop
              rw [hD]
              simp only
              rw [CycleStopped_succ _ _ h, cycleState_succ_none _ h]
              intro h1 h2 h3
              obtain ⟨_, ds, hs, hd, pre, he⟩ := doLoop_normal_end fuel (now + tock) c.pr c.doers h1 h2 h3
              exact ⟨Nat.succ_pos _, ds, hs, hd, es ++ pre, by rw [he, List.append_assoc]⟩
            · have hD : D = _ := doLoop_limit h hne hstop
              rw [hD]
              intro _ _ _
              refine ⟨Nat.succ_pos _, c.pr, ?_, ?_, es, rfl⟩
              · rw [cycleState_succ_none 0 h]; rfl
              · constructor
                · intro hf; exact ff_ne_tt hf
                · intro hf; exact absurd hf hne'
          · have he : c.pr = [] := by
              cases hc : c.pr with
              | nil => rfl
              | cons a l => rw [hc] at hne; exact ff_ne_tt hne
            have hD : D = _ := doLoop_empty h hne
            rw [hD]
            intro _ _ _
            refine ⟨Nat.succ_pos _, [], ?_, ?_, es, rfl⟩
            · rw [cycleState_succ_none 0 h, he]; rfl
            · exact ⟨fun _ => rfl, fun _ => rfl⟩

/-- `done = True` already excludes the abnormal ends -/
theorem doLoop_done_normal : ∀ fuel now deeds doers,
    let D := doLoop pool tock stopAt fuel 0 now deeds doers
    D.done = true → D.raised = false ∧ D.fuelOut = false ∧ ¬ CycleStopped pool tock now deeds doers D.cycles .kbint
  | 0, now, deeds, doers => by intro D h; exact ff_ne_tt h
  | fuel+1, now, deeds, doers => by
      intro D
      rcases h : runCycle pool now tock 0 deeds { doers := doers } with ⟨es, un, c, x⟩
      cases x with
      | some x =>
          have hD : D = _ := doLoop_succ_some h
          rw [hD]; intro h1; exact ff_ne_tt h1
      | none =>
          cases hne : c.pr.isEmpty
          · cases hstop : stopB stopAt (now + tock)
            · have hD : D = _ := doLoop_step h hne hstop
              rw [hD]
              simp only
              rw [CycleStopped_succ _ _ h]
              exact doLoop_done_normal fuel (now + tock) c.pr c.doers
            · have hD : D = _ := doLoop_limit h hne hstop
              rw [hD]
              intro h1; exact ff_ne_tt h1
          · have he : c.pr = [] := by
              cases hc : c.pr with
              | nil => rfl
              | cons a l => rw [hc] at hne; exact ff_ne_tt hne
            have hD : D = _ := doLoop_empty h hne
            rw [hD]
            intro _
            refine ⟨rfl, rfl, ?_⟩
            rintro ⟨now', deeds', doers', es', un', c', hs, hr⟩
            rw [cycleState_succ_none 0 h, he] at hs
            simp only [cycleState, Option.some.injEq, Prod.mk.injEq] at hs
            obtain ⟨rfl, rfl, rfl⟩ := hs
            simp [runCycle] at hr
end


/-! ### the whole run -/

/-- scheduler state `(tyme, deque, doers)` of the run after `k` completed cycles -/
def stateAfter (pool : List (Spec τ)) (tock start : τ) (specs : List (Spec τ)) (k : Nat) :
    Option (τ × List (RT τ) × List Id) :=
  cycleState pool tock k start (enterList start specs).2.1 (specs.map Spec.id)

/-- the deque (`Doist.deeds`) after `k` completed cycles -/
def dequeAfter (pool : List (Spec τ)) (tock start : τ) (specs : List (Spec τ)) (k : Nat) : Option (List (RT τ)) :=
  (stateAfter pool tock start specs k).map (fun s => s.2.1)

/-- cycle number `k+1` of the run was stopped by a KeyboardInterrupt out of a doer -/
def KbintStopped (pool : List (Spec τ)) (tock start : τ) (specs : List (Spec τ)) (k : Nat) : Prop :=
  ∃ now deeds doers es un c, stateAfter pool tock start specs k = some (now, deeds, doers) ∧
    runCycle pool now tock 0 deeds { doers := doers } = (es, un, c, some .kbint)

theorem doistDo_fail {pool : List (Spec τ)} {tock start : τ} {limit : Option τ} {fuel : Nat} {specs : List (Spec τ)}
    (h : (enterList start specs).2.2 = true) :
    doistDo pool tock start limit fuel specs =
      ⟨(enterList start specs).1 ++ stopEvs start (enterList start specs).2.1, false, start, true, false,
        specs.map Spec.id, 0⟩ := by
  unfold doistDo
  rcases h' : enterList start specs with ⟨es, deeds, b⟩
  rw [h'] at h
  simp only at h
  subst h
  rfl

theorem doistDo_ok {pool : List (Spec τ)} {tock start : τ} {limit : Option τ} {fuel : Nat} {specs : List (Spec τ)}
    (h : (enterList start specs).2.2 = false) :
    doistDo pool tock start limit fuel specs =
      { doLoop pool tock (limit.map (start + ·)) fuel 0 start (enterList start specs).2.1 (specs.map Spec.id) with
        evs := (enterList start specs).1 ++
          (doLoop pool tock (limit.map (start + ·)) fuel 0 start (enterList start specs).2.1 (specs.map Spec.id)).evs } := by
  unfold doistDo
  rcases h' : enterList start specs with ⟨es, deeds, b⟩
  rw [h'] at h
  simp only at h
  subst h
  rfl

end loop

/-! ### (5c) every `flag true` in a trace is justified -/

section fj
variable [Add τ] [LE τ] [DecidableRel (α := τ) (· ≤ ·)] [OfNat τ 0] [BEq τ]

/-- the event `e`, preceded by `pre`, is justified as a `done = True` assignment: directly after an
`exit`/`exitEnd` of the same doer at the same tyme, or it is a DoDoer's `self.done = self.recur()`: what precedes
it ends with the `recur` of the same doer at the same tyme followed by exactly the events `mid` of one complete
cycle (`runCycle`, no exception) of a scheduler with that id over some deque `deeds`, which left its deque empty -/
def FlagTrueOK (pre : List (Ev τ)) (e : Ev τ) : Prop :=
  (∃ pre' p, pre = pre' ++ [p] ∧ p.id = e.id ∧ p.tyme = e.tyme ∧ (p.kind = .exit ∨ p.kind = .exitEnd))
  ∨ (∃ (pre1 mid : List (Ev τ)) (pool : List (Spec τ)) (stock : τ) (deeds : List (RT τ)) (doers : List Id) (un : List (RT τ))
      (c : Cyc τ), pre = pre1 ++ ev e.id .recur e.tyme :: mid
        ∧ runCycle pool e.tyme stock e.id deeds { doers := doers } = (mid, un, c, none) ∧ c.pr = [])

/-- all `flag true` events of the trace are justified -/
def FJ (es : List (Ev τ)) : Prop :=
  ∀ pre e post, es = pre ++ e :: post → e.kind = .flag true → FlagTrueOK pre e

theorem FlagTrueOK.mono {pre : List (Ev τ)} {e : Ev τ} (a : List (Ev τ)) (h : FlagTrueOK pre e) :
    FlagTrueOK (a ++ pre) e := by
  rcases h with ⟨pre', p, h1, h2⟩ | ⟨pre1, mid, pool, stock, deeds, doers, un, c, h1, h2⟩
  · exact Or.inl ⟨a ++ pre', p, by rw [h1, List.append_assoc], h2⟩
  · exact Or.inr ⟨a ++ pre1, mid, pool, stock, deeds, doers, un, c, by rw [h1, List.append_assoc], h2⟩

theorem FJ.nil : FJ ([] : List (Ev τ)) := by
  intro pre e post h; cases pre <;> cases h

theorem FJ.append {a b : List (Ev τ)} (ha : FJ a) (hb : FJ b) : FJ (a ++ b) := by
  intro pre e post h hk
  rcases List.append_eq_append_iff.mp h with ⟨a', h1, h2⟩ | ⟨c', h1, h2⟩
  · -- pre = a ++ a', b = a' ++ e :: post
    rw [h1]; exact (hb a' e post h2 hk).mono a
  · -- a = pre ++ c', e :: post = c' ++ b
    cases c' with
    | nil =>
        simp only [List.nil_append] at h2
        simp only [List.append_nil] at h1
        have := hb [] e post (by rw [← h2]; rfl) hk
        rw [← h1]; simpa using this.mono a
    | cons x c' =>
        simp only [List.cons_append, List.cons.injEq] at h2
        obtain ⟨rfl, h2⟩ := h2
        exact ha pre e c' h1 hk

theorem FJ.of_noFlag {a : List (Ev τ)} (h : ∀ e ∈ a, e.kind.isFlag = false) : FJ a := by
  intro pre e post he hk
  have := h e (by rw [he]; simp)
  rw [hk] at this; exact tt_ne_ff this

theorem FJ.single (i : Id) (k : Kind) (now : τ) (h : k.isFlag = false) : FJ [ev i k now] :=
  FJ.of_noFlag (by intro e he; simp only [List.mem_cons, List.not_mem_nil, or_false] at he; subst he; exact h)

theorem FJ.cons (i : Id) (k : Kind) (now : τ) {es : List (Ev τ)} (h : k.isFlag = false) (hes : FJ es) :
    FJ (ev i k now :: es) := FJ.append (FJ.single i k now h) hes

theorem FJ.single_flag_false (i : Id) (now : τ) : FJ [ev i (.flag false) now] := by
  intro pre e post he hk
  cases pre with
  | nil => simp only [List.nil_append, List.cons.injEq] at he; rw [← he.1] at hk; cases hk
  | cons x pre => simp only [List.cons_append, List.cons.injEq] at he; cases pre <;> simp at he

/-- a flag assigned directly after the doer's `exit`/`exitEnd` -/
theorem FJ.snoc_after_exit {a : List (Ev τ)} (i : Id) (k : Kind) (b : Bool) (now : τ)
    (ha : FJ (a ++ [ev i k now])) (hk : k = .exit ∨ k = .exitEnd) :
    FJ (a ++ [ev i k now] ++ [ev i (.flag b) now]) := by
  intro pre e post he hke
  rcases List.append_eq_append_iff.mp he with ⟨a', h1, h2⟩ | ⟨c', h1, h2⟩
  · cases a' with
    | nil =>
        simp only [List.nil_append, List.cons.injEq] at h2
        rw [List.append_nil] at h1
        rw [h1, ← h2.1]
        exact Or.inl ⟨a, ev i k now, rfl, rfl, rfl, hk⟩
    | cons x a' => simp only [List.cons_append, List.cons.injEq] at h2; cases a' <;> simp at h2
  · cases c' with
    | nil =>
        simp only [List.nil_append, List.cons.injEq] at h2
        rw [List.append_nil] at h1
        rw [← h1, h2.1]
        exact Or.inl ⟨a, ev i k now, rfl, rfl, rfl, hk⟩
    | cons x c' =>
        simp only [List.cons_append, List.cons.injEq] at h2
        obtain ⟨rfl, h2⟩ := h2
        exact ha pre e c' h1 hke

/-- a DoDoer's own assignment after its `recur` -/
theorem FJ.recur_flag {es : List (Ev τ)} (i : Id) (now : τ) (hes : FJ es)
    {pool : List (Spec τ)} {stock : τ} {deeds : List (RT τ)} {doers : List Id} {un : List (RT τ)} {c : Cyc τ}
    (hrun : runCycle pool now stock i deeds { doers := doers } = (es, un, c, none)) :
    FJ ([ev i .recur now] ++ es ++ [ev i (.flag c.pr.isEmpty) now]) := by
  intro pre e post he hke
  have key : e = ev i (.flag c.pr.isEmpty) now → FlagTrueOK ([ev i .recur now] ++ es) e := by
    intro h
    subst h
    have hc : c.pr = [] := by
      have : c.pr.isEmpty = true := by injection hke
      exact List.isEmpty_iff.mp this
    exact Or.inr ⟨[], es, pool, stock, deeds, doers, un, c, rfl, hrun, hc⟩
  rcases List.append_eq_append_iff.mp he with ⟨a', h1, h2⟩ | ⟨c', h1, h2⟩
  · cases a' with
    | nil =>
        simp only [List.nil_append, List.cons.injEq] at h2
        rw [List.append_nil] at h1
        rw [h1]
        exact key h2.1.symm
    | cons x a' => simp only [List.cons_append, List.cons.injEq] at h2; cases a' <;> simp at h2
  · cases c' with
    | nil =>
        simp only [List.nil_append, List.cons.injEq] at h2
        rw [List.append_nil] at h1
        rw [← h1]
        exact key h2.1
    | cons x c' =>
        simp only [List.cons_append, List.cons.injEq] at h2
        obtain ⟨rfl, h2⟩ := h2
        exact (FJ.append (FJ.single i .recur now rfl) hes) pre e c' h1 hke

/-- `clean; exit; done = v` -/
theorem FJ.clean_exit_flag (i : Id) (v : Option Bool) (now : τ) :
    FJ ([ev i .clean now, ev i .exit now] ++ flagEvs i v now) := by
  cases v with
  | none => exact FJ.cons i .clean now rfl (FJ.single i .exit now rfl)
  | some b =>
      exact FJ.snoc_after_exit (a := [ev i .clean now]) i .exit b now
        (FJ.cons i .clean now rfl (FJ.single i .exit now rfl)) (Or.inl rfl)

theorem FJ.close (now : τ) (ds : List (RT τ)) : FJ (closeAllRev now ds) := FJ.of_noFlag (closeAllRev_noFlag now ds)
theorem FJ.abort (i : Id) (x : Exn) (now : τ) : FJ (abortEvs i x now) := FJ.of_noFlag (abortEvs_noFlag i x now)
theorem FJ.enterPre (i : Id) (now : τ) : FJ [ev i (.flag false) now, ev i .enter now] :=
  FJ.append (FJ.single_flag_false i now) (FJ.single i .enter now rfl)

mutual
theorem enterSpec_FJ (now : τ) : ∀ s : Spec τ, FJ (enterSpec now s).1
  | .leaf i act steps => by
      cases act with
      | ok => exact FJ.enterPre i now
      | fail => exact (FJ.enterPre i now).append (FJ.cons i .abort now rfl (FJ.single i .exit now rfl))
      | done v =>
          simp only [enterSpec, List.append_assoc]
          exact (FJ.enterPre i now).append (FJ.clean_exit_flag i v now)
  | .group i tock always kids pool => by
      have ih := enterList_FJ now kids
      unfold enterSpec
      rcases h : enterList now kids with ⟨es, deeds, b⟩
      rw [h] at ih
      cases b with
      | true =>
          exact ((((FJ.enterPre i now).append ih).append
            (FJ.cons i .abort now rfl (FJ.single i .exit now rfl))).append (FJ.close now deeds)).append
            (FJ.single i .exitEnd now rfl)
      | false => exact (FJ.enterPre i now).append ih
theorem enterList_FJ (now : τ) : ∀ ss : List (Spec τ), FJ (enterList now ss).1
  | [] => FJ.nil
  | s :: ss => by
      have ih1 := enterSpec_FJ now s
      have ih2 := enterList_FJ now ss
      unfold enterList
      rcases h1 : enterSpec now s with ⟨e1, r, b⟩
      rw [h1] at ih1
      cases b with
      | true => exact ih1
      | false =>
          rcases h2 : enterList now ss with ⟨e2, rs, b2⟩
          rw [h2] at ih2
          exact ih1.append ih2
end

theorem extendList_FJ (pool : List (Spec τ)) (now : τ) (ks : List Nat) (c : Cyc τ) :
    FJ (extendList pool now ks c).1 := by
  fun_induction extendList pool now ks c with
  | case1 c => exact FJ.nil
  | case2 k ks c hk ih => exact ih
  | case3 k ks c s hk hc ih => exact ih
  | case4 k ks c s hk hc e r he => have := enterSpec_FJ now s; rw [he] at this; exact this
  | case5 k ks c s hk hc e r he e2 c2 b h2 ih =>
      have := enterSpec_FJ now s; rw [he] at this
      rw [h2] at ih
      exact this.append ih

theorem applyOps_FJ (pool : List (Spec τ)) (now : τ) (sid : Id) (un : List (RT τ)) (ops : List Op) (c : Cyc τ) :
    FJ (applyOps pool now sid un ops c).1 := by
  fun_induction applyOps pool now sid un ops c with
  | case1 c => exact FJ.nil
  | case2 ks ops c e c1 he => have := extendList_FJ pool now ks c; rw [he] at this; exact this
  | case3 ks ops c e c1 he e2 c2 b h2 ih =>
      have := extendList_FJ pool now ks c; rw [he] at this
      rw [h2] at ih
      exact (this.append (FJ.single sid _ now rfl)).append ih
  | case4 ids ops c e c1 he e2 c2 b h2 ih =>
      have := FJ.of_noFlag (removeOp_noFlag now sid un ids c); rw [he] at this
      rw [h2] at ih
      exact (this.append (FJ.single sid _ now rfl)).append ih

theorem FJ.ret_block {x : List (Ev τ)} (i : Id) (v : Option Bool) (now : τ) (hx : FJ x) :
    FJ (x ++ [ev i .clean now, ev i .exit now] ++ flagEvs i v now) := by
  rw [List.append_assoc]; exact hx.append (FJ.clean_exit_flag i v now)

theorem stopEvs_FJ (now : τ) (ds : List (RT τ)) : FJ (stopEvs now ds) := FJ.of_noFlag (stopEvs_noFlag now ds)

mutual
theorem resumeGroup_FJ (now : τ) : ∀ rt : RT τ,
    FJ (resumeGroup now rt).1 ∧ ∀ eg, resumeGroup now rt = (eg, .finished) → FJ (eg ++ [ev rt.id (.flag true) now])
  | .leaf _ _ _ => by
      rw [resumeGroup]
      exact ⟨FJ.nil, fun eg h => by simp only [Prod.mk.injEq, reduceCtorEq, and_false] at h⟩
  | .group i r tock always pool doers deeds => by
      have ih := runCycle_FJ pool now tock i deeds { doers := doers }
      rw [resumeGroup]
      rcases h : runCycle pool now tock i deeds { doers := doers } with ⟨es, un, c, x⟩
      rw [h] at ih
      cases x with
      | some x =>
          simp only
          refine ⟨?_, fun eg h => by simp only [Prod.mk.injEq, reduceCtorEq, and_false] at h⟩
          exact (((((FJ.single i .recur now rfl).append ih).append (FJ.abort i x now)).append
            (FJ.single i .exit now rfl)).append (FJ.close now _)).append (FJ.single i .exitEnd now rfl)
      | none =>
          have h1 : FJ ([ev i .recur now] ++ es ++ [ev i (.flag c.pr.isEmpty) now]) := FJ.recur_flag i now ih h
          simp only
          split
          · exact ⟨h1, fun eg h => by simp only [Prod.mk.injEq, reduceCtorEq, and_false] at h⟩
          · have h2 : FJ ([ev i .recur now] ++ es ++ [ev i (.flag c.pr.isEmpty) now]
                ++ [ev i .clean now, ev i .exit now, ev i .exitEnd now]) :=
              h1.append (FJ.cons i .clean now rfl (FJ.cons i .exit now rfl (FJ.single i .exitEnd now rfl)))
            refine ⟨h2, fun eg h => ?_⟩
            simp only [Prod.mk.injEq, and_true] at h
            subst h
            have h3 := FJ.snoc_after_exit
              (a := [ev i .recur now] ++ es ++ [ev i (.flag c.pr.isEmpty) now] ++ [ev i .clean now, ev i .exit now])
              i .exitEnd true now (by simpa using h2) (Or.inr rfl)
            simpa [RT.id] using h3
theorem runCycle_FJ (pool : List (Spec τ)) (now stock : τ) (sid : Id) :
    ∀ (un : List (RT τ)) (c : Cyc τ), FJ (runCycle pool now stock sid un c).1
  | [], c => by rw [runCycle]; exact FJ.nil
  | .leaf i r steps :: un, c => by
      have ihu := runCycle_FJ pool now stock sid un
      rw [runCycle.eq_def]
      simp only
      split
      · exact ihu c
      · split
        · have hA := applyOps_FJ pool now sid un (headStep steps).fst.ops c
          generalize applyOps pool now sid un (headStep steps).fst.ops c = A at hA ⊢
          have h0 : FJ ([ev i .recur now] ++ A.1) := (FJ.single i .recur now rfl).append hA
          generalize (if A.2.2 = true then Out.raise Exn.err else (headStep steps).1.out) = out
          cases out with
          | raise x => exact (h0.append (FJ.abort i x now)).append (FJ.single i .exit now rfl)
          | ret v => exact (FJ.ret_block i v now h0).append (ihu _)
          | yieldT t => exact h0.append (ihu _)
        · exact ihu _
  | .group i r tock always gpool doers deeds :: un, c => by
      have ihu := runCycle_FJ pool now stock sid un
      have ihd := resumeGroup_FJ now (.group i r tock always gpool doers deeds)
      rw [runCycle.eq_def]
      simp only
      split
      · exact ihu c
      · split
        · rcases hg : resumeGroup now (.group i r tock always gpool doers deeds) with ⟨eg, res⟩
          rw [hg] at ihd
          cases res with
          | raised x => exact ihd.1
          | finished => exact (ihd.2 eg rfl).append (ihu _)
          | yielded rt t => exact ihd.1.append (ihu _)
        · exact ihu _
end

theorem doLoop_FJ (pool : List (Spec τ)) (tock : τ) (stopAt : Option τ) : ∀ fuel n now deeds doers,
    FJ (doLoop pool tock stopAt fuel n now deeds doers).evs
  | 0, n, now, deeds, doers => stopEvs_FJ now deeds
  | fuel+1, n, now, deeds, doers => by
      have hc := runCycle_FJ pool now tock 0 deeds { doers := doers }
      rcases h : runCycle pool now tock 0 deeds { doers := doers } with ⟨es, un, c, x⟩
      rw [h] at hc
      cases x with
      | some x => rw [doLoop_succ_some h]; exact hc.append (stopEvs_FJ _ _)
      | none =>
          cases hne : c.pr.isEmpty
          · cases hstop : stopB stopAt (now + tock)
            · rw [doLoop_succ_none h]
              simp only [hne, hstop, Bool.false_eq_true, if_false]
              exact hc.append (doLoop_FJ pool tock stopAt fuel (n+1) (now + tock) c.pr c.doers)
            · rw [doLoop_limit h hne hstop]; exact hc.append (stopEvs_FJ _ _)
          · rw [doLoop_empty h hne]; exact hc.append (stopEvs_FJ _ _)

theorem doistDo_FJ (pool : List (Spec τ)) (tock start : τ) (limit : Option τ) (fuel : Nat) (specs : List (Spec τ)) :
    FJ (doistDo pool tock start limit fuel specs).evs := by
  have he := enterList_FJ start specs
  cases h : (enterList start specs).2.2
  · rw [doistDo_ok h]; exact he.append (doLoop_FJ pool tock _ fuel 0 start _ _)
  · rw [doistDo_fail h]; exact he.append (stopEvs_FJ _ _)
end fj

end Hio.Sched
