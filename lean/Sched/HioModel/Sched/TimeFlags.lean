import HioModel.Sched.TimeFlatL
/-! A doer's final done flag is determined by the kept view (so equal views give equal flags). -/
set_option linter.unusedSectionVars false
namespace Hio.Sched
variable {τ : Type}

theorem finalFlag_keepView (keep : Id → Bool) (i : Id) (hk : keep i = true) (evs : List (Ev τ)) :
    finalFlag (keepView keep evs) i = finalFlag evs i := by
  unfold finalFlag
  generalize false = acc
  induction evs generalizing acc with
  | nil => rfl
  | cons e es ih =>
    simp only [keepView, List.filter_cons]
    by_cases h : keep e.id = true
    · simp only [h, if_true, List.foldl_cons]
      exact ih _
    · have hne : (e.id == i) = false := by
        cases hei : (e.id == i) with
        | false => rfl
        | true => rw [beq_iff_eq.mp hei] at h; exact absurd hk h
      simp only [h, List.foldl_cons, hne, Bool.false_eq_true, if_false]
      exact ih _

end Hio.Sched
