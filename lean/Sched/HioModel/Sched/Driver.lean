import HioModel.Basic.Sexp
import HioModel.Sched.Model
import HioModel.Sched.Runs
import HioModel.Sched.Model2
import HioModel.Sched.Model3
import HioModel.Sched.TimeModel
/-! Driver: `(run (tock b) (start b) (limit -|b) (fuel n) (pool (spec..)) (specs (spec..)))`
→ `((trace (id kind tymebits [ids])..) (late 0) (flags (id t|f)..) (done b) (tyme bits) (raised -|err) (doers (ids)))`.
Floats travel as IEEE-754 bit patterns. -/
open Hio Hio.Sexp Hio.Sched

def fl? (s : Sexp) : Option Float := (nat? s).map (fun n => Float.ofBits n.toUInt64)
def ofFl (x : Float) : Sexp := ofNat x.toBits.toNat

def optBool? : Sexp → Option (Option Bool)
  | .atom "-" => some none
  | .atom "t" => some (some true)
  | .atom "f" => some (some false)
  | _ => none

def op? : Sexp → Option Op
  | .list (.atom "extend" :: ks) => (ks.mapM nat?).map Op.extend
  | .list (.atom "remove" :: ks) => (ks.mapM nat?).map Op.remove
  | _ => none

def out? : Sexp → Option (Out Float)
  | .atom "raise" => some (.raise .err)
  | .atom "kbint" => some (.raise .kbint)
  | .list [.atom "yield", .atom "-"] => some (.yieldT none)
  | .list [.atom "yield", t] => (fl? t).map (fun x => .yieldT (some x))
  | .list [.atom "ret", v] => (optBool? v).map Out.ret
  | _ => none

def step? : Sexp → Option (Step Float)
  | .list [.list ops, o] => do
      let ops ← ops.mapM op?
      let o ← out? o
      some ⟨ops, o⟩
  | _ => none

def act? : Sexp → Option EnterAct
  | .atom "ok" => some .ok
  | .atom "fail" => some .fail
  | .list [.atom "done", v] => (optBool? v).map EnterAct.done
  | _ => none

mutual
partial def spec? : Sexp → Option (Spec Float)
  | .list [.atom "leaf", i, _shape, a, .list steps] => do
      let i ← nat? i; let a ← act? a; let st ← steps.mapM step?
      some (.leaf i a st)
  | .list [.atom "group", i, tock, always, .list kids, .list pool] => do
      let i ← nat? i; let t ← fl? tock; let al ← bool? always
      let ks ← kids.mapM spec?; let ps ← pool.mapM spec?
      some (.group i t al ks ps)
  | _ => none
end

def kindS : Kind → List Sexp
  | .enter => [sym "enter"] | .recur => [sym "recur"] | .clean => [sym "clean"] | .cease => [sym "cease"]
  | .abort => [sym "abort"] | .exit => [sym "exit"] | .exitEnd => [sym "exitEnd"]
  | .rmBeg => [sym "rmBeg"] | .rmEnd => [sym "rmEnd"] | .stopBeg => [sym "stopBeg"] | .stopEnd => [sym "stopEnd"]
  | .flag b => [sym "flag", ofBool b]
  | .doers _ => [sym "doers"]

def evS (e : Ev Float) : Sexp :=
  match e.kind with
  | .doers ids => .list [ofNat e.id, sym "doers", ofFl e.tyme, .list (ids.map ofNat)]
  | k => .list ([ofNat e.id] ++ kindS k ++ [ofFl e.tyme])

def insertSorted (x : Nat) : List Nat → List Nat
  | [] => [x]
  | y :: ys => if x ≤ y then x :: y :: ys else y :: insertSorted x ys
def sortNat (xs : List Nat) : List Nat := xs.foldr insertSorted []

def runReq (fs : List Sexp) : Option Sexp := do
  let tock ← fl? (← field1 "tock" fs)
  let start ← fl? (← field1 "start" fs)
  let lim ← field1 "limit" fs
  let limit ← (match lim with | .atom "-" => some none | s => (fl? s).map some)
  let fuel ← nat? (← field1 "fuel" fs)
  let pool ← (← list? (← field1 "pool" fs)).mapM spec?
  let specs ← (← list? (← field1 "specs" fs)).mapM spec?
  let f := doistDo pool tock start limit fuel specs
  let ids := sortNat (Spec.idsL specs ++ Spec.idsL pool)
  some (.list [
    tag "trace" [.list ((visible f.evs).map evS)],
    tag "late" [ofNat 0],
    tag "flags" [.list (ids.map fun i => .list [ofNat i, ofBool (finalFlag f.evs i)])],
    tag "done" [ofBool f.done],
    tag "tyme" [ofFl f.tyme],
    tag "raised" [sym (if f.fuelOut then "fuelOut" else if f.raised then "err" else "-")],
    tag "doers" [.list (f.doers.map ofNat)]])

/-! ### request heads added for C03/C04/C30 (see notes/SchedT.md); `run` above is unchanged -/

/-- reply for one finished run of `specs` (same layout as `runReq`) -/
def finalS (f : Final Float) (pool specs : List (Spec Float)) : Sexp :=
  let ids := sortNat (Spec.idsL specs ++ Spec.idsL pool)
  .list [
    tag "trace" [.list ((visible f.evs).map evS)],
    tag "late" [ofNat 0],
    tag "flags" [.list (ids.map fun i => .list [ofNat i, ofBool (finalFlag f.evs i)])],
    tag "done" [ofBool f.done],
    tag "tyme" [ofFl f.tyme],
    tag "raised" [sym (if f.fuelOut then "fuelOut" else if f.raised then "err" else "-")],
    tag "doers" [.list (f.doers.map ofNat)]]

/-- `(flatpair ..)`: the program as given and with every transparent group spliced away (`Spec.flatL`);
`(doado ..)`: `doistDo` and `doistAdo` (asyncio loop, no other tasks) on the same program -/
def pairReq (ado : Bool) (fs : List Sexp) : Option Sexp := do
  let tock ← fl? (← field1 "tock" fs)
  let start ← fl? (← field1 "start" fs)
  let lim ← field1 "limit" fs
  let limit ← (match lim with | .atom "-" => some none | s => (fl? s).map some)
  let fuel ← nat? (← field1 "fuel" fs)
  let pool ← (← list? (← field1 "pool" fs)).mapM spec?
  let specs ← (← list? (← field1 "specs" fs)).mapM spec?
  let a := doistDo pool tock start limit fuel specs
  if ado then
    let b := (doistAdo pool tock start limit fuel specs (fun _ (u : Unit) => u) ()).1
    some (.list [finalS a pool specs, finalS b pool specs])
  else
    let flat := Spec.flatL specs
    let b := doistDo pool tock start limit fuel flat
    some (.list [finalS a pool specs, finalS b pool flat])

/-- `(adocancel (cancel j) <fields of run>)`: `doistAdoCancel` — the ado task is cancelled at its (j+1)-th await;
`raised` prints `cancelled` when the cancellation was delivered -/
def cancelReq (fs : List Sexp) : Option Sexp := do
  let j ← nat? (← field1 "cancel" fs)
  let tock ← fl? (← field1 "tock" fs)
  let start ← fl? (← field1 "start" fs)
  let lim ← field1 "limit" fs
  let limit ← (match lim with | .atom "-" => some none | s => (fl? s).map some)
  let pool ← (← list? (← field1 "pool" fs)).mapM spec?
  let specs ← (← list? (← field1 "specs" fs)).mapM spec?
  let r := doistAdoCancel pool tock start limit j specs
  let f := r.1
  let ids := sortNat (Spec.idsL specs ++ Spec.idsL pool)
  some (.list [
    tag "trace" [.list ((visible f.evs).map evS)],
    tag "late" [ofNat 0],
    tag "flags" [.list (ids.map fun i => .list [ofNat i, ofBool (finalFlag f.evs i)])],
    tag "done" [ofBool f.done],
    tag "tyme" [ofFl f.tyme],
    tag "raised" [sym (if r.2 then "cancelled" else if f.raised then "err" else "-")],
    tag "doers" [.list (f.doers.map ofNat)]])

/-! ### `(runs ..)`: several do()/ado() calls on one Doist (C05); flags of doers not entered in a run are carried over -/

def hasFlag (evs : List (Ev Float)) (i : Nat) : Bool := evs.any (fun e => e.id == i && e.kind.isFlag)

def lookupFlag (m : List (Nat × Bool)) (i : Nat) : Bool :=
  match m.find? (fun p => p.1 == i) with | some p => p.2 | none => false

def runSpec? : Sexp → Option (RunSpec Float)
  | .list (.atom "call" :: fs) => do
      let st ← field1 "start" fs
      let start ← (match st with | .atom "-" => some none | s => (fl? s).map some)
      let lim ← field1 "limit" fs
      let limit ← (match lim with | .atom "-" => some none | s => (fl? s).map some)
      let pool ← (← list? (← field1 "pool" fs)).mapM spec?
      let specs ← (← list? (← field1 "specs" fs)).mapM spec?
      some ⟨start, limit, pool, specs⟩
  | _ => none

def runsOut : List (RunSpec Float) → List (Final Float) → List (Nat × Bool) → List Sexp
  | r :: rs, f :: fs, m =>
      let ids := sortNat (Spec.idsL r.specs ++ Spec.idsL r.pool)
      let fl := fun i => if hasFlag f.evs i then finalFlag f.evs i else lookupFlag m i
      let m' := (ids.map fun i => (i, fl i)) ++ m
      .list [
        tag "trace" [.list ((visible f.evs).map evS)],
        tag "late" [ofNat 0],
        tag "flags" [.list (ids.map fun i => .list [ofNat i, ofBool (fl i)])],
        tag "done" [ofBool f.done],
        tag "tyme" [ofFl f.tyme],
        tag "raised" [sym (if f.fuelOut then "fuelOut" else if f.raised then "err" else "-")],
        tag "doers" [.list (f.doers.map ofNat)]] :: runsOut rs fs m'
  | _, _, _ => []

def runsReq (fs : List Sexp) : Option Sexp := do
  let tock ← fl? (← field1 "tock" fs)
  let start ← fl? (← field1 "start" fs)
  let lim ← field1 "limit" fs
  let limit ← (match lim with | .atom "-" => some none | s => (fl? s).map some)
  let fuel ← nat? (← field1 "fuel" fs)
  let calls ← (← list? (← field1 "calls" fs)).mapM runSpec?
  some (.list (sym "runs" :: runsOut calls (runSeq tock fuel start limit calls) []))

/-! ### `(run2 ..)`: second-generation model (exception kinds, action faults), HioModel/Sched/Model2.lean -/

def exn2? : Sexp → Option Hio.Sched2.Exn2
  | .atom "raise" => some .err
  | .atom "fail" => some .err
  | .atom "kbint" => some .kbint
  | .atom "sysexit" => some .sysexit
  | _ => none

def out2? : Sexp → Option (Hio.Sched2.Out2 Float)
  | .list [.atom "yield", .atom "-"] => some (.yieldT none)
  | .list [.atom "yield", t] => (fl? t).map (fun x => .yieldT (some x))
  | .list [.atom "ret", v] => (optBool? v).map Hio.Sched2.Out2.ret
  | a => (exn2? a).map Hio.Sched2.Out2.raise

def step2? : Sexp → Option (Hio.Sched2.Step2 Float)
  | .list [.list ops, o] => do
      let ops ← ops.mapM op?
      let o ← out2? o
      some ⟨ops, o⟩
  | _ => none

def act2? : Sexp → Option Hio.Sched2.EnterAct2
  | .atom "ok" => some .ok
  | .list [.atom "done", v] => (optBool? v).map Hio.Sched2.EnterAct2.done
  | a => (exn2? a).map Hio.Sched2.EnterAct2.fail

mutual
partial def spec2? : Sexp → Option (Hio.Sched2.Spec2 Float)
  | .list [.atom "leaf", i, _shape, a, .list steps, cf] => do
      let i ← nat? i; let a ← act2? a; let st ← steps.mapM step2?; let cf ← bool? cf
      some (.leaf i a st cf)
  | .list [.atom "group", i, tock, always, .list kids, .list pool, cf] => do
      let i ← nat? i; let t ← fl? tock; let al ← bool? always
      let ks ← kids.mapM spec2?; let ps ← pool.mapM spec2?; let cf ← bool? cf
      some (.group i t al ks ps cf)
  | _ => none
end

def run2Req (fs : List Sexp) : Option Sexp := do
  let tock ← fl? (← field1 "tock" fs)
  let start ← fl? (← field1 "start" fs)
  let lim ← field1 "limit" fs
  let limit ← (match lim with | .atom "-" => some none | s => (fl? s).map some)
  let fuel ← nat? (← field1 "fuel" fs)
  let pool ← (← list? (← field1 "pool" fs)).mapM spec2?
  let specs ← (← list? (← field1 "specs" fs)).mapM spec2?
  let f := Hio.Sched2.doistDo pool tock start limit fuel specs
  let ids := sortNat (Hio.Sched2.Spec2.idsL specs ++ Hio.Sched2.Spec2.idsL pool)
  let r := if f.fuelOut then "fuelOut" else match f.raised with
    | none => "-" | some .err => "err" | some .kbint => "kbint" | some .sysexit => "sysexit"
  some (.list [
    tag "trace" [.list ((visible f.evs).map evS)],
    tag "late" [ofNat 0],
    tag "flags" [.list (ids.map fun i => .list [ofNat i, ofBool (finalFlag f.evs i)])],
    tag "done" [ofBool f.done],
    tag "tyme" [ofFl f.tyme],
    tag "raised" [sym r],
    tag "doers" [.list (f.doers.map ofNat)]])

/-! ### `(run3 ..)`: third-generation model (ops issued from cease / exit actions), HioModel/Sched/Model3.lean -/

mutual
partial def spec3? : Sexp → Option (Hio.Sched3.Spec3 Float)
  | .list [.atom "leaf", i, _shape, a, .list steps, cf, .list co, .list eo] => do
      let i ← nat? i; let a ← act2? a; let st ← steps.mapM step2?; let cf ← bool? cf
      let co ← co.mapM op?; let eo ← eo.mapM op?
      some (.leaf i a st cf co eo)
  | .list [.atom "group", i, tock, always, .list kids, .list pool, cf] => do
      let i ← nat? i; let t ← fl? tock; let al ← bool? always
      let ks ← kids.mapM spec3?; let ps ← pool.mapM spec3?; let cf ← bool? cf
      some (.group i t al ks ps cf)
  | _ => none
end

def run3Req (fs : List Sexp) : Option Sexp := do
  let tock ← fl? (← field1 "tock" fs)
  let start ← fl? (← field1 "start" fs)
  let lim ← field1 "limit" fs
  let limit ← (match lim with | .atom "-" => some none | s => (fl? s).map some)
  let fuel ← nat? (← field1 "fuel" fs)
  let cf ← nat? (← field1 "cfuel" fs)
  let pool ← (← list? (← field1 "pool" fs)).mapM spec3?
  let specs ← (← list? (← field1 "specs" fs)).mapM spec3?
  let f := Hio.Sched3.doistDo cf pool tock start limit fuel specs
  let ids := sortNat (Hio.Sched3.Spec3.idsL specs ++ Hio.Sched3.Spec3.idsL pool)
  let r := if f.fuelOut || f.starved then "fuelOut" else match f.raised with
    | none => "-" | some .err => "err" | some .kbint => "kbint" | some .sysexit => "sysexit"
  some (.list [
    tag "trace" [.list ((visible f.evs).map evS)],
    tag "late" [ofNat 0],
    tag "flags" [.list (ids.map fun i => .list [ofNat i, ofBool (finalFlag f.evs i)])],
    tag "done" [ofBool f.done],
    tag "tyme" [ofFl f.tyme],
    tag "raised" [sym r],
    tag "doers" [.list (f.doers.map ofNat)]])

def handle : Sexp → Sexp
  | .list (.atom "run3" :: fs) => (run3Req fs).getD (sym "bad-request")
  | .list (.atom "run2" :: fs) => (run2Req fs).getD (sym "bad-request")
  | .list (.atom "runs" :: fs) => (runsReq fs).getD (sym "bad-request")
  | .list [.atom "unmodelled"] => .list [.atom "unmodelled"]   -- implementation-side-only case (see harness/areas/sched.py unmodelled())
  | .list (.atom "run" :: fs) => match runReq fs with
    | some o => o
    | none => sym "bad-request"
  | .list (.atom "flatpair" :: fs) => (pairReq false fs).getD (sym "bad-request")
  | .list (.atom "doado" :: fs) => (pairReq true fs).getD (sym "bad-request")
  | .list (.atom "adocancel" :: fs) => (cancelReq fs).getD (sym "bad-request")
  | _ => sym "bad-request"

def main : IO Unit := serve handle
