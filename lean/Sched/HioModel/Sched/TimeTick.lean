import HioModel.Sched.TimeFlatten
/-! C03: the tick — tyme before cycle `k` and the final tyme are `start + tock` iterated with the abstract `+`. -/
set_option linter.unusedSectionVars false
namespace Hio.Sched
variable {τ : Type}
variable [Add τ] [LE τ] [DecidableRel (α := τ) (· ≤ ·)] [OfNat τ 0] [BEq τ]

theorem iterAdd_succ' (start tock : τ) : ∀ k, iterAdd (start + tock) tock k = iterAdd start tock (k+1)
  | 0 => rfl
  | k+1 => by
      show iterAdd (start + tock) tock k + tock = iterAdd start tock (k+1) + tock
      rw [iterAdd_succ' start tock k]

theorem cycState_tyme (pool : List (Spec τ)) (tock : τ) :
    ∀ (k : Nat) (now : τ) (deeds : List (RT τ)) (doers : List Id) {t : τ} {d : List (RT τ)} {ds : List Id},
      cycState pool tock k now deeds doers = some (t, d, ds) → t = iterAdd now tock k
  | 0, now, deeds, doers, t, d, ds, h => by
      simp only [cycState, Option.some.injEq, Prod.mk.injEq] at h
      exact h.1.symm
  | k+1, now, deeds, doers, t, d, ds, h => by
      rw [cycState] at h
      rcases hr : runCycle pool now tock 0 deeds { doers := doers } with ⟨es, un, c, x⟩
      rw [hr] at h
      cases x with
      | some x => simp at h
      | none =>
          simp only at h
          rw [cycState_tyme pool tock k (now + tock) c.pr c.doers h, iterAdd_succ']

theorem doLoop_tyme_cycles (pool : List (Spec τ)) (tock : τ) (stopAt : Option τ) :
    ∀ (fuel n : Nat) (now : τ) (deeds : List (RT τ)) (doers : List Id),
      ∃ k, (doLoop pool tock stopAt fuel n now deeds doers).tyme = iterAdd now tock k
         ∧ (doLoop pool tock stopAt fuel n now deeds doers).cycles = n + k := by
  intro fuel
  induction fuel with
  | zero => intro n now deeds doers; exact ⟨0, rfl, rfl⟩
  | succ fuel ih =>
    intro n now deeds doers
    rcases hr : runCycle pool now tock 0 deeds { doers := doers } with ⟨es, un, c, x⟩
    cases x with
    | some x =>
      refine ⟨0, ?_, ?_⟩ <;> (rw [doLoop]; simp only [hr]; rfl)
    | none =>
      rw [doLoop_succ_ok hr]
      cases c.pr.isEmpty with
      | true => exact ⟨1, rfl, rfl⟩
      | false =>
        simp only [Bool.false_eq_true, if_false]
        cases limitHit stopAt (now + tock) with
        | true => exact ⟨1, rfl, rfl⟩
        | false =>
          simp only [Bool.false_eq_true, if_false]
          obtain ⟨k, h1, h2⟩ := ih (n+1) (now + tock) c.pr c.doers
          exact ⟨k+1, by rw [h1, iterAdd_succ'], by rw [h2]; omega⟩

end Hio.Sched
