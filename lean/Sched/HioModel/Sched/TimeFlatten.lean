import HioModel.Sched.TimeSim
/-!
# C04: from one cycle to whole runs — `doLoop` on a nested forest and on its flattening, and the enter phase
-/
set_option linter.unusedSectionVars false
set_option linter.unusedSimpArgs false
namespace Hio.Sched
variable {τ : Type}
variable [Add τ] [LE τ] [DecidableRel (α := τ) (· ≤ ·)] [OfNat τ 0] [BEq τ]

theorem keepView_idem (keep : Id → Bool) (a : List (Ev τ)) : keepView keep (keepView keep a) = keepView keep a := by
  simp [keepView, List.filter_filter]

theorem Sim.flat_plain {keep : Id → Bool} {b : Bool} {now : τ} {N F : List (RT τ)} (h : Sim keep b now N F) :
    F.all RT.plainLeaf = true := by
  induction h with
  | nil => rfl
  | leaf _ hp _ _ _ ih => simp [RT.plainLeaf, hp, ih]
  | group _ _ _ _ _ ih1 ih2 => simp [List.all_append, ih1, ih2]

/-- `tymer.expired` for the limit timer -/
def limitHit (stopAt : Option τ) (t : τ) : Bool :=
  match stopAt with | some s => decide (s ≤ t) | none => false

theorem doLoop_succ_ok {pool : List (Spec τ)} {tock : τ} {stopAt : Option τ} {fuel n : Nat} {now : τ}
    {deeds : List (RT τ)} {doers : List Id} {es : List (Ev τ)} {un : List (RT τ)} {c : Cyc τ}
    (h : runCycle pool now tock 0 deeds { doers := doers } = (es, un, c, none)) :
    doLoop pool tock stopAt (fuel+1) n now deeds doers =
      if c.pr.isEmpty then ⟨es ++ stopEvs (now + tock) [], true, now + tock, false, false, c.doers, n+1⟩
      else if limitHit stopAt (now + tock) then
        ⟨es ++ stopEvs (now + tock) c.pr, false, now + tock, false, false, c.doers, n+1⟩
      else { doLoop pool tock stopAt fuel (n+1) (now + tock) c.pr c.doers with
              evs := es ++ (doLoop pool tock stopAt fuel (n+1) (now + tock) c.pr c.doers).evs } := by
  rw [doLoop]; simp only [h, limitHit]
  rfl

theorem keepView_stopEvs {keep : Id → Bool} {b : Bool} {now : τ} {N F : List (RT τ)} (h : Sim keep b now N F) (t : τ) :
    keepView keep (stopEvs t N) = keepView keep (stopEvs t F) := by
  have e := h.close t
  have e2 : keepView keep (closeAllRev t F) = closeAllRev t F := by rw [← e, keepView_idem]
  simp only [stopEvs, keepView_append, e, e2]

/-- what C04 compares of two finished runs: kept events, scheduler done flag, final tyme (completion cycle),
number of completed cycles, raised, ran-out-of-fuel -/
def SameView (keep : Id → Bool) (a b : Final τ) : Prop :=
  keepView keep a.evs = keepView keep b.evs ∧ a.done = b.done ∧ a.tyme = b.tyme ∧ a.cycles = b.cycles
    ∧ a.raised = b.raised ∧ a.fuelOut = b.fuelOut

section laws
variable [LawfulTyme τ]

/-- the main loop on a nested forest and on its flattening: cycle by cycle in lockstep -/
theorem Sim.doLoop {keep : Id → Bool} {tock : τ} (h0 : 0 ≤ tock) (pool : List (Spec τ)) (stopAt : Option τ) :
    ∀ (fuel n : Nat) (now : τ) (b : Bool) (N F : List (RT τ)) (dN dF : List Id), Sim keep b now N F →
      SameView keep (Hio.Sched.doLoop pool tock stopAt fuel n now N dN) (Hio.Sched.doLoop pool tock stopAt fuel n now F dF) := by
  intro fuel
  induction fuel with
  | zero =>
    intro n now b N F dN dF h
    exact ⟨keepView_stopEvs h now, rfl, rfl, rfl, rfl, rfl⟩
  | succ fuel ih =>
    intro n now b N F dN dF h
    obtain ⟨esN, N', hrunN, hview, hsim⟩ := h.cycle h0 pool tock 0 { doers := dN } (Or.inl rfl) rfl
    have hrunF := runCycle_flat pool now tock 0 F { doers := dF } h.flat_plain rfl
    simp only [List.nil_append] at hrunN hrunF
    have hvF : keepView keep (flatEvs now tock F) = flatEvs now tock F := by rw [← hview, keepView_idem]
    rw [doLoop_succ_ok hrunN, doLoop_succ_ok hrunF]
    simp only []
    have hemp : N'.isEmpty = (flatNext now tock F).isEmpty := by
      have := hsim.nil_iff
      cases N' <;> cases hF : flatNext now tock F <;> simp_all
    rw [hemp]
    cases hE : (flatNext now tock F).isEmpty with
    | true =>
      simp only [if_true]
      refine ⟨?_, rfl, rfl, rfl, rfl, rfl⟩
      simp only [keepView_append, hview, hvF]
    | false =>
      simp only [Bool.false_eq_true, if_false]
      cases limitHit stopAt (now + tock)
      rotate_left
      · simp only [if_true]
        refine ⟨?_, rfl, rfl, rfl, rfl, rfl⟩
        simp only [keepView_append, hview, hvF, keepView_stopEvs hsim]
      · simp only [Bool.false_eq_true, if_false]
        obtain ⟨e1, e2, e3, e4, e5, e6⟩ := ih (n+1) (now + tock) true N' (flatNext now tock F) dN dF hsim
        refine ⟨?_, e2, e3, e4, e5, e6⟩
        simp only [keepView_append, hview, hvF, e1]

end laws

/-! ### the enter phase -/

theorem enterList_append_ok (now : τ) : ∀ (a b : List (Spec τ)) {ea eb : List (Ev τ)} {Fa Fb : List (RT τ)},
    enterList now a = (ea, Fa, false) → enterList now b = (eb, Fb, false) →
    enterList now (a ++ b) = (ea ++ eb, Fa ++ Fb, false)
  | [], b, ea, eb, Fa, Fb, ha, hb => by
      rw [enterList] at ha
      simp only [Prod.mk.injEq] at ha
      obtain ⟨rfl, rfl, _⟩ := ha
      simpa using hb
  | s :: ss, b, ea, eb, Fa, Fb, ha, hb => by
      rw [enterList] at ha
      simp only [List.cons_append]
      rw [enterList]
      rcases hs : enterSpec now s with ⟨e, r, raised⟩
      rw [hs] at ha
      cases raised with
      | true => simp at ha
      | false =>
        simp only at ha ⊢
        rcases hss : enterList now ss with ⟨e2, rs, b2⟩
        rw [hss] at ha
        simp only [Prod.mk.injEq] at ha
        obtain ⟨rfl, rfl, rfl⟩ := ha
        rw [enterList_append_ok now ss b hss hb]
        simp [List.append_assoc]

section laws2
variable [LawfulTyme τ]

/-- entering a forest and entering its flattening: same leaf events in the same order, related deques -/
theorem Flattens.enter {keep : Id → Bool} {p q : List (Spec τ)} (h : Flattens keep p q)
    (hG : Spec.allStepsL g04 p = true) (start : τ) :
    ∃ esP N0 esQ F0, enterList start p = (esP, N0, false) ∧ enterList start q = (esQ, F0, false)
      ∧ keepView keep esP = esQ ∧ Sim keep false start N0 F0 := by
  induction h with
  | nil => exact ⟨[], [], [], [], by rw [enterList], by rw [enterList], rfl, Sim.nil⟩
  | @leaf i act steps p q hk hp hact _ ih =>
    simp only [Spec.allStepsL, Spec.allSteps, Bool.and_eq_true] at hG
    obtain ⟨esP, N0, esQ, F0, hP, hQ, hv, hs⟩ := ih hG.2
    have hkv : ∀ (l : List (Ev τ)), (∀ e ∈ l, e.id = i) → keepView keep l = l :=
      fun l hl => keepView_all (fun e he => by rw [hl e he]; exact hk)
    cases act with
    | fail => exact absurd hact (by simp)
    | ok =>
      refine ⟨[ev i (.flag false) start, ev i .enter start] ++ esP, .leaf i start steps :: N0,
        [ev i (.flag false) start, ev i .enter start] ++ esQ, .leaf i start steps :: F0, ?_, ?_, ?_, ?_⟩
      · rw [enterList, enterSpec]; simp [hP]
      · rw [enterList, enterSpec]; simp [hQ]
      · rw [keepView_append, hv, hkv _ (by simp [ev])]
      · exact Sim.leaf hk hp hG.1 (Or.inl rfl) hs
    | done v =>
      refine ⟨[ev i (.flag false) start, ev i .enter start] ++ [ev i .clean start, ev i .exit start] ++ flagEvs i v start ++ esP, N0,
        [ev i (.flag false) start, ev i .enter start] ++ [ev i .clean start, ev i .exit start] ++ flagEvs i v start ++ esQ, F0, ?_, ?_, ?_, hs⟩
      · rw [enterList, enterSpec]; simp [hP]
      · rw [enterList, enterSpec]; simp [hQ]
      · rw [keepView_append, hv, hkv]
        intro e he
        simp only [List.mem_append, List.mem_cons, List.not_mem_nil, or_false] at he
        rcases he with ((h | h) | (h | h)) | h
        · simp [h, ev]
        · simp [h, ev]
        · simp [h, ev]
        · simp [h, ev]
        · exact flagEvs_ids _ _ _ _ h
  | @group i pool kids p q1 q2 hk _ _ ih1 ih2 =>
    simp only [Spec.allStepsL, Spec.allSteps, Bool.and_eq_true] at hG
    obtain ⟨esK, NK, esQ1, F1, hK, hQ1, hv1, hs1⟩ := ih1 hG.1
    obtain ⟨esP, N0, esQ2, F2, hP, hQ2, hv2, hs2⟩ := ih2 hG.2
    refine ⟨[ev i (.flag false) start, ev i .enter start] ++ esK ++ esP,
      .group i start 0 false pool (kids.map Spec.id) NK :: N0, esQ1 ++ esQ2, F1 ++ F2, ?_, ?_, ?_, ?_⟩
    · rw [enterList, enterSpec]; simp [hK, hP]
    · exact enterList_append_ok start q1 q2 hQ1 hQ2
    · simp only [keepView_append, hv1, hv2]
      simp [keepView, ev, hk]
    · exact Sim.group hk (LawfulTyme.le_refl start) (fun h => by simp at h) hs1 hs2

end laws2
end Hio.Sched
