import HioModel.Sched.TimeSim
/-!
# C04: from one cycle to whole runs — `doLoop` on a nested forest and on its flattening, and the enter phase
-/
set_option linter.unusedSectionVars false
set_option linter.unusedSimpArgs false
namespace Hio.Sched
variable {τ : Type}
variable [Add τ] [LE τ] [DecidableRel (α := τ) (· ≤ ·)] [OfNat τ 0] [BEq τ]

theorem keepView_idem (keep : Id → Bool) (a : List (Ev τ)) : keepView keep (keepView keep a) = keepView keep a := by
  simp [keepView, List.filter_filter]

theorem Sim.flat_plain {keep : Id → Bool} {b : Bool} {now : τ} {N F : List (RT τ)} (h : Sim keep b now N F) :
    F.all RT.plainLeaf = true := by
  induction h with
  | nil => rfl
  | leaf _ hp _ _ _ ih => simp [RT.plainLeaf, hp, ih]
  | group _ _ _ _ _ ih1 ih2 => simp [List.all_append, ih1, ih2]

theorem doLoop_succ_ok {pool : List (Spec τ)} {tock : τ} {stopAt : Option τ} {fuel n : Nat} {now : τ}
    {deeds : List (RT τ)} {doers : List Id} {es : List (Ev τ)} {un : List (RT τ)} {c : Cyc τ}
    (h : runCycle pool now tock 0 deeds { doers := doers } = (es, un, c, none)) :
    doLoop pool tock stopAt (fuel+1) n now deeds doers =
      if c.pr.isEmpty then ⟨es ++ stopEvs (now + tock) [], true, now + tock, false, false, c.doers, n+1⟩
      else if (match stopAt with | some s => decide (s ≤ now + tock) | none => false) then
        ⟨es ++ stopEvs (now + tock) c.pr, false, now + tock, false, false, c.doers, n+1⟩
      else { doLoop pool tock stopAt fuel (n+1) (now + tock) c.pr c.doers with
              evs := es ++ (doLoop pool tock stopAt fuel (n+1) (now + tock) c.pr c.doers).evs } := by
  rw [doLoop]; simp only [h]

theorem keepView_stopEvs {keep : Id → Bool} {b : Bool} {now : τ} {N F : List (RT τ)} (h : Sim keep b now N F) (t : τ) :
    keepView keep (stopEvs t N) = keepView keep (stopEvs t F) := by
  have e := h.close t
  have e2 : keepView keep (closeAllRev t F) = closeAllRev t F := by rw [← e, keepView_idem]
  simp only [stopEvs, keepView_append, e, e2]

/-- what C04 compares of two finished runs: kept events, scheduler done flag, final tyme (completion cycle),
number of completed cycles, raised, ran-out-of-fuel -/
def SameView (keep : Id → Bool) (a b : Final τ) : Prop :=
  keepView keep a.evs = keepView keep b.evs ∧ a.done = b.done ∧ a.tyme = b.tyme ∧ a.cycles = b.cycles
    ∧ a.raised = b.raised ∧ a.fuelOut = b.fuelOut

section laws
variable [LawfulTyme τ]

/-- the main loop on a nested forest and on its flattening: cycle by cycle in lockstep -/
theorem Sim.doLoop {keep : Id → Bool} {tock : τ} (h0 : 0 ≤ tock) (pool : List (Spec τ)) (stopAt : Option τ) :
    ∀ (fuel n : Nat) (now : τ) (b : Bool) (N F : List (RT τ)) (dN dF : List Id), Sim keep b now N F →
      SameView keep (Hio.Sched.doLoop pool tock stopAt fuel n now N dN) (Hio.Sched.doLoop pool tock stopAt fuel n now F dF) := by
  intro fuel
  induction fuel with
  | zero =>
    intro n now b N F dN dF h
    exact ⟨keepView_stopEvs h now, rfl, rfl, rfl, rfl, rfl⟩
  | succ fuel ih =>
    intro n now b N F dN dF h
    obtain ⟨esN, N', hrunN, hview, hsim⟩ := h.cycle h0 pool tock 0 { doers := dN } (Or.inl rfl) rfl
    have hrunF := runCycle_flat pool now tock 0 F { doers := dF } h.flat_plain rfl
    simp only [List.nil_append] at hrunN hrunF
    have hvF : keepView keep (flatEvs now tock F) = flatEvs now tock F := by rw [← hview, keepView_idem]
    rw [doLoop_succ_ok hrunN, doLoop_succ_ok hrunF]
    simp only []
    have hemp : N'.isEmpty = (flatNext now tock F).isEmpty := by
      have := hsim.nil_iff
      cases N' <;> cases hF : flatNext now tock F <;> simp_all
    rw [hemp]
    cases hE : (flatNext now tock F).isEmpty with
    | true =>
      simp only [if_true]
      refine ⟨?_, rfl, rfl, rfl, rfl, rfl⟩
      simp only [keepView_append, hview, hvF]
    | false =>
      simp only [Bool.false_eq_true, if_false]
      split
      · refine ⟨?_, rfl, rfl, rfl, rfl, rfl⟩
        simp only [keepView_append, hview, hvF, keepView_stopEvs hsim]
      · obtain ⟨e1, e2, e3, e4, e5, e6⟩ := ih (n+1) (now + tock) true N' (flatNext now tock F) dN dF hsim
        refine ⟨?_, e2, e3, e4, e5, e6⟩
        simp only [keepView_append, hview, hvF, e1]

end laws
end Hio.Sched
