import HioModel.Sched.Model
/-!
# Second-generation scheduler model (`Hio.Sched2`): exception KINDS and action faults

Same machine as `HioModel/Sched/Model.lean` (same events `Hio.Sched.Ev`, same zipper, same ops), with more script data:

* exception kinds `Exn2 = err | kbint | sysexit` (Exception / KeyboardInterrupt / SystemExit).  Only `err` runs the
  abort context (`except Exception` in Doer.do / DoDoer.do — known finding C01-K1 for the other two);
  `Doist.do` breaks its loop on a KeyboardInterrupt raised in a cycle and re-raises everything else;
* an enter may raise any kind: `EnterAct2.fail x` — in `Doist.enter` (outside the loop: escapes do() whatever the kind),
  in `DoDoer.enter`, and in an enter inside `extend()`;
* `cleanFails`: the clean action of a doer (leaf or DoDoer) raises an Exception: `clean, exit`, then the exception
  reaches the scheduler that resumed / entered the doer (no abort, no done assignment);
* every function returns the KIND of the exception (`Option Exn2`) where `Model` returns a Bool.

`Embed.lean` proves that on scripts without the new data this model IS `Model` (events, done, tyme, raised, doers).
Import-free apart from `Model`.
-/
namespace Hio.Sched2
open Hio.Sched (Id Kind Ev ev Op flagEvs)

inductive Exn2 | err | kbint | sysexit
deriving Repr, DecidableEq

/-- the abort context runs for `Exception` only -/
def Exn2.aborts : Exn2 → Bool
  | .err => true
  | _ => false

inductive Out2 (τ : Type)
  | yieldT (t : Option τ)
  | ret (v : Option Bool)
  | raise (e : Exn2)
deriving Repr

structure Step2 (τ : Type) where
  ops : List Op
  out : Out2 τ
deriving Repr

inductive EnterAct2 | ok | fail (x : Exn2) | done (v : Option Bool)
deriving Repr

inductive Spec2 (τ : Type)
  | leaf (id : Id) (enter : EnterAct2) (steps : List (Step2 τ)) (cleanFails : Bool)
  | group (id : Id) (tock : τ) (always : Bool) (kids : List (Spec2 τ)) (pool : List (Spec2 τ)) (cleanFails : Bool)

inductive RT2 (τ : Type)
  | leaf (id : Id) (retyme : τ) (steps : List (Step2 τ)) (cleanFails : Bool)
  | group (id : Id) (retyme : τ) (tock : τ) (always : Bool) (pool : List (Spec2 τ))
      (doers : List Id) (deeds : List (RT2 τ)) (cleanFails : Bool)

def RT2.id {τ} : RT2 τ → Id
  | .leaf i _ _ _ => i
  | .group i _ _ _ _ _ _ _ => i
def RT2.retyme {τ} : RT2 τ → τ
  | .leaf _ r _ _ => r
  | .group _ r _ _ _ _ _ _ => r
def RT2.setRetyme {τ} (r : τ) : RT2 τ → RT2 τ
  | .leaf i _ s cf => .leaf i r s cf
  | .group i _ t a p d ds cf => .group i r t a p d ds cf
def Spec2.id {τ} : Spec2 τ → Id
  | .leaf i _ _ _ => i
  | .group i _ _ _ _ _ => i

variable {τ : Type}

def abortEvs (i : Id) (x : Exn2) (now : τ) : List (Ev τ) :=
  if x.aborts then [ev i .abort now] else []

mutual
def closeRT (now : τ) : RT2 τ → List (Ev τ)
  | .leaf i _ _ _ => [ev i .cease now, ev i .exit now]
  | .group i _ _ _ _ _ deeds _ =>
      [ev i .cease now, ev i .exit now] ++ closeAllRev now deeds ++ [ev i .exitEnd now]
def closeAllRev (now : τ) : List (RT2 τ) → List (Ev τ)
  | [] => []
  | d :: ds => closeAllRev now ds ++ closeRT now d
end

mutual
/-- events, the live deed if it yielded, the exception the enter raised -/
def enterSpec (now : τ) : Spec2 τ → List (Ev τ) × Option (RT2 τ) × Option Exn2
  | .leaf i act steps cf =>
      let pre := [ev i (.flag false) now, ev i .enter now]
      match act with
      | .ok => (pre, some (.leaf i now steps cf), none)
      | .fail x => (pre ++ abortEvs i x now ++ [ev i .exit now], none, some x)
      | .done v =>
          if cf then (pre ++ [ev i .clean now, ev i .exit now], none, some .err)
          else (pre ++ [ev i .clean now, ev i .exit now] ++ flagEvs i v now, none, none)
  | .group i tock always kids pool cf =>
      let pre := [ev i (.flag false) now, ev i .enter now]
      match enterList now kids with
      | (es, deeds, some x) =>
          (pre ++ es ++ abortEvs i x now ++ [ev i .exit now] ++ closeAllRev now deeds ++ [ev i .exitEnd now],
           none, some x)
      | (es, deeds, none) =>
          (pre ++ es, some (.group i now tock always pool (kids.map Spec2.id) deeds cf), none)
def enterList (now : τ) : List (Spec2 τ) → List (Ev τ) × List (RT2 τ) × Option Exn2
  | [] => ([], [], none)
  | s :: ss =>
      match enterSpec now s with
      | (e, _, some x) => (e, [], some x)
      | (e, r, none) =>
          match enterList now ss with
          | (e2, rs, b) => (e ++ e2, r.toList ++ rs, b)
end

structure Cyc2 (τ : Type) where
  pr : List (RT2 τ) := []
  doers : List Id := []
  gone : List Id := []

def liveUn (c : Cyc2 τ) (un : List (RT2 τ)) : List (RT2 τ) := un.filter (fun d => !c.gone.contains d.id)

def extendList (pool : List (Spec2 τ)) (now : τ) : List Nat → Cyc2 τ → List (Ev τ) × Cyc2 τ × Option Exn2
  | [], c => ([], c, none)
  | k :: ks, c =>
      match pool[k]? with
      | none => extendList pool now ks c
      | some s =>
          if c.doers.contains s.id then extendList pool now ks c else
          match enterSpec now s with
          | (e, _, some x) => (e, c, some x)
          | (e, r, none) =>
              match extendList pool now ks { c with pr := c.pr ++ r.toList, doers := c.doers ++ [s.id] } with
              | (e2, c2, b) => (e ++ e2, c2, b)

def removeOp (now : τ) (sid : Id) (un : List (RT2 τ)) (ids : List Id) (c : Cyc2 τ) : List (Ev τ) × Cyc2 τ :=
  let rids := ids.filter (fun i => c.doers.contains i)
  let hit (d : RT2 τ) : Bool := rids.contains d.id
  let unHit := (liveUn c un).filter hit
  let prHit := c.pr.filter hit
  ([ev sid .rmBeg now] ++ closeAllRev now (prHit ++ unHit) ++ [ev sid .rmEnd now],
   { pr := c.pr.filter (fun d => !hit d),
     doers := c.doers.filter (fun i => !rids.contains i),
     gone := c.gone ++ unHit.map RT2.id })

def applyOps (pool : List (Spec2 τ)) (now : τ) (sid : Id) (un : List (RT2 τ)) :
    List Op → Cyc2 τ → List (Ev τ) × Cyc2 τ × Option Exn2
  | [], c => ([], c, none)
  | .extend ks :: ops, c =>
      match extendList pool now ks c with
      | (e, c1, some x) => (e, c1, some x)
      | (e, c1, none) =>
          match applyOps pool now sid un ops c1 with
          | (e2, c2, b) => (e ++ [ev sid (.doers c1.doers) now] ++ e2, c2, b)
  | .remove ids :: ops, c =>
      match removeOp now sid un ids c with
      | (e, c1) =>
          match applyOps pool now sid un ops c1 with
          | (e2, c2, b) => (e ++ [ev sid (.doers c1.doers) now] ++ e2, c2, b)

variable [Add τ] [LE τ] [DecidableRel (α := τ) (· ≤ ·)] [OfNat τ 0] [BEq τ]

def headStep (steps : List (Step2 τ)) : Step2 τ × List (Step2 τ) :=
  match steps with
  | [] => (⟨[], .ret (some true)⟩, [])
  | s :: ss => (s, ss)

inductive Res2 (τ : Type)
  | yielded (rt : RT2 τ) (tock : τ)
  | finished
  | raised (e : Exn2)

mutual
def resumeGroup (now : τ) : RT2 τ → List (Ev τ) × Res2 τ
  | .leaf _ _ _ _ => ([], .raised .err)
  | .group i r tock always pool doers deeds cf =>
      match runCycle pool now tock i deeds { doers := doers } with
      | (es, un, c, some x) =>
          ([ev i .recur now] ++ es ++ abortEvs i x now ++ [ev i .exit now]
             ++ closeAllRev now (c.pr ++ un) ++ [ev i .exitEnd now], .raised x)
      | (es, _, c, none) =>
          let es := [ev i .recur now] ++ es ++ [ev i (.flag c.pr.isEmpty) now]
          if !c.pr.isEmpty || always then
            (es, .yielded (.group i r tock always pool c.doers c.pr cf) tock)
          else if cf then
            -- clean() raises after the DoDoer finished by itself: exit() still runs (finally), the exception reaches the parent
            (es ++ [ev i .clean now, ev i .exit now, ev i .exitEnd now], .raised .err)
          else
            (es ++ [ev i .clean now, ev i .exit now, ev i .exitEnd now], .finished)
def runCycle (pool : List (Spec2 τ)) (now stock : τ) (sid : Id) :
    List (RT2 τ) → Cyc2 τ → List (Ev τ) × List (RT2 τ) × Cyc2 τ × Option Exn2
  | [], c => ([], [], c, none)
  | d :: un, c =>
    if c.gone.contains d.id then runCycle pool now stock sid un c else
    if d.retyme ≤ now then
      match d with
      | .leaf i r steps cf =>
          let st := (headStep steps).1
          let rest := (headStep steps).2
          match applyOps pool now sid un st.ops c with
          | (eo, c1, opRaised) =>
            let out := match opRaised with | some x => Out2.raise x | none => st.out
            match out with
            | .raise x => ([ev i .recur now] ++ eo ++ abortEvs i x now ++ [ev i .exit now], liveUn c1 un, c1, some x)
            | .ret v =>
                if cf then
                  ([ev i .recur now] ++ eo ++ [ev i .clean now, ev i .exit now], liveUn c1 un, c1, some .err)
                else
                match runCycle pool now stock sid un c1 with
                | (e2, un2, c2, x) =>
                  ([ev i .recur now] ++ eo ++ [ev i .clean now, ev i .exit now] ++ flagEvs i v now ++ e2, un2, c2, x)
            | .yieldT t =>
                match runCycle pool now stock sid un { c1 with pr := c1.pr ++ [.leaf i (Hio.Sched.nextDue now stock r t) rest cf] } with
                | (e2, un2, c2, x) => ([ev i .recur now] ++ eo ++ e2, un2, c2, x)
      | .group i r tock always gpool doers deeds cf =>
          match resumeGroup now (.group i r tock always gpool doers deeds cf) with
          | (eg, .raised x) => (eg, liveUn c un, c, some x)
          | (eg, .finished) =>
              match runCycle pool now stock sid un c with
              | (e2, un2, c2, x) => (eg ++ [ev i (.flag true) now] ++ e2, un2, c2, x)
          | (eg, .yielded rt t) =>
              match runCycle pool now stock sid un { c with pr := c.pr ++ [rt.setRetyme (Hio.Sched.nextDue now stock r (some t))] } with
              | (e2, un2, c2, x) => (eg ++ e2, un2, c2, x)
    else
      runCycle pool now stock sid un { c with pr := c.pr ++ [d] }
end

structure Final2 (τ : Type) where
  evs : List (Ev τ)
  done : Bool
  tyme : τ
  raised : Option Exn2   -- what do() raised (a KeyboardInterrupt raised in a cycle only breaks the loop)
  fuelOut : Bool
  doers : List Id
  cycles : Nat

def stopEvs (now : τ) (deeds : List (RT2 τ)) : List (Ev τ) :=
  [ev 0 .stopBeg now] ++ closeAllRev now deeds ++ [ev 0 .stopEnd now]

/-- `except KeyboardInterrupt: break` inside the loop; everything else propagates out of do() -/
def loopRaises (x : Exn2) : Option Exn2 :=
  match x with
  | .kbint => none
  | y => some y

def doLoop (pool : List (Spec2 τ)) (tock : τ) (stopAt : Option τ) :
    Nat → Nat → τ → List (RT2 τ) → List Id → Final2 τ
  | 0, n, now, deeds, doers => ⟨stopEvs now deeds, false, now, none, true, doers, n⟩
  | fuel+1, n, now, deeds, doers =>
      match runCycle pool now tock 0 deeds { doers := doers } with
      | (es, un, c, some x) =>
          ⟨es ++ stopEvs now (c.pr ++ un), false, now, loopRaises x, false, c.doers, n⟩
      | (es, _, c, none) =>
          let now' := now + tock
          if c.pr.isEmpty then ⟨es ++ stopEvs now' [], true, now', none, false, c.doers, n+1⟩
          else
            let stop := match stopAt with | some s => decide (s ≤ now') | none => false
            if stop then ⟨es ++ stopEvs now' c.pr, false, now', none, false, c.doers, n+1⟩
            else
              let f := doLoop pool tock stopAt fuel (n+1) now' c.pr c.doers
              { f with evs := es ++ f.evs }

/-- `Doist(tock, tyme=start, limit).do(doers=specs)`; an exception of ANY kind raised by an enter escapes do() (after exit()) -/
def doistDo (pool : List (Spec2 τ)) (tock start : τ) (limit : Option τ) (fuel : Nat) (specs : List (Spec2 τ)) : Final2 τ :=
  match enterList start specs with
  | (es, deeds, some x) => ⟨es ++ stopEvs start deeds, false, start, some x, false, specs.map Spec2.id, 0⟩
  | (es, deeds, none) =>
      let f := doLoop pool tock (limit.map (start + ·)) fuel 0 start deeds (specs.map Spec2.id)
      { f with evs := es ++ f.evs }

mutual
def Spec2.ids : Spec2 τ → List Id
  | .leaf i _ _ _ => [i]
  | .group i _ _ kids pool _ => i :: (Spec2.idsL kids ++ Spec2.idsL pool)
def Spec2.idsL : List (Spec2 τ) → List Id
  | [] => []
  | s :: ss => s.ids ++ Spec2.idsL ss
end

end Hio.Sched2
