/-!
# Scheduler model: Doist / DoDoer / Doer lifecycle (hio.base.doing, hio.base.tyming)

Faithful to the tree with the `fix/sched` commits (F02 F04 F05 F06 F07 repaired);
F01 (KeyboardInterrupt skips abort) and F03 (a doer extended in mid cycle is queued
before the extender) are modelled as the code behaves.

* A *program* is a forest of `Spec`s plus, per scheduler, a *pool* of specs its doers may
  `extend` with.  A run-time doer `RT` is a suspended generator.
* The deque with the `(None,None,None)` marker is the zipper `(un, pr)`:
  `un` = deeds left of the marker (not yet visited this cycle), `pr` = deeds right of it.
  Removal from `un` is lazy (`gone`), so `un` stays a structural subterm.
* Every function returns the list of events it emits (no threaded state).
* Time `τ` is abstract: `+`, decidable `≤`, `0`, `==`.

Import-free (the driver is a compiled executable).
-/
namespace Hio.Sched

abbrev Id := Nat

inductive Kind
  | enter | recur | clean | cease | abort | exit
  | exitEnd                 -- DoDoer.exit() returned (all its deeds closed)
  | rmBeg | rmEnd           -- a remove() call on scheduler `id` starts / returns
  | stopBeg | stopEnd       -- Doist.exit() inside do() starts / returns (id 0)
  | flag (b : Bool)         -- truthiness of the doer's .done after an assignment
  | doers (ids : List Id)   -- snapshot of scheduler `id`'s .doers after an op returned
deriving Repr, DecidableEq

structure Ev (τ : Type) where
  id : Id
  kind : Kind
  tyme : τ
deriving Repr

inductive Exn | err | kbint
deriving Repr, DecidableEq

inductive Out (τ : Type)
  | yieldT (t : Option τ)
  | ret (v : Option Bool)
  | raise (e : Exn)
deriving Repr

inductive Op
  | extend (idxs : List Nat)   -- indices into the pool of the doer's own scheduler
  | remove (ids : List Id)
deriving Repr

structure Step (τ : Type) where
  ops : List Op
  out : Out τ
deriving Repr

inductive EnterAct | ok | fail | done (v : Option Bool)
deriving Repr

/-- static description of a doer -/
inductive Spec (τ : Type)
  | leaf (id : Id) (enter : EnterAct) (steps : List (Step τ))
  | group (id : Id) (tock : τ) (always : Bool) (kids : List (Spec τ)) (pool : List (Spec τ))

/-- live doer: a generator suspended at a yield, with the tyme it is next due (`retyme`) -/
inductive RT (τ : Type)
  | leaf (id : Id) (retyme : τ) (steps : List (Step τ))
  | group (id : Id) (retyme : τ) (tock : τ) (always : Bool) (pool : List (Spec τ))
      (doers : List Id) (deeds : List (RT τ))

def RT.id {τ} : RT τ → Id
  | .leaf i _ _ => i
  | .group i _ _ _ _ _ _ => i
def RT.retyme {τ} : RT τ → τ
  | .leaf _ r _ => r
  | .group _ r _ _ _ _ _ => r
def RT.setRetyme {τ} (r : τ) : RT τ → RT τ
  | .leaf i _ s => .leaf i r s
  | .group i _ t a p d ds => .group i r t a p d ds
def Spec.id {τ} : Spec τ → Id
  | .leaf i _ _ => i
  | .group i _ _ _ _ => i

variable {τ : Type}

def ev (i : Id) (k : Kind) (t : τ) : Ev τ := ⟨i, k, t⟩

/-- `doer.done = v if v is not None else doer.done` -/
def flagEvs (i : Id) (v : Option Bool) (now : τ) : List (Ev τ) :=
  match v with
  | none => []
  | some b => [ev i (.flag b) now]

/-- abort context runs for `Exception` only (F01: not for KeyboardInterrupt) -/
def abortEvs (i : Id) (x : Exn) (now : τ) : List (Ev τ) :=
  match x with
  | .err => [ev i .abort now]
  | .kbint => []

mutual
/-- `dog.close()`: GeneratorExit path of Doer.do / DoDoer.do -/
def closeRT (now : τ) : RT τ → List (Ev τ)
  | .leaf i _ _ => [ev i .cease now, ev i .exit now]
  | .group i _ _ _ _ _ deeds =>
      [ev i .cease now, ev i .exit now] ++ closeAllRev now deeds ++ [ev i .exitEnd now]
/-- `exit(deeds)`: pop from the right end, i.e. tail first, then head -/
def closeAllRev (now : τ) : List (RT τ) → List (Ev τ)
  | [] => []
  | d :: ds => closeAllRev now ds ++ closeRT now d
end

mutual
/-- `doer.done = False; dog = doer(...); next(dog)`: events, the live deed if it yielded, raised? -/
def enterSpec (now : τ) : Spec τ → List (Ev τ) × Option (RT τ) × Bool
  | .leaf i act steps =>
      let pre := [ev i (.flag false) now, ev i .enter now]
      match act with
      | .ok => (pre, some (.leaf i now steps), false)
      | .fail => (pre ++ [ev i .abort now, ev i .exit now], none, true)
      | .done v => (pre ++ [ev i .clean now, ev i .exit now] ++ flagEvs i v now, none, false)
  | .group i tock always kids pool =>
      let pre := [ev i (.flag false) now, ev i .enter now]
      match enterList now kids with
      | (es, deeds, true) =>
          (pre ++ es ++ [ev i .abort now, ev i .exit now] ++ closeAllRev now deeds ++ [ev i .exitEnd now],
           none, true)
      | (es, deeds, false) =>
          (pre ++ es, some (.group i now tock always pool (kids.map Spec.id) deeds), false)
/-- `enter()` over a list of doers: stops at the first enter that raises; deeds entered so far are returned -/
def enterList (now : τ) : List (Spec τ) → List (Ev τ) × List (RT τ) × Bool
  | [] => ([], [], false)
  | s :: ss =>
      match enterSpec now s with
      | (e, _, true) => (e, [], true)
      | (e, r, false) =>
          match enterList now ss with
          | (e2, rs, b) => (e ++ e2, r.toList ++ rs, b)
end

/-- scheduler state inside one cycle: deeds right of the marker, the doers list, ids closed by remove() -/
structure Cyc (τ : Type) where
  pr : List (RT τ) := []
  doers : List Id := []
  gone : List Id := []

def liveUn (c : Cyc τ) (un : List (RT τ)) : List (RT τ) := un.filter (fun d => !c.gone.contains d.id)

/-- `extend(doers)` after the F04/F05 repair: one doer at a time, skipping those present -/
def extendList (pool : List (Spec τ)) (now : τ) : List Nat → Cyc τ → List (Ev τ) × Cyc τ × Bool
  | [], c => ([], c, false)
  | k :: ks, c =>
      match pool[k]? with
      | none => extendList pool now ks c
      | some s =>
          if c.doers.contains s.id then extendList pool now ks c else
          match enterSpec now s with
          | (e, _, true) => (e, c, true)
          | (e, r, false) =>
              match extendList pool now ks { c with pr := c.pr ++ r.toList, doers := c.doers ++ [s.id] } with
              | (e2, c2, b) => (e ++ e2, c2, b)

/-- `remove(doers)` after the F02/F06 repair, called in mid cycle by the running deed:
deque is `un ++ [marker] ++ pr`; hit deeds are closed in reverse deque-restored order -/
def removeOp (now : τ) (sid : Id) (un : List (RT τ)) (ids : List Id) (c : Cyc τ) : List (Ev τ) × Cyc τ :=
  let rids := ids.filter (fun i => c.doers.contains i)
  let hit (d : RT τ) : Bool := rids.contains d.id
  let unHit := (liveUn c un).filter hit
  let prHit := c.pr.filter hit
  ([ev sid .rmBeg now] ++ closeAllRev now (prHit ++ unHit) ++ [ev sid .rmEnd now],
   { pr := c.pr.filter (fun d => !hit d),
     doers := c.doers.filter (fun i => !rids.contains i),
     gone := c.gone ++ unHit.map RT.id })

/-- ops issued by the running deed on its own scheduler `sid`; Bool = an enter inside extend raised -/
def applyOps (pool : List (Spec τ)) (now : τ) (sid : Id) (un : List (RT τ)) :
    List Op → Cyc τ → List (Ev τ) × Cyc τ × Bool
  | [], c => ([], c, false)
  | .extend ks :: ops, c =>
      match extendList pool now ks c with
      | (e, c1, true) => (e, c1, true)
      | (e, c1, false) =>
          match applyOps pool now sid un ops c1 with
          | (e2, c2, b) => (e ++ [ev sid (.doers c1.doers) now] ++ e2, c2, b)
  | .remove ids :: ops, c =>
      match removeOp now sid un ids c with
      | (e, c1) =>
          match applyOps pool now sid un ops c1 with
          | (e2, c2, b) => (e ++ [ev sid (.doers c1.doers) now] ++ e2, c2, b)

variable [Add τ] [LE τ] [DecidableRel (α := τ) (· ≤ ·)] [OfNat τ 0] [BEq τ]

/-- `not tock` -/
def asap (t : Option τ) : Bool := match t with | none => true | some x => x == 0

/-- next due tyme: asap -> `tyme + scheduler tock`, else cumulative `retyme + tock` -/
def nextDue (now stock r : τ) (t : Option τ) : τ :=
  if asap t then now + stock else match t with | some x => r + x | none => r

/-- the step a leaf performs at its next resume; a used-up script returns True -/
def headStep (steps : List (Step τ)) : Step τ × List (Step τ) :=
  match steps with
  | [] => (⟨[], .ret (some true)⟩, [])
  | s :: ss => (s, ss)

inductive Res (τ : Type)
  | yielded (rt : RT τ) (tock : τ)
  | finished
  | raised (e : Exn)

mutual
/-- `dog.send(now)` for a DoDoer: body of DoDoer.do after its yield -/
def resumeGroup (now : τ) : RT τ → List (Ev τ) × Res τ
  | .leaf _ _ _ => ([], .raised .err)   -- leaves are stepped by runCycle itself
  | .group i r tock always pool doers deeds =>
      match runCycle pool now tock i deeds { doers := doers } with
      | (es, un, c, some x) =>
          ([ev i .recur now] ++ es ++ abortEvs i x now ++ [ev i .exit now]
             ++ closeAllRev now (c.pr ++ un) ++ [ev i .exitEnd now], .raised x)
      | (es, _, c, none) =>
          let es := [ev i .recur now] ++ es ++ [ev i (.flag c.pr.isEmpty) now]
          if !c.pr.isEmpty || always then
            (es, .yielded (.group i r tock always pool c.doers c.pr) tock)
          else
            (es ++ [ev i .clean now, ev i .exit now, ev i .exitEnd now], .finished)
/-- one pass of Doist.recur / DoDoer.recur over the deeds left of the marker.
Returns events, the still-live unvisited deeds, the cycle state, and the exception that stopped the pass -/
def runCycle (pool : List (Spec τ)) (now stock : τ) (sid : Id) :
    List (RT τ) → Cyc τ → List (Ev τ) × List (RT τ) × Cyc τ × Option Exn
  | [], c => ([], [], c, none)
  | d :: un, c =>
    if c.gone.contains d.id then runCycle pool now stock sid un c else
    if d.retyme ≤ now then
      match d with
      | .leaf i r steps =>
          let st := (headStep steps).1
          let rest := (headStep steps).2
          match applyOps pool now sid un st.ops c with
          | (eo, c1, opRaised) =>
            let out := if opRaised then Out.raise .err else st.out
            match out with
            | .raise x => ([ev i .recur now] ++ eo ++ abortEvs i x now ++ [ev i .exit now], liveUn c1 un, c1, some x)
            | .ret v =>
                match runCycle pool now stock sid un c1 with
                | (e2, un2, c2, x) =>
                  ([ev i .recur now] ++ eo ++ [ev i .clean now, ev i .exit now] ++ flagEvs i v now ++ e2, un2, c2, x)
            | .yieldT t =>
                match runCycle pool now stock sid un { c1 with pr := c1.pr ++ [.leaf i (nextDue now stock r t) rest] } with
                | (e2, un2, c2, x) => ([ev i .recur now] ++ eo ++ e2, un2, c2, x)
      | .group i r tock always gpool doers deeds =>
          match resumeGroup now (.group i r tock always gpool doers deeds) with
          | (eg, .raised x) => (eg, liveUn c un, c, some x)
          | (eg, .finished) =>
              match runCycle pool now stock sid un c with
              | (e2, un2, c2, x) => (eg ++ [ev i (.flag true) now] ++ e2, un2, c2, x)
          | (eg, .yielded rt t) =>
              match runCycle pool now stock sid un { c with pr := c.pr ++ [rt.setRetyme (nextDue now stock r (some t))] } with
              | (e2, un2, c2, x) => (eg ++ e2, un2, c2, x)
    else
      runCycle pool now stock sid un { c with pr := c.pr ++ [d] }
end

/-- what `Doist.do` leaves behind -/
structure Final (τ : Type) where
  evs : List (Ev τ)
  done : Bool          -- Doist.done
  tyme : τ             -- Doist.tyme after do()
  raised : Bool        -- do() raised (Exception; a KeyboardInterrupt in a doer only breaks the loop)
  fuelOut : Bool       -- the model ran out of fuel (then it force-closes like a limit)
  doers : List Id      -- Doist.doers
  cycles : Nat         -- completed calls of recur()

/-- `Doist.exit()` from the finally clause of do() -/
def stopEvs (now : τ) (deeds : List (RT τ)) : List (Ev τ) :=
  [ev 0 .stopBeg now] ++ closeAllRev now deeds ++ [ev 0 .stopEnd now]

/-- main loop of Doist.do in virtual time; `stopAt = start + limit` is the Tymer on the limit -/
def doLoop (pool : List (Spec τ)) (tock : τ) (stopAt : Option τ) :
    Nat → Nat → τ → List (RT τ) → List Id → Final τ
  | 0, n, now, deeds, doers => ⟨stopEvs now deeds, false, now, false, true, doers, n⟩
  | fuel+1, n, now, deeds, doers =>
      match runCycle pool now tock 0 deeds { doers := doers } with
      | (es, un, c, some x) =>       -- recur raised: tick() not reached
          ⟨es ++ stopEvs now (c.pr ++ un), false, now, x == .err, false, c.doers, n⟩
      | (es, _, c, none) =>
          let now' := now + tock
          if c.pr.isEmpty then ⟨es ++ stopEvs now' [], true, now', false, false, c.doers, n+1⟩
          else
            let stop := match stopAt with | some s => decide (s ≤ now') | none => false
            if stop then ⟨es ++ stopEvs now' c.pr, false, now', false, false, c.doers, n+1⟩
            else
              let f := doLoop pool tock stopAt fuel (n+1) now' c.pr c.doers
              { f with evs := es ++ f.evs }

/-- `Doist(tock, tyme=start, limit).do(doers=specs)` -/
def doistDo (pool : List (Spec τ)) (tock start : τ) (limit : Option τ) (fuel : Nat) (specs : List (Spec τ)) : Final τ :=
  match enterList start specs with
  | (es, deeds, true) => ⟨es ++ stopEvs start deeds, false, start, true, false, specs.map Spec.id, 0⟩
  | (es, deeds, false) =>
      let f := doLoop pool tock (limit.map (start + ·)) fuel 0 start deeds (specs.map Spec.id)
      { f with evs := es ++ f.evs }

/-! ### views of a run -/

/-- last `.flag` of a doer (`false` when never entered: `.done` is None) -/
def finalFlag (evs : List (Ev τ)) (i : Id) : Bool :=
  evs.foldl (fun acc e => if e.id == i then (match e.kind with | .flag b => b | _ => acc) else acc) false

def Kind.isFlag : Kind → Bool
  | .flag _ => true
  | _ => false

/-- the observable trace: everything but the flag assignments -/
def visible (evs : List (Ev τ)) : List (Ev τ) := evs.filter (fun e => !e.kind.isFlag)

mutual
def Spec.ids : Spec τ → List Id
  | .leaf i _ _ => [i]
  | .group i _ _ kids pool => i :: (Spec.idsL kids ++ Spec.idsL pool)
def Spec.idsL : List (Spec τ) → List Id
  | [] => []
  | s :: ss => s.ids ++ Spec.idsL ss
end

end Hio.Sched
