import HioModel.Sched.TimeModel
/-! Lemmas for C30: `adoLoop` and `doLoop` compute the same `Final`; the world only sees `env`. -/
namespace Hio.Sched
variable {τ σ : Type}
variable [Add τ] [LE τ] [DecidableRel (α := τ) (· ≤ ·)] [OfNat τ 0] [BEq τ]

theorem adoLoop_fst (pool : List (Spec τ)) (tock : τ) (stopAt : Option τ) (env : Nat → σ → σ) :
    ∀ fuel n now deeds doers w,
      (adoLoop pool tock stopAt env fuel n now deeds doers w).1 = doLoop pool tock stopAt fuel n now deeds doers := by
  intro fuel
  induction fuel with
  | zero => intro n now deeds doers w; rfl
  | succ fuel ih =>
    intro n now deeds doers w
    unfold adoLoop doLoop
    rcases h : runCycle pool now tock 0 deeds { doers := doers } with ⟨es, un, c, x⟩
    cases x with
    | some x => rfl
    | none =>
      simp only []
      by_cases he : c.pr.isEmpty = true
      · simp only [he, if_true]
      · cases stopAt with
        | none => simp [he, ih]
        | some s =>
          by_cases hs : s ≤ now + tock
          · simp [he, hs]
          · simp [he, hs, ih]

/-- iterate `env` over the cycle numbers `n, n+1, …, n+k-1` -/
def envIter (env : Nat → σ → σ) : Nat → Nat → σ → σ
  | _, 0, w => w
  | n, k+1, w => envIter env (n+1) k (env n w)

theorem doLoop_cycles_ge (pool : List (Spec τ)) (tock : τ) (stopAt : Option τ) :
    ∀ fuel n now deeds doers, n ≤ (doLoop pool tock stopAt fuel n now deeds doers).cycles := by
  intro fuel
  induction fuel with
  | zero => intro n now deeds doers; simp [doLoop]
  | succ fuel ih =>
    intro n now deeds doers
    unfold doLoop
    rcases runCycle pool now tock 0 deeds { doers := doers } with ⟨es, un, c, x⟩
    cases x with
    | some x => simp
    | none =>
      simp only []
      by_cases he : c.pr.isEmpty = true
      · simp [he]
      · have hrec := Nat.le_trans (Nat.le_succ n) (ih (n+1) (now + tock) c.pr c.doers)
        cases stopAt with
        | none => simpa [he] using hrec
        | some s =>
          by_cases hs : s ≤ now + tock
          · simp [he, hs]
          · simpa [he, hs] using hrec

theorem adoLoop_snd (pool : List (Spec τ)) (tock : τ) (stopAt : Option τ) (env : Nat → σ → σ) :
    ∀ fuel n now deeds doers w,
      (adoLoop pool tock stopAt env fuel n now deeds doers w).2
        = envIter env n ((doLoop pool tock stopAt fuel n now deeds doers).cycles - n) w := by
  intro fuel
  induction fuel with
  | zero => intro n now deeds doers w; simp [adoLoop, doLoop, envIter]
  | succ fuel ih =>
    intro n now deeds doers w
    unfold adoLoop doLoop
    rcases h : runCycle pool now tock 0 deeds { doers := doers } with ⟨es, un, c, x⟩
    cases x with
    | some x => simp [envIter]
    | none =>
      simp only []
      by_cases he : c.pr.isEmpty = true
      · simp [he, envIter, yieldToLoop]
      · have hge := doLoop_cycles_ge pool tock stopAt fuel (n+1) (now + tock) c.pr c.doers
        have e : (doLoop pool tock stopAt fuel (n + 1) (now + tock) c.pr c.doers).cycles - n
            = ((doLoop pool tock stopAt fuel (n + 1) (now + tock) c.pr c.doers).cycles - (n+1)) + 1 := by omega
        cases stopAt with
        | none => simp [he, ih, yieldToLoop, e, envIter]
        | some s =>
          by_cases hs : s ≤ now + tock
          · simp [he, hs, envIter, yieldToLoop]
          · simp [he, hs, ih, yieldToLoop, e, envIter]

/-- a cancelled `ado` leaves exactly the trace (and tyme, cycle count, doers list, raised) of a `do()` run of the same
program that was stopped by force after the same number of cycles (`fuel = j+1`): every theorem about `doistDo` that holds
for every fuel — lifecycle well-formedness, forced exits nested and in reverse enter order, … — carries over -/
theorem adoLoopCancel_eq (pool : List (Spec τ)) (tock : τ) (stopAt : Option τ) :
    ∀ j n now deeds doers,
      (adoLoopCancel pool tock stopAt j n now deeds doers).1.evs = (doLoop pool tock stopAt (j+1) n now deeds doers).evs
      ∧ (adoLoopCancel pool tock stopAt j n now deeds doers).1.tyme = (doLoop pool tock stopAt (j+1) n now deeds doers).tyme
      ∧ (adoLoopCancel pool tock stopAt j n now deeds doers).1.cycles = (doLoop pool tock stopAt (j+1) n now deeds doers).cycles
      ∧ (adoLoopCancel pool tock stopAt j n now deeds doers).1.doers = (doLoop pool tock stopAt (j+1) n now deeds doers).doers
      ∧ (adoLoopCancel pool tock stopAt j n now deeds doers).1.raised = (doLoop pool tock stopAt (j+1) n now deeds doers).raised
      ∧ ((adoLoopCancel pool tock stopAt j n now deeds doers).2 = true →
          (adoLoopCancel pool tock stopAt j n now deeds doers).1.done = false) := by
  intro j
  induction j with
  | zero =>
    intro n now deeds doers
    unfold adoLoopCancel doLoop
    rcases h : runCycle pool now tock 0 deeds { doers := doers } with ⟨es, un, c, x⟩
    cases x with
    | some x => simp
    | none =>
      simp only []
      by_cases he : c.pr.isEmpty = true
      · have : c.pr = [] := by simpa using he
        simp [he, this]
      · cases stopAt with
        | none => simp [he, doLoop]
        | some s =>
          by_cases hs : s ≤ now + tock
          · simp [he, hs]
          · simp [he, hs, doLoop]
  | succ j ih =>
    intro n now deeds doers
    unfold adoLoopCancel doLoop
    rcases h : runCycle pool now tock 0 deeds { doers := doers } with ⟨es, un, c, x⟩
    cases x with
    | some x => simp
    | none =>
      simp only []
      obtain ⟨i1, i2, i3, i4, i5, i6⟩ := ih (n+1) (now + tock) c.pr c.doers
      by_cases he : c.pr.isEmpty = true
      · simp [he]
      · cases stopAt with
        | none => simp [he, i1, i2, i3, i4, i5]; exact i6
        | some s =>
          by_cases hs : s ≤ now + tock
          · simp [he, hs]
          · simp [he, hs, i1, i2, i3, i4, i5]; exact i6

end Hio.Sched
