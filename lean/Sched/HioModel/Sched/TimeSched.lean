import HioModel.Sched.TimeTick
/-!
# C03: several cycles of a flat op-free deque — every doer evolves on its own; a doer waits exactly until the first cycle
whose tyme reaches its due tyme
-/
set_option linter.unusedSectionVars false
set_option linter.unusedSimpArgs false
namespace Hio.Sched
variable {τ : Type}
variable [Add τ] [LE τ] [DecidableRel (α := τ) (· ≤ ·)] [OfNat τ 0] [BEq τ]

/-- one doer alone: what is left of it after `k` cycles `now, now+tock, …` of a scheduler with tock `tock` -/
def leafAfter (tock : τ) : Nat → τ → RT τ → Option (RT τ)
  | 0, _, d => some d
  | k+1, now, d =>
      match (stepLeaf now tock d).2 with
      | some d' => leafAfter tock k (now + tock) d'
      | none => none

/-- the events of doer `d` in cycle `k` (counted from the cycle at `now`) -/
def leafEvsAt (tock : τ) (k : Nat) (now : τ) (d : RT τ) : List (Ev τ) :=
  match leafAfter tock k now d with
  | some d' => (stepLeaf (iterAdd now tock k) tock d').1
  | none => []

theorem stepLeaf_plain (now stock : τ) {d d' : RT τ} (hd : d.plainLeaf = true) (h : (stepLeaf now stock d).2 = some d') :
    d'.plainLeaf = true := by
  cases d with
  | group => simp [RT.plainLeaf] at hd
  | leaf i r s =>
    have hp : plainSteps s = true := hd
    obtain ⟨_, _, hrest⟩ := headStep_plain hp
    simp only [stepLeaf] at h
    split at h
    · split at h
      · simp only [Option.some.injEq] at h; subst h; exact hrest
      · simp at h
      · simp at h
    · simp only [Option.some.injEq] at h; subst h; exact hp

theorem flatNext_plain (now stock : τ) {F : List (RT τ)} (h : F.all RT.plainLeaf = true) :
    (flatNext now stock F).all RT.plainLeaf = true := by
  simp only [List.all_eq_true, flatNext, List.mem_filterMap] at h ⊢
  rintro d' ⟨d, hd, hs⟩
  exact stepLeaf_plain now stock (h d hd) hs

theorem filterMap_leafAfter_succ (tock now : τ) (k : Nat) (F : List (RT τ)) :
    (flatNext now tock F).filterMap (leafAfter tock k (now + tock)) = F.filterMap (leafAfter tock (k+1) now) := by
  simp only [flatNext, List.filterMap_filterMap]
  congr 1
  funext d
  simp only [leafAfter]
  cases (stepLeaf now tock d).2 <;> simp

/-- NON-INTERFERENCE: after `k` cycles of a flat op-free deque the tyme is `now + tock` iterated and the deque is the
original one with every doer advanced ON ITS OWN (`leafAfter`), in the original order; nobody raised -/
theorem cycState_flat (pool : List (Spec τ)) (tock : τ) :
    ∀ (k : Nat) (now : τ) (F : List (RT τ)) (doers : List Id), F.all RT.plainLeaf = true →
      cycState pool tock k now F doers = some (iterAdd now tock k, F.filterMap (leafAfter tock k now), doers)
  | 0, now, F, doers, _ => by simp [cycState, iterAdd, leafAfter]
  | k+1, now, F, doers, h => by
      rw [cycState, runCycle_flat pool now tock 0 F { doers := doers } h rfl]
      simp only [List.nil_append]
      rw [cycState_flat pool tock k (now + tock) _ doers (flatNext_plain now tock h), iterAdd_succ',
        filterMap_leafAfter_succ]

/-- the events of cycle `k` are the events of each doer taken on its own, in deque order -/
theorem cycle_events_flat (pool : List (Spec τ)) (tock : τ) (k : Nat) (now : τ) (F : List (RT τ)) (doers : List Id)
    (h : F.all RT.plainLeaf = true) :
    ∃ t D ds, cycState pool tock k now F doers = some (t, D, ds) ∧ t = iterAdd now tock k
      ∧ (runCycle pool t tock 0 D { doers := ds }).1 = flatEvs t tock D
      ∧ D = F.filterMap (leafAfter tock k now) := by
  refine ⟨_, _, _, cycState_flat pool tock k now F doers h, rfl, ?_, rfl⟩
  have hp : (F.filterMap (leafAfter tock k now)).all RT.plainLeaf = true := by
    clear doers
    induction k generalizing now F with
    | zero => simpa [leafAfter] using h
    | succ k ih =>
      rw [← filterMap_leafAfter_succ]
      exact ih (now + tock) _ (flatNext_plain now tock h)
  rw [runCycle_flat pool _ tock 0 _ { doers := doers } hp rfl]

/-- "never drifts / first cycle": a doer with due tyme `r` is left untouched — no event, same due tyme, same script —
through every cycle whose tyme has not reached `r` … -/
theorem waits_through (tock : τ) (i : Id) (r : τ) (s : List (Step τ)) :
    ∀ (j : Nat) (now : τ), (∀ m, m < j → ¬ r ≤ iterAdd now tock m) →
      leafAfter tock j now (.leaf i r s) = some (.leaf i r s) ∧ ∀ m, m < j → leafEvsAt tock m now (.leaf i r s) = []
  | 0, now, _ => ⟨rfl, fun m hm => absurd hm (Nat.not_lt_zero m)⟩
  | j+1, now, h => by
      have h0 : ¬ r ≤ now := h 0 (Nat.succ_pos j)
      have hstep : stepLeaf now tock (.leaf i r s) = ([], some (.leaf i r s)) := by simp [stepLeaf, h0]
      have ih := waits_through tock i r s j (now + tock) (fun m hm => by
        have := h (m+1) (Nat.succ_lt_succ hm)
        rwa [← iterAdd_succ'] at this)
      refine ⟨by simp only [leafAfter, hstep]; exact ih.1, fun m hm => ?_⟩
      cases m with
      | zero => simp [leafEvsAt, leafAfter, iterAdd, hstep]
      | succ m =>
        have := ih.2 m (Nat.lt_of_succ_lt_succ hm)
        simp only [leafEvsAt, leafAfter, hstep] at this ⊢
        rw [← iterAdd_succ']
        exact this

/-- … and is resumed in the FIRST cycle `j` whose tyme reaches `r` -/
theorem resumed_in_first_due_cycle (tock : τ) (i : Id) (r : τ) (s : List (Step τ)) (j : Nat) (now : τ)
    (hw : ∀ m, m < j → ¬ r ≤ iterAdd now tock m) (hd : r ≤ iterAdd now tock j)
    (hnr : ∀ x, (headStep s).1.out ≠ .raise x) :
    (leafEvsAt tock j now (.leaf i r s)).head? = some (ev i .recur (iterAdd now tock j)) := by
  have h1 := (waits_through tock i r s j now hw).1
  simp only [leafEvsAt, h1, stepLeaf, hd, if_true]
  cases ho : (headStep s).1.out with
  | raise x => exact absurd ho (hnr x)
  | ret v => rfl
  | yieldT t => rfl

end Hio.Sched
