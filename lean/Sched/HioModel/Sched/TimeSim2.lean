import HioModel.Sched.TimeFlatten
/-!
# C04, heterogeneous forests: transparent groups next to / inside / around KEPT DoDoers

`Sim2` extends `Sim` (TimeDefs) by DoDoers that are kept on both sides (`always` ones, or with a tock of their own).
A kept DoDoer is covered when it is resumed in EVERY cycle: its tock is `0` or the scheduler's `tock` — for any other tock
`g` the parent comes round at tymes that are not `tyme + g` and transparency really fails (known finding C04-K2,
witness `transparent_under_lagging_dodoer_fails`).  Each scheduler level carries the pair `(ns, fs)` of the tocks of the
scheduler that runs it on the nested and on the flat side: `ns = fs`, or `ns = 0` inside a transparent group.
-/
set_option linter.unusedSectionVars false
set_option linter.unusedSimpArgs false
namespace Hio.Sched
variable {τ : Type}
variable [Add τ] [LE τ] [DecidableRel (α := τ) (· ≤ ·)] [OfNat τ 0] [BEq τ]

/-- simulation between a nested forest `N` and its flattening `F` (both may hold kept DoDoers) before the cycle at `now` -/
inductive Sim2 (keep : Id → Bool) (tock : τ) (solid : Bool) (now : τ) : List (RT τ) → List (RT τ) → Prop
  | nil : Sim2 keep tock solid now [] []
  | leaf {i r r' s N F} : keep i = true → plainSteps s = true → g04 s = true → DueEq now r r' s →
      Sim2 keep tock solid now N F → Sim2 keep tock solid now (.leaf i r s :: N) (.leaf i r' s :: F)
  | tgroup {i rg pool doers deeds N F1 F2} : keep i = false → rg ≤ now → (solid = true → F1 ≠ []) →
      Sim2 keep tock solid now deeds F1 → Sim2 keep tock solid now N F2 →
      Sim2 keep tock solid now (.group i rg 0 false pool doers deeds :: N) (F1 ++ F2)
  | kgroup {i rg rg' g al pool dN dF deeds deedsF N F} : keep i = true → (g = 0 ∨ g = tock) → rg ≤ now → rg' ≤ now →
      Sim2 keep tock solid now deeds deedsF → Sim2 keep tock solid now N F →
      Sim2 keep tock solid now (.group i rg g al pool dN deeds :: N) (.group i rg' g al pool dF deedsF :: F)

/-- top-level leaves of a deque are op-free (groups are arbitrary) -/
def RT.plainTop : RT τ → Bool
  | .leaf _ _ s => plainSteps s
  | .group .. => true

/-- `runCycle` distributes over `++` when the first part's leaves are op-free and its pass does not raise -/
theorem runCycle_append (pool : List (Spec τ)) (now stock : τ) (sid : Id) (F2 : List (RT τ)) :
    ∀ (F1 : List (RT τ)) (c : Cyc τ), F1.all RT.plainTop = true → c.gone = [] →
      ∀ {e1 : List (Ev τ)} {c1 : Cyc τ}, runCycle pool now stock sid F1 c = (e1, [], c1, none) →
      runCycle pool now stock sid (F1 ++ F2) c
        = (e1 ++ (runCycle pool now stock sid F2 c1).1, (runCycle pool now stock sid F2 c1).2) := by
  intro F1
  induction F1 with
  | nil =>
    intro c _ _ e1 c1 h
    rw [runCycle] at h
    simp only [Prod.mk.injEq, true_and] at h
    obtain ⟨rfl, rfl, _⟩ := h
    simp
  | cons d F1 ih =>
    intro c hall hg e1 c1 h
    simp only [List.all_cons, Bool.and_eq_true] at hall
    obtain ⟨cpr, cdoers, cgone⟩ := c
    simp only at hg
    subst hg
    cases d with
    | leaf i r s =>
      have hp : plainSteps s = true := hall.1
      rw [runCycle_leaf_plain pool now stock sid i r s F1 _ hp (by simp)] at h
      simp only [List.cons_append]
      rw [runCycle_leaf_plain pool now stock sid i r s (F1 ++ F2) _ hp (by simp)]
      rcases hr : runCycle pool now stock sid F1 { pr := cpr ++ (stepLeaf now stock (.leaf i r s)).2.toList, doers := cdoers, gone := [] } with ⟨e, u, c', x⟩
      rw [hr] at h
      simp only [Prod.mk.injEq] at h
      obtain ⟨rfl, rfl, rfl, rfl⟩ := h
      rw [ih _ hall.2 rfl hr]
      simp [List.append_assoc]
    | group i r t al gp ds deeds =>
      simp only [List.cons_append]
      rw [runCycle.eq_def] at h ⊢
      simp only [RT.id, List.contains_nil, Bool.false_eq_true, if_false, RT.retyme] at h ⊢
      by_cases hd : r ≤ now
      · simp only [hd, if_true] at h ⊢
        rcases hgr : resumeGroup now (.group i r t al gp ds deeds) with ⟨eg, res⟩
        rw [hgr] at h
        cases res with
        | raised x => simp at h
        | finished =>
          simp only at h ⊢
          rcases hr : runCycle pool now stock sid F1 { pr := cpr, doers := cdoers, gone := [] } with ⟨e, u, c', x⟩
          rw [hr] at h
          simp only [Prod.mk.injEq] at h
          obtain ⟨rfl, rfl, rfl, rfl⟩ := h
          rw [ih _ hall.2 rfl hr]
          simp [List.append_assoc]
        | yielded rt tt =>
          simp only at h ⊢
          rcases hr : runCycle pool now stock sid F1 { pr := cpr ++ [rt.setRetyme (nextDue now stock r (some tt))], doers := cdoers, gone := [] } with ⟨e, u, c', x⟩
          rw [hr] at h
          simp only [Prod.mk.injEq] at h
          obtain ⟨rfl, rfl, rfl, rfl⟩ := h
          rw [ih _ hall.2 rfl hr]
          simp [List.append_assoc]
      · simp only [hd, if_false] at h ⊢
        rcases hr : runCycle pool now stock sid F1 { pr := cpr ++ [.group i r t al gp ds deeds], doers := cdoers, gone := [] } with ⟨e, u, c', x⟩
        rw [hr] at h
        simp only [Prod.mk.injEq] at h
        obtain ⟨rfl, rfl, rfl, rfl⟩ := h
        rw [ih _ hall.2 rfl hr]

theorem Sim2.flat_plainTop {keep : Id → Bool} {tock : τ} {b : Bool} {now : τ} {N F : List (RT τ)}
    (h : Sim2 keep tock b now N F) : F.all RT.plainTop = true := by
  induction h with
  | nil => rfl
  | leaf _ hp _ _ _ ih => simp [RT.plainTop, hp, ih]
  | tgroup _ _ _ _ _ ih1 ih2 => simp [List.all_append, ih1, ih2]
  | kgroup _ _ _ _ _ _ _ ih2 => simp [RT.plainTop, ih2]

theorem Sim2.nil_left {keep : Id → Bool} {tock : τ} {b : Bool} {now : τ} {F : List (RT τ)} (h : Sim2 keep tock b now [] F) : F = [] := by
  cases h; rfl

theorem Sim2.ne_nil {keep : Id → Bool} {tock : τ} {now : τ} {N F : List (RT τ)} (h : Sim2 keep tock true now N F) (hN : N ≠ []) : F ≠ [] := by
  cases h with
  | nil => exact absurd rfl hN
  | leaf => simp
  | tgroup _ _ hs _ _ => intro e; exact hs rfl (List.append_eq_nil_iff.mp e).1
  | kgroup => simp

theorem Sim2.nil_iff {keep : Id → Bool} {tock : τ} {now : τ} {N F : List (RT τ)} (h : Sim2 keep tock true now N F) : N = [] ↔ F = [] := by
  constructor
  · intro e; subst e; exact h.nil_left
  · intro e
    cases hN : N with
    | nil => rfl
    | cons d ds => exact absurd e (h.ne_nil (by simp [hN]))

/-- a DoDoer (any tock, any `always`) at the head of the unvisited deeds whose own pass does not raise -/
theorem runCycle_group_ok (pool gpool : List (Spec τ)) (now stock rg g : τ) (al : Bool) (sid i : Id) (doers : List Id)
    (deeds un : List (RT τ)) (c : Cyc τ) (es1 : List (Ev τ)) (N1 : List (RT τ)) (hrg : rg ≤ now) (hg : c.gone = [])
    (hin : runCycle gpool now g i deeds { doers := doers } = (es1, [], { pr := N1, doers := doers, gone := [] }, none)) :
    runCycle pool now stock sid (.group i rg g al gpool doers deeds :: un) c =
      if (!N1.isEmpty || al) = true then
        ([ev i .recur now] ++ es1 ++ [ev i (.flag N1.isEmpty) now]
            ++ (runCycle pool now stock sid un
                  { c with pr := c.pr ++ [.group i (nextDue now stock rg (some g)) g al gpool doers N1] }).1,
         (runCycle pool now stock sid un
                  { c with pr := c.pr ++ [.group i (nextDue now stock rg (some g)) g al gpool doers N1] }).2)
      else
        ([ev i .recur now] ++ es1 ++ [ev i (.flag N1.isEmpty) now] ++ [ev i .clean now, ev i .exit now, ev i .exitEnd now]
            ++ [ev i (.flag true) now] ++ (runCycle pool now stock sid un c).1,
         (runCycle pool now stock sid un c).2) := by
  rw [runCycle.eq_def]
  simp only [RT.id, hg, List.contains_nil, Bool.false_eq_true, if_false, RT.retyme, hrg, if_true]
  rw [resumeGroup, hin]
  by_cases hb : (!N1.isEmpty || al) = true
  · simp [hb, RT.setRetyme]
  · simp [hb]

section laws
variable [LawfulTyme τ]

theorem DueEq.next2 {tock now ns fs r r' : τ} {st : Step τ} {rest : List (Step τ)} {t : Option τ}
    (h0 : 0 ≤ tock) (hns : ns = fs ∨ ns = 0) (hfs : fs = tock ∨ fs = 0)
    (h : DueEq now r r' (st :: rest)) (hg : g04 (st :: rest) = true) (ho : st.out = .yieldT t) :
    DueEq (now + tock) (nextDue now ns r t) (nextDue now fs r' t) rest := by
  obtain ⟨_, hrest⟩ := g04_after_yield hg ho
  have hle : ∀ x, (x = tock ∨ x = 0) → now + x ≤ now + tock := by
    intro x hx
    rcases hx with e | e
    · rw [e]; exact LawfulTyme.le_refl _
    · rw [e, LawfulTyme.add_zero]; exact LawfulTyme.le_add now tock h0
  unfold nextDue
  by_cases ha : asap t = true
  · simp only [ha, if_true]
    rcases hns with e | e
    · left; rw [e]
    · right
      exact ⟨hle ns (Or.inr e), hle fs hfs, hrest ha⟩
  · simp only [ha]
    rcases h with e | ⟨_, _, hall⟩
    · left; rw [e]; simp
    · exact absurd (allAsap_head hall ho) ha

theorem stepLeaf_sim2 {keep : Id → Bool} {tock : τ} (h0 : 0 ≤ tock) {now ns fs r r' : τ} {i : Id} {s : List (Step τ)}
    (hns : ns = fs ∨ ns = 0) (hfs : fs = tock ∨ fs = 0)
    (hk : keep i = true) (hp : plainSteps s = true) (hg : g04 s = true) (hd : DueEq now r r' s) :
    (stepLeaf now ns (.leaf i r s)).1 = (stepLeaf now fs (.leaf i r' s)).1 ∧
    ∀ N2 F2, Sim2 keep tock true (now + tock) N2 F2 →
      Sim2 keep tock true (now + tock) ((stepLeaf now ns (.leaf i r s)).2.toList ++ N2)
        ((stepLeaf now fs (.leaf i r' s)).2.toList ++ F2) := by
  obtain ⟨hops, hnr, hprest⟩ := headStep_plain hp
  have hdue := hd.due_iff
  by_cases hr : r ≤ now
  · have hr' : r' ≤ now := hdue.mp hr
    cases ho : (headStep s).1.out with
    | raise x => exact absurd ho (hnr x)
    | ret v =>
      refine ⟨by simp [stepLeaf, hr, hr', ho], fun N2 F2 h2 => ?_⟩
      simpa [stepLeaf, hr, hr', ho] using h2
    | yieldT t =>
      refine ⟨by simp [stepLeaf, hr, hr', ho], fun N2 F2 h2 => ?_⟩
      simp only [stepLeaf, hr, hr', ho, if_true, Option.toList, List.singleton_append]
      cases hs : s with
      | nil => simp [hs, headStep] at ho
      | cons st rest =>
        simp only [hs, headStep] at ho hprest ⊢
        rw [hs] at hg hd
        exact Sim2.leaf hk hprest (g04_after_yield hg ho).1 (DueEq.next2 h0 hns hfs hd hg ho) h2
  · have hr' : ¬ r' ≤ now := fun x => hr (hdue.mpr x)
    refine ⟨by simp [stepLeaf, hr, hr'], fun N2 F2 h2 => ?_⟩
    simp only [stepLeaf, hr, hr', if_false, Option.toList, List.singleton_append]
    refine Sim2.leaf hk hp hg ?_ h2
    rcases hd with e | ⟨x, _, _⟩
    · exact Or.inl e
    · exact absurd x hr

/-- ONE CYCLE, both sides: the nested forest under a scheduler with tock `ns`, its flattening under one with tock `fs` -/
theorem Sim2.cycle {keep : Id → Bool} {tock : τ} (h0 : 0 ≤ tock) {b : Bool} {now : τ} {N F : List (RT τ)}
    (h : Sim2 keep tock b now N F) :
    ∀ (poolN poolF : List (Spec τ)) (ns fs : τ) (sidN sidF : Id) (cN cF : Cyc τ),
      (ns = fs ∨ ns = 0) → (fs = tock ∨ fs = 0) → cN.gone = [] → cF.gone = [] →
      ∃ esN esF N' F', runCycle poolN now ns sidN N cN = (esN, [], { cN with pr := cN.pr ++ N' }, none)
        ∧ runCycle poolF now fs sidF F cF = (esF, [], { cF with pr := cF.pr ++ F' }, none)
        ∧ keepView keep esN = keepView keep esF
        ∧ Sim2 keep tock true (now + tock) N' F' := by
  induction h with
  | nil =>
    intro poolN poolF ns fs sidN sidF cN cF _ _ _ _
    exact ⟨[], [], [], [], by rw [runCycle]; simp, by rw [runCycle]; simp, rfl, Sim2.nil⟩
  | @leaf i r r' s N F hk hp hg hd hsim ih =>
    intro poolN poolF ns fs sidN sidF cN cF hns hfs hgN hgF
    rw [runCycle_leaf_plain poolN now ns sidN i r s N cN hp (by simp [hgN]),
      runCycle_leaf_plain poolF now fs sidF i r' s F cF hp (by simp [hgF])]
    obtain ⟨hev, hnext⟩ := stepLeaf_sim2 (keep := keep) h0 hns hfs hk hp hg hd
    obtain ⟨es2, ef2, N2, F2, hrunN, hrunF, hview, hs2⟩ :=
      ih poolN poolF ns fs sidN sidF { cN with pr := cN.pr ++ (stepLeaf now ns (.leaf i r s)).2.toList }
        { cF with pr := cF.pr ++ (stepLeaf now fs (.leaf i r' s)).2.toList } hns hfs hgN hgF
    refine ⟨(stepLeaf now ns (.leaf i r s)).1 ++ es2, (stepLeaf now fs (.leaf i r' s)).1 ++ ef2,
      (stepLeaf now ns (.leaf i r s)).2.toList ++ N2, (stepLeaf now fs (.leaf i r' s)).2.toList ++ F2, ?_, ?_, ?_, ?_⟩
    · rw [hrunN]; simp [List.append_assoc]
    · rw [hrunF]; simp [List.append_assoc]
    · rw [keepView_append, keepView_append, hview, hev]
    · exact hnext N2 F2 hs2
  | @tgroup i rg gpool doers deeds N F1 F2 hk hrg hsolid hs1 hs2 ih1 ih2 =>
    intro poolN poolF ns fs sidN sidF cN cF hns hfs hgN hgF
    obtain ⟨es1, ef1, N1, F1', hrun1, hrunF1, hview1, hsim1⟩ :=
      ih1 gpool poolF 0 fs i sidF { doers := doers } cF (Or.inr rfl) hfs rfl hgF
    simp only [List.nil_append] at hrun1
    have hdueg : nextDue now ns rg (some 0) ≤ now + tock := by
      simp only [nextDue, asap_zero, if_true]
      rcases hns with e | e
      · rw [e]
        rcases hfs with e2 | e2
        · rw [e2]; exact LawfulTyme.le_refl _
        · rw [e2, LawfulTyme.add_zero]; exact LawfulTyme.le_add now tock h0
      · rw [e, LawfulTyme.add_zero]; exact LawfulTyme.le_add now tock h0
    have hgev : ∀ (k : Kind), keepView keep [ev i k now] = [] := fun k => by simp [keepView, ev, hk]
    have happ := runCycle_append poolF now fs sidF F2 F1 cF (hs1.flat_plainTop) hgF hrunF1
    cases hN1 : N1 with
    | nil =>
      subst hN1
      have hF1 : F1' = [] := hsim1.nil_left
      subst hF1
      obtain ⟨es2, ef2, N2, F2', hrun2, hrunF2, hview2, hsim2⟩ := ih2 poolN poolF ns fs sidN sidF cN cF hns hfs hgN hgF
      refine ⟨[ev i .recur now] ++ es1 ++ [ev i (.flag true) now] ++ [ev i .clean now, ev i .exit now, ev i .exitEnd now]
          ++ [ev i (.flag true) now] ++ es2, ef1 ++ ef2, N2, F2', ?_, ?_, ?_, hsim2⟩
      · rw [runCycle_group_done poolN gpool now ns rg sidN i doers deeds N cN es1 hrg hgN hrun1, hrun2]
      · rw [happ]
        simp only [List.append_nil]
        rw [show ({ cF with pr := cF.pr } : Cyc τ) = cF from rfl, hrunF2]
      · simp only [keepView_append, hgev, hview1, hview2, List.nil_append, List.append_nil]
        simp [keepView, ev, hk]
    | cons d ds =>
      subst hN1
      obtain ⟨es2, ef2, N2, F2', hrun2, hrunF2, hview2, hsim2⟩ :=
        ih2 poolN poolF ns fs sidN sidF
          { cN with pr := cN.pr ++ [.group i (nextDue now ns rg (some 0)) 0 false gpool doers (d :: ds)] }
          { cF with pr := cF.pr ++ F1' } hns hfs hgN hgF
      refine ⟨[ev i .recur now] ++ es1 ++ [ev i (.flag false) now] ++ es2, ef1 ++ ef2,
        .group i (nextDue now ns rg (some 0)) 0 false gpool doers (d :: ds) :: N2, F1' ++ F2', ?_, ?_, ?_, ?_⟩
      · rw [runCycle_group_live poolN gpool now ns rg sidN i doers deeds N cN es1 d ds hrg hgN hrun1, hrun2]
        simp [List.append_assoc]
      · rw [happ, hrunF2]; simp [List.append_assoc]
      · simp only [keepView_append, hgev, hview1, hview2, List.nil_append, List.append_nil]
      · exact Sim2.tgroup hk hdueg (fun _ => hsim1.ne_nil (by simp)) hsim1 hsim2
  | @kgroup i rg rg' g al gpool dN dF deeds deedsF N F hk hgt hrg hrg' hs1 hs2 ih1 ih2 =>
    intro poolN poolF ns fs sidN sidF cN cF hns hfs hgN hgF
    obtain ⟨es1, ef1, N1, F1, hrun1, hrunF1, hview1, hsim1⟩ :=
      ih1 gpool gpool g g i i { doers := dN } { doers := dF } (Or.inl rfl) (hgt.symm) rfl rfl
    simp only [List.nil_append] at hrun1 hrunF1
    have hle : ∀ x, (x = tock ∨ x = 0) → now + x ≤ now + tock := by
      intro x hx
      rcases hx with e | e
      · rw [e]; exact LawfulTyme.le_refl _
      · rw [e, LawfulTyme.add_zero]; exact LawfulTyme.le_add now tock h0
    have hnsT : ns = tock ∨ ns = 0 := by
      rcases hns with e | e
      · rw [e]; exact hfs
      · exact Or.inr e
    have hdue : ∀ (st r0 : τ), (st = tock ∨ st = 0) → r0 ≤ now → nextDue now st r0 (some g) ≤ now + tock := by
      intro st r0 hst hr0
      unfold nextDue
      by_cases ha : asap (some g) = true
      · simp only [ha, if_true]; exact hle st hst
      · simp only [ha]
        rcases hgt with e | e
        · exact absurd (by rw [e]; exact asap_zero) ha
        · rw [e]; exact LawfulTyme.add_le_add _ _ _ hr0
    have hemp : N1.isEmpty = F1.isEmpty := by
      have := hsim1.nil_iff
      cases N1 <;> cases F1 <;> simp_all
    rw [runCycle_group_ok poolN gpool now ns rg g al sidN i dN deeds N cN es1 N1 hrg hgN hrun1,
      runCycle_group_ok poolF gpool now fs rg' g al sidF i dF deedsF F cF ef1 F1 hrg' hgF hrunF1, hemp]
    by_cases hb : (!F1.isEmpty || al) = true
    · simp only [hb, if_true]
      obtain ⟨es2, ef2, N2, F2', hrun2, hrunF2, hview2, hsim2⟩ :=
        ih2 poolN poolF ns fs sidN sidF
          { cN with pr := cN.pr ++ [.group i (nextDue now ns rg (some g)) g al gpool dN N1] }
          { cF with pr := cF.pr ++ [.group i (nextDue now fs rg' (some g)) g al gpool dF F1] } hns hfs hgN hgF
      refine ⟨[ev i .recur now] ++ es1 ++ [ev i (.flag F1.isEmpty) now] ++ es2,
        [ev i .recur now] ++ ef1 ++ [ev i (.flag F1.isEmpty) now] ++ ef2,
        .group i (nextDue now ns rg (some g)) g al gpool dN N1 :: N2,
        .group i (nextDue now fs rg' (some g)) g al gpool dF F1 :: F2', ?_, ?_, ?_, ?_⟩
      · rw [hrun2]; simp [List.append_assoc]
      · rw [hrunF2]; simp [List.append_assoc]
      · simp only [keepView_append, hview1, hview2]
      · exact Sim2.kgroup hk hgt (hdue ns rg hnsT hrg) (hdue fs rg' hfs hrg') hsim1 hsim2
    · simp only [hb]
      obtain ⟨es2, ef2, N2, F2', hrun2, hrunF2, hview2, hsim2⟩ := ih2 poolN poolF ns fs sidN sidF cN cF hns hfs hgN hgF
      refine ⟨[ev i .recur now] ++ es1 ++ [ev i (.flag F1.isEmpty) now] ++ [ev i .clean now, ev i .exit now, ev i .exitEnd now]
            ++ [ev i (.flag true) now] ++ es2,
        [ev i .recur now] ++ ef1 ++ [ev i (.flag F1.isEmpty) now] ++ [ev i .clean now, ev i .exit now, ev i .exitEnd now]
            ++ [ev i (.flag true) now] ++ ef2, N2, F2', ?_, ?_, ?_, hsim2⟩
      · rw [hrun2]; simp
      · rw [hrunF2]; simp
      · simp only [keepView_append, hview1, hview2]

end laws
end Hio.Sched
