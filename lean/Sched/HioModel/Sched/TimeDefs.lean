import HioModel.Sched.TimeModel
import HioModel.Sched.Defs
/-!
# Vocabulary for C03 / C04: time laws, scripts, the flat one-cycle semantics, the simulation relation

* `LawfulTyme τ` — the arithmetic the timing theorems use.  Instances are PROVED for `Nat` and `Int`.
  `Float` is never given an instance: that IEEE doubles satisfy these laws on the finite non-NaN values a run
  uses is an assumption of the correspondence, not of any theorem.
* `stepLeaf`, `flatEvs`, `flatNext` — what one cycle does to ONE op-free leaf, independently of all others;
  `runCycle_flat` (TimeFlat.lean) shows `runCycle` on a list of such leaves is exactly the map of `stepLeaf`.
* `g04` — guard G04 of pre-finding F46: a script yields in the pattern `positive* asap*` (once asap, always asap).
* `Flattens p q` — `q` is `p` with every transparent DoDoer (`tock = 0`, not `always`) spliced away (static);
  `Sim now N F` — the same for run-time forests, with due tymes related by *due-equivalence* (DESIGN Appendix A.2).
-/
namespace Hio.Sched
variable {τ : Type}

/-- laws of the time type used by the timing theorems -/
class LawfulTyme (τ : Type) [Add τ] [LE τ] [OfNat τ 0] [BEq τ] : Prop where
  add_zero : ∀ a : τ, a + 0 = a
  le_refl : ∀ a : τ, a ≤ a
  le_trans : ∀ a b c : τ, a ≤ b → b ≤ c → a ≤ c
  le_total : ∀ a b : τ, a ≤ b ∨ b ≤ a
  le_add : ∀ a t : τ, 0 ≤ t → a ≤ a + t
  add_le_add : ∀ a b t : τ, a ≤ b → a + t ≤ b + t
  /-- `not tock` of the code is `tock == 0`; the model's `BEq` agrees with equality at zero -/
  beq_zero : ∀ a : τ, (a == 0) = true ↔ a = 0

instance : LawfulTyme Nat where
  add_zero := Nat.add_zero
  le_refl := Nat.le_refl
  le_trans := fun _ _ _ => Nat.le_trans
  le_total := Nat.le_total
  le_add := fun a t _ => Nat.le_add_right a t
  add_le_add := fun _ _ t h => Nat.add_le_add_right h t
  beq_zero := fun a => by simp

instance : LawfulTyme Int where
  add_zero := Int.add_zero
  le_refl := Int.le_refl
  le_trans := fun _ _ _ => Int.le_trans
  le_total := Int.le_total
  le_add := fun a t h => by omega
  add_le_add := fun a b t h => by omega
  beq_zero := fun a => by simp

instance : LawfulTyme Rat where
  add_zero := Rat.add_zero
  le_refl := fun _ => Rat.le_refl
  le_trans := fun _ _ _ => Rat.le_trans
  le_total := fun _ _ => Rat.le_total
  le_add := fun a t h => by
    have := (Rat.add_le_add_left (c := a)).mpr h
    rwa [Rat.add_zero] at this
  add_le_add := fun _ _ _ h => Rat.add_le_add_right.mpr h
  beq_zero := fun a => by simp

/-! ### IEEE doubles and these laws (an ASSUMPTION of the correspondence, stated here so that it is explicit)

`Float` is opaque in Lean, so nothing below is a theorem.  For binary64 with round-to-nearest:
* `add_zero` holds for every non-NaN `a` up to the sign of zero (`-0.0 + 0 = +0.0`, equal under `==`);
* `le_refl`, `le_trans`, `le_total` hold for all non-NaN values (NaN is the only double not `≤` itself);
* `le_add` (`0 ≤ t → a ≤ a + t`) and `add_le_add` (`a ≤ b → a + t ≤ b + t`) hold for all finite operands whose sums do not
  overflow: rounding is monotone and `a` itself is representable — they do NOT need `+` to be exact or associative;
* `beq_zero`: `(a == 0) = true → a = 0` fails for `a = -0.0` only (the code's `not tock` treats `-0.0` as asap, as `==` does).
What doubles DO violate — associativity, `(a + t) - t = a`, `k·tock = tock + … + tock` — is used by NO theorem of C03/C04:
`tick_exact` is stated with the iterated abstract `+` precisely for that reason.  So the assumption is: every tyme, tock,
limit and yielded value of a run is finite and not NaN, no sum overflows, and no tock is `-0.0`.  Which law each theorem
uses is listed in `notes/SchedT.md`. -/

/-! ### projections of a trace -/

/-- ids of the `recur` events, in trace order -/
def recurIds (evs : List (Ev τ)) : List Id :=
  (evs.filter (fun e => e.kind == .recur)).map Ev.id

/-- tymes at which doer `i` was resumed -/
def recurTymes (i : Id) (evs : List (Ev τ)) : List τ :=
  (evs.filter (fun e => e.id == i && e.kind == .recur)).map Ev.tyme

/-- the part of a trace C04 compares: events of the doers `keep` selects (all leaves, no spliced group) -/
def keepView (keep : Id → Bool) (evs : List (Ev τ)) : List (Ev τ) := evs.filter (fun e => keep e.id)

section sem
variable [Add τ] [LE τ] [DecidableRel (α := τ) (· ≤ ·)] [OfNat τ 0] [BEq τ]

/-- state `(tyme, deque, doers)` before cycle `k` of the Doist; `none` when an earlier cycle raised -/
def cycState (pool : List (Spec τ)) (tock : τ) : Nat → τ → List (RT τ) → List Id → Option (τ × List (RT τ) × List Id)
  | 0, now, deeds, doers => some (now, deeds, doers)
  | k+1, now, deeds, doers =>
      match runCycle pool now tock 0 deeds { doers := doers } with
      | (_, _, c, none) => cycState pool tock k (now + tock) c.pr c.doers
      | (_, _, _, some _) => none

/-! ### scripts -/

/-- a step without scheduler ops that does not raise -/
def Step.plain (s : Step τ) : Bool :=
  s.ops.isEmpty && (match s.out with | .raise _ => false | _ => true)
def plainSteps (l : List (Step τ)) : Bool := l.all Step.plain

def Step.asapOrRet (s : Step τ) : Bool :=
  match s.out with | .yieldT t => asap t | _ => true
/-- every yield of the remaining script is asap (0 or None) -/
def allAsap (l : List (Step τ)) : Bool := l.all Step.asapOrRet

/-- guard G04: yields follow the pattern `positive* asap*` -/
def g04 : List (Step τ) → Bool
  | [] => true
  | s :: rest =>
      match s.out with
      | .yieldT t => if asap t then allAsap rest else g04 rest
      | _ => true

/-! ### one cycle of one op-free leaf -/

/-- what a cycle at `now` of a scheduler with tock `stock` does to one live leaf: events, and the deed it leaves -/
def stepLeaf (now stock : τ) : RT τ → List (Ev τ) × Option (RT τ)
  | .leaf i r steps =>
      if r ≤ now then
        match (headStep steps).1.out with
        | .yieldT t => ([ev i .recur now], some (.leaf i (nextDue now stock r t) (headStep steps).2))
        | .ret v => ([ev i .recur now, ev i .clean now, ev i .exit now] ++ flagEvs i v now, none)
        | .raise _ => ([], none)
      else ([], some (.leaf i r steps))
  | g => ([], some g)

def flatEvs (now stock : τ) (F : List (RT τ)) : List (Ev τ) := F.flatMap (fun d => (stepLeaf now stock d).1)
def flatNext (now stock : τ) (F : List (RT τ)) : List (RT τ) := F.filterMap (fun d => (stepLeaf now stock d).2)

/-- the tymes at which a leaf with due tyme `r` and script `steps` is resumed during the next `n` cycles
`now, now+tock, …` of a scheduler with tock `tock` — a function of its own script only -/
def sched (tock : τ) : Nat → τ → τ → List (Step τ) → List τ
  | 0, _, _, _ => []
  | n+1, now, r, steps =>
      if r ≤ now then
        match (headStep steps).1.out with
        | .yieldT t => now :: sched tock n (now + tock) (nextDue now tock r t) (headStep steps).2
        | _ => [now]
      else sched tock n (now + tock) r steps

/-! ### flattening, statically and at run time -/

/-- `q` is `p` with every transparent group spliced away.  `keep` selects the ids C04 observes:
every leaf, no spliced group. -/
inductive Flattens (keep : Id → Bool) : List (Spec τ) → List (Spec τ) → Prop
  | nil : Flattens keep [] []
  | leaf {i act steps p q} : keep i = true → plainSteps steps = true →
      (match act with | .fail => False | _ => True) →
      Flattens keep p q → Flattens keep (.leaf i act steps :: p) (.leaf i act steps :: q)
  | group {i pool kids p q1 q2} : keep i = false →
      Flattens keep kids q1 → Flattens keep p q2 →
      Flattens keep (.group i 0 false kids pool :: p) (q1 ++ q2)

/-- due-equivalence of a nested due tyme `r` and a flat one `r'` for a leaf with remaining script `s`, seen from
the cycle at `now`: equal, or both already due and never again consulted except by the due test
(the script only yields asap from here on) -/
def DueEq (now r r' : τ) (s : List (Step τ)) : Prop :=
  r = r' ∨ (r ≤ now ∧ r' ≤ now ∧ allAsap s = true)

/-- simulation relation between a nested run-time forest `N` and a flat deque `F` at the cycle with tyme `now`.
`solid = true` additionally says that every group holds at least one leaf (true after the first cycle). -/
inductive Sim (keep : Id → Bool) (solid : Bool) (now : τ) : List (RT τ) → List (RT τ) → Prop
  | nil : Sim keep solid now [] []
  | leaf {i r r' s N F} : keep i = true → plainSteps s = true → g04 s = true → DueEq now r r' s →
      Sim keep solid now N F → Sim keep solid now (.leaf i r s :: N) (.leaf i r' s :: F)
  | group {i rg pool doers deeds N F1 F2} : keep i = false → rg ≤ now → (solid = true → F1 ≠ []) →
      Sim keep solid now deeds F1 → Sim keep solid now N F2 →
      Sim keep solid now (.group i rg 0 false pool doers deeds :: N) (F1 ++ F2)

end sem
end Hio.Sched
