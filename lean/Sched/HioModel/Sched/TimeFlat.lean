import HioModel.Sched.TimeDefs
/-! One cycle on op-free leaves is the map of `stepLeaf` (each doer's evolution is independent of the others). -/
set_option linter.unusedSectionVars false
set_option linter.unusedSimpArgs false
namespace Hio.Sched
variable {τ : Type}
variable [Add τ] [LE τ] [DecidableRel (α := τ) (· ≤ ·)] [OfNat τ 0] [BEq τ]

theorem plainSteps_cons {st : Step τ} {rest : List (Step τ)} (h : plainSteps (st :: rest) = true) :
    st.ops = [] ∧ (∀ x, st.out ≠ .raise x) ∧ plainSteps rest = true := by
  simp only [plainSteps, List.all_cons, Bool.and_eq_true, Step.plain, List.isEmpty_iff] at h
  refine ⟨h.1.1, ?_, h.2⟩
  intro x hx
  rw [hx] at h
  exact absurd h.1.2 (by simp)

theorem headStep_plain {s : List (Step τ)} (h : plainSteps s = true) :
    (headStep s).1.ops = [] ∧ (∀ x, (headStep s).1.out ≠ .raise x) ∧ plainSteps (headStep s).2 = true := by
  cases s with
  | nil => exact ⟨rfl, fun x hx => by simp [headStep] at hx, rfl⟩
  | cons st rest => exact plainSteps_cons h

/-- one step of `runCycle` on a plain leaf at the head of the unvisited deeds -/
theorem runCycle_leaf_plain (pool : List (Spec τ)) (now stock : τ) (sid : Id) (i : Id) (r : τ) (s : List (Step τ))
    (un : List (RT τ)) (c : Cyc τ) (hp : plainSteps s = true) (hg : c.gone.contains i = false) :
    runCycle pool now stock sid (.leaf i r s :: un) c =
      ((stepLeaf now stock (.leaf i r s)).1
          ++ (runCycle pool now stock sid un { c with pr := c.pr ++ (stepLeaf now stock (.leaf i r s)).2.toList }).1,
       (runCycle pool now stock sid un { c with pr := c.pr ++ (stepLeaf now stock (.leaf i r s)).2.toList }).2) := by
  obtain ⟨hops, hnr, _⟩ := headStep_plain hp
  rw [runCycle.eq_def]
  simp only [RT.id, hg, Bool.false_eq_true, if_false, RT.retyme, stepLeaf]
  by_cases hd : r ≤ now
  · simp only [hd, if_true, hops, applyOps]
    cases ho : (headStep s).1.out with
    | raise x => exact absurd ho (hnr x)
    | ret v => simp [List.append_assoc]
    | yieldT t => simp
  · simp [hd]

/-- a live leaf whose remaining script is op-free and does not raise -/
def RT.plainLeaf : RT τ → Bool
  | .leaf _ _ s => plainSteps s
  | _ => false

theorem flatEvs_cons (now stock : τ) (d : RT τ) (F : List (RT τ)) :
    flatEvs now stock (d :: F) = (stepLeaf now stock d).1 ++ flatEvs now stock F := by
  simp [flatEvs]

theorem flatNext_cons (now stock : τ) (d : RT τ) (F : List (RT τ)) :
    flatNext now stock (d :: F) = (stepLeaf now stock d).2.toList ++ flatNext now stock F := by
  simp only [flatNext, List.filterMap_cons]
  cases (stepLeaf now stock d).2 <;> simp

theorem flatEvs_append (now stock : τ) (A B : List (RT τ)) :
    flatEvs now stock (A ++ B) = flatEvs now stock A ++ flatEvs now stock B := by
  simp [flatEvs]

theorem flatNext_append (now stock : τ) (A B : List (RT τ)) :
    flatNext now stock (A ++ B) = flatNext now stock A ++ flatNext now stock B := by
  simp [flatNext]

/-- `runCycle` on a deque of plain leaves: every leaf is stepped independently, nobody raises -/
theorem runCycle_flat (pool : List (Spec τ)) (now stock : τ) (sid : Id) :
    ∀ (F : List (RT τ)) (c : Cyc τ), F.all RT.plainLeaf = true → c.gone = [] →
      runCycle pool now stock sid F c
        = (flatEvs now stock F, [], { c with pr := c.pr ++ flatNext now stock F }, none) := by
  intro F
  induction F with
  | nil => intro c _ _; rw [runCycle]; simp [flatEvs, flatNext]
  | cons d F ih =>
    intro c hall hg
    simp only [List.all_cons, Bool.and_eq_true] at hall
    cases d with
    | group => exact absurd hall.1 (by simp [RT.plainLeaf])
    | leaf i r s =>
      have hp : plainSteps s = true := hall.1
      rw [runCycle_leaf_plain pool now stock sid i r s F c hp (by simp [hg])]
      rw [ih { c with pr := c.pr ++ (stepLeaf now stock (RT.leaf i r s)).2.toList } hall.2 hg]
      simp [flatEvs_cons, flatNext_cons, List.append_assoc]

end Hio.Sched
