import HioModel.Sched.LemmasC06
import HioModel.Sched.TimeDefs
/-!
# Helpers for C06, part b: a due deed left of the marker is resumed
(uses `LawfulTyme` of TimeDefs for the Doist corollary only)
-/
namespace Hio.Sched
variable {τ : Type}

/-! ### `gone` only grows -/

theorem extendList_gone (pool : List (Spec τ)) (now : τ) (ks : List Nat) (c : Cyc τ) :
    (extendList pool now ks c).2.1.gone = c.gone :=
  (extendList_pr pool now ks c (es := (extendList pool now ks c).1) (c' := (extendList pool now ks c).2.1)
    (b := (extendList pool now ks c).2.2) rfl).1

theorem applyOps_gone_mono (pool : List (Spec τ)) (now : τ) (sid : Id) (un : List (RT τ)) (ops : List Op) (c : Cyc τ)
    (j : Id) : j ∈ c.gone → j ∈ (applyOps pool now sid un ops c).2.1.gone := by
  fun_induction applyOps pool now sid un ops c with
  | case1 c => exact id
  | case2 ks ops c e c1 he =>
      intro hj
      have := extendList_gone pool now ks c; rw [he] at this
      simp only at this ⊢; rw [this]; exact hj
  | case3 ks ops c e c1 he e2 c2 b h2 ih =>
      intro hj
      have := extendList_gone pool now ks c; rw [he] at this
      simp only at this
      rw [h2] at ih
      exact ih (by rw [this]; exact hj)
  | case4 ids ops c e c1 he e2 c2 b h2 ih =>
      intro hj
      rw [h2] at ih
      apply ih
      rw [removeOp_eq, Prod.mk.injEq] at he
      rw [← he.2]
      exact List.mem_append_left _ hj

section cyc
variable [Add τ] [LE τ] [DecidableRel (α := τ) (· ≤ ·)] [OfNat τ 0] [BEq τ]

theorem resumeGroup_head (now : τ) (i : Id) (r tock : τ) (always : Bool) (pool : List (Spec τ)) (doers : List Id)
    (deeds : List (RT τ)) :
    ∃ rest, (resumeGroup now (.group i r tock always pool doers deeds)).1 = ev i .recur now :: rest := by
  rw [resumeGroup]
  rcases runCycle pool now tock i deeds { doers := doers } with ⟨es, un, c, x⟩
  cases x with
  | some x => (simp only [List.cons_append, List.nil_append]; exact ⟨_, rfl⟩)
  | none =>
      simp only
      split <;> (simp only [List.cons_append, List.nil_append]; exact ⟨_, rfl⟩)

/-- a due deed that is visited (its id was not closed by a `remove` earlier in the cycle) is resumed first thing -/
theorem runCycle_head_recur (pool : List (Spec τ)) (now stock : τ) (sid : Id) (d : RT τ) (un : List (RT τ)) (c : Cyc τ)
    (hdue : d.retyme ≤ now) (hg : c.gone.contains d.id = false) :
    ∃ rest, (runCycle pool now stock sid (d :: un) c).1 = ev d.id .recur now :: rest := by
  cases d with
  | leaf i r steps =>
      simp only [RT.id, RT.retyme] at hdue hg
      rw [runCycle.eq_def]
      simp only [RT.id, RT.retyme, hg, hdue, Bool.false_eq_true, if_false, if_true]
      generalize applyOps pool now sid un (headStep steps).fst.ops c = A
      generalize (if A.2.2 = true then Out.raise Exn.err else (headStep steps).1.out) = out
      cases out <;> (simp only [List.cons_append, List.nil_append]; exact ⟨_, rfl⟩)
  | group i r tock always gpool doers deeds =>
      simp only [RT.id, RT.retyme] at hdue hg
      obtain ⟨rest, hr⟩ := resumeGroup_head now i r tock always gpool doers deeds
      rw [runCycle.eq_def]
      simp only [RT.id, RT.retyme, hg, hdue, Bool.false_eq_true, if_false, if_true]
      rcases hgq : resumeGroup now (.group i r tock always gpool doers deeds) with ⟨eg, res⟩
      rw [hgq] at hr
      simp only at hr
      subst hr
      cases res <;> (simp only [List.cons_append]; exact ⟨_, rfl⟩)

/-- ids closed by `remove` stay closed for the rest of the cycle -/
theorem runCycle_gone_mono (pool : List (Spec τ)) (now stock : τ) (sid : Id) (j : Id) :
    ∀ (un : List (RT τ)) (c : Cyc τ), j ∈ c.gone → j ∈ (runCycle pool now stock sid un c).2.2.1.gone
  | [], c => by rw [runCycle]; exact id
  | .leaf i r steps :: un, c => by
      intro hj
      have ih := runCycle_gone_mono pool now stock sid j un
      rw [runCycle.eq_def]
      simp only
      split
      · exact ih c hj
      · split
        · have hA := applyOps_gone_mono pool now sid un (headStep steps).fst.ops c j hj
          generalize applyOps pool now sid un (headStep steps).fst.ops c = A at hA ⊢
          generalize (if A.2.2 = true then Out.raise Exn.err else (headStep steps).1.out) = out
          cases out with
          | raise x => exact hA
          | ret v => exact ih _ hA
          | yieldT t => exact ih _ hA
        · exact ih _ hj
  | .group i r tock always gpool doers deeds :: un, c => by
      intro hj
      have ih := runCycle_gone_mono pool now stock sid j un
      rw [runCycle.eq_def]
      simp only
      split
      · exact ih c hj
      · split
        · rcases resumeGroup now (.group i r tock always gpool doers deeds) with ⟨eg, res⟩
          cases res with
          | raised x => exact hj
          | finished => exact ih _ hj
          | yielded rt t => exact ih _ hj
        · exact ih _ hj

/-- a due deed left of the marker is resumed in this cycle, provided the cycle is not stopped by an exception and
the deed's id is not closed by a `remove` during the cycle (`gone` at the end of the cycle) -/
theorem runCycle_due_recurs (pool : List (Spec τ)) (now stock : τ) (sid : Id) (d : RT τ) (hdue : d.retyme ≤ now) :
    ∀ (un : List (RT τ)) (c : Cyc τ), d ∈ un →
      (runCycle pool now stock sid un c).2.2.2 = none →
      (runCycle pool now stock sid un c).2.2.1.gone.contains d.id = false →
      ev d.id .recur now ∈ (runCycle pool now stock sid un c).1
  | [], c => by intro h; cases h
  | e :: un, c => by
      intro hmem hx hg
      have ih := runCycle_due_recurs pool now stock sid d hdue un
      have hmono := runCycle_gone_mono pool now stock sid d.id (e :: un) c
      -- the visited case: the head itself
      by_cases hge : c.gone.contains e.id = true
      · rw [runCycle_skip_gone pool now stock sid e un c hge] at hx hg ⊢
        rcases List.mem_cons.mp hmem with rfl | hm
        · rw [runCycle_skip_gone pool now stock sid d un c hge] at hmono
          have := List.contains_iff_mem.mpr (hmono (List.contains_iff_mem.mp hge))
          rw [this] at hg; exact tt_ne_ff hg
        · exact ih c hm hx hg
      · have hge' : c.gone.contains e.id = false := by simpa using hge
        rcases List.mem_cons.mp hmem with rfl | hm
        · obtain ⟨rest, hr⟩ := runCycle_head_recur pool now stock sid d un c hdue hge'
          rw [hr]; exact List.mem_cons_self ..
        · cases e with
          | leaf i r steps =>
              simp only [RT.id] at hge'
              rw [runCycle.eq_def] at hx hg ⊢
              simp only [RT.id, RT.retyme, hge', Bool.false_eq_true, if_false] at hx hg ⊢
              by_cases hd : r ≤ now
              · simp only [hd, if_true] at hx hg ⊢
                generalize applyOps pool now sid un (headStep steps).fst.ops c = A at hx hg ⊢
                generalize (if A.2.2 = true then Out.raise Exn.err else (headStep steps).1.out) = out at hx hg ⊢
                cases out with
                | raise x => simp only [reduceCtorEq] at hx
                | ret v => simp only at hx hg ⊢; exact List.mem_append_right _ (ih _ hm hx hg)
                | yieldT t => simp only at hx hg ⊢; exact List.mem_append_right _ (ih _ hm hx hg)
              · simp only [hd, if_false] at hx hg ⊢; exact ih _ hm hx hg
          | group i r tock always gpool doers deeds =>
              simp only [RT.id] at hge'
              rw [runCycle.eq_def] at hx hg ⊢
              simp only [RT.id, RT.retyme, hge', Bool.false_eq_true, if_false] at hx hg ⊢
              by_cases hd : r ≤ now
              · simp only [hd, if_true] at hx hg ⊢
                generalize resumeGroup now (.group i r tock always gpool doers deeds) = G at hx hg ⊢
                rcases G with ⟨eg, res⟩
                cases res with
                | raised x => simp only [reduceCtorEq] at hx
                | finished => simp only at hx hg ⊢; exact List.mem_append_right _ (ih _ hm hx hg)
                | yielded rt t => simp only at hx hg ⊢; exact List.mem_append_right _ (ih _ hm hx hg)
              · simp only [hd, if_false] at hx hg ⊢; exact ih _ hm hx hg
end cyc
end Hio.Sched
