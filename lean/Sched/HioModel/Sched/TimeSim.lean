import HioModel.Sched.TimeFlat
/-!
# C04: one cycle preserves the simulation between a nested forest and its flattening (DESIGN Appendix A.2)
-/
set_option linter.unusedSectionVars false
set_option linter.unusedSimpArgs false
namespace Hio.Sched
variable {τ : Type}
variable [Add τ] [LE τ] [DecidableRel (α := τ) (· ≤ ·)] [OfNat τ 0] [BEq τ]

/-! ### scripts -/

theorem allAsap_g04 : ∀ {s : List (Step τ)}, allAsap s = true → g04 s = true
  | [], _ => rfl
  | st :: rest, h => by
      simp only [allAsap, List.all_cons, Bool.and_eq_true] at h
      have hr : g04 rest = true := allAsap_g04 (by simpa [allAsap] using h.2)
      unfold g04
      cases ho : st.out with
      | yieldT t =>
          have : asap t = true := by simpa [Step.asapOrRet, ho] using h.1
          simp [this, allAsap, h.2]
      | ret v => rfl
      | raise x => rfl

/-- after a yield the rest of a G04 script is G04; after an asap yield it only yields asap -/
theorem g04_after_yield {st : Step τ} {rest : List (Step τ)} {t : Option τ}
    (h : g04 (st :: rest) = true) (ho : st.out = .yieldT t) :
    g04 rest = true ∧ (asap t = true → allAsap rest = true) := by
  unfold g04 at h
  rw [ho] at h
  by_cases ha : asap t = true
  · simp only [ha, if_true] at h
    exact ⟨allAsap_g04 h, fun _ => h⟩
  · simp only [ha] at h
    exact ⟨by simpa using h, fun x => absurd x ha⟩

theorem allAsap_head {st : Step τ} {rest : List (Step τ)} {t : Option τ}
    (h : allAsap (st :: rest) = true) (ho : st.out = .yieldT t) : asap t = true := by
  simp only [allAsap, List.all_cons, Bool.and_eq_true] at h
  simpa [Step.asapOrRet, ho] using h.1

/-! ### keepView -/

theorem keepView_append (keep : Id → Bool) (a b : List (Ev τ)) :
    keepView keep (a ++ b) = keepView keep a ++ keepView keep b := by simp [keepView]

theorem keepView_all {keep : Id → Bool} {a : List (Ev τ)} (h : ∀ e ∈ a, keep e.id = true) : keepView keep a = a := by
  simp only [keepView, List.filter_eq_self]; exact h

theorem keepView_none {keep : Id → Bool} {a : List (Ev τ)} (h : ∀ e ∈ a, keep e.id = false) : keepView keep a = [] := by
  simp only [keepView, List.filter_eq_nil_iff]; intro e he; simp [h e he]

theorem flagEvs_ids (i : Id) (v : Option Bool) (now : τ) : ∀ e ∈ flagEvs i v now, e.id = i := by
  intro e he
  cases v with
  | none => simp [flagEvs] at he
  | some b => simp [flagEvs, ev] at he; simp [he]

theorem stepLeaf_ids (now stock : τ) (i : Id) (r : τ) (s : List (Step τ)) :
    ∀ e ∈ (stepLeaf now stock (.leaf i r s)).1, e.id = i := by
  intro e he
  simp only [stepLeaf] at he
  split at he
  · split at he
    · simp [ev] at he; simp [he]
    · simp only [List.mem_append, List.mem_cons, List.not_mem_nil, or_false] at he
      rcases he with (h | h | h) | h
      · simp [h, ev]
      · simp [h, ev]
      · simp [h, ev]
      · exact flagEvs_ids _ _ _ _ h
    · simp at he
  · simp at he

/-! ### the relation -/

theorem Sim.nil_left {keep : Id → Bool} {b : Bool} {now : τ} {F : List (RT τ)} (h : Sim keep b now [] F) : F = [] := by
  cases h; rfl

theorem Sim.ne_nil {keep : Id → Bool} {now : τ} {N F : List (RT τ)} (h : Sim keep true now N F) (hN : N ≠ []) : F ≠ [] := by
  cases h with
  | nil => exact absurd rfl hN
  | leaf => simp
  | group _ _ hs _ _ => intro e; exact hs rfl (List.append_eq_nil_iff.mp e).1

theorem Sim.nil_iff {keep : Id → Bool} {now : τ} {N F : List (RT τ)} (h : Sim keep true now N F) : N = [] ↔ F = [] := by
  constructor
  · intro e; subst e; exact h.nil_left
  · intro e
    cases hN : N with
    | nil => rfl
    | cons d ds => exact absurd e (h.ne_nil (by simp [hN]))

theorem closeAllRev_append (now : τ) : ∀ (A B : List (RT τ)),
    closeAllRev now (A ++ B) = closeAllRev now B ++ closeAllRev now A
  | [], B => by simp [closeAllRev]
  | a :: A, B => by
      simp only [List.cons_append, closeAllRev]
      rw [closeAllRev_append now A B, List.append_assoc]

/-- forced exits: the leaf events of closing the nested forest are exactly the closing of the flat deque -/
theorem Sim.close {keep : Id → Bool} {b : Bool} {now : τ} {N F : List (RT τ)} (h : Sim keep b now N F) (t : τ) :
    keepView keep (closeAllRev t N) = closeAllRev t F := by
  induction h with
  | nil => simp [closeAllRev, keepView]
  | @leaf i r r' s N F hk _ _ _ _ ih =>
      simp only [closeAllRev, closeRT, keepView_append, ih]
      congr 1
      simp [keepView, ev, hk]
  | @group i rg pool doers deeds N F1 F2 hk _ _ _ _ ih1 ih2 =>
      simp only [closeAllRev, closeRT, keepView_append, ih1, ih2, closeAllRev_append]
      simp [keepView, ev, hk]

section laws
variable [LawfulTyme τ]

theorem asap_zero : asap (some (0 : τ)) = true := by
  simp only [asap]; exact (LawfulTyme.beq_zero (0 : τ)).mpr rfl

theorem DueEq.due_iff {now r r' : τ} {s : List (Step τ)} (h : DueEq now r r' s) : r ≤ now ↔ r' ≤ now := by
  rcases h with h | ⟨h1, h2, _⟩
  · rw [h]
  · exact ⟨fun _ => h2, fun _ => h1⟩

/-- the heart of A.2: one step of a leaf keeps nested and flat due tymes due-equivalent, PROVIDED the script is G04 -/
theorem DueEq.next {tock now stock r r' : τ} {st : Step τ} {rest : List (Step τ)} {t : Option τ}
    (h0 : 0 ≤ tock) (hst : stock = tock ∨ stock = 0)
    (h : DueEq now r r' (st :: rest)) (hg : g04 (st :: rest) = true) (ho : st.out = .yieldT t) :
    DueEq (now + tock) (nextDue now stock r t) (nextDue now tock r' t) rest := by
  obtain ⟨_, hrest⟩ := g04_after_yield hg ho
  unfold nextDue
  by_cases ha : asap t = true
  · simp only [ha, if_true]
    rcases hst with e | e
    · left; rw [e]
    · right
      subst e
      refine ⟨?_, LawfulTyme.le_refl _, hrest ha⟩
      rw [LawfulTyme.add_zero]; exact LawfulTyme.le_add now tock h0
  · simp only [ha]
    rcases h with e | ⟨_, _, hall⟩
    · left; rw [e]; simp
    · exact absurd (allAsap_head hall ho) ha

theorem keepView_stepLeaf {keep : Id → Bool} {i : Id} (hk : keep i = true) (now stock : τ) (r : τ) (s : List (Step τ)) :
    keepView keep (stepLeaf now stock (.leaf i r s)).1 = (stepLeaf now stock (.leaf i r s)).1 :=
  keepView_all (fun e he => by rw [stepLeaf_ids now stock i r s e he]; exact hk)

/-- a transparent group at the head of the unvisited deeds whose own pass leaves nothing: it finishes in this cycle -/
theorem runCycle_group_done (pool gpool : List (Spec τ)) (now stock rg : τ) (sid i : Id) (doers : List Id)
    (deeds un : List (RT τ)) (c : Cyc τ) (es1 : List (Ev τ)) (hrg : rg ≤ now) (hg : c.gone = [])
    (hin : runCycle gpool now 0 i deeds { doers := doers } = (es1, [], { pr := [], doers := doers, gone := [] }, none)) :
    runCycle pool now stock sid (.group i rg 0 false gpool doers deeds :: un) c =
      ([ev i .recur now] ++ es1 ++ [ev i (.flag true) now] ++ [ev i .clean now, ev i .exit now, ev i .exitEnd now]
          ++ [ev i (.flag true) now] ++ (runCycle pool now stock sid un c).1,
       (runCycle pool now stock sid un c).2) := by
  rw [runCycle.eq_def]
  simp only [RT.id, hg, List.contains_nil, Bool.false_eq_true, if_false, RT.retyme, hrg, if_true]
  rw [resumeGroup, hin]
  simp

/-- a transparent group whose own pass leaves `d :: ds`: it is re-queued, due again asap -/
theorem runCycle_group_live (pool gpool : List (Spec τ)) (now stock rg : τ) (sid i : Id) (doers : List Id)
    (deeds un : List (RT τ)) (c : Cyc τ) (es1 : List (Ev τ)) (d : RT τ) (ds : List (RT τ)) (hrg : rg ≤ now) (hg : c.gone = [])
    (hin : runCycle gpool now 0 i deeds { doers := doers } = (es1, [], { pr := d :: ds, doers := doers, gone := [] }, none)) :
    runCycle pool now stock sid (.group i rg 0 false gpool doers deeds :: un) c =
      ([ev i .recur now] ++ es1 ++ [ev i (.flag false) now]
          ++ (runCycle pool now stock sid un
                { c with pr := c.pr ++ [.group i (nextDue now stock rg (some 0)) 0 false gpool doers (d :: ds)] }).1,
       (runCycle pool now stock sid un
                { c with pr := c.pr ++ [.group i (nextDue now stock rg (some 0)) 0 false gpool doers (d :: ds)] }).2) := by
  rw [runCycle.eq_def]
  simp only [RT.id, hg, List.contains_nil, Bool.false_eq_true, if_false, RT.retyme, hrg, if_true]
  rw [resumeGroup, hin]
  simp [RT.setRetyme]

/-- one leaf, one cycle, nested (`stock`) against flat (`tock`): same events, related remainders -/
theorem stepLeaf_sim {keep : Id → Bool} {tock : τ} (h0 : 0 ≤ tock) {now stock r r' : τ} {i : Id} {s : List (Step τ)}
    (hst : stock = tock ∨ stock = 0) (hk : keep i = true) (hp : plainSteps s = true) (hg : g04 s = true)
    (hd : DueEq now r r' s) :
    (stepLeaf now stock (.leaf i r s)).1 = (stepLeaf now tock (.leaf i r' s)).1 ∧
    ∀ N2 F2, Sim keep true (now + tock) N2 F2 →
      Sim keep true (now + tock) ((stepLeaf now stock (.leaf i r s)).2.toList ++ N2)
        ((stepLeaf now tock (.leaf i r' s)).2.toList ++ F2) := by
  obtain ⟨hops, hnr, hprest⟩ := headStep_plain hp
  have hdue := hd.due_iff
  by_cases hr : r ≤ now
  · have hr' : r' ≤ now := hdue.mp hr
    cases ho : (headStep s).1.out with
    | raise x => exact absurd ho (hnr x)
    | ret v =>
      refine ⟨by simp [stepLeaf, hr, hr', ho], fun N2 F2 h2 => ?_⟩
      simpa [stepLeaf, hr, hr', ho] using h2
    | yieldT t =>
      refine ⟨by simp [stepLeaf, hr, hr', ho], fun N2 F2 h2 => ?_⟩
      simp only [stepLeaf, hr, hr', ho, if_true, Option.toList, List.singleton_append]
      cases hs : s with
      | nil => simp [hs, headStep] at ho
      | cons st rest =>
        simp only [hs, headStep] at ho hprest ⊢
        rw [hs] at hg hd
        exact Sim.leaf hk hprest (g04_after_yield hg ho).1 (DueEq.next h0 hst hd hg ho) h2
  · have hr' : ¬ r' ≤ now := fun x => hr (hdue.mpr x)
    refine ⟨by simp [stepLeaf, hr, hr'], fun N2 F2 h2 => ?_⟩
    simp only [stepLeaf, hr, hr', if_false, Option.toList, List.singleton_append]
    refine Sim.leaf hk hp hg ?_ h2
    rcases hd with e | ⟨x, _, _⟩
    · exact Or.inl e
    · exact absurd x hr

/-- ONE CYCLE preserves the simulation.  `stock` is the tock of the scheduler that runs `N`: the Doist's (`tock`) at top
level, `0` inside a transparent group; the flat deque `F` is always run by the Doist. -/
theorem Sim.cycle {keep : Id → Bool} {tock : τ} (h0 : 0 ≤ tock) {b : Bool} {now : τ} {N F : List (RT τ)}
    (h : Sim keep b now N F) :
    ∀ (pool : List (Spec τ)) (stock : τ) (sid : Id) (c : Cyc τ), (stock = tock ∨ stock = 0) → c.gone = [] →
      ∃ esN N', runCycle pool now stock sid N c = (esN, [], { c with pr := c.pr ++ N' }, none)
        ∧ keepView keep esN = flatEvs now tock F
        ∧ Sim keep true (now + tock) N' (flatNext now tock F) := by
  induction h with
  | nil =>
    intro pool stock sid c _ _
    exact ⟨[], [], by rw [runCycle]; simp, rfl, Sim.nil⟩
  | @leaf i r r' s N F hk hp hg hd hsim ih =>
    intro pool stock sid c hst hgone
    rw [runCycle_leaf_plain pool now stock sid i r s N c hp (by simp [hgone])]
    obtain ⟨hev, hnext⟩ := stepLeaf_sim (keep := keep) h0 hst hk hp hg hd
    obtain ⟨es2, N2, hrun, hview, hs2⟩ :=
      ih pool stock sid { c with pr := c.pr ++ (stepLeaf now stock (.leaf i r s)).2.toList } hst hgone
    refine ⟨(stepLeaf now stock (.leaf i r s)).1 ++ es2, (stepLeaf now stock (.leaf i r s)).2.toList ++ N2, ?_, ?_, ?_⟩
    · rw [hrun]; simp [List.append_assoc]
    · rw [keepView_append, hview, flatEvs_cons, keepView_stepLeaf hk, hev]
    · rw [flatNext_cons]; exact hnext N2 _ hs2
  | @group i rg gpool doers deeds N F1 F2 hk hrg hsolid hs1 hs2 ih1 ih2 =>
    intro pool stock sid c hst hgone
    obtain ⟨es1, N1, hrun1, hview1, hsim1⟩ := ih1 gpool 0 i { doers := doers } (Or.inr rfl) rfl
    simp only [List.nil_append] at hrun1
    have hdueg : nextDue now stock rg (some 0) ≤ now + tock := by
      simp only [nextDue, asap_zero, if_true]
      rcases hst with e | e
      · rw [e]; exact LawfulTyme.le_refl _
      · rw [e, LawfulTyme.add_zero]; exact LawfulTyme.le_add now tock h0
    have hgev : ∀ (k : Kind), keepView keep [ev i k now] = [] := fun k => by simp [keepView, ev, hk]
    cases hN1 : N1 with
    | nil =>
      subst hN1
      have hF1 : flatNext now tock F1 = [] := hsim1.nil_left
      obtain ⟨es2, N2, hrun2, hview2, hsim2⟩ := ih2 pool stock sid c hst hgone
      refine ⟨[ev i .recur now] ++ es1 ++ [ev i (.flag true) now] ++ [ev i .clean now, ev i .exit now, ev i .exitEnd now]
          ++ [ev i (.flag true) now] ++ es2, N2, ?_, ?_, ?_⟩
      · rw [runCycle_group_done pool gpool now stock rg sid i doers deeds N c es1 hrg hgone hrun1, hrun2]
      · simp only [keepView_append, hgev, hview1, hview2, flatEvs_append, List.nil_append, List.append_nil]
        simp [keepView, ev, hk]
      · rw [flatNext_append, hF1]; simpa using hsim2
    | cons d ds =>
      subst hN1
      obtain ⟨es2, N2, hrun2, hview2, hsim2⟩ :=
        ih2 pool stock sid { c with pr := c.pr ++ [.group i (nextDue now stock rg (some 0)) 0 false gpool doers (d :: ds)] } hst hgone
      refine ⟨[ev i .recur now] ++ es1 ++ [ev i (.flag false) now] ++ es2,
        .group i (nextDue now stock rg (some 0)) 0 false gpool doers (d :: ds) :: N2, ?_, ?_, ?_⟩
      · rw [runCycle_group_live pool gpool now stock rg sid i doers deeds N c es1 d ds hrg hgone hrun1, hrun2]
        simp [List.append_assoc]
      · simp only [keepView_append, hgev, hview1, hview2, flatEvs_append, List.nil_append, List.append_nil]
      · rw [flatNext_append]
        exact Sim.group hk hdueg (fun _ => hsim1.ne_nil (by simp)) hsim1 hsim2

end laws
end Hio.Sched
